/- Proofs about the Barrett reduction model of Model/NtMod.lean: the quotient estimate is off by at most two (the correction loop runs at
   most twice) and the result is the residue. -/
import RelicVerif.Model.NtMod
import Mathlib.Tactic.Linarith
import Mathlib.Tactic.Ring
import Mathlib.Tactic.Positivity
import Mathlib.Tactic.NormNum
import Mathlib.Algebra.Order.Ring.Int

namespace Relic.Lemmas.NtMod
open Relic.Model.NtMod

/-! ## the correction loop -/

theorem subLoop_spec (m : Int) (hm : 0 < m) : ∀ (j fuel : Nat) (r : Int) (n : Nat), 0 ≤ r → r < m → j < fuel →
    subLoop m fuel (r + (j : Int) * m) n = (r, n + j) := by
  intro j
  induction j with
  | zero =>
    intro fuel r n h0 h1 hf
    cases fuel with
    | zero => omega
    | succ f =>
      have : ¬ (r + ((0 : Nat) : Int) * m ≥ m) := by simp; omega
      rw [subLoop, if_neg this]; simp
  | succ j ih =>
    intro fuel r n h0 h1 hf
    cases fuel with
    | zero => omega
    | succ f =>
      have hj : (0 : Int) ≤ (j : Int) * m := mul_nonneg (Int.natCast_nonneg j) hm.le
      have hge : r + ((j + 1 : Nat) : Int) * m ≥ m := by push_cast; nlinarith
      have he : r + ((j + 1 : Nat) : Int) * m - m = r + (j : Int) * m := by push_cast; ring
      rw [subLoop, if_pos hge, he, ih f r (n + 1) h0 h1 (by omega)]
      congr 1; omega

/-- with the supplied fuel the loop reduces t ≥ 0 to t mod m in ⌊t/m⌋ subtractions -/
theorem subAll_spec (m t : Int) (hm : 0 < m) (ht : 0 ≤ t) : subAll m t = (t % m, (t / m).toNat) := by
  have hq : 0 ≤ t / m := Int.ediv_nonneg ht hm.le
  have h := subLoop_spec m hm (t / m).toNat ((t / m).toNat + 1) (t % m) 0 (Int.emod_nonneg t hm.ne')
    (Int.emod_lt_of_pos t hm) (Nat.lt_succ_self _)
  rw [Int.toNat_of_nonneg hq, Int.emod_add_ediv_mul] at h
  simpa [subAll] using h

/-! ## the quotient estimate -/

/-- HAC 14.42 with P = B^(k-1), Q = B^(k+1): for P ≤ m and 0 ≤ c < P·Q the estimate q3 = ⌊⌊c/P⌋·⌊PQ/m⌋ / Q⌋ satisfies
    q3·m ≤ c < q3·m + 3m -/
theorem barrett_bounds (c m P Q : Int) (hP : 0 < P) (hQ : 0 < Q) (hm : P ≤ m) (hc0 : 0 ≤ c) (hc : c < P * Q) :
    (c / P * (P * Q / m) / Q) * m ≤ c ∧ c < (c / P * (P * Q / m) / Q) * m + 3 * m := by
  have hm0 : 0 < m := lt_of_lt_of_le hP hm
  generalize hu : P * Q / m = u
  generalize hq1 : c / P = q1
  generalize hq3 : q1 * u / Q = q3
  have hu1 : u * m ≤ P * Q := by rw [← hu]; exact Int.ediv_mul_le _ hm0.ne'
  have hu2 : P * Q < (u + 1) * m := by rw [← hu]; exact Int.lt_ediv_add_one_mul_self _ hm0
  have hq1a : q1 * P ≤ c := by rw [← hq1]; exact Int.ediv_mul_le _ hP.ne'
  have hq1b : c < (q1 + 1) * P := by rw [← hq1]; exact Int.lt_ediv_add_one_mul_self _ hP
  have hq3a : q3 * Q ≤ q1 * u := by rw [← hq3]; exact Int.ediv_mul_le _ hQ.ne'
  have hq3b : q1 * u < (q3 + 1) * Q := by rw [← hq3]; exact Int.lt_ediv_add_one_mul_self _ hQ
  have hq10 : 0 ≤ q1 := by rw [← hq1]; exact Int.ediv_nonneg hc0 hP.le
  have hq1Q : q1 < Q := by
    by_contra h
    have h' : Q ≤ q1 := not_lt.mp h
    have : Q * P ≤ q1 * P := mul_le_mul_of_nonneg_right h' hP.le
    nlinarith
  constructor
  · have h1 : q3 * m * Q ≤ c * Q := by
      calc q3 * m * Q = (q3 * Q) * m := by ring
        _ ≤ (q1 * u) * m := mul_le_mul_of_nonneg_right hq3a hm0.le
        _ = q1 * (u * m) := by ring
        _ ≤ q1 * (P * Q) := mul_le_mul_of_nonneg_left hu1 hq10
        _ = (q1 * P) * Q := by ring
        _ ≤ c * Q := mul_le_mul_of_nonneg_right hq1a hQ.le
    exact le_of_mul_le_mul_right h1 hQ
  · have e1 : c * Q < (q1 + 1) * P * Q := mul_lt_mul_of_pos_right hq1b hQ
    have e2 : q1 * (P * Q) ≤ q1 * ((u + 1) * m) := mul_le_mul_of_nonneg_left hu2.le hq10
    have e3 : q1 * u * m < (q3 + 1) * Q * m := mul_lt_mul_of_pos_right hq3b hm0
    have e4 : q1 * m < Q * m := mul_lt_mul_of_pos_right hq1Q hm0
    have e5 : P * Q ≤ m * Q := mul_le_mul_of_nonneg_right hm hQ.le
    have h2 : c * Q < (q3 * m + 3 * m) * Q := by nlinarith
    exact lt_of_mul_lt_mul_right h2 hQ.le

/-- `r1 - r2`, plus B^(k+1) when negative, is the exact difference when that lies in [0, Q) -/
theorem wrap_fix (x y Q : Int) (hQ : 0 < Q) (hd0 : 0 ≤ x - y) (hd1 : x - y < Q) :
    (if x % Q - y % Q < 0 then x % Q - y % Q + Q else x % Q - y % Q) = x - y := by
  have hx := Int.emod_nonneg x hQ.ne'
  have hx' := Int.emod_lt_of_pos x hQ
  have hy := Int.emod_nonneg y hQ.ne'
  have hy' := Int.emod_lt_of_pos y hQ
  have key : (x - y) % Q = (x % Q - y % Q) % Q := Int.sub_emod x y Q
  have hxy : (x - y) % Q = x - y := Int.emod_eq_of_lt hd0 hd1
  split_ifs with h
  · have h3 : (x % Q - y % Q + Q) % Q = x % Q - y % Q + Q := Int.emod_eq_of_lt (by linarith) (by linarith)
    rw [Int.add_emod_right] at h3
    linarith
  · have h3 : (x % Q - y % Q) % Q = x % Q - y % Q := Int.emod_eq_of_lt (by linarith) (by linarith)
    linarith

/-- Barrett proper: for B^(k-1) ≤ m < B^k, 0 ≤ c < B^(2k) and the reciprocal of bn_mod_pre_barrt the result is c mod m
    after at most two corrections -/
theorem barrtCore_spec (w k : Nat) (hw : 2 ≤ w) (hk : 1 ≤ k) (c m : Int)
    (hm1 : ((2 : Int) ^ w) ^ (k - 1) ≤ m) (hm2 : m < ((2 : Int) ^ w) ^ k) (hc1 : 0 ≤ c) (hc2 : c < ((2 : Int) ^ w) ^ (2 * k)) :
    (barrtCore w k c m ((2 : Int) ^ (2 * k * w) / m)).1 = c % m ∧
    (barrtCore w k c m ((2 : Int) ^ (2 * k * w) / m)).2.2 ≤ 2 := by
  obtain ⟨k', rfl⟩ : ∃ k', k = k' + 1 := ⟨k - 1, by omega⟩
  simp only [Nat.add_sub_cancel] at *
  have hB : (0 : Int) < (2 : Int) ^ w := by positivity
  have hB4 : (4 : Int) ≤ (2 : Int) ^ w := by
    calc (4 : Int) = 2 ^ 2 := by norm_num
      _ ≤ 2 ^ w := pow_le_pow_right₀ (by norm_num) hw
  generalize hBd : (2 : Int) ^ w = B at *
  have hP : 0 < B ^ k' := by positivity
  have hQ : 0 < B ^ (k' + 1 + 1) := by positivity
  have hPQ : (2 : Int) ^ (2 * (k' + 1) * w) = B ^ k' * B ^ (k' + 1 + 1) := by
    rw [← hBd, ← pow_mul, ← pow_mul, ← pow_add]; congr 1; ring
  have hN : B ^ (2 * (k' + 1)) = B ^ k' * B ^ (k' + 1 + 1) := by
    rw [← pow_add]; congr 1; ring
  rw [hPQ]
  rw [hN] at hc2
  have hm0 : 0 < m := lt_of_lt_of_le hP hm1
  obtain ⟨hb1, hb2⟩ := barrett_bounds c m (B ^ k') (B ^ (k' + 1 + 1)) hP hQ hm1 hc1 hc2
  have h3m : 3 * m ≤ B ^ (k' + 1 + 1) := by
    have : B ^ (k' + 1 + 1) = B ^ (k' + 1) * B := pow_succ B (k' + 1)
    have hk1 : 0 < B ^ (k' + 1) := by positivity
    nlinarith
  generalize hq3 : c / B ^ k' * (B ^ k' * B ^ (k' + 1 + 1) / m) / B ^ (k' + 1 + 1) = q3 at hb1 hb2
  have hfix := wrap_fix c (q3 * m) (B ^ (k' + 1 + 1)) hQ (by linarith) (by linarith)
  have hd0 : 0 ≤ c - q3 * m := by linarith
  have hsub := subAll_spec m (c - q3 * m) hm0 hd0
  have hmod : (c - q3 * m) % m = c % m := by
    rw [Int.sub_eq_add_neg, ← Int.neg_mul, Int.add_mul_emod_self_right]
  have hdiv : ((c - q3 * m) / m).toNat ≤ 2 := by
    have : (c - q3 * m) / m < 3 := Int.ediv_lt_of_lt_mul hm0 (by linarith)
    omega
  simp only [barrtCore, hBd, Nat.add_sub_cancel, hq3, hfix, hsub]
  exact ⟨hmod, hdiv⟩

/-! ## digit counts -/

theorem used_upper (w n : Nat) (hw : 0 < w) : n < 2 ^ (w * used w n) := by
  unfold used
  split
  · subst_vars; positivity
  · calc n < 2 ^ (n.log2 + 1) := Nat.lt_log2_self
      _ ≤ 2 ^ (w * (n.log2 / w + 1)) := Nat.pow_le_pow_right (by omega) (Nat.lt_mul_div_succ _ hw)

theorem used_lower (w n : Nat) (hn : n ≠ 0) : 2 ^ (w * (used w n - 1)) ≤ n := by
  unfold used
  simp only [hn, if_false, Nat.add_sub_cancel]
  calc 2 ^ (w * (n.log2 / w)) ≤ 2 ^ n.log2 := Nat.pow_le_pow_right (by omega) (Nat.mul_div_le _ _)
    _ ≤ n := Nat.log2_self_le hn

theorem used_pos (w n : Nat) : 1 ≤ used w n := by
  unfold used; split
  · exact Nat.le_refl 1
  · exact Nat.le_add_left 1 _

theorem lt_of_used_le (w n j : Nat) (hw : 0 < w) (h : used w n ≤ j) : n < 2 ^ (w * j) :=
  lt_of_lt_of_le (used_upper w n hw) (Nat.pow_le_pow_right (by omega) (Nat.mul_le_mul_left w h))

/-- the residue of a negative number from the residue of its magnitude: what `if (neg && c != 0) c = m - c` computes -/
theorem neg_residue (a m : Int) (hm : 0 < m) : a % m = if (-a) % m = 0 then 0 else m - (-a) % m := by
  have h1 := Int.emod_add_mul_ediv (-a) m
  have h2 := Int.emod_nonneg (-a) hm.ne'
  have h3 := Int.emod_lt_of_pos (-a) hm
  generalize (-a) % m = r at h1 h2 h3 ⊢
  generalize (-a) / m = q at h1
  obtain rfl : a = -(r + m * q) := by linarith
  split
  · next h =>
    subst h
    exact Int.emod_eq_zero_of_dvd ⟨-q, by ring⟩
  · next h =>
    have e : -(r + m * q) = (m - r) + m * (-q - 1) := by ring
    rw [e, Int.add_mul_emod_self_left]
    exact Int.emod_eq_of_lt (by omega) (by omega)

/-- bn_mod_pre_barrt then bn_mod_barrt for EVERY integer a, m > 0 (code after fix 060ee71): the residue a mod m on every path; on the
Barrett path at most two corrections -/
theorem modBarrtFull_spec (w : Nat) (hw : 2 ≤ w) (a m : Int) (hm : 0 < m) :
    ∃ p, modBarrtFull w a m = some (a % m, p) ∧ ∀ wr n, p = BarrtPath.main wr n → n ≤ 2 := by
  have hmn : ¬ m ≤ 0 := not_le.mpr hm
  simp only [modBarrtFull, preBarrt, modBarrt, hmn, if_false]
  have hma : (m.natAbs : Int) = m := Int.natAbs_of_nonneg hm.le
  have hmt : (m.toNat : Int) = m := Int.toNat_of_nonneg hm.le
  have hc0 : (0 : Int) ≤ (a.natAbs : Int) := Int.natCast_nonneg _
  by_cases h1 : a.natAbs < m.natAbs
  · refine ⟨.early, ?_, by intro _ _ h; cases h⟩
    simp only [h1, if_true]
    by_cases hneg : a < 0
    · simp only [hneg, if_true]
      have e : a % m = (a + m) % m := by
        have h9 := Int.add_mul_emod_self_right a 1 m
        rw [one_mul] at h9
        exact h9.symm
      rw [e, Int.emod_eq_of_lt (by omega) (by omega)]
    · simp only [hneg, if_false]
      rw [Int.emod_eq_of_lt (by omega) (by omega)]
  · simp only [h1, if_false]
    by_cases h2 : used w a.natAbs > 2 * used w m.toNat
    · exact ⟨.long, by simp only [h2, if_true], by intro _ _ h; cases h⟩
    · simp only [h2, if_false]
      have hw0 : 0 < w := by omega
      have hmne : m.toNat ≠ 0 := by omega
      have hml := used_lower w m.toNat hmne
      have hmu := used_upper w m.toNat hw0
      have hau := lt_of_used_le w a.natAbs (2 * used w m.toNat) hw0 (by omega)
      have hm1 : ((2 : Int) ^ w) ^ (used w m.toNat - 1) ≤ m := by
        rw [← pow_mul, ← hmt]; exact_mod_cast hml
      have hm2 : m < ((2 : Int) ^ w) ^ (used w m.toNat) := by
        rw [← pow_mul]; conv_lhs => rw [← hmt]
        exact_mod_cast hmu
      have hc2 : (a.natAbs : Int) < ((2 : Int) ^ w) ^ (2 * used w m.toNat) := by
        rw [← pow_mul]; exact_mod_cast hau
      obtain ⟨hv, hn⟩ := barrtCore_spec w (used w m.toNat) hw (used_pos w _) (a.natAbs : Int) m hm1 hm2 hc0 hc2
      refine ⟨.main (barrtCore w (used w m.toNat) (a.natAbs : Int) m ((2 : Int) ^ (2 * used w m.toNat * w) / m)).2.1
                    (barrtCore w (used w m.toNat) (a.natAbs : Int) m ((2 : Int) ^ (2 * used w m.toNat * w) / m)).2.2, ?_, ?_⟩
      · rw [hv]
        by_cases hneg : a < 0
        · have habs : (a.natAbs : Int) = -a := by omega
          rw [habs, neg_residue a m hm]
          by_cases hz : (-a) % m = 0
          · simp [hz]
          · simp [hz, hneg]
        · have habs : (a.natAbs : Int) = a := by omega
          rw [habs]
          simp [hneg]
      · intro wr n h
        cases h
        exact hn

/-- (kept) the non-negative case of modBarrtFull_spec -/
theorem modBarrtFull_nonneg (w : Nat) (hw : 2 ≤ w) (a m : Int) (hm : 0 < m) (_ha : 0 ≤ a) :
    ∃ p, modBarrtFull w a m = some (a % m, p) ∧ ∀ wr n, p = BarrtPath.main wr n → n ≤ 2 :=
  modBarrtFull_spec w hw a m hm

end Relic.Lemmas.NtMod
