/-
One iteration of the main loop of `divnLow` computes one exact quotient digit.
-/
import RelicVerif.Lemmas.KnuthDLoops
import RelicVerif.Lemmas.KnuthDArith
namespace Relic.Model

theorem val_take_lt (B : Nat) (hB : 0 < B) (a : List Nat) (ha : ∀ d ∈ a, d < B) (j : Nat) :
    val B (a.take j) < B ^ j := by
  have h1 := val_lt B (a.take j) (digs_take ha j)
  have h2 : (a.take j).length ≤ j := List.length_take_le j a
  exact Nat.lt_of_lt_of_le h1 (Nat.pow_le_pow_right hB h2)

/-- the leading three digits of `a` (top index `j+2`) -/
theorem val_top3 (B : Nat) (a : List Nat) (j : Nat) (hz : val B (a.drop (j + 3)) = 0) :
    val B a = val B (a.take j) + B ^ j * (a.getD j 0 + B * (a.getD (j + 1) 0 + B * a.getD (j + 2) 0)) := by
  rw [val_take_drop B j a, val_drop_succ B j a, val_drop_succ B (j + 1) a, val_drop_succ B (j + 2) a, hz]
  simp

/-- the leading two digits of `b` (top index `j+1 = b.length - 1`) -/
theorem val_top2 (B : Nat) (b : List Nat) (j : Nat) (hl : b.length = j + 2) :
    val B b = val B (b.take j) + B ^ j * (b.getD j 0 + B * b.getD (j + 1) 0) := by
  rw [val_take_drop B j b, val_drop_succ B j b, val_drop_succ B (j + 1) b]
  have : b.drop (j + 1 + 1) = [] := by simp; omega
  rw [this]; simp [val]

theorem val_top1 (B : Nat) (b : List Nat) (hl : b.length = 1) : val B b = b.getD 0 0 := by
  match b, hl with
  | [x], _ => simp [val]

theorem top_bounds (B : Nat) (hB : 1 < B) (a b : List Nat) (i : Nat)
    (ha : ∀ d ∈ a, d < B) (hb : ∀ d ∈ b, d < B) (hbne : 0 < b.length) (hi1 : b.length ≤ i)
    (hz : val B (a.drop (i + 1)) = 0) :
    ∃ S c, 0 < c ∧
      ((if i < 2 then 0 else a.getD (i - 2) 0) + B * (a.getD (i - 1) 0 + B * a.getD i 0)) * S
        ≤ c * val B a ∧
      c * val B a <
        ((if i < 2 then 0 else a.getD (i - 2) 0) + B * (a.getD (i - 1) 0 + B * a.getD i 0) + 1) * S ∧
      ((if b.length - 1 = 0 then 0 else b.getD (b.length - 1 - 1) 0) + B * b.getD (b.length - 1) 0) * S
        ≤ c * (B ^ (i - (b.length - 1) - 1) * val B b) ∧
      c * (B ^ (i - (b.length - 1) - 1) * val B b) <
        ((if b.length - 1 = 0 then 0 else b.getD (b.length - 1 - 1) 0) + B * b.getD (b.length - 1) 0 + 1) * S := by
  have hB0 : 0 < B := by omega
  by_cases ht : b.length - 1 = 0
  · -- single-digit divisor
    have hl : b.length = 1 := by omega
    rw [if_pos ht, ht, val_top1 B b hl]
    by_cases hi : i < 2
    · have hi' : i = 1 := by omega
      subst hi'
      refine ⟨1, B, hB0, ?_⟩
      rw [if_pos hi]
      have hA : val B a = a.getD 0 0 + B * a.getD 1 0 := by
        rw [val_take_drop B 0 a, val_drop_succ B 0 a, val_drop_succ B 1 a, hz]; simp [val]
      rw [hA]
      simp only [Nat.sub_self, Nat.zero_add, Nat.mul_one, Nat.pow_zero, Nat.one_mul, Nat.sub_zero]
      refine ⟨by linarith, by linarith, Nat.le_refl _, by omega⟩
    · obtain ⟨j, rfl⟩ : ∃ j, i = j + 2 := ⟨i - 2, by omega⟩
      refine ⟨B ^ j, 1, by omega, ?_⟩
      rw [if_neg hi]
      have hA := val_top3 B a j hz
      have hlo := val_take_lt B hB0 a ha j
      simp only [Nat.add_sub_cancel, Nat.one_mul, Nat.zero_add, Nat.sub_zero]
      have e1 : j + 2 - 1 = j + 1 := by omega
      rw [e1, Nat.pow_succ]
      refine ⟨?_, ?_, ?_, ?_⟩
      · rw [hA]; linarith
      · rw [hA]; linarith
      · apply Nat.le_of_eq; ring
      · have : 0 < B ^ j := Nat.pow_pos hB0
        linarith
  · -- at least two divisor digits
    obtain ⟨m, hm⟩ : ∃ m, b.length = m + 2 := ⟨b.length - 2, by omega⟩
    obtain ⟨j, rfl⟩ : ∃ j, i = j + 2 := ⟨i - 2, by omega⟩
    have hi : ¬ (j + 2 < 2) := by omega
    refine ⟨B ^ j, 1, by omega, ?_⟩
    rw [if_neg hi, if_neg ht]
    have hA := val_top3 B a j hz
    have hlo := val_take_lt B hB0 a ha j
    have hV := val_top2 B b m hm
    have hvlo := val_take_lt B hB0 b hb m
    have e1 : b.length - 1 - 1 = m := by omega
    have e2 : b.length - 1 = m + 1 := by omega
    have e3 : j + 2 - (m + 1) - 1 = j - m := by omega
    have e4 : j + 2 - 2 = j := by omega
    have e5 : j + 2 - 1 = j + 1 := by omega
    rw [e1, e2, e3, e4, e5]
    simp only [Nat.one_mul]
    have hjm : B ^ j = B ^ (j - m) * B ^ m := by rw [← Nat.pow_add]; congr 1; omega
    have hp : 0 < B ^ (j - m) := Nat.pow_pos hB0
    refine ⟨?_, ?_, ?_, ?_⟩
    · rw [hA]; linarith
    · rw [hA]; linarith
    · rw [hV, hjm]; linarith [Nat.zero_le (B ^ (j - m) * val B (List.take m b))]
    · rw [hV, hjm]
      have h := Nat.mul_lt_mul_of_pos_left hvlo hp
      linarith [h]

theorem val_ge_top (B : Nat) (b : List Nat) (hbne : 0 < b.length) :
    B ^ (b.length - 1) * b.getD (b.length - 1) 0 ≤ val B b := by
  have h1 := val_take_drop B (b.length - 1) b
  have h2 := val_drop_succ B (b.length - 1) b
  have : b.drop (b.length - 1 + 1) = [] := by simp; omega
  rw [this] at h2
  simp only [val, Nat.mul_zero, Nat.add_zero] at h2
  rw [h2] at h1
  omega

theorem stepCore_spec (B : Nat) (hB : 1 < B) (a b : List Nat) (i : Nat)
    (ha : ∀ d ∈ a, d < B) (hb : ∀ d ∈ b, d < B) (hbne : 0 < b.length)
    (hbt : 0 < b.getD (b.length - 1) 0) (hi1 : b.length ≤ i) (hi2 : i < a.length)
    (hinv : val B a < B * (B ^ (i - (b.length - 1) - 1) * val B b)) :
    val B (stepCore B a.length b a i).1 = val B a % (B ^ (i - (b.length - 1) - 1) * val B b)
    ∧ (stepCore B a.length b a i).2 = val B a / (B ^ (i - (b.length - 1) - 1) * val B b)
    ∧ (∀ d ∈ (stepCore B a.length b a i).1, d < B)
    ∧ (stepCore B a.length b a i).1.length = a.length := by
  have hB0 : 0 < B := by omega
  have hVge := val_ge_top B b hbne
  have hVlt := val_lt B b hb
  have hVpos : 0 < val B b := by
    have : 0 < B ^ (b.length - 1) * b.getD (b.length - 1) 0 := Nat.mul_pos (Nat.pow_pos hB0) hbt
    omega
  have hWpos : 0 < B ^ (i - (b.length - 1) - 1) * val B b := Nat.mul_pos (Nat.pow_pos hB0) hVpos
  have hAlt : val B a < B ^ (i + 1) := by
    have e : i + 1 = 1 + (i - (b.length - 1) - 1) + b.length := by omega
    rw [e, Nat.pow_add, Nat.pow_add, Nat.pow_one]
    have h1 : B ^ (i - (b.length - 1) - 1) * val B b < B ^ (i - (b.length - 1) - 1) * B ^ b.length :=
      Nat.mul_lt_mul_of_pos_left hVlt (Nat.pow_pos hB0)
    have h2 := Nat.mul_lt_mul_of_pos_left h1 hB0
    rw [Nat.mul_assoc]
    exact Nat.lt_trans hinv h2
  have hz := val_drop_eq_zero B a (i + 1) hAlt
  obtain ⟨S, c, hc, hA1, hA2, hV1, hV2⟩ := top_bounds B hB a b i ha hb hbne hi1 hz
  have hbt1B : (if b.length - 1 = 0 then 0 else b.getD (b.length - 1 - 1) 0) < B := by
    split
    · exact hB0
    · exact getD_lt hb hB0 _
  have hai2B : (if i < 2 then 0 else a.getD (i - 2) 0) < B := by
    split
    · exact hB0
    · exact getD_lt ha hB0 _
  have hai1B : a.getD (i - 1) 0 < B := getD_lt ha hB0 _
  have haiB : a.getD i 0 < B := getD_lt ha hB0 _
  have hbtB : b.getD (b.length - 1) 0 < B := getD_lt hb hB0 _
  obtain ⟨hle, hdiv, hcorr⟩ := qhat_correct B (val B a) (B ^ (i - (b.length - 1) - 1) * val B b) S c
    (a.getD i 0) (a.getD (i - 1) 0) (if i < 2 then 0 else a.getD (i - 2) 0)
    (b.getD (b.length - 1) 0) (if b.length - 1 = 0 then 0 else b.getD (b.length - 1 - 1) 0)
    hB hc hWpos hai1B hai2B hbt1B hbt hA1 hA2 hV1 hV2 hinv
  have hqe : qEst B (b.getD (b.length - 1) 0) (a.getD i 0) (a.getD (i - 1) 0)
      = (if a.getD i 0 = b.getD (b.length - 1) 0 then B - 1
          else (a.getD i 0 * B + a.getD (i - 1) 0) / b.getD (b.length - 1) 0) := by
    unfold qEst
    by_cases he : a.getD i 0 = b.getD (b.length - 1) 0
    · rw [if_pos he, if_pos he]
    · rw [if_neg he, if_neg he, Nat.mod_eq_of_lt (hdiv he)]
  have hqeB : (if a.getD i 0 = b.getD (b.length - 1) 0 then B - 1
          else (a.getD i 0 * B + a.getD (i - 1) 0) / b.getD (b.length - 1) 0) < B := by
    by_cases he : a.getD i 0 = b.getD (b.length - 1) 0
    · rw [if_pos he]; omega
    · rw [if_neg he]; exact hdiv he
  obtain ⟨l1, l2, l3⟩ := qhatLoop_spec B hB _ _ _ _ _ hbt1B hbtB hai2B hai1B haiB B _ hqeB hqeB
  rw [← hqe] at l1 l2 l3
  have hqh := hcorr (qHat B b a i) (by rw [← hqe]; exact l1) l2 (by rw [← hqe]; exact l3)
  have hqhB : qHat B b a i < B := by
    have : qHat B b a i ≤ qEst B (b.getD (b.length - 1) 0) (a.getD i 0) (a.getD (i - 1) 0) := l1
    rw [hqe] at this
    omega
  obtain ⟨d1, d2, d3, d4⟩ := mulD_spec B hB b (qHat B b a i) hqhB hb
  obtain ⟨w1, w2, w3, w4⟩ := winSub_spec B hB a (i - (b.length - 1) - 1) (mulD B b (qHat B b a i))
    (by omega) ha d2
  have hRlt := val_lt B _ w3
  rw [w4] at hRlt
  have hAP := val_lt B a ha
  rw [d1] at w1
  unfold stepCore
  generalize winSub B a.length a (i - (b.length - 1) - 1) (mulD B b (qHat B b a i)) = r
    at w1 w2 w3 w4 hRlt ⊢
  by_cases hc2 : r.2 = 0
  · rw [if_neg (by simpa using hc2)]
    rw [hc2] at w1
    have heq : val B r.1 + qHat B b a i * (B ^ (i - (b.length - 1) - 1) * val B b) = val B a := by
      linarith [w1]
    obtain ⟨e1, e2⟩ := sub_no_borrow _ _ _ _ hWpos hqh.1 heq
    exact ⟨e2, e1, w3, w4⟩
  · rw [if_pos hc2]
    have hc1 : r.2 = 1 := by omega
    rw [hc1] at w1
    have heq : val B r.1 + qHat B b a i * (B ^ (i - (b.length - 1) - 1) * val B b)
        = val B a + B ^ a.length := by
      linarith [w1]
    obtain ⟨e1, e2⟩ := sub_borrow _ _ _ _ _ hqh.1 hqh.2 heq hRlt
    obtain ⟨⟨c3, x1⟩, x2, x3⟩ := winAdd_spec B hB r.1 (i - (b.length - 1) - 1) b
      (by rw [w4]; omega) w3 hb
    rw [w4] at x1 x3
    have hXlt := val_lt B _ x2
    rw [x3] at hXlt
    have hmodlt : val B a % (B ^ (i - (b.length - 1) - 1) * val B b) < B ^ a.length :=
      Nat.lt_of_le_of_lt (Nat.mod_le _ _) hAP
    have hc3 : c3 = 1 := by
      rcases Nat.lt_or_ge c3 1 with h | h
      · have : c3 = 0 := by omega
        subst this; omega
      · rcases Nat.lt_or_ge c3 2 with h2 | h2
        · omega
        · have : 2 * B ^ a.length ≤ c3 * B ^ a.length := Nat.mul_le_mul_right _ h2
          omega
    subst hc3
    refine ⟨?_, ?_, x2, x3⟩
    · show val B (winAdd B r.1 (i - (b.length - 1) - 1) b) = _
      omega
    show (qHat B b a i + B - 1) % B = _
    rw [e1]
    have hq1 : val B a / (B ^ (i - (b.length - 1) - 1) * val B b) + 1 < B := by omega
    have : val B a / (B ^ (i - (b.length - 1) - 1) * val B b) + 1 + B - 1
        = val B a / (B ^ (i - (b.length - 1) - 1) * val B b) + B := by omega
    rw [this, Nat.add_mod_right, Nat.mod_eq_of_lt (by omega)]

end Relic.Model
