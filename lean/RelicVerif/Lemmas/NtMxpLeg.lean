/-
bn_smb_leg (Model/NtMxp.lean: smbLeg) returns the Legendre symbol for every integer a and every odd prime p:
Euler's criterion (Mathlib: legendreSym.eq_pow) on top of the exactness of bn_mxp_slide.
-/
import RelicVerif.Lemmas.NtMxp
import Mathlib.NumberTheory.LegendreSymbol.Basic

namespace Relic.Model.NtMxp

theorem canon_unique (p r v : Int) (hr0 : 0 ≤ r) (hr1 : r < p) (hv0 : 0 ≤ v) (hv1 : v < p) (h : r ≡ v [ZMOD p]) : r = v := by
  unfold Int.ModEq at h
  rwa [Int.emod_eq_of_lt hr0 hr1, Int.emod_eq_of_lt hv0 hv1] at h

theorem smbLeg_spec (w : Nat) (p : Nat) [hp : Fact p.Prime] (hp2 : p ≠ 2) (a : Int) :
    smbLeg w a (p : Int) = some (legendreSym p a) := by
  have hodd : p % 2 = 1 := (hp.out.eq_two_or_odd).resolve_left hp2
  have hp1 : 1 < p := hp.out.one_lt
  unfold smbLeg
  have hneg : ¬ ((p : Int) < 0) := by omega
  simp only [if_neg hneg]
  by_cases hab : a = (p : Int)
  · simp only [if_pos hab]
    congr 1
    symm
    rw [legendreSym.eq_zero_iff, hab]
    simp
  simp only [if_neg hab]
  have ht : Int.tdiv ((p : Int) - 1) 2 = ((p / 2 : Nat) : Int) := by
    rw [Int.tdiv_eq_ediv_of_nonneg (by omega)]; omega
  rw [ht, mxpSlide_nonneg w a _ (p : Int) (by omega) (by omega) (by omega)]
  simp only [Int.toNat_natCast, Option.map_some, Option.some.injEq]
  set r := a ^ (p / 2) % (p : Int) with hr
  have hr0 : 0 ≤ r := Int.emod_nonneg _ (by omega)
  have hr1 : r < p := Int.emod_lt_of_pos _ (by omega)
  have hcast : ((r : Int) : ZMod p) = ((legendreSym p a : Int) : ZMod p) := by
    rw [legendreSym.eq_pow, hr, ZMod.intCast_mod]; push_cast; rfl
  have hmod : r ≡ legendreSym p a [ZMOD p] := (ZMod.intCast_eq_intCast_iff _ _ _).1 hcast
  by_cases ha0 : (a : ZMod p) = 0
  · have hL : legendreSym p a = 0 := (legendreSym.eq_zero_iff p a).2 ha0
    rw [hL] at hmod ⊢
    have : r = 0 := canon_unique p r 0 hr0 hr1 (by omega) (by omega) hmod
    rw [this]; split_ifs <;> omega
  · rcases legendreSym.eq_one_or_neg_one p ha0 with hL | hL
    · rw [hL] at hmod ⊢
      have : r = 1 := canon_unique p r 1 hr0 hr1 (by omega) (by omega) hmod
      rw [this]; split_ifs <;> omega
    · rw [hL] at hmod ⊢
      have h1 : (-1 : Int) ≡ (p : Int) - 1 [ZMOD p] := by
        rw [Int.modEq_iff_dvd]; exact ⟨1, by ring⟩
      have : r = (p : Int) - 1 := canon_unique p r _ hr0 hr1 (by omega) (by omega) (hmod.trans h1)
      rw [this]; split_ifs <;> omega

end Relic.Model.NtMxp
