/-
Helper lemmas for BnHigh.lean: stripZeros / bnTrim / val / WF / toInt, comparison of normal forms,
and the digit-vector cores of bn_add_imp / bn_sub_imp / bn_rsh. Generic list-level helpers live under
`Relic.Model.High.*` so that they cannot clash with helpers added to the digit-level files.
-/
import RelicVerif.Lemmas.BnLowAdd
import RelicVerif.Lemmas.BnLowShift
import RelicVerif.Model.Bn
import Mathlib.Tactic.Linarith
import Mathlib.Tactic.Ring

namespace Relic.Model

theorem High.snoc_induction {P : List Nat → Prop} (h0 : P []) (h1 : ∀ l x, P l → P (l ++ [x])) :
    ∀ l, P l := by
  intro l
  have : ∀ r : List Nat, P r.reverse := by
    intro r
    induction r with
    | nil => exact h0
    | cons x xs ih => simpa using h1 _ x ih
  simpa using this l.reverse

theorem stripZeros_nil : stripZeros [] = [] := rfl

theorem stripZeros_snoc (l : List Nat) (x : Nat) :
    stripZeros (l ++ [x]) = if x = 0 then stripZeros l else l ++ [x] := by
  unfold stripZeros
  by_cases hx : x = 0 <;> simp [hx]

theorem High.val_snoc (B : Nat) (l : List Nat) (x : Nat) : val B (l ++ [x]) = val B l + B ^ l.length * x := by
  rw [val_append]; simp [val]

theorem val_stripZeros (B : Nat) : ∀ l, val B (stripZeros l) = val B l := by
  apply High.snoc_induction
  · rfl
  · intro l x ih
    rw [stripZeros_snoc]
    split
    · subst x; rw [ih, High.val_snoc]; simp
    · rfl

theorem stripZeros_mem : ∀ l, ∀ d ∈ stripZeros l, d ∈ l := by
  apply High.snoc_induction
  · simp [stripZeros_nil]
  · intro l x ih d hd
    rw [stripZeros_snoc] at hd
    split at hd
    · simp [ih d hd]
    · exact hd

theorem stripZeros_getLast : ∀ l, (stripZeros l).getLast? ≠ some 0 := by
  apply High.snoc_induction
  · simp [stripZeros_nil]
  · intro l x ih
    rw [stripZeros_snoc]
    split
    · exact ih
    · simp; omega

theorem stripZeros_length_le : ∀ l, (stripZeros l).length ≤ l.length := by
  apply High.snoc_induction
  · simp [stripZeros_nil]
  · intro l x ih
    rw [stripZeros_snoc]
    split
    · simp; omega
    · simp

theorem stripZeros_eq_self : ∀ l : List Nat, l.getLast? ≠ some 0 → stripZeros l = l := by
  apply High.snoc_induction
  · intro _; rfl
  · intro l x _ h
    rw [stripZeros_snoc]
    have : x ≠ 0 := by simpa using h
    simp [this]

/-- a digit list whose top digit is non-zero is at least B^(len-1) -/
theorem High.val_ge_of_top (B : Nat) : ∀ l : List Nat, l ≠ [] → l.getLast? ≠ some 0 →
    B ^ (l.length - 1) ≤ val B l := by
  apply High.snoc_induction
  · intro h; exact absurd rfl h
  · intro l x _ _ h
    have hx : x ≠ 0 := by simpa using h
    rw [High.val_snoc]
    simp only [List.length_append, List.length_cons, List.length_nil, Nat.add_sub_cancel]
    have : B ^ l.length * 1 ≤ B ^ l.length * x := Nat.mul_le_mul_left _ (by omega)
    omega

/-- a digit list whose top digit is zero is below B^(len-1) -/
theorem High.val_lt_of_top_zero (B : Nat) : ∀ l : List Nat, (∀ d ∈ l, d < B) → l.getLast? = some 0 →
    val B l < B ^ (l.length - 1) := by
  apply High.snoc_induction
  · intro _ h; simp at h
  · intro l x _ hd h
    have hx : x = 0 := by simpa using h
    subst hx
    rw [High.val_snoc]
    simp only [List.length_append, List.length_cons, List.length_nil, Nat.add_sub_cancel, Nat.mul_zero, Nat.add_zero]
    exact val_lt B l (fun d hd' => hd d (by simp [hd']))

theorem Cfg.one_lt_B (cfg : Cfg) (hw : 0 < cfg.w) : 1 < cfg.B := by
  unfold Cfg.B; exact Nat.one_lt_two_pow (by omega)

theorem toInt_natAbs (B : Nat) (a : Bn) : (a.toInt B).natAbs = val B a.dp := by
  unfold Bn.toInt; split <;> simp

theorem Bn.WF.ne_nil {B : Nat} {a : Bn} (h : a.WF B) : a.dp ≠ [] := h.1
theorem Bn.WF.used_pos {B : Nat} {a : Bn} (h : a.WF B) : 1 ≤ a.used := by
  have := h.1; unfold Bn.used; exact List.length_pos_iff.mpr this
theorem Bn.WF.dig {B : Nat} {a : Bn} (h : a.WF B) : ∀ d ∈ a.dp, d < B := h.2.1
theorem Bn.WF.val_lt {B : Nat} {a : Bn} (h : a.WF B) : val B a.dp < B ^ a.used :=
  Relic.Model.val_lt B a.dp h.dig

theorem Bn.WF.val_ge {B : Nat} {a : Bn} (h : a.WF B) (h2 : 2 ≤ a.used) : B ^ (a.used - 1) ≤ val B a.dp := by
  apply High.val_ge_of_top B a.dp h.1
  rcases h.2.2.1 with h1 | h1
  · unfold Bn.used at h2; omega
  · exact h1

theorem Bn.WF.val_eq_zero_iff {B : Nat} (hB : 1 < B) {a : Bn} (h : a.WF B) : val B a.dp = 0 ↔ a.dp = [0] := by
  constructor
  · intro hv
    by_cases h2 : 2 ≤ a.used
    · have := h.val_ge h2
      have : 0 < B ^ (a.used - 1) := Nat.pow_pos (by omega)
      omega
    · have h1 := h.used_pos
      unfold Bn.used at *
      match hdp : a.dp with
      | [] => exact absurd hdp h.1
      | [x] => rw [hdp] at hv; simp [val] at hv; simp [hv]
      | _ :: _ :: _ => rw [hdp] at h2; simp at h2
  · intro hv; rw [hv]; simp [val]

theorem Bn.WF.isZero_iff {B : Nat} (hB : 1 < B) {a : Bn} (h : a.WF B) : bnIsZero a = true ↔ val B a.dp = 0 := by
  rw [h.val_eq_zero_iff hB]
  unfold bnIsZero
  have := h.1
  match hdp : a.dp with
  | [] => exact absurd hdp h.1
  | [x] => simp
  | _ :: _ :: _ => simp

theorem Bn.WF.neg_pos {B : Nat} (hB : 1 < B) {a : Bn} (h : a.WF B) (hn : a.neg = true) : 0 < val B a.dp := by
  apply Nat.pos_of_ne_zero
  intro hv
  have := h.2.2.2 ((h.val_eq_zero_iff hB).1 hv)
  simp [hn] at this

/-- more digits, larger magnitude -/
theorem Bn.WF.val_lt_of_used_lt {B : Nat} (hB : 1 < B) {a b : Bn} (ha : a.WF B) (hb : b.WF B)
    (h : a.used < b.used) : val B a.dp < val B b.dp := by
  have h1 := ha.val_lt
  have h2 := hb.val_ge (by have := ha.used_pos; omega)
  have : B ^ a.used ≤ B ^ (b.used - 1) := Nat.pow_le_pow_right (by omega) (by omega)
  omega

theorem Bn.WF.used_le_of_val_le {B : Nat} (hB : 1 < B) {a b : Bn} (ha : a.WF B) (hb : b.WF B)
    (h : val B a.dp ≤ val B b.dp) : a.used ≤ b.used := by
  by_contra hc
  have := Bn.WF.val_lt_of_used_lt hB hb ha (by omega)
  omega

theorem bnTrim_nil {a : Bn} (h : stripZeros a.dp = []) : bnTrim a = { neg := false, dp := [0] } := by
  unfold bnTrim; simp [h]

theorem bnTrim_ne_nil {a : Bn} (h : stripZeros a.dp ≠ []) : bnTrim a = { neg := a.neg, dp := stripZeros a.dp } := by
  unfold bnTrim; simp [h]

theorem bnTrim_WF {B : Nat} (hB : 0 < B) (a : Bn) (h : ∀ d ∈ a.dp, d < B) : (bnTrim a).WF B := by
  by_cases he : stripZeros a.dp = []
  · rw [bnTrim_nil he]
    refine ⟨by simp, by simpa using hB, by simp, fun _ => rfl⟩
  · rw [bnTrim_ne_nil he]
    refine ⟨he, fun d hd => h d (stripZeros_mem _ d hd), Or.inr (stripZeros_getLast _), ?_⟩
    intro h0
    have := stripZeros_getLast a.dp
    simp only at h0
    rw [h0] at this
    simp at this

theorem bnTrim_toInt (B : Nat) (a : Bn) : (bnTrim a).toInt B = a.toInt B := by
  by_cases he : stripZeros a.dp = []
  · rw [bnTrim_nil he]
    have hv : val B a.dp = 0 := by rw [← val_stripZeros, he]; rfl
    unfold Bn.toInt
    simp [val, hv]
  · rw [bnTrim_ne_nil he]
    unfold Bn.toInt
    simp only [val_stripZeros]

theorem bnTrim_of_WF {B : Nat} {a : Bn} (h : a.WF B) : bnTrim a = a := by
  by_cases h0 : a.dp = [0]
  · have hn := h.2.2.2 h0
    obtain ⟨n, dp⟩ := a
    simp only at h0 hn
    subst h0 hn
    rfl
  · have hs : stripZeros a.dp = a.dp := by
      rcases h.2.2.1 with h1 | h1
      · match hdp : a.dp with
        | [] => exact absurd hdp h.1
        | [x] =>
          have hx : x ≠ 0 := by intro hx; apply h0; rw [hdp, hx]
          apply stripZeros_eq_self; simp [hx]
        | _ :: _ :: _ => rw [hdp] at h1; simp at h1
      · exact stripZeros_eq_self _ h1
    rw [bnTrim_ne_nil (by rw [hs]; exact h.1), hs]

/-- the common final step: trimming a digit vector of known value -/
theorem bnTrim_exact {B : Nat} (hB : 0 < B) (neg : Bool) (l : List Nat) (h : ∀ d ∈ l, d < B) :
    (bnTrim { neg := neg, dp := l }).WF B ∧
    (bnTrim { neg := neg, dp := l }).toInt B = if neg then -(val B l : Int) else (val B l : Int) := by
  refine ⟨bnTrim_WF hB _ h, ?_⟩
  rw [bnTrim_toInt]; rfl

variable (cfg : Cfg)

theorem High.dvCmp_cases (B : Nat) (hB : 1 < B) (a b : List Nat) (hl : a.length = b.length)
    (ha : ∀ d ∈ a, d < B) (hb : ∀ d ∈ b, d < B) :
    dvCmp a b = (if val B a < val B b then -1 else if val B a > val B b then 1 else 0) := by
  obtain ⟨h1, h2, h3⟩ := dvCmp_spec B hB a b hl ha hb
  by_cases hlt : val B a < val B b
  · rw [if_pos hlt]; exact h2.2 hlt
  · rw [if_neg hlt]
    by_cases hgt : val B a > val B b
    · rw [if_pos hgt]; exact h1.2 hgt
    · rw [if_neg hgt]; exact h3.2 (by omega)

theorem bnCmpAbs_val {B : Nat} (hB : 1 < B) (a b : Bn) (ha : a.WF B) (hb : b.WF B) :
    bnCmpAbs a b = (if val B a.dp < val B b.dp then -1 else if val B a.dp > val B b.dp then 1 else 0) := by
  unfold bnCmpAbs
  by_cases hz : (bnIsZero a && bnIsZero b) = true
  · rw [if_pos hz]
    simp only [Bool.and_eq_true] at hz
    have h1 := (ha.isZero_iff hB).1 hz.1
    have h2 := (hb.isZero_iff hB).1 hz.2
    simp [h1, h2]
  · rw [if_neg hz]
    by_cases hgt : a.used > b.used
    · rw [if_pos hgt]
      have := Bn.WF.val_lt_of_used_lt hB hb ha hgt
      rw [if_neg (by omega), if_pos this]
    · rw [if_neg hgt]
      by_cases hlt : a.used < b.used
      · rw [if_pos hlt]
        have := Bn.WF.val_lt_of_used_lt hB ha hb hlt
        rw [if_pos this]
      · rw [if_neg hlt]
        exact High.dvCmp_cases B hB a.dp b.dp (by unfold Bn.used at *; omega) ha.dig hb.dig

theorem toInt_of_neg {B : Nat} {a : Bn} (h : a.neg = true) : a.toInt B = -(val B a.dp : Int) := by
  unfold Bn.toInt; simp [h]

theorem toInt_of_pos {B : Nat} {a : Bn} (h : a.neg = false) : a.toInt B = (val B a.dp : Int) := by
  unfold Bn.toInt; simp [h]

def addCore (B : Nat) (a b : List Nat) : List Nat × Nat :=
  if a.length = b.length then addnLow B a b 0
  else
    let p := addnLow B (a.take b.length) b 0
    let q := add1Low B (a.drop b.length) p.2
    (p.1 ++ q.1, q.2)

def subCore (B : Nat) (a b : List Nat) : List Nat :=
  if a.length = b.length then (subnLow B a b 0).1
  else
    let p := subnLow B (a.take b.length) b 0
    let q := sub1Low B (a.drop b.length) p.2
    p.1 ++ q.1

theorem bnAddImp_eq (neg : Bool) (a b : Bn) : bnAddImp cfg neg a b =
    if b.used = 0 then some (bnTrim { neg := a.neg, dp := a.dp })
    else if a.used > cfg.cap then none
    else if (addCore cfg.B a.dp b.dp).2 ≠ 0 then
      if a.used + 1 > cfg.cap then none
      else some (bnTrim { neg := neg, dp := (addCore cfg.B a.dp b.dp).1 ++ [(addCore cfg.B a.dp b.dp).2] })
    else some (bnTrim { neg := neg, dp := (addCore cfg.B a.dp b.dp).1 }) := by
  unfold bnAddImp addCore grow Bn.used
  by_cases h0 : b.dp.length = 0
  · simp [h0]
  · by_cases h1 : a.dp.length > cfg.cap
    · simp [h0, h1]
    · simp only [h0, h1, if_false]
      by_cases h2 : a.dp.length = b.dp.length
      · simp only [h2, if_true]
        split <;> [split; skip] <;> simp_all
      · simp only [h2, if_false]
        split <;> [split; skip] <;> simp_all

theorem High.val_take_drop (B : Nat) (a : List Nat) (n : Nat) (h : n ≤ a.length) :
    val B a = val B (a.take n) + B ^ n * val B (a.drop n) := by
  conv_lhs => rw [← List.take_append_drop n a]
  rw [val_append, List.length_take, Nat.min_eq_left h]

theorem addCore_spec (B : Nat) (hB : 1 < B) (a b : List Nat) (hle : b.length ≤ a.length)
    (hda : ∀ d ∈ a, d < B) (hdb : ∀ d ∈ b, d < B) :
    val B (addCore B a b).1 + (addCore B a b).2 * B ^ a.length = val B a + val B b
    ∧ (addCore B a b).2 ≤ 1 ∧ (∀ d ∈ (addCore B a b).1, d < B) ∧ (addCore B a b).1.length = a.length := by
  unfold addCore
  by_cases h : a.length = b.length
  · rw [if_pos h]
    simpa using addnLow_spec B hB a b 0 h (by omega) hda hdb
  · rw [if_neg h]
    have hlt : (a.take b.length).length = b.length := by rw [List.length_take]; omega
    have hdl : (a.drop b.length).length = a.length - b.length := List.length_drop
    have hdt : ∀ d ∈ a.take b.length, d < B := fun d hd => hda d (List.mem_of_mem_take hd)
    have hdd : ∀ d ∈ a.drop b.length, d < B := fun d hd => hda d (List.mem_of_mem_drop hd)
    obtain ⟨e1, c1, d1, l1⟩ := addnLow_spec B hB (a.take b.length) b 0 hlt (by omega) hdt hdb
    generalize addnLow B (a.take b.length) b 0 = p at *
    obtain ⟨lo, c1'⟩ := p
    simp only at e1 c1 d1 l1 ⊢
    have hne : a.drop b.length ≠ [] := by
      intro hn; rw [hn] at hdl; simp at hdl; omega
    obtain ⟨e2, c2, d2, l2⟩ := add1Low_spec B hB (a.drop b.length) c1' (by omega) hdd
    generalize add1Low B (a.drop b.length) c1' = q at *
    obtain ⟨hi, c2'⟩ := q
    simp only at e2 c2 d2 l2 ⊢
    refine ⟨?_, c2 hne, ?_, ?_⟩
    · rw [val_append, High.val_take_drop B a b.length hle, l1, hlt] at *
      have hp : B ^ a.length = B ^ b.length * B ^ (a.drop b.length).length := by
        rw [← Nat.pow_add, hdl]; congr 1; omega
      rw [hp]
      have e2' := congrArg (B ^ b.length * ·) e2
      simp only [Nat.mul_add] at e2'
      generalize B ^ b.length = X at *
      generalize B ^ (a.drop b.length).length = Y at *
      linarith
    · intro d hd
      rcases List.mem_append.1 hd with hd | hd
      · exact d1 d hd
      · exact d2 d hd
    · rw [List.length_append, l1, l2, hlt, hdl]; omega

theorem subCore_spec (B : Nat) (hB : 1 < B) (a b : List Nat) (hle : b.length ≤ a.length)
    (hv : val B b ≤ val B a) (hda : ∀ d ∈ a, d < B) (hdb : ∀ d ∈ b, d < B) :
    val B (subCore B a b) + val B b = val B a
    ∧ (∀ d ∈ subCore B a b, d < B) ∧ (subCore B a b).length = a.length := by
  have key : ∀ (r : List Nat) (c : Nat), (∀ d ∈ r, d < B) → r.length = a.length → c ≤ 1 →
      val B r + val B b = val B a + c * B ^ a.length → val B r + val B b = val B a := by
    intro r c hr hl hc he
    have := val_lt B r hr
    rw [hl] at this
    rcases Nat.le_one_iff_eq_zero_or_eq_one.1 hc with rfl | rfl
    · simpa using he
    · omega
  unfold subCore
  by_cases h : a.length = b.length
  · rw [if_pos h]
    obtain ⟨e1, c1, d1, l1⟩ := subnLow_spec B hB a b 0 h (by omega) hda hdb
    exact ⟨key _ _ d1 l1 c1 (by simpa using e1), d1, l1⟩
  · rw [if_neg h]
    have hlt : (a.take b.length).length = b.length := by rw [List.length_take]; omega
    have hdl : (a.drop b.length).length = a.length - b.length := List.length_drop
    have hdt : ∀ d ∈ a.take b.length, d < B := fun d hd => hda d (List.mem_of_mem_take hd)
    have hdd : ∀ d ∈ a.drop b.length, d < B := fun d hd => hda d (List.mem_of_mem_drop hd)
    obtain ⟨e1, c1, d1, l1⟩ := subnLow_spec B hB (a.take b.length) b 0 hlt (by omega) hdt hdb
    generalize subnLow B (a.take b.length) b 0 = p at *
    obtain ⟨lo, c1'⟩ := p
    simp only at e1 c1 d1 l1 ⊢
    have hne : a.drop b.length ≠ [] := by
      intro hn; rw [hn] at hdl; simp at hdl; omega
    obtain ⟨e2, c2, d2, l2⟩ := sub1Low_spec B hB (a.drop b.length) c1' (by omega) hdd
    generalize sub1Low B (a.drop b.length) c1' = q at *
    obtain ⟨hi, c2'⟩ := q
    simp only at e2 c2 d2 l2 ⊢
    have hd : ∀ d ∈ lo ++ hi, d < B := by
      intro d hd
      rcases List.mem_append.1 hd with hd | hd
      · exact d1 d hd
      · exact d2 d hd
    have hl : (lo ++ hi).length = a.length := by
      rw [List.length_append, l1, l2, hlt, hdl]; omega
    refine ⟨key _ c2' hd hl (c2 hne) ?_, hd, hl⟩
    rw [val_append, High.val_take_drop B a b.length hle, l1, hlt] at *
    have hp : B ^ a.length = B ^ b.length * B ^ (a.drop b.length).length := by
      rw [← Nat.pow_add, hdl]; congr 1; omega
    rw [hp]
    have e2' := congrArg (B ^ b.length * ·) e2
    simp only [Nat.mul_add] at e2'
    generalize B ^ b.length = X at *
    generalize B ^ (a.drop b.length).length = Y at *
    linarith

theorem bnSubImp_eq (neg : Bool) (a b : Bn) : bnSubImp cfg neg a b =
    if b.used = 0 then some (bnTrim { neg := a.neg, dp := a.dp })
    else if a.used > cfg.cap then none
    else some (bnTrim { neg := neg, dp := subCore cfg.B a.dp b.dp }) := by
  unfold bnSubImp subCore grow Bn.used
  by_cases h0 : b.dp.length = 0
  · simp [h0]
  · by_cases h1 : a.dp.length > cfg.cap
    · simp [h0, h1]
    · simp only [h0, h1, if_false]
      by_cases h2 : a.dp.length = b.dp.length
      · simp only [h2, if_true]
        simp_all
      · simp only [h2, if_false]
        simp_all

theorem bnCmpAbs_lt_iff {B : Nat} (hB : 1 < B) (a b : Bn) (ha : a.WF B) (hb : b.WF B) :
    bnCmpAbs a b = -1 ↔ val B a.dp < val B b.dp := by
  rw [bnCmpAbs_val hB a b ha hb]
  split
  · simp [*]
  · split <;> simp [*]

theorem Bn.WF.used_ne_zero {B : Nat} {a : Bn} (h : a.WF B) : a.used ≠ 0 := by
  have := h.used_pos; omega

theorem bnAddImp_total (neg : Bool) (a b : Bn) (h : a.used < cfg.cap) : (bnAddImp cfg neg a b).isSome := by
  rw [bnAddImp_eq]
  split
  · rfl
  · rw [if_neg (by omega)]
    split
    · rw [if_neg (by omega)]; rfl
    · rfl

theorem bnSubImp_total (neg : Bool) (a b : Bn) (h : a.used < cfg.cap) : (bnSubImp cfg neg a b).isSome := by
  rw [bnSubImp_eq]
  split
  · rfl
  · rw [if_neg (by omega)]; rfl

theorem High.borrow_zero (B : Nat) (r : List Nat) (c n x y : Nat) (hr : ∀ d ∈ r, d < B) (hl : r.length = n)
    (hc : c ≤ 1) (he : val B r + y = x + c * B ^ n) (hyx : y ≤ x) : val B r + y = x := by
  have := val_lt B r hr
  rw [hl] at this
  rcases Nat.le_one_iff_eq_zero_or_eq_one.1 hc with rfl | rfl
  · simpa using he
  · omega

theorem bnAddSubDig_eq (a : Bn) (b : Nat) (s r : Bool) : bnAddSubDig cfg a b s r =
    if a.used > cfg.cap then none
    else if s then
      if (add1Low cfg.B a.dp b).2 ≠ 0 then
        if a.used + 1 > cfg.cap then none
        else some (bnTrim { neg := r, dp := (add1Low cfg.B a.dp b).1 ++ [(add1Low cfg.B a.dp b).2] })
      else some (bnTrim { neg := r, dp := (add1Low cfg.B a.dp b).1 })
    else if a.used > 1 ∨ a.dp.getD 0 0 ≥ b then
      some (bnTrim { neg := !r, dp := (sub1Low cfg.B a.dp b).1 })
    else some (bnTrim { neg := r,
                        dp := [if a.used = 1 then (b + cfg.B - a.dp.getD 0 0) % cfg.B else b] }) := by
  unfold bnAddSubDig grow
  by_cases h1 : a.used > cfg.cap
  · simp [h1]
  · simp only [h1, if_false]
    cases s
    · simp only [Bool.false_eq_true, if_false]
      split <;> simp_all
    · simp only [if_true]
      split <;> [split; skip] <;> simp_all

theorem WF_of_val {B : Nat} (neg : Bool) (l : List Nat) (hne : l ≠ []) (hd : ∀ d ∈ l, d < B)
    (hv : l.length = 1 ∨ B ^ (l.length - 1) ≤ val B l) (hz : val B l = 0 → neg = false) :
    Bn.WF B { neg := neg, dp := l } := by
  refine ⟨hne, hd, ?_, ?_⟩
  · rcases hv with h | h
    · exact Or.inl h
    · right
      intro h0
      have := High.val_lt_of_top_zero B l hd h0
      omega
  · intro h0
    simp only at h0
    apply hz; rw [h0]; simp [val]

theorem bnDbl_eq (a : Bn) : bnDbl cfg a =
    if a.used + 1 > cfg.cap then none
    else if (lsh1Low cfg.w a.dp 0).2 ≠ 0 then
      some { neg := a.neg, dp := (lsh1Low cfg.w a.dp 0).1 ++ [(lsh1Low cfg.w a.dp 0).2] }
    else some { neg := a.neg, dp := (lsh1Low cfg.w a.dp 0).1 } := by
  unfold bnDbl grow
  by_cases h1 : a.used + 1 > cfg.cap
  · simp [h1]
  · simp only [h1, if_false]
    split <;> simp_all

theorem Cfg.B_eq : cfg.B = 2 ^ cfg.w := rfl

theorem High.val_replicate_zero (B n : Nat) (l : List Nat) :
    val B (List.replicate n 0 ++ l) = B ^ n * val B l := by
  induction n with
  | zero => simp
  | succ n ih =>
    rw [List.replicate_succ, List.cons_append, val, ih, Nat.pow_succ]
    simp only [Nat.zero_add]
    rw [Nat.mul_comm (B ^ n) B, Nat.mul_assoc]

theorem bnLsh_eq (a : Bn) (k : Nat) : bnLsh cfg a k =
    if a.used + k / cfg.w + (if k % cfg.w > 0 then 1 else 0) > cfg.cap then none
    else if k % cfg.w > 0 then
      if (lshbLow cfg.w (k % cfg.w) a.dp 0).2 ≠ 0 then
        some (bnTrim { neg := a.neg, dp := List.replicate (k / cfg.w) 0 ++
          (lshbLow cfg.w (k % cfg.w) a.dp 0).1 ++ [(lshbLow cfg.w (k % cfg.w) a.dp 0).2] })
      else some (bnTrim { neg := a.neg, dp := List.replicate (k / cfg.w) 0 ++
          (lshbLow cfg.w (k % cfg.w) a.dp 0).1 })
    else some (bnTrim { neg := a.neg, dp := List.replicate (k / cfg.w) 0 ++ a.dp }) := by
  unfold bnLsh grow
  by_cases hb : k % cfg.w > 0
  · simp only [hb, if_true]
    by_cases h1 : a.used + k / cfg.w + 1 > cfg.cap
    · simp [h1]
    · simp only [h1, if_false]
      split <;> simp_all
  · simp only [hb, if_false, Nat.add_zero]
    by_cases h1 : a.used + k / cfg.w > cfg.cap
    · simp [h1]
    · simp only [h1, if_false]
      simp

def rshCore (w : Nat) (a : List Nat) (k : Nat) : List Nat :=
  let c := if k / w > 0 then (if a.length > k / w then a.drop (k / w) else []) else a
  if c.length > 0 ∧ k % w > 0 then (rshbLow w (k % w) c).1 else c

theorem bnRsh_eq (a : Bn) (k : Nat) : bnRsh cfg a k =
    if a.used > cfg.cap then none
    else some (bnTrim { neg := a.neg, dp := rshCore cfg.w a.dp k }) := by
  unfold bnRsh grow rshCore Bn.used
  by_cases h1 : a.dp.length > cfg.cap
  · simp [h1]
  · simp only [h1, if_false]
    rfl

theorem High.val_drop (B : Nat) (a : List Nat) (n : Nat) (ha : ∀ d ∈ a, d < B) :
    val B (a.drop n) = val B a / B ^ n := by
  by_cases hB : B = 0
  · subst hB
    cases a with
    | nil => simp [val]
    | cons x xs => exact absurd (ha x (by simp)) (by omega)
  have hBp : 0 < B ^ n := Nat.pow_pos (by omega)
  by_cases h : n ≤ a.length
  · have hlt : val B (a.take n) < B ^ n := by
      have := val_lt B (a.take n) (fun d hd => ha d (List.mem_of_mem_take hd))
      rwa [List.length_take, Nat.min_eq_left h] at this
    rw [High.val_take_drop B a n h, Nat.add_mul_div_left _ _ hBp, Nat.div_eq_of_lt hlt, Nat.zero_add]
  · have : a.drop n = [] := List.drop_eq_nil_of_le (by omega)
    rw [this]
    have h1 := val_lt B a ha
    have h2 : B ^ a.length ≤ B ^ n := Nat.pow_le_pow_right (by omega) (by omega)
    rw [Nat.div_eq_of_lt (by omega)]
    rfl

theorem rshCore_spec (w : Nat) (hw : 0 < w) (a : List Nat) (k : Nat) (ha : ∀ d ∈ a, d < 2 ^ w) :
    val (2 ^ w) (rshCore w a k) = val (2 ^ w) a / 2 ^ k ∧ (∀ d ∈ rshCore w a k, d < 2 ^ w) := by
  unfold rshCore
  have hc : ∀ c : List Nat, c = (if k / w > 0 then (if a.length > k / w then a.drop (k / w) else []) else a) →
      val (2 ^ w) c = val (2 ^ w) a / (2 ^ w) ^ (k / w) ∧ (∀ d ∈ c, d < 2 ^ w) := by
    intro c hc
    have hcd : c = a.drop (k / w) := by
      rw [hc]
      split
      · split
        · rfl
        · rw [List.drop_eq_nil_of_le (by omega)]
      · rename_i h0
        have : k / w = 0 := Nat.eq_zero_of_not_pos h0
        rw [this]; rfl
    rw [hcd]
    exact ⟨High.val_drop _ a _ ha, fun d hd => ha d (List.mem_of_mem_drop hd)⟩
  generalize (if k / w > 0 then (if a.length > k / w then a.drop (k / w) else []) else a) = c at hc ⊢
  obtain ⟨hv, hd⟩ := hc c rfl
  have hk : (2 ^ w) ^ (k / w) * 2 ^ (k % w) = 2 ^ k := by
    rw [← Nat.pow_mul, ← Nat.pow_add, Nat.div_add_mod]
  simp only
  split
  · obtain ⟨e, _, d1, _⟩ := rshbLow_spec w (k % w) (Nat.mod_lt _ hw) c hd
    refine ⟨?_, d1⟩
    rw [e, hv, Nat.div_div_eq_div_mul, hk]
  · rename_i hcond
    refine ⟨?_, hd⟩
    by_cases hcl : c.length > 0
    · have : k % w = 0 := by omega
      rw [← hk, this, hv]; simp
    · have : c = [] := List.eq_nil_of_length_eq_zero (by omega)
      rw [← hk, ← Nat.div_div_eq_div_mul, ← hv, this]
      simp [val]

theorem fdiv_fin {B : Nat} (hB : 1 < B) (a : Bn) (m : Nat) (hm : 0 < m) (ha : a.WF B)
    (hg : 0 ≤ a.toInt B ∨ (m : Int) ∣ a.toInt B) (l : List Nat) (hl : ∀ d ∈ l, d < B)
    (hv : val B l = val B a.dp / m) :
    (bnTrim { neg := a.neg, dp := l }).WF B ∧
    (bnTrim { neg := a.neg, dp := l }).toInt B = Int.fdiv (a.toInt B) m := by
  have := bnTrim_exact (B := B) (by omega) a.neg l hl
  refine ⟨this.1, ?_⟩
  rw [this.2, hv, Int.fdiv_eq_ediv_of_nonneg _ (by omega)]
  cases han : a.neg
  · rw [toInt_of_pos han]; simp
  · rw [toInt_of_neg han] at hg ⊢
    have hp := ha.neg_pos hB han
    have hdvd : (m : Int) ∣ (val B a.dp : Int) := by
      rcases hg with h | h
      · omega
      · exact (Int.dvd_neg).1 h
    rw [Int.neg_ediv_of_dvd hdvd]
    simp

theorem toInt_eq_zero_iff (B : Nat) (a : Bn) : a.toInt B = 0 ↔ val B a.dp = 0 := by
  rw [← toInt_natAbs B a]; exact Int.natAbs_eq_zero.symm

/-- a well-formed non-zero number is `init ++ [x]` with a non-zero top digit `x` -/
theorem Bn.WF.top {B : Nat} {a : Bn} (ha : a.WF B) (hv : val B a.dp ≠ 0) :
    ∃ init x, a.dp = init ++ [x] ∧ x ≠ 0 := by
  rcases List.eq_nil_or_concat a.dp with h | ⟨init, x, h⟩
  · exact absurd h ha.1
  · rw [List.concat_eq_append] at h
    refine ⟨init, x, h, ?_⟩
    rintro rfl
    rcases ha.2.2.1 with h1 | h1
    · rw [h] at h1
      have : init = [] := List.eq_nil_of_length_eq_zero (by simpa using h1)
      subst this
      rw [h] at hv; simp [val] at hv
    · rw [h] at h1; simp at h1

theorem bnBitsW_val (hw : 0 < cfg.w) (a : Bn) (ha : a.WF cfg.B) :
    bnBitsW cfg.w a = (if val cfg.B a.dp = 0 then 0 else Nat.log2 (val cfg.B a.dp) + 1) := by
  have hB := cfg.one_lt_B hw
  unfold bnBitsW
  by_cases hv : val cfg.B a.dp = 0
  · rw [if_pos ((ha.isZero_iff hB).2 hv), if_pos hv]
  · rw [if_neg (fun h => hv ((ha.isZero_iff hB).1 h)), if_neg hv]
    obtain ⟨init, x, hdp, hx⟩ := ha.top hv
    have hL := Nat.log2_self_le hx
    have hU := @Nat.lt_log2_self x
    have hBn : cfg.B ^ init.length = 2 ^ (init.length * cfg.w) := by
      rw [cfg.B_eq, ← Nat.pow_mul, Nat.mul_comm]
    have hi := val_lt cfg.B init (fun d hd => ha.dig d (by rw [hdp]; simp [hd]))
    unfold Bn.used bitsDig
    rw [hdp] at hv ⊢
    rw [High.val_snoc] at hv ⊢
    simp only [List.length_append, List.length_cons, List.length_nil, Nat.add_sub_cancel,
      List.getLast?_append, List.getLast?_singleton, Option.some_or, Option.getD_some, if_neg hx]
    rw [← Nat.add_assoc]
    congr 1
    symm
    rw [Nat.log2_eq_iff hv]
    have e1 : 2 ^ (init.length * cfg.w + x.log2) = cfg.B ^ init.length * 2 ^ x.log2 := by
      rw [Nat.pow_add, hBn]
    have e2 : 2 ^ (init.length * cfg.w + x.log2 + 1) = cfg.B ^ init.length * 2 ^ (x.log2 + 1) := by
      rw [Nat.add_assoc, Nat.pow_add, hBn]
    have m1 : cfg.B ^ init.length * 2 ^ x.log2 ≤ cfg.B ^ init.length * x := Nat.mul_le_mul_left _ hL
    have m2 : cfg.B ^ init.length * (x + 1) ≤ cfg.B ^ init.length * 2 ^ (x.log2 + 1) :=
      Nat.mul_le_mul_left _ hU
    rw [Nat.mul_add, Nat.mul_one] at m2
    rw [e1, e2]
    constructor <;> omega

theorem High.digit_bit (w b x r : Nat) (hb : b < w) :
    (x + 2 ^ w * r) / 2 ^ b % 2 = x / 2 ^ b % 2 := by
  have hw : 2 ^ w = 2 ^ b * (2 * 2 ^ (w - b - 1)) := by
    rw [← Nat.pow_succ', ← Nat.pow_add]; congr 1; omega
  rw [hw, Nat.mul_assoc, Nat.add_mul_div_left _ _ (Nat.pow_pos (by omega)), Nat.mul_assoc,
    Nat.add_mul_mod_self_left]

end Relic.Model
