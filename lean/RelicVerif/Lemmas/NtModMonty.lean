/- Proofs about the Montgomery models of Model/NtMod.lean: the Newton iteration of bn_mod_pre_monty, REDC, conversions. -/
import RelicVerif.Lemmas.NtModBarrt
import Mathlib.Tactic.LinearCombination

namespace Relic.Lemmas.NtMod
open Relic.Model.NtMod

/-! ## bn_mod_pre_monty: Newton iteration for the inverse of an odd digit modulo 2^w -/

/-- one step doubles the precision: 2^e | x·b - 1 and 2^e' | B, e' ≤ 2e  ⟹  2^e' | x'·b - 1 -/
theorem newtonStep_inv (B b x : Int) (e e' : Nat) (he : e' ≤ 2 * e) (hB : (2 : Int) ^ e' ∣ B) (h : (2 : Int) ^ e ∣ x * b - 1) :
    (2 : Int) ^ e' ∣ newtonStep B b x * b - 1 := by
  unfold newtonStep
  have h2 : (2 : Int) ^ e' ∣ (x * b - 1) * (x * b - 1) := by
    have : (2 : Int) ^ (2 * e) ∣ (x * b - 1) * (x * b - 1) := by
      rw [two_mul, pow_add]; exact mul_dvd_mul h h
    exact dvd_trans (pow_dvd_pow 2 he) this
  have hy : (x * (2 - b * x)) % B = x * (2 - b * x) - B * (x * (2 - b * x) / B) := by
    have := Int.emod_add_mul_ediv (x * (2 - b * x)) B
    linarith
  rw [hy]
  have : (x * (2 - b * x) - B * (x * (2 - b * x) / B)) * b - 1 =
      -((x * b - 1) * (x * b - 1)) - B * ((x * (2 - b * x) / B) * b) := by ring
  rw [this]
  exact dvd_sub (Dvd.dvd.neg_right h2) (Dvd.dvd.mul_right hB _)

theorem newtonIter_inv (B b : Int) (w : Nat) (hB : B = (2 : Int) ^ w) : ∀ (n e : Nat) (x : Int),
    (2 : Int) ^ (min e w) ∣ x * b - 1 → (2 : Int) ^ (min (e * 2 ^ n) w) ∣ newtonIter B b n x * b - 1 := by
  intro n
  induction n with
  | zero => intro e x h; simpa [newtonIter] using h
  | succ n ih =>
    intro e x h
    rw [newtonIter]
    have h1 : (2 : Int) ^ (min (2 * e) w) ∣ newtonStep B b x * b - 1 :=
      newtonStep_inv B b x (min e w) (min (2 * e) w) (by omega) (by rw [hB]; exact pow_dvd_pow 2 (Nat.min_le_right _ _)) h
    have := ih (2 * e) (newtonStep B b x) h1
    have he : 2 * e * 2 ^ n = e * 2 ^ (n + 1) := by rw [pow_succ]; ring
    rwa [he] at this

/-- the start value is an inverse of the odd digit b modulo 16 -/
theorem newtonStart_inv (B b : Int) (h16 : (16 : Int) ∣ B) (hb : b % 2 = 1) : (16 : Int) ∣ newtonStart B b * b - 1 := by
  have h8 : (8 : Int) ∣ B := dvd_trans (by norm_num) h16
  have hc : ((b + 2) % B) % 8 = (b + 2) % 8 := Int.emod_emod_of_dvd _ h8
  have hx : newtonStart B b % 16 = ((((b + 2) % B) / 4 % 2) * 8 + b) % 16 := by
    unfold newtonStart; exact Int.emod_emod_of_dvd _ h16
  generalize (b + 2) % B = c at hc hx
  have hcases : b % 16 = 1 ∨ b % 16 = 3 ∨ b % 16 = 5 ∨ b % 16 = 7 ∨ b % 16 = 9 ∨ b % 16 = 11 ∨ b % 16 = 13 ∨ b % 16 = 15 := by omega
  have hmul : (newtonStart B b * b) % 16 = (newtonStart B b % 16 * (b % 16)) % 16 := Int.mul_emod _ _ _
  apply Int.dvd_of_emod_eq_zero
  rw [Int.sub_emod, hmul]
  rcases hcases with h | h | h | h | h | h | h | h
  · have : newtonStart B b % 16 = 1 := by omega
    rw [this, h]; norm_num
  · have : newtonStart B b % 16 = 11 := by omega
    rw [this, h]; norm_num
  · have : newtonStart B b % 16 = 13 := by omega
    rw [this, h]; norm_num
  · have : newtonStart B b % 16 = 7 := by omega
    rw [this, h]; norm_num
  · have : newtonStart B b % 16 = 9 := by omega
    rw [this, h]; norm_num
  · have : newtonStart B b % 16 = 3 := by omega
    rw [this, h]; norm_num
  · have : newtonStart B b % 16 = 5 := by omega
    rw [this, h]; norm_num
  · have : newtonStart B b % 16 = 15 := by omega
    rw [this, h]; norm_num

theorem montySteps_enough (w : Nat) (hw : w ≤ 64) : w ≤ 4 * 2 ^ montySteps w := by
  unfold montySteps
  by_cases h1 : w > 8 <;> by_cases h2 : w > 16 <;> by_cases h3 : w > 32 <;> simp [h1, h2, h3] <;> omega

/-- bn_mod_pre_monty for digit widths 4 ≤ w ≤ 64 and odd m > 0: the digit u with u·m ≡ -1 mod 2^w -/
theorem preMonty_spec (w : Nat) (hw4 : 4 ≤ w) (hw : w ≤ 64) (m : Int) (hm : 0 < m) (hodd : m % 2 = 1) :
    ∃ u, preMonty w m = some u ∧ 0 ≤ u ∧ u < (2 : Int) ^ w ∧ (u * m + 1) % (2 : Int) ^ w = 0 := by
  have hB0 : (0 : Int) < (2 : Int) ^ w := by positivity
  have h16 : (16 : Int) ∣ (2 : Int) ^ w := by
    have : (16 : Int) = 2 ^ 4 := by norm_num
    rw [this]; exact pow_dvd_pow 2 hw4
  have h2B : (2 : Int) ∣ (2 : Int) ^ w := dvd_trans (by norm_num) h16
  have hb : (m % (2 : Int) ^ w) % 2 = 1 := by rw [Int.emod_emod_of_dvd _ h2B]; exact hodd
  have hcond : ¬ (m % 2 = 0 ∨ m ≤ 0) := by omega
  have hpre : preMonty w m = some ((-(newtonIter ((2 : Int) ^ w) (m % (2 : Int) ^ w) (montySteps w)
      (newtonStart ((2 : Int) ^ w) (m % (2 : Int) ^ w)))) % (2 : Int) ^ w) := by
    simp only [preMonty, hcond, if_false]
  refine ⟨_, hpre, Int.emod_nonneg _ hB0.ne', Int.emod_lt_of_pos _ hB0, ?_⟩
  clear hpre
  generalize hBd : (2 : Int) ^ w = B at *
  generalize hbd : m % B = b at *
  have h0 := newtonStart_inv B b h16 hb
  have h0' : (2 : Int) ^ (min 4 w) ∣ newtonStart B b * b - 1 := by
    rw [Nat.min_eq_left hw4]; norm_num; exact h0
  have h1 := newtonIter_inv B b w hBd.symm (montySteps w) 4 _ h0'
  rw [Nat.min_eq_right (montySteps_enough w hw), hBd] at h1
  generalize newtonIter B b (montySteps w) (newtonStart B b) = x at h1
  -- (-x mod B)·m + 1 ≡ -(x·b - 1) mod B
  apply Int.emod_eq_zero_of_dvd
  have e1 : (-x) % B = -x - B * ((-x) / B) := by
    have := Int.emod_add_mul_ediv (-x) B; linarith
  have e2 : m = b + B * (m / B) := by
    have := Int.emod_add_mul_ediv m B; rw [hbd] at this; linarith
  have : (-x) % B * m + 1 = -(x * b - 1) + B * (-(x * (m / B)) - ((-x) / B) * m) := by
    linear_combination m * e1 - x * e2
  rw [this]
  exact dvd_add (Dvd.dvd.neg_right h1) (Dvd.intro _ rfl)

/-! ## REDC -/

/-- n rounds from position i on a value divisible by B^i: a multiple Q·B^i·m with 0 ≤ Q < B^n is added and the result is divisible
    by B^(i+n) -/
theorem redcRounds_inv (B m u : Int) (hB : 0 < B) (hu : (u * m + 1) % B = 0) : ∀ (n i : Nat) (t : Int), B ^ i ∣ t →
    ∃ Q, 0 ≤ Q ∧ Q < B ^ n ∧ redcRounds B m u n i t = t + Q * B ^ i * m ∧ B ^ (i + n) ∣ redcRounds B m u n i t := by
  intro n
  induction n with
  | zero => intro i t h; exact ⟨0, le_refl _, by simp, by simp [redcRounds], by simpa [redcRounds] using h⟩
  | succ n ih =>
    intro i t h
    obtain ⟨s, rfl⟩ := h
    have hBi : B ^ i ≠ 0 := (pow_pos hB i).ne'
    rw [redcRounds]
    simp only [Int.mul_ediv_cancel_left _ hBi]
    generalize hr : (s % B * u) % B = r
    have hr0 : 0 ≤ r := by rw [← hr]; exact Int.emod_nonneg _ hB.ne'
    have hr1 : r < B := by rw [← hr]; exact Int.emod_lt_of_pos _ hB
    have hdu : B ∣ u * m + 1 := Int.dvd_of_emod_eq_zero hu
    have hrs : B ∣ r - s * u := by
      have e1 : (s % B * u) % B = s % B * u - B * (s % B * u / B) := by
        have := Int.emod_add_mul_ediv (s % B * u) B; linarith
      have e2 : s % B = s - B * (s / B) := by
        have := Int.emod_add_mul_ediv s B; linarith
      rw [← hr, e1, e2]
      exact ⟨-(s / B * u) - (s - B * (s / B)) * u / B, by ring⟩
    have hdiv : B ^ (i + 1) ∣ B ^ i * s + r * m * B ^ i := by
      have : B ^ i * s + r * m * B ^ i = B ^ i * (s * (u * m + 1) + (r - s * u) * m) := by ring
      rw [this, pow_succ]
      exact mul_dvd_mul_left _ (dvd_add (Dvd.dvd.mul_left hdu _) (Dvd.dvd.mul_right hrs _))
    obtain ⟨Q', hQ0, hQ1, hval, hd⟩ := ih (i + 1) _ hdiv
    refine ⟨r + Q' * B, by positivity, ?_, ?_, ?_⟩
    · have : Q' + 1 ≤ B ^ n := hQ1
      have : (Q' + 1) * B ≤ B ^ n * B := mul_le_mul_of_nonneg_right this hB.le
      rw [pow_succ]; linarith
    · rw [hval, pow_succ]; ring
    · have : i + (n + 1) = i + 1 + n := by omega
      rw [this]; exact hd

/-- REDC inside the contract 0 ≤ a < m·R (R = B^used(m)), with u·m ≡ -1 mod B: the result is in [0, m) and result·R ≡ a mod m -/
theorem redc_spec (w : Nat) (hw : 0 < w) (a m u : Int) (hm : 0 < m) (hu : (u * m + 1) % (2 : Int) ^ w = 0)
    (ha0 : 0 ≤ a) (ha : a < m * ((2 : Int) ^ w) ^ used w m.toNat) :
    0 ≤ (redc w a m u).1 ∧ (redc w a m u).1 < m ∧
    ((redc w a m u).1 * ((2 : Int) ^ w) ^ used w m.toNat) % m = a % m := by
  have hB : (0 : Int) < (2 : Int) ^ w := by positivity
  have hmt : (m.toNat : Int) = m := Int.toNat_of_nonneg hm.le
  have hmR : m < ((2 : Int) ^ w) ^ used w m.toNat := by
    rw [← pow_mul]; conv_lhs => rw [← hmt]
    exact_mod_cast used_upper w m.toNat hw
  generalize hk : used w m.toNat = k at *
  generalize hBd : (2 : Int) ^ w = B at *
  have hR : 0 < B ^ k := by positivity
  have hRR : B ^ (2 * k) = B ^ k * B ^ k := by rw [two_mul, pow_add]
  have haRR : a < B ^ (2 * k) := by
    rw [hRR]
    calc a < m * B ^ k := ha
      _ ≤ B ^ k * B ^ k := mul_le_mul_of_nonneg_right hmR.le hR.le
  have ha' : a % B ^ (2 * k) = a := Int.emod_eq_of_lt ha0 haRR
  obtain ⟨Q, hQ0, hQ1, hval, hd⟩ := redcRounds_inv B m u hB hu k 0 a (by simp)
  simp only [Nat.zero_add, pow_zero, mul_one] at hval hd
  obtain ⟨T, hT⟩ := hd
  have hTdiv : redcRounds B m u k 0 a / B ^ k = T := by rw [hT]; exact Int.mul_ediv_cancel_left _ hR.ne'
  have hRT : B ^ k * T = a + Q * m := by rw [← hT, hval]
  have hT0 : 0 ≤ T := by
    have : 0 ≤ B ^ k * T := by rw [hRT]; positivity
    exact nonneg_of_mul_nonneg_right this hR
  have hT2 : T < 2 * m := by
    have h1 : Q * m < B ^ k * m := mul_lt_mul_of_pos_right hQ1 hm
    have h2 : B ^ k * T < B ^ k * (2 * m) := by rw [hRT]; nlinarith
    exact lt_of_mul_lt_mul_left h2 hR.le
  simp only [redc, hBd, hk, ha', hTdiv]
  by_cases hc : T ≥ B ^ k
  · have hTm0 : 0 ≤ T - m := by linarith
    have hTm1 : T - m < B ^ k := by linarith
    have hmod : (T - m) % B ^ k = T - m := Int.emod_eq_of_lt hTm0 hTm1
    have hnf : ¬ (T - m ≥ m) := by linarith
    simp only [hc, if_true, hmod, hnf, if_false]
    refine ⟨hTm0, by linarith, ?_⟩
    have : (T - m) * B ^ k = a + (Q - B ^ k) * m := by
      have : T * B ^ k = a + Q * m := by rw [mul_comm]; exact hRT
      linarith [this, mul_comm m (B ^ k), sub_mul T m (B ^ k), sub_mul Q (B ^ k) m]
    rw [this, Int.add_mul_emod_self_right]
  · simp only [hc, if_false]
    by_cases hf : T ≥ m
    · simp only [hf, if_true]
      refine ⟨by linarith, by linarith, ?_⟩
      have : (T - m) * B ^ k = a + (Q - B ^ k) * m := by
        have : T * B ^ k = a + Q * m := by rw [mul_comm]; exact hRT
        linarith [this, mul_comm m (B ^ k), sub_mul T m (B ^ k), sub_mul Q (B ^ k) m]
      rw [this, Int.add_mul_emod_self_right]
    · simp only [hf, if_false]
      refine ⟨hT0, by linarith, ?_⟩
      have : T * B ^ k = a + Q * m := by rw [mul_comm]; exact hRT
      rw [this, Int.add_mul_emod_self_right]

end Relic.Lemmas.NtMod
