/-
Lemmas about Model/RandInt.lean: digit bounds of a byte buffer read as digits, the value bound after masking the top digit,
the subtraction loop of fp_rand.
-/
import RelicVerif.Model.RandInt
import Mathlib.Tactic.Linarith

namespace Relic.Model.RandInt

theorem digitOf_aux (bytes : List UInt8) (off n : Nat) :
    (List.range n).foldl (fun acc j => acc + (bytes.getD (off + j) 0).toNat * 256 ^ j) 0 < 256 ^ n := by
  induction n with
  | zero => simp
  | succ n ih =>
    rw [List.range_succ, List.foldl_append]
    simp only [List.foldl_cons, List.foldl_nil]
    have hb : (bytes.getD (off + n) 0).toNat < 256 := UInt8.toNat_lt _
    have h1 : (bytes.getD (off + n) 0).toNat * 256 ^ n ≤ 255 * 256 ^ n := Nat.mul_le_mul_right _ (by omega)
    rw [Nat.pow_succ]
    omega

theorem digitOf_lt (bytes : List UInt8) (w i : Nat) : digitOf bytes (w / 8) i < 2 ^ w := by
  have h := digitOf_aux bytes (i * (w / 8)) (w / 8)
  have h2 : (256 : Nat) ^ (w / 8) ≤ 2 ^ w := by
    have : (256 : Nat) = 2 ^ 8 := by norm_num
    rw [this, ← Nat.pow_mul]
    exact Nat.pow_le_pow_right (by omega) (by omega)
  exact Nat.lt_of_lt_of_le h h2

theorem digitsOf_length (bytes : List UInt8) (w n : Nat) : (digitsOf bytes w n).length = n := by
  simp [digitsOf]

theorem digitsOf_lt (bytes : List UInt8) (w n : Nat) : ∀ d ∈ digitsOf bytes w n, d < 2 ^ w := by
  intro d hd
  simp only [digitsOf, List.mem_map] at hd
  obtain ⟨i, _, rfl⟩ := hd
  exact digitOf_lt bytes w i

theorem valDigits_lt (w : Nat) (l : List Nat) (h : ∀ d ∈ l, d < 2 ^ w) : valDigits w l < 2 ^ (w * l.length) := by
  induction l with
  | nil => simp [valDigits]
  | cons d ds ih =>
    have hd := h d (by simp)
    have := ih (fun x hx => h x (by simp [hx]))
    simp only [valDigits, List.length_cons]
    have e : 2 ^ (w * (ds.length + 1)) = 2 ^ w * 2 ^ (w * ds.length) := by rw [Nat.mul_succ, Nat.pow_add, Nat.mul_comm]
    rw [e]
    have : 2 ^ w * (valDigits w ds + 1) ≤ 2 ^ w * 2 ^ (w * ds.length) := Nat.mul_le_mul_left _ (by omega)
    rw [Nat.mul_add] at this
    omega

/-- replacing the top digit by a value below 2^k -/
theorem valDigits_set_top (w k t : Nat) (ht : t < 2 ^ k) (l : List Nat) (hl : l ≠ []) (h : ∀ d ∈ l, d < 2 ^ w) :
    valDigits w (l.set (l.length - 1) t) < 2 ^ (w * (l.length - 1) + k) := by
  induction l with
  | nil => exact absurd rfl hl
  | cons d ds ih =>
    cases ds with
    | nil => simpa [valDigits] using ht
    | cons d' ds' =>
      have hd := h d (by simp)
      have := ih (by simp) (fun x hx => h x (List.mem_cons_of_mem _ hx))
      simp only [List.length_cons, Nat.add_sub_cancel] at this ⊢
      simp only [List.set_cons_succ, valDigits] at this ⊢
      have e : 2 ^ (w * (ds'.length + 1) + k) = 2 ^ w * 2 ^ (w * ds'.length + k) := by
        rw [Nat.mul_succ, ← Nat.pow_add]; congr 1; omega
      rw [e]
      have h3 := Nat.mul_le_mul_left (2 ^ w) (Nat.succ_le_of_lt this)
      rw [Nat.succ_eq_add_one, Nat.mul_add] at h3
      omega

theorem maskTop_length (dp : List Nat) (bits : Nat) : (maskTop dp bits).length = dp.length := by
  unfold maskTop; split <;> simp

/-- the value after the mask: below 2^(w·(n−1) + r) when the top digit is masked to r > 0 bits, below 2^(w·n) otherwise -/
theorem valDigits_maskTop_lt (w : Nat) (dp : List Nat) (h : ∀ d ∈ dp, d < 2 ^ w) (bits : Nat) :
    valDigits w (maskTop dp bits) < (if bits > 0 ∧ dp.length > 0 then 2 ^ (w * (dp.length - 1) + bits) else 2 ^ (w * dp.length)) := by
  unfold maskTop
  split
  · next hc =>
    apply valDigits_set_top w bits _ (Nat.mod_lt _ (by positivity)) dp _ h
    intro e; simp [e] at hc
  · exact valDigits_lt w dp h

/-- the subtraction loop computes the residue whenever the fuel exceeds the value -/
theorem subWhile_eq_mod (p : Nat) (hp : 0 < p) (fuel a : Nat) (hf : a < fuel) : subWhile p fuel a = a % p := by
  induction fuel generalizing a with
  | zero => omega
  | succ n ih =>
    unfold subWhile
    split
    · next h => exact (Nat.mod_eq_of_lt h).symm
    · next h =>
      rw [ih (a - p) (by omega)]
      exact (Nat.mod_eq_sub_mod (by omega)).symm

end Relic.Model.RandInt
