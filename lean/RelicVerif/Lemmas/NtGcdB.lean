/-
Proofs for Model/NtGcd.lean, part 2: bn_gcd_binar (Stein), bn_lcm, bn_mod_inv, bn_mod_inv_sim.
-/
import RelicVerif.Lemmas.NtGcd
import Mathlib.Data.Int.ModEq

namespace Relic.Lemmas.NtGcd
open Relic.Model.NtGcd

/-! ### powers of two -/

theorem coprime_two_of_odd (v : Nat) (hv : v % 2 = 1) : Nat.Coprime 2 v := by
  rw [Nat.Coprime, Nat.gcd_rec, hv]; rfl

theorem stripTwos_spec (f n : Nat) (hn : n ≠ 0) (hf : n ≤ f) :
    ∃ k, n = stripTwos f n * 2 ^ k ∧ stripTwos f n % 2 = 1 := by
  induction f generalizing n with
  | zero => omega
  | succ f ih =>
    unfold stripTwos
    split
    · next h =>
      have hn2 : n / 2 ≠ 0 := by omega
      obtain ⟨k, hk1, hk2⟩ := ih (n / 2) hn2 (by omega)
      refine ⟨k + 1, ?_, hk2⟩
      have h2 : n = 2 * (n / 2) := by omega
      calc n = 2 * (n / 2) := h2
        _ = 2 * (stripTwos f (n / 2) * 2 ^ k) := by rw [← hk1]
        _ = stripTwos f (n / 2) * 2 ^ (k + 1) := by ring
    · next h => exact ⟨0, by simp, by omega⟩

theorem oddPart_spec (n : Nat) (hn : n ≠ 0) : ∃ k, n = oddPart n * 2 ^ k ∧ oddPart n % 2 = 1 :=
  stripTwos_spec n n hn (Nat.le_refl _)

theorem oddPart_le (n : Nat) (hn : n ≠ 0) : oddPart n ≤ n := by
  obtain ⟨k, h1, _⟩ := oddPart_spec n hn
  have : 0 < 2 ^ k := Nat.two_pow_pos k
  calc oddPart n = oddPart n * 1 := (Nat.mul_one _).symm
    _ ≤ oddPart n * 2 ^ k := Nat.mul_le_mul_left _ this
    _ = n := h1.symm

theorem oddPart_odd (n : Nat) (h : n % 2 = 1) : oddPart n = n := by
  unfold oddPart
  cases n with
  | zero => omega
  | succ m => unfold stripTwos; simp; omega

theorem gcd_oddPart_left (u v : Nat) (hu : u ≠ 0) (hv : v % 2 = 1) : Nat.gcd (oddPart u) v = Nat.gcd u v := by
  obtain ⟨k, h1, _⟩ := oddPart_spec u hu
  conv_rhs => rw [h1]
  exact (Nat.Coprime.gcd_mul_right_cancel _ (Nat.Coprime.pow_left k (coprime_two_of_odd v hv))).symm

theorem gcd_half_left (t v : Nat) (hv : v % 2 = 1) : Nat.gcd t v = Nat.gcd (2 * t) v :=
  (Nat.Coprime.gcd_mul_left_cancel t (coprime_two_of_odd v hv)).symm

theorem gcd_half_right (u t : Nat) (hu : u % 2 = 1) : Nat.gcd u t = Nat.gcd u (2 * t) :=
  (Nat.Coprime.gcd_mul_left_cancel_right t (coprime_two_of_odd u hu)).symm

/-! ### bn_gcd_binar -/

theorem binarLoop_eq (f u v : Nat) (hf : u + v < f) (hv : v ≠ 0) (hodd : u % 2 = 1 ∨ v % 2 = 1) :
    binarLoop f u v = Nat.gcd u v := by
  induction f generalizing u v with
  | zero => omega
  | succ f ih =>
    unfold binarLoop
    by_cases hu : u = 0
    · subst hu; simp
    · simp only [hu, if_false]
      obtain ⟨ku, hku, hou⟩ := oddPart_spec u hu
      obtain ⟨kv, hkv, hov⟩ := oddPart_spec v hv
      have hule := oddPart_le u hu
      have hvle := oddPart_le v hv
      have hg : Nat.gcd (oddPart u) (oddPart v) = Nat.gcd u v := by
        rcases hodd with h | h
        · rw [oddPart_odd u h, Nat.gcd_comm, gcd_oddPart_left v u hv h, Nat.gcd_comm]
        · rw [oddPart_odd v h, gcd_oddPart_left u v hu h]
      by_cases hge : oddPart u ≥ oddPart v
      · simp only [hge, if_true]
        have h2 : 2 * ((oddPart u - oddPart v) / 2) = oddPart u - oddPart v := by omega
        rw [ih _ _ (by omega) (by omega) (Or.inr hov), ← hg, gcd_half_left _ _ hov, h2, Nat.gcd_sub_self_left hge]
      · simp only [hge, if_false]
        have hlt : oddPart u ≤ oddPart v := by omega
        have h2 : 2 * ((oddPart v - oddPart u) / 2) = oddPart v - oddPart u := by omega
        rw [ih _ _ (by omega) (by omega) (Or.inl hou), ← hg, gcd_half_right _ _ hou, h2, Nat.gcd_sub_self_right hlt]

theorem commonTwos_spec (f u v s : Nat) (hu : u ≠ 0) (hf : u < f) :
    ∃ k, (commonTwos f u v s).2.2 = s + k ∧ u = (commonTwos f u v s).1 * 2 ^ k ∧ v = (commonTwos f u v s).2.1 * 2 ^ k ∧
      ((commonTwos f u v s).1 % 2 = 1 ∨ (commonTwos f u v s).2.1 % 2 = 1) ∧ (commonTwos f u v s).1 ≠ 0 := by
  induction f generalizing u v s with
  | zero => omega
  | succ f ih =>
    unfold commonTwos
    split
    · next h =>
      obtain ⟨k, h1, h2, h3, h4, h5⟩ := ih (u / 2) (v / 2) (s + 1) (by omega) (by omega)
      refine ⟨k + 1, by omega, ?_, ?_, h4, h5⟩
      · calc u = 2 * (u / 2) := by omega
          _ = 2 * ((commonTwos f (u / 2) (v / 2) (s + 1)).1 * 2 ^ k) := by rw [← h2]
          _ = _ := by ring
      · calc v = 2 * (v / 2) := by omega
          _ = 2 * ((commonTwos f (u / 2) (v / 2) (s + 1)).2.1 * 2 ^ k) := by rw [← h3]
          _ = _ := by ring
    · next h => exact ⟨0, by simp, by simp, by simp, by simp only []; omega, hu⟩

theorem gcdBinar_eq (a b : Int) : gcdBinar a b = (Int.gcd a b : Int) := by
  unfold gcdBinar
  split
  · next h => subst h; simp
  · split
    · next h => subst h; simp
    · next ha hb =>
      obtain ⟨k, h1, h2, h3, h4, h5⟩ := commonTwos_spec (a.natAbs + 1) a.natAbs b.natAbs 0 (by omega) (Nat.lt_succ_self _)
      rcases hc : commonTwos (a.natAbs + 1) a.natAbs b.natAbs 0 with ⟨u, v, s⟩
      rw [hc] at h1 h2 h3 h4 h5
      simp only [] at h1 h2 h3 h4 h5 ⊢
      have hv0 : v ≠ 0 := by
        intro h; rw [h] at h3; simp at h3; omega
      rw [binarLoop_eq _ _ _ (Nat.lt_succ_self _) hv0 h4, Nat.shiftLeft_eq]
      have : Int.gcd a b = Nat.gcd u v * 2 ^ s := by
        rw [Int.gcd_eq_natAbs_gcd_natAbs, h2, h3, Nat.gcd_mul_right, h1]; simp
      rw [this]

/-! ### bn_lcm -/

theorem lcm_eq (a b : Int) (h : ¬(a = 0 ∧ b = 0)) : lcm a b = some (Int.lcm a b : Int) := by
  unfold lcm
  simp only [gcdBasic_eq]
  have hg : Int.gcd a b ≠ 0 := by
    intro h0; rw [Int.gcd_eq_zero_iff] at h0; exact h h0
  have hg' : ((Int.gcd a b : Nat) : Int) ≠ 0 := by exact_mod_cast hg
  simp only [hg', if_false]
  have hda : Int.gcd a b ∣ a.natAbs := Nat.gcd_dvd_left a.natAbs b.natAbs
  have hdb : Int.gcd a b ∣ b.natAbs := Nat.gcd_dvd_right a.natAbs b.natAbs
  have key1 : (b * (a / (Int.gcd a b : Int))).natAbs = Int.lcm a b := by
    rw [Int.natAbs_mul, Int.natAbs_ediv_of_dvd (Int.gcd_dvd_left a b), Int.natAbs_natCast, Int.lcm_eq_mul_div,
      Nat.mul_comm a.natAbs b.natAbs]
    exact (Nat.mul_div_assoc _ hda).symm
  have key2 : (a * (b / (Int.gcd a b : Int))).natAbs = Int.lcm a b := by
    rw [Int.natAbs_mul, Int.natAbs_ediv_of_dvd (Int.gcd_dvd_right a b), Int.natAbs_natCast, Int.lcm_eq_mul_div]
    exact (Nat.mul_div_assoc _ hdb).symm
  split
  · rw [key1]
  · rw [key2]

theorem lcm_zero_zero : lcm 0 0 = none := by
  unfold lcm gcdBasic; simp

/-! ### bn_mod_inv -/

/-- bn_mod_inv: for a modulus b > 1 the result is THE inverse in [0, b); an error exactly when gcd(a, b) ≠ 1 -/
theorem modInv_spec (a b : Int) (hb : 1 < b) :
    (∀ c, modInv a b = some c → 0 ≤ c ∧ c < b ∧ (a * c) % b = 1) ∧
    (modInv a b = none ↔ Int.gcd a b ≠ 1) := by
  have hs := gcdExtBasic_spec a b
  unfold modInv
  rcases hr : gcdExtBasic a b with ⟨t, d, e⟩
  rw [hr] at hs
  simp only [] at hs ⊢
  obtain ⟨ht, hbez⟩ := hs
  constructor
  · intro c hc
    split at hc
    · next ht1 =>
      injection hc with hc
      have ha0 : a ≠ 0 := by
        intro h0; subst h0
        have : Int.gcd 0 b = b.natAbs := by simp
        rw [this] at ht; omega
      have hbd := gcdExtBasic_dbound a b ha0 (by omega)
      rw [hr] at hbd
      simp only [] at hbd
      have habs : (b.natAbs : Int) = b := Int.natAbs_of_nonneg (by omega)
      rw [habs] at hbd
      have hmod : (a * c) % b = 1 := by
        have h1 : a * c = 1 + b * ((if d < 0 then a else 0) - e) := by
          rw [← hc]
          by_cases hd : d < 0 <;> simp only [hd, if_true, if_false] <;> linear_combination hbez + ht1
        rw [h1, Int.add_mul_emod_self_left]
        exact Int.emod_eq_of_lt (by omega) hb
      refine ⟨?_, ?_, hmod⟩
      · rw [← hc]; split <;> omega
      · rw [← hc]; split <;> omega
    · exact absurd hc (by simp)
  · constructor
    · intro h
      split at h
      · exact absurd h (by simp)
      · next ht1 => intro hg; apply ht1; rw [ht, hg]; rfl
    · intro h
      split
      · next ht1 =>
        exfalso
        apply h
        have h9 : ((Int.gcd a b : Nat) : Int) = 1 := by
          rw [← ht, ht1]
        exact_mod_cast h9
      · rfl

/-! ### bn_mod_inv_sim (Montgomery's trick) -/

/-- the relation "y is the inverse of x modulo b, reduced" -/
def IsInv (b x y : Int) : Prop := (x * y) % b = 1 ∧ 0 ≤ y ∧ y < b

theorem simGo_spec (b : Int) (hb : 1 < b) (xs : List Int) (cPrev u : Int) (invs : List Int)
    (h : simGo b cPrev xs = some (u, invs)) :
    IsInv b cPrev u ∧ List.Forall₂ (IsInv b) xs invs := by
  induction xs generalizing cPrev u invs with
  | nil =>
    unfold simGo at h
    cases hm : modInv cPrev b with
    | none => rw [hm] at h; simp at h
    | some c =>
      rw [hm] at h
      simp only [Option.map_some, Option.some.injEq, Prod.mk.injEq] at h
      obtain ⟨h1, h2⟩ := h
      subst h1; subst h2
      have := (modInv_spec cPrev b hb).1 c hm
      exact ⟨⟨this.2.2, this.1, this.2.1⟩, List.Forall₂.nil⟩
  | cons x xs ih =>
    unfold simGo at h
    simp only [] at h
    cases hr : simGo b (Int.fmod (cPrev * x) b) xs with
    | none => rw [hr] at h; simp at h
    | some r =>
      obtain ⟨u', invs'⟩ := r
      rw [hr] at h
      simp only [Option.some.injEq, Prod.mk.injEq] at h
      obtain ⟨h1, h2⟩ := h
      obtain ⟨⟨hcu, _, _⟩, hall⟩ := ih _ _ _ hr
      have hbnn : 0 ≤ b := by omega
      have hbpos : 0 < b := by omega
      rw [Int.fmod_eq_emod_of_nonneg _ hbnn] at hcu
      rw [Int.fmod_eq_emod_of_nonneg _ hbnn] at h1
      have hone : (1 : Int) % b = 1 := Int.emod_eq_of_lt (by omega) hb
      -- (cPrev·x mod b)·u' ≡ 1  ⇒  cPrev·x·u' ≡ 1
      have hcxu : (cPrev * x * u') % b = 1 := by
        have h0 : ((cPrev * x) % b * u') % b = 1 := hcu
        rw [Int.mul_emod, Int.emod_emod_of_dvd _ (dvd_refl b), ← Int.mul_emod] at h0
        exact h0
      subst h1
      refine ⟨⟨?_, Int.emod_nonneg _ (by omega), Int.emod_lt_of_pos _ hbpos⟩, ?_⟩
      · rw [Int.mul_emod, Int.emod_emod_of_dvd _ (dvd_refl b), ← Int.mul_emod]
        rw [show cPrev * (u' * x) = cPrev * x * u' by ring]; exact hcxu
      · rw [← h2]
        refine List.Forall₂.cons ⟨?_, ?_, ?_⟩ hall
        · rw [Int.fmod_eq_emod_of_nonneg _ hbnn, Int.mul_emod, Int.emod_emod_of_dvd _ (dvd_refl b), ← Int.mul_emod]
          rw [show x * (u' * cPrev) = cPrev * x * u' by ring]; exact hcxu
        · rw [Int.fmod_eq_emod_of_nonneg _ hbnn]; exact Int.emod_nonneg _ (by omega)
        · rw [Int.fmod_eq_emod_of_nonneg _ hbnn]; exact Int.emod_lt_of_pos _ hbpos

theorem modInvSim_spec (as : List Int) (b : Int) (hb : 1 < b) (l : List Int) (h : modInvSim as b = some l) :
    List.Forall₂ (IsInv b) as l := by
  unfold modInvSim at h
  cases as with
  | nil => simp at h
  | cons a0 rest =>
    simp only [] at h
    cases hr : simGo b a0 rest with
    | none => rw [hr] at h; simp at h
    | some r =>
      obtain ⟨u, invs⟩ := r
      rw [hr] at h
      simp only [Option.map_some, Option.some.injEq] at h
      obtain ⟨h1, h2⟩ := simGo_spec b hb rest a0 u invs hr
      rw [← h]
      exact List.Forall₂.cons h1 h2

end Relic.Lemmas.NtGcd
