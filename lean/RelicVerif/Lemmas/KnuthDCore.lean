/-
Assembly: normalisation, top loop, main fold and denormalisation of `divnLow`.
-/
import RelicVerif.Lemmas.KnuthDNorm
namespace Relic.Model

theorem getD_replicate_zero (n j : Nat) : (List.replicate n 0).getD j 0 = 0 := by
  rw [List.getD_eq_getElem?_getD]
  by_cases h : j < n
  · simp [h]
  · simp [h]

theorem scale_back (N Q Vb Va Rn : Nat) (hN : 0 < N) (heq : Q * (N * Vb) + Rn = N * Va)
    (hlt : Rn < N * Vb) : Q * Vb + Rn / N = Va ∧ Rn / N < Vb := by
  have h1 : Rn = N * Va - N * (Q * Vb) := by
    have : Q * (N * Vb) = N * (Q * Vb) := by ring
    omega
  have hdvd : N ∣ Rn := by
    rw [h1]; exact Nat.dvd_sub (Nat.dvd_mul_right N Va) (Nat.dvd_mul_right N (Q * Vb))
  obtain ⟨r', hr'⟩ := hdvd
  subst hr'
  rw [Nat.mul_div_cancel_left _ hN]
  constructor
  · apply Nat.eq_of_mul_eq_mul_left hN
    rw [← heq]; ring
  · exact Nat.lt_of_mul_lt_mul_left hlt

theorem divnLow_core (w : Nat) (hw : 2 ≤ w) (a b : List Nat)
    (hab : b.length ≤ a.length) (hb0 : b ≠ []) (hbt : b.getLast? ≠ some 0)
    (hda : ∀ d ∈ a, d < 2 ^ w) (hdb : ∀ d ∈ b, d < 2 ^ w)
    (hge : val (2 ^ w) b ≤ val (2 ^ w) a) :
    val (2 ^ w) (divnLow w a b).1 * val (2 ^ w) b + val (2 ^ w) (divnLow w a b).2.1 = val (2 ^ w) a
    ∧ val (2 ^ w) (divnLow w a b).2.1 < val (2 ^ w) b
    ∧ (∀ d ∈ (divnLow w a b).1, d < 2 ^ w) ∧ (∀ d ∈ (divnLow w a b).2.1, d < 2 ^ w)
    ∧ (divnLow w a b).1.length = a.length - b.length + 3
    ∧ b.length ≤ (divnLow w a b).2.1.length := by
  have hB4 : 4 ≤ 2 ^ w := by
    calc 4 = 2 ^ 2 := rfl
      _ ≤ 2 ^ w := Nat.pow_le_pow_right (by omega) hw
  have hB : 1 < 2 ^ w := by omega
  have hB0 : 0 < 2 ^ w := by omega
  obtain ⟨n1, n2, n3, n4, n5, n6, n7, n8, n9, n10⟩ := normAB_spec w hw a b hb0 hbt hda hdb
  rw [divnLow_eq_S]
  simp only [divnLowS]
  have hsim := fun st => foldl_divStepS_sim (2 ^ w) (normAB w a b).1.length (normAB w a b).2
    (idxsOf (normAB w a b).1.length (normAB w a b).2.length) st
  unfold idxsOf at hsim ⊢
  generalize (normAB w a b).1 = an at *
  generalize (normAB w a b).2 = bn at *
  generalize normOf w b = norm at *
  have hb0l : 0 < b.length := List.length_pos_iff.mpr hb0
  have hsb : 0 < bn.length := by omega
  have hVge := val_ge_top (2 ^ w) bn hsb
  have hVlt := val_lt (2 ^ w) bn n5
  have hBsucc : (2 ^ w) ^ bn.length = (2 ^ w) ^ (bn.length - 1) * 2 ^ w := by
    rw [← Nat.pow_succ]; congr 1; omega
  have hbt' : 0 < bn.getD (bn.length - 1) 0 := by
    rcases Nat.eq_zero_or_pos (bn.getD (bn.length - 1) 0) with h0 | h0
    · exfalso
      have h1 := val_lt_top (2 ^ w) hB0 bn n5 hsb
      rw [h0, Nat.zero_add, Nat.mul_one] at h1
      rw [hBsucc] at n10
      have : (2 ^ w) ^ (bn.length - 1) * 4 ≤ (2 ^ w) ^ (bn.length - 1) * 2 ^ w :=
        Nat.mul_le_mul_left _ hB4
      omega
    · exact h0
  have hVpos : (2 ^ w) ^ (bn.length - 1) ≤ val (2 ^ w) bn := by
    have : (2 ^ w) ^ (bn.length - 1) * 1 ≤ (2 ^ w) ^ (bn.length - 1) * bn.getD (bn.length - 1) 0 :=
      Nat.mul_le_mul_left _ hbt'
    omega
  have hAlt := val_lt (2 ^ w) an n4
  have hsab : bn.length ≤ an.length := by
    by_contra hcon
    have h1 : (2 ^ w) ^ an.length ≤ (2 ^ w) ^ (bn.length - 1) :=
      Nat.pow_le_pow_right hB0 (by omega)
    have h3 : val (2 ^ w) bn ≤ val (2 ^ w) an := by
      rw [n2, n3]; exact Nat.mul_le_mul_left _ hge
    omega
  generalize hm : an.length - 1 - (bn.length - 1) = m at *
  have hbshl : (List.replicate m 0 ++ bn).length = an.length := by simp; omega
  have hbshv : val (2 ^ w) (List.replicate m 0 ++ bn) = (2 ^ w) ^ m * val (2 ^ w) bn := by
    rw [val_append, val_replicate_zero, List.length_replicate]; simp
  have hbshd : ∀ d ∈ List.replicate m 0 ++ bn, d < 2 ^ w :=
    digs_append (digs_replicate_zero hB0 _) n5
  have hfuel : val (2 ^ w) an < 2 ^ w * val (2 ^ w) (List.replicate m 0 ++ bn) := by
    rw [hbshv]
    have e : (2 ^ w) ^ an.length = (2 ^ w) ^ m * (2 ^ w) ^ bn.length := by
      rw [← Nat.pow_add]; congr 1; omega
    have h3 := Nat.mul_le_mul_left ((2 ^ w) ^ m) n10
    have h4 : 4 * ((2 ^ w) ^ m * val (2 ^ w) bn) ≤ 2 ^ w * ((2 ^ w) ^ m * val (2 ^ w) bn) :=
      Nat.mul_le_mul_right _ hB4
    rw [e] at hAlt
    have e2 : (2 ^ w) ^ m * (4 * val (2 ^ w) bn) = 4 * ((2 ^ w) ^ m * val (2 ^ w) bn) := by ring
    omega
  obtain ⟨mm, t1, t2, t3, t4, t5, t6⟩ := divTopLoop_spec (2 ^ w) hB _ hbshd (2 ^ w) an 0
    hbshl.symm n4 hfuel (by omega)
  rw [hbshv] at t3 t4
  generalize divTopLoop (2 ^ w) (List.replicate m 0 ++ bn) (2 ^ w) an 0 = top at *
  simp only [Nat.zero_add] at t1 t2
  have hmL : m < a.length - b.length + 3 := by omega
  have hq0l : (setAt (List.replicate (a.length - b.length + 3) 0) m top.2).length
      = a.length - b.length + 3 := by simp [setAt]
  have hq0v : val (2 ^ w) (setAt (List.replicate (a.length - b.length + 3) 0) m top.2)
      = top.2 * (2 ^ w) ^ m := by
    have := val_set (2 ^ w) (List.replicate (a.length - b.length + 3) 0) m top.2 (by simp; omega)
    rw [val_replicate_zero, getD_replicate_zero] at this
    unfold setAt
    omega
  have hq0d : ∀ d ∈ setAt (List.replicate (a.length - b.length + 3) 0) m top.2, d < 2 ^ w :=
    digs_set (digs_replicate_zero hB0 _) _ _ (by rw [t1]; exact t2)
  have hq0z : ∀ j, j < m →
      (setAt (List.replicate (a.length - b.length + 3) 0) m top.2).getD j 0 = 0 := by
    intro j hj
    unfold setAt
    rw [getD_set_ne _ _ _ _ (by omega), getD_replicate_zero]
  obtain ⟨f1, f2, f3, f4, f5, f6⟩ := fold_spec (2 ^ w) hB bn n5 hsb hbt' an.length
    (a.length - b.length + 3) m (by omega) (by omega) top.1 _ t6 t5 t4 hq0l hq0d hq0z
  have hs := hsim (top.1, setAt (List.replicate (a.length - b.length + 3) 0) m top.2,
    { topLoop := top.2 })
  have hs1 := congrArg Prod.fst hs
  have hs2 := congrArg Prod.snd hs
  simp only at hs1 hs2
  rw [hs1, hs2]
  generalize List.foldl (stepAQ (2 ^ w) an.length bn)
    (top.1, setAt (List.replicate (a.length - b.length + 3) 0) m top.2)
    (List.map (fun j => j + (bn.length - 1) + 1) (List.range m).reverse) = fin at *
  have hrt : val (2 ^ w) (fin.1.take bn.length) = val (2 ^ w) fin.1 :=
    val_take_of_lt (2 ^ w) _ _ (by omega)
  have hrl : (fin.1.take bn.length).length = bn.length := by simp; omega
  have hrd := digs_take f4 bn.length
  have hR : val (2 ^ w) (if norm = 0 then fin.1.take bn.length
        else (rshbLow w norm (fin.1.take bn.length)).1) = val (2 ^ w) fin.1 / 2 ^ norm
      ∧ (∀ d ∈ (if norm = 0 then fin.1.take bn.length
        else (rshbLow w norm (fin.1.take bn.length)).1), d < 2 ^ w)
      ∧ (if norm = 0 then fin.1.take bn.length
        else (rshbLow w norm (fin.1.take bn.length)).1).length = bn.length := by
    by_cases h0 : norm = 0
    · rw [if_pos h0, h0]; simp only [Nat.pow_zero, Nat.div_one]
      exact ⟨hrt, hrd, hrl⟩
    · rw [if_neg h0]
      obtain ⟨r1, _, r3, r4⟩ := rshbLow_spec w norm n1 _ hrd
      rw [hrt] at r1
      exact ⟨r1, r3, r4.trans hrl⟩
  obtain ⟨R1, R2, R3⟩ := hR
  generalize (if norm = 0 then fin.1.take bn.length
        else (rshbLow w norm (fin.1.take bn.length)).1) = R at *
  have heq : val (2 ^ w) fin.2 * (2 ^ norm * val (2 ^ w) b) + val (2 ^ w) fin.1
      = 2 ^ norm * val (2 ^ w) a := by
    rw [← n2, ← n3, f1, hq0v, t1, ← t3]; ring
  obtain ⟨z1, z2⟩ := scale_back (2 ^ norm) _ _ _ _ (Nat.pow_pos (by omega)) heq (by rw [← n3]; exact f2)
  refine ⟨?_, ?_, f6, R2, f5, by omega⟩
  · show val (2 ^ w) fin.2 * val (2 ^ w) b + val (2 ^ w) R = val (2 ^ w) a
    rw [R1]; exact z1
  · show val (2 ^ w) R < val (2 ^ w) b
    rw [R1]; exact z2

end Relic.Model
