/-
The Miller loops of Model/PpMiller.lean over an abstract "Miller algebra": values in a commutative monoid F, running points
in an additive commutative group T, line functions `L2 t p` (tangent at t, evaluated at p) and `L t q p` (chord through
t and q) that return the line value TOGETHER with the doubled / added point — exactly the interface of pp_dbl_k12 /
pp_add_k12.

What is proved: the loop as coded (signed digits, peeled first iteration, per-pair inner loop, the running point updated by
the line functions) computes the canonical recurrence

    f ← f² · l_{[n]Q,[n]Q}(P),  n ← 2n;   digit ±1:  f ← f · l_{[n]Q,±Q}(P),  n ← n ± 1

started at (f, n) = (1, 1), where the lines are taken at the INTEGER MULTIPLES [n]Q (not at whatever the code's running point
happens to be), the running point ends as [s]Q with s the integer denoted by the digits, and the multi-pairing loop equals
the product of the single loops.  That f_{s,Q} has divisor s(Q) − ([s]Q) − (s−1)(O) — the link to bilinearity — is divisor
theory and NOT proved.
-/
import Mathlib.Algebra.BigOperators.Group.List.Basic
import Mathlib.Algebra.Group.Basic
import Mathlib.Algebra.Module.Defs
import Mathlib.Tactic.Ring
import Mathlib.Tactic.Abel
import RelicVerif.Model.PpMiller

namespace Relic.Lemmas.PpMiller
open Relic.Model.PpMiller

variable {F T P : Type} [CommMonoid F] [AddCommGroup T]
variable (L2 : T → P → F) (L : T → T → P → F)

/-- the operations of a Miller algebra -/
def algOps : MilOps F T P where
  mul a b := a * b
  sqr a := a * a
  dbl t p := (L2 t p, t + t)
  add t q p := (L t q p, t + q)
  neg t := -t

/-- the lines one digit contributes for one pair at index n -/
def lp (q : T) (p : P) (d : ℤ) (n : ℤ) : F :=
  L2 (n • q) p * (if d > 0 then L ((2 * n) • q) q p else if d < 0 then L ((2 * n) • q) (-q) p else 1)

/-- the index after a digit -/
def nNext (d n : ℤ) : ℤ := 2 * n + (if d > 0 then 1 else if d < 0 then -1 else 0)

/-- **the canonical recurrence** for a list of pairs (one pair: the Miller function f_{·,Q}(P)), most significant digit first -/
def fRecM (pairs : List (T × P)) (ds : List ℤ) (st : F × ℤ) : F × ℤ :=
  ds.foldl (fun st d => (st.1 * st.1 * (pairs.map fun qp => lp L2 L qp.1 qp.2 d st.2).prod, nNext d st.2)) st

/-- the running state: every pair at the multiple n -/
def atIndex (pairs : List (T × P)) (n : ℤ) : List (Pair T P) := pairs.map fun qp => (qp.1, qp.2, n • qp.1)

theorem pairStep_alg (d : ℤ) (q : T) (p : P) (r : F) (n : ℤ) :
    pairStep (algOps L2 L) d q p r (n • q) = (r * lp L2 L q p d n, nNext d n • q) := by
  have h2 : n • q + n • q = (2 * n) • q := by rw [← add_zsmul]; congr 1; ring
  unfold pairStep lp nNext algOps
  simp only [h2]
  by_cases h1 : d > 0
  · simp only [h1, if_true, mul_assoc]
    congr 1
    rw [add_zsmul, one_zsmul]
  · by_cases h3 : d < 0
    · simp only [h1, h3, if_true, if_false, mul_assoc]
      congr 1
      rw [add_zsmul, neg_one_zsmul]
    · simp only [h1, h3, if_false, mul_one, add_zero]

theorem pairsStep_alg (d : ℤ) (pairs : List (T × P)) (r : F) (n : ℤ) :
    pairsStep (algOps L2 L) d (atIndex pairs n) r
      = (r * (pairs.map fun qp => lp L2 L qp.1 qp.2 d n).prod, atIndex pairs (nNext d n)) := by
  induction pairs generalizing r with
  | nil => simp [pairsStep, atIndex]
  | cons qp rest ih =>
    obtain ⟨q, p⟩ := qp
    have ih' := ih (r * lp L2 L q p d n)
    unfold atIndex at ih' ⊢
    simp only [List.map_cons, pairsStep, pairStep_alg, ih', List.prod_cons, mul_assoc]

theorem digitStep_alg (d : ℤ) (pairs : List (T × P)) (r : F) (n : ℤ) :
    digitStep (algOps L2 L) d (r, atIndex pairs n)
      = (r * r * (pairs.map fun qp => lp L2 L qp.1 qp.2 d n).prod, atIndex pairs (nNext d n)) := by
  unfold digitStep
  rw [pairsStep_alg]
  rfl

/-- the main loop = the canonical recurrence, the running points are the integer multiples -/
theorem loop_alg (ds : List ℤ) (pairs : List (T × P)) (r : F) (n : ℤ) :
    ds.foldl (fun st d => digitStep (algOps L2 L) d st) (r, atIndex pairs n)
      = ((fRecM L2 L pairs ds (r, n)).1, atIndex pairs (fRecM L2 L pairs ds (r, n)).2) := by
  induction ds generalizing r n with
  | nil => rfl
  | cons d ds ih =>
    simp only [List.foldl_cons, digitStep_alg, ih, fRecM]

theorem dblAll_alg (pairs : List (T × P)) (r : F) (n : ℤ) :
    dblAll (algOps L2 L) (atIndex pairs n) r
      = (r * (pairs.map fun qp => L2 (n • qp.1) qp.2).prod, atIndex pairs (2 * n)) := by
  induction pairs generalizing r with
  | nil => simp [dblAll, atIndex]
  | cons qp rest ih =>
    obtain ⟨q, p⟩ := qp
    have h2 : n • q + n • q = (2 * n) • q := by rw [← add_zsmul]; congr 1; ring
    have ih' := ih (r * L2 (n • q) p)
    unfold atIndex at ih' ⊢
    simp only [List.map_cons, dblAll, algOps, List.prod_cons, mul_assoc, h2] at ih' ⊢
    rw [ih']

theorem addAll_alg (neg : Bool) (pairs : List (T × P)) (r : F) (m : ℤ) :
    addAll (algOps L2 L) neg (atIndex pairs m) r
      = (r * (pairs.map fun qp => L (m • qp.1) (if neg then -qp.1 else qp.1) qp.2).prod,
         atIndex pairs (m + (if neg then -1 else 1))) := by
  induction pairs generalizing r with
  | nil => simp [addAll, atIndex]
  | cons qp rest ih =>
    obtain ⟨q, p⟩ := qp
    have ha : m • q + (if neg = true then -q else q) = (m + (if neg = true then -1 else 1)) • q := by
      cases neg
      · simp only [Bool.false_eq_true, if_false, add_zsmul, one_zsmul]
      · simp only [if_true, add_zsmul, neg_one_zsmul]
    have ih' := ih (r * L (m • q) (if neg = true then -q else q) p)
    unfold atIndex at ih' ⊢
    simp only [List.map_cons, addAll, algOps, List.prod_cons, mul_assoc, ha] at ih' ⊢
    rw [ih']

/-- **pp_mil_k12 as coded = the canonical recurrence started at (1, 1)**: peeled first iteration included; the running
    points end as [s]Q, s the index the recurrence reaches -/
theorem milK12_alg (pairs : List (T × P)) (hp : pairs ≠ []) (naf : List ℤ) (top d1 : ℤ) (ds : List ℤ)
    (hn : naf.reverse = top :: d1 :: ds) :
    milK12 (algOps L2 L) pairs naf
      = some ((fRecM L2 L pairs (d1 :: ds) (1, 1)).1, atIndex pairs (fRecM L2 L pairs (d1 :: ds) (1, 1)).2) := by
  obtain ⟨⟨q0, p0⟩, rest, rfl⟩ := List.exists_cons_of_ne_nil hp
  have h1 : ∀ l : List (T × P), (l.map fun x => (x.1, x.2, x.1)) = atIndex l 1 := by
    intro l; unfold atIndex; simp only [one_zsmul]
  have hq0 : q0 = (1 : ℤ) • q0 := (one_zsmul q0).symm
  -- the state after the peeled iteration is the generic step from (1, 1)
  have first : (let l0 := (algOps L2 L).dbl q0 p0
      let s1 := dblAll (algOps L2 L) (rest.map fun x => (x.1, x.2, x.1)) l0.1
      let st : F × List (Pair T P) := (s1.1, (q0, p0, l0.2) :: s1.2)
      if d1 > 0 then addAll (algOps L2 L) false st.2 st.1 else if d1 < 0 then addAll (algOps L2 L) true st.2 st.1 else st)
      = ((1 : F) * 1 * (((q0, p0) :: rest).map fun qp => lp L2 L qp.1 qp.2 d1 1).prod, atIndex ((q0, p0) :: rest) (nNext d1 1)) := by
    have hd : (q0, p0, q0 + q0) :: atIndex rest (2 * 1) = atIndex ((q0, p0) :: rest) (2 * 1) := by
      unfold atIndex; simp only [List.map_cons, mul_one]; congr 2
      rw [two_zsmul]
    simp only [h1, dblAll_alg]
    show (if d1 > 0 then addAll (algOps L2 L) false ((q0, p0, q0 + q0) :: atIndex rest (2 * 1)) _
      else if d1 < 0 then addAll (algOps L2 L) true ((q0, p0, q0 + q0) :: atIndex rest (2 * 1)) _ else _) = _
    rw [hd]
    have hprod : ∀ A : T × P → F, (L2 q0 p0 * (rest.map fun qp => L2 ((1 : ℤ) • qp.1) qp.2).prod)
        * (((q0, p0) :: rest).map A).prod
        = 1 * 1 * (((q0, p0) :: rest).map fun qp => L2 ((1 : ℤ) • qp.1) qp.2 * A qp).prod := by
      intro A
      rw [List.prod_map_mul]
      simp only [List.map_cons, List.prod_cons, one_zsmul, one_mul]
    by_cases hpos : d1 > 0
    · simp only [hpos, if_true, addAll_alg, Bool.false_eq_true, if_false]
      unfold lp nNext
      simp only [hpos, if_true]
      exact Prod.ext (hprod _) rfl
    · by_cases hneg : d1 < 0
      · simp only [hpos, hneg, if_true, if_false, addAll_alg]
        unfold lp nNext
        simp only [hpos, hneg, if_true, if_false]
        refine Prod.ext (hprod _) ?_
        show atIndex _ (2 * 1 + -1) = atIndex _ (2 * 1 + -1); rfl
      · simp only [hpos, hneg, if_false]
        unfold lp nNext
        simp only [hpos, hneg, if_false, mul_one, add_zero]
        refine Prod.ext ?_ ?_
        · show L2 q0 p0 * _ = _
          simp only [List.map_cons, List.prod_cons, one_zsmul, one_mul]
        · show (q0, p0, q0 + q0) :: atIndex rest _ = atIndex ((q0, p0) :: rest) _
          unfold atIndex
          simp only [List.map_cons, mul_one, two_zsmul]
  unfold milK12
  simp only [hn]
  refine congrArg some ?_
  refine Eq.trans (congrArg (fun st => List.foldl (fun st d => digitStep (algOps L2 L) d st) st ds) first) ?_
  show List.foldl (fun st d => digitStep (algOps L2 L) d st) _ ds = _
  rw [loop_alg]
  simp only [fRecM, List.foldl_cons]

/-- the index the recurrence reaches: the integer denoted by the digits (for digits in {−1, 0, 1}) above the start index -/
theorem fRecM_index (pairs : List (T × P)) (ds : List ℤ) (h : ∀ d ∈ ds, d = -1 ∨ d = 0 ∨ d = 1) (r : F) (n : ℤ) :
    (fRecM L2 L pairs ds (r, n)).2 = ds.foldl (fun acc d => 2 * acc + d) n := by
  induction ds generalizing r n with
  | nil => rfl
  | cons d ds ih =>
    have hd := h d (by simp)
    have hn : nNext d n = 2 * n + d := by
      unfold nNext
      rcases hd with rfl | rfl | rfl <;> simp
    simp only [fRecM, List.foldl_cons] at ih ⊢
    rw [ih (fun c hc => h c (by simp [hc])), hn]

/-- most-significant-first evaluation of a reversed digit list = the value of the list (Model/Rec.eval, width 1) -/
theorem eval_reverse (naf : List ℤ) :
    naf.reverse.foldl (fun acc d => 2 * acc + d) 0 = Relic.Model.Rec.eval 1 naf := by
  rw [List.foldl_reverse]
  unfold Relic.Model.Rec.eval
  induction naf with
  | nil => rfl
  | cons d ds ih => simp only [List.foldr_cons, ih]; ring

/-- **the multi-pairing loop is the product of the single loops** (same digits, same index) -/
theorem fRecM_prod (pairs : List (T × P)) (ds : List ℤ) (fs : T × P → F) (n : ℤ) :
    (fRecM L2 L pairs ds ((pairs.map fs).prod, n)).1
      = (pairs.map fun qp => (fRecM L2 L [qp] ds (fs qp, n)).1).prod ∧
    ∀ qp, (fRecM L2 L [qp] ds (fs qp, n)).2 = (fRecM L2 L pairs ds ((pairs.map fs).prod, n)).2 := by
  induction ds generalizing fs n with
  | nil => exact ⟨rfl, fun _ => rfl⟩
  | cons d ds ih =>
    have step : (pairs.map fs).prod * (pairs.map fs).prod * (pairs.map fun qp => lp L2 L qp.1 qp.2 d n).prod
        = (pairs.map fun qp => fs qp * fs qp * lp L2 L qp.1 qp.2 d n).prod := by
      rw [List.prod_map_mul, List.prod_map_mul]
    have := ih (fun qp => fs qp * fs qp * lp L2 L qp.1 qp.2 d n) (nNext d n)
    simp only [fRecM, List.foldl_cons, List.map_cons, List.map_nil, List.prod_cons, List.prod_nil, mul_one] at this ⊢
    rw [step]
    exact this

/-- **pp_mil_lit_k12 as coded = the canonical recurrence** over the plain bits below the top bit, started at (r, 1) -/
theorem milLit_alg (pairs : List (T × P)) (r : F) (a : ℕ) :
    milLit (algOps L2 L) pairs r a
      = ((fRecM L2 L pairs ((List.range (Relic.Model.Rec.bitLen a - 1)).reverse.map fun i => if a.testBit i then (1 : ℤ) else 0) (r, 1)).1,
         atIndex pairs (fRecM L2 L pairs ((List.range (Relic.Model.Rec.bitLen a - 1)).reverse.map fun i => if a.testBit i then (1 : ℤ) else 0) (r, 1)).2) := by
  have h1 : (pairs.map fun x => (x.1, x.2, x.1)) = atIndex pairs 1 := by
    unfold atIndex; simp only [one_zsmul]
  unfold milLit
  simp only [h1]
  exact loop_alg L2 L _ pairs r 1

/-- the bits of a below position k, most significant first, evaluate to a mod 2^k above the start value -/
theorem bits_eval (a : ℕ) (k : ℕ) (acc : ℤ) :
    ((List.range k).reverse.map fun i => if a.testBit i then (1 : ℤ) else 0).foldl (fun acc d => 2 * acc + d) acc
      = acc * 2 ^ k + ((a % 2 ^ k : ℕ) : ℤ) := by
  induction k generalizing acc with
  | zero => simp [Nat.mod_one]
  | succ k ih =>
    rw [List.range_succ, List.reverse_append, List.reverse_singleton, List.singleton_append, List.map_cons, List.foldl_cons, ih]
    have hb : ((a % 2 ^ (k + 1) : ℕ) : ℤ) = (if a.testBit k then (1 : ℤ) else 0) * 2 ^ k + ((a % 2 ^ k : ℕ) : ℤ) := by
      have h := Nat.mod_pow_succ (x := a) (b := 2) (k := k)
      have ht := Nat.testBit_eq_decide_div_mod_eq (x := a) (i := k)
      have h01 : a / 2 ^ k % 2 = 0 ∨ a / 2 ^ k % 2 = 1 := by omega
      rw [h, ht]
      rcases h01 with h0 | h1'
      · simp [h0]
      · simp [h1']; ring
    rw [hb]; ring

/-- the index the lit loop reaches is a itself -/
theorem bits_index (a : ℕ) (ha : a ≠ 0) :
    ((List.range (Relic.Model.Rec.bitLen a - 1)).reverse.map fun i => if a.testBit i then (1 : ℤ) else 0).foldl
      (fun acc d => 2 * acc + d) 1 = (a : ℤ) := by
  rw [bits_eval]
  have hlen : Relic.Model.Rec.bitLen a - 1 = a.log2 := by unfold Relic.Model.Rec.bitLen; simp [ha]
  rw [hlen]
  have h1 : 2 ^ a.log2 ≤ a := Nat.log2_self_le ha
  have h2 : a < 2 ^ (a.log2 + 1) := Nat.lt_log2_self
  have h3 : a % 2 ^ a.log2 = a - 2 ^ a.log2 := by
    rw [Nat.mod_eq_sub_mod h1, Nat.mod_eq_of_lt]
    rw [pow_succ] at h2; omega
  rw [h3]
  push_cast [Nat.cast_sub h1]
  ring

end Relic.Lemmas.PpMiller
