/-
Bridge between the natural-number polynomials of Spec/Gf2.lean (bit i = coefficient of z^i, xor, shift-and-xor product,
schoolbook long division) and Mathlib's `Polynomial (ZMod 2)`: `toPoly` is an injective map that turns xor into +,
`<<< k` into multiplication by X^k, `clmul` into the product and `pmod` into `%ₘ`. Every algebraic law of the
natural-number operations follows from the commutative-ring structure of (ZMod 2)[X].
-/
import Mathlib.Algebra.Polynomial.Basic
import Mathlib.Algebra.Polynomial.Div
import Mathlib.Algebra.Polynomial.Expand
import Mathlib.Algebra.CharP.Two
import Mathlib.Data.ZMod.Basic
import Mathlib.FieldTheory.Finite.Basic
import Mathlib.Tactic.Ring
import Mathlib.Tactic.Linarith
import RelicVerif.Spec.Gf2

namespace Relic.Lemmas.Gf2Poly
open Polynomial Relic.Spec.Gf2

/-- the polynomial a natural number denotes -/
noncomputable def toPoly (n : Nat) : (ZMod 2)[X] :=
  ∑ i ∈ Finset.range (bitLen n), if n.testBit i then X ^ i else 0

/-- bitLen is the number of bits: a < 2^n ↔ bitLen a ≤ n -/
theorem bitLen_le_iff (a n : Nat) : bitLen a ≤ n ↔ a < 2 ^ n := by
  unfold bitLen
  by_cases ha : a = 0
  · subst ha; simp
  · rw [if_neg ha, Nat.succ_le_iff, Nat.log2_lt ha]

theorem lt_two_pow_bitLen (a : Nat) : a < 2 ^ bitLen a := (bitLen_le_iff a _).1 le_rfl

theorem testBit_of_bitLen_le {n i : Nat} (h : bitLen n ≤ i) : n.testBit i = false :=
  Nat.testBit_lt_two_pow ((bitLen_le_iff n i).1 h)

theorem coeff_toPoly (n i : Nat) : (toPoly n).coeff i = if n.testBit i then 1 else 0 := by
  unfold toPoly
  rw [Polynomial.finsetSum_coeff]
  have h : ∀ j, ((if n.testBit j then (X : (ZMod 2)[X]) ^ j else 0).coeff i)
      = if i = j then (if n.testBit j then 1 else 0) else 0 := by
    intro j
    by_cases hb : n.testBit j <;> simp [hb, coeff_X_pow]
  simp only [h]
  rw [Finset.sum_ite_eq]
  by_cases hi : i ∈ Finset.range (bitLen n)
  · rw [if_pos hi]
  · rw [if_neg hi]
    rw [Finset.mem_range, not_lt] at hi
    rw [testBit_of_bitLen_le hi]; simp

theorem toPoly_eq_of_coeff {n : Nat} {p : (ZMod 2)[X]}
    (h : ∀ i, p.coeff i = if n.testBit i then 1 else 0) : toPoly n = p := by
  ext i; rw [coeff_toPoly, h]

theorem toPoly_injective : Function.Injective toPoly := by
  intro a b h
  apply Nat.eq_of_testBit_eq
  intro i
  have := congrArg (fun p => p.coeff i) h
  simp only [coeff_toPoly] at this
  by_cases ha : a.testBit i <;> by_cases hb : b.testBit i <;> simp_all

theorem toPoly_zero : toPoly 0 = 0 := by
  apply toPoly_eq_of_coeff; intro i; simp

theorem toPoly_two_pow (k : Nat) : toPoly (2 ^ k) = X ^ k := by
  apply toPoly_eq_of_coeff; intro i
  rw [Nat.testBit_two_pow, coeff_X_pow]
  by_cases h : i = k
  · subst h; simp
  · have : ¬ k = i := fun e => h e.symm
    simp [h, this]

theorem toPoly_one : toPoly 1 = 1 := by
  simpa using toPoly_two_pow 0

theorem toPoly_two : toPoly 2 = X := by
  simpa using toPoly_two_pow 1

theorem toPoly_eq_zero_iff (a : Nat) : toPoly a = 0 ↔ a = 0 := by
  constructor
  · intro h; apply toPoly_injective; rw [h, toPoly_zero]
  · rintro rfl; exact toPoly_zero

theorem toPoly_xor (a b : Nat) : toPoly (a ^^^ b) = toPoly a + toPoly b := by
  apply toPoly_eq_of_coeff; intro i
  rw [coeff_add, coeff_toPoly, coeff_toPoly, Nat.testBit_xor]
  by_cases ha : a.testBit i <;> by_cases hb : b.testBit i <;> simp [ha, hb]
  exact CharTwo.add_self_eq_zero (1 : ZMod 2)

theorem toPoly_shiftLeft (a k : Nat) : toPoly (a <<< k) = X ^ k * toPoly a := by
  apply toPoly_eq_of_coeff; intro i
  rw [coeff_X_pow_mul', coeff_toPoly, Nat.testBit_shiftLeft]
  by_cases h : k ≤ i <;> simp [h]

theorem degree_toPoly_lt_iff (a n : Nat) : (toPoly a).degree < n ↔ bitLen a ≤ n := by
  rw [degree_lt_iff_coeff_zero, bitLen_le_iff]
  constructor
  · intro h
    apply Nat.lt_pow_two_of_testBit
    intro i hi
    have := h i hi
    rw [coeff_toPoly] at this
    by_cases hb : a.testBit i
    · simp [hb] at this
    · simpa using hb
  · intro h i hi
    rw [coeff_toPoly, Nat.testBit_lt_two_pow (lt_of_lt_of_le h (Nat.pow_le_pow_right (by norm_num) hi))]
    simp

theorem bitLen_pos {a : Nat} (ha : a ≠ 0) : 0 < bitLen a := by
  unfold bitLen; rw [if_neg ha]; omega

theorem testBit_bitLen_sub_one {a : Nat} (ha : a ≠ 0) : a.testBit (bitLen a - 1) = true := by
  unfold bitLen; rw [if_neg ha]; simpa using Nat.testBit_log2 ha

theorem natDegree_toPoly (a : Nat) (ha : a ≠ 0) : (toPoly a).natDegree = bitLen a - 1 := by
  apply le_antisymm
  · have h : (toPoly a).degree < (bitLen a : ℕ) := (degree_toPoly_lt_iff a _).2 le_rfl
    have hp := bitLen_pos ha
    have h2 : (toPoly a).natDegree < bitLen a := by
      rw [degree_eq_natDegree ((toPoly_eq_zero_iff a).not.2 ha)] at h
      exact_mod_cast h
    omega
  · apply le_natDegree_of_ne_zero
    rw [coeff_toPoly, testBit_bitLen_sub_one ha]; simp

theorem monic_toPoly (a : Nat) (ha : a ≠ 0) : (toPoly a).Monic := by
  unfold Monic leadingCoeff
  rw [natDegree_toPoly a ha, coeff_toPoly, testBit_bitLen_sub_one ha]; simp


theorem toPoly_clmul_loop (a b : Nat) (n init : Nat) :
    toPoly ((List.range n).foldl (fun acc i => if b.testBit i then acc ^^^ (a <<< i) else acc) init)
      = toPoly init + ∑ i ∈ Finset.range n, if b.testBit i then toPoly (a <<< i) else 0 := by
  induction n with
  | zero => simp
  | succ n ih =>
    rw [List.range_succ, List.foldl_append, Finset.sum_range_succ, ← add_assoc, ← ih]
    simp only [List.foldl_cons, List.foldl_nil]
    by_cases hb : b.testBit n
    · simp only [hb, if_true]; rw [toPoly_xor]
    · simp only [hb]; simp

/-- the shift-and-xor loop is the polynomial product -/
theorem toPoly_clmul (a b : Nat) : toPoly (clmul a b) = toPoly a * toPoly b := by
  unfold clmul
  rw [toPoly_clmul_loop, toPoly_zero, zero_add]
  conv_rhs => rw [show toPoly b = ∑ i ∈ Finset.range (bitLen b), if b.testBit i then X ^ i else 0 from rfl,
    Finset.mul_sum]
  apply Finset.sum_congr rfl
  intro i _
  by_cases hb : b.testBit i
  · simp only [hb, if_true]; rw [toPoly_shiftLeft, mul_comm]
  · simp [hb]

theorem lt_two_pow_of_testBit_false {x k : Nat} (h : x < 2 ^ (k + 1)) (hb : x.testBit k = false) :
    x < 2 ^ k := by
  apply Nat.lt_pow_two_of_testBit
  intro i hi
  rcases Nat.eq_or_lt_of_le hi with rfl | hlt
  · exact hb
  · exact Nat.testBit_lt_two_pow (lt_of_lt_of_le h (Nat.pow_le_pow_right (by norm_num) hlt))

theorem pmod_loop (f d : Nat) (hf : bitLen f = d + 1) : ∀ (n acc : Nat), acc < 2 ^ (d + n) →
    ∃ q : Nat, (List.range n).reverse.foldl
            (fun acc j => if acc.testBit (d + j) then acc ^^^ (f <<< j) else acc) acc
          = acc ^^^ clmul q f ∧
        (List.range n).reverse.foldl
            (fun acc j => if acc.testBit (d + j) then acc ^^^ (f <<< j) else acc) acc < 2 ^ d := by
  intro n
  induction n with
  | zero =>
    intro acc h
    refine ⟨0, ?_, by simpa using h⟩
    apply toPoly_injective
    simp [toPoly_xor, toPoly_clmul, toPoly_zero]
  | succ n ih =>
    intro acc h
    rw [List.range_succ, List.reverse_append]
    simp only [List.reverse_cons, List.reverse_nil, List.nil_append, List.cons_append,
      List.foldl_cons]
    have hf0 : f ≠ 0 := by rintro rfl; simp [bitLen] at hf
    have hfd : f.testBit d = true := by
      have := testBit_bitLen_sub_one hf0; rwa [hf, Nat.add_sub_cancel] at this
    have hflt : f < 2 ^ (d + 1) := (bitLen_le_iff f _).1 (le_of_eq hf)
    by_cases hb : acc.testBit (d + n)
    · simp only [hb, if_true]
      have h1 : acc ^^^ f <<< n < 2 ^ (d + n) := by
        apply lt_two_pow_of_testBit_false
        · apply Nat.xor_lt_two_pow
          · exact h
          · rw [Nat.shiftLeft_eq, show d + n + 1 = (d + 1) + n by omega, Nat.pow_add]
            exact Nat.mul_lt_mul_of_pos_right hflt (Nat.two_pow_pos n)
        · rw [Nat.testBit_xor, hb, Nat.testBit_shiftLeft]
          simp [hfd]
      obtain ⟨q, hq, hlt⟩ := ih _ h1
      refine ⟨q ^^^ 2 ^ n, ?_, hlt⟩
      rw [hq]
      apply toPoly_injective
      simp only [toPoly_xor, toPoly_clmul, toPoly_shiftLeft, toPoly_two_pow]; ring
    · simp only [hb]
      have h1 : acc < 2 ^ (d + n) := lt_two_pow_of_testBit_false h (by simpa using hb)
      obtain ⟨q, hq, hlt⟩ := ih _ h1
      exact ⟨q, by simpa using hq, by simpa using hlt⟩

theorem pmod_loop_spec (a f : Nat) (hf : f ≠ 0) :
    ∃ q : Nat, pmod a f = a ^^^ clmul q f ∧ pmod a f < 2 ^ (bitLen f - 1) := by
  have hfd : bitLen f = (bitLen f - 1) + 1 := by have := bitLen_pos hf; omega
  have ha : a < 2 ^ ((bitLen f - 1) + (bitLen a - (bitLen f - 1))) :=
    lt_of_lt_of_le (lt_two_pow_bitLen a) (Nat.pow_le_pow_right (by norm_num) (by omega))
  exact pmod_loop f (bitLen f - 1) hfd _ a ha

theorem pmod_lt (a f : Nat) (hf : f ≠ 0) : pmod a f < 2 ^ (bitLen f - 1) := by
  obtain ⟨q, _, hlt⟩ := pmod_loop_spec a f hf
  exact hlt

theorem toPoly_pmod_eq (a f : Nat) (hf : f ≠ 0) : ∃ q, toPoly (pmod a f) = toPoly a + q * toPoly f := by
  obtain ⟨q, hq, _⟩ := pmod_loop_spec a f hf
  exact ⟨toPoly q, by rw [hq, toPoly_xor, toPoly_clmul]⟩

theorem bitLen_pmod_lt (a f : Nat) (hf : f ≠ 0) : bitLen (pmod a f) < bitLen f := by
  have := (bitLen_le_iff _ _).2 (pmod_lt a f hf)
  have := bitLen_pos hf
  omega

theorem degree_toPoly_lt_of_bitLen_lt {r f : Nat} (h : bitLen r < bitLen f) :
    (toPoly r).degree < (toPoly f).degree := by
  have hf : f ≠ 0 := by rintro rfl; simp [bitLen] at h
  rw [degree_eq_natDegree ((toPoly_eq_zero_iff f).not.2 hf), natDegree_toPoly f hf,
    degree_toPoly_lt_iff]
  omega

/-- the long-division loop is the remainder of the division by the (monic) polynomial of f -/
theorem toPoly_pmod (a f : Nat) (hf : f ≠ 0) : toPoly (pmod a f) = toPoly a %ₘ toPoly f := by
  obtain ⟨q, hq⟩ := toPoly_pmod_eq a f hf
  refine ((div_modByMonic_unique q (toPoly (pmod a f)) (monic_toPoly f hf) ⟨?_, ?_⟩).2).symm
  · rw [hq, add_assoc, mul_comm q, CharTwo.add_self_eq_zero, add_zero]
  · exact degree_toPoly_lt_of_bitLen_lt (bitLen_pmod_lt a f hf)


/-! ### laws of the natural-number operations -/

theorem clmul_comm (a b : Nat) : clmul a b = clmul b a := by
  apply toPoly_injective; simp only [toPoly_clmul]; ring

theorem clmul_assoc (a b c : Nat) : clmul (clmul a b) c = clmul a (clmul b c) := by
  apply toPoly_injective; simp only [toPoly_clmul]; ring

theorem clmul_xor_right (a b c : Nat) : clmul a (b ^^^ c) = clmul a b ^^^ clmul a c := by
  apply toPoly_injective; simp only [toPoly_clmul, toPoly_xor]; ring

theorem clmul_xor_left (a b c : Nat) : clmul (a ^^^ b) c = clmul a c ^^^ clmul b c := by
  apply toPoly_injective; simp only [toPoly_clmul, toPoly_xor]; ring

theorem clmul_shiftLeft_left (a b k : Nat) : clmul (a <<< k) b = clmul a b <<< k := by
  apply toPoly_injective; simp only [toPoly_clmul, toPoly_shiftLeft]; ring

theorem clmul_shiftLeft_right (a b k : Nat) : clmul a (b <<< k) = clmul a b <<< k := by
  apply toPoly_injective; simp only [toPoly_clmul, toPoly_shiftLeft]; ring

theorem clmul_one (a : Nat) : clmul a 1 = a := by
  apply toPoly_injective; simp only [toPoly_clmul, toPoly_one]; ring

theorem clmul_zero (a : Nat) : clmul a 0 = 0 := by
  apply toPoly_injective; simp only [toPoly_clmul, toPoly_zero]; ring

theorem clmul_two_pow (a k : Nat) : clmul a (2 ^ k) = a <<< k := by
  apply toPoly_injective; simp only [toPoly_clmul, toPoly_two_pow, toPoly_shiftLeft]; ring

/-- degree of a product: bitLen (clmul a b) = bitLen a + bitLen b - 1 for non-zero operands -/
theorem bitLen_clmul (a b : Nat) (ha : a ≠ 0) (hb : b ≠ 0) : bitLen (clmul a b) = bitLen a + bitLen b - 1 := by
  have hm : (toPoly (clmul a b)).Monic := by
    rw [toPoly_clmul]; exact (monic_toPoly a ha).mul (monic_toPoly b hb)
  have hc : clmul a b ≠ 0 := by
    intro h; rw [h, toPoly_zero] at hm; exact hm.ne_zero rfl
  have h := (monic_toPoly a ha).natDegree_mul (monic_toPoly b hb)
  rw [← toPoly_clmul, natDegree_toPoly _ hc, natDegree_toPoly _ ha, natDegree_toPoly _ hb] at h
  have := bitLen_pos ha; have := bitLen_pos hb; have := bitLen_pos hc
  omega

theorem toPoly_clmul_self (a : Nat) : toPoly (clmul a a) = expand (ZMod 2) 2 (toPoly a) := by
  rw [toPoly_clmul, ZMod.expand_card, pow_two]

theorem testBit_eq_of_coeff_eq {a b i j : Nat} (h : (toPoly a).coeff i = (toPoly b).coeff j) :
    a.testBit i = b.testBit j := by
  simp only [coeff_toPoly] at h
  by_cases ha : a.testBit i <;> by_cases hb : b.testBit j <;> simp_all

/-- squaring spreads the bits: coefficient 2i of a² is coefficient i of a, odd coefficients vanish -/
theorem clmul_self_testBit_even (a i : Nat) : (clmul a a).testBit (2 * i) = a.testBit i := by
  apply testBit_eq_of_coeff_eq
  rw [toPoly_clmul_self, mul_comm, coeff_expand_mul (by norm_num)]

theorem clmul_self_testBit_odd (a i : Nat) : (clmul a a).testBit (2 * i + 1) = false := by
  have h : (toPoly (clmul a a)).coeff (2 * i + 1) = 0 := by
    rw [toPoly_clmul_self, coeff_expand (by norm_num), if_neg (by omega)]
  rw [coeff_toPoly] at h
  by_cases hb : (clmul a a).testBit (2 * i + 1)
  · simp [hb] at h
  · simpa using hb

/-- division with remainder: existence … -/
theorem pmod_spec (a f : Nat) (hf : f ≠ 0) : ∃ q, a = clmul q f ^^^ pmod a f := by
  obtain ⟨q, hq, _⟩ := pmod_loop_spec a f hf
  refine ⟨q, ?_⟩
  rw [hq]
  apply toPoly_injective
  simp only [toPoly_xor, toPoly_clmul]
  rw [add_comm (toPoly a), ← add_assoc, CharTwo.add_self_eq_zero, zero_add]

/-- … and uniqueness -/
theorem pmod_unique (a f q r : Nat) (hf : f ≠ 0) (h : a = clmul q f ^^^ r) (hr : bitLen r < bitLen f) : pmod a f = r := by
  apply toPoly_injective
  rw [toPoly_pmod a f hf]
  refine (div_modByMonic_unique (toPoly q) (toPoly r) (monic_toPoly f hf) ⟨?_, ?_⟩).2
  · rw [h, toPoly_xor, toPoly_clmul]; ring
  · exact degree_toPoly_lt_of_bitLen_lt hr

theorem pmod_xor (a b f : Nat) (hf : f ≠ 0) : pmod (a ^^^ b) f = pmod a f ^^^ pmod b f := by
  apply toPoly_injective
  simp only [toPoly_pmod _ _ hf, toPoly_xor, add_modByMonic]

theorem pmod_of_bitLen_lt (a f : Nat) (h : bitLen a < bitLen f) : pmod a f = a := by
  unfold pmod
  have : bitLen a - (bitLen f - 1) = 0 := by omega
  simp [this]

theorem pmod_pmod (a f : Nat) (hf : f ≠ 0) : pmod (pmod a f) f = pmod a f :=
  pmod_of_bitLen_lt _ _ (bitLen_pmod_lt a f hf)


theorem pmod_clmul_self (q f : Nat) (hf : f ≠ 0) : pmod (clmul q f) f = 0 := by
  apply pmod_unique _ _ q 0 hf
  · simp
  · have := bitLen_pos hf; simpa [bitLen] using this

/-- adding a multiple of f does not change the remainder -/
theorem pmod_xor_clmul (a q f : Nat) (hf : f ≠ 0) : pmod (a ^^^ clmul q f) f = pmod a f := by
  rw [pmod_xor _ _ _ hf, pmod_clmul_self q f hf]; simp

theorem pmod_clmul_pmod_left (a b f : Nat) (hf : f ≠ 0) : pmod (clmul (pmod a f) b) f = pmod (clmul a b) f := by
  obtain ⟨q, hq, _⟩ := pmod_loop_spec a f hf
  rw [hq, clmul_xor_left, show clmul (clmul q f) b = clmul (clmul q b) f from by
    apply toPoly_injective; simp only [toPoly_clmul]; ring]
  exact pmod_xor_clmul _ _ _ hf

theorem pmod_clmul_pmod_right (a b f : Nat) (hf : f ≠ 0) : pmod (clmul a (pmod b f)) f = pmod (clmul a b) f := by
  rw [clmul_comm a, pmod_clmul_pmod_left _ _ _ hf, clmul_comm b]

/-! ### the ring GF(2)[z]/(f) on natural numbers -/

theorem Field.mul_comm (F : Field) (a b : Nat) : F.mul a b = F.mul b a := by
  unfold Field.mul; rw [clmul_comm]

theorem Field.mul_assoc (F : Field) (hf : F.f ≠ 0) (a b c : Nat) : F.mul (F.mul a b) c = F.mul a (F.mul b c) := by
  unfold Field.mul
  rw [pmod_clmul_pmod_left _ _ _ hf, pmod_clmul_pmod_right _ _ _ hf, clmul_assoc]

theorem Field.mul_xor (F : Field) (hf : F.f ≠ 0) (a b c : Nat) : F.mul a (b ^^^ c) = F.mul a b ^^^ F.mul a c := by
  unfold Field.mul
  rw [clmul_xor_right, pmod_xor _ _ _ hf]

theorem Field.xor_mul (F : Field) (hf : F.f ≠ 0) (a b c : Nat) : F.mul (a ^^^ b) c = F.mul a c ^^^ F.mul b c := by
  unfold Field.mul
  rw [clmul_xor_left, pmod_xor _ _ _ hf]

theorem Field.mul_one (F : Field) (a : Nat) (ha : bitLen a < bitLen F.f) : F.mul a 1 = a := by
  unfold Field.mul
  rw [clmul_one, pmod_of_bitLen_lt _ _ ha]

theorem Field.mul_zero (F : Field) (a : Nat) : F.mul a 0 = 0 := by
  unfold Field.mul
  rw [clmul_zero]
  simp [pmod, bitLen]

theorem Field.isElem_mul (F : Field) (hf : F.wellFormed = true) (a b : Nat) : F.isElem (F.mul a b) = true := by
  unfold Field.wellFormed at hf
  simp only [Bool.and_eq_true, beq_iff_eq, decide_eq_true_eq] at hf
  obtain ⟨⟨h1, _⟩, _⟩ := hf
  have hf0 : F.f ≠ 0 := by intro h; rw [h] at h1; simp [bitLen] at h1
  have := bitLen_pmod_lt (clmul a b) F.f hf0
  unfold Field.isElem Field.mul
  simp only [decide_eq_true_eq]
  omega

/-- squaring is additive (characteristic two) -/
theorem Field.sqr_xor (F : Field) (hf : F.f ≠ 0) (a b : Nat) : F.sqr (a ^^^ b) = F.sqr a ^^^ F.sqr b := by
  unfold Field.sqr Field.mul
  rw [← pmod_xor _ _ _ hf]
  congr 1
  apply toPoly_injective
  simp only [toPoly_clmul, toPoly_xor]
  exact CharTwo.add_mul_self _ _

theorem Field.sqrN_xor (F : Field) (hf : F.f ≠ 0) (n a b : Nat) : F.sqrN n (a ^^^ b) = F.sqrN n a ^^^ F.sqrN n b := by
  induction n generalizing a b with
  | zero => rfl
  | succ n ih =>
    simp only [Field.sqrN]
    rw [Field.sqr_xor F hf, ih]

end Relic.Lemmas.Gf2Poly
