/-
The executable reconstruction functions of property C06 — `Model.Cp.sssKey` (the shape of mpc_sss_key) and
`Spec.Cp.lagrangeAt` (the specification the driver evaluates) — return f(0) for every polynomial f over Z_q of degree below
the number of presented shares, for every prime q and every list of shares with pairwise distinct abscissae modulo q
(any qualifying subset, any order).  Link between the Nat-level code and Lemmas/ShareC06.lean.
-/
import Mathlib.LinearAlgebra.Lagrange
import Mathlib.Data.ZMod.Basic
import Mathlib.FieldTheory.Finite.Basic
import Mathlib.Data.List.GetD
import RelicVerif.Lemmas.NumC06
import RelicVerif.Lemmas.ShareC06
import RelicVerif.Model.Cp

namespace Relic.Lemmas.SssC06
open Polynomial Relic.Spec.Cp Relic.Model.Cp
open Relic.Spec.Curve (invEuclid)

/-- shares of f: (x, f(x)) with the value taken as its canonical representative -/
def sharesOf (q : Nat) (f : (ZMod q)[X]) (xs : List Nat) : List (Nat × Nat) :=
  xs.map fun x => (x, (f.eval (x : ZMod q)).val)

theorem cast_subMod (q : Nat) [Fact q.Prime] (a b : Nat) :
    ((subMod q a b : Nat) : ZMod q) = (a : ZMod q) - b := by
  unfold subMod
  have hq : 0 < q := (Fact.out : q.Prime).pos
  have hb : b % q ≤ q := (Nat.mod_lt b hq).le
  rw [ZMod.natCast_mod, Nat.add_sub_assoc hb, Nat.cast_add, Nat.cast_sub hb, ZMod.natCast_mod,
    ZMod.natCast_mod, ZMod.natCast_self]
  ring

theorem cast_invEuclid (q : Nat) [Fact q.Prime] (b : Nat) (hb : (b : ZMod q) ≠ 0) :
    ((invEuclid q b : Nat) : ZMod q) = (b : ZMod q)⁻¹ := by
  have hp : q.Prime := Fact.out
  have hcop : Nat.Coprime b q := by
    rw [Nat.coprime_comm, hp.coprime_iff_not_dvd]
    intro hd
    exact hb ((ZMod.natCast_eq_zero_iff b q).2 hd)
  have h := Relic.Lemmas.NumC06.invEuclid_mul_mod q b hp.one_lt hcop
  have h2 : ((invEuclid q b * b % q : Nat) : ZMod q) = ((1 : Nat) : ZMod q) := by rw [h]
  rw [ZMod.natCast_mod, Nat.cast_mul, Nat.cast_one] at h2
  exact eq_inv_of_mul_eq_one_left h2

theorem cast_foldl_prod (q : Nat) {α : Type} (c : α → Prop) [DecidablePred c] (g : α → Nat) (l : List α) :
    ∀ a0 : Nat, ((l.foldl (fun a m => if c m then a else a * g m % q) a0 : Nat) : ZMod q)
      = a0 * ((l.filter (fun m => ¬ c m)).map (fun m => (g m : ZMod q))).prod := by
  induction l with
  | nil => intro a0; simp
  | cons x l ih =>
    intro a0
    rw [List.foldl_cons, ih]
    by_cases hc : c x
    · simp [hc]
    · simp [hc, ZMod.natCast_mod, Nat.cast_mul, mul_assoc]

theorem cast_foldl_sum (q : Nat) {α : Type} (t : α → Nat) (l : List α) :
    ∀ a0 : Nat, ((l.foldl (fun acc i => (acc + t i) % q) a0 : Nat) : ZMod q)
      = a0 + (l.map (fun i => (t i : ZMod q))).sum := by
  induction l with
  | nil => intro a0; simp
  | cons x l ih =>
    intro a0
    rw [List.foldl_cons, ih]
    simp [ZMod.natCast_mod, Nat.cast_add, add_assoc]

theorem list_filter_prod {ι M : Type*} [DecidableEq ι] [CommMonoid M] (l : List ι) (hl : l.Nodup) (i : ι)
    (g : ι → M) : ((l.filter (fun m => ¬ m = i)).map g).prod = ∏ m ∈ l.toFinset.erase i, g m := by
  rw [← List.prod_toFinset g (hl.filter _), List.toFinset_filter]
  congr 1
  ext m
  simp [Finset.mem_erase, and_comm]

theorem sssKey_cast (q : Nat) [Fact q.Prime] (pts : List (Nat × Nat))
    (hinj : Set.InjOn (fun i => ((pts.getD i (0, 0)).1 : ZMod q)) (Finset.range pts.length : Finset Nat)) :
    ((sssKey q pts : Nat) : ZMod q) = ∑ i ∈ Finset.range pts.length,
      ((pts.getD i (0, 0)).2 : ZMod q) *
        ((∏ m ∈ (Finset.range pts.length).erase i, ((pts.getD m (0, 0)).1 : ZMod q)) /
         (∏ m ∈ (Finset.range pts.length).erase i,
            (((pts.getD m (0, 0)).1 : ZMod q) - ((pts.getD i (0, 0)).1 : ZMod q)))) := by
  unfold sssKey
  simp only []
  rw [ZMod.natCast_mod, cast_foldl_sum, Nat.cast_zero, zero_add,
    ← List.sum_toFinset _ List.nodup_range, List.toFinset_range]
  apply Finset.sum_congr rfl
  intro i hi
  have hA := cast_foldl_prod q (fun m => m = i) (fun m => (pts.getD m (0, 0)).1) (List.range pts.length) 1
  have hB := cast_foldl_prod q (fun m => m = i)
    (fun m => subMod q (pts.getD m (0, 0)).1 (pts.getD i (0, 0)).1) (List.range pts.length) 1
  rw [Nat.cast_one, one_mul, list_filter_prod _ List.nodup_range, List.toFinset_range] at hA hB
  simp only [cast_subMod] at hB
  have hne : (∏ m ∈ (Finset.range pts.length).erase i,
            (((pts.getD m (0, 0)).1 : ZMod q) - ((pts.getD i (0, 0)).1 : ZMod q))) ≠ 0 := by
    rw [Finset.prod_ne_zero_iff]
    intro m hm
    rw [Finset.mem_erase] at hm
    rw [sub_ne_zero]
    intro he
    exact hm.1 (hinj (Finset.mem_coe.2 hm.2) (Finset.mem_coe.2 hi) he)
  rw [ZMod.natCast_mod, Nat.cast_mul, ZMod.natCast_mod, Nat.cast_mul, cast_invEuclid q _ (by rw [hB]; exact hne),
    hA, hB]
  rw [div_eq_mul_inv]
  ring

theorem sharesOf_length (q : Nat) (f : (ZMod q)[X]) (xs : List Nat) : (sharesOf q f xs).length = xs.length := by
  unfold sharesOf; rw [List.length_map]

theorem sharesOf_getD (q : Nat) (f : (ZMod q)[X]) (xs : List Nat) (i : Nat) (hi : i < xs.length) :
    (sharesOf q f xs).getD i (0, 0) = (xs.getD i 0, (f.eval ((xs.getD i 0 : Nat) : ZMod q)).val) := by
  have hi' : i < (sharesOf q f xs).length := by rw [sharesOf_length]; exact hi
  rw [List.getD_eq_getElem _ _ hi', List.getD_eq_getElem _ _ hi]
  simp only [sharesOf, List.getElem_map]

/-- the statements' `xs.map (fun x => (x : ZMod q))` elaborates with the coercion on the list (a monadic lift); it is the
plain map of the cast -/
theorem map_norm (q : Nat) (xs : List Nat) :
    (xs.map (fun x => (x : ZMod q))) = List.map (fun x : Nat => (x : ZMod q)) xs := by
  simp only [List.map_id', List.bind_eq_flatMap, List.pure_def]
  induction xs with
  | nil => rfl
  | cons a l ih => simp [List.flatMap_cons, ih]

theorem getD_injOn (q : Nat) (xs : List Nat) (hnd : (List.map (fun x : Nat => (x : ZMod q)) xs).Nodup) :
    Set.InjOn (fun i => ((xs.getD i 0 : Nat) : ZMod q)) (Finset.range xs.length : Finset Nat) := by
  intro i hi j hj he
  rw [Finset.mem_coe, Finset.mem_range] at hi hj
  simp only [] at he
  rw [List.getD_eq_getElem _ _ hi, List.getD_eq_getElem _ _ hj] at he
  have hi' : i < (List.map (fun x : Nat => (x : ZMod q)) xs).length := by rw [List.length_map]; exact hi
  have hj' : j < (List.map (fun x : Nat => (x : ZMod q)) xs).length := by rw [List.length_map]; exact hj
  have := (hnd.getElem_inj_iff (hi := hi') (hj := hj')).1 (by rw [List.getElem_map, List.getElem_map]; exact he)
  exact this

/-- mpc_sss_key's formula on shares of f reconstructs f(0) -/
theorem sssKey_reconstruct (q : Nat) [Fact q.Prime] (f : (ZMod q)[X]) (xs : List Nat)
    (hnd : (xs.map (fun x : Nat => (x : ZMod q))).Nodup) (hdeg : f.degree < xs.length) :
    ((sssKey q (sharesOf q f xs) : Nat) : ZMod q) = f.eval 0 ∧ sssKey q (sharesOf q f xs) < q := by
  have hq : 0 < q := (Fact.out : q.Prime).pos
  refine ⟨?_, Nat.mod_lt _ hq⟩
  have hinjx := getD_injOn q xs hnd
  have hinj : Set.InjOn (fun i => (((sharesOf q f xs).getD i (0, 0)).1 : ZMod q))
      (Finset.range (sharesOf q f xs).length : Finset Nat) := by
    rw [sharesOf_length]
    intro i hi j hj he
    have hi2 := hi
    have hj2 := hj
    rw [Finset.mem_coe, Finset.mem_range] at hi2 hj2
    simp only [sharesOf_getD q f xs i hi2, sharesOf_getD q f xs j hj2] at he
    exact hinjx hi hj he
  rw [sssKey_cast q _ hinj, sharesOf_length]
  rw [← Relic.Lemmas.ShareC06.shamir_reconstruct_indexed f (Finset.range xs.length)
    (fun i => ((xs.getD i 0 : Nat) : ZMod q)) hinjx (by rw [Finset.card_range]; exact hdeg)]
  apply Finset.sum_congr rfl
  intro i hi
  have hi2 := Finset.mem_range.1 hi
  rw [sharesOf_getD q f xs i hi2]
  simp only []
  rw [ZMod.natCast_zmod_val]
  congr 1
  congr 1
  · apply Finset.prod_congr rfl
    intro m hm
    rw [sharesOf_getD q f xs m (Finset.mem_range.1 (Finset.mem_of_mem_erase hm))]
  · apply Finset.prod_congr rfl
    intro m hm
    rw [sharesOf_getD q f xs m (Finset.mem_range.1 (Finset.mem_of_mem_erase hm))]

theorem lagrangeAt_cast (q : Nat) [Fact q.Prime] (xs : List Nat) (y : Nat → Nat)
    (hnd : (List.map (fun x : Nat => (x : ZMod q)) xs).Nodup) :
    ((lagrangeAt q (xs.map (fun x => (x, y x))) 0 : Nat) : ZMod q) = ∑ x ∈ xs.toFinset,
      (y x : ZMod q) * ((∏ m ∈ xs.toFinset.erase x, (m : ZMod q)) /
        (∏ m ∈ xs.toFinset.erase x, ((m : ZMod q) - (x : ZMod q)))) := by
  have hxs : xs.Nodup := List.Nodup.of_map _ hnd
  have hinj := List.inj_on_of_nodup_map hnd
  unfold lagrangeAt
  simp only [List.foldl_map]
  rw [ZMod.natCast_mod, cast_foldl_sum, Nat.cast_zero, zero_add, ← List.sum_toFinset _ hxs]
  apply Finset.sum_congr rfl
  intro x hx
  rw [List.mem_toFinset] at hx
  have hfilt : xs.filter (fun m => ¬ (m % q = x % q)) = xs.filter (fun m => ¬ m = x) := by
    apply List.filter_congr
    intro m hm
    have : (m % q = x % q) ↔ m = x := by
      constructor
      · intro h
        exact hinj hm hx ((ZMod.natCast_eq_natCast_iff' m x q).2 h)
      · intro h; rw [h]
    simp only [this]
  have hA := cast_foldl_prod q (fun m => m % q = x % q) (fun m => subMod q 0 m) xs 1
  have hB := cast_foldl_prod q (fun m => m % q = x % q) (fun m => subMod q x m) xs 1
  rw [Nat.cast_one, one_mul, hfilt, list_filter_prod _ hxs] at hA hB
  simp only [cast_subMod] at hA hB
  have hne : (∏ m ∈ xs.toFinset.erase x, ((x : ZMod q) - (m : ZMod q))) ≠ 0 := by
    rw [Finset.prod_ne_zero_iff]
    intro m hm
    rw [Finset.mem_erase, List.mem_toFinset] at hm
    rw [sub_ne_zero]
    intro he
    exact hm.1 (hinj hm.2 hx he.symm)
  rw [Nat.cast_mul, ZMod.natCast_mod, Nat.cast_mul, ZMod.natCast_mod, cast_invEuclid q _ (by rw [hB]; exact hne),
    hA, hB, mul_assoc, ← div_eq_mul_inv, ← Finset.prod_div_distrib, ← Finset.prod_div_distrib]
  congr 1
  apply Finset.prod_congr rfl
  intro m _
  rw [Nat.cast_zero, zero_sub, ← neg_sub (m : ZMod q) (x : ZMod q), neg_div_neg_eq]

/-- the specification's interpolation at 0 on shares of f reconstructs f(0) -/
theorem lagrangeAt_zero_reconstruct (q : Nat) [Fact q.Prime] (f : (ZMod q)[X]) (xs : List Nat)
    (hnd : (xs.map (fun x : Nat => (x : ZMod q))).Nodup) (hdeg : f.degree < xs.length) :
    ((lagrangeAt q (sharesOf q f xs) 0 : Nat) : ZMod q) = f.eval 0 ∧ lagrangeAt q (sharesOf q f xs) 0 < q := by
  have hq : 0 < q := (Fact.out : q.Prime).pos
  refine ⟨?_, Nat.mod_lt _ hq⟩
  have hxs : xs.Nodup := List.Nodup.of_map _ hnd
  have hinj : Set.InjOn (fun x : Nat => (x : ZMod q)) (xs.toFinset : Finset Nat) := by
    intro a ha b hb he
    rw [Finset.mem_coe, List.mem_toFinset] at ha hb
    exact List.inj_on_of_nodup_map hnd ha hb he
  unfold sharesOf
  rw [lagrangeAt_cast q xs (fun x => (f.eval ((x : Nat) : ZMod q)).val) hnd]
  rw [← Relic.Lemmas.ShareC06.shamir_reconstruct_indexed f xs.toFinset (fun x : Nat => (x : ZMod q)) hinj
    (by rw [List.toFinset_card_of_nodup hxs]; exact hdeg)]
  apply Finset.sum_congr rfl
  intro x _
  rw [ZMod.natCast_zmod_val]

/-- hence model and specification agree on every qualifying input -/
theorem sssKey_eq_lagrangeAt (q : Nat) [Fact q.Prime] (f : (ZMod q)[X]) (xs : List Nat)
    (hnd : (xs.map (fun x : Nat => (x : ZMod q))).Nodup) (hdeg : f.degree < xs.length) :
    sssKey q (sharesOf q f xs) = lagrangeAt q (sharesOf q f xs) 0 := by
  obtain ⟨h1, h1lt⟩ := sssKey_reconstruct q f xs hnd hdeg
  obtain ⟨h2, h2lt⟩ := lagrangeAt_zero_reconstruct q f xs hnd hdeg
  have h := (ZMod.natCast_eq_natCast_iff' _ _ q).1 (h1.trans h2.symm)
  rw [Nat.mod_eq_of_lt h1lt, Nat.mod_eq_of_lt h2lt] at h
  exact h

theorem zipIdx_sum_shift (q : Nat) (x : ZMod q) (l : List Nat) : ∀ k : Nat,
    ((l.zipIdx k).map fun (a, i) => (a : ZMod q) * x ^ i).sum
      = x ^ k * ((l.zipIdx 0).map fun (a, i) => (a : ZMod q) * x ^ i).sum := by
  induction l with
  | nil => intro k; simp
  | cons a l ih =>
    intro k
    rw [List.zipIdx_cons, List.zipIdx_cons, List.map_cons, List.map_cons, List.sum_cons, List.sum_cons,
      ih (k + 1), ih (0 + 1)]
    simp only []
    ring

/-- Horner evaluation of the dealer (bn_evl / polyEval) is polynomial evaluation in Z_q: share_i = f(i) -/
theorem polyEval_eq (q : Nat) [Fact q.Prime] (coeffs : List Nat) (x : Nat) :
    ((polyEval q coeffs x : Nat) : ZMod q)
      = (coeffs.zipIdx.map fun (a, i) => (a : ZMod q) * (x : ZMod q) ^ i).sum := by
  induction coeffs with
  | nil => simp [polyEval]
  | cons a l ih =>
    have hstep : polyEval q (a :: l) x = (polyEval q l x * x + a) % q := rfl
    rw [hstep, ZMod.natCast_mod, Nat.cast_add, Nat.cast_mul, ih, List.zipIdx_cons, List.map_cons, List.sum_cons,
      zipIdx_sum_shift q (x : ZMod q) l (0 + 1)]
    simp only []
    ring

end Relic.Lemmas.SssC06
