/-
Partial correctness of the Euclidean inversions of src/fb/relic_fb_inv.c as modelled in Model/FbInv.lean: whenever the model of
fb_inv_binar / fb_inv_almos / fb_inv_exgcd returns a value c for a non-zero field element a, then a·c = 1 in GF(2)[z]/(f)
(and, for binar / almos, c is a reduced field element); a = 0 is reported.  Invariant: g·a ≡ u (mod f) for both cofactor pairs.
-/
import RelicVerif.Lemmas.Gf2Field
import RelicVerif.Model.FbInv

namespace Relic.Lemmas.FbInvEuclid
open Polynomial Relic.Spec.Gf2 Relic.Lemmas.Gf2Poly Relic.Lemmas.Gf2Field Relic.Model.FbInv

theorem ψ_f (F : Field) : ψ F F.f = 0 := by unfold ψ; exact AdjoinRoot.mk_self

theorem ψ_shl (F : Field) (x j : Nat) : ψ F (x <<< j) = ψ F 2 ^ j * ψ F x := by
  unfold ψ; rw [toPoly_shiftLeft, map_mul, map_pow, toPoly_two]

theorem ψ_half (F : Field) (x : Nat) (hx : x % 2 = 0) : ψ F 2 * ψ F (x / 2) = ψ F x := by
  have : x = (x / 2) <<< 1 := by rw [Nat.shiftLeft_eq]; omega
  conv_rhs => rw [this]
  rw [ψ_shl, pow_one]

theorem ψ_two_ne (F : Field) (hF : F.wellFormed = true) (_hirr : Irreducible (toPoly F.f)) : ψ F 2 ≠ 0 := by
  obtain ⟨_, _, h3, _⟩ := wf_parts hF
  intro e
  have h4 : 2 ^ 2 ≤ 2 ^ F.m := Nat.pow_le_pow_right (by norm_num) h3
  have : (2 : Nat) = 0 := ψ_inj F hF (by rw [bitLen_le_iff]; omega) (by simp [bitLen]) (by rw [e, ψ_zero])
  omega

/-- g·a ≡ u (mod f), g reduced -/
def Inv (F : Field) (a u g : Nat) : Prop := ψ F g * ψ F a = ψ F u ∧ bitLen g ≤ F.m

theorem halveG_spec (F : Field) (hF : F.wellFormed = true) (g : Nat) (hg : bitLen g ≤ F.m) :
    ψ F 2 * ψ F (halveG F.f g) = ψ F g ∧ bitLen (halveG F.f g) ≤ F.m := by
  obtain ⟨h1, hodd, _, _⟩ := wf_parts hF
  have hgl : g < 2 ^ F.m := (bitLen_le_iff _ _).1 hg
  have hfl : F.f < 2 ^ (F.m + 1) := (bitLen_le_iff _ _).1 (by omega)
  have hp : 2 ^ (F.m + 1) = 2 * 2 ^ F.m := by rw [pow_succ]; ring
  unfold halveG
  by_cases hgo : g % 2 = 1
  · rw [if_pos hgo]
    have hev : (g ^^^ F.f) % 2 = 0 := by
      have := Nat.xor_mod_two_pow (a := g) (b := F.f) (n := 1)
      simp only [pow_one] at this
      rw [this, hgo, hodd]; rfl
    have hlt : g ^^^ F.f < 2 ^ (F.m + 1) := Nat.xor_lt_two_pow (by omega) hfl
    refine ⟨?_, ?_⟩
    · rw [ψ_half F _ hev, ψ_xor, ψ_f, add_zero]
    · rw [bitLen_le_iff]; omega
  · rw [if_neg hgo]
    refine ⟨ψ_half F _ (by omega), ?_⟩
    rw [bitLen_le_iff]; omega

theorem halve_spec (F : Field) (hF : F.wellFormed = true) (hirr : Irreducible (toPoly F.f)) (a : Nat) :
    ∀ (fuel u g u' g' : Nat), Inv F a u g → halve F.f fuel u g = some (u', g') → Inv F a u' g' := by
  have := Fact.mk hirr
  have h2 := ψ_two_ne F hF hirr
  intro fuel
  induction fuel with
  | zero => intro u g u' g' _ h; simp [halve] at h
  | succ k ih =>
    intro u g u' g' hI h
    rw [halve] at h
    by_cases hu0 : u = 0
    · rw [if_pos hu0] at h; exact absurd h (by simp)
    · rw [if_neg hu0] at h
      by_cases hev : u % 2 = 0
      · rw [if_pos hev] at h
        apply ih _ _ _ _ _ h
        obtain ⟨hψ, hb⟩ := hI
        obtain ⟨hg1, hg2⟩ := halveG_spec F hF g hb
        refine ⟨?_, hg2⟩
        apply mul_left_cancel₀ h2
        rw [← mul_assoc, hg1, ψ_half F u hev, hψ]
      · rw [if_neg hev] at h
        simp only [Option.some.injEq, Prod.mk.injEq] at h
        obtain ⟨rfl, rfl⟩ := h; exact hI

theorem inv_add (F : Field) {a u v g1 g2 : Nat} (h1 : Inv F a u g1) (h2 : Inv F a v g2) : Inv F a (u ^^^ v) (g1 ^^^ g2) := by
  refine ⟨?_, isElem_xor F h1.2 h2.2⟩
  rw [ψ_xor, ψ_xor, add_mul, h1.1, h2.1]

theorem binLoop_spec (F : Field) (hF : F.wellFormed = true) (hirr : Irreducible (toPoly F.f)) (w a : Nat) :
    ∀ (fuel u v g1 g2 c : Nat), Inv F a u g1 → Inv F a v g2 → binLoop w F.f fuel u v g1 g2 = some c → Inv F a 1 c := by
  intro fuel
  induction fuel with
  | zero => intro u v g1 g2 c _ _ h; simp [binLoop] at h
  | succ k ih =>
    intro u v g1 g2 c hU hV h
    rw [binLoop] at h
    cases hh1 : halve F.f (bitLen u + 1) u g1 with
    | none => rw [hh1] at h; exact absurd h (by simp)
    | some p1 =>
      obtain ⟨u1, g1'⟩ := p1
      have hU' := halve_spec F hF hirr a _ _ _ _ _ hU hh1
      rw [hh1] at h
      simp only [] at h
      by_cases hu1 : u1 = 1
      · rw [if_pos hu1] at h
        simp only [Option.some.injEq] at h
        subst h; rw [hu1] at hU'; exact hU'
      · rw [if_neg hu1] at h
        cases hh2 : halve F.f (bitLen v + 1) v g2 with
        | none => rw [hh2] at h; exact absurd h (by simp)
        | some p2 =>
          obtain ⟨v1, g2'⟩ := p2
          have hV' := halve_spec F hF hirr a _ _ _ _ _ hV hh2
          rw [hh2] at h
          simp only [] at h
          by_cases hv1 : v1 = 1
          · rw [if_pos hv1] at h
            simp only [Option.some.injEq] at h
            subst h; rw [hv1] at hV'; exact hV'
          · rw [if_neg hv1] at h
            by_cases hgt : digGt w u1 v1 = true
            · rw [if_pos hgt] at h
              exact ih _ _ _ _ _ (inv_add F hU' hV') hV' h
            · rw [if_neg hgt] at h
              exact ih _ _ _ _ _ hU' (inv_add F hV' hU') h

theorem almLoop_spec (F : Field) (hF : F.wellFormed = true) (hirr : Irreducible (toPoly F.f)) (w a : Nat) :
    ∀ (fuel u v b d c : Nat), Inv F a u b → Inv F a v d → almLoop w F.f fuel u v b d = some c → Inv F a 1 c := by
  intro fuel
  induction fuel with
  | zero => intro u v b d c _ _ h; simp [almLoop] at h
  | succ k ih =>
    intro u v b d c hU hV h
    rw [almLoop] at h
    cases hh1 : halve F.f (bitLen u + 1) u b with
    | none => rw [hh1] at h; exact absurd h (by simp)
    | some p1 =>
      obtain ⟨u1, b'⟩ := p1
      have hU' := halve_spec F hF hirr a _ _ _ _ _ hU hh1
      rw [hh1] at h
      simp only [] at h
      by_cases hu1 : u1 = 1
      · rw [if_pos hu1] at h
        simp only [Option.some.injEq] at h
        subst h; rw [hu1] at hU'; exact hU'
      · rw [if_neg hu1] at h
        by_cases hgt : digGt w v u1 = true
        · rw [if_pos hgt] at h
          exact ih _ _ _ _ _ (inv_add F hV hU') hU' h
        · rw [if_neg hgt] at h
          exact ih _ _ _ _ _ (inv_add F hU' hV) hV h

/-- from the invariant at u = 1 to the defining equation of the inverse -/
theorem inv_one_mul (F : Field) (hF : F.wellFormed = true) (a c : Nat) (h : ψ F c * ψ F a = ψ F 1) : F.mul a c = 1 := by
  obtain ⟨_, _, _, hf⟩ := wf_parts hF
  apply ψ_inj F hF (isElem_mul F hF _ _) (isElem_one F hF)
  rw [ψ_mul F hf, mul_comm, h]

theorem init_inv (F : Field) (hF : F.wellFormed = true) (a : Nat) : Inv F a a 1 ∧ Inv F a F.f 0 :=
  ⟨⟨by rw [ψ_one, one_mul], isElem_one F hF⟩, ⟨by rw [ψ_zero, zero_mul, ψ_f], by simp [bitLen]⟩⟩

/-- fb_inv_binar: zero is reported; a returned value is the (reduced) inverse -/
theorem invBinar_partial (F : Field) (hF : F.wellFormed = true) (hirr : Irreducible (toPoly F.f)) (w a : Nat) :
    (a = 0 → invBinar w F a = none) ∧ (∀ c, invBinar w F a = some c → bitLen c ≤ F.m ∧ F.mul a c = 1) := by
  refine ⟨fun h => by simp [invBinar, h], fun c h => ?_⟩
  unfold invBinar at h
  by_cases ha : a = 0
  · rw [if_pos ha] at h; exact absurd h (by simp)
  · rw [if_neg ha] at h
    obtain ⟨i1, i2⟩ := init_inv F hF a
    obtain ⟨h1, h2⟩ := binLoop_spec F hF hirr w a _ _ _ _ _ _ i1 i2 h
    exact ⟨h2, inv_one_mul F hF a c h1⟩

/-- fb_inv_almos: zero is reported; a returned value is the (reduced) inverse -/
theorem invAlmos_partial (F : Field) (hF : F.wellFormed = true) (hirr : Irreducible (toPoly F.f)) (w a : Nat) :
    (a = 0 → invAlmos w F a = none) ∧ (∀ c, invAlmos w F a = some c → bitLen c ≤ F.m ∧ F.mul a c = 1) := by
  refine ⟨fun h => by simp [invAlmos, h], fun c h => ?_⟩
  unfold invAlmos at h
  by_cases ha : a = 0
  · rw [if_pos ha] at h; exact absurd h (by simp)
  · rw [if_neg ha] at h
    obtain ⟨i1, i2⟩ := init_inv F hF a
    obtain ⟨h1, h2⟩ := almLoop_spec F hF hirr w a _ _ _ _ _ _ i1 i2 h
    exact ⟨h2, inv_one_mul F hF a c h1⟩

/-! ### fb_inv_exgcd -/

theorem exgStep_spec (F : Field) (a : Nat) (rec : Nat → Nat → Nat → Nat → Int → Option Nat)
    (hrec : ∀ u v g1 g2 j c, ψ F g1 * ψ F a = ψ F u → ψ F g2 * ψ F a = ψ F v → rec u v g1 g2 j = some c → ψ F c * ψ F a = ψ F 1)
    (u v g1 g2 j c : Nat) (h1 : ψ F g1 * ψ F a = ψ F u) (h2 : ψ F g2 * ψ F a = ψ F v)
    (h : exgStep rec u v g1 g2 j = some c) : ψ F c * ψ F a = ψ F 1 := by
  unfold exgStep at h
  simp only [] at h
  have hI : ψ F (g1 ^^^ (g2 <<< j)) * ψ F a = ψ F (u ^^^ (v <<< j)) := by
    rw [ψ_xor, ψ_xor, ψ_shl, ψ_shl, add_mul, h1, mul_assoc, h2]
  by_cases hu1 : u ^^^ (v <<< j) = 1
  · rw [if_pos hu1] at h
    simp only [Option.some.injEq] at h
    subst h; rw [hu1] at hI; exact hI
  · rw [if_neg hu1] at h
    by_cases hu0 : u ^^^ (v <<< j) = 0
    · rw [if_pos hu0] at h; exact absurd h (by simp)
    · rw [if_neg hu0] at h
      exact hrec _ _ _ _ _ _ hI h2 h

theorem exgLoop_spec (F : Field) (a : Nat) :
    ∀ (fuel u v g1 g2 : Nat) (j : Int) (c : Nat), ψ F g1 * ψ F a = ψ F u → ψ F g2 * ψ F a = ψ F v →
      exgLoop fuel u v g1 g2 j = some c → ψ F c * ψ F a = ψ F 1 := by
  intro fuel
  induction fuel with
  | zero => intro u v g1 g2 j c _ _ h; simp [exgLoop] at h
  | succ k ih =>
    intro u v g1 g2 j c h1 h2 h
    rw [exgLoop] at h
    by_cases hj : j < 0
    · rw [if_pos hj] at h
      exact exgStep_spec F a _ (ih) _ _ _ _ _ _ h2 h1 h
    · rw [if_neg hj] at h
      exact exgStep_spec F a _ (ih) _ _ _ _ _ _ h1 h2 h

/-- fb_inv_exgcd: zero is reported; a returned value c satisfies a·c = 1 in GF(2)[z]/(f).
    `bitLen c ≤ F.m` is `invExgcd_isElem` below.  Full statement (not proved):
    `a ≠ 0 → bitLen a ≤ F.m → ∃ c, invExgcd F a = some c` (the fuel 2(bitLen a + bitLen f) + 2 suffices). -/
theorem invExgcd_partial (F : Field) (hF : F.wellFormed = true) (a : Nat) :
    (a = 0 → invExgcd F a = none) ∧ (∀ c, invExgcd F a = some c → F.mul a c = 1) := by
  refine ⟨fun h => by simp [invExgcd, h], fun c h => ?_⟩
  unfold invExgcd at h
  by_cases ha : a = 0
  · rw [if_pos ha] at h; exact absurd h (by simp)
  · rw [if_neg ha] at h
    cases hl : exgLoop (2 * (bitLen a + bitLen F.f) + 2) a F.f 1 0 ((bitLen a : Int) - ((F.m : Int) + 1)) with
    | none => rw [hl] at h; exact absurd h (by simp)
    | some g =>
      rw [hl] at h
      simp only [Option.some.injEq] at h
      have hg := exgLoop_spec F a _ _ _ _ _ _ _ (by rw [ψ_one, one_mul]) (by rw [ψ_zero, zero_mul, ψ_f]) hl
      apply inv_one_mul F hF a c
      rw [← h]
      by_cases hb : g.testBit F.m = true
      · rw [if_pos hb, ψ_xor, ψ_f, add_zero]; exact hg
      · rw [if_neg hb]; exact hg

/-! ### fb_inv_exgcd: the degree of the returned cofactor -/

theorem bl_xor_le {x y k : Nat} (hx : bitLen x ≤ k) (hy : bitLen y ≤ k) : bitLen (x ^^^ y) ≤ k := by
  rw [bitLen_le_iff] at *; exact Nat.xor_lt_two_pow hx hy

theorem bl_shl_le {x k : Nat} (j : Nat) (hx : bitLen x ≤ k) : bitLen (x <<< j) ≤ k + j := by
  rw [bitLen_le_iff] at *
  rw [Nat.shiftLeft_eq, pow_add]
  exact Nat.mul_lt_mul_of_pos_right hx (by positivity)

/-- u, v non-zero; deg g1 + deg v ≤ m and deg g2 + deg u ≤ m (in bit lengths) -/
def DegInv (m u v g1 g2 : Nat) : Prop :=
  u ≠ 0 ∧ v ≠ 0 ∧ bitLen g1 + bitLen v ≤ m + 2 ∧ bitLen g2 + bitLen u ≤ m + 2

theorem exgStep_deg (m : Nat) (rec : Nat → Nat → Nat → Nat → Int → Option Nat)
    (hrec : ∀ u v g1 g2 c, DegInv m u v g1 g2 → rec u v g1 g2 ((bitLen u : Int) - (bitLen v : Int)) = some c → bitLen c ≤ m + 1)
    (u v g1 g2 j c : Nat) (hI : DegInv m u v g1 g2) (hj : bitLen v + j = bitLen u)
    (h : exgStep rec u v g1 g2 j = some c) : bitLen c ≤ m + 1 := by
  obtain ⟨hu, hv, h1, h2⟩ := hI
  have hvp := bitLen_pos hv
  have hu' : bitLen (u ^^^ (v <<< j)) ≤ bitLen u := bl_xor_le le_rfl (by rw [← hj]; exact bl_shl_le j le_rfl)
  have hg' : bitLen (g1 ^^^ (g2 <<< j)) ≤ m + 2 - bitLen v :=
    bl_xor_le (by omega) (le_trans (bl_shl_le j le_rfl) (by omega))
  unfold exgStep at h
  simp only [] at h
  by_cases hu1 : u ^^^ (v <<< j) = 1
  · rw [if_pos hu1] at h
    simp only [Option.some.injEq] at h
    subst h; omega
  · rw [if_neg hu1] at h
    by_cases hu0 : u ^^^ (v <<< j) = 0
    · rw [if_pos hu0] at h; exact absurd h (by simp)
    · rw [if_neg hu0] at h
      exact hrec _ _ _ _ _ ⟨hu0, hv, by omega, by omega⟩ h

theorem exgLoop_deg (m : Nat) :
    ∀ (fuel u v g1 g2 c : Nat), DegInv m u v g1 g2 →
      exgLoop fuel u v g1 g2 ((bitLen u : Int) - (bitLen v : Int)) = some c → bitLen c ≤ m + 1 := by
  intro fuel
  induction fuel with
  | zero => intro u v g1 g2 c _ h; simp [exgLoop] at h
  | succ k ih =>
    intro u v g1 g2 c hI h
    rw [exgLoop] at h
    obtain ⟨hu, hv, h1, h2⟩ := hI
    by_cases hj : ((bitLen u : Int) - (bitLen v : Int)) < 0
    · rw [if_pos hj] at h
      exact exgStep_deg m _ ih _ _ _ _ _ _ ⟨hv, hu, h2, h1⟩ (by omega) h
    · rw [if_neg hj] at h
      exact exgStep_deg m _ ih _ _ _ _ _ _ ⟨hu, hv, h1, h2⟩ (by omega) h

/-- fb_inv_exgcd returns a reduced element -/
theorem invExgcd_isElem (F : Field) (hF : F.wellFormed = true) (a c : Nat) (ha : bitLen a ≤ F.m)
    (h : invExgcd F a = some c) : bitLen c ≤ F.m := by
  obtain ⟨hb, _, _, hf⟩ := wf_parts hF
  unfold invExgcd at h
  by_cases ha0 : a = 0
  · rw [if_pos ha0] at h; exact absurd h (by simp)
  · rw [if_neg ha0] at h
    cases hl : exgLoop (2 * (bitLen a + bitLen F.f) + 2) a F.f 1 0 ((bitLen a : Int) - ((F.m : Int) + 1)) with
    | none => rw [hl] at h; exact absurd h (by simp)
    | some g =>
      rw [hl] at h
      simp only [Option.some.injEq] at h
      have b1 : bitLen 1 = 1 := by decide
      have b0 : bitLen 0 = 0 := by simp [bitLen]
      have hj : ((bitLen a : Int) - ((F.m : Int) + 1)) = (bitLen a : Int) - (bitLen F.f : Int) := by rw [hb]; push_cast; ring
      rw [hj] at hl
      have hg := exgLoop_deg F.m _ _ _ _ _ _ ⟨ha0, hf, by rw [b1]; omega, by rw [b0]; omega⟩ hl
      have hgl : g < 2 ^ (F.m + 1) := (bitLen_le_iff _ _).1 hg
      have hfl : F.f < 2 ^ (F.m + 1) := (bitLen_le_iff _ _).1 (by omega)
      rw [← h, bitLen_le_iff]
      by_cases hbit : g.testBit F.m = true
      · rw [if_pos hbit]
        apply lt_two_pow_of_testBit_false (Nat.xor_lt_two_pow hgl hfl)
        have hft : F.f.testBit F.m = true := by
          have := testBit_bitLen_sub_one hf
          rwa [hb, Nat.add_sub_cancel] at this
        rw [Nat.testBit_xor, hbit, hft]; rfl
      · rw [if_neg hbit]
        exact lt_two_pow_of_testBit_false hgl (by simpa using hbit)

end Relic.Lemmas.FbInvEuclid
