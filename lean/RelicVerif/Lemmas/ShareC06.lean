/-
Secret sharing, multiplication triples and key agreement for property C06, in the abstract structures they live in:
Lagrange interpolation at 0 over a field reconstructs f(0) from ANY set of at least t distinct points of a polynomial of
degree < t (Shamir), in the product form mpc_sss_key evaluates; Beaver's identity in a commutative ring; Diffie–Hellman
symmetry and the MQV key equality in an abstract commutative group; Pedersen commitments are additively homomorphic.
-/
import Mathlib.LinearAlgebra.Lagrange
import Mathlib.Algebra.Polynomial.Eval.Defs
import Mathlib.Algebra.Module.Basic
import Mathlib.Tactic.Ring
import Mathlib.Tactic.LinearCombination
import Mathlib.Data.ZMod.Basic

namespace Relic.Lemmas.ShareC06
open Polynomial

/-- helper: the indexed form, stated first so that both public forms follow from it -/
private theorem shamir_aux {F ι : Type*} [Field F] [DecidableEq ι] (f : F[X]) (s : Finset ι) (x : ι → F)
    (hinj : Set.InjOn x s) (hdeg : f.degree < s.card) :
    (∑ i ∈ s, f.eval (x i) * ((∏ m ∈ s.erase i, x m) / (∏ m ∈ s.erase i, (x m - x i)))) = f.eval 0 := by
  classical
  have h := Lagrange.eq_interpolate (v := x) hinj hdeg
  conv_rhs => rw [h]
  rw [Lagrange.interpolate_apply, eval_finsetSum]
  refine Finset.sum_congr rfl fun i hi => ?_
  rw [eval_mul, eval_C]
  congr 1
  unfold Lagrange.basis
  rw [eval_prod, ← Finset.prod_div_distrib]
  refine Finset.prod_congr rfl fun m hm => ?_
  have hmi : m ≠ i := (Finset.mem_erase.mp hm).1
  have hms : m ∈ s := (Finset.mem_erase.mp hm).2
  have hne : x m ≠ x i := fun he => hmi (hinj hms hi he)
  have h1 : x m - x i ≠ 0 := sub_ne_zero.mpr hne
  have h2 : x i - x m ≠ 0 := sub_ne_zero.mpr (Ne.symm hne)
  simp only [Lagrange.basisDivisor, eval_mul, eval_C, eval_sub, eval_X]
  rw [div_eq_iff h1, zero_sub, mul_assoc, eq_comm, inv_mul_eq_iff_eq_mul₀ h2]
  ring

/-- Shamir reconstruction, the formula of `mpc_sss_key`: Σ_i y_i · Π_{m≠i} x_m / Π_{m≠i} (x_m − x_i) = f(0), for ANY finite
    set of pairwise distinct abscissae of size > deg f (any qualifying subset of the shares, in any order) -/
theorem shamir_reconstruct {F : Type*} [Field F] [DecidableEq F] (f : F[X]) (s : Finset F)
    (hdeg : f.degree < s.card) :
    (∑ i ∈ s, f.eval i * ((∏ m ∈ s.erase i, m) / (∏ m ∈ s.erase i, (m - i)))) = f.eval 0 := by
  have h := shamir_aux f s (fun a : F => a) (Set.injOn_id _) hdeg
  simpa using h

/-- the same with an index set (shares (x_j, y_j) with distinct x_j) -/
theorem shamir_reconstruct_indexed {F ι : Type*} [Field F] [DecidableEq ι] (f : F[X]) (s : Finset ι) (x : ι → F)
    (hinj : Set.InjOn x s) (hdeg : f.degree < s.card) :
    (∑ i ∈ s, f.eval (x i) * ((∏ m ∈ s.erase i, x m) / (∏ m ∈ s.erase i, (x m - x i)))) = f.eval 0 := by
  exact shamir_aux f s x hinj hdeg

/-- fewer than t shares do not determine the secret: for every candidate secret there is a polynomial of degree ≤ |s|
    through the presented points with that constant term (so no function of t − 1 shares can "reconstruct") -/
theorem shamir_too_few {F : Type*} [Field F] [DecidableEq F] (s : Finset F) (y : F → F) (h0 : (0 : F) ∉ s) (secret : F) :
    ∃ g : F[X], g.degree < s.card + 1 ∧ g.eval 0 = secret ∧ ∀ i ∈ s, g.eval i = y i := by
  classical
  have hinj : Set.InjOn (fun a : F => a) (insert 0 s : Finset F) := fun _ _ _ _ h => h
  refine ⟨Lagrange.interpolate (insert 0 s) (fun a : F => a) (fun i => if i = 0 then secret else y i), ?_, ?_, ?_⟩
  · have h := Lagrange.degree_interpolate_lt (s := insert 0 s) (v := fun a : F => a)
      (fun i => if i = 0 then secret else y i) hinj
    rw [Finset.card_insert_of_notMem h0, Nat.cast_add, Nat.cast_one] at h
    exact h
  · have h := Lagrange.eval_interpolate_at_node (s := insert 0 s) (v := fun a : F => a)
      (fun i => if i = 0 then secret else y i) hinj (Finset.mem_insert_self 0 s)
    simpa using h
  · intro i hi
    have h := Lagrange.eval_interpolate_at_node (s := insert 0 s) (v := fun a : F => a)
      (fun i => if i = 0 then secret else y i) hinj (Finset.mem_insert_of_mem hi)
    have hi0 : i ≠ 0 := fun h => h0 (h ▸ hi)
    simpa [hi0] using h

/-- Beaver multiplication: the two result shares of `mpc_mt_mul` add up to x·y -/
theorem beaver {R : Type*} [CommRing R] (a0 a1 b0 b1 c0 c1 x y : R)
    (hc : c0 + c1 = (a0 + a1) * (b0 + b1)) :
    let d := x - (a0 + a1)
    let e := y - (b0 + b1)
    (a0 * e + (b0 + e) * d + c0) + (a1 * e + b1 * d + c1) = x * y := by
  intro d e
  simp only [d, e]
  linear_combination hc

/-- the triple `mpc_mt_gen` outputs is a valid triple: c0 := (a0+a1)(b0+b1) − c1 -/
theorem beaver_gen {R : Type*} [CommRing R] (a0 a1 b0 b1 c1 : R) :
    ((a0 + a1) * (b0 + b1) - c1) + c1 = (a0 + a1) * (b0 + b1) := by
  ring

/-- (cofactor) Diffie–Hellman: both parties compute the same group element, (h·dA·dB)•G -/
theorem ecdh_symm {G : Type*} [AddCommGroup G] (g : G) (h dA dB : ℕ) :
    dA • (h • (dB • g)) = dB • (h • (dA • g)) := by
  rw [smul_smul, smul_smul, smul_smul, smul_smul]
  congr 1
  ring

/-- MQV: with implicit signatures sA = d2A + aA·d1A, sB = d2B + aB·d1B (reduced modulo any n killing G) both parties compute
    (sA·sB)•G; aA, aB are the associate values of the ephemeral public keys -/
theorem mqv_symm {G : Type*} [AddCommGroup G] (g : G) (n : ℕ) (hn : n • g = 0) (d1A d2A d1B d2B aA aB : ℕ) :
    ((d2A + aA * d1A) % n) • ((d2B • g) + aB • (d1B • g)) = ((d2B + aB * d1B) % n) • ((d2A • g) + aA • (d1A • g)) := by
  have hk : ∀ a k : ℕ, (a % n) • (k • g) = a • (k • g) := by
    intro a k
    have hz : n • (k • g) = 0 := by
      rw [smul_smul, mul_comm, mul_smul, hn, smul_zero]
    conv_rhs => rw [← Nat.div_add_mod a n]
    rw [add_smul, mul_comm n, mul_smul, hz, smul_zero, zero_add]
  have hB : (d2B • g) + aB • (d1B • g) = (d2B + aB * d1B) • g := by
    rw [add_smul, mul_smul]
  have hA : (d2A • g) + aA • (d1A • g) = (d2A + aA * d1A) • g := by
    rw [add_smul, mul_smul]
  rw [hA, hB, hk, hk, smul_smul, smul_smul, mul_comm]

/-- Pedersen commitments add: com(x₁, r₁) + com(x₂, r₂) = com(x₁ + x₂, r₁ + r₂) -/
theorem pedersen_add {G : Type*} [AddCommGroup G] (g h : G) (x1 r1 x2 r2 : ℕ) :
    (x1 • g + r1 • h) + (x2 • g + r2 • h) = (x1 + x2) • g + (r1 + r2) • h := by
  rw [add_smul, add_smul]
  abel

end Relic.Lemmas.ShareC06
