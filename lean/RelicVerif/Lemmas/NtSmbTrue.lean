/-
bn_smb_jac, multi-digit path: what the approximation loop does to the TRUE pair.
If the approximation words agree with the true values (X, Y) modulo 2^m and i ≤ m steps are made, then after the steps
  ai·X + bi·Y = 2^(k+i) · (n' - 2^(m-i)·c),   ci·X + di·Y = 2^(k+i) · (d' - 2^(m-i)·e)
for the final approximation words n', d': the combinations are exactly divisible by the power of two that bn_rsh removes, and the
quotients agree with n', d' in their low m - i bits (the bits the `t` updates read).  With m = w/2 (the exact low half digit) and
i = s = w/2 - 2: divisibility by 2^s and agreement modulo 4 at the end (modulo 2^(w/2 - j) after j steps: at least 3 bits whenever
an update reads `d ^ (d >> 1)` or `n & d`).
Also: the low-half-digit property of the approximation words, and the sign-repair identity (-x / d) = (-1)^(bit 1 of d) (x / d).
-/
import Mathlib.NumberTheory.LegendreSymbol.JacobiSymbol
import RelicVerif.Lemmas.NtSmb
import RelicVerif.Lemmas.NtSmbInner

namespace Relic.Lemmas.NtSmb
open Relic.Model.NtSmb

/-- the true-pair invariant: k = steps consumed, m = low bits still exact -/
def TInv (X Y : ℤ) (k m : ℕ) (st : Relic.Model.NtSmb.Inner) : Prop :=
  ∃ c e : ℤ, st.ai * X + st.bi * Y = 2 ^ k * ((st.n : ℤ) - 2 ^ m * c) ∧
             st.ci * X + st.di * Y = 2 ^ k * ((st.d : ℤ) - 2 ^ m * e) ∧ st.d % 2 = 1

theorem shiftRight_min_tz (w i n : ℕ) : (n >>> min i (tzcnt w n)) * 2 ^ min i (tzcnt w n) = n := by
  rw [Nat.shiftRight_eq_div_pow]
  apply Nat.div_mul_cancel
  unfold tzcnt
  split
  · next h => subst h; exact Nat.dvd_zero _
  · exact Nat.dvd_trans (Nat.pow_dvd_pow 2 (Nat.min_le_right _ _)) (two_pow_tz_dvd n)

set_option maxHeartbeats 1000000 in
theorem inner_true (w : ℕ) (X Y : ℤ) : ∀ (fuel i k m : ℕ) (st : Relic.Model.NtSmb.Inner), i ≤ fuel → k + i + 2 ≤ w → i ≤ m →
    Bd (2 ^ k) st → TInv X Y k m st →
    Bd (2 ^ (k + i)) (Relic.Model.NtSmb.inner w fuel i st) ∧ TInv X Y (k + i) (m - i) (Relic.Model.NtSmb.inner w fuel i st) := by
  intro fuel
  induction fuel with
  | zero =>
    intro i k m st hi _ _ hb hinv
    have : i = 0 := by omega
    subst this
    simpa [Relic.Model.NtSmb.inner] using ⟨hb, hinv⟩
  | succ f ih =>
    intro i k m st hi hw him hb hinv
    rw [Relic.Model.NtSmb.inner]
    by_cases h0 : i = 0
    · subst h0; simpa using ⟨hb, hinv⟩
    · rw [if_neg h0]
      have hw0 : 0 < w := by omega
      have hk1 : (2 : ℤ) ^ (k + 1) = 2 * 2 ^ k := by rw [pow_succ]; ring
      have hkpos : (0 : ℤ) < 2 ^ k := by positivity
      have hlt : (2 : ℤ) ^ (k + 1) < 2 ^ (w - 1) := two_pow_le_half (by omega)
      by_cases hodd : st.n % 2 = 1
      · rw [if_pos hodd]
        have key : ∀ st1 : Relic.Model.NtSmb.Inner, Bd (2 ^ k) st1 → st1.n % 2 = 1 → st1.d ≤ st1.n → TInv X Y k m st1 →
            Bd (2 ^ (k + i)) (Relic.Model.NtSmb.inner w f (i - 1) { st1 with
              n := (st1.n - st1.d) >>> 1, ai := wrapS w (st1.ai - st1.ci), bi := wrapS w (st1.bi - st1.di),
              ci := wrapS w (st1.ci + st1.ci), di := wrapS w (st1.di + st1.di), t := st1.t ^^^ (st1.d ^^^ (st1.d >>> 1)) }) ∧
            TInv X Y (k + i) (m - i) (Relic.Model.NtSmb.inner w f (i - 1) { st1 with
              n := (st1.n - st1.d) >>> 1, ai := wrapS w (st1.ai - st1.ci), bi := wrapS w (st1.bi - st1.di),
              ci := wrapS w (st1.ci + st1.ci), di := wrapS w (st1.di + st1.di), t := st1.t ^^^ (st1.d ^^^ (st1.d >>> 1)) }) := by
          intro st1 hb1 hn1 hle1 hinv1
          obtain ⟨a1, a2, b1, b2, c1, c2, d1, d2⟩ := hb1
          obtain ⟨c, e, hP, hQ, hd1⟩ := hinv1
          obtain ⟨m', rfl⟩ : ∃ m', m = m' + 1 := ⟨m - 1, by omega⟩
          rw [wrapS_id hw0 (x := st1.ai - st1.ci) (by linarith) (by linarith),
              wrapS_id hw0 (x := st1.bi - st1.di) (by linarith) (by linarith),
              wrapS_id hw0 (x := st1.ci + st1.ci) (by linarith) (by linarith),
              wrapS_id hw0 (x := st1.di + st1.di) (by linarith) (by linarith)]
          have hnat : st1.n = st1.d + 2 * ((st1.n - st1.d) >>> 1) := by
            simp only [Nat.shiftRight_eq_div_pow, Nat.pow_one]; omega
          have hZ : (st1.n : ℤ) = (st1.d : ℤ) + 2 * (((st1.n - st1.d) >>> 1 : ℕ) : ℤ) := by exact_mod_cast hnat
          have := ih (i - 1) (k + 1) m' { st1 with
              n := (st1.n - st1.d) >>> 1, ai := st1.ai - st1.ci, bi := st1.bi - st1.di,
              ci := st1.ci + st1.ci, di := st1.di + st1.di, t := st1.t ^^^ (st1.d ^^^ (st1.d >>> 1)) } (by omega) (by omega) (by omega)
            (by unfold Bd; dsimp only; rw [hk1]; refine ⟨?_, ?_, ?_, ?_, ?_, ?_, ?_, ?_⟩ <;> linarith)
            (by
              refine ⟨c - e, 2 * e, ?_, ?_, hd1⟩
              · dsimp only
                have h : (st1.ai - st1.ci) * X + (st1.bi - st1.di) * Y
                    = (st1.ai * X + st1.bi * Y) - (st1.ci * X + st1.di * Y) := by ring
                rw [h, hP, hQ, hZ, pow_succ, pow_succ]; ring
              · dsimp only
                have h : (st1.ci + st1.ci) * X + (st1.di + st1.di) * Y = 2 * (st1.ci * X + st1.di * Y) := by ring
                rw [h, hQ, pow_succ, pow_succ]; ring)
          rw [show k + 1 + (i - 1) = k + i by omega, show m' - (i - 1) = m' + 1 - i by omega] at this
          exact this
        split
        · next hsw =>
          obtain ⟨c, e, hP, hQ, hd⟩ := hinv
          exact key { st with ai := st.ci, ci := st.ai, bi := st.di, di := st.bi, n := st.d, d := st.n, t := st.t ^^^ (st.d &&& st.n), swapped := true }
            (by obtain ⟨a1, a2, b1, b2, c1, c2, d1, d2⟩ := hb; exact ⟨c1, c2, d1, d2, a1, a2, b1, b2⟩)
            hd (le_of_lt hsw) ⟨e, c, hQ, hP, hodd⟩
        · next hsw => exact key st hb hodd (by omega) hinv
      · rw [if_neg hodd]
        simp only []
        have hz1 : 1 ≤ min i (tzcnt w st.n) := by
          have := tzcnt_pos (w := w) (n := st.n) hw0 (by omega)
          omega
        have hzi : min i (tzcnt w st.n) ≤ i := Nat.min_le_left _ _
        have hsh := shiftRight_min_tz w i st.n
        generalize min i (tzcnt w st.n) = z at hz1 hzi hsh
        obtain ⟨a1, a2, b1, b2, c1, c2, d1, d2⟩ := hb
        obtain ⟨c, e, hP, hQ, hd0⟩ := hinv
        obtain ⟨m', rfl⟩ : ∃ m', m = m' + z := ⟨m - z, by omega⟩
        have hZ : (st.n : ℤ) = ((st.n >>> z : ℕ) : ℤ) * 2 ^ z := by exact_mod_cast hsh.symm
        have hkz : (2 : ℤ) ^ (k + z) = 2 ^ k * 2 ^ z := pow_add _ _ _
        have hzpos : (1 : ℤ) ≤ 2 ^ z := one_le_pow₀ (by norm_num)
        have hltz : (2 : ℤ) ^ (k + z) < 2 ^ (w - 1) := two_pow_le_half (by omega)
        have hz0 : (0 : ℤ) ≤ 2 ^ z := by positivity
        have hc : -(2 : ℤ) ^ (k + z) ≤ st.ci * 2 ^ z ∧ st.ci * 2 ^ z ≤ 2 ^ (k + z) := by
          rw [hkz]
          have u1 := mul_le_mul_of_nonneg_right c1 hz0
          have u2 := mul_le_mul_of_nonneg_right c2 hz0
          constructor <;> linarith only [u1, u2]
        have hd : -(2 : ℤ) ^ (k + z) ≤ st.di * 2 ^ z ∧ st.di * 2 ^ z ≤ 2 ^ (k + z) := by
          rw [hkz]
          have u1 := mul_le_mul_of_nonneg_right d1 hz0
          have u2 := mul_le_mul_of_nonneg_right d2 hz0
          constructor <;> linarith only [u1, u2]
        have hmono : (2 : ℤ) ^ k ≤ 2 ^ (k + z) := pow_le_pow_right₀ (by norm_num) (by omega)
        rw [wrapS_id hw0 (x := st.ci * 2 ^ z) (by linarith only [hc.1, hltz]) (by linarith only [hc.2, hltz]),
            wrapS_id hw0 (x := st.di * 2 ^ z) (by linarith only [hd.1, hltz]) (by linarith only [hd.2, hltz])]
        have := ih (i - z) (k + z) m' { st with
            t := st.t ^^^ ((st.d ^^^ (st.d >>> 1)) &&& (z <<< 1)), ci := st.ci * 2 ^ z, di := st.di * 2 ^ z, n := st.n >>> z }
          (by omega) (by omega) (by omega)
          (by unfold Bd; dsimp only; exact ⟨by linarith only [a1, hmono], by linarith only [a2, hmono], by linarith only [b1, hmono], by linarith only [b2, hmono], hc.1, hc.2, hd.1, hd.2⟩)
          (by
            refine ⟨c, 2 ^ z * e, ?_, ?_, hd0⟩
            · dsimp only
              rw [hP, hZ, pow_add, pow_add]; ring
            · dsimp only
              have h : st.ci * 2 ^ z * X + st.di * 2 ^ z * Y = 2 ^ z * (st.ci * X + st.di * Y) := by ring
              rw [h, hQ, pow_add, pow_add]; ring)
        rw [show k + z + (i - z) = k + i by omega, show m' - (i - z) = m' + z - i by omega] at this
        exact this

/-- low half digit of the approximation words: `(x & RLC_HMASK) | (y & RLC_LMASK)` agrees with y modulo 2^(w/2) -/
theorem masks_low (w x y : ℕ) : ((x &&& hmask w) ||| (y &&& lmask w)) % 2 ^ (w / 2) = y % 2 ^ (w / 2) := by
  unfold hmask lmask
  rw [Nat.or_mod_two_pow, Nat.and_mod_two_pow, Nat.and_mod_two_pow (a := y), Nat.shiftLeft_eq, Nat.mul_mod_left,
    Nat.and_zero, Nat.zero_or, Nat.mod_eq_of_lt (a := 2 ^ (w / 2) - 1) (by have := Nat.two_pow_pos (w / 2); omega),
    Nat.and_two_pow_sub_one_eq_mod, Nat.mod_mod]

theorem approx_low (w t0 t1 i : ℕ) :
    (approx w t0 t1 i).1 % 2 ^ (w / 2) = t0 % 2 ^ (w / 2) ∧ (approx w t0 t1 i).2.1 % 2 ^ (w / 2) = t1 % 2 ^ (w / 2) := by
  have hdvd : 2 ^ (w / 2) ∣ 2 ^ w := Nat.pow_dvd_pow 2 (Nat.div_le_self w 2)
  have hd0 : ∀ x, dig w x 0 % 2 ^ (w / 2) = x % 2 ^ (w / 2) := by
    intro x; unfold dig; simp [Nat.mod_mod_of_dvd _ hdvd]
  unfold approx
  simp only []
  exact ⟨by rw [masks_low, hd0], by rw [masks_low, hd0]⟩

theorem exists_of_mod_eq {a b M : ℕ} (h : a % M = b % M) : ∃ c : ℤ, (b : ℤ) = (a : ℤ) - (M : ℤ) * c := by
  obtain ⟨c, hc⟩ := (Nat.modEq_iff_dvd (n := M) (a := a) (b := b)).mp h
  exact ⟨-c, by linarith⟩

open scoped NumberTheorySymbols

/-- the sign repair: (-x / d) = (-1)^(bit 1 of the low digit of d) · (x / d) for odd d, digit width ≥ 2 -/
theorem jac_neg_lowdigit (w : ℕ) (hw : 2 ≤ w) (x : ℤ) {d : ℕ} (hd : d % 2 = 1) :
    J(-x | d) = sgn (d % 2 ^ w) * J(x | d) := by
  rw [jacobiSym.neg x (Nat.odd_iff.mpr hd), ZMod.χ₄_nat_eq_if_mod_four]
  have h4 : d % 2 ^ w % 4 = d % 4 := by
    apply Nat.mod_mod_of_dvd
    exact Nat.pow_dvd_pow 2 hw
  unfold sgn
  rw [testBit_one]
  have : d % 2 ^ w / 2 % 2 = d % 4 / 2 := by omega
  rcases (by omega : d % 4 = 1 ∨ d % 4 = 3) with h | h <;> simp [this, h, hd]

/-- one outer iteration of the model: the approximation loop applied to the words built by `approx` from the true pair (t0, t1), t1 odd -/
theorem outer_combination (w t0 t1 i t : ℕ) (hw : 4 ≤ w) (h1 : t1 % 2 = 1) :
    TInv (t0 : ℤ) (t1 : ℤ) (w / 2 - 2) (w / 2 - (w / 2 - 2))
      (Relic.Model.NtSmb.inner w (w / 2 - 2) (w / 2 - 2)
        { n := (approx w t0 t1 i).1, d := (approx w t0 t1 i).2.1, t := t, ai := 1, bi := 0, ci := 0, di := 1, swapped := false }) := by
  obtain ⟨hn, hd⟩ := approx_low w t0 t1 i
  obtain ⟨c, hc⟩ := exists_of_mod_eq hn
  obtain ⟨e, he⟩ := exists_of_mod_eq hd
  have hdodd : (approx w t0 t1 i).2.1 % 2 = 1 := by
    have hdvd : 2 ∣ 2 ^ (w / 2) := dvd_pow_self 2 (by omega)
    rw [← Nat.mod_mod_of_dvd _ hdvd, hd, Nat.mod_mod_of_dvd _ hdvd, h1]
  have := inner_true w (t0 : ℤ) (t1 : ℤ) (w / 2 - 2) (w / 2 - 2) 0 (w / 2)
    { n := (approx w t0 t1 i).1, d := (approx w t0 t1 i).2.1, t := t, ai := 1, bi := 0, ci := 0, di := 1, swapped := false }
    (le_refl _) (by omega) (by omega) (by unfold Bd; simp)
    ⟨c, e, by dsimp only; rw [hc]; push_cast; ring, by dsimp only; rw [he]; push_cast; ring, hdodd⟩
  simpa using this.2

end Relic.Lemmas.NtSmb
