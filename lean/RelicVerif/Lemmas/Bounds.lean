/-
C08: the length bookkeeping of the modelled functions — a result either fits the storage it is written to
(capacity `cfg.cap` digits of a bn, the caller's recoding / byte / character buffer) or the function reports an
error (`none` / `.error`) and produces nothing.

STATEMENTS REPAIRED (each with a kernel-checked counterexample to the original statement below):
* `bnAdd_fits`, `bnSub_fits`, `bnMulBasic_fits`, `bnMulComba_fits`, `bnSqrBasic_fits`, `bnLsh_fits`:
  conclusion `c.used ≤ cfg.cap` replaced by `c.used ≤ max cfg.cap 1`. `bn_trim` writes the single digit 0 for a zero
  result, so with `cfg.cap = 0` and empty operands the result has `used = 1 > 0`. For `0 < cfg.cap` the two forms
  coincide (`le_cap_of_pos`). `bnDbl_fits` and `bnMulDig_fits` hold as stated (their guard is `used + 1`).
* `recWin_fits`: holds as stated for `0 < w` once the model mirrors the C guard for the zero scalar (`*len < 1` is
  refused); the window width 0 is outside the interface (the C code divides by it).
* `bnWriteStr_length`: new hypothesis `radix = 2 → ∀ d ∈ a.dp, d < cfg.B`. In radix 2 the size is taken from bn_bits,
  which looks at the top digit only; with an over-wide lower digit the text is longer than the announced size.
`recJsf_fits` is stated and proved as originally written, against the repaired guard of `recJsf`
(`cap < 2 * (max (bitLen k) (bitLen l) + 1)`); `recJsf_fits_both` is the stronger two-rows form.
-/
import RelicVerif.Lemmas.BnHigh
import RelicVerif.Lemmas.BnHighMul
import RelicVerif.Lemmas.BnSqrBasic
import RelicVerif.Lemmas.Rec
import RelicVerif.Lemmas.BnConv
import RelicVerif.Lemmas.Md

namespace Relic.Lemmas.Bounds
open Relic.Model Relic.Model.Rec Relic.Model.Md
open Relic.Spec.Mac (Bytes Hash)

/-! ### counterexamples to the original statements -/

/-- `cfg.cap = 0`: every trimmed result has one digit -/
example : (bnAdd { w := 8, cap := 0 } ⟨false, []⟩ ⟨false, []⟩).map (·.used) = some 1 ∧
    (bnSub { w := 8, cap := 0 } ⟨false, []⟩ ⟨false, []⟩).map (·.used) = some 1 ∧
    (bnMulBasic { w := 8, cap := 0 } ⟨false, []⟩ ⟨false, []⟩).map (·.used) = some 1 ∧
    (bnMulComba { w := 8, cap := 0 } ⟨false, []⟩ ⟨false, []⟩).map (·.used) = some 1 ∧
    (bnSqrBasic { w := 8, cap := 0 } ⟨false, []⟩).map (·.used) = some 1 ∧
    (bnLsh { w := 8, cap := 0 } ⟨false, []⟩ 0).map (·.used) = some 1 := by decide

/-- bn_rec_win with an empty buffer is refused, also for the zero scalar (whose recoding is the single window 0) -/
example : recWin 0 0 4 = none ∧ recWin 1 0 4 = some [0] := by decide

/-- radix 2, digit 8 in a one-bit-digit number: announced size 3 (2 characters + NUL), 4 characters written -/
example : bnSizeStr { w := 1, cap := 8 } ⟨false, [8, 1]⟩ 2 = some 3 ∧
    (bnWriteStr { w := 1, cap := 8 } 3 ⟨false, [8, 1]⟩ 2).toOption = some "1010" := by decide

/-! ### lengths of the digit-vector routines (no hypotheses on the digits) -/

theorem addnLow_length (B : Nat) : ∀ (a b : List Nat) (c : Nat),
    (addnLow B a b c).1.length = min a.length b.length := by
  intro a
  induction a with
  | nil => intro b c; simp [addnLow]
  | cons x xs ih =>
    intro b c
    cases b with
    | nil => simp [addnLow]
    | cons y ys => simp only [addnLow, List.length_cons, ih]; omega

theorem subnLow_length (B : Nat) : ∀ (a b : List Nat) (c : Nat),
    (subnLow B a b c).1.length = min a.length b.length := by
  intro a
  induction a with
  | nil => intro b c; simp [subnLow]
  | cons x xs ih =>
    intro b c
    cases b with
    | nil => simp [subnLow]
    | cons y ys => simp only [subnLow, List.length_cons, ih]; omega

theorem add1Low_length (B : Nat) : ∀ (a : List Nat) (c : Nat), (add1Low B a c).1.length = a.length := by
  intro a
  induction a with
  | nil => intro c; simp [add1Low]
  | cons x xs ih =>
    intro c
    simp only [add1Low]
    split
    · rfl
    · simp only [List.length_cons, ih]

theorem sub1Low_length (B : Nat) : ∀ (a : List Nat) (c : Nat), (sub1Low B a c).1.length = a.length := by
  intro a
  induction a with
  | nil => intro c; simp [sub1Low]
  | cons x xs ih =>
    intro c
    simp only [sub1Low]
    split
    · rfl
    · simp only [List.length_cons, ih]

theorem mul1Low_length (B : Nat) : ∀ (a : List Nat) (d c : Nat), (mul1Low B a d c).1.length = a.length := by
  intro a
  induction a with
  | nil => intro d c; simp [mul1Low]
  | cons x xs ih => intro d c; simp only [mul1Low, List.length_cons, ih]

theorem mulaLow_length (B : Nat) : ∀ (c a : List Nat) (d cy : Nat),
    (mulaLow B c a d cy).1.length = min c.length a.length := by
  intro c
  induction c with
  | nil => intro a d cy; simp [mulaLow]
  | cons x xs ih =>
    intro a d cy
    cases a with
    | nil => simp [mulaLow]
    | cons y ys => simp only [mulaLow, List.length_cons, ih]; omega

theorem lsh1Low_length (w : Nat) : ∀ (a : List Nat) (c : Nat), (lsh1Low w a c).1.length = a.length := by
  intro a
  induction a with
  | nil => intro c; simp [lsh1Low]
  | cons x xs ih => intro c; simp only [lsh1Low, List.length_cons, ih]

theorem lshbLow_length (w bits : Nat) : ∀ (a : List Nat) (c : Nat), (lshbLow w bits a c).1.length = a.length := by
  intro a
  induction a with
  | nil => intro c; simp [lshbLow]
  | cons x xs ih => intro c; simp only [lshbLow, List.length_cons, ih]


/-! ### trimming -/

theorem bnTrim_used_le (a : Bn) : (bnTrim a).used ≤ max a.used 1 := by
  unfold bnTrim Bn.used
  have := stripZeros_length_le a.dp
  simp only
  split
  · simp only [List.length_cons, List.length_nil]; omega
  · simp only; omega

theorem trim_fits (cfg : Cfg) (neg : Bool) (l : List Nat) (h : l.length ≤ max cfg.cap 1) :
    (bnTrim { neg := neg, dp := l }).used ≤ max cfg.cap 1 := by
  have := bnTrim_used_le { neg := neg, dp := l }
  simp only [Bn.used] at this ⊢
  omega

theorem le_cap_of_pos (cfg : Cfg) {n : Nat} (hc : 0 < cfg.cap) (h : n ≤ max cfg.cap 1) : n ≤ cfg.cap := by
  omega

/-! ### addition and subtraction -/

theorem addCore_length (B : Nat) (a b : List Nat) : (addCore B a b).1.length = a.length := by
  unfold addCore
  split
  · rw [addnLow_length]; omega
  · simp only [List.length_append, addnLow_length, add1Low_length, List.length_take, List.length_drop]; omega

theorem subCore_length (B : Nat) (a b : List Nat) : (subCore B a b).length = a.length := by
  unfold subCore
  split
  · rw [subnLow_length]; omega
  · simp only [List.length_append, subnLow_length, sub1Low_length, List.length_take, List.length_drop]; omega

variable (cfg : Cfg)

theorem bnAddImp_fits (neg : Bool) (a b c : Bn) (ha : a.used ≤ cfg.cap) (h : bnAddImp cfg neg a b = some c) :
    c.used ≤ max cfg.cap 1 := by
  rw [bnAddImp_eq] at h
  split at h
  · simp only [Option.some.injEq] at h; subst h
    exact trim_fits cfg _ _ (by simp only [Bn.used] at ha; omega)
  split at h
  · exact absurd h (by simp)
  split at h
  · split at h
    · exact absurd h (by simp)
    · simp only [Option.some.injEq] at h; subst h
      apply trim_fits
      simp only [List.length_append, addCore_length, List.length_cons, List.length_nil]
      simp only [Bn.used] at *; omega
  · simp only [Option.some.injEq] at h; subst h
    apply trim_fits
    rw [addCore_length]; simp only [Bn.used] at *; omega

theorem bnSubImp_fits (neg : Bool) (a b c : Bn) (ha : a.used ≤ cfg.cap) (h : bnSubImp cfg neg a b = some c) :
    c.used ≤ max cfg.cap 1 := by
  rw [bnSubImp_eq] at h
  split at h
  · simp only [Option.some.injEq] at h; subst h
    exact trim_fits cfg _ _ (by simp only [Bn.used] at ha; omega)
  split at h
  · exact absurd h (by simp)
  · simp only [Option.some.injEq] at h; subst h
    apply trim_fits
    rw [subCore_length]; simp only [Bn.used] at *; omega

theorem bnAdd_fits (a b c : Bn) (ha : a.used ≤ cfg.cap) (hb : b.used ≤ cfg.cap) (h : bnAdd cfg a b = some c) :
    c.used ≤ max cfg.cap 1 := by
  unfold bnAdd at h
  split at h <;> split at h
  · exact bnAddImp_fits cfg _ _ _ _ hb h
  · exact bnAddImp_fits cfg _ _ _ _ ha h
  · exact bnSubImp_fits cfg _ _ _ _ hb h
  · exact bnSubImp_fits cfg _ _ _ _ ha h

theorem bnSub_fits (a b c : Bn) (ha : a.used ≤ cfg.cap) (hb : b.used ≤ cfg.cap) (h : bnSub cfg a b = some c) :
    c.used ≤ max cfg.cap 1 := by
  unfold bnSub at h
  split at h <;> split at h
  · exact bnAddImp_fits cfg _ _ _ _ hb h
  · exact bnAddImp_fits cfg _ _ _ _ ha h
  · exact bnSubImp_fits cfg _ _ _ _ ha h
  · exact bnSubImp_fits cfg _ _ _ _ hb h


/-! ### multiplication and squaring -/

theorem splice_length (t seg : List Nat) (i : Nat) (h : i + seg.length ≤ t.length) :
    (splice t i seg).length = t.length := by
  unfold splice
  simp only [List.length_append, List.length_take, List.length_drop]; omega

theorem mulBasicStep_length (B : Nat) (a b t : List Nat) (i : Nat) (h : i ≤ t.length) :
    (mulBasicStep B a b t i).length = t.length := by
  unfold mulBasicStep
  rw [List.length_set, splice_length]
  rw [mulaLow_length]; simp only [List.length_take, List.length_drop]; omega

theorem mulBasicFold_length (B : Nat) (a b : List Nat) : ∀ (is : List Nat) (t : List Nat),
    (∀ i ∈ is, i ≤ t.length) → (is.foldl (mulBasicStep B a b) t).length = t.length := by
  intro is
  induction is with
  | nil => intro t _; rfl
  | cons i is ih =>
    intro t h
    have h1 := mulBasicStep_length B a b t i (h i (by simp))
    rw [List.foldl_cons, ih _ (fun j hj => by rw [h1]; exact h j (by simp [hj])), h1]

theorem bnMulBasic_fits (a b c : Bn) (h : bnMulBasic cfg a b = some c) : c.used ≤ max cfg.cap 1 := by
  rw [bnMulBasic_eq] at h
  split at h
  · exact absurd h (by simp)
  · simp only [Option.some.injEq] at h; subst h
    apply trim_fits
    rw [mulBasicFold_length]
    · simp only [List.length_replicate]; omega
    · intro i hi
      have := List.mem_range.1 hi
      simp only [List.length_replicate]; omega

theorem colFold_length {γ : Type} (proc : γ → Nat × Nat × Nat → Nat × Nat × Nat) : ∀ (cols : List γ)
    (st : List Nat × (Nat × Nat × Nat)),
    (cols.foldl (LowMul.colStep proc) st).1.length = st.1.length + cols.length := by
  intro cols
  induction cols with
  | nil => intro st; rfl
  | cons c cs ih =>
    intro st
    rw [List.foldl_cons, ih]
    simp only [LowMul.colStep, List.length_cons]; omega

theorem mulnLow_length (B : Nat) (a b : List Nat) (size : Nat) : (mulnLow B a b size).length = 2 * size := by
  rw [LowMul.mulnLow_eq, List.length_reverse, colFold_length]
  simp only [List.length_nil, List.length_append, List.length_map, List.length_range]; omega

theorem muldLow_length (B : Nat) (a b : List Nat) (sa sb : Nat) (h : sb ≤ sa) :
    (muldLow B a sa b sb).length = sa + sb := by
  rw [LowMul.muldLow_eq, List.length_reverse, colFold_length]
  simp only [List.length_nil, List.length_append, List.length_map, List.length_range]; omega

theorem bnMulComba_fits (a b c : Bn) (h : bnMulComba cfg a b = some c) : c.used ≤ max cfg.cap 1 := by
  rw [bnMulComba_eq] at h
  split at h
  · exact absurd h (by simp)
  · simp only [Option.some.injEq] at h; subst h
    apply trim_fits
    split
    · rw [mulnLow_length]; omega
    · split
      · rw [muldLow_length _ _ _ _ _ (by omega)]; omega
      · rw [muldLow_length _ _ _ _ _ (by omega)]; omega

theorem bnSqrBasic_fits (a c : Bn) (h : bnSqrBasic cfg a = some c) : c.used ≤ max cfg.cap 1 := by
  rw [bnSqrBasic_eq] at h
  split at h
  · exact absurd h (by simp)
  · simp only [Option.some.injEq] at h; subst h
    apply trim_fits
    simp only [List.length_take]; omega

/-! ### shifts and the single-digit product -/

theorem bnLsh_fits (a c : Bn) (k : Nat) (ha : a.used ≤ cfg.cap) (h : bnLsh cfg a k = some c) :
    c.used ≤ max cfg.cap 1 := by
  have _ := ha
  rw [bnLsh_eq] at h
  by_cases hb : k % cfg.w > 0
  · simp only [if_pos hb] at h
    split at h
    · exact absurd h (by simp)
    rename_i hg
    split at h
    · simp only [Option.some.injEq] at h; subst h
      apply trim_fits
      simp only [List.length_append, List.length_replicate, lshbLow_length, List.length_cons, List.length_nil]
      simp only [Bn.used] at hg; omega
    · simp only [Option.some.injEq] at h; subst h
      apply trim_fits
      simp only [List.length_append, List.length_replicate, lshbLow_length]
      simp only [Bn.used] at hg; omega
  · simp only [if_neg hb] at h
    split at h
    · exact absurd h (by simp)
    rename_i hg
    simp only [Option.some.injEq] at h; subst h
    apply trim_fits
    simp only [List.length_append, List.length_replicate]
    simp only [Bn.used] at hg; omega

theorem bnDbl_fits (a c : Bn) (ha : a.used ≤ cfg.cap) (h : bnDbl cfg a = some c) : c.used ≤ cfg.cap := by
  have _ := ha
  rw [bnDbl_eq] at h
  split at h
  · exact absurd h (by simp)
  rename_i hg
  split at h
  · simp only [Option.some.injEq] at h; subst h
    simp only [Bn.used, List.length_append, lsh1Low_length, List.length_cons, List.length_nil] at hg ⊢
    omega
  · simp only [Option.some.injEq] at h; subst h
    simp only [Bn.used, lsh1Low_length] at hg ⊢
    omega

theorem bnMulDig_fits (a c : Bn) (d : Nat) (ha : a.used ≤ cfg.cap) (h : bnMulDig cfg a d = some c) :
    c.used ≤ cfg.cap := by
  have _ := ha
  rw [bnMulDig_eq] at h
  split at h
  · exact absurd h (by simp)
  rename_i hg
  simp only [Option.some.injEq] at h; subst h
  have := bnTrim_used_le { neg := a.neg, dp := (mul1Low cfg.B a.dp d 0).1 ++ [(mul1Low cfg.B a.dp d 0).2] }
  simp only [Bn.used, List.length_append, mul1Low_length, List.length_cons, List.length_nil] at this hg ⊢
  omega


/-! ### scalar recodings -/

/-- recodings never produce more digits than the caller's buffer holds -/
theorem recWin_fits (cap k w : Nat) (hw : 0 < w) (ds : List Int) (h : recWin cap k w = some ds) : ds.length ≤ cap := by
  unfold recWin at h
  simp only at h
  split at h
  · exact absurd h (by simp)
  rename_i hcap
  simp only [Option.some.injEq] at h; subst h
  simp only [List.length_append, List.length_map, List.length_range, List.length_cons, List.length_nil]
  split
  · omega
  · rename_i hlw
    have e1 : bitLen k - w + w - 1 = bitLen k - 1 := by omega
    have e2 : bitLen k + w - 1 = (bitLen k - 1) + w := by omega
    rw [e2, Nat.add_div_right _ hw] at hcap
    rw [e1]; omega

theorem recSlw_fits (cap k w : Nat) (hw : 0 < w) (ds : List Int) (h : recSlw cap k w = some ds) : ds.length ≤ cap :=
  (recSlw_spec cap k w hw ds h).2.2.2

theorem nafNext_small (w t : Nat) (hw : w < 2) : nafNext w t = t / 2 := by
  unfold nafNext
  split
  · rename_i ht
    have : w = 0 ∨ w = 1 := by omega
    rcases this with rfl | rfl
    · simp [nafU, Nat.mod_one]
    · simp [nafU, ht]; omega
  · rfl

theorem nafOut_length_small (w : Nat) (hw : w < 2) : ∀ (f c t : Nat), t < 2 ^ c → (nafOut w f t).length ≤ c := by
  intro f
  induction f with
  | zero => intro c t _; simp [nafOut]
  | succ f ih =>
    intro c t ht
    simp only [nafOut]
    split
    · simp
    · rename_i h0
      cases c with
      | zero => simp at ht; omega
      | succ c =>
        rw [nafNext_small w t hw, List.length_cons]
        have := ih c (t / 2) (by rw [Nat.pow_succ] at ht; omega)
        omega

theorem recNaf_fits (cap k w : Nat) (ds : List Int) (h : recNaf cap k w = some ds) : ds.length ≤ cap := by
  by_cases hw : 2 ≤ w
  · exact (recNaf_spec cap k w hw ds h).2.2.2.2
  · unfold recNaf at h
    split at h
    · exact absurd h (by simp)
    rename_i hcap
    simp only [Option.some.injEq, recNafLoop_eq, List.nil_append] at h
    subst h
    have := nafOut_length_small w (by omega) (bitLen k + 2) (bitLen k) k (lt_two_pow_bitLen k)
    omega

theorem recReg_fits (cap k n w : Nat) (ds : List Int) (h : recReg cap k n w = some ds) : ds.length ≤ cap := by
  have hl := recReg_length cap k n w ds h
  unfold recReg at h
  simp only at h
  split at h
  · exact absurd h (by simp)
  · omega

/-- both halves of the joint sparse form together fit the caller's buffer (the C buffer holds the two rows at
    offset `max (bits k) (bits l) + 1`) -/
theorem recJsf_fits_both (cap k l : Nat) (a0 a1 : List Int) (h : recJsf cap k l = some (a0, a1)) :
    a0.length + a1.length ≤ cap ∧ a0.length ≤ max (bitLen k) (bitLen l) + 1 ∧
      a1.length ≤ max (bitLen k) (bitLen l) + 1 := by
  obtain ⟨_, _, _, _, he, hlen⟩ := recJsf_spec cap k l a0 a1 h
  unfold recJsf at h
  split at h
  · exact absurd h (by simp)
  · omega

theorem recJsf_fits (cap k l : Nat) (a0 a1 : List Int) (h : recJsf cap k l = some (a0, a1)) :
    a0.length ≤ cap ∧ a1.length ≤ cap := by
  have := recJsf_fits_both cap k l a0 a1 h
  omega


/-! ### byte and character encodings -/

/-- byte and character encodings write exactly / at most what the caller asked for -/
theorem bnWriteBin_length (w len : Nat) (a : Bn) (b : List UInt8) (h : bnWriteBin w len a = some b) : b.length = len := by
  rw [Conv.bnWriteBin_eq] at h
  split at h
  · exact absurd h (by simp)
  rename_i hlen
  simp only [Option.some.injEq] at h; subst h
  simp only [List.length_reverse, List.length_append, List.length_replicate, Conv.leBytes_length]
  omega

/-- bn_bits over-approximates the bit length of the value as soon as the digits are digits (no normal form needed) -/
theorem log2_val_lt_bits (a : Bn) (hd : ∀ d ∈ a.dp, d < cfg.B) (hz : bnIsZero a = false)
    (hv : val cfg.B a.dp ≠ 0) : Nat.log2 (val cfg.B a.dp) < bnBitsW cfg.w a := by
  unfold bnBitsW
  rw [hz]
  simp only [Bool.false_eq_true, if_false]
  rcases List.eq_nil_or_concat a.dp with h | ⟨init, top, hdp⟩
  · rw [h] at hv; simp [val] at hv
  rw [Nat.log2_lt hv]
  have hi : val cfg.B init < cfg.B ^ init.length :=
    val_lt cfg.B init (fun d hd' => hd d (by rw [hdp]; simp [hd']))
  simp only [Bn.used, hdp, List.concat_eq_append, List.length_append, List.length_cons, List.length_nil,
    Nat.add_sub_cancel, List.getLast?_append, List.getLast?_singleton, Option.some_or, Option.getD_some,
    High.val_snoc]
  have hB : cfg.B ^ init.length = 2 ^ (init.length * cfg.w) := by
    rw [Cfg.B, ← Nat.pow_mul, Nat.mul_comm]
  rw [hB] at hi ⊢
  have ht : top < 2 ^ bitsDig top := lt_two_pow_bitLen top
  rw [Nat.pow_add]
  generalize 2 ^ (init.length * cfg.w) = P at *
  generalize 2 ^ bitsDig top = Q at *
  calc val cfg.B init + P * top < P + P * top := by omega
    _ = P * (top + 1) := by rw [Nat.mul_add]; omega
    _ ≤ P * Q := Nat.mul_le_mul_left _ ht

theorem bnWriteStr_length (a : Bn) (radix len : Nat) (hd : radix = 2 → ∀ d ∈ a.dp, d < cfg.B) (s : String)
    (h : bnWriteStr cfg len a radix = .ok s) : s.length + 1 ≤ len := by
  obtain ⟨l, hl, hle, hs⟩ := Conv.bnWriteStr_ok cfg a radix len s h
  unfold bnSizeStr at hl
  split at hl
  · exact absurd hl (by simp)
  split at hl
  · rename_i hz
    rw [if_pos hz] at hs
    simp only [Option.some.injEq] at hl
    subst hs hl
    exact hle
  rename_i hz
  rw [if_neg hz, ← String.toList_inj, String.toList_ofList] at hs
  rw [← String.length_toList, hs]
  simp only [List.length_append, List.length_map, List.length_reverse]
  have hneg : (if a.neg = true then ['-'] else []).length = if a.neg = true then 1 else 0 := by
    split <;> rfl
  rw [hneg]
  split at hl
  · rename_i h2
    subst h2
    simp only [Option.some.injEq] at hl
    rw [Conv.strDigits_length_two _ _ (Nat.lt_succ_self _)]
    by_cases hv : val cfg.B a.dp = 0
    · rw [if_pos hv]; omega
    · rw [if_neg hv]
      have := log2_val_lt_bits cfg a (hd rfl) (by simpa using hz) hv
      omega
  · simp only [Option.some.injEq] at hl
    omega

/-- a decoded integer never exceeds the capacity (longer inputs are refused) -/
theorem bnReadBin_fits (bin : List UInt8) (x : Bn) (h : bnReadBin cfg bin = some x) : x.used ≤ max cfg.cap 1 := by
  unfold bnReadBin at h
  simp only at h
  generalize (if bin.length % (cfg.w / 8) = 0 then bin.length / (cfg.w / 8) else bin.length / (cfg.w / 8) + 1)
    = digs at h
  split at h
  · exact absurd h (by simp)
  rename_i hg
  simp only [Option.some.injEq] at h; subst h
  apply trim_fits
  split
  · simp
  · simp only [List.length_map, List.length_range]; omega

/-- key derivation fills exactly the requested number of bytes -/
theorem nistKdf_length (H : Hash) (hout : ∀ b, (H.h b).length = H.outLen) (hpos : 0 < H.outLen) (keyLen : Nat) (inp : Bytes)
    (v : Nat) : (nistKdf H keyLen inp v).length = keyLen := by
  unfold nistKdf
  have := Md.nistKdfLoop_eq H hout hpos keyLen inp v ((keyLen + H.outLen - 1) / H.outLen) 0 [] (by simp) (by simp)
    (by simp)
  simp only [Nat.add_zero, List.nil_append] at this
  rw [this, List.length_take, Conv.length_flatMap_const H.outLen _ _ (fun d _ => hout _), List.length_range']
  have := (Md.ceil_div_bounds keyLen H.outLen hpos).1
  rw [Nat.mul_comm] at this
  omega


end Relic.Lemmas.Bounds
