/-
C08: the length bookkeeping of the modelled functions — a result either fits the storage it is written to
(capacity `cfg.cap` digits of a bn, the caller's recoding / byte / character buffer) or the function reports an
error (`none` / `.error`) and produces nothing.
-/
import RelicVerif.Lemmas.BnHigh
import RelicVerif.Lemmas.BnHighMul
import RelicVerif.Lemmas.Rec
import RelicVerif.Lemmas.BnConv
import RelicVerif.Lemmas.Md

namespace Relic.Lemmas.Bounds
open Relic.Model Relic.Model.Rec Relic.Model.Md
open Relic.Spec.Mac (Bytes Hash)

variable (cfg : Cfg)

theorem bnAdd_fits (a b c : Bn) (ha : a.used ≤ cfg.cap) (hb : b.used ≤ cfg.cap) (h : bnAdd cfg a b = some c) :
    c.used ≤ cfg.cap := by
  sorry

theorem bnSub_fits (a b c : Bn) (ha : a.used ≤ cfg.cap) (hb : b.used ≤ cfg.cap) (h : bnSub cfg a b = some c) :
    c.used ≤ cfg.cap := by
  sorry

theorem bnMulBasic_fits (a b c : Bn) (h : bnMulBasic cfg a b = some c) : c.used ≤ cfg.cap := by
  sorry

theorem bnMulComba_fits (a b c : Bn) (h : bnMulComba cfg a b = some c) : c.used ≤ cfg.cap := by
  sorry

theorem bnSqrBasic_fits (a c : Bn) (h : bnSqrBasic cfg a = some c) : c.used ≤ cfg.cap := by
  sorry

theorem bnLsh_fits (a c : Bn) (k : Nat) (ha : a.used ≤ cfg.cap) (h : bnLsh cfg a k = some c) : c.used ≤ cfg.cap := by
  sorry

theorem bnDbl_fits (a c : Bn) (ha : a.used ≤ cfg.cap) (h : bnDbl cfg a = some c) : c.used ≤ cfg.cap := by
  sorry

theorem bnMulDig_fits (a c : Bn) (d : Nat) (ha : a.used ≤ cfg.cap) (h : bnMulDig cfg a d = some c) : c.used ≤ cfg.cap := by
  sorry

/-- recodings never produce more digits than the caller's buffer holds -/
theorem recWin_fits (cap k w : Nat) (ds : List Int) (h : recWin cap k w = some ds) : ds.length ≤ cap := by
  sorry

theorem recSlw_fits (cap k w : Nat) (hw : 0 < w) (ds : List Int) (h : recSlw cap k w = some ds) : ds.length ≤ cap := by
  sorry

theorem recNaf_fits (cap k w : Nat) (ds : List Int) (h : recNaf cap k w = some ds) : ds.length ≤ cap := by
  sorry

theorem recReg_fits (cap k n w : Nat) (ds : List Int) (h : recReg cap k n w = some ds) : ds.length ≤ cap := by
  sorry

theorem recJsf_fits (cap k l : Nat) (a0 a1 : List Int) (h : recJsf cap k l = some (a0, a1)) :
    a0.length ≤ cap ∧ a1.length ≤ cap := by
  sorry

/-- byte and character encodings write exactly / at most what the caller asked for -/
theorem bnWriteBin_length (w len : Nat) (a : Bn) (b : List UInt8) (h : bnWriteBin w len a = some b) : b.length = len := by
  sorry

theorem bnWriteStr_length (a : Bn) (radix len : Nat) (s : String) (h : bnWriteStr cfg len a radix = .ok s) :
    s.length + 1 ≤ len := by
  sorry

/-- a decoded integer never exceeds the capacity (longer inputs are refused) -/
theorem bnReadBin_fits (bin : List UInt8) (x : Bn) (h : bnReadBin cfg bin = some x) : x.used ≤ max cfg.cap 1 := by
  sorry

/-- key derivation fills exactly the requested number of bytes -/
theorem nistKdf_length (H : Hash) (hout : ∀ b, (H.h b).length = H.outLen) (hpos : 0 < H.outLen) (keyLen : Nat) (inp : Bytes)
    (v : Nat) : (nistKdf H keyLen inp v).length = keyLen := by
  sorry

end Relic.Lemmas.Bounds
