/-
Edwards point encodings (Model/EdConv.lean; ed_read_bin / ed_write_bin / ed_size_bin / ed_pck / ed_upk): decoding accepts
only curve points with canonical coordinates, which strings it rejects, and encode / decode round-trip — over Z/pZ for a
prime p, with the square root and the inversion of the field as parameters with their contracts.
-/
import Mathlib.Data.ZMod.Basic
import Mathlib.Tactic.Ring
import Mathlib.Tactic.LinearCombination
import Mathlib.Tactic.FieldSimp
import RelicVerif.Model.EdConv
import RelicVerif.Lemmas.EpConv

namespace Relic.Model.EdConv
open Relic.Spec.Edwards
open Relic.Model.EpConv (beBytes beVal beBytes_length beVal_beBytes beBytes_beVal)

/-- contract of fp_srt: a returned root is canonical and squares to the argument … -/
def SrtSound (x : Ctx) : Prop := ∀ a r, x.srt a = some r → r < x.c.p ∧ r * r % x.c.p = a % x.c.p
/-- … and a root is returned whenever one exists -/
def SrtComplete (x : Ctx) : Prop := ∀ a y, y < x.c.p → y * y % x.c.p = a % x.c.p → (x.srt a).isSome
/-- contract of fp_inv -/
def InvSound (x : Ctx) : Prop := ∀ a, a % x.c.p ≠ 0 → a * x.inv a % x.c.p = 1
/-- the Montgomery radix is a unit modulo p (it is a power of two and p is odd) -/
def RUnit (x : Ctx) : Prop := ∀ v, v < x.c.p → v * x.R % x.c.p = 0 → v = 0
/-- d·y² ≠ a for every y: holds when a/d is not a square (a a square, d not: the completeness condition) -/
def DenNonzero (x : Ctx) : Prop := ∀ y, y < x.c.p → fsub x.c (x.c.d * (y * y % x.c.p)) x.c.a ≠ 0

/-! ### helpers -/

theorem signBit_le_one (x : Ctx) (v : Nat) : signBit x v ≤ 1 := by
  unfold signBit; omega

theorem signBit_zero (x : Ctx) : signBit x 0 = 0 := by
  simp [signBit]

theorem fpRead_some {x : Ctx} {b : Bytes} {v : Nat} (h : fpRead x b = some v) :
    b.length = x.nb ∧ v = beVal b ∧ v < x.c.p := by
  unfold fpRead at h
  split at h
  · cases h
  · split at h
    · cases h; refine ⟨by omega, rfl, by assumption⟩
    · cases h

theorem fpRead_eq {x : Ctx} {b : Bytes} (hl : b.length = x.nb) (hv : beVal b < x.c.p) :
    fpRead x b = some (beVal b) := by
  simp [fpRead, hl, hv]

theorem fpRead_beBytes {x : Ctx} (hnb : x.c.p ≤ 256 ^ x.nb) {v : Nat} (hv : v < x.c.p) :
    fpRead x (beBytes v x.nb) = some v := by
  have hvx : beVal (beBytes v x.nb) = v := beVal_beBytes _ _ (by omega)
  have := fpRead_eq (x := x) (beBytes_length v x.nb) (by rw [hvx]; exact hv)
  rwa [hvx] at this

theorem onCurve_iff {c : Curve} {px py : Nat} (h : onCurve c (px, py) = true) :
    px < c.p ∧ py < c.p ∧
      (c.a * (px * px % c.p) + py * py) % c.p = (1 + c.d * (px * px % c.p) % c.p * (py * py % c.p)) % c.p := by
  simpa [onCurve, and_assoc] using h

theorem fsub_lt (c : Curve) (hp : 0 < c.p) (a b : Nat) : fsub c a b < c.p := Nat.mod_lt _ hp

theorem fsub_cast (c : Curve) (hp : 0 < c.p) (a b : Nat) : ((fsub c a b : Nat) : ZMod c.p) = (a : ZMod c.p) - b := by
  unfold fsub
  have hle : b % c.p ≤ a + c.p := by
    have := Nat.mod_lt b hp
    omega
  rw [ZMod.natCast_mod, Nat.cast_sub hle, Nat.cast_add, ZMod.natCast_self, ZMod.natCast_mod]
  ring

theorem isNeutral_iff (x : Ctx) (P : Point) : isNeutral x P = true ↔ P = neutral x.c := by
  rcases P with ⟨px, py⟩
  simp [isNeutral, neutral]

/-- inversion of `upk` -/
theorem upk_some {x : Ctx} {py bit : Nat} {P : Point} (h : upk x py bit = some P) :
    fsub x.c (x.c.d * (py * py % x.c.p)) x.c.a ≠ 0 ∧ ∃ r, x.srt (upkRhs x py) = some r ∧
      ((signBit x r ≠ bit ∧ P = ((x.c.p - r) % x.c.p, py)) ∨ (signBit x r = bit ∧ P = (r, py))) := by
  unfold upk at h
  dsimp only at h
  split at h
  · cases h
  · next hd =>
    refine ⟨hd, ?_⟩
    split at h
    · cases h
    · next r hr =>
      refine ⟨r, hr, ?_⟩
      split at h
      · next hne => cases h; exact .inl ⟨hne, rfl⟩
      · next heq => cases h; exact .inr ⟨by simpa using heq, rfl⟩

/-- inversion of `readBin`: the three accepting paths with everything that was checked on them -/
theorem readBin_cases (x : Ctx) (bin : Bytes) (P : Point) (h : readBin x bin = some P) :
    (bin = [0] ∧ P = neutral x.c) ∨
    (bin.length ≠ 1 ∧ bin.length = x.nb + 1 ∧ ∃ py, fpRead x (bin.drop 1) = some py ∧
      ((bin.headD 0).toNat = 2 ∨ (bin.headD 0).toNat = 3) ∧
      upk x py ((bin.headD 0).toNat - 2) = some P ∧ onCurve x.c P = true) ∨
    (bin.length ≠ 1 ∧ bin.length ≠ x.nb + 1 ∧ bin.length = 2 * x.nb + 1 ∧ bin.head? = some 4 ∧ ∃ px py,
      fpRead x ((bin.drop 1).take x.nb) = some py ∧ fpRead x (bin.drop (1 + x.nb)) = some px ∧
      onCurve x.c (px, py) = true ∧ P = (px, py)) := by
  unfold readBin at h
  split at h
  · next hl =>
    split at h
    · next hh =>
      cases h
      left
      match bin, hl, hh with
      | [a], _, hh => simp at hh; simp [hh]
    · cases h
  · next hl1 =>
    split at h
    · next hl =>
      right; left
      split at h
      · cases h
      · next py hpy =>
        dsimp only at h
        split at h
        · cases h
        · next htag =>
          split at h
          · cases h
          · next Q hQ =>
            split at h
            · next hon =>
              cases h
              exact ⟨hl1, hl, py, hpy, by omega, hQ, hon⟩
            · cases h
    · next hl2 =>
      split at h
      · next hl =>
        right; right
        split at h
        · cases h
        · next hh =>
          split at h
          · next py px hpy hpx =>
            split at h
            · next hon =>
              cases h; exact ⟨hl1, hl2, hl, by simpa using hh, px, py, hpy, hpx, hon, rfl⟩
            · cases h
          · cases h
      · cases h

theorem headD_toNat {bin : Bytes} {n : Nat} (hne : bin ≠ []) (h : (bin.headD 0).toNat = n) :
    bin.head? = some (UInt8.ofNat n) := by
  match bin, hne with
  | a :: l, _ =>
    simp only [List.headD_cons] at h
    simp [← h]

theorem neutral_onCurve (c : Curve) (hp : 1 < c.p) : onCurve c (neutral c) = true := by
  have h1 : 1 % c.p = 1 := Nat.mod_eq_of_lt hp
  simp [onCurve, neutral, h1]
  omega

theorem readBin_pack (x : Ctx) (bin : Bytes) (py : Nat) (P : Point) (hl1 : bin.length ≠ 1) (hl : bin.length = x.nb + 1)
    (hpy : fpRead x (bin.drop 1) = some py) (htag : (bin.headD 0).toNat = 2 ∨ (bin.headD 0).toNat = 3)
    (hupk : upk x py ((bin.headD 0).toNat - 2) = some P) (hon : onCurve x.c P = true) :
    readBin x bin = some P := by
  have htag' : ¬ ((bin.headD 0).toNat ≠ 2 ∧ (bin.headD 0).toNat ≠ 3) := by omega
  simp only [readBin, if_neg hl1, if_pos hl, hpy, if_neg htag', hupk, hon, if_true]

theorem readBin_unpack (x : Ctx) (bin : Bytes) (px py : Nat) (hl1 : bin.length ≠ 1) (hl2 : bin.length ≠ x.nb + 1)
    (hl : bin.length = 2 * x.nb + 1) (hh : bin.head? = some 4)
    (hpy : fpRead x ((bin.drop 1).take x.nb) = some py) (hpx : fpRead x (bin.drop (1 + x.nb)) = some px)
    (hon : onCurve x.c (px, py) = true) :
    readBin x bin = some (px, py) := by
  have hh' : ¬ (bin.head? ≠ some 4) := by simp [hh]
  simp only [readBin, if_neg hl1, if_neg hl2, if_pos hl, if_neg hh', hpx, hpy, hon, if_true]

/-- decoding a well-formed compressed string: whatever `upk` recovers for the tag's bit is returned -/
theorem readBin_tag (x : Ctx) (hnb : x.c.p ≤ 256 ^ x.nb) (hnb0 : 0 < x.nb) (py bit : Nat) (P : Point) (hbit : bit ≤ 1)
    (hpy : py < x.c.p) (hupk : upk x py bit = some P) (hon : onCurve x.c P = true) :
    readBin x (UInt8.ofNat (2 + bit) :: beBytes py x.nb) = some P := by
  have hf1 : fpRead x (beBytes py x.nb) = some py := fpRead_beBytes hnb hpy
  have ht : (UInt8.ofNat (2 + bit)).toNat = 2 + bit := by
    rw [UInt8.toNat_ofNat']; omega
  have hlen : (UInt8.ofNat (2 + bit) :: beBytes py x.nb).length = x.nb + 1 := by
    simp [beBytes_length]
  apply readBin_pack x _ py P (by omega) hlen
  · simpa using hf1
  · rw [List.headD_cons, ht]; omega
  · rw [List.headD_cons, ht, Nat.add_sub_cancel_left]
    exact hupk
  · exact hon

theorem prime_div {p : Nat} (hprime : Nat.Prime p) : ∀ d, d ∣ p → d = 1 ∨ d = p :=
  fun _ hd => (Nat.dvd_prime hprime).mp hd

/-! ### statements -/


/-- the two roots ±v of a non-zero square have different sign bits: p is odd and R is a unit, so v·R mod p and
    (p − v)·R mod p = p − (v·R mod p) have different parities -/
theorem signBit_neg (x : Ctx) (hodd : x.c.p % 2 = 1) (hR : RUnit x) (v : Nat) (h0 : 0 < v) (hv : v < x.c.p) :
    signBit x v ≠ signBit x (x.c.p - v) := by
  unfold signBit
  have hp0 : 0 < x.c.p := by omega
  have hm : v * x.R % x.c.p ≠ 0 := fun h => by have := hR v hv h; omega
  have hsum : ((x.c.p - v) * x.R % x.c.p + v * x.R % x.c.p) % x.c.p = 0 := by
    rw [← Nat.add_mod, ← Nat.add_mul, Nat.sub_add_cancel (by omega)]; exact Nat.mul_mod_right _ _
  have h1 := Nat.mod_lt ((x.c.p - v) * x.R) hp0
  have h2 := Nat.mod_lt (v * x.R) hp0
  generalize (x.c.p - v) * x.R % x.c.p = m1 at hsum h1 ⊢
  generalize v * x.R % x.c.p = m2 at hsum h2 hm ⊢
  have hs : m1 + m2 = x.c.p := by
    rcases Nat.lt_or_ge (m1 + m2) x.c.p with h | h
    · rw [Nat.mod_eq_of_lt h] at hsum; omega
    · rw [Nat.mod_eq_sub_mod h, Nat.mod_eq_of_lt (by omega)] at hsum; omega
  omega

/-- the buffer check: an error exactly when the buffer is shorter than the advertised size -/
theorem writeBin_error_iff (x : Ctx) (len : Nat) (P : Point) (pack : Bool) :
    writeBin x len P pack = none ↔ len < sizeBin x P pack := by
  unfold writeBin sizeBin
  cases isNeutral x P
  · cases pack <;> simp
  · simp

/-- whatever byte string is accepted denotes a point on the curve with canonical coordinates -/
theorem readBin_valid (x : Ctx) (hp : 1 < x.c.p) (bin : Bytes) (P : Point) (h : readBin x bin = some P) :
    onCurve x.c P = true := by
  rcases readBin_cases x bin P h with ⟨_, rfl⟩ | ⟨_, _, py, _, _, _, hon⟩ | ⟨_, _, _, _, px, py, _, _, hon, rfl⟩
  · exact neutral_onCurve x.c hp
  · exact hon
  · exact hon

/-- … and has one of the three advertised shapes: the single byte 0 (the neutral element), tag 2 or 3 followed by y, tag 4
    followed by y and x; every other length and every other tag is rejected -/
theorem readBin_shape (x : Ctx) (bin : Bytes) (P : Point) (h : readBin x bin = some P) :
    (bin = [0] ∧ P = neutral x.c) ∨
    (bin.length = x.nb + 1 ∧ (bin.head? = some 2 ∨ bin.head? = some 3) ∧ bin.length ≠ 1 ∧
      ∃ py, fpRead x (bin.drop 1) = some py ∧ P.2 = py) ∨
    (bin.length = 2 * x.nb + 1 ∧ bin.head? = some 4 ∧ bin.length ≠ 1 ∧ bin.length ≠ x.nb + 1 ∧
      fpRead x ((bin.drop 1).take x.nb) = some P.2 ∧ fpRead x (bin.drop (1 + x.nb)) = some P.1) := by
  rcases readBin_cases x bin P h with ⟨h1, h2⟩ | ⟨hl1, hl, py, hpy, htag, hupk, hon⟩ |
      ⟨hl1, hl2, hl, hh, px, py, hpy, hpx, hon, rfl⟩
  · exact .inl ⟨h1, h2⟩
  · refine .inr (.inl ⟨hl, ?_, hl1, py, hpy, ?_⟩)
    · have hne : bin ≠ [] := by intro h0; simp [h0] at hl
      rcases htag with h2 | h3
      · exact .inl (headD_toNat hne h2)
      · exact .inr (headD_toNat hne h3)
    · obtain ⟨_, r, _, ⟨_, rfl⟩ | ⟨_, rfl⟩⟩ := upk_some hupk <;> rfl
  · exact .inr (.inr ⟨hl, hh, hl1, hl2, hpy, hpx⟩)

/-- coordinates that are not reduced modulo p are rejected -/
theorem readBin_rejects_unreduced (x : Ctx) (tag : UInt8) (by_ bx : Bytes) (hl : by_.length = x.nb)
    (hy : x.c.p ≤ beVal by_) (h1 : x.nb ≠ 0) :
    readBin x (tag :: by_) = none ∧ (bx.length = x.nb → readBin x (tag :: by_ ++ bx) = none) := by
  have hf : fpRead x by_ = none := by
    simp [fpRead, hl, Nat.not_lt.mpr hy]
  constructor
  · have hl1 : (tag :: by_).length ≠ 1 := by simp [hl, h1]
    have hl2 : (tag :: by_).length = x.nb + 1 := by simp [hl]
    simp only [readBin, if_neg hl1, if_pos hl2, List.drop_succ_cons, List.drop_zero, hf]
  · intro hbx
    have hl1 : (tag :: by_ ++ bx).length ≠ 1 := by simp [hl, h1]
    have hl2 : (tag :: by_ ++ bx).length ≠ x.nb + 1 := by simp [hl, hbx, h1]
    have hl3 : (tag :: by_ ++ bx).length = 2 * x.nb + 1 := by simp [hl, hbx]; omega
    have ht : ((tag :: by_ ++ bx).drop 1).take x.nb = by_ := by
      simp [← hl]
    simp only [readBin, if_neg hl1, if_neg hl2, if_pos hl3, ht, hf]
    split <;> rfl

theorem writeBin_neutral (x : Ctx) (P : Point) (pack : Bool) (hn : isNeutral x P = true) :
    writeBin x 1 P pack = some [0] := by
  simp [writeBin, hn]

theorem writeBin_pack (x : Ctx) (P : Point) (hn : isNeutral x P = false) :
    writeBin x (x.nb + 1) P true = some (UInt8.ofNat (2 + signBit x P.1) :: beBytes P.2 x.nb) := by
  simp [writeBin, hn]

theorem writeBin_unpack (x : Ctx) (P : Point) (hn : isNeutral x P = false) :
    writeBin x (2 * x.nb + 1) P false = some (4 :: (beBytes P.2 x.nb ++ beBytes P.1 x.nb)) := by
  simp [writeBin, hn]

theorem readBin_zero (x : Ctx) : readBin x [0] = some (neutral x.c) := by
  simp [readBin]

/-- on a curve point, x² is the quantity whose square root `upk` takes: a·x² + y² = 1 + d·x²·y² gives
    x²·(d·y² − a) = y² − 1, and the denominator is invertible -/
theorem upkRhs_eq {x : Ctx} (hprime : Nat.Prime x.c.p) (hi : InvSound x) (hden : DenNonzero x) {px py : Nat}
    (hon : onCurve x.c (px, py) = true) : px * px % x.c.p = upkRhs x py % x.c.p := by
  obtain ⟨hpx, hpy, heq⟩ := onCurve_iff hon
  have : Fact x.c.p.Prime := Fact.mk hprime
  have hp0 : 0 < x.c.p := hprime.pos
  have hd0 : fsub x.c (x.c.d * (py * py % x.c.p)) x.c.a % x.c.p ≠ 0 := by
    rw [Nat.mod_eq_of_lt (fsub_lt _ hp0 _ _)]; exact hden py hpy
  have hinv := hi _ hd0
  unfold upkRhs
  dsimp only
  obtain ⟨iv, hiv⟩ : ∃ iv, iv = x.inv (fsub x.c (x.c.d * (py * py % x.c.p)) x.c.a) := ⟨_, rfl⟩
  rw [← hiv] at hinv ⊢
  have e1 := (ZMod.natCast_eq_natCast_iff' _ _ _).mpr (hinv.trans (Nat.mod_eq_of_lt hprime.one_lt).symm)
  have e2 := (ZMod.natCast_eq_natCast_iff' _ _ _).mpr heq
  apply (ZMod.natCast_eq_natCast_iff' _ _ _).mp
  push_cast [ZMod.natCast_mod, fsub_cast _ hp0] at e1 e2 ⊢
  linear_combination (-(px : ZMod x.c.p) * px) * e1 + (-(iv : ZMod x.c.p)) * e2

/-- ed_upk ∘ ed_pck is the identity on curve points -/
theorem upk_pck (x : Ctx) (hprime : Nat.Prime x.c.p) (hodd : x.c.p % 2 = 1) (hs : SrtSound x) (hc : SrtComplete x)
    (hi : InvSound x) (hR : RUnit x) (hden : DenNonzero x) (P : Point) (hP : onCurve x.c P = true) :
    upk x (pck x P).2 (pck x P).1 = some P := by
  rcases P with ⟨px, py⟩
  obtain ⟨hpx, hpy, heq⟩ := onCurve_iff hP
  have hX := upkRhs_eq hprime hi hden hP
  have hsome := hc (upkRhs x py) px hpx hX
  show upk x py (signBit x px) = some (px, py)
  unfold upk
  dsimp only
  rw [if_neg (hden py hpy)]
  split
  · next hnone => rw [hnone] at hsome; cases hsome
  · next r hr =>
    obtain ⟨hrp, hrr⟩ := hs _ _ hr
    rw [← hX] at hrr
    rcases Relic.Model.EpConv.sq_eq (prime_div hprime) hrp hpx hrr with h1 | h1
    · subst h1; simp
    · by_cases hry : r = px
      · subst hry; simp
      · have hr' : r = x.c.p - px := by omega
        have h2 := signBit_neg x hodd hR px (by omega) hpx
        rw [← hr'] at h2
        rw [if_pos (Ne.symm h2)]
        have : (x.c.p - r) % x.c.p = px := by
          rw [Nat.mod_eq_of_lt (by omega)]; omega
        rw [this]

/-- DECODE ∘ ENCODE: decoding what ed_write_bin produced for a curve point returns the point, compressed or not -/
theorem readBin_writeBin (x : Ctx) (hprime : Nat.Prime x.c.p) (hodd : x.c.p % 2 = 1) (hnb : x.c.p ≤ 256 ^ x.nb)
    (hnb0 : 0 < x.nb) (hs : SrtSound x) (hc : SrtComplete x) (hi : InvSound x) (hR : RUnit x) (hden : DenNonzero x)
    (P : Point) (hP : onCurve x.c P = true) (pack : Bool) (b : Bytes)
    (h : writeBin x (sizeBin x P pack) P pack = some b) :
    readBin x b = some P := by
  rcases P with ⟨px, py⟩
  obtain ⟨hpx, hpy, heq⟩ := onCurve_iff hP
  by_cases hn : isNeutral x (px, py) = true
  · have hPn := (isNeutral_iff _ _).mp hn
    have hsz : sizeBin x (px, py) pack = 1 := by simp [sizeBin, hn]
    rw [hsz, writeBin_neutral x _ _ hn] at h
    cases h
    rw [hPn]
    exact readBin_zero x
  · have hn' : isNeutral x (px, py) = false := by simpa using hn
    cases pack
    · rw [show sizeBin x (px, py) false = 2 * x.nb + 1 by simp [sizeBin, hn'], writeBin_unpack _ _ hn'] at h
      cases h
      have hf1 : fpRead x (beBytes px x.nb) = some px := fpRead_beBytes hnb hpx
      have hf2 : fpRead x (beBytes py x.nb) = some py := fpRead_beBytes hnb hpy
      have hlen : (4 :: (beBytes py x.nb ++ beBytes px x.nb)).length = 2 * x.nb + 1 := by
        simp [beBytes_length]; omega
      apply readBin_unpack x _ px py (by omega) (by omega) hlen rfl
      · simpa [beBytes_length] using hf2
      · rw [Nat.add_comm, List.drop_succ_cons]
        simpa [beBytes_length] using hf1
      · exact hP
    · rw [show sizeBin x (px, py) true = x.nb + 1 by simp [sizeBin, hn'], writeBin_pack _ _ hn'] at h
      cases h
      exact readBin_tag x hnb hnb0 py _ (px, py) (signBit_le_one x px) hpy
        (upk_pck x hprime hodd hs hc hi hR hden (px, py) hP) hP

set_option linter.unusedVariables false in
/-- ENCODE ∘ DECODE: re-encoding what was decoded (same length, same compression) reproduces the input bytes — except for
    the redundant encodings of the library's own format: the neutral element written in a long form, and the compressed
    form of a point with x = 0 under the tag with sign bit 1 (see `readBin_x0_malleable`).
    (`hprime`, `hnb` are not needed in this direction; kept so that the signature is the stated one.) -/
theorem writeBin_readBin (x : Ctx) (hprime : Nat.Prime x.c.p) (hodd : x.c.p % 2 = 1) (hnb : x.c.p ≤ 256 ^ x.nb)
    (hs : SrtSound x) (hR : RUnit x)
    (bin : Bytes) (P : Point) (h : readBin x bin = some P)
    (hne : bin.length ≠ 1 → P ≠ neutral x.c)
    (hx0 : bin.length = x.nb + 1 → P.1 ≠ 0) :
    writeBin x bin.length P (bin.length = x.nb + 1) = some bin := by
  rcases readBin_cases x bin P h with ⟨rfl, rfl⟩ | ⟨hl1, hl, py, hpy, htag, hupk, hon⟩ |
      ⟨hl1, hl2, hl, hh, px, py, hpy, hpx, hon, rfl⟩
  · exact writeBin_neutral x _ _ ((isNeutral_iff _ _).mpr rfl)
  · have hnn : isNeutral x P = false := by
      rw [Bool.eq_false_iff]; intro hn; exact hne hl1 ((isNeutral_iff _ _).mp hn)
    obtain ⟨hdl, hv, hlt⟩ := fpRead_some hpy
    have hbit : signBit x P.1 = (bin.headD 0).toNat - 2 ∧ P.2 = py := by
      obtain ⟨_, r, hr, ⟨hne', rfl⟩ | ⟨heq', rfl⟩⟩ := upk_some hupk
      · have ⟨hrp, _⟩ := hs _ _ hr
        have hr0 : r ≠ 0 := by
          intro h0; subst h0; exact hx0 hl (by simp)
        refine ⟨?_, rfl⟩
        show signBit x ((x.c.p - r) % x.c.p) = _
        rw [Nat.mod_eq_of_lt (by omega)]
        have h1 := signBit_neg x hodd hR r (by omega) hrp
        have h2 := signBit_le_one x r
        have h3 := signBit_le_one x (x.c.p - r)
        omega
      · exact ⟨heq', rfl⟩
    obtain ⟨hb1, hb2⟩ := hbit
    rw [decide_eq_true hl, hl, writeBin_pack _ _ hnn]
    match bin, hl with
    | a :: rest, hl =>
      simp only [List.drop_succ_cons, List.drop_zero, List.headD_cons] at hdl hv htag hb1
      have ha : UInt8.ofNat (2 + signBit x P.1) = a := by
        rw [hb1]
        have : 2 + (a.toNat - 2) = a.toNat := by omega
        rw [this, UInt8.ofNat_toNat]
      have hb : beBytes P.2 x.nb = rest := by rw [hb2, hv, ← hdl, beBytes_beVal]
      rw [ha, hb]
  · have hnn : isNeutral x (px, py) = false := by
      rw [Bool.eq_false_iff]; intro hn; exact hne hl1 ((isNeutral_iff _ _).mp hn)
    obtain ⟨hdl1, hv1, hlt1⟩ := fpRead_some hpy
    obtain ⟨hdl2, hv2, hlt2⟩ := fpRead_some hpx
    rw [decide_eq_false hl2, hl, writeBin_unpack _ _ hnn]
    match bin, hl with
    | a :: rest, hl =>
      have hd : List.drop (1 + x.nb) (a :: rest) = List.drop x.nb rest := by
        rw [Nat.add_comm, List.drop_succ_cons]
      rw [hd] at hdl2 hv2
      simp only [List.drop_succ_cons, List.drop_zero, List.head?_cons, Option.some.injEq] at hdl1 hv1 hh
      have hb1 : beBytes py x.nb = rest.take x.nb := by
        have := beBytes_beVal (rest.take x.nb)
        rwa [hdl1, ← hv1] at this
      have hb2 : beBytes px x.nb = rest.drop x.nb := by
        have := beBytes_beVal (rest.drop x.nb)
        rwa [hdl2, ← hv2] at this
      show some (4 :: (beBytes py x.nb ++ beBytes px x.nb)) = _
      rw [hb1, hb2, List.take_append_drop, hh]

/-- for a curve point with x = 0 `upk` ignores the requested bit: the negation of the root 0 is 0 -/
theorem upk_x0 {x : Ctx} (hprime : Nat.Prime x.c.p) (hs : SrtSound x) (hc : SrtComplete x) (hden : DenNonzero x)
    {py : Nat} (hon : onCurve x.c (0, py) = true) (bit : Nat) : upk x py bit = some (0, py) := by
  obtain ⟨_, hpy, heq⟩ := onCurve_iff hon
  have hp0 : 0 < x.c.p := hprime.pos
  have h1 : 1 % x.c.p = 1 := Nat.mod_eq_of_lt hprime.one_lt
  simp only [Nat.mul_zero, Nat.zero_mod, Nat.zero_add, Nat.zero_mul, Nat.add_zero, h1] at heq
  have hf : fsub x.c (py * py) 1 = 0 := by
    unfold fsub
    rw [h1]
    have h2 := Nat.div_add_mod (py * py) x.c.p
    have h3 : py * py + x.c.p - 1 = x.c.p * (py * py / x.c.p + 1) := by
      rw [Nat.mul_add, Nat.mul_one]; omega
    rw [h3]; exact Nat.mul_mod_right _ _
  have hrhs : upkRhs x py = 0 := by
    unfold upkRhs
    dsimp only
    rw [hf, Nat.zero_mul, Nat.zero_mod]
  have hsome := hc 0 0 hp0 rfl
  unfold upk
  dsimp only
  rw [if_neg (hden py hpy), hrhs]
  split
  · next hnone => rw [hnone] at hsome; cases hsome
  · next r hr =>
    obtain ⟨hrp, hrr⟩ := hs _ _ hr
    rw [Nat.zero_mod] at hrr
    have hr0 : r = 0 := by
      rcases (Nat.Prime.dvd_mul hprime).mp (Nat.dvd_of_mod_eq_zero hrr) with h | h <;>
        exact Nat.eq_zero_of_dvd_of_lt h hrp
    subst hr0
    split <;> simp

/-- the excluded case is real (malleability): for a curve point (0, y) — y = ±1, i.e. the neutral element and the point of
    order 2 — both `02 ‖ y` and `03 ‖ y` are accepted and give the same point (the negation of the root 0 is 0, whatever
    sign is requested); ed_write_bin emits `02 ‖ y` for (0, −1) and the single byte 0 for (0, 1) -/
theorem readBin_x0_malleable (x : Ctx) (hprime : Nat.Prime x.c.p) (hnb : x.c.p ≤ 256 ^ x.nb) (hnb0 : 0 < x.nb)
    (hs : SrtSound x) (hc : SrtComplete x) (hden : DenNonzero x) (py : Nat) (hon : onCurve x.c (0, py) = true) :
    readBin x (2 :: beBytes py x.nb) = some (0, py) ∧ readBin x (3 :: beBytes py x.nb) = some (0, py) := by
  obtain ⟨_, hpy, _⟩ := onCurve_iff hon
  exact ⟨readBin_tag x hnb hnb0 py 0 (0, py) (by omega) hpy (upk_x0 hprime hs hc hden hon 0) hon,
    readBin_tag x hnb hnb0 py 1 (0, py) (by omega) hpy (upk_x0 hprime hs hc hden hon 1) hon⟩

/-! ### the hypotheses are satisfiable, and the functions compute: a toy curve over F₁₃ -/

section Toy

/-- brute-force square root modulo p (sound and complete) -/
def bfSrt (p : Nat) : Nat → Option Nat := fun a => (List.range p).find? fun r => r * r % p = a % p
/-- brute-force inverse modulo p -/
def bfInv (p : Nat) : Nat → Nat := fun a => ((List.range p).find? fun i => a % p * i % p = 1).getD 0

/-- −x² + y² = 1 + 2·x²·y² over F₁₃ (−1 = 5² a square, 2 a non-square: the complete case), 1-byte field elements,
    Montgomery radix 2⁸ -/
def toy : Ctx := { c := { p := 13, a := 12, d := 2 }, nb := 1, R := 256, srt := bfSrt 13, inv := bfInv 13 }

theorem bfSrt_sound (x : Ctx) (h : x.srt = bfSrt x.c.p) : SrtSound x := by
  intro a r hr
  rw [h] at hr
  have h1 := List.find?_some hr
  have h2 := List.mem_of_find?_eq_some hr
  exact ⟨List.mem_range.mp h2, by simpa using h1⟩

theorem bfSrt_complete (x : Ctx) (h : x.srt = bfSrt x.c.p) : SrtComplete x := by
  intro a y hy hyy
  rw [h, bfSrt, List.find?_isSome]
  exact ⟨y, List.mem_range.mpr hy, by simpa using hyy⟩

theorem toy_inv : InvSound toy := by
  intro a ha
  have hlt : a % 13 < 13 := Nat.mod_lt _ (by decide)
  have key : ∀ b, b < 13 → b ≠ 0 → b * bfInv 13 b % 13 = 1 := by decide
  have e : bfInv 13 a = bfInv 13 (a % 13) := by simp [bfInv]
  show a * bfInv 13 a % 13 = 1
  rw [e, Nat.mul_mod, Nat.mul_mod_mod]
  exact key _ hlt ha

/-- every hypothesis of the theorems above holds for the toy context -/
example : Nat.Prime toy.c.p ∧ toy.c.p % 2 = 1 ∧ toy.c.p ≤ 256 ^ toy.nb ∧ 0 < toy.nb ∧ SrtSound toy ∧ SrtComplete toy ∧
    InvSound toy ∧ RUnit toy ∧ DenNonzero toy := by
  refine ⟨by decide, by decide, by decide, by decide, bfSrt_sound _ rfl, bfSrt_complete _ rfl, toy_inv, ?_, ?_⟩
  · have : ∀ v, v < 13 → v * 256 % 13 = 0 → v = 0 := by decide
    exact this
  · have : ∀ y, y < 13 → fsub toy.c (toy.c.d * (y * y % toy.c.p)) toy.c.a ≠ 0 := by decide
    exact this

/-- the functions compute: (3, 2) is on the curve (−9 + 4 ≡ 8 ≡ 1 + 2·9·4 = 73), is written as `04 02 03` and as
    `03 02` (3·256 mod 13 = 1 is odd), its negative (10, 2) as `02 02`, and all three strings decode to what was encoded;
    the neutral element is the byte 0; the point of order 2 (0, 12) is accepted under both tags (`readBin_x0_malleable`) and
    written back with tag 2; an unreduced coordinate, a y without x and a point off the curve are rejected -/
example : onCurve toy.c (3, 2) = true ∧
    writeBin toy 3 (3, 2) false = some [4, 2, 3] ∧ writeBin toy 2 (3, 2) true = some [3, 2] ∧
    writeBin toy 2 (10, 2) true = some [2, 2] ∧
    readBin toy [4, 2, 3] = some (3, 2) ∧ readBin toy [3, 2] = some (3, 2) ∧ readBin toy [2, 2] = some (10, 2) ∧
    writeBin toy 1 (neutral toy.c) true = some [0] ∧ readBin toy [0] = some (0, 1) ∧
    readBin toy [2, 12] = some (0, 12) ∧ readBin toy [3, 12] = some (0, 12) ∧ writeBin toy 2 (0, 12) true = some [2, 12] ∧
    readBin toy [2, 13] = none ∧ readBin toy [2, 5] = none ∧ readBin toy [4, 2, 4] = none := by decide

/-- DECODE ∘ ENCODE on every point of the toy curve (16 points), both formats, by evaluation -/
example : ∀ px, px < 13 → ∀ py, py < 13 → onCurve toy.c (px, py) = true → ∀ pack : Bool,
    (writeBin toy (sizeBin toy (px, py) pack) (px, py) pack).bind (readBin toy) = some (px, py) := by decide +kernel

end Toy

end Relic.Model.EdConv
