/-
Edwards point encodings (Model/EdConv.lean; ed_read_bin / ed_write_bin / ed_size_bin / ed_pck / ed_upk): decoding accepts
only curve points with canonical coordinates, which strings it rejects, and encode / decode round-trip — over Z/pZ for a
prime p, with the square root and the inversion of the field as parameters with their contracts.
-/
import Mathlib.Data.ZMod.Basic
import Mathlib.Tactic.Ring
import Mathlib.Tactic.LinearCombination
import Mathlib.Tactic.FieldSimp
import RelicVerif.Model.EdConv
import RelicVerif.Lemmas.EpConv

namespace Relic.Model.EdConv
open Relic.Spec.Edwards
open Relic.Model.EpConv (beBytes beVal beBytes_length beVal_beBytes beBytes_beVal)

/-- contract of fp_srt: a returned root is canonical and squares to the argument … -/
def SrtSound (x : Ctx) : Prop := ∀ a r, x.srt a = some r → r < x.c.p ∧ r * r % x.c.p = a % x.c.p
/-- … and a root is returned whenever one exists -/
def SrtComplete (x : Ctx) : Prop := ∀ a y, y < x.c.p → y * y % x.c.p = a % x.c.p → (x.srt a).isSome
/-- contract of fp_inv -/
def InvSound (x : Ctx) : Prop := ∀ a, a % x.c.p ≠ 0 → a * x.inv a % x.c.p = 1
/-- the Montgomery radix is a unit modulo p (it is a power of two and p is odd) -/
def RUnit (x : Ctx) : Prop := ∀ v, v < x.c.p → v * x.R % x.c.p = 0 → v = 0
/-- d·y² ≠ a for every y: holds when a/d is not a square (a a square, d not: the completeness condition) -/
def DenNonzero (x : Ctx) : Prop := ∀ y, y < x.c.p → fsub x.c (x.c.d * (y * y % x.c.p)) x.c.a ≠ 0

/-! ### statements -/

/-- the two roots ±v of a non-zero square have different sign bits: p is odd and R is a unit, so v·R mod p and
    (p − v)·R mod p = p − (v·R mod p) have different parities -/
theorem signBit_neg (x : Ctx) (hodd : x.c.p % 2 = 1) (hR : RUnit x) (v : Nat) (h0 : 0 < v) (hv : v < x.c.p) :
    signBit x v ≠ signBit x (x.c.p - v) := by
  sorry

/-- the buffer check: an error exactly when the buffer is shorter than the advertised size -/
theorem writeBin_error_iff (x : Ctx) (len : Nat) (P : Point) (pack : Bool) :
    writeBin x len P pack = none ↔ len < sizeBin x P pack := by
  sorry

/-- whatever byte string is accepted denotes a point on the curve with canonical coordinates -/
theorem readBin_valid (x : Ctx) (hp : 1 < x.c.p) (bin : Bytes) (P : Point) (h : readBin x bin = some P) :
    onCurve x.c P = true := by
  sorry

/-- … and has one of the three advertised shapes: the single byte 0 (the neutral element), tag 2 or 3 followed by y, tag 4
    followed by y and x; every other length and every other tag is rejected -/
theorem readBin_shape (x : Ctx) (bin : Bytes) (P : Point) (h : readBin x bin = some P) :
    (bin = [0] ∧ P = neutral x.c) ∨
    (bin.length = x.nb + 1 ∧ (bin.head? = some 2 ∨ bin.head? = some 3) ∧ bin.length ≠ 1 ∧
      ∃ py, fpRead x (bin.drop 1) = some py ∧ P.2 = py) ∨
    (bin.length = 2 * x.nb + 1 ∧ bin.head? = some 4 ∧ bin.length ≠ 1 ∧ bin.length ≠ x.nb + 1 ∧
      fpRead x ((bin.drop 1).take x.nb) = some P.2 ∧ fpRead x (bin.drop (1 + x.nb)) = some P.1) := by
  sorry

/-- coordinates that are not reduced modulo p are rejected -/
theorem readBin_rejects_unreduced (x : Ctx) (tag : UInt8) (by_ bx : Bytes) (hl : by_.length = x.nb)
    (hy : x.c.p ≤ beVal by_) (h1 : x.nb ≠ 0) :
    readBin x (tag :: by_) = none ∧ (bx.length = x.nb → readBin x (tag :: by_ ++ bx) = none) := by
  sorry

/-- DECODE ∘ ENCODE: decoding what ed_write_bin produced for a curve point returns the point, compressed or not -/
theorem readBin_writeBin (x : Ctx) (hprime : Nat.Prime x.c.p) (hodd : x.c.p % 2 = 1) (hnb : x.c.p ≤ 256 ^ x.nb)
    (hnb0 : 0 < x.nb) (hs : SrtSound x) (hc : SrtComplete x) (hi : InvSound x) (hR : RUnit x) (hden : DenNonzero x)
    (P : Point) (hP : onCurve x.c P = true) (pack : Bool) (b : Bytes)
    (h : writeBin x (sizeBin x P pack) P pack = some b) :
    readBin x b = some P := by
  sorry

/-- ENCODE ∘ DECODE: re-encoding what was decoded (same length, same compression) reproduces the input bytes — except for
    the redundant encodings of the library's own format: the neutral element written in a long form, and the compressed
    form of a point with x = 0 under the tag with sign bit 1 (see `readBin_x0_malleable`) -/
theorem writeBin_readBin (x : Ctx) (hprime : Nat.Prime x.c.p) (hodd : x.c.p % 2 = 1) (hnb : x.c.p ≤ 256 ^ x.nb)
    (hs : SrtSound x) (hR : RUnit x)
    (bin : Bytes) (P : Point) (h : readBin x bin = some P)
    (hne : bin.length ≠ 1 → P ≠ neutral x.c)
    (hx0 : bin.length = x.nb + 1 → P.1 ≠ 0) :
    writeBin x bin.length P (bin.length = x.nb + 1) = some bin := by
  sorry

/-- the excluded case is real (malleability): for a curve point (0, y) — y = ±1, i.e. the neutral element and the point of
    order 2 — both `02 ‖ y` and `03 ‖ y` are accepted and give the same point (the negation of the root 0 is 0, whatever
    sign is requested); ed_write_bin emits `02 ‖ y` for (0, −1) and the single byte 0 for (0, 1) -/
theorem readBin_x0_malleable (x : Ctx) (hprime : Nat.Prime x.c.p) (hnb : x.c.p ≤ 256 ^ x.nb) (hnb0 : 0 < x.nb)
    (hs : SrtSound x) (hc : SrtComplete x) (hden : DenNonzero x) (py : Nat) (hon : onCurve x.c (0, py) = true) :
    readBin x (2 :: beBytes py x.nb) = some (0, py) ∧ readBin x (3 :: beBytes py x.nb) = some (0, py) := by
  sorry

/-- ed_upk ∘ ed_pck is the identity on curve points -/
theorem upk_pck (x : Ctx) (hprime : Nat.Prime x.c.p) (hodd : x.c.p % 2 = 1) (hs : SrtSound x) (hc : SrtComplete x)
    (hi : InvSound x) (hR : RUnit x) (hden : DenNonzero x) (P : Point) (hP : onCurve x.c P = true) :
    upk x (pck x P).2 (pck x P).1 = some P := by
  sorry

end Relic.Model.EdConv
