/-
The point formulas of Model/Eb.lean (eb_add_basic, eb_add_projc (mixed and general López-Dahab), eb_dbl_basic, eb_dbl_projc,
eb_neg_*, eb_hlv, eb_norm, eb_frb) compute the affine group law of y² + xy = x³ + a x² + b over an arbitrary field of
characteristic two, including the dispatch of the exceptional cases (P = Q → doubling, P = -Q → identity, doubling of the
point of order two → identity).
-/
import Mathlib.Algebra.Field.Defs
import Mathlib.Algebra.Field.Basic
import Mathlib.Algebra.CharP.Two
import Mathlib.Tactic.FieldSimp
import Mathlib.Tactic.Ring
import Mathlib.Tactic.LinearCombination
import Mathlib.Tactic.SplitIfs
import Mathlib.Tactic.ReduceModChar
import RelicVerif.Model.Eb

namespace Relic.Lemmas.EbFormulas
open Relic.Model.Eb

set_option linter.unusedSimpArgs false
set_option linter.unusedSectionVars false
set_option linter.unusedVariables false
set_option linter.unnecessarySeqFocus false

variable {F : Type} [Field F] [CharP F 2] [DecidableEq F]

/-- the operations of the field; slv / srt / trc are parameters (only eb_hlv uses them) -/
def fieldOps (slv srt : F → F) (trc : F → Bool) : BOps F :=
  { zero := 0, one := 1, add := (· + ·), mul := (· * ·), sqr := fun a => a * a, inv := fun a => a⁻¹,
    isZero := fun a => decide (a = 0), slv := slv, srt := srt, trc := trc }

/-! the affine law (Spec/BinCurve.lean, over the abstract field) -/
def chordL (x1 y1 x2 y2 : F) : F := (y1 + y2) / (x1 + x2)
def chordX (a x1 y1 x2 y2 : F) : F := chordL x1 y1 x2 y2 ^ 2 + chordL x1 y1 x2 y2 + x1 + x2 + a
def chordY (a x1 y1 x2 y2 : F) : F := chordL x1 y1 x2 y2 * (x1 + chordX a x1 y1 x2 y2) + chordX a x1 y1 x2 y2 + y1
def tangL (x1 y1 : F) : F := x1 + y1 / x1
def tangX (a x1 y1 : F) : F := tangL x1 y1 ^ 2 + tangL x1 y1 + a
def tangY (a x1 y1 : F) : F := x1 ^ 2 + (tangL x1 y1 + 1) * tangX a x1 y1

/-- the affine point a representation denotes (z ≠ 0): López-Dahab x = X/Z, y = Y/Z²; λ-representation y = (x + λ) x -/
def affX (r : Pt F) : F := match r.coord with
  | .basic => r.x
  | .projc => r.x / r.z
  | .halve => r.x
def affY (r : Pt F) : F := match r.coord with
  | .basic => r.y
  | .projc => r.y / r.z ^ 2
  | .halve => (r.x + r.y) * r.x

/-- the `opt_a` class describes the coefficient -/
def OptOk (cv : CurveB F) : Prop := (cv.optA = .zero → cv.a = 0) ∧ (cv.optA = .one → cv.a = 1)

/-- a well-formed operand: not the identity, affine points carry z = 1 -/
def Wf (p : Pt F) : Prop := p.z ≠ 0 ∧ (p.coord = .basic → p.z = 1) ∧ p.coord ≠ .halve

/-! ### auxiliary -/

/-- decision procedure for polynomial identities in characteristic two: everything on one side, normalise over ℤ,
    reduce the coefficients modulo 2 -/
local macro "char2_norm" : tactic => `(tactic| ((try ring_nf); (try reduce_mod_char!)))
local macro "char2" : tactic => `(tactic| (rw [← sub_eq_zero]; char2_norm))

theorem add_eq_zero_iff2 (a b : F) : a + b = 0 ↔ a = b := by
  rw [add_eq_zero_iff_eq_neg, CharTwo.neg_eq]

theorem add_ne_zero2 {a b : F} (h : a ≠ b) : a + b ≠ 0 := fun h0 => h ((add_eq_zero_iff2 a b).mp h0)

variable (slv srt : F → F) (trc : F → Bool)

theorem addA_eq (cv : CurveB F) (hcv : OptOk cv) (t : F) : addA (fieldOps slv srt trc) cv t = t + cv.a := by
  obtain ⟨a, b, o⟩ := cv
  obtain ⟨h0, h1⟩ := hcv
  cases o <;> simp only [addA, fieldOps]
  · simp only [forall_const] at h0; rw [h0, add_zero]
  · simp only [forall_const] at h1; rw [h1]

/-! ### affine formulas -/

theorem dblBasicImp_spec (cv : CurveB F) (hcv : OptOk cv) (p : Pt F) (hx : p.x ≠ 0) :
    let r := dblBasicImp (fieldOps slv srt trc) cv p
    r.coord = .basic ∧ r.z = p.z ∧ r.x = tangX cv.a p.x p.y ∧ r.y = tangY cv.a p.x p.y := by
  simp only [dblBasicImp, addA_eq slv srt trc cv hcv]
  simp only [fieldOps, tangX, tangY, tangL]
  refine ⟨trivial, trivial, ?_, ?_⟩
  · field_simp
    char2
  · field_simp
    char2

/-- P ≠ ±Q -/
theorem addBasicImp_chord (cv : CurveB F) (hcv : OptOk cv) (p q : Pt F) (hx : p.x ≠ q.x) :
    let r := addBasicImp (fieldOps slv srt trc) cv p q
    r.coord = .basic ∧ r.z = p.z ∧ r.x = chordX cv.a p.x p.y q.x q.y ∧ r.y = chordY cv.a p.x p.y q.x q.y := by
  have hs : p.x + q.x ≠ 0 := add_ne_zero2 hx
  simp only [addBasicImp, addA_eq slv srt trc cv hcv]
  simp only [fieldOps, decide_eq_true_eq, if_neg hs, chordX, chordY, chordL]
  refine ⟨trivial, trivial, ?_, ?_⟩
  · field_simp
    char2
  · field_simp
    char2

/-- P = Q: the doubling routine is called -/
theorem addBasicImp_same (cv : CurveB F) (p q : Pt F) (hx : p.x = q.x) (hy : p.y = q.y) :
    addBasicImp (fieldOps slv srt trc) cv p q = dblBasic (fieldOps slv srt trc) cv p := by
  have h1 : p.x + q.x = 0 := (add_eq_zero_iff2 _ _).mpr hx
  have h0 : p.y + q.y = 0 := (add_eq_zero_iff2 _ _).mpr hy
  simp only [addBasicImp]
  simp only [fieldOps, h1, h0, decide_true, if_true]

/-- same x, different y (on the curve: Q = -P): the identity -/
theorem addBasicImp_opp (cv : CurveB F) (p q : Pt F) (hx : p.x = q.x) (hy : p.y ≠ q.y) :
    isInfty (fieldOps slv srt trc) (addBasicImp (fieldOps slv srt trc) cv p q) = true := by
  have h1 : p.x + q.x = 0 := (add_eq_zero_iff2 _ _).mpr hx
  have h0 : p.y + q.y ≠ 0 := add_ne_zero2 hy
  simp only [addBasicImp]
  simp only [fieldOps, h1, decide_true, if_true, decide_eq_true_eq, if_neg h0, isInfty, infty]

theorem negBasic_spec (p : Pt F) (hz : p.z ≠ 0) :
    let r := negBasic (fieldOps slv srt trc) p
    r.coord = .basic ∧ r.z = p.z ∧ r.x = p.x ∧ r.y = p.x + p.y := by
  simp only [negBasic, isInfty, fieldOps, decide_eq_true_eq, if_neg hz]
  exact ⟨trivial, trivial, trivial, trivial⟩

/-- eb_dbl_basic: the identity and the point of order two (x = 0) double to the identity; otherwise the tangent formulas run -/
theorem dblBasic_order_two (cv : CurveB F) (p : Pt F) (hx : p.x = 0) :
    isInfty (fieldOps slv srt trc) (dblBasic (fieldOps slv srt trc) cv p) = true := by
  simp [dblBasic, isInfty, fieldOps, infty, hx]

theorem dblBasic_spec (cv : CurveB F) (hcv : OptOk cv) (p : Pt F) (hz : p.z ≠ 0) (hx : p.x ≠ 0) :
    let r := dblBasic (fieldOps slv srt trc) cv p
    r.coord = .basic ∧ r.z = p.z ∧ r.x = tangX cv.a p.x p.y ∧ r.y = tangY cv.a p.x p.y := by
  have h : dblBasic (fieldOps slv srt trc) cv p = dblBasicImp (fieldOps slv srt trc) cv p := by
    simp [dblBasic, isInfty, fieldOps, hz, hx]
  rw [h]
  exact dblBasicImp_spec slv srt trc cv hcv p hx

/-! ### López-Dahab projective formulas -/

/-- doubling, x ≠ 0 -/
theorem dblProjcImp_spec (cv : CurveB F) (hcv : OptOk cv) (p : Pt F) (hp : Wf p) (hx : affX p ≠ 0) :
    let r := dblProjcImp (fieldOps slv srt trc) cv p
    r.coord = .projc ∧ r.z ≠ 0 ∧ affX r = tangX cv.a (affX p) (affY p) ∧ affY r = tangY cv.a (affX p) (affY p) := by
  obtain ⟨x, y, z, c⟩ := p
  obtain ⟨a, b, o⟩ := cv
  obtain ⟨hz, hb, hh⟩ := hp
  obtain ⟨h0, h1⟩ := hcv
  simp only at hz hb hh h0 h1
  cases c
  · -- affine operand
    simp only [forall_const] at hb
    subst hb
    simp only [affX] at hx
    cases o <;>
      simp only [dblProjcImp, fieldOps, affX, affY, tangX, tangY, tangL, ne_eq, not_true_eq_false, if_false,
        reduceCtorEq, not_false_eq_true, if_true] <;>
      (try (simp only [forall_const] at h0; subst h0)) <;>
      (try (simp only [forall_const] at h1; subst h1)) <;>
      refine ⟨trivial, mul_ne_zero hx hx, ?_, ?_⟩ <;> field_simp <;> char2
  · -- López-Dahab operand
    have hx' : x ≠ 0 := by
      intro h; apply hx; simp only [affX, h, zero_div]
    have hxz : x * z ≠ 0 := mul_ne_zero hx' hz
    cases o <;>
      simp only [dblProjcImp, fieldOps, affX, affY, tangX, tangY, tangL, ne_eq, not_true_eq_false, if_false,
        reduceCtorEq, not_false_eq_true, if_true] <;>
      (try (simp only [forall_const] at h0; subst h0)) <;>
      (try (simp only [forall_const] at h1; subst h1)) <;>
      refine ⟨trivial, mul_ne_zero hxz hxz, ?_, ?_⟩ <;> field_simp <;> char2
  · exact absurd rfl hh

/-- doubling the point of order two (x = 0) gives the identity (Z = 0) -/
theorem dblProjcImp_order_two (cv : CurveB F) (p : Pt F) (hp : Wf p) (hx : affX p = 0) :
    (dblProjcImp (fieldOps slv srt trc) cv p).z = 0 := by
  obtain ⟨x, y, z, c⟩ := p
  obtain ⟨hz, hb, hh⟩ := hp
  simp only at hz hb hh
  cases c
  · simp only [affX] at hx
    subst hx
    simp only [dblProjcImp, fieldOps, ne_eq, not_true_eq_false, if_false, mul_zero]
  · have hx' : x = 0 := by
      simp only [affX] at hx
      rcases div_eq_zero_iff.mp hx with h | h
      · exact h
      · exact absurd h hz
    subst hx'
    simp only [dblProjcImp, fieldOps, ne_eq, reduceCtorEq, not_false_eq_true, if_true, zero_mul, mul_zero]
  · exact absurd rfl hh

/-- mixed addition (q affine), P ≠ ±Q -/
theorem addProjcMix_chord (cv : CurveB F) (hcv : OptOk cv) (p q : Pt F) (hp : Wf p) (hq : q.coord = .basic)
    (hx : affX p ≠ q.x) :
    let r := addProjcMix (fieldOps slv srt trc) cv p q
    r.coord = .projc ∧ r.z ≠ 0 ∧ affX r = chordX cv.a (affX p) (affY p) q.x q.y ∧
      affY r = chordY cv.a (affX p) (affY p) q.x q.y := by
  obtain ⟨x, y, z, c⟩ := p
  obtain ⟨qx, qy, qz, qc⟩ := q
  obtain ⟨a, b, o⟩ := cv
  obtain ⟨hz, hb, hh⟩ := hp
  obtain ⟨h0, h1⟩ := hcv
  simp only at hz hb hh h0 h1 hq ⊢
  cases c
  · -- affine operand
    simp only [forall_const] at hb
    subst hb
    simp only [affX] at hx
    have hs : x + qx ≠ 0 := add_ne_zero2 hx
    cases o <;>
      simp only [addProjcMix, fieldOps, affX, affY, chordX, chordY, chordL, ne_eq, not_true_eq_false, if_false,
        reduceCtorEq, not_false_eq_true, if_true, decide_eq_true_eq, if_neg hs] <;>
      (try (simp only [forall_const] at h0; subst h0)) <;>
      (try (simp only [forall_const] at h1; subst h1)) <;>
      refine ⟨trivial, mul_ne_zero hs hs, ?_, ?_⟩ <;> field_simp <;> char2
  · -- López-Dahab operand
    have hs : z * qx + x ≠ 0 := by
      intro h
      apply hx
      simp only [affX]
      field_simp
      exact ((add_eq_zero_iff2 _ _).mp h).symm
    have hzs : z * (z * qx + x) ≠ 0 := mul_ne_zero hz hs
    have hd : x / z + qx = (z * qx + x) / z := by field_simp; ring
    have hn : y / z ^ 2 + qy = (z * z * qy + y) / z ^ 2 := by field_simp; ring
    cases o <;>
      simp only [addProjcMix, fieldOps, affX, affY, chordX, chordY, chordL, ne_eq, not_true_eq_false, if_false,
        reduceCtorEq, not_false_eq_true, if_true, decide_eq_true_eq, if_neg hs, hd, hn] <;>
      (try (simp only [forall_const] at h0; subst h0)) <;>
      (try (simp only [forall_const] at h1; subst h1)) <;>
      refine ⟨trivial, mul_ne_zero hzs hzs, ?_, ?_⟩ <;> field_simp <;> char2
  · exact absurd rfl hh

theorem addProjcMix_same (cv : CurveB F) (p q : Pt F) (hp : Wf p) (hq : q.coord = .basic)
    (hx : affX p = q.x) (hy : affY p = q.y) :
    addProjcMix (fieldOps slv srt trc) cv p q = { dblProjc (fieldOps slv srt trc) cv p with coord := .projc } := by
  obtain ⟨x, y, z, c⟩ := p
  obtain ⟨qx, qy, qz, qc⟩ := q
  obtain ⟨hz, hb, hh⟩ := hp
  simp only at hz hb hh hq
  cases c
  · simp only [affX, affY] at hx hy
    have h1 : x + qx = 0 := (add_eq_zero_iff2 _ _).mpr hx
    have h0 : y + qy = 0 := (add_eq_zero_iff2 _ _).mpr hy
    simp only [addProjcMix, fieldOps, ne_eq, not_true_eq_false, if_false, h1, h0, decide_true, if_true]
  · simp only [affX, affY] at hx hy
    have h1 : z * qx + x = 0 := by
      rw [← hx]; field_simp; char2
    have h0 : z * z * qy + y = 0 := by
      rw [← hy]; field_simp; char2
    simp only [addProjcMix, fieldOps, ne_eq, reduceCtorEq, not_false_eq_true, if_true, h1, h0, decide_true]
  · exact absurd rfl hh

theorem addProjcMix_opp (cv : CurveB F) (p q : Pt F) (hp : Wf p) (hq : q.coord = .basic)
    (hx : affX p = q.x) (hy : affY p ≠ q.y) :
    isInfty (fieldOps slv srt trc) (addProjcMix (fieldOps slv srt trc) cv p q) = true := by
  obtain ⟨x, y, z, c⟩ := p
  obtain ⟨qx, qy, qz, qc⟩ := q
  obtain ⟨hz, hb, hh⟩ := hp
  simp only at hz hb hh hq
  cases c
  · simp only [affX, affY] at hx hy
    have h1 : x + qx = 0 := (add_eq_zero_iff2 _ _).mpr hx
    have h0 : y + qy ≠ 0 := add_ne_zero2 hy
    simp only [addProjcMix, fieldOps, ne_eq, not_true_eq_false, if_false, h1, decide_true, if_true,
      decide_eq_true_eq, if_neg h0, isInfty, infty]
  · simp only [affX, affY] at hx hy
    have h1 : z * qx + x = 0 := by
      rw [← hx]; field_simp; char2
    have h0 : z * z * qy + y ≠ 0 := by
      intro h
      apply hy
      field_simp
      rw [pow_two]
      exact ((add_eq_zero_iff2 _ _).mp h).symm
    simp only [addProjcMix, fieldOps, ne_eq, reduceCtorEq, not_false_eq_true, if_true, h1, decide_true,
      decide_eq_true_eq, if_neg h0, isInfty, infty]
  · exact absurd rfl hh

/-- two points with different x on the same curve: the chord slope l parametrises y1, y2 -/
theorem chord_param (a b x1 y1 x2 y2 : F) (hx : x1 ≠ x2)
    (h1 : y1 ^ 2 + x1 * y1 = x1 ^ 3 + a * x1 ^ 2 + b) (h2 : y2 ^ 2 + x2 * y2 = x2 ^ 3 + a * x2 ^ 2 + b) :
    ∃ l, chordL x1 y1 x2 y2 = l ∧ y2 = l * (x1 + x2) + y1 ∧
      y1 = l ^ 2 * (x1 + x2) + l * x2 + x1 ^ 2 + x1 * x2 + x2 ^ 2 + a * (x1 + x2) := by
  have hs : x1 + x2 ≠ 0 := add_ne_zero2 hx
  refine ⟨chordL x1 y1 x2 y2, rfl, ?_, ?_⟩
  · simp only [chordL]
    field_simp
    char2
  · have hl : chordL x1 y1 x2 y2 * (x1 + x2) = y1 + y2 := by
      simp only [chordL]; field_simp
    generalize chordL x1 y1 x2 y2 = l at hl ⊢
    have hy2 : y2 = l * (x1 + x2) + y1 := by
      linear_combination (norm := char2_norm) hl
    subst hy2
    have hm : (x1 + x2) * (y1 + (l ^ 2 * (x1 + x2) + l * x2 + x1 ^ 2 + x1 * x2 + x2 ^ 2 + a * (x1 + x2))) = 0 := by
      linear_combination (norm := char2_norm) h1 + h2
    rcases mul_eq_zero.mp hm with h | h
    · exact absurd h hs
    · exact (add_eq_zero_iff2 _ _).mp h

/-- general addition (q projective), P ≠ ±Q.
    CORRECTED STATEMENT: the two on-curve hypotheses `hpon`, `hqon` are added. eb_add_projc_imp (general case) uses the
    Higuchi–Takagi form X3 = A1 (A0² + B0) + A0 (A1² + B1), which does not mention the coefficient a and agrees with the
    chord law only for two points of the same curve. Counterexample to the statement without them: F = GF(2), a = 0,
    p = (0, 0, 1) and q = (1, 0, 1) (both PROJC): the routine returns X3/Z3 = 0 while chordX 0 0 0 1 0 = 1. -/
theorem addProjcImp_chord (cv : CurveB F) (hcv : OptOk cv) (p q : Pt F) (hp : Wf p) (hq : Wf q) (hqc : q.coord = .projc)
    (hx : affX p ≠ affX q)
    (hpon : affY p ^ 2 + affX p * affY p = affX p ^ 3 + cv.a * affX p ^ 2 + cv.b)
    (hqon : affY q ^ 2 + affX q * affY q = affX q ^ 3 + cv.a * affX q ^ 2 + cv.b) :
    let r := addProjcImp (fieldOps slv srt trc) cv p q
    r.coord = .projc ∧ r.z ≠ 0 ∧ affX r = chordX cv.a (affX p) (affY p) (affX q) (affY q) ∧
      affY r = chordY cv.a (affX p) (affY p) (affX q) (affY q) := by
  obtain ⟨l, hl, hy2, hy1⟩ := chord_param _ _ _ _ _ _ hx hpon hqon
  obtain ⟨X1, Y1, Z1, c⟩ := p
  obtain ⟨X2, Y2, Z2, qc⟩ := q
  obtain ⟨hz1, hb, hh⟩ := hp
  obtain ⟨hz2, -, -⟩ := hq
  simp only at hz1 hb hh hz2 hqc
  subst hqc
  have hs : affX (⟨X1, Y1, Z1, c⟩ : Pt F) + affX (⟨X2, Y2, Z2, .projc⟩ : Pt F) ≠ 0 := add_ne_zero2 hx
  simp only [chordX, chordY, hl]
  clear hl hpon hqon hx
  obtain ⟨x2, rfl⟩ : ∃ x2, X2 = x2 * Z2 := ⟨X2 / Z2, by field_simp⟩
  obtain ⟨y2, rfl⟩ : ∃ y2, Y2 = y2 * Z2 ^ 2 := ⟨Y2 / Z2 ^ 2, by field_simp⟩
  have ex2 : affX (⟨x2 * Z2, y2 * Z2 ^ 2, Z2, .projc⟩ : Pt F) = x2 := by simp only [affX]; field_simp
  have ey2 : affY (⟨x2 * Z2, y2 * Z2 ^ 2, Z2, .projc⟩ : Pt F) = y2 := by simp only [affY]; field_simp
  simp only [ex2, ey2] at hs hy2 hy1 ⊢
  clear ex2 ey2
  cases c
  · -- affine first operand
    simp only [forall_const] at hb
    subst hb
    simp only [affX, affY] at hs hy2 hy1 ⊢
    have key : ∀ rz : F, rz = Z2 ^ 3 * (X1 + x2) ^ 2 → rz ≠ 0 := fun rz h =>
      h ▸ mul_ne_zero (pow_ne_zero 3 hz2) (pow_ne_zero 2 hs)
    have ht : X1 * Z2 + x2 * Z2 * 1 ≠ 0 := by
      have : X1 * Z2 + x2 * Z2 * 1 = (X1 + x2) * Z2 := by ring
      rw [this]; exact mul_ne_zero hs hz2
    simp only [addProjcImp, fieldOps, reduceCtorEq, if_false, decide_eq_true_eq, if_neg ht, affX, affY]
    refine ⟨trivial, key _ (by char2), ?_, ?_⟩
    · refine (div_eq_iff (key _ (by char2))).mpr ?_
      subst hy2
      subst hy1
      char2
    · refine (div_eq_iff (pow_ne_zero 2 (key _ (by char2)))).mpr ?_
      subst hy2
      subst hy1
      char2
  · -- López-Dahab first operand
    obtain ⟨x1, rfl⟩ : ∃ x1, X1 = x1 * Z1 := ⟨X1 / Z1, by field_simp⟩
    obtain ⟨y1, rfl⟩ : ∃ y1, Y1 = y1 * Z1 ^ 2 := ⟨Y1 / Z1 ^ 2, by field_simp⟩
    have ex1 : affX (⟨x1 * Z1, y1 * Z1 ^ 2, Z1, .projc⟩ : Pt F) = x1 := by simp only [affX]; field_simp
    have ey1 : affY (⟨x1 * Z1, y1 * Z1 ^ 2, Z1, .projc⟩ : Pt F) = y1 := by simp only [affY]; field_simp
    simp only [ex1, ey1] at hs hy2 hy1 ⊢
    clear ex1 ey1
    have key : ∀ rz : F, rz = (Z1 * Z2) ^ 3 * (x1 + x2) ^ 2 → rz ≠ 0 := fun rz h =>
      h ▸ mul_ne_zero (pow_ne_zero 3 (mul_ne_zero hz1 hz2)) (pow_ne_zero 2 hs)
    have ht : x1 * Z1 * Z2 + x2 * Z2 * Z1 ≠ 0 := by
      have : x1 * Z1 * Z2 + x2 * Z2 * Z1 = (x1 + x2) * (Z1 * Z2) := by ring
      rw [this]; exact mul_ne_zero hs (mul_ne_zero hz1 hz2)
    simp only [addProjcImp, fieldOps, reduceCtorEq, if_false, decide_eq_true_eq, if_neg ht, affX, affY]
    refine ⟨trivial, key _ (by char2), ?_, ?_⟩
    · refine (div_eq_iff (key _ (by char2))).mpr ?_
      subst hy2
      subst hy1
      char2
    · refine (div_eq_iff (pow_ne_zero 2 (key _ (by char2)))).mpr ?_
      subst hy2
      subst hy1
      char2
  · exact absurd rfl hh

theorem addProjcImp_same (cv : CurveB F) (p q : Pt F) (hp : Wf p) (hq : Wf q) (hqc : q.coord = .projc)
    (hx : affX p = affX q) (hy : affY p = affY q) :
    addProjcImp (fieldOps slv srt trc) cv p q = { dblProjc (fieldOps slv srt trc) cv p with coord := .projc } := by
  obtain ⟨X1, Y1, Z1, c⟩ := p
  obtain ⟨X2, Y2, Z2, qc⟩ := q
  obtain ⟨hz1, hb, hh⟩ := hp
  obtain ⟨hz2, -, -⟩ := hq
  simp only at hz1 hb hh hz2 hqc
  subst hqc
  cases c
  · simp only [forall_const] at hb
    subst hb
    simp only [affX, affY] at hx hy
    subst hx
    subst hy
    have h2 : X2 / Z2 * Z2 + X2 * 1 = 0 := by field_simp; char2
    have h6 : Z2 * Z2 * (Y2 / Z2 ^ 2) + 1 * 1 * Y2 = 0 := by field_simp; char2
    simp only [addProjcImp, fieldOps, reduceCtorEq, if_false, h2, h6, decide_true, if_true]
  · simp only [affX, affY] at hx hy
    have h2 : X1 * Z2 + X2 * Z1 = 0 := by
      rw [div_eq_div_iff hz1 hz2] at hx
      rw [hx]; char2
    have h6 : Z2 * Z2 * Y1 + Z1 * Z1 * Y2 = 0 := by
      rw [div_eq_div_iff (pow_ne_zero 2 hz1) (pow_ne_zero 2 hz2)] at hy
      linear_combination (norm := char2_norm) hy
    simp only [addProjcImp, fieldOps, reduceCtorEq, if_false, h2, h6, decide_true, if_true]
  · exact absurd rfl hh

theorem addProjcImp_opp (cv : CurveB F) (p q : Pt F) (hp : Wf p) (hq : Wf q) (hqc : q.coord = .projc)
    (hx : affX p = affX q) (hy : affY p ≠ affY q) :
    isInfty (fieldOps slv srt trc) (addProjcImp (fieldOps slv srt trc) cv p q) = true := by
  obtain ⟨X1, Y1, Z1, c⟩ := p
  obtain ⟨X2, Y2, Z2, qc⟩ := q
  obtain ⟨hz1, hb, hh⟩ := hp
  obtain ⟨hz2, -, -⟩ := hq
  simp only at hz1 hb hh hz2 hqc
  subst hqc
  cases c
  · simp only [forall_const] at hb
    subst hb
    simp only [affX, affY] at hx hy
    subst hx
    have h2 : X2 / Z2 * Z2 + X2 * 1 = 0 := by field_simp; char2
    have h6 : Z2 * Z2 * Y1 + 1 * 1 * Y2 ≠ 0 := by
      intro h
      apply hy
      rw [eq_div_iff (pow_ne_zero 2 hz2)]
      linear_combination (norm := char2_norm) h
    simp only [addProjcImp, fieldOps, reduceCtorEq, if_false, h2, decide_true, if_true, decide_eq_true_eq,
      if_neg h6, isInfty, infty]
  · simp only [affX, affY] at hx hy
    have h2 : X1 * Z2 + X2 * Z1 = 0 := by
      rw [div_eq_div_iff hz1 hz2] at hx
      rw [hx]; char2
    have h6 : Z2 * Z2 * Y1 + Z1 * Z1 * Y2 ≠ 0 := by
      intro h
      apply hy
      rw [div_eq_div_iff (pow_ne_zero 2 hz1) (pow_ne_zero 2 hz2)]
      linear_combination (norm := char2_norm) h
    simp only [addProjcImp, fieldOps, reduceCtorEq, if_false, h2, decide_true, if_true, decide_eq_true_eq,
      if_neg h6, isInfty, infty]
  · exact absurd rfl hh

theorem negProjc_spec (p : Pt F) (hp : Wf p) :
    let r := negProjc (fieldOps slv srt trc) p
    Wf r ∧ affX r = affX p ∧ affY r = affX p + affY p := by
  obtain ⟨x, y, z, c⟩ := p
  obtain ⟨hz, hb, hh⟩ := hp
  simp only at hz hb hh
  cases c
  · simp only [negProjc, isInfty, fieldOps, decide_eq_true_eq, if_neg hz, if_true, affX, affY, Wf]
    exact ⟨⟨hz, fun _ => hb rfl, hh⟩, trivial, trivial⟩
  · simp only [negProjc, isInfty, fieldOps, decide_eq_true_eq, if_neg hz, reduceCtorEq, if_false, affX, affY, Wf]
    refine ⟨⟨hz, fun h => absurd h (by decide), by decide⟩, trivial, ?_⟩
    field_simp
    char2
  · exact absurd rfl hh

/-- identity operands -/
theorem addProjc_infty_left (cv : CurveB F) (p q : Pt F) (hp : p.z = 0) :
    addProjc (fieldOps slv srt trc) cv p q = q := by
  simp only [addProjc, isInfty, fieldOps, hp, decide_true, if_true]

theorem addProjc_infty_right (cv : CurveB F) (p q : Pt F) (hp : p.z ≠ 0) (hq : q.z = 0) :
    addProjc (fieldOps slv srt trc) cv p q = p := by
  simp only [addProjc, isInfty, fieldOps, decide_eq_true_eq, if_neg hp, hq, if_true]

/-! ### normalisation, Frobenius -/

theorem norm_spec (p : Pt F) (hz : p.z ≠ 0) (hb : p.coord = .basic → p.z = 1) :
    let r := norm (fieldOps slv srt trc) p
    r.coord = .basic ∧ r.x = affX p ∧ r.y = affY p ∧ r.z = 1 := by
  obtain ⟨x, y, z, c⟩ := p
  simp only at hz hb
  cases c
  · simp only [forall_const] at hb
    simp only [norm, isInfty, fieldOps, decide_eq_true_eq, if_neg hz, affX, affY]
    exact ⟨trivial, trivial, trivial, hb⟩
  · simp only [norm, isInfty, fieldOps, decide_eq_true_eq, if_neg hz, affX, affY]
    refine ⟨trivial, ?_, ?_, trivial⟩
    · field_simp
    · field_simp
  · simp only [norm, isInfty, fieldOps, decide_eq_true_eq, if_neg hz, affX, affY]
    exact ⟨trivial, trivial, trivial, trivial⟩

/-- the identity normalises to the identity -/
theorem norm_infty (p : Pt F) (hz : p.z = 0) :
    isInfty (fieldOps slv srt trc) (norm (fieldOps slv srt trc) p) = true := by
  simp [norm, isInfty, fieldOps, infty, hz]

/-- the Frobenius map squares the affine coordinates -/
theorem frb_spec (p : Pt F) (hp : Wf p) :
    let r := frb (fieldOps slv srt trc) p
    Wf r ∧ affX r = affX p ^ 2 ∧ affY r = affY p ^ 2 := by
  obtain ⟨x, y, z, c⟩ := p
  obtain ⟨hz, hb, hh⟩ := hp
  simp only at hz hb hh
  cases c
  · simp only [frb, isInfty, fieldOps, decide_eq_true_eq, if_neg hz, ne_eq, not_true_eq_false, if_false, affX, affY, Wf]
    exact ⟨⟨one_ne_zero, fun _ => trivial, hh⟩, by ring, by ring⟩
  · simp only [frb, isInfty, fieldOps, decide_eq_true_eq, if_neg hz, ne_eq, reduceCtorEq, not_false_eq_true, if_true,
      affX, affY, Wf]
    refine ⟨⟨mul_ne_zero hz hz, fun h => absurd h (by decide), by decide⟩, ?_, ?_⟩
    · field_simp
    · field_simp
  · exact absurd rfl hh

/-- on a Koblitz curve (a, b ∈ GF(2), i.e. a² = a, b² = b) the Frobenius image of a curve point is a curve point -/
theorem frb_on_curve (a b x y : F) (ha : a ^ 2 = a) (hb : b ^ 2 = b) (h : y ^ 2 + x * y = x ^ 3 + a * x ^ 2 + b) :
    (y ^ 2) ^ 2 + x ^ 2 * y ^ 2 = (x ^ 2) ^ 3 + a * (x ^ 2) ^ 2 + b := by
  linear_combination (norm := char2_norm) (y ^ 2 + x * y + x ^ 3 + a * x ^ 2 + b) * h + x ^ 4 * ha + hb

/-! ### point halving inverts doubling -/

/-- the tangent slope at a point in λ-representation is its λ -/
theorem tangL_lambda (u l : F) (hu : u ≠ 0) : tangL u ((u + l) * u) = l := by
  simp only [tangL]
  field_simp
  char2

/-- P = (x, y) presented affine or in λ-representation; λ̂ = slv(x + a) solves λ̂² + λ̂ = x + a and srt is a square root:
    the result Q = (u, λ_Q) (λ-representation) satisfies 2Q = P, whichever branch of the trace test is taken -/
theorem hlv_spec (cv : CurveB F) (hcv : OptOk cv) (p : Pt F) (hz : p.z ≠ 0) (hc : p.coord ≠ .projc)
    (hslv : slv (affX p + cv.a) ^ 2 + slv (affX p + cv.a) = affX p + cv.a)
    (hsrt : ∀ t, srt t ^ 2 = t) :
    let r := hlv (fieldOps slv srt trc) cv p
    r.coord = .halve ∧ r.z = 1 ∧
      (affX r ≠ 0 → tangX cv.a (affX r) (affY r) = affX p ∧ tangY cv.a (affX r) (affY r) = affY p) := by
  have hh : hlv (fieldOps slv srt trc) cv p = hlvImp (fieldOps slv srt trc) cv p := by
    simp [hlv, isInfty, fieldOps, hz]
  rw [hh]
  obtain ⟨x, y, z, c⟩ := p
  simp only at hc hz
  cases c
  · -- affine operand
    simp only [affX] at hslv
    simp only [hlvImp, addA_eq slv srt trc cv hcv]
    generalize hl : slv (x + cv.a) = l at hslv
    simp only [fieldOps, if_true, affY, hl]
    cases trc (l * x + y)
    · simp only [Bool.not_false, if_true, affX, affY]
      refine ⟨trivial, trivial, fun hu => ?_⟩
      simp only [tangX, tangY, tangL_lambda _ _ hu, hsrt]
      constructor
      · linear_combination (norm := char2_norm) hslv
      · linear_combination (norm := char2_norm) (l + 1) * hslv
    · simp only [Bool.not_true, Bool.false_eq_true, if_false, affX, affY]
      refine ⟨trivial, trivial, fun hu => ?_⟩
      simp only [tangX, tangY, tangL_lambda _ _ hu, hsrt]
      constructor
      · linear_combination (norm := char2_norm) hslv
      · linear_combination (norm := char2_norm) l * hslv
  · exact absurd rfl hc
  · -- λ-representation
    simp only [affX] at hslv
    simp only [hlvImp, addA_eq slv srt trc cv hcv]
    generalize hl : slv (x + cv.a) = l at hslv
    simp only [fieldOps, reduceCtorEq, if_false, affY, hl]
    cases trc ((l + y + x) * x)
    · simp only [Bool.not_false, if_true, affX, affY]
      refine ⟨trivial, trivial, fun hu => ?_⟩
      simp only [tangX, tangY, tangL_lambda _ _ hu, hsrt]
      constructor
      · linear_combination (norm := char2_norm) hslv
      · linear_combination (norm := char2_norm) (l + 1) * hslv
    · simp only [Bool.not_true, Bool.false_eq_true, if_false, affX, affY]
      refine ⟨trivial, trivial, fun hu => ?_⟩
      simp only [tangX, tangY, tangL_lambda _ _ hu, hsrt]
      constructor
      · linear_combination (norm := char2_norm) hslv
      · linear_combination (norm := char2_norm) l * hslv

/-- eb_hlv of the identity is the identity -/
theorem hlv_infty (cv : CurveB F) (p : Pt F) (hz : p.z = 0) :
    isInfty (fieldOps slv srt trc) (hlv (fieldOps slv srt trc) cv p) = true := by
  simp [hlv, isInfty, fieldOps, infty, hz]

/-- the doubling formulas keep a point on the curve (x ≠ 0) -/
theorem tang_on_curve (a b x y : F) (hx : x ≠ 0) (h : y ^ 2 + x * y = x ^ 3 + a * x ^ 2 + b) :
    tangY a x y ^ 2 + tangX a x y * tangY a x y = tangX a x y ^ 3 + a * tangX a x y ^ 2 + b := by
  have hl : tangL x y * x = x ^ 2 + y := by simp only [tangL]; field_simp
  simp only [tangX, tangY]
  generalize tangL x y = l at hl ⊢
  have hy : y = l * x + x ^ 2 := by linear_combination (norm := char2_norm) hl
  subst hy
  have hb : b = (l * x + x ^ 2) ^ 2 + x * (l * x + x ^ 2) + x ^ 3 + a * x ^ 2 := by
    linear_combination (norm := char2_norm) h
  subst hb
  char2

/-- the chord formulas keep points on the curve (x1 ≠ x2) -/
theorem chord_on_curve (a b x1 y1 x2 y2 : F) (hx : x1 ≠ x2)
    (h1 : y1 ^ 2 + x1 * y1 = x1 ^ 3 + a * x1 ^ 2 + b) (h2 : y2 ^ 2 + x2 * y2 = x2 ^ 3 + a * x2 ^ 2 + b) :
    chordY a x1 y1 x2 y2 ^ 2 + chordX a x1 y1 x2 y2 * chordY a x1 y1 x2 y2 =
      chordX a x1 y1 x2 y2 ^ 3 + a * chordX a x1 y1 x2 y2 ^ 2 + b := by
  obtain ⟨l, hl, hy2, hy1⟩ := chord_param a b x1 y1 x2 y2 hx h1 h2
  simp only [chordX, chordY, hl]
  clear hl h2
  subst hy2
  have hb : b = y1 ^ 2 + x1 * y1 + x1 ^ 3 + a * x1 ^ 2 := by
    linear_combination (norm := char2_norm) h1
  subst hb
  clear h1
  generalize hm : l ^ 2 * (x1 + x2) + l * x2 + x1 ^ 2 + x1 * x2 + x2 ^ 2 + a * (x1 + x2) = m at hy1
  subst hy1
  subst hm
  char2

end Relic.Lemmas.EbFormulas
