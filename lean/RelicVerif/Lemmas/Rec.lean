/-
Scalar recodings (Model/Rec.lean): every recoding represents exactly the input integer, using only the
digits, length and sparsity its contract promises.
-/
import RelicVerif.Model.Rec

namespace Relic.Model.Rec

/-- Horner value of a sliding-window string (most significant first): a zero digit doubles, a window digit
    d shifts by bitLen d and adds d — exactly what the exponentiation / multiplication loops do -/
def evalSlw (ds : List Int) : Int :=
  ds.foldl (fun acc d => if d = 0 then 2 * acc else acc * 2 ^ (bitLen d.toNat) + d) 0

theorem bitLen_spec (n : Nat) (h : 0 < n) : 2 ^ (bitLen n - 1) ≤ n ∧ n < 2 ^ bitLen n := by
  sorry

/-- fixed windows: radix-2^w digits of k -/
theorem recWin_spec (cap k w : Nat) (hw : 0 < w) (hk : 0 < k) (ds : List Int) (h : recWin cap k w = some ds) :
    eval w ds = k ∧ (∀ d ∈ ds, 0 ≤ d ∧ d < 2 ^ w) ∧ ds.length = (bitLen k + w - 1) / w ∧ ds.length ≤ cap := by
  sorry

/-- sliding windows: value k, every non-zero digit odd and below 2^w -/
theorem recSlw_spec (cap k w : Nat) (hw : 0 < w) (ds : List Int) (h : recSlw cap k w = some ds) :
    evalSlw ds = k ∧ (∀ d ∈ ds, d = 0 ∨ (d % 2 = 1 ∧ 0 < d ∧ d < 2 ^ w)) ∧ ds.length ≤ bitLen k ∧ ds.length ≤ cap := by
  sorry

/-- width-w NAF: value k, digits zero or odd with |d| < 2^(w-1), at most one non-zero digit among any w
    consecutive ones, at most bitLen k + 1 digits -/
theorem recNaf_spec (cap k w : Nat) (hw : 2 ≤ w) (ds : List Int) (h : recNaf cap k w = some ds) :
    eval 1 ds = k ∧ (∀ d ∈ ds, d = 0 ∨ (d % 2 ≠ 0 ∧ d.natAbs < 2 ^ (w - 1))) ∧
    (∀ i, (((ds.drop i).take w).countP (· ≠ 0)) ≤ 1) ∧ ds.length ≤ bitLen k + 1 ∧ ds.length ≤ cap := by
  sorry

/-- regular recoding of an odd k < 2^n: exactly ⌈n/(w-1)⌉ + 1 digits in radix 2^(w-1), all of the first
    ⌈n/(w-1)⌉ odd with |d| < 2^(w-1), the last one 0 or 1, value k -/
theorem recReg_spec (cap k n w : Nat) (hw : 2 ≤ w) (hodd : k % 2 = 1) (hk : k < 2 ^ n) (ds : List Int)
    (h : recReg cap k n w = some ds) :
    eval (w - 1) ds = k ∧ ds.length = (n + (w - 1) - 1) / (w - 1) + 1 ∧
    (∀ d ∈ ds.take ((n + (w - 1) - 1) / (w - 1)), d % 2 ≠ 0 ∧ d.natAbs < 2 ^ (w - 1)) ∧
    (ds.getLast? = some 0 ∨ ds.getLast? = some 1) ∧ ds.length ≤ cap := by
  sorry

/-- the length of the regular recoding depends only on n and w, never on k (used by C20) -/
theorem recReg_length_indep (cap k k' n w : Nat) (ds ds' : List Int)
    (h : recReg cap k n w = some ds) (h' : recReg cap k' n w = some ds') : ds.length = ds'.length := by
  sorry

/-- joint sparse form: both rows represent their scalars with digits in {-1, 0, 1} -/
theorem recJsf_spec (cap k l : Nat) (a0 a1 : List Int) (h : recJsf cap k l = some (a0, a1)) :
    eval 1 a0 = k ∧ eval 1 a1 = l ∧ (∀ d ∈ a0, d.natAbs ≤ 1) ∧ (∀ d ∈ a1, d.natAbs ≤ 1) ∧ a0.length = a1.length ∧
    a0.length ≤ max (bitLen k) (bitLen l) + 1 := by
  sorry

end Relic.Model.Rec
