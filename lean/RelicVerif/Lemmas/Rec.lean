/-
Scalar recodings (Model/Rec.lean): every recoding represents exactly the input integer, using only the
digits, length and sparsity its contract promises.
-/
import RelicVerif.Model.Rec

namespace Relic.Model.Rec

/-- Horner value of a sliding-window string (most significant first): a zero digit doubles, a window digit
    d shifts by bitLen d and adds d — exactly what the exponentiation / multiplication loops do -/
def evalSlw (ds : List Int) : Int :=
  ds.foldl (fun acc d => if d = 0 then 2 * acc else acc * 2 ^ (bitLen d.toNat) + d) 0

theorem bitLen_spec (n : Nat) (h : 0 < n) : 2 ^ (bitLen n - 1) ≤ n ∧ n < 2 ^ bitLen n := by
  have hn : n ≠ 0 := by omega
  simp only [bitLen, if_neg hn, Nat.add_sub_cancel]
  exact ⟨Nat.log2_self_le hn, Nat.lt_log2_self⟩

theorem bitLen_eq_of_bounds {n b : Nat} (h1 : 2 ^ b ≤ n) (h2 : n < 2 ^ (b + 1)) : bitLen n = b + 1 := by
  have hn : n ≠ 0 := by
    have := Nat.two_pow_pos b; omega
  simp only [bitLen, if_neg hn]
  rw [(Nat.log2_eq_iff hn).2 ⟨h1, h2⟩]

theorem lt_two_pow_bitLen (n : Nat) : n < 2 ^ bitLen n := by
  rcases Nat.eq_zero_or_pos n with h | h
  · subst h; simp [bitLen]
  · exact (bitLen_spec n h).2

theorem bitLen_pos {n : Nat} (h : 0 < n) : 0 < bitLen n := by
  have hn : n ≠ 0 := by omega
  simp [bitLen, hn]

@[simp] theorem eval_nil (s : Nat) : eval s [] = 0 := rfl
@[simp] theorem eval_cons (s : Nat) (d : Int) (ds : List Int) : eval s (d :: ds) = d + 2 ^ s * eval s ds := rfl

theorem eval_append (s : Nat) (a b : List Int) :
    eval s (a ++ b) = eval s a + 2 ^ (s * a.length) * eval s b := by
  induction a with
  | nil => simp
  | cons d a ih =>
    simp only [List.cons_append, eval_cons, ih, List.length_cons, Nat.mul_succ, Int.pow_add]
    grind

theorem getBits_eq (k f t : Nat) : getBits k f t = (k / 2 ^ f) % 2 ^ (t + 1 - f) := by
  simp [getBits, Nat.shiftRight_eq_div_pow]

theorem eval_win_aux (k w cnt : Nat) :
    eval w ((List.range cnt).map (fun j => (((k / 2 ^ (j * w)) % 2 ^ w : Nat) : Int)) ++
      [((k / 2 ^ (cnt * w) : Nat) : Int)]) = k := by
  induction cnt with
  | zero => simp
  | succ c ih =>
    rw [eval_append] at ih
    rw [List.range_succ, List.map_append, List.append_assoc, eval_append]
    simp only [List.length_map, List.length_range, eval_cons, eval_nil, List.map_cons, List.map_nil,
      List.cons_append, List.nil_append, Int.mul_zero, Int.add_zero] at ih ⊢
    have e : k / 2 ^ ((c + 1) * w) = k / 2 ^ (c * w) / 2 ^ w := by
      rw [Nat.div_div_eq_div_mul, ← Nat.pow_add, Nat.add_mul, Nat.one_mul]
    have := Nat.mod_add_div (k / 2 ^ (c * w)) (2 ^ w)
    rw [e]
    have e2 : ((k / 2 ^ (c * w) % 2 ^ w : Nat) : Int) + 2 ^ w * ((k / 2 ^ (c * w) / 2 ^ w : Nat) : Int)
        = ((k / 2 ^ (c * w) : Nat) : Int) := by
      exact_mod_cast this
    rw [e2]; exact ih

theorem recWin_spec (cap k w : Nat) (hw : 0 < w) (hk : 0 < k) (ds : List Int) (h : recWin cap k w = some ds) :
    eval w ds = k ∧ (∀ d ∈ ds, 0 ≤ d ∧ d < 2 ^ w) ∧ ds.length = (bitLen k + w - 1) / w ∧ ds.length ≤ cap := by
  obtain ⟨hl1, hl2⟩ := bitLen_spec k hk
  have hlpos := bitLen_pos hk
  generalize hl : bitLen k = l at *
  unfold recWin at h
  simp only [hl] at h
  split at h
  · exact absurd h (by simp)
  rename_i hcap
  have hcnt : (if l ≤ w then 0 else (l - w + w - 1) / w) = (l - 1) / w := by
    split
    · rw [Nat.div_eq_of_lt (by omega)]
    · congr 1; omega
  rw [hcnt] at h
  generalize hc : (l - 1) / w = cnt at *
  have hlen : (l + w - 1) / w = cnt + 1 := by
    rw [show l + w - 1 = (l - 1) + w by omega, Nat.add_div_right _ hw, hc]
  have hcw : cnt * w ≤ l - 1 := by rw [← hc]; exact Nat.div_mul_le_self _ _
  have hcw2 : l - 1 < cnt * w + w := by
    rw [← hc]
    have := Nat.lt_div_mul_add (a := l - 1) hw
    have := Nat.div_add_mod (l - 1) w
    have := Nat.mod_lt (l - 1) hw
    rw [Nat.mul_comm]; omega
  have hbody : (List.range cnt).map (fun j => (getBits k (j * w) (j * w + w - 1) : Int))
      = (List.range cnt).map (fun j => (((k / 2 ^ (j * w)) % 2 ^ w : Nat) : Int)) := by
    apply List.map_congr_left
    intro j _
    rw [getBits_eq, show j * w + w - 1 + 1 - j * w = w by omega]
  have hkl : k / 2 ^ (cnt * w) < 2 ^ (l - cnt * w) := by
    rw [Nat.div_lt_iff_lt_mul (Nat.two_pow_pos _), ← Nat.pow_add]
    rwa [show l - cnt * w + cnt * w = l by omega]
  have hlast : getBits k (cnt * w) (l - 1) = k / 2 ^ (cnt * w) := by
    rw [getBits_eq, show l - 1 + 1 - cnt * w = l - cnt * w by omega]
    exact Nat.mod_eq_of_lt hkl
  rw [hbody, hlast] at h
  simp only [Option.some.injEq] at h
  subst h
  refine ⟨eval_win_aux k w cnt, ?_, ?_, ?_⟩
  · intro d hd
    simp only [List.mem_append, List.mem_map, List.mem_range, List.mem_singleton] at hd
    rcases hd with ⟨j, _, rfl⟩ | rfl
    · refine ⟨Int.natCast_nonneg _, ?_⟩
      have := Nat.mod_lt (k / 2 ^ (j * w)) (Nat.two_pow_pos w)
      exact_mod_cast this
    · refine ⟨Int.natCast_nonneg _, ?_⟩
      have : 2 ^ (l - cnt * w) ≤ 2 ^ w := Nat.pow_le_pow_right (by decide) (by omega)
      have := Nat.lt_of_lt_of_le hkl this
      exact_mod_cast this
  · simp [hlen]
  · simp; omega


/-! ### regular recoding -/

theorem recRegLoop_length (w : Nat) : ∀ (l t : Nat) (acc : List Int),
    (recRegLoop w l t acc).1.length = acc.length + l := by
  intro l
  induction l with
  | zero => intro t acc; simp [recRegLoop]
  | succ l ih =>
    intro t acc
    simp only [recRegLoop]
    rw [ih]; simp; omega

/-- the length of the regular recoding depends only on n and w, never on k (used by C20) -/
theorem recReg_length (cap k n w : Nat) (ds : List Int) (h : recReg cap k n w = some ds) :
    ds.length = (n + (w - 1) - 1) / (w - 1) + 1 := by
  unfold recReg at h
  simp only at h
  split at h
  · exact absurd h (by simp)
  · simp only [Option.some.injEq] at h
    subst h
    simp [recRegLoop_length]

theorem recReg_length_indep (cap k k' n w : Nat) (ds ds' : List Int)
    (h : recReg cap k n w = some ds) (h' : recReg cap k' n w = some ds') : ds.length = ds'.length := by
  rw [recReg_length _ _ _ _ _ h, recReg_length _ _ _ _ _ h']

theorem reg_step (w t : Nat) (hw : 2 ≤ w) (ht : t % 2 = 1) :
    (((t % 2 ^ w : Nat) : Int) - 2 ^ (w - 1)) % 2 ≠ 0 ∧
    (((t % 2 ^ w : Nat) : Int) - 2 ^ (w - 1)).natAbs < 2 ^ (w - 1) ∧
    ((t : Int) - (((t % 2 ^ w : Nat) : Int) - 2 ^ (w - 1))).toNat >>> (w - 1) = 2 * (t / 2 ^ w) + 1 ∧
    (t : Int) = (((t % 2 ^ w : Nat) : Int) - 2 ^ (w - 1)) + 2 ^ (w - 1) * ((2 * (t / 2 ^ w) + 1 : Nat) : Int) := by
  obtain ⟨s, rfl⟩ : ∃ s, w = s + 2 := ⟨w - 2, by omega⟩
  have hP : (2 : Nat) ^ (s + 2 - 1) = 2 * 2 ^ s := by
    rw [show s + 2 - 1 = s + 1 by omega, Nat.pow_succ, Nat.mul_comm]
  have hW : (2 : Nat) ^ (s + 2) = 2 * (2 * 2 ^ s) := by
    rw [Nat.pow_succ, Nat.pow_succ]; omega
  have hPi : (2 : Int) ^ (s + 2 - 1) = ((2 * 2 ^ s : Nat) : Int) := by
    rw [← hP]; simp
  rw [hPi, hW, Nat.shiftRight_eq_div_pow, hP]
  generalize hP' : 2 ^ s = P'
  have hP'pos : 0 < P' := by rw [← hP']; exact Nat.two_pow_pos s
  have hdm := Nat.div_add_mod t (2 * (2 * P'))
  have hlt := Nat.mod_lt t (show 0 < 2 * (2 * P') by omega)
  generalize t % (2 * (2 * P')) = r at *
  generalize hq : t / (2 * (2 * P')) = q at *
  have hX : 2 * (2 * P') * q = 2 * ((2 * P') * q) := by rw [Nat.mul_assoc]
  rw [hX] at hdm
  have hr : r % 2 = 1 := by omega
  refine ⟨by omega, by omega, ?_, ?_⟩
  · have : ((t : Int) - ((r : Int) - ((2 * P' : Nat) : Int))).toNat = (2 * P') * (2 * q + 1) := by
      rw [Nat.mul_add, Nat.mul_one, Nat.mul_left_comm]; omega
    rw [this, Nat.mul_div_cancel_left _ (by omega)]
  · have : ((2 * P' : Nat) : Int) * ((2 * q + 1 : Nat) : Int) = ((2 * ((2 * P') * q) + 2 * P' : Nat) : Int) := by
      rw [← Int.natCast_mul]; congr 1
      rw [Nat.mul_add, Nat.mul_one, Nat.mul_left_comm]
    rw [this]; omega

theorem reg_bound (w t m : Nat) (hw : 2 ≤ w) (ht : t % 2 = 1) (hm : t ≤ 2 ^ m) :
    2 * (t / 2 ^ w) + 1 ≤ 2 ^ (m - (w - 1)) := by
  rcases Nat.lt_or_ge m (w - 1) with h | h
  · have h1 : 2 ^ m < 2 ^ (w - 1) := Nat.pow_lt_pow_right (by decide) h
    have h2 : 2 ^ (w - 1) ≤ 2 ^ w := Nat.pow_le_pow_right (by decide) (by omega)
    rw [Nat.div_eq_of_lt (by omega), show m - (w - 1) = 0 by omega]; simp
  · have e : 2 ^ m = 2 ^ (w - 1) * 2 ^ (m - (w - 1)) := by
      rw [← Nat.pow_add]; congr 1; omega
    have e2 : 2 ^ w = 2 ^ (w - 1) * 2 := by
      rw [← Nat.pow_succ]; congr 1; omega
    generalize 2 ^ (m - (w - 1)) = M at *
    have hdm := Nat.div_add_mod t (2 ^ w)
    generalize t / 2 ^ w = q at *
    have hr : 0 < t % 2 ^ w := by
      have : 2 ∣ 2 ^ w := ⟨2 ^ (w - 1), by rw [e2, Nat.mul_comm]⟩
      have := Nat.mod_mod_of_dvd t this
      omega
    have : 2 ^ (w - 1) * (2 * q) < 2 ^ (w - 1) * M := by
      rw [← e, ← Nat.mul_assoc, ← e2]; omega
    have := Nat.lt_of_mul_lt_mul_left this
    omega

theorem recRegLoop_spec (w : Nat) (hw : 2 ≤ w) : ∀ (l m t : Nat) (acc : List Int),
    t % 2 = 1 → t ≤ 2 ^ m →
    ∃ ds t', recRegLoop w l t acc = (acc ++ ds, t') ∧ ds.length = l ∧
      (∀ d ∈ ds, d % 2 ≠ 0 ∧ d.natAbs < 2 ^ (w - 1)) ∧
      (t : Int) = eval (w - 1) ds + 2 ^ ((w - 1) * l) * (t' : Int) ∧ t' ≤ 2 ^ (m - l * (w - 1)) := by
  intro l
  induction l with
  | zero =>
    intro m t acc _ hm
    exact ⟨[], t, by simp [recRegLoop], rfl, by simp, by simp, by simpa using hm⟩
  | succ l ih =>
    intro m t acc ht hm
    have hu : (if w = 2 then ((t % 4 : Nat) : Int) - 2 else ((t % 2 ^ w : Nat) : Int) - 2 ^ (w - 1))
        = ((t % 2 ^ w : Nat) : Int) - 2 ^ (w - 1) := by
      split
      · subst w; rfl
      · rfl
    obtain ⟨h1, h2, h3, h4⟩ := reg_step w t hw ht
    have hb := reg_bound w t m hw ht hm
    simp only [recRegLoop, hu]
    rw [h3]
    obtain ⟨ds, t', e, hlen, hd, hv, hbd⟩ := ih (m - (w - 1)) (2 * (t / 2 ^ w) + 1)
      (acc ++ [((t % 2 ^ w : Nat) : Int) - 2 ^ (w - 1)]) (by omega) hb
    refine ⟨(((t % 2 ^ w : Nat) : Int) - 2 ^ (w - 1)) :: ds, t', by rw [e]; simp, by simp [hlen], ?_, ?_, ?_⟩
    · intro d hd'
      rcases List.mem_cons.1 hd' with rfl | hd'
      · exact ⟨h1, h2⟩
      · exact hd d hd'
    · rw [eval_cons, h4, hv, Nat.mul_succ, Int.pow_add]
      generalize (2 : Int) ^ (w - 1) = P
      generalize (2 : Int) ^ ((w - 1) * l) = Q
      grind
    · rw [show m - (l + 1) * (w - 1) = m - (w - 1) - l * (w - 1) by rw [Nat.succ_mul]; omega]
      exact hbd

/-- regular recoding of an odd k < 2^n: exactly ⌈n/(w-1)⌉ + 1 digits in radix 2^(w-1), all of the first
    ⌈n/(w-1)⌉ odd with |d| < 2^(w-1), the last one 0 or 1, value k -/
theorem recReg_spec (cap k n w : Nat) (hw : 2 ≤ w) (hodd : k % 2 = 1) (hk : k < 2 ^ n) (ds : List Int)
    (h : recReg cap k n w = some ds) :
    eval (w - 1) ds = k ∧ ds.length = (n + (w - 1) - 1) / (w - 1) + 1 ∧
    (∀ d ∈ ds.take ((n + (w - 1) - 1) / (w - 1)), d % 2 ≠ 0 ∧ d.natAbs < 2 ^ (w - 1)) ∧
    (ds.getLast? = some 0 ∨ ds.getLast? = some 1) ∧ ds.length ≤ cap := by
  have hlen := recReg_length cap k n w ds h
  unfold recReg at h
  simp only at h
  split at h
  · exact absurd h (by simp)
  rename_i hcap
  generalize hl : (n + (w - 1) - 1) / (w - 1) = l at *
  obtain ⟨ds', t', e, hlen', hd, hv, hbd⟩ := recRegLoop_spec w hw l n k [] hodd (Nat.le_of_lt hk)
  rw [e] at h
  simp only [List.nil_append, Option.some.injEq] at h
  subst h
  have hn : n ≤ l * (w - 1) := by
    rw [← hl]
    have := Nat.div_add_mod (n + (w - 1) - 1) (w - 1)
    have := Nat.mod_lt (n + (w - 1) - 1) (show 0 < w - 1 by omega)
    rw [Nat.mul_comm]; omega
  rw [show n - l * (w - 1) = 0 by omega] at hbd
  refine ⟨?_, hlen, ?_, ?_, by omega⟩
  · rw [eval_append, hlen', hv]; simp
  · rw [← hlen', List.take_left]; exact hd
  · rw [List.getLast?_concat]
    have : t' = 0 ∨ t' = 1 := by omega
    rcases this with rfl | rfl <;> simp

/-! ### width-w NAF -/

/-- the signed window digit taken at an odd t -/
def nafU (w t : Nat) : Int :=
  if w = 2 then 2 - ((t % 2 ^ w : Nat) : Int)
  else (if t % 2 ^ w > 2 ^ w / 2 then ((t % 2 ^ w : Nat) : Int) - 2 ^ w else ((t % 2 ^ w : Nat) : Int))

def nafD (w t : Nat) : Int := if t % 2 = 1 then nafU w t else 0

def nafNext (w t : Nat) : Nat := if t % 2 = 1 then ((t : Int) - nafU w t).toNat / 2 else t / 2

/-- accumulator-free form of recNafLoop -/
def nafOut (w : Nat) : Nat → Nat → List Int
  | 0, _ => []
  | f + 1, t => if t = 0 then [] else nafD w t :: nafOut w f (nafNext w t)

theorem recNafLoop_eq (w : Nat) : ∀ (f t : Nat) (acc : List Int),
    recNafLoop w f t acc = acc ++ nafOut w f t := by
  intro f
  induction f with
  | zero => intro t acc; simp [recNafLoop, nafOut]
  | succ f ih =>
    intro t acc
    simp only [recNafLoop, nafOut]
    by_cases ht : t = 0
    · simp [ht]
    · simp only [if_neg ht]
      by_cases ho : t % 2 = 1
      · simp only [if_pos ho, ih, nafD, nafNext, nafU, List.append_assoc, List.cons_append, List.nil_append]
      · simp only [if_neg ho, ih, nafD, nafNext, List.append_assoc, List.cons_append, List.nil_append]

theorem nafOut_zero (w f : Nat) : nafOut w f 0 = [] := by
  cases f <;> simp [nafOut]

/-- arithmetic of one odd step, in terms of P = 2^(w-1) -/
theorem naf_odd_step (w t : Nat) (hw : 2 ≤ w) (ht : t % 2 = 1) :
    ∃ (P q : Nat) (m : Nat), 2 ^ (w - 1) = P ∧ P % 2 = 0 ∧ 0 < P ∧ 2 ^ w = 2 * P ∧ t = 2 * (P * q) + m ∧ m < 2 * P ∧
      m % 2 = 1 ∧ q = t / 2 ^ w ∧
      ((m > P ∧ nafU w t = (m : Int) - 2 * P ∧ nafNext w t = P * (q + 1)) ∨
       (m < P ∧ nafU w t = m ∧ nafNext w t = P * q)) := by
  obtain ⟨s, rfl⟩ : ∃ s, w = s + 2 := ⟨w - 2, by omega⟩
  have hP : (2 : Nat) ^ (s + 2 - 1) = 2 * 2 ^ s := by
    rw [show s + 2 - 1 = s + 1 by omega, Nat.pow_succ, Nat.mul_comm]
  have hW : (2 : Nat) ^ (s + 2) = 2 * (2 * 2 ^ s) := by
    rw [Nat.pow_succ, Nat.pow_succ]; omega
  have hWi : (2 : Int) ^ (s + 2) = ((2 * (2 * 2 ^ s) : Nat) : Int) := by
    rw [← hW]; simp
  have hs2 : s + 2 = 2 ↔ s = 0 := by omega
  refine ⟨2 * 2 ^ s, t / 2 ^ (s + 2), t % 2 ^ (s + 2), hP, by omega, ?_, hW, ?_, ?_, ?_, rfl, ?_⟩
  · have := Nat.two_pow_pos s; omega
  · have := Nat.div_add_mod t (2 ^ (s + 2))
    rw [hW] at this ⊢
    rw [Nat.mul_assoc] at this; omega
  · rw [← hW]; exact Nat.mod_lt _ (Nat.two_pow_pos _)
  · have : 2 ∣ 2 ^ (s + 2) := ⟨2 * 2 ^ s, hW⟩
    rw [Nat.mod_mod_of_dvd t this]; exact ht
  · simp only [nafNext, if_pos ht, nafU, hWi, hs2]
    rw [hW]
    have hdm := Nat.div_add_mod t (2 * (2 * 2 ^ s))
    have hlt := Nat.mod_lt t (show 0 < 2 * (2 * 2 ^ s) by have := Nat.two_pow_pos s; omega)
    have hm2 : t % (2 * (2 * 2 ^ s)) % 2 = 1 := by
      rw [Nat.mod_mod_of_dvd t ⟨2 * 2 ^ s, rfl⟩]; exact ht
    rw [Nat.mul_assoc] at hdm
    generalize t % (2 * (2 * 2 ^ s)) = m at *
    generalize t / (2 * (2 * 2 ^ s)) = q at *
    rw [Nat.mul_add (2 * 2 ^ s) q 1, Nat.mul_one]
    generalize hX : 2 * 2 ^ s * q = X at *
    rw [Nat.mul_div_cancel_left _ (by decide : 0 < 2)]
    by_cases hs : s = 0
    · subst hs
      simp only [Nat.pow_zero, Nat.mul_one] at *
      simp only [if_true]
      omega
    · simp only [if_neg hs]
      have := Nat.two_pow_pos s
      by_cases hc : m > 2 * 2 ^ s
      · left; simp only [if_pos hc]; omega
      · right; simp only [if_neg hc]; exact ⟨by omega, trivial, by omega⟩

theorem naf_step (w t c : Nat) (hw : 2 ≤ w) (ht : 0 < t) :
    (nafD w t = 0 ∨ (nafD w t % 2 ≠ 0 ∧ (nafD w t).natAbs < 2 ^ (w - 1))) ∧
    (t : Int) = nafD w t + 2 * (nafNext w t : Int) ∧
    (nafD w t ≠ 0 → 2 ^ (w - 1) ∣ nafNext w t) ∧
    (t ≤ 2 ^ c → nafNext w t ≤ 2 ^ (c - 1) ∧ (c = 0 → nafNext w t = 0)) := by
  by_cases ho : t % 2 = 1
  · obtain ⟨P, q, m, hP, hPe, hPpos, hW, htm, hmlt, hm2, hq, hcase⟩ := naf_odd_step w t hw ho
    simp only [nafD, if_pos ho]
    rw [hP]
    generalize hX : P * q = X at *
    rcases hcase with ⟨hmP, hu, hn⟩ | ⟨hmP, hu, hn⟩
    · rw [hu, hn]
      refine ⟨by omega, ?_, fun _ => ⟨q + 1, rfl⟩, ?_⟩
      · rw [Nat.mul_add, Nat.mul_one, hX]; omega
      · intro hc
        rcases Nat.lt_or_ge c w with hcw | hcw
        · have : 2 ^ c ≤ 2 ^ (w - 1) := Nat.pow_le_pow_right (by decide) (by omega)
          omega
        · have e : 2 ^ c = 2 ^ w * 2 ^ (c - w) := by
            rw [← Nat.pow_add]; congr 1; omega
          have e1 : 2 ^ c = 2 * 2 ^ (c - 1) := by
            rw [← Nat.pow_succ']; congr 1; omega
          generalize 2 ^ (c - w) = M at *
          have h1 : 2 * P * q < 2 * P * M := by
            rw [← hW, ← e, hW, Nat.mul_assoc, hX]; omega
          have h2 : q + 1 ≤ M := Nat.lt_of_mul_lt_mul_left h1
          have h3 : 2 * P * (q + 1) ≤ 2 * P * M := Nat.mul_le_mul_left _ h2
          rw [← hW, ← e, hW, Nat.mul_assoc] at h3
          omega
    · rw [hu, hn]
      refine ⟨by omega, by omega, fun _ => ⟨q, hX.symm⟩, ?_⟩
      intro hc
      rcases Nat.eq_zero_or_pos c with rfl | hcpos
      · simp at hc ⊢; omega
      · have e1 : 2 ^ c = 2 * 2 ^ (c - 1) := by
          rw [← Nat.pow_succ']; congr 1; omega
        omega
  · simp only [nafD, nafNext, if_neg ho]
    refine ⟨by simp, by omega, by simp, ?_⟩
    intro hc
    rcases Nat.eq_zero_or_pos c with rfl | hcpos
    · simp at hc ⊢; omega
    · have e1 : 2 ^ c = 2 * 2 ^ (c - 1) := by
        rw [← Nat.pow_succ']; congr 1; omega
      omega

theorem nafOut_digits (w : Nat) (hw : 2 ≤ w) : ∀ (f t : Nat),
    ∀ d ∈ nafOut w f t, d = 0 ∨ (d % 2 ≠ 0 ∧ d.natAbs < 2 ^ (w - 1)) := by
  intro f
  induction f with
  | zero => intro t d hd; simp [nafOut] at hd
  | succ f ih =>
    intro t d hd
    simp only [nafOut] at hd
    by_cases ht : t = 0
    · simp [ht] at hd
    · simp only [if_neg ht, List.mem_cons] at hd
      rcases hd with rfl | hd
      · exact (naf_step w t 0 hw (by omega)).1
      · exact ih _ d hd

theorem nafOut_value (w : Nat) (hw : 2 ≤ w) : ∀ (f c t : Nat), t ≤ 2 ^ c → c + 1 ≤ f →
    eval 1 (nafOut w f t) = t ∧ (nafOut w f t).length ≤ c + 1 := by
  intro f
  induction f with
  | zero => intro c t _ hf; omega
  | succ f ih =>
    intro c t hc hf
    simp only [nafOut]
    by_cases ht : t = 0
    · simp [ht]
    · simp only [if_neg ht]
      obtain ⟨_, hv, _, hb⟩ := naf_step w t c hw (by omega)
      obtain ⟨hb1, hb2⟩ := hb hc
      rcases Nat.eq_zero_or_pos c with rfl | hcpos
      · rw [hb2 rfl] at hv ⊢
        rw [nafOut_zero]; simp at hv ⊢; omega
      · obtain ⟨iv, il⟩ := ih (c - 1) (nafNext w t) hb1 (by omega)
        rw [eval_cons, iv]
        refine ⟨by rw [hv]; simp, ?_⟩
        simp only [List.length_cons]; omega

theorem nafOut_zeros (w : Nat) : ∀ (j f t : Nat), 2 ^ j ∣ t →
    ∀ d ∈ (nafOut w f t).take j, d = 0 := by
  intro j
  induction j with
  | zero => intro f t _ d hd; simp at hd
  | succ j ih =>
    intro f t hdvd d hd
    cases f with
    | zero => simp [nafOut] at hd
    | succ f =>
      simp only [nafOut] at hd
      by_cases ht : t = 0
      · simp [ht] at hd
      · simp only [if_neg ht, List.take_succ_cons, List.mem_cons] at hd
        obtain ⟨r, hr⟩ := hdvd
        have he : t % 2 = 0 := by rw [hr, Nat.pow_succ, Nat.mul_assoc, Nat.mul_comm, Nat.mul_assoc]; omega
        have hD : nafD w t = 0 := by simp [nafD, he]
        have hN : nafNext w t = 2 ^ j * r := by
          simp only [nafNext, he]
          rw [hr, Nat.pow_succ, Nat.mul_assoc, Nat.mul_comm 2 r, ← Nat.mul_assoc]
          simp
        rcases hd with rfl | hd
        · exact hD
        · exact ih f _ (hN ▸ ⟨r, rfl⟩) d hd

theorem nafOut_sparse (w : Nat) (hw : 2 ≤ w) : ∀ (f t i : Nat),
    (((nafOut w f t).drop i).take w).countP (· ≠ 0) ≤ 1 := by
  intro f
  induction f with
  | zero => intro t i; simp [nafOut]
  | succ f ih =>
    intro t i
    simp only [nafOut]
    by_cases ht : t = 0
    · simp [ht]
    · simp only [if_neg ht]
      cases i with
      | succ i => simpa using ih (nafNext w t) i
      | zero =>
        obtain ⟨w', rfl⟩ : ∃ w', w = w' + 1 := ⟨w - 1, by omega⟩
        rw [List.drop_zero, List.take_succ_cons, List.countP_cons]
        by_cases hD : nafD (w' + 1) t = 0
        · have h1 := ih (nafNext (w' + 1) t) 0
          rw [List.drop_zero] at h1
          have h2 := (List.take_sublist_take_left (l := nafOut (w' + 1) f (nafNext (w' + 1) t))
            (Nat.le_succ w')).countP_le (p := fun x : Int => decide (x ≠ 0))
          simp only [hD]
          simp at h1 h2 ⊢
          omega
        · have hdv := (naf_step (w' + 1) t 0 hw (by omega)).2.2.1 hD
          have hz := nafOut_zeros (w' + 1) w' f _ hdv
          have : List.countP (fun x : Int => decide (x ≠ 0))
              (List.take w' (nafOut (w' + 1) f (nafNext (w' + 1) t))) = 0 := by
            rw [List.countP_eq_zero]
            intro a ha; simp [hz a ha]
          rw [this]; simp [hD]

/-- width-w NAF: value k, digits zero or odd with |d| < 2^(w-1), at most one non-zero digit among any w
    consecutive ones, at most bitLen k + 1 digits -/
theorem recNaf_spec (cap k w : Nat) (hw : 2 ≤ w) (ds : List Int) (h : recNaf cap k w = some ds) :
    eval 1 ds = k ∧ (∀ d ∈ ds, d = 0 ∨ (d % 2 ≠ 0 ∧ d.natAbs < 2 ^ (w - 1))) ∧
    (∀ i, (((ds.drop i).take w).countP (· ≠ 0)) ≤ 1) ∧ ds.length ≤ bitLen k + 1 ∧ ds.length ≤ cap := by
  unfold recNaf at h
  split at h
  · exact absurd h (by simp)
  rename_i hcap
  simp only [Option.some.injEq, recNafLoop_eq, List.nil_append] at h
  subst h
  obtain ⟨hv, hl⟩ := nafOut_value w hw (bitLen k + 2) (bitLen k) k (Nat.le_of_lt (lt_two_pow_bitLen k)) (by omega)
  exact ⟨hv, nafOut_digits w hw _ _, nafOut_sparse w hw _ _, hl, by omega⟩

/-! ### sliding windows -/

/-- lower end of the window whose top bit is `iN` -/
def slwS (k w iN : Nat) : Nat :=
  (((List.range (iN - (if iN + 1 ≥ w then iN + 1 - w else 0) + 1)).find?
    fun d => (k >>> ((if iN + 1 ≥ w then iN + 1 - w else 0) + d)) % 2 = 1).map
      (· + (if iN + 1 ≥ w then iN + 1 - w else 0))).getD iN

/-- accumulator-free form of recSlwLoop, indexed by j = i + 1 -/
def slwOut (k w : Nat) : Nat → Nat → List Int
  | 0, _ => []
  | _ + 1, 0 => []
  | f + 1, j + 1 =>
    if (k >>> j) % 2 = 0 then 0 :: slwOut k w f j
    else (getBits k (slwS k w j) j : Int) :: slwOut k w f (slwS k w j)

theorem recSlwLoop_eq (k w : Nat) : ∀ (f j : Nat) (acc : List Int),
    recSlwLoop k w f ((j : Int) - 1) acc = acc ++ slwOut k w f j := by
  intro f
  induction f with
  | zero => intro j acc; simp [recSlwLoop, slwOut]
  | succ f ih =>
    intro j acc
    cases j with
    | zero => simp [recSlwLoop, slwOut]
    | succ j =>
      have e1 : ((j + 1 : Nat) : Int) - 1 = (j : Int) := by omega
      have e2 : ¬ ((j : Int) < 0) := by omega
      simp only [recSlwLoop, slwOut, e1, e2, if_false, Int.toNat_natCast]
      by_cases hb : (k >>> j) % 2 = 0
      · simp only [if_pos hb, ih, List.append_assoc, List.cons_append, List.nil_append]
      · simp only [if_neg hb]
        rw [show (Option.map (fun x => x + (if j + 1 ≥ w then j + 1 - w else 0))
          (List.find? (fun d => decide (k >>> ((if j + 1 ≥ w then j + 1 - w else 0) + d) % 2 = 1))
            (List.range (j - (if j + 1 ≥ w then j + 1 - w else 0) + 1)))).getD j = slwS k w j from rfl]
        rw [ih]; simp

theorem slwS_spec (k w j : Nat) (hw : 0 < w) (hb : (k >>> j) % 2 = 1) :
    slwS k w j ≤ j ∧ j + 1 ≤ slwS k w j + w ∧ (k >>> slwS k w j) % 2 = 1 := by
  unfold slwS
  generalize hs0 : (if j + 1 ≥ w then j + 1 - w else 0) = s0
  have h0 : s0 ≤ j ∧ j + 1 ≤ s0 + w := by
    rw [← hs0]; split <;> omega
  cases hf : (List.range (j - s0 + 1)).find? fun d => (k >>> (s0 + d)) % 2 = 1 with
  | none => simp only [Option.map_none, Option.getD_none]; exact ⟨by omega, by omega, hb⟩
  | some d =>
    simp only [Option.map_some, Option.getD_some]
    have hm := List.mem_of_find?_eq_some hf
    have hp := List.find?_some hf
    simp only [List.mem_range] at hm
    simp only [decide_eq_true_eq] at hp
    rw [Nat.add_comm d s0]
    exact ⟨by omega, by omega, hp⟩

theorem slw_window (k s j : Nat) (hs : s ≤ j) (hj : (k / 2 ^ j) % 2 = 1) (hsb : (k / 2 ^ s) % 2 = 1) :
    ((k / 2 ^ s) % 2 ^ (j + 1 - s)) % 2 = 1 ∧ (k / 2 ^ s) % 2 ^ (j + 1 - s) < 2 ^ (j + 1 - s) ∧
    bitLen ((k / 2 ^ s) % 2 ^ (j + 1 - s)) = j + 1 - s ∧
    (k / 2 ^ (j + 1)) * 2 ^ (j + 1 - s) + (k / 2 ^ s) % 2 ^ (j + 1 - s) = k / 2 ^ s := by
  obtain ⟨e, rfl⟩ : ∃ e, j = s + e := ⟨j - s, by omega⟩
  rw [show s + e + 1 - s = e + 1 by omega]
  have e1 : k / 2 ^ (s + e) = k / 2 ^ s / 2 ^ e := by rw [Nat.div_div_eq_div_mul, Nat.pow_add]
  have e2 : k / 2 ^ (s + e + 1) = k / 2 ^ s / 2 ^ (e + 1) := by
    rw [Nat.div_div_eq_div_mul, Nat.add_assoc, Nat.pow_add]
  rw [e1] at hj
  rw [e2]
  generalize k / 2 ^ s = A at *
  have hms : A % 2 ^ (e + 1) = A % 2 ^ e + 2 ^ e := by rw [Nat.mod_pow_succ, hj, Nat.mul_one]
  refine ⟨?_, Nat.mod_lt _ (Nat.two_pow_pos _), ?_, ?_⟩
  · rw [Nat.mod_mod_of_dvd A ⟨2 ^ e, Nat.pow_succ'⟩]; exact hsb
  · apply bitLen_eq_of_bounds
    · omega
    · exact Nat.mod_lt _ (Nat.two_pow_pos _)
  · rw [Nat.mul_comm]; exact Nat.div_add_mod A (2 ^ (e + 1))

theorem slwOut_digits (k w : Nat) (hw : 0 < w) : ∀ (f j : Nat),
    ∀ d ∈ slwOut k w f j, d = 0 ∨ (d % 2 = 1 ∧ 0 < d ∧ d < 2 ^ w) := by
  intro f
  induction f with
  | zero => intro j d hd; simp [slwOut] at hd
  | succ f ih =>
    intro j d hd
    cases j with
    | zero => simp [slwOut] at hd
    | succ j =>
      simp only [slwOut] at hd
      by_cases hb : (k >>> j) % 2 = 0
      · simp only [if_pos hb, List.mem_cons] at hd
        rcases hd with rfl | hd
        · exact Or.inl rfl
        · exact ih _ d hd
      · simp only [if_neg hb, List.mem_cons] at hd
        rcases hd with rfl | hd
        · right
          have hb1 : (k >>> j) % 2 = 1 := by omega
          obtain ⟨h1, h2, h3⟩ := slwS_spec k w j hw hb1
          rw [Nat.shiftRight_eq_div_pow] at hb1 h3
          obtain ⟨w1, w2, _, _⟩ := slw_window k (slwS k w j) j h1 hb1 h3
          rw [getBits_eq]
          have : 2 ^ (j + 1 - slwS k w j) ≤ 2 ^ w := Nat.pow_le_pow_right (by decide) (by omega)
          generalize k / 2 ^ slwS k w j % 2 ^ (j + 1 - slwS k w j) = D at *
          have : ((2 ^ w : Nat) : Int) = 2 ^ w := by simp
          omega
        · exact ih _ d hd

theorem slwOut_length (k w : Nat) (hw : 0 < w) : ∀ (f j : Nat), (slwOut k w f j).length ≤ j := by
  intro f
  induction f with
  | zero => intro j; simp [slwOut]
  | succ f ih =>
    intro j
    cases j with
    | zero => simp [slwOut]
    | succ j =>
      simp only [slwOut]
      by_cases hb : (k >>> j) % 2 = 0
      · simp only [if_pos hb, List.length_cons]; have := ih j; omega
      · simp only [if_neg hb, List.length_cons]
        have := ih (slwS k w j)
        have := (slwS_spec k w j hw (by omega)).1
        omega

theorem slwOut_value (k w : Nat) (hw : 0 < w) : ∀ (f j : Nat), j ≤ f →
    (slwOut k w f j).foldl (fun acc d => if d = 0 then 2 * acc else acc * 2 ^ (bitLen d.toNat) + d)
      ((k / 2 ^ j : Nat) : Int) = k := by
  intro f
  induction f with
  | zero => intro j hj; obtain rfl : j = 0 := by omega
            simp [slwOut]
  | succ f ih =>
    intro j hj
    cases j with
    | zero => simp [slwOut]
    | succ j =>
      simp only [slwOut]
      by_cases hb : (k >>> j) % 2 = 0
      · simp only [if_pos hb, List.foldl_cons, if_true]
        rw [← ih j (by omega)]
        congr 1
        rw [Nat.shiftRight_eq_div_pow] at hb
        have : k / 2 ^ (j + 1) = k / 2 ^ j / 2 := by rw [Nat.div_div_eq_div_mul, Nat.pow_succ]
        rw [this]; omega
      · simp only [if_neg hb, List.foldl_cons]
        have hb1 : (k >>> j) % 2 = 1 := by omega
        obtain ⟨h1, h2, h3⟩ := slwS_spec k w j hw hb1
        rw [Nat.shiftRight_eq_div_pow] at hb1 h3
        obtain ⟨w1, w2, w3, w4⟩ := slw_window k (slwS k w j) j h1 hb1 h3
        rw [getBits_eq]
        rw [← ih (slwS k w j) (by omega)]
        congr 1
        generalize k / 2 ^ slwS k w j % 2 ^ (j + 1 - slwS k w j) = D at *
        have hD : ¬ ((D : Int) = 0) := by omega
        simp only [if_neg hD, Int.toNat_natCast, w3]
        rw [← w4]; simp

/-- sliding windows: value k, every non-zero digit odd and below 2^w -/
theorem recSlw_spec (cap k w : Nat) (hw : 0 < w) (ds : List Int) (h : recSlw cap k w = some ds) :
    evalSlw ds = k ∧ (∀ d ∈ ds, d = 0 ∨ (d % 2 = 1 ∧ 0 < d ∧ d < 2 ^ w)) ∧ ds.length ≤ bitLen k ∧ ds.length ≤ cap := by
  unfold recSlw at h
  simp only at h
  split at h
  · exact absurd h (by simp)
  rename_i hcap
  simp only [Option.some.injEq, recSlwLoop_eq, List.nil_append] at h
  subst h
  have hl := slwOut_length k w hw (bitLen k + 1) (bitLen k)
  refine ⟨?_, slwOut_digits k w hw _ _, hl, by omega⟩
  have := slwOut_value k w hw (bitLen k + 1) (bitLen k) (by omega)
  rw [Nat.div_eq_of_lt (lt_two_pow_bitLen k)] at this
  exact this

/-! ### joint sparse form -/

def jsfL (n : Nat) (d : Int) : Nat := (((n % 2 ^ 64 : Nat) : Int) + d).toNat % 8

def jsfU (l0 l1 : Nat) : Int :=
  if l0 % 2 = 0 then 0
  else if (l0 = 3 ∨ l0 = 5) ∧ l1 % 4 = 2 then -(2 - ((l0 % 4 : Nat) : Int)) else 2 - ((l0 % 4 : Nat) : Int)

def jsfD (d u : Int) : Int := if d + d = 1 + u then 1 - d else d

/-- accumulator-free form of recJsfLoop -/
def jsfOut : Nat → Nat → Nat → Int → Int → List Int × List Int
  | 0, _, _, _, _ => ([], [])
  | f + 1, n0, n1, d0, d1 =>
    if n0 = 0 ∧ d0 = 0 ∧ n1 = 0 ∧ d1 = 0 then ([], [])
    else
      (jsfU (jsfL n0 d0) (jsfL n1 d1) ::
        (jsfOut f (n0 / 2) (n1 / 2) (jsfD d0 (jsfU (jsfL n0 d0) (jsfL n1 d1)))
          (jsfD d1 (jsfU (jsfL n1 d1) (jsfL n0 d0)))).1,
       jsfU (jsfL n1 d1) (jsfL n0 d0) ::
        (jsfOut f (n0 / 2) (n1 / 2) (jsfD d0 (jsfU (jsfL n0 d0) (jsfL n1 d1)))
          (jsfD d1 (jsfU (jsfL n1 d1) (jsfL n0 d0)))).2)

theorem recJsfLoop_eq : ∀ (f n0 n1 : Nat) (d0 d1 : Int) (a0 a1 : List Int),
    recJsfLoop f n0 n1 d0 d1 a0 a1 =
      (a0 ++ (jsfOut f n0 n1 d0 d1).1, a1 ++ (jsfOut f n0 n1 d0 d1).2) := by
  intro f
  induction f with
  | zero => intro n0 n1 d0 d1 a0 a1; simp [recJsfLoop, jsfOut]
  | succ f ih =>
    intro n0 n1 d0 d1 a0 a1
    simp only [recJsfLoop, jsfOut]
    by_cases hz : n0 = 0 ∧ d0 = 0 ∧ n1 = 0 ∧ d1 = 0
    · simp only [if_pos hz, List.append_nil]
    · simp only [if_neg hz]
      rw [ih]
      simp only [List.append_assoc, List.cons_append, List.nil_append]
      rfl

theorem jsfOut_zero (f : Nat) : jsfOut f 0 0 0 0 = ([], []) := by
  cases f <;> simp [jsfOut]

theorem jsfU_abs (l0 l1 : Nat) : (jsfU l0 l1).natAbs ≤ 1 := by
  unfold jsfU
  split
  · simp
  · split <;> omega

theorem jsf_step (n : Nat) (d : Int) (l1 : Nat) (hd : d = 0 ∨ d = 1) :
    (jsfD d (jsfU (jsfL n d) l1) = 0 ∨ jsfD d (jsfU (jsfL n d) l1) = 1) ∧
    (n : Int) + d = jsfU (jsfL n d) l1 + 2 * (((n / 2 : Nat) : Int) + jsfD d (jsfU (jsfL n d) l1)) ∧
    ((n : Int) + d ≤ 1 → n / 2 = 0 ∧ jsfD d (jsfU (jsfL n d) l1) = 0) := by
  unfold jsfD jsfU jsfL
  split <;> split <;> (try split) <;> omega

theorem jsfOut_digits : ∀ (f n0 n1 : Nat) (d0 d1 : Int),
    (∀ d ∈ (jsfOut f n0 n1 d0 d1).1, d.natAbs ≤ 1) ∧ (∀ d ∈ (jsfOut f n0 n1 d0 d1).2, d.natAbs ≤ 1) ∧
    (jsfOut f n0 n1 d0 d1).1.length = (jsfOut f n0 n1 d0 d1).2.length := by
  intro f
  induction f with
  | zero => intro n0 n1 d0 d1; simp [jsfOut]
  | succ f ih =>
    intro n0 n1 d0 d1
    simp only [jsfOut]
    by_cases hz : n0 = 0 ∧ d0 = 0 ∧ n1 = 0 ∧ d1 = 0
    · simp [if_pos hz]
    · simp only [if_neg hz, List.mem_cons, List.length_cons]
      obtain ⟨i1, i2, i3⟩ := ih (n0 / 2) (n1 / 2) (jsfD d0 (jsfU (jsfL n0 d0) (jsfL n1 d1)))
          (jsfD d1 (jsfU (jsfL n1 d1) (jsfL n0 d0)))
      refine ⟨?_, ?_, by rw [i3]⟩
      · rintro d (rfl | hd)
        · exact jsfU_abs _ _
        · exact i1 d hd
      · rintro d (rfl | hd)
        · exact jsfU_abs _ _
        · exact i2 d hd

theorem jsfOut_value : ∀ (f c n0 n1 : Nat) (d0 d1 : Int), (d0 = 0 ∨ d0 = 1) → (d1 = 0 ∨ d1 = 1) →
    (n0 : Int) + d0 ≤ 2 ^ c → (n1 : Int) + d1 ≤ 2 ^ c → c + 1 ≤ f →
    eval 1 (jsfOut f n0 n1 d0 d1).1 = n0 + d0 ∧ eval 1 (jsfOut f n0 n1 d0 d1).2 = n1 + d1 ∧
    (jsfOut f n0 n1 d0 d1).1.length ≤ c + 1 := by
  intro f
  induction f with
  | zero => intro c n0 n1 d0 d1 _ _ _ _ hf; omega
  | succ f ih =>
    intro c n0 n1 d0 d1 hd0 hd1 hb0 hb1 hf
    simp only [jsfOut]
    by_cases hz : n0 = 0 ∧ d0 = 0 ∧ n1 = 0 ∧ d1 = 0
    · obtain ⟨rfl, rfl, rfl, rfl⟩ := hz
      simp
    · simp only [if_neg hz]
      obtain ⟨a1, a2, a3⟩ := jsf_step n0 d0 (jsfL n1 d1) hd0
      obtain ⟨b1, b2, b3⟩ := jsf_step n1 d1 (jsfL n0 d0) hd1
      have ua0 := jsfU_abs (jsfL n0 d0) (jsfL n1 d1)
      have ua1 := jsfU_abs (jsfL n1 d1) (jsfL n0 d0)
      generalize jsfU (jsfL n0 d0) (jsfL n1 d1) = u0 at *
      generalize jsfU (jsfL n1 d1) (jsfL n0 d0) = u1 at *
      generalize jsfD d0 u0 = e0 at *
      generalize jsfD d1 u1 = e1 at *
      rcases Nat.eq_zero_or_pos c with rfl | hcpos
      · simp only [Int.pow_zero] at hb0 hb1
        obtain ⟨z1, z2⟩ := a3 hb0
        obtain ⟨z3, z4⟩ := b3 hb1
        rw [z1, z2] at a2
        rw [z3, z4] at b2
        rw [z1, z2, z3, z4, jsfOut_zero]
        simp only [eval_cons, eval_nil, List.length_cons, List.length_nil]
        omega
      · have e : (2 : Int) ^ c = 2 * 2 ^ (c - 1) := by
          rw [← Int.pow_succ']; congr 1; omega
        rw [e] at hb0 hb1
        obtain ⟨i1, i2, i3⟩ := ih (c - 1) (n0 / 2) (n1 / 2) e0 e1 a1 b1 (by omega) (by omega) (by omega)
        simp only [eval_cons, i1, i2, List.length_cons]
        refine ⟨?_, ?_, by omega⟩
        · rw [a2]; simp
        · rw [b2]; simp

/-- joint sparse form: both rows represent their scalars with digits in {-1, 0, 1} -/
theorem recJsf_spec (cap k l : Nat) (a0 a1 : List Int) (h : recJsf cap k l = some (a0, a1)) :
    eval 1 a0 = k ∧ eval 1 a1 = l ∧ (∀ d ∈ a0, d.natAbs ≤ 1) ∧ (∀ d ∈ a1, d.natAbs ≤ 1) ∧ a0.length = a1.length ∧
    a0.length ≤ max (bitLen k) (bitLen l) + 1 := by
  unfold recJsf at h
  split at h
  · exact absurd h (by simp)
  simp only [Option.some.injEq, recJsfLoop_eq, List.nil_append, Prod.mk.injEq] at h
  obtain ⟨rfl, rfl⟩ := h
  generalize hc : max (bitLen k) (bitLen l) = c
  have hk : (k : Int) + 0 ≤ 2 ^ c := by
    have h1 := lt_two_pow_bitLen k
    have h2 : 2 ^ bitLen k ≤ 2 ^ c := Nat.pow_le_pow_right (by decide) (by omega)
    have : ((2 ^ c : Nat) : Int) = 2 ^ c := by simp
    omega
  have hl : (l : Int) + 0 ≤ 2 ^ c := by
    have h1 := lt_two_pow_bitLen l
    have h2 : 2 ^ bitLen l ≤ 2 ^ c := Nat.pow_le_pow_right (by decide) (by omega)
    have : ((2 ^ c : Nat) : Int) = 2 ^ c := by simp
    omega
  obtain ⟨v0, v1, vl⟩ := jsfOut_value (c + 3) c k l 0 0 (Or.inl rfl) (Or.inl rfl) hk hl (by omega)
  obtain ⟨g0, g1, gl⟩ := jsfOut_digits (c + 3) k l 0 0
  exact ⟨by simpa using v0, by simpa using v1, g0, g1, gl, vl⟩

end Relic.Model.Rec
