/-
The table code of rijndaelDecrypt (src/bc/rijndael-alg-fst.c, mirrored in Model/Rijndael.lean) computes the FIPS 197
§5.3.5 Equivalent Inverse Cipher of Spec/AesEqInv.lean, for every 16-byte input and every word array that holds the
decryption round keys (in the reversed order written by rijndaelKeySetupDec). No Mathlib.
-/
import RelicVerif.Lemmas.RijndaelBase

namespace Relic.Lemmas.Rijndael.Dec
open Relic.Spec.Aes Relic.Model Relic.Gen.AesTables
open Relic.Lemmas.Aes (row mixColumn_four mixColumns_sixteen invShiftRows_sixteen exists_sixteen getD_length16
  addRoundKey_length16 invMixColumns_length invShiftRows_length invSubBytes_length)
open Relic.Lemmas.AesTables (X b3_X b2_X b1_X b0_X and_xor_r)
set_option maxRecDepth 100000

/-! ## the decryption tables in the xor form of GETU32 -/
theorem Td0_X : ∀ i, i < 256 → Td0.getD i 0 = (let x := UInt8.ofNat i; X (gmul 0x0e (invSbox x)) (gmul 0x09 (invSbox x)) (gmul 0x0d (invSbox x)) (gmul 0x0b (invSbox x))) := by
  simp only [Relic.Lemmas.AesTables.invSbox_eq]
  decide +kernel
theorem tab_Td0 (a : UInt8) : Rijndael.tab Td0 a.toUInt32 = X (gmul 0x0e (invSbox a)) (gmul 0x09 (invSbox a)) (gmul 0x0d (invSbox a)) (gmul 0x0b (invSbox a)) := by
  have := Td0_X a.toNat (UInt8.toNat_lt a)
  simpa [Rijndael.tab] using this

theorem Td1_X : ∀ i, i < 256 → Td1.getD i 0 = (let x := UInt8.ofNat i; X (gmul 0x0b (invSbox x)) (gmul 0x0e (invSbox x)) (gmul 0x09 (invSbox x)) (gmul 0x0d (invSbox x))) := by
  simp only [Relic.Lemmas.AesTables.invSbox_eq]
  decide +kernel
theorem tab_Td1 (a : UInt8) : Rijndael.tab Td1 a.toUInt32 = X (gmul 0x0b (invSbox a)) (gmul 0x0e (invSbox a)) (gmul 0x09 (invSbox a)) (gmul 0x0d (invSbox a)) := by
  have := Td1_X a.toNat (UInt8.toNat_lt a)
  simpa [Rijndael.tab] using this

theorem Td2_X : ∀ i, i < 256 → Td2.getD i 0 = (let x := UInt8.ofNat i; X (gmul 0x0d (invSbox x)) (gmul 0x0b (invSbox x)) (gmul 0x0e (invSbox x)) (gmul 0x09 (invSbox x))) := by
  simp only [Relic.Lemmas.AesTables.invSbox_eq]
  decide +kernel
theorem tab_Td2 (a : UInt8) : Rijndael.tab Td2 a.toUInt32 = X (gmul 0x0d (invSbox a)) (gmul 0x0b (invSbox a)) (gmul 0x0e (invSbox a)) (gmul 0x09 (invSbox a)) := by
  have := Td2_X a.toNat (UInt8.toNat_lt a)
  simpa [Rijndael.tab] using this

theorem Td3_X : ∀ i, i < 256 → Td3.getD i 0 = (let x := UInt8.ofNat i; X (gmul 0x09 (invSbox x)) (gmul 0x0d (invSbox x)) (gmul 0x0b (invSbox x)) (gmul 0x0e (invSbox x))) := by
  simp only [Relic.Lemmas.AesTables.invSbox_eq]
  decide +kernel
theorem tab_Td3 (a : UInt8) : Rijndael.tab Td3 a.toUInt32 = X (gmul 0x09 (invSbox a)) (gmul 0x0d (invSbox a)) (gmul 0x0b (invSbox a)) (gmul 0x0e (invSbox a)) := by
  have := Td3_X a.toNat (UInt8.toNat_lt a)
  simpa [Rijndael.tab] using this

theorem Td4_X : ∀ i, i < 256 → Td4.getD i 0 = (let x := UInt8.ofNat i; X (invSbox x) (invSbox x) (invSbox x) (invSbox x)) := by
  simp only [Relic.Lemmas.AesTables.invSbox_eq]
  decide +kernel
theorem tab_Td4 (a : UInt8) : Rijndael.tab Td4 a.toUInt32 = X (invSbox a) (invSbox a) (invSbox a) (invSbox a) := by
  have := Td4_X a.toNat (UInt8.toNat_lt a)
  simpa [Rijndael.tab] using this

/-! ## words -/

/-- the four big-endian words of a 16-byte state -/
def wordsOf (s : Bytes) : Rijndael.W4 :=
  (Rijndael.getu32 s 0, Rijndael.getu32 s 4, Rijndael.getu32 s 8, Rijndael.getu32 s 12)

theorem wordsOf_sixteen (x0 x1 x2 x3 x4 x5 x6 x7 x8 x9 x10 x11 x12 x13 x14 x15 : UInt8) :
    wordsOf [x0, x1, x2, x3, x4, x5, x6, x7, x8, x9, x10, x11, x12, x13, x14, x15] = (X x0 x1 x2 x3, X x4 x5 x6 x7, X x8 x9 x10 x11, X x12 x13 x14 x15) := rfl

theorem d_xor4 (a b c d a' b' c' d' : UInt32) :
    (a ^^^ b ^^^ c ^^^ d) ^^^ (a' ^^^ b' ^^^ c' ^^^ d') = (a ^^^ a') ^^^ (b ^^^ b') ^^^ (c ^^^ c') ^^^ (d ^^^ d') := by
  ac_rfl

theorem d_X_xor (a b c d a' b' c' d' : UInt8) :
    X a b c d ^^^ X a' b' c' d' = X (a ^^^ a') (b ^^^ b') (c ^^^ c') (d ^^^ d') := by
  unfold X
  repeat rw [UInt8.toUInt32_xor]
  repeat rw [UInt32.shiftLeft_xor]
  exact d_xor4 _ _ _ _ _ _ _ _

/-- the xor of the four Td words and of the key word is the InvMixColumns column, byte by byte -/
theorem d_word_round (p q r s k0 k1 k2 k3 : UInt8) :
    X (gmul 0x0e p) (gmul 0x09 p) (gmul 0x0d p) (gmul 0x0b p) ^^^
      X (gmul 0x0b q) (gmul 0x0e q) (gmul 0x09 q) (gmul 0x0d q) ^^^
      X (gmul 0x0d r) (gmul 0x0b r) (gmul 0x0e r) (gmul 0x09 r) ^^^
      X (gmul 0x09 s) (gmul 0x0d s) (gmul 0x0b s) (gmul 0x0e s) ^^^ X k0 k1 k2 k3 =
    X (row 0x0e 0x0b 0x0d 0x09 p q r s ^^^ k0) (row 0x09 0x0e 0x0b 0x0d p q r s ^^^ k1)
      (row 0x0d 0x09 0x0e 0x0b p q r s ^^^ k2) (row 0x0b 0x0d 0x09 0x0e p q r s ^^^ k3) := by
  unfold row
  generalize gmul 0x0e p = pe; generalize gmul 0x09 p = p9; generalize gmul 0x0d p = pd; generalize gmul 0x0b p = pb
  generalize gmul 0x0e q = qe; generalize gmul 0x09 q = q9; generalize gmul 0x0d q = qd; generalize gmul 0x0b q = qb
  generalize gmul 0x0e r = re; generalize gmul 0x09 r = r9; generalize gmul 0x0d r = rd; generalize gmul 0x0b r = rb
  generalize gmul 0x0e s = se; generalize gmul 0x09 s = s9; generalize gmul 0x0d s = sd; generalize gmul 0x0b s = sb
  unfold X
  repeat rw [UInt8.toUInt32_xor]
  repeat rw [UInt32.shiftLeft_xor]
  exact Relic.Lemmas.AesTables.xor_transpose _ _ _ _ _ _ _ _ _ _ _ _ _ _ _ _ _ _ _ _

/-! ## one table round -/

theorem decHalf_words (x0 x1 x2 x3 x4 x5 x6 x7 x8 x9 x10 x11 x12 x13 x14 x15 k0 k1 k2 k3 k4 k5 k6 k7 k8 k9 k10 k11 k12 k13 k14 k15 : UInt8) (rk : Array UInt32) (o : Nat)
    (h0 : rk.getD o 0 = X k0 k1 k2 k3) (h1 : rk.getD (o + 1) 0 = X k4 k5 k6 k7)
    (h2 : rk.getD (o + 2) 0 = X k8 k9 k10 k11) (h3 : rk.getD (o + 3) 0 = X k12 k13 k14 k15) :
    Rijndael.decHalf rk o (X x0 x1 x2 x3, X x4 x5 x6 x7, X x8 x9 x10 x11, X x12 x13 x14 x15) =
      (X (row 0x0e 0x0b 0x0d 0x09 (invSbox x0) (invSbox x13) (invSbox x10) (invSbox x7) ^^^ k0) (row 0x09 0x0e 0x0b 0x0d (invSbox x0) (invSbox x13) (invSbox x10) (invSbox x7) ^^^ k1) (row 0x0d 0x09 0x0e 0x0b (invSbox x0) (invSbox x13) (invSbox x10) (invSbox x7) ^^^ k2) (row 0x0b 0x0d 0x09 0x0e (invSbox x0) (invSbox x13) (invSbox x10) (invSbox x7) ^^^ k3),
       X (row 0x0e 0x0b 0x0d 0x09 (invSbox x4) (invSbox x1) (invSbox x14) (invSbox x11) ^^^ k4) (row 0x09 0x0e 0x0b 0x0d (invSbox x4) (invSbox x1) (invSbox x14) (invSbox x11) ^^^ k5) (row 0x0d 0x09 0x0e 0x0b (invSbox x4) (invSbox x1) (invSbox x14) (invSbox x11) ^^^ k6) (row 0x0b 0x0d 0x09 0x0e (invSbox x4) (invSbox x1) (invSbox x14) (invSbox x11) ^^^ k7),
       X (row 0x0e 0x0b 0x0d 0x09 (invSbox x8) (invSbox x5) (invSbox x2) (invSbox x15) ^^^ k8) (row 0x09 0x0e 0x0b 0x0d (invSbox x8) (invSbox x5) (invSbox x2) (invSbox x15) ^^^ k9) (row 0x0d 0x09 0x0e 0x0b (invSbox x8) (invSbox x5) (invSbox x2) (invSbox x15) ^^^ k10) (row 0x0b 0x0d 0x09 0x0e (invSbox x8) (invSbox x5) (invSbox x2) (invSbox x15) ^^^ k11),
       X (row 0x0e 0x0b 0x0d 0x09 (invSbox x12) (invSbox x9) (invSbox x6) (invSbox x3) ^^^ k12) (row 0x09 0x0e 0x0b 0x0d (invSbox x12) (invSbox x9) (invSbox x6) (invSbox x3) ^^^ k13) (row 0x0d 0x09 0x0e 0x0b (invSbox x12) (invSbox x9) (invSbox x6) (invSbox x3) ^^^ k14) (row 0x0b 0x0d 0x09 0x0e (invSbox x12) (invSbox x9) (invSbox x6) (invSbox x3) ^^^ k15)) := by
  simp only [Rijndael.decHalf, b3_X, b2_X, b1_X, b0_X, tab_Td0, tab_Td1, tab_Td2, tab_Td3, h0, h1, h2, h3,
    d_word_round]

theorem eqInvRound_explicit (x0 x1 x2 x3 x4 x5 x6 x7 x8 x9 x10 x11 x12 x13 x14 x15 k0 k1 k2 k3 k4 k5 k6 k7 k8 k9 k10 k11 k12 k13 k14 k15 : UInt8) :
    addRoundKey (invMixColumns (invShiftRows (invSubBytes [x0, x1, x2, x3, x4, x5, x6, x7, x8, x9, x10, x11, x12, x13, x14, x15]))) [k0, k1, k2, k3, k4, k5, k6, k7, k8, k9, k10, k11, k12, k13, k14, k15] =
      [(row 0x0e 0x0b 0x0d 0x09 (invSbox x0) (invSbox x13) (invSbox x10) (invSbox x7) ^^^ k0),
       (row 0x09 0x0e 0x0b 0x0d (invSbox x0) (invSbox x13) (invSbox x10) (invSbox x7) ^^^ k1),
       (row 0x0d 0x09 0x0e 0x0b (invSbox x0) (invSbox x13) (invSbox x10) (invSbox x7) ^^^ k2),
       (row 0x0b 0x0d 0x09 0x0e (invSbox x0) (invSbox x13) (invSbox x10) (invSbox x7) ^^^ k3),
       (row 0x0e 0x0b 0x0d 0x09 (invSbox x4) (invSbox x1) (invSbox x14) (invSbox x11) ^^^ k4),
       (row 0x09 0x0e 0x0b 0x0d (invSbox x4) (invSbox x1) (invSbox x14) (invSbox x11) ^^^ k5),
       (row 0x0d 0x09 0x0e 0x0b (invSbox x4) (invSbox x1) (invSbox x14) (invSbox x11) ^^^ k6),
       (row 0x0b 0x0d 0x09 0x0e (invSbox x4) (invSbox x1) (invSbox x14) (invSbox x11) ^^^ k7),
       (row 0x0e 0x0b 0x0d 0x09 (invSbox x8) (invSbox x5) (invSbox x2) (invSbox x15) ^^^ k8),
       (row 0x09 0x0e 0x0b 0x0d (invSbox x8) (invSbox x5) (invSbox x2) (invSbox x15) ^^^ k9),
       (row 0x0d 0x09 0x0e 0x0b (invSbox x8) (invSbox x5) (invSbox x2) (invSbox x15) ^^^ k10),
       (row 0x0b 0x0d 0x09 0x0e (invSbox x8) (invSbox x5) (invSbox x2) (invSbox x15) ^^^ k11),
       (row 0x0e 0x0b 0x0d 0x09 (invSbox x12) (invSbox x9) (invSbox x6) (invSbox x3) ^^^ k12),
       (row 0x09 0x0e 0x0b 0x0d (invSbox x12) (invSbox x9) (invSbox x6) (invSbox x3) ^^^ k13),
       (row 0x0d 0x09 0x0e 0x0b (invSbox x12) (invSbox x9) (invSbox x6) (invSbox x3) ^^^ k14),
       (row 0x0b 0x0d 0x09 0x0e (invSbox x12) (invSbox x9) (invSbox x6) (invSbox x3) ^^^ k15)] := by
  simp only [invSubBytes, List.map_cons, List.map_nil]
  rw [invShiftRows_sixteen]
  unfold invMixColumns
  rw [mixColumns_sixteen]
  simp only [mixColumn_four, List.cons_append, List.nil_append, addRoundKey, List.zipWith_cons_cons,
    List.zipWith_nil_left]

/-- one table round of rijndaelDecrypt on the big-endian words of a 16-byte state, with the big-endian words of a
16-byte round key at rk[o..o+3], is the round AddRoundKey(InvMixColumns(InvShiftRows(InvSubBytes(state))), key) of the
equivalent inverse cipher -/
theorem decHalf_spec (rk : Array UInt32) (o : Nat) (S K : Bytes) (hS : S.length = 16) (hK : K.length = 16)
    (hw : ∀ c, c < 4 → rk.getD (o + c) 0 = Rijndael.getu32 K (4 * c)) :
    Rijndael.decHalf rk o (wordsOf S) =
      wordsOf (addRoundKey (invMixColumns (invShiftRows (invSubBytes S))) K) := by
  obtain ⟨x0, x1, x2, x3, x4, x5, x6, x7, x8, x9, x10, x11, x12, x13, x14, x15, rfl⟩ := exists_sixteen S hS
  obtain ⟨k0, k1, k2, k3, k4, k5, k6, k7, k8, k9, k10, k11, k12, k13, k14, k15, rfl⟩ := exists_sixteen K hK
  have h0 : rk.getD o 0 = X k0 k1 k2 k3 := hw 0 (by omega)
  have h1 : rk.getD (o + 1) 0 = X k4 k5 k6 k7 := hw 1 (by omega)
  have h2 : rk.getD (o + 2) 0 = X k8 k9 k10 k11 := hw 2 (by omega)
  have h3 : rk.getD (o + 3) 0 = X k12 k13 k14 k15 := hw 3 (by omega)
  rw [eqInvRound_explicit, wordsOf_sixteen, wordsOf_sixteen]
  exact decHalf_words x0 x1 x2 x3 x4 x5 x6 x7 x8 x9 x10 x11 x12 x13 x14 x15 k0 k1 k2 k3 k4 k5 k6 k7 k8 k9 k10 k11 k12 k13 k14 k15 rk o h0 h1 h2 h3

/-! ## the last round and PUTU32 -/

theorem d_mask_facts : ∀ i, i < 256 → (let a := (UInt8.ofNat i).toUInt32;
    ((a <<< (24 : UInt32)) &&& 0xff000000 = a <<< (24 : UInt32) ∧ (a <<< (16 : UInt32)) &&& 0xff000000 = 0 ∧
     (a <<< (8 : UInt32)) &&& 0xff000000 = 0 ∧ a &&& 0xff000000 = 0) ∧
    ((a <<< (24 : UInt32)) &&& 0x00ff0000 = 0 ∧ (a <<< (16 : UInt32)) &&& 0x00ff0000 = a <<< (16 : UInt32) ∧
     (a <<< (8 : UInt32)) &&& 0x00ff0000 = 0 ∧ a &&& 0x00ff0000 = 0) ∧
    ((a <<< (24 : UInt32)) &&& 0x0000ff00 = 0 ∧ (a <<< (16 : UInt32)) &&& 0x0000ff00 = 0 ∧
     (a <<< (8 : UInt32)) &&& 0x0000ff00 = a <<< (8 : UInt32) ∧ a &&& 0x0000ff00 = 0) ∧
    ((a <<< (24 : UInt32)) &&& 0x000000ff = 0 ∧ (a <<< (16 : UInt32)) &&& 0x000000ff = 0 ∧
     (a <<< (8 : UInt32)) &&& 0x000000ff = 0 ∧ a &&& 0x000000ff = a)) := by
  decide +kernel

theorem d_X_masks (a b c d : UInt8) :
    X a b c d &&& 0xff000000 = a.toUInt32 <<< (24 : UInt32) ∧ X a b c d &&& 0x00ff0000 = b.toUInt32 <<< (16 : UInt32) ∧
    X a b c d &&& 0x0000ff00 = c.toUInt32 <<< (8 : UInt32) ∧ X a b c d &&& 0x000000ff = d.toUInt32 := by
  have ha := d_mask_facts a.toNat (UInt8.toNat_lt a)
  have hb := d_mask_facts b.toNat (UInt8.toNat_lt b)
  have hc := d_mask_facts c.toNat (UInt8.toNat_lt c)
  have hd := d_mask_facts d.toNat (UInt8.toNat_lt d)
  simp only [UInt8.ofNat_toNat] at ha hb hc hd
  obtain ⟨⟨a1, a2, a3, a4⟩, ⟨a5, a6, a7, a8⟩, ⟨a9, a10, a11, a12⟩, ⟨a13, a14, a15, a16⟩⟩ := ha
  obtain ⟨⟨b1, b2, b3, b4⟩, ⟨b5, b6, b7, b8⟩, ⟨b9, b10, b11, b12⟩, ⟨b13, b14, b15, b16⟩⟩ := hb
  obtain ⟨⟨c1, c2, c3, c4⟩, ⟨c5, c6, c7, c8⟩, ⟨c9, c10, c11, c12⟩, ⟨c13, c14, c15, c16⟩⟩ := hc
  obtain ⟨⟨d1, d2, d3, d4⟩, ⟨d5, d6, d7, d8⟩, ⟨d9, d10, d11, d12⟩, ⟨d13, d14, d15, d16⟩⟩ := hd
  unfold X
  simp only [and_xor_r, a1, b2, c3, d4, a5, b6, c7, d8, a9, b10, c11, d12, a13, b14, c15, d16,
    UInt32.xor_zero, UInt32.zero_xor]
  exact ⟨trivial, trivial, trivial, trivial⟩

theorem d_put_facts : ∀ i, i < 256 → (let a8 := UInt8.ofNat i; let a := a8.toUInt32;
    (((a <<< (24 : UInt32)) >>> (24 : UInt32)).toUInt8 = a8 ∧ ((a <<< (16 : UInt32)) >>> (24 : UInt32)).toUInt8 = 0 ∧
     ((a <<< (8 : UInt32)) >>> (24 : UInt32)).toUInt8 = 0 ∧ (a >>> (24 : UInt32)).toUInt8 = 0) ∧
    (((a <<< (24 : UInt32)) >>> (16 : UInt32)).toUInt8 = 0 ∧ ((a <<< (16 : UInt32)) >>> (16 : UInt32)).toUInt8 = a8 ∧
     ((a <<< (8 : UInt32)) >>> (16 : UInt32)).toUInt8 = 0 ∧ (a >>> (16 : UInt32)).toUInt8 = 0) ∧
    (((a <<< (24 : UInt32)) >>> (8 : UInt32)).toUInt8 = 0 ∧ ((a <<< (16 : UInt32)) >>> (8 : UInt32)).toUInt8 = 0 ∧
     ((a <<< (8 : UInt32)) >>> (8 : UInt32)).toUInt8 = a8 ∧ (a >>> (8 : UInt32)).toUInt8 = 0) ∧
    ((a <<< (24 : UInt32)).toUInt8 = 0 ∧ (a <<< (16 : UInt32)).toUInt8 = 0 ∧
     (a <<< (8 : UInt32)).toUInt8 = 0 ∧ a.toUInt8 = a8)) := by
  decide +kernel

/-- PUTU32 of GETU32 -/
theorem d_putu32_X (a b c d : UInt8) : Rijndael.putu32 (X a b c d) = [a, b, c, d] := by
  have ha := d_put_facts a.toNat (UInt8.toNat_lt a)
  have hb := d_put_facts b.toNat (UInt8.toNat_lt b)
  have hc := d_put_facts c.toNat (UInt8.toNat_lt c)
  have hd := d_put_facts d.toNat (UInt8.toNat_lt d)
  simp only [UInt8.ofNat_toNat] at ha hb hc hd
  obtain ⟨⟨a1, a2, a3, a4⟩, ⟨a5, a6, a7, a8⟩, ⟨a9, a10, a11, a12⟩, ⟨a13, a14, a15, a16⟩⟩ := ha
  obtain ⟨⟨b1, b2, b3, b4⟩, ⟨b5, b6, b7, b8⟩, ⟨b9, b10, b11, b12⟩, ⟨b13, b14, b15, b16⟩⟩ := hb
  obtain ⟨⟨c1, c2, c3, c4⟩, ⟨c5, c6, c7, c8⟩, ⟨c9, c10, c11, c12⟩, ⟨c13, c14, c15, c16⟩⟩ := hc
  obtain ⟨⟨d1, d2, d3, d4⟩, ⟨d5, d6, d7, d8⟩, ⟨d9, d10, d11, d12⟩, ⟨d13, d14, d15, d16⟩⟩ := hd
  unfold Rijndael.putu32 X
  simp only [UInt32.shiftRight_xor, UInt32.toUInt8_xor, a1, b2, c3, d4, a5, b6, c7, d8, a9, b10, c11, d12,
    a13, b14, c15, d16, UInt8.xor_zero, UInt8.zero_xor]

theorem d_last_word (p q r s k0 k1 k2 k3 : UInt8) :
    (X p p p p &&& 0xff000000) ^^^ (X q q q q &&& 0x00ff0000) ^^^ (X r r r r &&& 0x0000ff00) ^^^
      (X s s s s &&& 0x000000ff) ^^^ X k0 k1 k2 k3 = X (p ^^^ k0) (q ^^^ k1) (r ^^^ k2) (s ^^^ k3) := by
  rw [(d_X_masks p p p p).1, (d_X_masks q q q q).2.1, (d_X_masks r r r r).2.2.1, (d_X_masks s s s s).2.2.2]
  unfold X
  repeat rw [UInt8.toUInt32_xor]
  repeat rw [UInt32.shiftLeft_xor]
  exact d_xor4 _ _ _ _ _ _ _ _

/-- the text of rijndaelDecrypt after the loop: the last round (Td4 and the byte masks) and the four PUTU32 -/
def decFinal (rk : Array UInt32) (off : Nat) (t : Rijndael.W4) : List UInt8 :=
  let (t0, t1, t2, t3) := t
  let s0 := (Rijndael.tab Td4 (Rijndael.b3 t0) &&& 0xff000000) ^^^ (Rijndael.tab Td4 (Rijndael.b2 t3) &&& 0x00ff0000) ^^^
            (Rijndael.tab Td4 (Rijndael.b1 t2) &&& 0x0000ff00) ^^^ (Rijndael.tab Td4 (Rijndael.b0 t1) &&& 0x000000ff) ^^^ Rijndael.rd rk off 0
  let s1 := (Rijndael.tab Td4 (Rijndael.b3 t1) &&& 0xff000000) ^^^ (Rijndael.tab Td4 (Rijndael.b2 t0) &&& 0x00ff0000) ^^^
            (Rijndael.tab Td4 (Rijndael.b1 t3) &&& 0x0000ff00) ^^^ (Rijndael.tab Td4 (Rijndael.b0 t2) &&& 0x000000ff) ^^^ Rijndael.rd rk off 1
  let s2 := (Rijndael.tab Td4 (Rijndael.b3 t2) &&& 0xff000000) ^^^ (Rijndael.tab Td4 (Rijndael.b2 t1) &&& 0x00ff0000) ^^^
            (Rijndael.tab Td4 (Rijndael.b1 t0) &&& 0x0000ff00) ^^^ (Rijndael.tab Td4 (Rijndael.b0 t3) &&& 0x000000ff) ^^^ Rijndael.rd rk off 2
  let s3 := (Rijndael.tab Td4 (Rijndael.b3 t3) &&& 0xff000000) ^^^ (Rijndael.tab Td4 (Rijndael.b2 t2) &&& 0x00ff0000) ^^^
            (Rijndael.tab Td4 (Rijndael.b1 t1) &&& 0x0000ff00) ^^^ (Rijndael.tab Td4 (Rijndael.b0 t0) &&& 0x000000ff) ^^^ Rijndael.rd rk off 3
  Rijndael.putu32 s0 ++ Rijndael.putu32 s1 ++ Rijndael.putu32 s2 ++ Rijndael.putu32 s3

theorem decrypt_unfold (rk : Array UInt32) (nr : Nat) (ct : List UInt8) :
    Rijndael.decrypt rk nr ct =
      decFinal rk
        (Rijndael.decLoop rk (nr >>> 1) 0 (Rijndael.getu32 ct 0 ^^^ rk.getD 0 0, Rijndael.getu32 ct 4 ^^^ rk.getD 1 0,
          Rijndael.getu32 ct 8 ^^^ rk.getD 2 0, Rijndael.getu32 ct 12 ^^^ rk.getD 3 0)).1
        (Rijndael.decLoop rk (nr >>> 1) 0 (Rijndael.getu32 ct 0 ^^^ rk.getD 0 0, Rijndael.getu32 ct 4 ^^^ rk.getD 1 0,
          Rijndael.getu32 ct 8 ^^^ rk.getD 2 0, Rijndael.getu32 ct 12 ^^^ rk.getD 3 0)).2 := rfl

theorem decFinal_words (x0 x1 x2 x3 x4 x5 x6 x7 x8 x9 x10 x11 x12 x13 x14 x15 k0 k1 k2 k3 k4 k5 k6 k7 k8 k9 k10 k11 k12 k13 k14 k15 : UInt8) (rk : Array UInt32) (off : Nat)
    (h0 : Rijndael.rd rk off 0 = X k0 k1 k2 k3) (h1 : Rijndael.rd rk off 1 = X k4 k5 k6 k7)
    (h2 : Rijndael.rd rk off 2 = X k8 k9 k10 k11) (h3 : Rijndael.rd rk off 3 = X k12 k13 k14 k15) :
    decFinal rk off (X x0 x1 x2 x3, X x4 x5 x6 x7, X x8 x9 x10 x11, X x12 x13 x14 x15) =
      [(invSbox x0 ^^^ k0), (invSbox x13 ^^^ k1), (invSbox x10 ^^^ k2), (invSbox x7 ^^^ k3), (invSbox x4 ^^^ k4), (invSbox x1 ^^^ k5), (invSbox x14 ^^^ k6), (invSbox x11 ^^^ k7), (invSbox x8 ^^^ k8), (invSbox x5 ^^^ k9), (invSbox x2 ^^^ k10), (invSbox x15 ^^^ k11), (invSbox x12 ^^^ k12), (invSbox x9 ^^^ k13), (invSbox x6 ^^^ k14), (invSbox x3 ^^^ k15)] := by
  simp only [decFinal, b3_X, b2_X, b1_X, b0_X, tab_Td4, h0, h1, h2, h3, d_last_word, d_putu32_X,
    List.cons_append, List.nil_append]

theorem eqInvLast_explicit (x0 x1 x2 x3 x4 x5 x6 x7 x8 x9 x10 x11 x12 x13 x14 x15 k0 k1 k2 k3 k4 k5 k6 k7 k8 k9 k10 k11 k12 k13 k14 k15 : UInt8) :
    addRoundKey (invShiftRows (invSubBytes [x0, x1, x2, x3, x4, x5, x6, x7, x8, x9, x10, x11, x12, x13, x14, x15])) [k0, k1, k2, k3, k4, k5, k6, k7, k8, k9, k10, k11, k12, k13, k14, k15] =
      [(invSbox x0 ^^^ k0), (invSbox x13 ^^^ k1), (invSbox x10 ^^^ k2), (invSbox x7 ^^^ k3), (invSbox x4 ^^^ k4), (invSbox x1 ^^^ k5), (invSbox x14 ^^^ k6), (invSbox x11 ^^^ k7), (invSbox x8 ^^^ k8), (invSbox x5 ^^^ k9), (invSbox x2 ^^^ k10), (invSbox x15 ^^^ k11), (invSbox x12 ^^^ k12), (invSbox x9 ^^^ k13), (invSbox x6 ^^^ k14), (invSbox x3 ^^^ k15)] := by
  simp only [invSubBytes, List.map_cons, List.map_nil]
  rw [invShiftRows_sixteen]
  simp only [addRoundKey, List.zipWith_cons_cons, List.zipWith_nil_left]

/-- the last round of rijndaelDecrypt and the four PUTU32 are AddRoundKey(InvShiftRows(InvSubBytes(state)), key) -/
theorem decFinal_spec (rk : Array UInt32) (off : Nat) (T K : Bytes) (hT : T.length = 16) (hK : K.length = 16)
    (hw : ∀ c, c < 4 → rk.getD (off + c) 0 = Rijndael.getu32 K (4 * c)) :
    decFinal rk off (wordsOf T) = addRoundKey (invShiftRows (invSubBytes T)) K := by
  obtain ⟨x0, x1, x2, x3, x4, x5, x6, x7, x8, x9, x10, x11, x12, x13, x14, x15, rfl⟩ := exists_sixteen T hT
  obtain ⟨k0, k1, k2, k3, k4, k5, k6, k7, k8, k9, k10, k11, k12, k13, k14, k15, rfl⟩ := exists_sixteen K hK
  have h0 : Rijndael.rd rk off 0 = X k0 k1 k2 k3 := hw 0 (by omega)
  have h1 : Rijndael.rd rk off 1 = X k4 k5 k6 k7 := hw 1 (by omega)
  have h2 : Rijndael.rd rk off 2 = X k8 k9 k10 k11 := hw 2 (by omega)
  have h3 : Rijndael.rd rk off 3 = X k12 k13 k14 k15 := hw 3 (by omega)
  rw [eqInvLast_explicit, wordsOf_sixteen]
  exact decFinal_words x0 x1 x2 x3 x4 x5 x6 x7 x8 x9 x10 x11 x12 x13 x14 x15 k0 k1 k2 k3 k4 k5 k6 k7 k8 k9 k10 k11 k12 k13 k14 k15 rk off h0 h1 h2 h3

/-- the initial whitening -/
theorem decInit_spec (rk : Array UInt32) (C K : Bytes) (hC : C.length = 16) (hK : K.length = 16)
    (hw : ∀ c, c < 4 → rk.getD (0 + c) 0 = Rijndael.getu32 K (4 * c)) :
    (Rijndael.getu32 C 0 ^^^ rk.getD 0 0, Rijndael.getu32 C 4 ^^^ rk.getD 1 0,
      Rijndael.getu32 C 8 ^^^ rk.getD 2 0, Rijndael.getu32 C 12 ^^^ rk.getD 3 0) = wordsOf (addRoundKey C K) := by
  obtain ⟨x0, x1, x2, x3, x4, x5, x6, x7, x8, x9, x10, x11, x12, x13, x14, x15, rfl⟩ := exists_sixteen C hC
  obtain ⟨k0, k1, k2, k3, k4, k5, k6, k7, k8, k9, k10, k11, k12, k13, k14, k15, rfl⟩ := exists_sixteen K hK
  have h0 : rk.getD 0 0 = X k0 k1 k2 k3 := hw 0 (by omega)
  have h1 : rk.getD 1 0 = X k4 k5 k6 k7 := hw 1 (by omega)
  have h2 : rk.getD 2 0 = X k8 k9 k10 k11 := hw 2 (by omega)
  have h3 : rk.getD 3 0 = X k12 k13 k14 k15 := hw 3 (by omega)
  rw [h0, h1, h2, h3]
  simp only [addRoundKey, List.zipWith_cons_cons, List.zipWith_nil_left, wordsOf_sixteen]
  rw [show Rijndael.getu32 [x0, x1, x2, x3, x4, x5, x6, x7, x8, x9, x10, x11, x12, x13, x14, x15] 0 = X x0 x1 x2 x3 from rfl, show Rijndael.getu32 [x0, x1, x2, x3, x4, x5, x6, x7, x8, x9, x10, x11, x12, x13, x14, x15] 4 = X x4 x5 x6 x7 from rfl,
    show Rijndael.getu32 [x0, x1, x2, x3, x4, x5, x6, x7, x8, x9, x10, x11, x12, x13, x14, x15] 8 = X x8 x9 x10 x11 from rfl, show Rijndael.getu32 [x0, x1, x2, x3, x4, x5, x6, x7, x8, x9, x10, x11, x12, x13, x14, x15] 12 = X x12 x13 x14 x15 from rfl]
  simp only [d_X_xor]

/-! ## the loop -/

/-- the words of the i-th decryption round key (the array holds them in reverse order) -/
theorem rk_words (rk : Array UInt32) (dk : List Bytes) (nr : Nat) (hok : RkOK rk dk.reverse)
    (hlen : dk.length = nr + 1) (i : Nat) (hi : i ≤ nr) :
    ∀ c, c < 4 → rk.getD (4 * i + c) 0 = Rijndael.getu32 (dk.getD (nr - i) []) (4 * c) := by
  intro c hc
  have h := hok i (by rw [List.length_reverse, hlen]; omega) c hc
  have hrev : dk.reverse.getD i [] = dk.getD (nr - i) [] := by
    rw [List.getD_eq_getElem?_getD, List.getD_eq_getElem?_getD, List.getElem?_reverse (by rw [hlen]; omega)]
    have : dk.length - 1 - i = nr - i := by omega
    rw [this]
  rw [h, hrev]

/-- the round body of eqInvCipher -/
def dbody (dk : List Bytes) (nr : Nat) (s : Bytes) (r : Nat) : Bytes :=
  addRoundKey (invMixColumns (invShiftRows (invSubBytes s))) (dk.getD (nr - 1 - r) [])

theorem dbody_length (dk : List Bytes) (nr : Nat) (hlen : dk.length = nr + 1) (hk : ∀ k ∈ dk, k.length = 16)
    (s : Bytes) (r : Nat) : (dbody dk nr s r).length = 16 :=
  addRoundKey_length16 _ _ (invMixColumns_length _) (getD_length16 dk hk _ (by omega))

theorem decHalf_round (rk : Array UInt32) (dk : List Bytes) (nr : Nat) (hok : RkOK rk dk.reverse)
    (hlen : dk.length = nr + 1) (hk : ∀ k ∈ dk, k.length = 16) (j : Nat) (hj : j + 1 ≤ nr)
    (S : Bytes) (hS : S.length = 16) (o : Nat) (ho : o = 4 * (j + 1)) :
    Rijndael.decHalf rk o (wordsOf S) = wordsOf (dbody dk nr S j) := by
  subst ho
  have hw := rk_words rk dk nr hok hlen (j + 1) hj
  have e : nr - (j + 1) = nr - 1 - j := by omega
  rw [e] at hw
  exact decHalf_spec rk _ S _ hS (getD_length16 dk hk _ (by omega)) hw

theorem decLoop_spec (rk : Array UInt32) (dk : List Bytes) (nr : Nat) (hok : RkOK rk dk.reverse)
    (hlen : dk.length = nr + 1) (hk : ∀ k ∈ dk, k.length = 16) (R : Nat) :
    ∀ (j0 : Nat) (S : Bytes), S.length = 16 → j0 + 2 * R + 2 ≤ nr →
      Rijndael.decLoop rk (R + 1) (4 * j0) (wordsOf S) =
        (4 * j0 + 8 * (R + 1), wordsOf ((List.range' j0 (2 * R + 1)).foldl (dbody dk nr) S)) := by
  induction R with
  | zero =>
    intro j0 S hS hj
    have h1 := decHalf_round rk dk nr hok hlen hk j0 (by omega) S hS (4 * j0 + 4) (by omega)
    simp only [Rijndael.decLoop, beq_self_eq_true, if_true, h1]
    rfl
  | succ R ih =>
    intro j0 S hS hj
    have h1 := decHalf_round rk dk nr hok hlen hk j0 (by omega) S hS (4 * j0 + 4) (by omega)
    have hS1 := dbody_length dk nr hlen hk S j0
    have h2 := decHalf_round rk dk nr hok hlen hk (j0 + 1) (by omega) _ hS1 (4 * j0 + 8) (by omega)
    have hS2 := dbody_length dk nr hlen hk (dbody dk nr S j0) (j0 + 1)
    have h3 := ih (j0 + 2) _ hS2 (by omega)
    have hne : (R + 1 == 0) = false := by simp
    have e8 : 4 * j0 + 8 = 4 * (j0 + 2) := by omega
    have er : 2 * (R + 1) + 1 = (2 * R + 1) + 1 + 1 := by omega
    rw [Rijndael.decLoop]
    simp only [hne, h1, h2, Bool.false_eq_true, if_false]
    rw [e8, h3, er, List.range'_succ, List.range'_succ, List.foldl_cons, List.foldl_cons]
    refine Prod.ext (by simp only []; omega) rfl

theorem eqInvCipher_unfold (dk : List Bytes) (nr : Nat) (hlen : dk.length = nr + 1) (ct : Bytes) :
    eqInvCipher dk ct =
      addRoundKey (invShiftRows (invSubBytes
        ((List.range' 0 (nr - 1)).foldl (dbody dk nr) (addRoundKey ct (dk.getD nr []))))) (dk.getD 0 []) := by
  simp only [eqInvCipher, hlen, Nat.add_sub_cancel, List.range_eq_range']
  rfl

theorem dfold_length (dk : List Bytes) (nr : Nat) (hlen : dk.length = nr + 1) (hk : ∀ k ∈ dk, k.length = 16)
    (l : List Nat) (s : Bytes) (hs : s.length = 16) : (l.foldl (dbody dk nr) s).length = 16 := by
  induction l generalizing s with
  | nil => exact hs
  | cons r l ih => exact ih _ (dbody_length dk nr hlen hk s r)

/-- rijndaelDecrypt over the word array holding the decryption round keys `dk` (in the reversed order written by
rijndaelKeySetupDec) is the FIPS 197 §5.3.5 equivalent inverse cipher -/
theorem decrypt_eq (rk : Array UInt32) (dk : List Bytes) (nr : Nat) (hok : RkOK rk dk.reverse)
    (hlen : dk.length = nr + 1) (hnr : nr = 10 ∨ nr = 12 ∨ nr = 14) (hk : ∀ k ∈ dk, k.length = 16)
    (ct : Bytes) (hct : ct.length = 16) : Rijndael.decrypt rk nr ct = eqInvCipher dk ct := by
  have hsh : nr >>> 1 = (nr / 2 - 1) + 1 := by
    rcases hnr with rfl | rfl | rfl <;> rfl
  have hodd : 2 * (nr / 2 - 1) + 1 = nr - 1 := by omega
  have hKn : (dk.getD nr []).length = 16 := getD_length16 dk hk _ (by omega)
  have hK0 : (dk.getD 0 []).length = 16 := getD_length16 dk hk _ (by omega)
  have hw0 := rk_words rk dk nr hok hlen 0 (by omega)
  have hwn := rk_words rk dk nr hok hlen nr (Nat.le_refl _)
  rw [Nat.sub_zero] at hw0
  rw [Nat.sub_self] at hwn
  have hS0 : (addRoundKey ct (dk.getD nr [])).length = 16 := addRoundKey_length16 _ _ hct hKn
  have hloop := decLoop_spec rk dk nr hok hlen hk (nr / 2 - 1) 0 _ hS0 (by omega)
  rw [decrypt_unfold, decInit_spec rk ct _ hct hKn (by simpa using hw0), hsh]
  rw [show (0 : Nat) = 4 * 0 from rfl, hloop, hodd, eqInvCipher_unfold dk nr hlen]
  simp only []
  have eoff : 4 * 0 + 8 * (nr / 2 - 1 + 1) = 4 * nr := by omega
  rw [eoff]
  exact decFinal_spec rk _ _ _ (dfold_length dk nr hlen hk _ _ hS0) hK0 hwn

end Relic.Lemmas.Rijndael.Dec
