/-
The instrumented ladder / regular-recoding models of Model/CtAlg.lean compute what the algorithm models of C03
compute, and their operation logs are functions of the public lengths only.
-/
import RelicVerif.Model.CtAlg

namespace Relic.Model.CtAlg
open Relic.Model.MulAlg

variable {G : Type}

/-! ### helpers -/

/-- two folds over the same list stay related if every step preserves the relation -/
private theorem foldl_rel {α β γ : Type} (R : α → γ → Prop) (f : α → β → α) (g : γ → β → γ)
    (h : ∀ a c b, R a c → R (f a b) (g c b)) (bs : List β) (a : α) (c : γ) (h0 : R a c) :
    R (bs.foldl f a) (bs.foldl g c) := by
  induction bs generalizing a c with
  | nil => exact h0
  | cons b bs ih => exact ih _ _ (h a c b h0)

/-- an invariant indexed by the number of steps -/
private theorem foldl_cnt {α β : Type} (P : Nat → α → Prop) (f : α → β → α)
    (h : ∀ n a b, P n a → P (n + 1) (f a b)) (bs : List β) (a : α) (h0 : P 0 a) :
    P bs.length (bs.foldl f a) := by
  have key : ∀ (bs : List β) (a : α) (n : Nat), P n a → P (n + bs.length) (bs.foldl f a) := by
    intro bs
    induction bs with
    | nil => intro a n hn; exact hn
    | cons b bs ih =>
      intro a n hn
      have := ih (f a b) (n + 1) (h n a b hn)
      rw [List.length_cons, List.foldl_cons, Nat.add_comm bs.length 1, ← Nat.add_assoc]
      exact this
  have := key bs a 0 h0
  rwa [Nat.zero_add] at this

private theorem log_step (lg0 lg blk : Log) (n : Nat) (h : lg = lg0 ++ (List.replicate n blk).flatten) :
    lg ++ blk = lg0 ++ (List.replicate (n + 1) blk).flatten := by
  rw [h, List.replicate_succ', List.flatten_append, List.append_assoc]
  simp

/-! ### Montgomery ladder -/

theorem ladderI_value (o : Ops G) (hc : ∀ a b, o.add a b = o.add b a) (coords : Nat) (p : G) (bs : List Bool) :
    (ladderI o coords p bs).1 = mulLadder o p bs := by
  unfold ladderI mulLadder
  simp only []
  refine congrArg Prod.fst (foldl_rel (fun (st : (G × G) × Log) (t : G × G) => st.1 = t) _ _ ?_ bs _ _ rfl)
  intro st t b h
  subst h
  cases b
  · simp [cswap, hc st.1.2 st.1.1]
  · simp [cswap]

theorem ladderI_log (o : Ops G) (coords : Nat) (p : G) (bs : List Bool) :
    (ladderI o coords p bs).2 = ladderLog coords bs.length := by
  unfold ladderI ladderLog
  simp only []
  refine congrArg (· ++ ['Z']) (foldl_cnt (fun n (st : (G × G) × Log) => st.2 = ['s', 'Z', 'D', 'B', 'B'] ++
    (List.replicate n (List.replicate coords 's' ++ ['A', 'D'] ++ List.replicate coords 's')).flatten)
    _ ?_ bs _ (by simp))
  intro n st b h
  simp only [List.append_assoc] at h ⊢
  exact log_step _ _ _ n h

/-! ### masked table scan and regular recoding -/

private theorem scan_fold (tab : List G) (dflt : G) (idx : Nat) (n : Nat) :
    (List.range n).foldl (fun u j => ccopy (j == idx) u (tab.getD j dflt)) dflt
      = if idx < n then tab.getD idx dflt else dflt := by
  induction n with
  | zero => simp
  | succ n ih =>
    rw [List.range_succ, List.foldl_append, ih]
    simp only [List.foldl_cons, List.foldl_nil, ccopy]
    by_cases h : n = idx
    · subst h; simp
    · have h1 : (n == idx) = false := by simpa using h
      simp only [h1]
      by_cases h2 : idx < n
      · have : idx < n + 1 := by omega
        simp [h2, this]
      · have : ¬ idx < n + 1 := by omega
        simp [h2, this]

theorem scanI_value (tab : List G) (dflt : G) (idx cpe : Nat) : (scanI tab dflt idx cpe).1 = tab.getD idx dflt := by
  unfold scanI
  simp only []
  rw [scan_fold]
  by_cases h : idx < tab.length
  · simp [h]
  · simp only [h, if_false]
    rw [List.getD_eq_getElem?_getD, List.getElem?_eq_none (by omega)]
    rfl

private theorem scanI_log (tab : List G) (dflt : G) (idx cpe : Nat) :
    (scanI tab dflt idx cpe).2 = (List.replicate tab.length (List.replicate cpe 'c')).flatten := rfl

theorem regI_value (o : Ops G) (tab : List G) (dflt : G) (w cpe : Nat) (reg : List Int) (even : Bool) (p : G) :
    (regI o tab dflt w cpe reg even p).1 = mulReg o tab dflt w reg even p := by
  unfold regI mulReg
  simp only []
  have key := foldl_rel (fun (st : G × Log) (r : G) => st.1 = r)
    (fun (st : G × Log) (d : Int) =>
      (o.add (dblN o (w - 1) st.fst)
          (ccopy (decide (d < 0)) (scanI tab dflt (d.natAbs / 2) cpe).fst
            (o.neg (scanI tab dflt (d.natAbs / 2) cpe).fst)),
        st.snd ++ List.replicate (w - 1) 'D' ++ (scanI tab dflt (d.natAbs / 2) cpe).snd ++ ['N', 'c', 'A']))
    (fun r d => o.add (dblN o (w - 1) r)
      (if d < 0 then o.neg (tab.getD (d.natAbs / 2) dflt) else tab.getD (d.natAbs / 2) dflt))
    (by
      intro st r d h
      subst h
      simp only [scanI_value, ccopy, decide_eq_true_eq])
    reg.reverse (o.zero, ['T', 'r']) o.zero rfl
  rw [key]
  cases even <;> simp [ccopy]

theorem regI_log (o : Ops G) (tab : List G) (dflt : G) (w cpe : Nat) (reg : List Int) (even : Bool) (p : G) :
    (regI o tab dflt w cpe reg even p).2 = regLog w cpe tab.length reg.length := by
  unfold regI regLog
  simp only []
  rw [← List.length_reverse (as := reg)]
  refine congrArg (· ++ ['U', 'c', 'c', 'c', 'Z', 'N', 'c']) (foldl_cnt (fun n (st : G × Log) => st.2 = ['T', 'r'] ++
    (List.replicate n (List.replicate (w - 1) 'D' ++ (List.replicate tab.length (List.replicate cpe 'c')).flatten
      ++ ['N', 'c', 'A'])).flatten)
    _ ?_ reg.reverse _ (by simp))
  intro n st d h
  simp only [scanI_log, List.append_assoc] at h ⊢
  exact log_step _ _ _ n h

/-! ### exponentiation ladder -/

theorem expLadderI_log (mul : G → G → G) (one a : G) (bs : List Bool) (perBit : Log) :
    (expLadderI mul one a bs perBit).2 = expLadderLog bs.length perBit := by
  unfold expLadderI expLadderLog
  simp only []
  refine foldl_cnt (fun n (st : (G × G) × Log) => st.2 = (List.replicate n perBit).flatten) _ ?_ bs _ (by simp)
  intro n st b h
  simpa using log_step [] _ perBit n (by simpa using h)

/-- a^n in the structure (mul, one) -/
private def powN (mul : G → G → G) (one a : G) (n : Nat) : G := Nat.rec one (fun _ acc => mul acc a) n

private theorem powN_zero (mul : G → G → G) (one a : G) : powN mul one a 0 = one := rfl
private theorem powN_succ (mul : G → G → G) (one a : G) (n : Nat) :
    powN mul one a (n + 1) = mul (powN mul one a n) a := rfl

private theorem powN_add (mul : G → G → G) (one a : G) (hassoc : ∀ x y z, mul (mul x y) z = mul x (mul y z))
    (hcomm : ∀ x y, mul x y = mul y x) (hone : ∀ x, mul one x = x) (m n : Nat) :
    powN mul one a (m + n) = mul (powN mul one a m) (powN mul one a n) := by
  induction n with
  | zero => rw [Nat.add_zero, powN_zero, hcomm, hone]
  | succ n ih => rw [← Nat.add_assoc, powN_succ, ih, powN_succ, hassoc]

/-- the exponentiation ladder computes a^e for e = the number whose bits (most significant first) are bs, in any
    commutative monoid-like structure given by `mul`, `one` with the usual laws -/
theorem expLadderI_value (mul : G → G → G) (one a : G) (hassoc : ∀ x y z, mul (mul x y) z = mul x (mul y z))
    (hcomm : ∀ x y, mul x y = mul y x) (hone : ∀ x, mul one x = x) (bs : List Bool) (perBit : Log) :
    (expLadderI mul one a bs perBit).1 =
      Nat.rec one (fun _ acc => mul acc a) (bs.foldl (fun n b => 2 * n + (if b then 1 else 0)) 0) := by
  have hadd := powN_add mul one a hassoc hcomm hone
  unfold expLadderI
  simp only []
  have key := foldl_rel
    (fun (st : (G × G) × Log) (n : Nat) => st.1 = (powN mul one a n, powN mul one a (n + 1)))
    (fun (st : (G × G) × Log) (b : Bool) =>
      (((cswap (!b) (mul (cswap (!b) st.fst.fst st.fst.snd).fst (cswap (!b) st.fst.fst st.fst.snd).snd)
              (mul (cswap (!b) st.fst.fst st.fst.snd).snd (cswap (!b) st.fst.fst st.fst.snd).snd)).fst,
          (cswap (!b) (mul (cswap (!b) st.fst.fst st.fst.snd).fst (cswap (!b) st.fst.fst st.fst.snd).snd)
              (mul (cswap (!b) st.fst.fst st.fst.snd).snd (cswap (!b) st.fst.fst st.fst.snd).snd)).snd),
        st.snd ++ perBit))
    (fun n b => 2 * n + (if b then 1 else 0))
    (by
      intro st n b h
      cases b
      · simp only [h, cswap, Bool.not_false, if_true, Bool.false_eq_true, if_false, Nat.add_zero]
        rw [← hadd, ← hadd]
        congr 2 <;> omega
      · simp only [h, cswap, Bool.not_true, if_true, Bool.false_eq_true, if_false]
        rw [← hadd, ← hadd]
        congr 2 <;> omega)
    bs ((one, a), []) 0
    (by show (one, a) = _; rw [Nat.zero_add, powN_succ, powN_zero, hone])
  rw [key]
  rfl

end Relic.Model.CtAlg
