/-
Multiplication, squaring (every algorithm variant) and division of the public bn_* layer of the model.
-/
import RelicVerif.Lemmas.BnHigh

namespace Relic.Model

variable (cfg : Cfg)

theorem bnMulDig_exact (hw : 0 < cfg.w) (a : Bn) (d : Nat) (ha : a.WF cfg.B) (hd : d < cfg.B) :
    ExactR cfg.B (bnMulDig cfg a d) (a.toInt cfg.B * d) := by sorry

theorem bnMulBasic_exact (hw : 0 < cfg.w) (a b : Bn) (ha : a.WF cfg.B) (hb : b.WF cfg.B) :
    ExactR cfg.B (bnMulBasic cfg a b) (a.toInt cfg.B * b.toInt cfg.B) := by sorry

theorem bnMulComba_exact (hw : 0 < cfg.w) (a b : Bn) (ha : a.WF cfg.B) (hb : b.WF cfg.B)
    (hs : min a.used b.used < cfg.B) :
    ExactR cfg.B (bnMulComba cfg a b) (a.toInt cfg.B * b.toInt cfg.B) := by sorry

theorem bnMulKarat_exact (hw : 0 < cfg.w) (a b : Bn) (ha : a.WF cfg.B) (hb : b.WF cfg.B)
    (hs : max a.used b.used + 1 < cfg.B) :
    ExactR cfg.B (bnMulKarat cfg a b) (a.toInt cfg.B * b.toInt cfg.B) := by sorry

theorem bnSqrComba_exact (hw : 0 < cfg.w) (a : Bn) (ha : a.WF cfg.B) (hs : a.used < cfg.B) :
    ExactR cfg.B (bnSqrComba cfg a) (a.toInt cfg.B * a.toInt cfg.B) := by sorry

theorem bnSqrKarat_exact (hw : 0 < cfg.w) (a : Bn) (ha : a.WF cfg.B) (hs : a.used + 1 < cfg.B) :
    ExactR cfg.B (bnSqrKarat cfg a) (a.toInt cfg.B * a.toInt cfg.B) := by sorry

theorem bnMul_total (a b : Bn) (h : a.used + b.used ≤ cfg.cap) :
    (bnMulBasic cfg a b).isSome ∧ (bnMulComba cfg a b).isSome := by sorry

theorem bnDivRem_exact (hw : 2 ≤ cfg.w) (a b : Bn) (ha : a.WF cfg.B) (hb : b.WF cfg.B) :
    ∀ q r tr, bnDivRem cfg a b = some (q, r, tr) →
      q.WF cfg.B ∧ r.WF cfg.B ∧ q.toInt cfg.B = Int.fdiv (a.toInt cfg.B) (b.toInt cfg.B)
      ∧ r.toInt cfg.B = Int.fmod (a.toInt cfg.B) (b.toInt cfg.B) := by sorry

theorem bnDivRem_zero (a b : Bn) (hb : b.toInt cfg.B = 0) (hbw : b.WF cfg.B) : bnDivRem cfg a b = none := by
  sorry

theorem bnDivRemDig_exact (hw : 0 < cfg.w) (a : Bn) (b : Nat) (ha : a.WF cfg.B) (hb0 : 0 < b)
    (hbB : b < cfg.B) (hg : 0 ≤ a.toInt cfg.B ∨ (b : Int) ∣ a.toInt cfg.B) :
    ∀ q r, bnDivRemDig cfg a b = some (q, r) →
      q.WF cfg.B ∧ q.toInt cfg.B = Int.fdiv (a.toInt cfg.B) b ∧ (r : Int) = Int.fmod (a.toInt cfg.B) b := by
  sorry

end Relic.Model
