/-
Multiplication, squaring (every algorithm variant) and division of the public bn_* layer of the model.
-/
import RelicVerif.Lemmas.BnHigh

namespace Relic.Model

variable (cfg : Cfg)

set_option linter.unnecessarySeqFocus false

/-! ### helpers -/

theorem HighMul.grow_ok {n : Nat} (h : ¬ n > cfg.cap) : grow cfg n = some () := by
  unfold grow; rw [if_neg h]

theorem HighMul.grow_fail {n : Nat} (h : n > cfg.cap) : grow cfg n = none := by
  unfold grow; rw [if_pos h]

/-- the common last step of every multiplication: trim a digit vector of value |a|·|b| -/
theorem HighMul.mul_fin {B : Nat} (hB : 0 < B) (a b : Bn) (l : List Nat) (hl : ∀ d ∈ l, d < B)
    (hv : val B l = val B a.dp * val B b.dp) :
    (bnTrim { neg := a.neg != b.neg, dp := l }).WF B ∧
    (bnTrim { neg := a.neg != b.neg, dp := l }).toInt B = a.toInt B * b.toInt B := by
  have := bnTrim_exact (B := B) hB (a.neg != b.neg) l hl
  refine ⟨this.1, ?_⟩
  rw [this.2, hv]
  unfold Bn.toInt
  cases a.neg <;> cases b.neg <;> simp

theorem bnMulDig_eq (a : Bn) (d : Nat) : bnMulDig cfg a d =
    if a.used + 1 > cfg.cap then none
    else some (bnTrim { neg := a.neg, dp := (mul1Low cfg.B a.dp d 0).1 ++ [(mul1Low cfg.B a.dp d 0).2] }) := by
  unfold bnMulDig
  by_cases h : a.used + 1 > cfg.cap
  · rw [if_pos h, HighMul.grow_fail cfg h]; rfl
  · rw [if_neg h, HighMul.grow_ok cfg h]; rfl

theorem bnMulDig_exact (hw : 0 < cfg.w) (a : Bn) (d : Nat) (ha : a.WF cfg.B) (hd : d < cfg.B) :
    ExactR cfg.B (bnMulDig cfg a d) (a.toInt cfg.B * d) := by
  have hB := cfg.one_lt_B hw
  intro c hc
  rw [bnMulDig_eq] at hc
  split at hc
  · exact absurd hc (by simp)
  simp only [Option.some.injEq] at hc
  subst hc
  obtain ⟨e, c1, d1, l1⟩ := mul1Low_spec cfg.B hB a.dp d 0 hd (by omega) ha.dig
  generalize mul1Low cfg.B a.dp d 0 = p at *
  obtain ⟨q, cy⟩ := p
  simp only at e c1 d1 l1 ⊢
  have hdq : ∀ x ∈ q ++ [cy], x < cfg.B := by
    intro x hx
    rcases List.mem_append.1 hx with hx | hx
    · exact d1 x hx
    · simp at hx; omega
  have := bnTrim_exact (B := cfg.B) (by omega) a.neg (q ++ [cy]) hdq
  refine ⟨this.1, ?_⟩
  rw [this.2, High.val_snoc, l1, Nat.mul_comm _ cy, e]
  unfold Bn.toInt
  cases a.neg <;> simp

theorem bnMulComba_eq (a b : Bn) : bnMulComba cfg a b =
    if a.used + b.used > cfg.cap then none
    else some (bnTrim { neg := a.neg != b.neg, dp :=
      (if a.used = b.used then mulnLow cfg.B a.dp b.dp a.used
       else if a.used > b.used then muldLow cfg.B a.dp a.used b.dp b.used
       else muldLow cfg.B b.dp b.used a.dp a.used) }) := by
  unfold bnMulComba
  by_cases h : a.used + b.used > cfg.cap
  · rw [if_pos h, HighMul.grow_fail cfg h]; rfl
  · rw [if_neg h, HighMul.grow_ok cfg h]; rfl

theorem bnMulComba_exact (hw : 0 < cfg.w) (a b : Bn) (ha : a.WF cfg.B) (hb : b.WF cfg.B)
    (hs : min a.used b.used < cfg.B) :
    ExactR cfg.B (bnMulComba cfg a b) (a.toInt cfg.B * b.toInt cfg.B) := by
  have hB := cfg.one_lt_B hw
  intro c hc
  rw [bnMulComba_eq] at hc
  split at hc
  · exact absurd hc (by simp)
  simp only [Option.some.injEq] at hc
  subst hc
  have hua := ha.used_pos
  have hub := hb.used_pos
  apply HighMul.mul_fin (by omega) a b
  · split
    · rename_i he
      exact (mulnLow_spec cfg.B hB a.dp b.dp a.used rfl he.symm (by omega) ha.dig hb.dig).2.2
    · split
      · exact (muldLow_spec cfg.B hB a.dp b.dp a.used b.used rfl rfl (by omega) (by omega) (by omega)
          ha.dig hb.dig).2.2
      · exact (muldLow_spec cfg.B hB b.dp a.dp b.used a.used rfl rfl (by omega) (by omega) (by omega)
          hb.dig ha.dig).2.2
  · split
    · rename_i he
      exact (mulnLow_spec cfg.B hB a.dp b.dp a.used rfl he.symm (by omega) ha.dig hb.dig).1
    · split
      · exact (muldLow_spec cfg.B hB a.dp b.dp a.used b.used rfl rfl (by omega) (by omega) (by omega)
          ha.dig hb.dig).1
      · rw [(muldLow_spec cfg.B hB b.dp a.dp b.used a.used rfl rfl (by omega) (by omega) (by omega)
          hb.dig ha.dig).1, Nat.mul_comm]

theorem bnSqrComba_eq (a : Bn) : bnSqrComba cfg a =
    if 2 * a.used > cfg.cap then none
    else some (bnTrim { neg := false, dp := sqrnLow cfg.B a.dp a.used }) := by
  unfold bnSqrComba
  by_cases h : 2 * a.used > cfg.cap
  · rw [if_pos h, HighMul.grow_fail cfg h]; rfl
  · rw [if_neg h, HighMul.grow_ok cfg h]; rfl

theorem bnSqrComba_exact (hw : 0 < cfg.w) (a : Bn) (ha : a.WF cfg.B) (hs : a.used < cfg.B) :
    ExactR cfg.B (bnSqrComba cfg a) (a.toInt cfg.B * a.toInt cfg.B) := by
  have hB := cfg.one_lt_B hw
  intro c hc
  rw [bnSqrComba_eq] at hc
  split at hc
  · exact absurd hc (by simp)
  simp only [Option.some.injEq] at hc
  subst hc
  obtain ⟨e, _, d1⟩ := sqrnLow_spec cfg.B hB a.dp a.used rfl hs ha.dig
  have := HighMul.mul_fin (B := cfg.B) (by omega) a a _ d1 e
  simpa using this

theorem bnMul_total (a b : Bn) (h : a.used + b.used ≤ cfg.cap) :
    (bnMulBasic cfg a b).isSome ∧ (bnMulComba cfg a b).isSome := by
  constructor
  · unfold bnMulBasic
    rw [HighMul.grow_ok cfg (by omega)]; rfl
  · rw [bnMulComba_eq, if_neg (by omega)]; rfl

/-! ### bn_mul_basic -/

theorem HighMul.step_shape (lo seg : List Nat) (k i m cy : Nat) (hlo : lo.length = i + m)
    (hseg : seg.length = m) :
    (splice (lo ++ List.replicate (k + 1) 0) i seg).set (i + m) cy
      = (lo.take i ++ seg ++ [cy]) ++ List.replicate k 0 := by
  unfold splice
  have h1 : (lo ++ List.replicate (k + 1) 0).take i = lo.take i :=
    List.take_append_of_le_length (by omega)
  have h2 : (lo ++ List.replicate (k + 1) 0).drop (i + seg.length) = List.replicate (k + 1) 0 := by
    rw [hseg, ← hlo]; exact List.drop_left
  rw [h1, h2, List.replicate_succ]
  have h3 : (lo.take i ++ seg).length = i + m := by
    rw [List.length_append, List.length_take, hseg]; omega
  rw [← h3, List.set_append_right _ _ (Nat.le_refl _)]
  simp

theorem HighMul.seg_shape (lo rest : List Nat) (i m : Nat) (hlo : lo.length = i + m) :
    ((lo ++ rest).drop i).take m = lo.drop i := by
  rw [List.drop_append_of_le_length (by omega)]
  apply List.take_left'
  rw [List.length_drop]; omega

def mulBasicStep (B : Nat) (a b : List Nat) (t : List Nat) (i : Nat) : List Nat :=
  (splice t i (mulaLow B ((t.drop i).take b.length) b (a.getD i 0) 0).1).set (i + b.length)
    (mulaLow B ((t.drop i).take b.length) b (a.getD i 0) 0).2

theorem bnMulBasic_eq (a b : Bn) : bnMulBasic cfg a b =
    if a.used + b.used > cfg.cap then none
    else some (bnTrim { neg := a.neg != b.neg, dp :=
      (List.range a.used).foldl (mulBasicStep cfg.B a.dp b.dp) (List.replicate (a.used + b.used) 0) }) := by
  unfold bnMulBasic
  by_cases h : a.used + b.used > cfg.cap
  · rw [if_pos h, HighMul.grow_fail cfg h]; rfl
  · rw [if_neg h, HighMul.grow_ok cfg h]; rfl

theorem HighMul.val_zeros (B n : Nat) : val B (List.replicate n 0) = 0 := by
  have := High.val_replicate_zero B n []
  simpa [val] using this

theorem HighMul.basic_inv (B : Nat) (hB : 1 < B) (a b : List Nat) (ha : ∀ d ∈ a, d < B)
    (hb : ∀ d ∈ b, d < B) :
    ∀ i, i ≤ a.length → ∃ lo,
      (List.range i).foldl (mulBasicStep B a b) (List.replicate (a.length + b.length) 0)
        = lo ++ List.replicate (a.length - i) 0
      ∧ lo.length = i + b.length ∧ (∀ d ∈ lo, d < B) ∧ val B lo = val B (a.take i) * val B b := by
  intro i
  induction i with
  | zero =>
    intro _
    refine ⟨List.replicate b.length 0, ?_, by simp, ?_, ?_⟩
    · rw [Nat.sub_zero, List.replicate_append_replicate, Nat.add_comm]; rfl
    · intro d hd; rw [List.mem_replicate] at hd; omega
    · rw [HighMul.val_zeros]; simp [val]
  | succ i ih =>
    intro hi
    obtain ⟨lo, e, hl, hd, hv⟩ := ih (by omega)
    have hk : a.length - i = (a.length - (i + 1)) + 1 := by omega
    rw [List.range_succ, List.foldl_append, e, hk]
    simp only [List.foldl_cons, List.foldl_nil]
    unfold mulBasicStep
    rw [HighMul.seg_shape lo _ i b.length hl]
    have hdl : (lo.drop i).length = b.length := by rw [List.length_drop]; omega
    obtain ⟨e1, c1, d1, l1⟩ := mulaLow_spec B hB (lo.drop i) b (a.getD i 0) 0 hdl
      (LowMul.getD_lt B (by omega) a ha i) (by omega) (fun d h => hd d (List.mem_of_mem_drop h)) hb
    generalize mulaLow B (lo.drop i) b (a.getD i 0) 0 = p at *
    obtain ⟨seg, cy⟩ := p
    simp only at e1 c1 d1 l1 ⊢
    rw [HighMul.step_shape lo seg _ i b.length cy hl l1]
    refine ⟨_, rfl, ?_, ?_, ?_⟩
    · simp [l1]; omega
    · intro d hd'
      simp only [List.mem_append, List.mem_singleton] at hd'
      rcases hd' with (h | h) | h
      · exact hd d (List.mem_of_mem_take h)
      · exact d1 d h
      · omega
    · have hlt : (lo.take i).length = i := by rw [List.length_take]; omega
      have hai : i < a.length := by omega
      rw [List.append_assoc, val_append, High.val_snoc, hlt, l1,
        List.take_succ_eq_append_getElem hai, High.val_snoc, List.length_take, Nat.min_eq_left (by omega)]
      have hsplit := High.val_take_drop B lo i (by omega)
      have hg : a.getD i 0 = a[i] := by simp [List.getD_eq_getElem?_getD, hai]
      rw [hg] at e1
      rw [Nat.add_mul, ← hv, hsplit]
      have e1' := congrArg (B ^ i * ·) e1
      simp only [Nat.mul_add] at e1'
      generalize B ^ i = X at *
      generalize B ^ b.length = Y at *
      grind


theorem bnMulBasic_exact (hw : 0 < cfg.w) (a b : Bn) (ha : a.WF cfg.B) (hb : b.WF cfg.B) :
    ExactR cfg.B (bnMulBasic cfg a b) (a.toInt cfg.B * b.toInt cfg.B) := by
  have hB := cfg.one_lt_B hw
  intro c hc
  rw [bnMulBasic_eq] at hc
  split at hc
  · exact absurd hc (by simp)
  simp only [Option.some.injEq] at hc
  subst hc
  obtain ⟨lo, e, _, hd, hv⟩ := HighMul.basic_inv cfg.B hB a.dp b.dp ha.dig hb.dig a.dp.length (Nat.le_refl _)
  rw [Nat.sub_self, List.replicate_zero, List.append_nil, List.take_length] at *
  unfold Bn.used
  rw [e]
  exact HighMul.mul_fin (by omega) a b lo hd hv

/-! ### one Karatsuba level over Comba -/

theorem HighMul.trim_pos {B : Nat} (hB : 0 < B) (l : List Nat) (hl : ∀ d ∈ l, d < B) :
    (bnTrim { neg := false, dp := l }).WF B
    ∧ (bnTrim { neg := false, dp := l }).toInt B = (val B l : Int)
    ∧ (bnTrim { neg := false, dp := l }).used ≤ max 1 l.length := by
  have := bnTrim_exact hB false l hl
  refine ⟨this.1, by simpa using this.2, ?_⟩
  by_cases he : stripZeros l = []
  · rw [bnTrim_nil (by simpa using he)]; simp [Bn.used]
  · rw [bnTrim_ne_nil (by simpa using he)]
    have := stripZeros_length_le l
    simp only [Bn.used]; omega

theorem HighMul.used_le_of_val_lt {B : Nat} (hB : 1 < B) {c : Bn} (hc : c.WF B) (k : Nat) (hk : 1 ≤ k)
    (hv : val B c.dp < B ^ k) : c.used ≤ k := by
  by_contra hn
  have h1 := hc.val_ge (by omega)
  have : B ^ k ≤ B ^ (c.used - 1) := Nat.pow_le_pow_right (by omega) (by omega)
  omega

/-- value of a non-negative result, from its `toInt` -/
theorem HighMul.val_of_toInt {B : Nat} (c : Bn) (n : Nat) (h : c.toInt B = (n : Int)) : val B c.dp = n := by
  have := toInt_natAbs B c
  rw [h] at this
  simpa using this.symm

/-- split an operand at digit h: both halves are bounded by the whole, and their sum has at most one
    more digit -/
theorem HighMul.split_bound {B : Nat} (hB : 1 < B) (l : List Nat) (hl : ∀ d ∈ l, d < B) (h : Nat)
    (hh : h ≤ l.length) :
    val B l = val B (l.take h) + B ^ h * val B (l.drop h)
    ∧ val B (l.drop h) + val B (l.take h) < B ^ (l.length + 1) := by
  have e := High.val_take_drop B l h hh
  refine ⟨e, ?_⟩
  have h1 : val B (l.drop h) ≤ B ^ h * val B (l.drop h) := Nat.le_mul_of_pos_left _ (Nat.pow_pos (by omega))
  have h2 := val_lt B l hl
  have h3 : 2 * B ^ l.length ≤ B * B ^ l.length := Nat.mul_le_mul_right _ (by omega)
  rw [Nat.pow_succ, Nat.mul_comm]
  omega

theorem bnMulKarat_exact (hw : 0 < cfg.w) (a b : Bn) (ha : a.WF cfg.B) (hb : b.WF cfg.B)
    (hs : max a.used b.used + 1 < cfg.B) :
    ExactR cfg.B (bnMulKarat cfg a b) (a.toInt cfg.B * b.toInt cfg.B) := by
  have hB := cfg.one_lt_B hw
  have hB0 : 0 < cfg.B := by omega
  intro c hc
  unfold bnMulKarat at hc
  simp only [Option.bind_eq_bind, Option.bind_eq_some_iff, Option.pure_def, Option.some.injEq] at hc
  obtain ⟨x1, h1, x2, h2, x3, h3, x4, h4, x5, h5, x6, h6, x7, h7, x8, h8, x9, h9, x10, h10, x11, h11,
    rfl⟩ := hc
  have hua := ha.used_pos
  have hub := hb.used_pos
  generalize hh : min a.used b.used / 2 = h at *
  have hha : h ≤ a.dp.length := by unfold Bn.used at hh; omega
  have hhb : h ≤ b.dp.length := by unfold Bn.used at hh; omega
  -- the four halves
  obtain ⟨wa0, va0, ua0⟩ := HighMul.trim_pos hB0 (a.dp.take h) (fun d hd => ha.dig d (List.mem_of_mem_take hd))
  obtain ⟨wa1, va1, ua1⟩ := HighMul.trim_pos hB0 (a.dp.drop h) (fun d hd => ha.dig d (List.mem_of_mem_drop hd))
  obtain ⟨wb0, vb0, ub0⟩ := HighMul.trim_pos hB0 (b.dp.take h) (fun d hd => hb.dig d (List.mem_of_mem_take hd))
  obtain ⟨wb1, vb1, ub1⟩ := HighMul.trim_pos hB0 (b.dp.drop h) (fun d hd => hb.dig d (List.mem_of_mem_drop hd))
  rw [List.length_take] at ua0 ub0
  rw [List.length_drop] at ua1 ub1
  obtain ⟨sa, ba⟩ := HighMul.split_bound hB a.dp ha.dig h hha
  obtain ⟨sb, bb⟩ := HighMul.split_bound hB b.dp hb.dig h hhb
  generalize bnTrim { neg := false, dp := a.dp.take h } = a0 at *
  generalize bnTrim { neg := false, dp := a.dp.drop h } = a1 at *
  generalize bnTrim { neg := false, dp := b.dp.take h } = b0 at *
  generalize bnTrim { neg := false, dp := b.dp.drop h } = b1 at *
  generalize val cfg.B (a.dp.take h) = A0 at *
  generalize val cfg.B (a.dp.drop h) = A1 at *
  generalize val cfg.B (b.dp.take h) = B0 at *
  generalize val cfg.B (b.dp.drop h) = B1 at *
  unfold Bn.used at hs hua hub
  obtain ⟨w1, e1⟩ := bnMulComba_exact cfg hw a0 b0 wa0 wb0 (by omega) x1 h1
  obtain ⟨w2, e2⟩ := bnMulComba_exact cfg hw a1 b1 wa1 wb1 (by omega) x2 h2
  obtain ⟨w3, e3⟩ := bnAdd_exact cfg hw a1 a0 wa1 wa0 x3 h3
  obtain ⟨w4, e4⟩ := bnAdd_exact cfg hw b1 b0 wb1 wb0 x4 h4
  rw [va0, va1] at e3
  rw [vb0, vb1] at e4
  have v3 := HighMul.val_of_toInt x3 (A1 + A0) (by rw [e3]; push_cast; rfl)
  have v4 := HighMul.val_of_toInt x4 (B1 + B0) (by rw [e4]; push_cast; rfl)
  have u3 := HighMul.used_le_of_val_lt hB w3 (a.dp.length + 1) (by omega) (by omega)
  have u4 := HighMul.used_le_of_val_lt hB w4 (b.dp.length + 1) (by omega) (by omega)
  obtain ⟨w5, e5⟩ := bnMulComba_exact cfg hw x3 x4 w3 w4 (by omega) x5 h5
  obtain ⟨w6, e6⟩ := bnSub_exact cfg hw x5 x1 w5 w1 x6 h6
  obtain ⟨w7, e7⟩ := bnSub_exact cfg hw x6 x2 w6 w2 x7 h7
  obtain ⟨w8, e8⟩ := bnLsh_exact cfg hw x7 _ w7 x8 h8
  obtain ⟨w9, e9⟩ := bnLsh_exact cfg hw x2 _ w2 x9 h9
  obtain ⟨w10, e10⟩ := bnAdd_exact cfg hw x8 x1 w8 w1 x10 h10
  obtain ⟨w11, e11⟩ := bnAdd_exact cfg hw x10 x9 w10 w9 x11 h11
  have hP : (2 : Int) ^ (h * cfg.w) = (cfg.B : Int) ^ h := by
    rw [cfg.B_eq]; push_cast; ring
  have hP2 : (2 : Int) ^ (2 * h * cfg.w) = (cfg.B : Int) ^ h * (cfg.B : Int) ^ h := by
    rw [cfg.B_eq]; push_cast; ring
  have v11 : val cfg.B x11.dp = val cfg.B a.dp * val cfg.B b.dp := by
    apply HighMul.val_of_toInt
    rw [e11, e10, e9, e8, e7, e6, e5, e3, e4, e2, e1, va0, va1, vb0, vb1, hP, hP2, sa, sb]
    push_cast; ring
  exact HighMul.mul_fin hB0 a b x11.dp w11.dig v11

theorem bnSqrKarat_exact (hw : 0 < cfg.w) (a : Bn) (ha : a.WF cfg.B) (hs : a.used + 1 < cfg.B) :
    ExactR cfg.B (bnSqrKarat cfg a) (a.toInt cfg.B * a.toInt cfg.B) := by
  have hB := cfg.one_lt_B hw
  have hB0 : 0 < cfg.B := by omega
  intro c hc
  unfold bnSqrKarat at hc
  simp only [Option.bind_eq_bind, Option.bind_eq_some_iff, Option.pure_def, Option.some.injEq] at hc
  obtain ⟨x1, h1, x2, h2, x3, h3, x4, h4, x5, h5, x6, h6, x7, h7, x8, h8, x9, h9, x10, h10, rfl⟩ := hc
  have hua := ha.used_pos
  generalize hh : a.used / 2 = h at *
  have hha : h ≤ a.dp.length := by unfold Bn.used at hh; omega
  obtain ⟨wa0, va0, ua0⟩ := HighMul.trim_pos hB0 (a.dp.take h) (fun d hd => ha.dig d (List.mem_of_mem_take hd))
  obtain ⟨wa1, va1, ua1⟩ := HighMul.trim_pos hB0 (a.dp.drop h) (fun d hd => ha.dig d (List.mem_of_mem_drop hd))
  rw [List.length_take] at ua0
  rw [List.length_drop] at ua1
  obtain ⟨sa, ba⟩ := HighMul.split_bound hB a.dp ha.dig h hha
  generalize bnTrim { neg := false, dp := a.dp.take h } = a0 at *
  generalize bnTrim { neg := false, dp := a.dp.drop h } = a1 at *
  generalize val cfg.B (a.dp.take h) = A0 at *
  generalize val cfg.B (a.dp.drop h) = A1 at *
  unfold Bn.used at hs hua
  obtain ⟨w1, e1⟩ := bnSqrComba_exact cfg hw a0 wa0 (by omega) x1 h1
  obtain ⟨w2, e2⟩ := bnSqrComba_exact cfg hw a1 wa1 (by omega) x2 h2
  obtain ⟨w3, e3⟩ := bnAdd_exact cfg hw a1 a0 wa1 wa0 x3 h3
  rw [va0, va1] at e3
  have v3 := HighMul.val_of_toInt x3 (A1 + A0) (by rw [e3]; push_cast; rfl)
  have u3 := HighMul.used_le_of_val_lt hB w3 (a.dp.length + 1) (by omega) (by omega)
  obtain ⟨w4, e4⟩ := bnSqrComba_exact cfg hw x3 w3 (by omega) x4 h4
  obtain ⟨w5, e5⟩ := bnAdd_exact cfg hw x1 x2 w1 w2 x5 h5
  obtain ⟨w6, e6⟩ := bnSub_exact cfg hw x4 x5 w4 w5 x6 h6
  obtain ⟨w7, e7⟩ := bnLsh_exact cfg hw x6 _ w6 x7 h7
  obtain ⟨w8, e8⟩ := bnLsh_exact cfg hw x2 _ w2 x8 h8
  obtain ⟨w9, e9⟩ := bnAdd_exact cfg hw x7 x1 w7 w1 x9 h9
  obtain ⟨w10, e10⟩ := bnAdd_exact cfg hw x9 x8 w9 w8 x10 h10
  have hP : (2 : Int) ^ (h * cfg.w) = (cfg.B : Int) ^ h := by
    rw [cfg.B_eq]; push_cast; ring
  have hP2 : (2 : Int) ^ (2 * h * cfg.w) = (cfg.B : Int) ^ h * (cfg.B : Int) ^ h := by
    rw [cfg.B_eq]; push_cast; ring
  have v10 : val cfg.B x10.dp = val cfg.B a.dp * val cfg.B a.dp := by
    apply HighMul.val_of_toInt
    rw [e10, e9, e8, e7, e6, e5, e4, e3, e2, e1, va0, va1, hP, hP2, sa]
    push_cast; ring
  have := HighMul.mul_fin hB0 a a x10.dp w10.dig v10
  simpa using this

/-! ### division -/

/-- `val = 0` characterises the normal form `[0]`, for every base B > 0 (also B = 1) -/
theorem HighMul.dp_of_val_zero {B : Nat} (hB : 0 < B) {a : Bn} (h : a.WF B) (hv : val B a.dp = 0) :
    a.dp = [0] := by
  rcases h.2.2.1 with h1 | h1
  · match hdp : a.dp with
    | [] => exact absurd hdp h.1
    | [x] => rw [hdp] at hv; simp [val] at hv; simp [hv]
    | _ :: _ :: _ => rw [hdp] at h1; simp at h1
  · have := High.val_ge_of_top B a.dp h.1 h1
    have : 0 < B ^ (a.dp.length - 1) := Nat.pow_pos hB
    omega

theorem bnDivRem_zero (a b : Bn) (hb : b.toInt cfg.B = 0) (hbw : b.WF cfg.B) : bnDivRem cfg a b = none := by
  have hv := (toInt_eq_zero_iff cfg.B b).1 hb
  have hdp := HighMul.dp_of_val_zero (B := cfg.B) (Nat.pow_pos (by omega)) hbw hv
  unfold bnDivRem
  rw [if_pos]
  unfold bnIsZero
  rw [hdp]; rfl

theorem bnDivRemDig_exact (hw : 0 < cfg.w) (a : Bn) (b : Nat) (ha : a.WF cfg.B) (hb0 : 0 < b)
    (hbB : b < cfg.B) (hg : 0 ≤ a.toInt cfg.B ∨ (b : Int) ∣ a.toInt cfg.B) :
    ∀ q r, bnDivRemDig cfg a b = some (q, r) →
      q.WF cfg.B ∧ q.toInt cfg.B = Int.fdiv (a.toInt cfg.B) b ∧ (r : Int) = Int.fmod (a.toInt cfg.B) b := by
  have hB := cfg.one_lt_B hw
  intro q r hc
  unfold bnDivRemDig at hc
  rw [if_neg (by omega)] at hc
  split at hc
  · rename_i h1
    simp only [Option.some.injEq, Prod.mk.injEq] at hc
    obtain ⟨rfl, rfl⟩ := hc
    rw [bnTrim_of_WF ha]
    refine ⟨ha, ?_⟩
    rcases h1 with h1 | h1
    · subst h1; simp
    · have hv := (ha.isZero_iff hB).1 h1
      have : a.toInt cfg.B = 0 := (toInt_eq_zero_iff cfg.B a).2 hv
      rw [this]; simp
  · obtain ⟨e, c1, d1, l1⟩ := div1Low_spec cfg.B hB a.dp b hb0 hbB ha.dig
    generalize div1Low cfg.B a.dp b = p at *
    obtain ⟨qd, rd⟩ := p
    simp only [Option.some.injEq, Prod.mk.injEq] at hc e c1 d1 l1
    obtain ⟨rfl, hr⟩ := hc
    have hq : val cfg.B qd = val cfg.B a.dp / b := by
      rw [← e, Nat.mul_comm, Nat.mul_add_div hb0, Nat.div_eq_of_lt c1, Nat.add_zero]
    have hrm : rd = val cfg.B a.dp % b := by
      rw [← e, Nat.mul_comm, Nat.mul_add_mod, Nat.mod_eq_of_lt c1]
    have := fdiv_fin hB a b hb0 ha hg qd d1 hq
    refine ⟨this.1, this.2, ?_⟩
    rw [Int.fmod_eq_emod_of_nonneg _ (by omega)]
    cases han : a.neg
    · simp only [han, Bool.false_eq_true, false_and, if_false] at hr
      rw [← hr, hrm, toInt_of_pos han]; simp
    · rw [toInt_of_neg han] at hg ⊢
      have hp := ha.neg_pos hB han
      have hdvd : (b : Int) ∣ (val cfg.B a.dp : Int) := by
        rcases hg with h | h
        · omega
        · exact (Int.dvd_neg).1 h
      have h0 : rd = 0 := by
        rw [hrm]; exact Nat.mod_eq_zero_of_dvd (Int.ofNat_dvd.1 hdvd)
      simp only [han, h0, ne_eq, not_true_eq_false, and_false, if_false] at hr
      rw [← hr, Int.emod_eq_zero_of_dvd (Int.dvd_neg.2 hdvd)]; rfl

/-! ### bn_div_imp: Knuth D on the magnitudes, then the floor fix-up -/

/-- the raw quotient / remainder of bn_div_imp, before the floor fix-up -/
def divQ (a b : Bn) : Bn :=
  bnTrim { neg := a.neg != b.neg, dp := (divnLow cfg.w a.dp b.dp).1.take (a.used - b.used + 1) }
def divR (a b : Bn) : Bn :=
  bnTrim { neg := b.neg, dp := (divnLow cfg.w a.dp b.dp).2.1.take b.used }

theorem bnDivImp_eq (a b : Bn) : bnDivImp cfg a b =
    if bnCmpAbs a b = -1 then
      if (bnIsZero a || decide (a.neg = b.neg)) = true then some (Bn.zero, bnTrim a, {})
      else (bnAdd cfg a b).bind fun d => some ({ neg := true, dp := [1] }, d, {})
    else if a.used + 1 > cfg.cap then none
    else
      if (!bnIsZero (divR cfg a b) && (a.neg != b.neg)) = true then
        (bnSubDig cfg (divQ cfg a b) 1).bind fun c =>
          (bnSub cfg b (divR cfg a b)).bind fun d => some (c, d, (divnLow cfg.w a.dp b.dp).2.2)
      else some (divQ cfg a b, divR cfg a b, (divnLow cfg.w a.dp b.dp).2.2) := by
  unfold bnDivImp divQ divR
  by_cases h1 : bnCmpAbs a b = -1
  · simp only [h1, if_true]
    split <;> rfl
  · simp only [h1, if_false]
    by_cases h2 : a.used + 1 > cfg.cap
    · rw [if_pos h2, HighMul.grow_fail cfg h2]; rfl
    · rw [if_neg h2, HighMul.grow_ok cfg h2]
      rfl

theorem HighMul.fdiv_fmod_of {a b q r : Int} (hb : b ≠ 0) (e : r + b * q = a)
    (h1 : 0 < b → 0 ≤ r ∧ r < b) (h2 : b < 0 → b < r ∧ r ≤ 0) :
    q = Int.fdiv a b ∧ r = Int.fmod a b := by
  rcases Int.lt_or_gt_of_ne hb with h | h
  · have := (Int.fdiv_fmod_unique' (a := a) (q := q) (r := r) h).2 ⟨e, h2 h⟩
    exact ⟨this.1.symm, this.2.symm⟩
  · have := (Int.fdiv_fmod_unique (a := a) (q := q) (r := r) h).2 ⟨e, h1 h⟩
    exact ⟨this.1.symm, this.2.symm⟩

/-- the floor fix-up of bn_div_imp, as pure integer arithmetic over the Euclidean (Q, R) of the magnitudes -/
theorem HighMul.floor_fix (A Bv Q R : Nat) (na nb : Bool) (e : Q * Bv + R = A) (hR : R < Bv) :
    let ai : Int := if na then -(A : Int) else A
    let bi : Int := if nb then -(Bv : Int) else Bv
    let qi : Int := if (na != nb) then -(Q : Int) else Q
    let ri : Int := if nb then -(R : Int) else R
    (R ≠ 0 ∧ na ≠ nb → qi - 1 = Int.fdiv ai bi ∧ bi - ri = Int.fmod ai bi)
    ∧ (¬ (R ≠ 0 ∧ na ≠ nb) → qi = Int.fdiv ai bi ∧ ri = Int.fmod ai bi) := by
  have e' : (Q : Int) * Bv + R = A := by exact_mod_cast e
  intro ai bi qi ri
  constructor
  · rintro ⟨h0, hne⟩
    apply HighMul.fdiv_fmod_of
    · cases nb <;> simp [bi] <;> omega
    · cases na <;> cases nb <;> simp [ai, bi, qi, ri] at hne ⊢ <;> linarith
    · cases na <;> cases nb <;> simp [bi, ri] at hne ⊢ <;> omega
    · cases na <;> cases nb <;> simp [bi, ri] at hne ⊢ <;> omega
  · intro h
    apply HighMul.fdiv_fmod_of
    · cases nb <;> simp [bi] <;> omega
    · cases na <;> cases nb <;> simp [ai, bi, qi, ri] at h ⊢ <;> linarith
    · cases na <;> cases nb <;> simp [bi, ri] at h ⊢ <;> omega
    · cases na <;> cases nb <;> simp [bi, ri] at h ⊢ <;> omega

/-- Knuth D on the magnitudes (|a| ≥ |b| > 0): the raw quotient and remainder of bn_div_imp -/
theorem HighMul.divQR (hw : 2 ≤ cfg.w) (a b : Bn) (ha : a.WF cfg.B) (hb : b.WF cfg.B)
    (hbz : val cfg.B b.dp ≠ 0) (hge : val cfg.B b.dp ≤ val cfg.B a.dp) :
    ∃ Q R : Nat, Q * val cfg.B b.dp + R = val cfg.B a.dp ∧ R < val cfg.B b.dp
      ∧ (divQ cfg a b).WF cfg.B ∧ (divR cfg a b).WF cfg.B
      ∧ (divQ cfg a b).toInt cfg.B = (if (a.neg != b.neg) then -(Q : Int) else Q)
      ∧ (divR cfg a b).toInt cfg.B = (if b.neg then -(R : Int) else R) := by
  have hB := cfg.one_lt_B (by omega)
  have hab : b.dp.length ≤ a.dp.length := Bn.WF.used_le_of_val_le hB hb ha hge
  obtain ⟨init, x, hdp, hx⟩ := hb.top hbz
  have hbt : b.dp.getLast? ≠ some 0 := by rw [hdp]; simpa using hx
  obtain ⟨e, lt, dq, dr, _, _⟩ := divnLow_spec cfg.w hw a.dp b.dp hab hb.1 hbt ha.dig hb.dig hge
  rw [← cfg.B_eq] at e lt dq dr
  have hq := bnTrim_exact (B := cfg.B) (by omega) (a.neg != b.neg) _ dq
  have hr := bnTrim_exact (B := cfg.B) (by omega) b.neg _ dr
  exact ⟨_, _, e, lt, hq.1, hr.1, hq.2, hr.2⟩

theorem bnDivRem_exact (hw : 2 ≤ cfg.w) (a b : Bn) (ha : a.WF cfg.B) (hb : b.WF cfg.B) :
    ∀ q r tr, bnDivRem cfg a b = some (q, r, tr) →
      q.WF cfg.B ∧ r.WF cfg.B ∧ q.toInt cfg.B = Int.fdiv (a.toInt cfg.B) (b.toInt cfg.B)
      ∧ r.toInt cfg.B = Int.fmod (a.toInt cfg.B) (b.toInt cfg.B) := by
  have hw0 : 0 < cfg.w := by omega
  have hB := cfg.one_lt_B hw0
  intro q r tr hc
  unfold bnDivRem at hc
  split at hc
  · exact absurd hc (by simp)
  rename_i hbz
  have hbv : val cfg.B b.dp ≠ 0 := fun h => hbz ((hb.isZero_iff hB).2 h)
  rw [bnDivImp_eq] at hc
  have hcmp := bnCmpAbs_lt_iff hB a b ha hb
  have hai : a.toInt cfg.B = if a.neg then -(val cfg.B a.dp : Int) else (val cfg.B a.dp : Int) := rfl
  have hbi : b.toInt cfg.B = if b.neg then -(val cfg.B b.dp : Int) else (val cfg.B b.dp : Int) := rfl
  have hpa := ha.neg_pos hB
  have hpb := hb.neg_pos hB
  split at hc
  · -- |a| < |b|
    rename_i h1
    have hlt := hcmp.1 h1
    split at hc
    · rename_i h2
      simp only [Option.some.injEq, Prod.mk.injEq] at hc
      obtain ⟨rfl, rfl, _⟩ := hc
      rw [bnTrim_of_WF ha]
      refine ⟨by refine ⟨by simp [Bn.zero], ?_, by simp [Bn.zero], fun _ => rfl⟩; simp [Bn.zero]; omega, ha, ?_⟩
      have hq0 : Bn.zero.toInt cfg.B = 0 := by simp [Bn.zero, Bn.toInt, val]
      rw [hq0]
      apply HighMul.fdiv_fmod_of
      · rw [hbi]; split <;> omega
      · simp
      · simp only [Bool.or_eq_true, decide_eq_true_eq] at h2
        rcases h2 with h2 | h2
        · have := (ha.isZero_iff hB).1 h2
          rw [hai, hbi, this]; split <;> split <;> omega
        · rw [hai, hbi, h2]; split <;> omega
      · simp only [Bool.or_eq_true, decide_eq_true_eq] at h2
        rcases h2 with h2 | h2
        · have := (ha.isZero_iff hB).1 h2
          rw [hai, hbi, this]; split <;> split <;> omega
        · rw [hai, hbi, h2]; split <;> omega
    · rename_i h2
      simp only [Bool.or_eq_true, decide_eq_true_eq, not_or] at h2
      obtain ⟨h2z, h2n⟩ := h2
      have haz : val cfg.B a.dp ≠ 0 := fun h => h2z ((ha.isZero_iff hB).2 h)
      simp only [Option.bind_eq_some_iff, Option.some.injEq, Prod.mk.injEq] at hc
      obtain ⟨d, hd, rfl, rfl, _⟩ := hc
      obtain ⟨wd, ed⟩ := bnAdd_exact cfg hw0 a b ha hb d hd
      have hq1 : ({ neg := true, dp := [1] } : Bn).toInt cfg.B = -1 := by simp [Bn.toInt, val]
      refine ⟨⟨by simp, by simpa using hB, by simp, by simp⟩, wd, ?_⟩
      rw [hq1, ed]
      apply HighMul.fdiv_fmod_of
      · rw [hbi]; split <;> omega
      · omega
      · rw [hai, hbi]
        cases han : a.neg <;> cases hbn : b.neg <;> simp_all <;> omega
      · rw [hai, hbi]
        cases han : a.neg <;> cases hbn : b.neg <;> simp_all <;> omega
  · -- |a| ≥ |b|: Knuth D
    rename_i h1
    have hge : val cfg.B b.dp ≤ val cfg.B a.dp := by
      have : ¬ _ := fun h => h1 (hcmp.2 h)
      omega
    split at hc
    · exact absurd hc (by simp)
    obtain ⟨Q, R, e, hR, wq, wr, eq, er⟩ := HighMul.divQR cfg hw a b ha hb hbv hge
    obtain ⟨f1, f2⟩ := HighMul.floor_fix _ _ Q R a.neg b.neg e hR
    simp only [← hai, ← hbi, ← eq, ← er] at f1 f2
    have hrz : bnIsZero (divR cfg a b) = true ↔ R = 0 := by
      rw [wr.isZero_iff hB, ← toInt_eq_zero_iff, er]
      split <;> omega
    split at hc
    · rename_i h3
      simp only [Bool.and_eq_true, Bool.not_eq_true', bne_iff_ne, ne_eq] at h3
      have hR0 : R ≠ 0 := fun h => by have := hrz.2 h; simp [this] at h3
      simp only [Option.bind_eq_some_iff, Option.some.injEq, Prod.mk.injEq] at hc
      obtain ⟨c, hc1, d, hd, rfl, rfl, _⟩ := hc
      obtain ⟨wc, ec⟩ := bnSubDig_exact cfg hw0 _ 1 wq hB c hc1
      obtain ⟨wd, ed⟩ := bnSub_exact cfg hw0 b _ hb wr d hd
      obtain ⟨g1, g2⟩ := f1 ⟨hR0, h3.2⟩
      refine ⟨wc, wd, ?_, ?_⟩
      · rw [ec, ← g1]; rfl
      · rw [ed, ← g2]
    · rename_i h3
      simp only [Bool.and_eq_true, Bool.not_eq_true', bne_iff_ne, ne_eq, not_and] at h3
      simp only [Option.some.injEq, Prod.mk.injEq] at hc
      obtain ⟨rfl, rfl, _⟩ := hc
      obtain ⟨g1, g2⟩ := f2 (by
        rintro ⟨hR0, hne⟩
        exact h3 (by
          cases hz : bnIsZero (divR cfg a b)
          · rfl
          · exact absurd (hrz.1 hz) hR0) hne)
      exact ⟨wq, wr, g1, g2⟩

end Relic.Model
