/-
Inversion algorithms of Model/FpAlg.lean: for a prime modulus every algorithm (Kaliski/Montgomery two-phase, binary extended
Euclid, Euclid with quotients, Fermat through fp_exp, simultaneous inversion) returns the canonical inverse of a non-zero
element and reports zero as an error; the signed-exponent wrappers of the exponentiations follow.
-/
import Mathlib.Data.Nat.ModEq
import Mathlib.Data.ZMod.Basic
import Mathlib.FieldTheory.Finite.Basic
import Mathlib.Algebra.Field.ZMod
import Mathlib.Tactic.Ring
import Mathlib.Tactic.Linarith
import RelicVerif.Model.FpAlg
import RelicVerif.Lemmas.FpAlgExp

namespace Relic.Model.FpAlg
open Relic.Model.Rec

/-- a well-formed context: odd prime modulus below R = 2^m and below 2^RLC_FP_BITS, R·rinv ≡ 1, window width > 0 -/
structure Ctx.WF (c : Ctx) : Prop where
  prime : c.p.Prime
  odd : c.p % 2 = 1
  ltR : c.p < 2 ^ c.m
  rinv : 2 ^ c.m * c.rinv % c.p = 1
  fbits : c.p < 2 ^ c.fb
  width : 0 < c.width

/-- the contract of an inversion routine on canonical operands -/
def InvContract (c : Ctx) (inv : Nat → Option Nat) : Prop :=
  ∀ a, a < c.p → (a = 0 → inv a = none) ∧ (a ≠ 0 → ∃ x, inv a = some x ∧ x < c.p ∧ a * x % c.p = 1)

/-- phase 1: the invariants of Kaliski's loop; the fuel suffices, k ≤ 2m, ã·x1 ≡ 2^k and x1 ≤ 2p at the exit -/
theorem kalLoop_spec (p m A : Nat) :
    ∀ (f u v x1 x2 k i j : Nat),
      (A : ZMod p) * (x1 : ZMod p) = (u : ZMod p) * 2 ^ k →
      (A : ZMod p) * (x2 : ZMod p) + (v : ZMod p) * 2 ^ k = 0 →
      Nat.Coprime u v → 0 < u → (u % 2 = 1 ∨ v % 2 = 1) →
      u * x2 + v * x1 = p → x1 ≤ 2 * p →
      u < 2 ^ i → v < 2 ^ j → k + i + j ≤ 2 * m → i + j < f →
      ∃ y k', kalLoop f u v x1 x2 k = some (y, k') ∧ k' ≤ 2 * m ∧
        (A : ZMod p) * (y : ZMod p) = 2 ^ k' ∧ y ≤ 2 * p := by
  intro f
  induction f with
  | zero => intro u v x1 x2 k i j _ _ _ _ _ _ _ _ _ _ hf; omega
  | succ f ih =>
    intro u v x1 x2 k i j h1 h2 hc hu hodd hI2 hx1 hui hvj hk hf
    rw [kalLoop]
    by_cases hv : v = 0
    · subst hv
      have hu1 : u = 1 := by simpa using hc
      subst hu1
      exact ⟨x1, k, by simp, by omega, by simpa using h1, hx1⟩
    · rw [if_neg hv]
      have hvpos : 0 < v := Nat.pos_of_ne_zero hv
      have hx1p : x1 ≤ p := by nlinarith
      have hx2p : x2 ≤ p := by nlinarith
      by_cases hve : v % 2 = 0
      · rw [if_pos hve]
        obtain ⟨t, rfl⟩ : ∃ t, v = 2 * t := ⟨v / 2, by omega⟩
        have e : 2 * t / 2 = t := by omega
        rw [e]
        cases j with
        | zero => simp at hvj; omega
        | succ j =>
          rw [pow_succ] at hvj
          apply ih u t (2 * x1) x2 (k + 1) i j
          · push_cast; rw [pow_succ]; linear_combination 2 * h1
          · push_cast at h2 ⊢; rw [pow_succ]; linear_combination h2
          · exact Nat.Coprime.coprime_mul_left_right hc
          · exact hu
          · left; omega
          · nlinarith
          · omega
          · exact hui
          · omega
          · omega
          · omega
      · rw [if_neg hve]
        by_cases hue : u % 2 = 0
        · rw [if_pos hue]
          obtain ⟨t, rfl⟩ : ∃ t, u = 2 * t := ⟨u / 2, by omega⟩
          have e : 2 * t / 2 = t := by omega
          rw [e]
          cases i with
          | zero => simp at hui; omega
          | succ i =>
            rw [pow_succ] at hui
            apply ih t v x1 (2 * x2) (k + 1) i j
            · push_cast at h1 ⊢; rw [pow_succ]; linear_combination h1
            · push_cast; rw [pow_succ]; linear_combination 2 * h2
            · exact Nat.Coprime.coprime_mul_left hc
            · omega
            · right; omega
            · nlinarith
            · omega
            · omega
            · exact hvj
            · omega
            · omega
        · rw [if_neg hue]
          by_cases hge : v ≥ u
          · rw [if_pos hge]
            obtain ⟨t, rfl⟩ : ∃ t, v = u + 2 * t := ⟨(v - u) / 2, by omega⟩
            have e : (u + 2 * t - u) / 2 = t := by omega
            rw [e]
            cases j with
            | zero => simp at hvj; omega
            | succ j =>
              rw [pow_succ] at hvj
              apply ih u t (2 * x1) (x2 + x1) (k + 1) i j
              · push_cast; rw [pow_succ]; linear_combination 2 * h1
              · push_cast at h2 ⊢; rw [pow_succ]; linear_combination h1 + h2
              · exact Nat.Coprime.coprime_mul_left_right (Nat.coprime_self_add_right.1 hc)
              · exact hu
              · left; omega
              · nlinarith
              · omega
              · exact hui
              · omega
              · omega
              · omega
          · rw [if_neg hge]
            obtain ⟨t, rfl⟩ : ∃ t, u = v + 2 * t := ⟨(u - v) / 2, by omega⟩
            have e : (v + 2 * t - v) / 2 = t := by omega
            rw [e]
            cases i with
            | zero => simp at hui; omega
            | succ i =>
              rw [pow_succ] at hui
              apply ih t v (x1 + x2) (2 * x2) (k + 1) i j
              · push_cast at h1 ⊢; rw [pow_succ]; linear_combination h1 + h2
              · push_cast; rw [pow_succ]; linear_combination 2 * h2
              · exact Nat.Coprime.coprime_mul_left (Nat.coprime_self_add_left.1 hc)
              · omega
              · right; omega
              · nlinarith
              · omega
              · omega
              · exact hvj
              · omega
              · omega

/-- the long-operand loop only subtracts multiples of p -/
theorem subWhileGe_spec (p R : Nat) (hpR : p ≤ R) :
    ∀ f x, ∃ q, subWhileGe p R f x + q * p = x := by
  intro f
  induction f with
  | zero => intro x; exact ⟨0, by simp [subWhileGe]⟩
  | succ f ih =>
    intro x
    rw [subWhileGe]
    by_cases hx : x ≥ R
    · rw [if_pos hx]
      obtain ⟨q, hq⟩ := ih (x - p)
      exact ⟨q + 1, by rw [Nat.add_mul]; omega⟩
    · rw [if_neg hx]; exact ⟨0, by simp⟩

/-- the reduction after phase 1 brings a value ≤ 2p that p does not divide below p -/
theorem kalReduce_spec (c : Ctx) (x1 : Nat) (hpR : c.p ≤ c.R) (hle : x1 ≤ 2 * c.p)
    (hnd : ¬ c.p ∣ x1) (hp : 0 < c.p) :
    kalReduce c x1 < c.p ∧ ∃ q, kalReduce c x1 + q * c.p = x1 := by
  simp only [kalReduce]
  obtain ⟨q, hq⟩ := subWhileGe_spec c.p c.R hpR x1 x1
  generalize subWhileGe c.p c.R x1 x1 = z at hq ⊢
  have hznd : ¬ c.p ∣ z := fun hd => hnd (by rw [← hq]; exact Dvd.dvd.add hd (dvd_mul_left _ _))
  have hz1 : z ≠ c.p := fun e => hznd (e ▸ dvd_rfl)
  have hz2 : z ≠ 2 * c.p := fun e => hznd (e ▸ dvd_mul_left _ _)
  have hzle : z ≤ 2 * c.p := by omega
  split_ifs with hgt
  · exact ⟨by omega, q + 1, by rw [Nat.add_mul]; omega⟩
  · exact ⟨by omega, q, hq⟩

theorem mont_cast (c : Ctx) (x y : Nat) :
    ((mont c x y : ℕ) : ZMod c.p) = (x : ZMod c.p) * y * c.rinv := by
  simp [mont, ZMod.natCast_mod]

/-- phase 2: from ã·y ≡ 2^k to ã·craw ≡ R² -/
theorem kalPhase2_cast (c : Ctx) (A y k : Nat) (hk : k ≤ 2 * c.m)
    (hR : (2 : ZMod c.p) ^ c.m * (c.rinv : ZMod c.p) = 1)
    (hy : (A : ZMod c.p) * (y : ZMod c.p) = 2 ^ k) :
    (A : ZMod c.p) * ((kalPhase2 c y k : ℕ) : ZMod c.p) = 2 ^ c.m * 2 ^ c.m := by
  unfold kalPhase2
  by_cases hkm : k ≤ c.m
  · simp only [if_pos hkm, mont_cast, Ctx.R, Nat.cast_mul, Nat.cast_pow, ZMod.natCast_mod,
      Nat.cast_ofNat]
    have e : 2 * c.m - (k + c.m) = c.m - k := by omega
    rw [e]
    have hpw : (2 : ZMod c.p) ^ k * 2 ^ (c.m - k) = 2 ^ c.m := by
      rw [← pow_add]; congr 1; omega
    generalize (2 : ZMod c.p) ^ (c.m - k) = T at hpw ⊢
    generalize (2 : ZMod c.p) ^ k = K at hpw hy ⊢
    generalize (2 : ZMod c.p) ^ c.m = R at hpw hR ⊢
    generalize (c.rinv : ZMod c.p) = ri at hR ⊢
    linear_combination (R ^ 4 * ri ^ 3 * T) * hy + (R ^ 4 * ri ^ 3) * hpw +
      (R ^ 2 * (R ^ 2 * ri ^ 2 + R * ri + 1)) * hR
  · simp only [if_neg hkm, mont_cast, Ctx.R, Nat.cast_mul, Nat.cast_pow, ZMod.natCast_mod,
      Nat.cast_ofNat]
    have hpw : (2 : ZMod c.p) ^ k * 2 ^ (2 * c.m - k) = 2 ^ c.m * 2 ^ c.m := by
      rw [← pow_add, ← pow_add]; congr 1; omega
    generalize (2 : ZMod c.p) ^ (2 * c.m - k) = T at hpw ⊢
    generalize (2 : ZMod c.p) ^ k = K at hpw hy ⊢
    generalize (2 : ZMod c.p) ^ c.m = R at hpw hR ⊢
    generalize (c.rinv : ZMod c.p) = ri at hR ⊢
    linear_combination (R ^ 2 * ri ^ 2 * T) * hy + (R ^ 2 * ri ^ 2) * hpw +
      (R ^ 2 * (R * ri + 1)) * hR

/-- fp_inv_monty: Kaliski's almost inverse terminates within 2m iterations with k ≤ 2m, the reduction brings x1 below p,
    and phase 2 turns x1 = ã⁻¹·2^k into the Montgomery form of a⁻¹ -/
theorem invMonty_spec (c : Ctx) (h : c.WF) : InvContract c (invMonty c) := by
  intro a ha
  refine ⟨fun h0 => by simp [invMonty, h0], fun h0 => ?_⟩
  have hp := h.prime
  have hp2 : 2 ≤ c.p := hp.two_le
  have hodd := h.odd
  have _hfact : Fact c.p.Prime := ⟨hp⟩
  have hRz : (2 : ZMod c.p) ^ c.m * (c.rinv : ZMod c.p) = 1 := by
    have := congrArg (Nat.cast : Nat → ZMod c.p) h.rinv
    simpa [ZMod.natCast_mod] using this
  have h2ne : (2 : ZMod c.p) ≠ 0 := by
    intro e
    have e' : ((2 : ℕ) : ZMod c.p) = 0 := by exact_mod_cast e
    rw [ZMod.natCast_eq_zero_iff] at e'
    have := Nat.le_of_dvd (by norm_num) e'
    omega
  simp only [invMonty, if_neg h0]
  have hndvd : ¬ c.p ∣ a * c.R := by
    intro hd
    rcases (Nat.Prime.dvd_mul hp).1 hd with h1 | h1
    · exact absurd (Nat.le_of_dvd (Nat.pos_of_ne_zero h0) h1) (by omega)
    · have h3 : c.p ∣ 2 := hp.dvd_of_dvd_pow h1
      have := Nat.le_of_dvd (by norm_num) h3
      omega
  have hAz : ((a * c.R % c.p : ℕ) : ZMod c.p) = (a : ZMod c.p) * 2 ^ c.m := by
    simp [Ctx.R, ZMod.natCast_mod]
  have hApos : 0 < a * c.R % c.p :=
    Nat.pos_of_ne_zero (fun e => hndvd (Nat.dvd_of_mod_eq_zero e))
  have hAlt : a * c.R % c.p < c.p := Nat.mod_lt _ (by omega)
  generalize a * c.R % c.p = A at hAz hApos hAlt ⊢
  have hcop : Nat.Coprime A c.p :=
    Nat.Coprime.symm ((Nat.Prime.coprime_iff_not_dvd hp).2 (Nat.not_dvd_of_pos_of_lt hApos hAlt))
  obtain ⟨x1, k, hloop, hk, hx1z, hx1le⟩ :=
    kalLoop_spec c.p c.m A (2 * c.m + 1) A c.p 1 0 0 c.m c.m (by simp) (by simp) hcop hApos
      (Or.inr hodd) (by simp) (by omega) (lt_trans hAlt h.ltR) h.ltR (by omega) (by omega)
  simp only [hloop]
  refine ⟨_, rfl, Nat.mod_lt _ (by omega), ?_⟩
  have hx1nd : ¬ c.p ∣ x1 := by
    intro hd
    have hz : (x1 : ZMod c.p) = 0 := (ZMod.natCast_eq_zero_iff _ _).2 hd
    rw [hz, mul_zero] at hx1z
    exact pow_ne_zero k h2ne hx1z.symm
  obtain ⟨hylt, q, hq⟩ := kalReduce_spec c x1 h.ltR.le hx1le hx1nd (by omega)
  have hyz : ((kalReduce c x1 : ℕ) : ZMod c.p) = x1 := by
    have := congrArg (Nat.cast : Nat → ZMod c.p) hq
    simpa using this
  have hph := kalPhase2_cast c A (kalReduce c x1) k hk hRz (by rw [hyz]; exact hx1z)
  generalize kalPhase2 c (kalReduce c x1) k = craw at hph ⊢
  have hfin : ((a * (craw * c.rinv % c.p) % c.p : ℕ) : ZMod c.p) = ((1 : ℕ) : ZMod c.p) := by
    simp only [ZMod.natCast_mod, Nat.cast_mul, Nat.cast_one]
    rw [hAz] at hph
    linear_combination (c.rinv : ZMod c.p) ^ 2 * hph +
      ((2 : ZMod c.p) ^ c.m * (c.rinv : ZMod c.p) + 1 - (a : ZMod c.p) * craw * c.rinv) * hRz
  rw [ZMod.natCast_eq_natCast_iff', Nat.mod_mod] at hfin
  rw [hfin]
  exact Nat.mod_eq_of_lt (by omega)

theorem fpInv_spec (c : Ctx) (h : c.WF) : InvContract c (fpInv c) := invMonty_spec c h

end Relic.Model.FpAlg
