/-
Inversion algorithms of Model/FpAlg.lean: for a prime modulus every algorithm (Kaliski/Montgomery two-phase, binary extended
Euclid, Euclid with quotients, Fermat through fp_exp, simultaneous inversion) returns the canonical inverse of a non-zero
element and reports zero as an error; the signed-exponent wrappers of the exponentiations follow.
-/
import Mathlib.Data.Nat.ModEq
import Mathlib.Data.ZMod.Basic
import Mathlib.FieldTheory.Finite.Basic
import Mathlib.Algebra.Field.ZMod
import Mathlib.Tactic.Ring
import Mathlib.Tactic.Linarith
import RelicVerif.Model.FpAlg
import RelicVerif.Lemmas.FpAlgExp

namespace Relic.Model.FpAlg
open Relic.Model.Rec

/-- a well-formed context: odd prime modulus below R = 2^m and below 2^RLC_FP_BITS, R·rinv ≡ 1, window width > 0 -/
structure Ctx.WF (c : Ctx) : Prop where
  prime : c.p.Prime
  odd : c.p % 2 = 1
  ltR : c.p < 2 ^ c.m
  rinv : 2 ^ c.m * c.rinv % c.p = 1
  fbits : c.p < 2 ^ c.fb
  width : 0 < c.width

/-- the contract of an inversion routine on canonical operands -/
def InvContract (c : Ctx) (inv : Nat → Option Nat) : Prop :=
  ∀ a, a < c.p → (a = 0 → inv a = none) ∧ (a ≠ 0 → ∃ x, inv a = some x ∧ x < c.p ∧ a * x % c.p = 1)

/-- fp_inv_monty: Kaliski's almost inverse terminates within 2m iterations with k ≤ 2m, the reduction brings x1 below p,
    and phase 2 turns x1 = ã⁻¹·2^k into the Montgomery form of a⁻¹ -/
theorem invMonty_spec (c : Ctx) (h : c.WF) : InvContract c (invMonty c) := by
  sorry

theorem fpInv_spec (c : Ctx) (h : c.WF) : InvContract c (fpInv c) := invMonty_spec c h

end Relic.Model.FpAlg
