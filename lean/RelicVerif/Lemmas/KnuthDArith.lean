/-
Pure arithmetic behind the quotient-digit estimate of Knuth's algorithm D (3-by-2 test).
`A` is the current dividend, `W = B^k * V` the shifted divisor, `A3`/`V2` their leading three / two
digits, related through a common scale `S` (and a factor `c` that is `B` in the degenerate case of a
one-digit divisor and a two-digit dividend, else `1`).
-/
import Mathlib.Tactic.Ring
import Mathlib.Tactic.Linarith
import Mathlib.Tactic.NormNum

namespace Relic.Model

/-- the 3-by-2 test never rejects a value that is at most the true quotient digit -/
theorem qhat_lower (A W A3 V2 S c y : Nat) (hA2 : c * A < (A3 + 1) * S)
    (hV1 : V2 * S ≤ c * W) (hy : y * W ≤ A) : y * V2 ≤ A3 := by
  have h : y * V2 * S < (A3 + 1) * S := by
    calc y * V2 * S = y * (V2 * S) := by ring
      _ ≤ y * (c * W) := Nat.mul_le_mul_left _ hV1
      _ = c * (y * W) := by ring
      _ ≤ c * A := Nat.mul_le_mul_left _ hy
      _ < _ := hA2
  have := Nat.lt_of_mul_lt_mul_right h
  omega

/-- a value accepted by the 3-by-2 test exceeds the true quotient digit by at most one -/
theorem qhat_upper (A W A3 V2 S c q : Nat) (hc : 0 < c) (hA1 : A3 * S ≤ c * A)
    (hV2 : c * W < (V2 + 1) * S) (hq : q * V2 ≤ A3) (hqV : q ≤ V2 + 1) : (q - 1) * W ≤ A := by
  cases q with
  | zero => simp
  | succ p =>
    simp only [Nat.add_sub_cancel]
    have h1 : p * (V2 + 1) ≤ A3 := by
      have : p * (V2 + 1) ≤ (p + 1) * V2 := by
        have : p ≤ V2 := by omega
        calc p * (V2 + 1) = p * V2 + p := by ring
          _ ≤ p * V2 + V2 := by omega
          _ = (p + 1) * V2 := by ring
      omega
    have h2 : c * (p * W) ≤ c * A := by
      calc c * (p * W) = p * (c * W) := by ring
        _ ≤ p * ((V2 + 1) * S) := Nat.mul_le_mul_left _ (Nat.le_of_lt hV2)
        _ = p * (V2 + 1) * S := by ring
        _ ≤ A3 * S := Nat.mul_le_mul_right _ h1
        _ ≤ c * A := hA1
    exact Nat.le_of_mul_le_mul_left h2 hc

theorem qhat_correct (B A W S c ai ai1 ai2 bt bt1 : Nat) (hB : 1 < B) (hc : 0 < c)
    (hW : 0 < W) (hai1 : ai1 < B) (hai2 : ai2 < B) (hbt1 : bt1 < B) (hbt : 0 < bt)
    (hA1 : (ai2 + B * (ai1 + B * ai)) * S ≤ c * A)
    (hA2 : c * A < (ai2 + B * (ai1 + B * ai) + 1) * S)
    (hV1 : (bt1 + B * bt) * S ≤ c * W) (hV2 : c * W < (bt1 + B * bt + 1) * S)
    (hinv : A < B * W) :
    ai ≤ bt ∧ (ai ≠ bt → (ai * B + ai1) / bt < B) ∧
    ∀ qh, qh ≤ (if ai = bt then B - 1 else (ai * B + ai1) / bt) →
      qh * (bt1 + B * bt) ≤ ai2 + B * (ai1 + B * ai) →
      (∀ y, y ≤ (if ai = bt then B - 1 else (ai * B + ai1) / bt) →
        y * (bt1 + B * bt) ≤ ai2 + B * (ai1 + B * ai) → y ≤ qh) →
      A / W ≤ qh ∧ qh ≤ A / W + 1 := by
  have hle : ai ≤ bt := by
    have h : ai * (B * B * S) < (bt + 1) * (B * B * S) := by
      calc ai * (B * B * S) = (B * (B * ai)) * S := by ring
        _ ≤ (ai2 + B * (ai1 + B * ai)) * S := Nat.mul_le_mul_right _ (by nlinarith)
        _ ≤ c * A := hA1
        _ < c * (B * W) := Nat.mul_lt_mul_of_pos_left hinv hc
        _ = B * (c * W) := by ring
        _ < B * ((bt1 + B * bt + 1) * S) := Nat.mul_lt_mul_of_pos_left hV2 (by omega)
        _ ≤ B * ((B * (bt + 1)) * S) :=
            Nat.mul_le_mul_left _ (Nat.mul_le_mul_right _ (by nlinarith))
        _ = (bt + 1) * (B * B * S) := by ring
    have := Nat.lt_of_mul_lt_mul_right h
    omega
  have hdiv : ai ≠ bt → (ai * B + ai1) / bt < B := by
    intro hne
    rw [Nat.div_lt_iff_lt_mul hbt]
    have : ai + 1 ≤ bt := by omega
    nlinarith
  refine ⟨hle, hdiv, ?_⟩
  intro qh hqe htest hmax
  have hqstar : A / W * W ≤ A := Nat.div_mul_le_self A W
  have hq3 := qhat_lower A W _ _ S c (A / W) hA2 hV1 hqstar
  have hqB : A / W < B := by rw [Nat.div_lt_iff_lt_mul hW]; exact hinv
  have hqe' : A / W ≤ (if ai = bt then B - 1 else (ai * B + ai1) / bt) := by
    by_cases he : ai = bt
    · rw [if_pos he]; omega
    · rw [if_neg he, Nat.le_div_iff_mul_le hbt]
      have h1 : A / W * bt * B < (ai * B + ai1 + 1) * B := by
        calc A / W * bt * B = A / W * (B * bt) := by ring
          _ ≤ A / W * (bt1 + B * bt) := Nat.mul_le_mul_left _ (by omega)
          _ ≤ ai2 + B * (ai1 + B * ai) := hq3
          _ < (ai * B + ai1 + 1) * B := by nlinarith
      have := Nat.lt_of_mul_lt_mul_right h1
      omega
  refine ⟨hmax _ hqe' hq3, ?_⟩
  have hqhB : qh ≤ B - 1 := by
    by_cases he : ai = bt
    · rw [if_pos he] at hqe; exact hqe
    · rw [if_neg he] at hqe; have := hdiv he; omega
  have hBV : B ≤ bt1 + B * bt := by nlinarith
  have := qhat_upper A W _ _ S c qh hc hA1 hV2 htest (by omega)
  have h2 : qh - 1 ≤ A / W := by rw [Nat.le_div_iff_mul_le hW]; exact this
  omega

/-- effect of multiply-subtract and (conditional) add-back on the value -/
theorem sub_no_borrow (A W R qh : Nat) (hW : 0 < W) (hlo : A / W ≤ qh)
    (heq : R + qh * W = A) : qh = A / W ∧ R = A % W := by
  have h1 : qh * W ≤ A := by omega
  have h2 : qh ≤ A / W := by rw [Nat.le_div_iff_mul_le hW]; exact h1
  have h3 : qh = A / W := by omega
  refine ⟨h3, ?_⟩
  have := Nat.div_add_mod A W
  subst h3
  nlinarith [Nat.mul_comm W (A / W)]

theorem sub_borrow (A W R qh P : Nat) (hlo : A / W ≤ qh) (hhi : qh ≤ A / W + 1)
    (heq : R + qh * W = A + P) (hR : R < P) :
    qh = A / W + 1 ∧ R + W = A % W + P := by
  have h1 : ¬ qh * W ≤ A := by intro h; omega
  have h3 : qh = A / W + 1 := by
    by_contra hne
    have : qh = A / W := by omega
    apply h1
    rw [this]; exact Nat.div_mul_le_self A W
  refine ⟨h3, ?_⟩
  have := Nat.div_add_mod A W
  subst h3
  nlinarith [Nat.mul_comm W (A / W)]

end Relic.Model
