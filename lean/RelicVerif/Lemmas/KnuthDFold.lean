/-
The main loop of `divnLow` as a fold of exact quotient-digit steps.
-/
import RelicVerif.Lemmas.KnuthDStep
namespace Relic.Model

theorem getD_set_ne (q : List Nat) (k j v : Nat) (h : j ≠ k) : (q.set k v).getD j 0 = q.getD j 0 := by
  simp only [List.getD_eq_getElem?_getD]
  rw [List.getElem?_set_ne (by omega)]

theorem fold_spec (B : Nat) (hB : 1 < B) (b : List Nat) (hb : ∀ d ∈ b, d < B) (hbne : 0 < b.length)
    (hbt : 0 < b.getD (b.length - 1) 0) (sa L : Nat) :
    ∀ m, m + b.length ≤ sa → m ≤ L → ∀ a q : List Nat, a.length = sa → (∀ d ∈ a, d < B) →
      val B a < B ^ m * val B b → q.length = L → (∀ d ∈ q, d < B) → (∀ j, j < m → q.getD j 0 = 0) →
      val B (((List.range m).reverse.map (fun j => j + (b.length - 1) + 1)).foldl (stepAQ B sa b) (a, q)).2
            * val B b
          + val B (((List.range m).reverse.map (fun j => j + (b.length - 1) + 1)).foldl (stepAQ B sa b) (a, q)).1
          = val B q * val B b + val B a
      ∧ val B (((List.range m).reverse.map (fun j => j + (b.length - 1) + 1)).foldl (stepAQ B sa b) (a, q)).1
          < val B b
      ∧ (((List.range m).reverse.map (fun j => j + (b.length - 1) + 1)).foldl (stepAQ B sa b) (a, q)).1.length = sa
      ∧ (∀ d ∈ (((List.range m).reverse.map (fun j => j + (b.length - 1) + 1)).foldl (stepAQ B sa b) (a, q)).1, d < B)
      ∧ (((List.range m).reverse.map (fun j => j + (b.length - 1) + 1)).foldl (stepAQ B sa b) (a, q)).2.length = L
      ∧ (∀ d ∈ (((List.range m).reverse.map (fun j => j + (b.length - 1) + 1)).foldl (stepAQ B sa b) (a, q)).2, d < B) := by
  intro m
  induction m with
  | zero =>
    intro _ _ a q hla hda hinv hlq hdq _
    simp only [List.range_zero, List.reverse_nil, List.map_nil, List.foldl_nil]
    simp only [Nat.pow_zero, Nat.one_mul] at hinv
    exact ⟨trivial, hinv, hla, hda, hlq, hdq⟩
  | succ m ih =>
    intro hm hmL a q hla hda hinv hlq hdq hz
    simp only [List.range_succ, List.reverse_append, List.reverse_cons, List.reverse_nil,
      List.nil_append, List.cons_append, List.map_cons, List.foldl_cons]
    have hk : m + (b.length - 1) + 1 - (b.length - 1) - 1 = m := by omega
    have hinv' : val B a < B * (B ^ (m + (b.length - 1) + 1 - (b.length - 1) - 1) * val B b) := by
      rw [hk, ← Nat.mul_assoc, ← Nat.pow_succ']; exact hinv
    obtain ⟨s1, s2, s3, s4⟩ := stepCore_spec B hB a b (m + (b.length - 1) + 1) hda hb hbne hbt
      (by omega) (by omega) hinv'
    rw [hla] at s1 s2 s3 s4
    rw [hk] at s1 s2
    have hWpos : 0 < B ^ m * val B b := by
      have := val_ge_top B b hbne
      have h2 : 0 < B ^ (b.length - 1) * b.getD (b.length - 1) 0 :=
        Nat.mul_pos (Nat.pow_pos (by omega)) hbt
      exact Nat.mul_pos (Nat.pow_pos (by omega)) (by omega)
    have hdB : (stepCore B sa b a (m + (b.length - 1) + 1)).2 < B := by
      rw [s2, Nat.div_lt_iff_lt_mul hWpos, ← Nat.mul_assoc, ← Nat.pow_succ']
      exact hinv
    have hst : stepAQ B sa b (a, q) (m + (b.length - 1) + 1)
        = ((stepCore B sa b a (m + (b.length - 1) + 1)).1,
            q.set m (stepCore B sa b a (m + (b.length - 1) + 1)).2) := by
      simp only [stepAQ, setAt, hk]
    rw [hst]
    have hvs := val_set B q m (stepCore B sa b a (m + (b.length - 1) + 1)).2 (by omega)
    rw [hz m (by omega), Nat.zero_mul, Nat.add_zero] at hvs
    obtain ⟨i1, i2, i3, i4, i5, i6⟩ := ih (by omega) (by omega)
      (stepCore B sa b a (m + (b.length - 1) + 1)).1
      (q.set m (stepCore B sa b a (m + (b.length - 1) + 1)).2) s4 s3
      (by rw [s1]; exact Nat.mod_lt _ hWpos) (by rw [List.length_set]; exact hlq)
      (digs_set hdq _ _ hdB)
      (fun j hj => by rw [getD_set_ne _ _ _ _ (by omega)]; exact hz j (by omega))
    refine ⟨?_, i2, i3, i4, i5, i6⟩
    rw [i1, hvs, s1, s2]
    have := Nat.div_add_mod (val B a) (B ^ m * val B b)
    have e : (val B q + val B a / (B ^ m * val B b) * B ^ m) * val B b
        = val B q * val B b + (B ^ m * val B b) * (val B a / (B ^ m * val B b)) := by ring
    rw [e]
    omega

end Relic.Model
