/-
FIPS 197 §5.3.5: the Equivalent Inverse Cipher (InvMixColumns applied to the middle round keys, rounds
InvSubBytes / InvShiftRows / InvMixColumns / AddRoundKey) equals the straightforward InvCipher of Spec/Aes.lean,
for an arbitrary list of 16-byte round keys; MixColumns / InvMixColumns are GF(2)-linear. No Mathlib.
-/
import RelicVerif.Lemmas.Aes
import RelicVerif.Spec.AesEqInv
namespace Relic.Lemmas.AesEqInv
open Relic.Spec.Aes Relic.Lemmas.Aes
set_option maxRecDepth 100000

/-! ## MixColumns and InvMixColumns are additive -/

theorem row_xor (m0 m1 m2 m3 a b c d a' b' c' d' : UInt8) :
    row m0 m1 m2 m3 (a ^^^ a') (b ^^^ b') (c ^^^ c') (d ^^^ d') =
      row m0 m1 m2 m3 a b c d ^^^ row m0 m1 m2 m3 a' b' c' d' := by
  simp only [row, gmul_xor]
  ac_rfl

theorem mixCols_addRoundKey (m0 m1 m2 m3 : UInt8) (s k : Bytes) (hs : s.length = 16) (hk : k.length = 16) :
    (List.range 4).flatMap (fun c => mixColumn [m0, m1, m2, m3] (((addRoundKey s k).drop (4 * c)).take 4)) =
      addRoundKey
        ((List.range 4).flatMap (fun c => mixColumn [m0, m1, m2, m3] ((s.drop (4 * c)).take 4)))
        ((List.range 4).flatMap (fun c => mixColumn [m0, m1, m2, m3] ((k.drop (4 * c)).take 4))) := by
  obtain ⟨a0, a1, a2, a3, a4, a5, a6, a7, a8, a9, a10, a11, a12, a13, a14, a15, rfl⟩ := exists_sixteen s hs
  obtain ⟨b0, b1, b2, b3, b4, b5, b6, b7, b8, b9, b10, b11, b12, b13, b14, b15, rfl⟩ := exists_sixteen k hk
  simp only [addRoundKey, List.zipWith_cons_cons, List.zipWith_nil_left]
  rw [mixColumns_sixteen, mixColumns_sixteen, mixColumns_sixteen]
  simp only [mixColumn_four, List.cons_append, List.nil_append, List.zipWith_cons_cons,
    List.zipWith_nil_left, row_xor]

theorem invMixColumns_addRoundKey (s k : Bytes) (hs : s.length = 16) (hk : k.length = 16) :
    invMixColumns (addRoundKey s k) = addRoundKey (invMixColumns s) (invMixColumns k) :=
  mixCols_addRoundKey 0x0e 0x0b 0x0d 0x09 s k hs hk

theorem mixColumns_addRoundKey (s k : Bytes) (hs : s.length = 16) (hk : k.length = 16) :
    mixColumns (addRoundKey s k) = addRoundKey (mixColumns s) (mixColumns k) :=
  mixCols_addRoundKey 2 3 1 1 s k hs hk

/-! ## MixColumns ∘ InvMixColumns = id -/

/-- row `m` of MixColumns applied to the InvMixColumns image of the column `(a, b, c, d)` -/
def mixG (m0 m1 m2 m3 a b c d : UInt8) : UInt8 :=
  row m0 m1 m2 m3 (row 0x0e 0x0b 0x0d 0x09 a b c d) (row 0x09 0x0e 0x0b 0x0d a b c d)
    (row 0x0d 0x09 0x0e 0x0b a b c d) (row 0x0b 0x0d 0x09 0x0e a b c d)

theorem mixG_add (e0 e1 e2 e3 a b c d a' b' c' d' : UInt8) :
    mixG e0 e1 e2 e3 (a ^^^ a') (b ^^^ b') (c ^^^ c') (d ^^^ d') =
      mixG e0 e1 e2 e3 a b c d ^^^ mixG e0 e1 e2 e3 a' b' c' d' := by
  simp only [mixG, row_xor]

theorem mixG_split (e0 e1 e2 e3 a b c d : UInt8) :
    mixG e0 e1 e2 e3 a b c d =
      mixG e0 e1 e2 e3 a 0 0 0 ^^^ mixG e0 e1 e2 e3 0 b 0 0 ^^^
      mixG e0 e1 e2 e3 0 0 c 0 ^^^ mixG e0 e1 e2 e3 0 0 0 d := by
  have h1 := mixG_add e0 e1 e2 e3 a 0 0 0 0 b 0 0
  have h2 := mixG_add e0 e1 e2 e3 a b 0 0 0 0 c 0
  have h3 := mixG_add e0 e1 e2 e3 a b c 0 0 0 0 d
  simp only [UInt8.xor_zero, UInt8.zero_xor] at h1 h2 h3
  rw [h3, h2, h1]

theorem mixG_basis : ∀ k ∈ [(1 : UInt8), 2, 4, 8, 16, 32, 64, 128],
    (mixG 2 3 1 1 k 0 0 0 = k ∧ mixG 2 3 1 1 0 k 0 0 = 0 ∧
     mixG 2 3 1 1 0 0 k 0 = 0 ∧ mixG 2 3 1 1 0 0 0 k = 0) ∧
    (mixG 1 2 3 1 k 0 0 0 = 0 ∧ mixG 1 2 3 1 0 k 0 0 = k ∧
     mixG 1 2 3 1 0 0 k 0 = 0 ∧ mixG 1 2 3 1 0 0 0 k = 0) ∧
    (mixG 1 1 2 3 k 0 0 0 = 0 ∧ mixG 1 1 2 3 0 k 0 0 = 0 ∧
     mixG 1 1 2 3 0 0 k 0 = k ∧ mixG 1 1 2 3 0 0 0 k = 0) ∧
    (mixG 3 1 1 2 k 0 0 0 = 0 ∧ mixG 3 1 1 2 0 k 0 0 = 0 ∧
     mixG 3 1 1 2 0 0 k 0 = 0 ∧ mixG 3 1 1 2 0 0 0 k = k) := by
  decide +kernel

theorem mixG_add1 (e0 e1 e2 e3 x y : UInt8) :
    mixG e0 e1 e2 e3 (x ^^^ y) 0 0 0 = mixG e0 e1 e2 e3 x 0 0 0 ^^^ mixG e0 e1 e2 e3 y 0 0 0 := by
  simpa using mixG_add e0 e1 e2 e3 x 0 0 0 y 0 0 0
theorem mixG_add2 (e0 e1 e2 e3 x y : UInt8) :
    mixG e0 e1 e2 e3 0 (x ^^^ y) 0 0 = mixG e0 e1 e2 e3 0 x 0 0 ^^^ mixG e0 e1 e2 e3 0 y 0 0 := by
  simpa using mixG_add e0 e1 e2 e3 0 x 0 0 0 y 0 0
theorem mixG_add3 (e0 e1 e2 e3 x y : UInt8) :
    mixG e0 e1 e2 e3 0 0 (x ^^^ y) 0 = mixG e0 e1 e2 e3 0 0 x 0 ^^^ mixG e0 e1 e2 e3 0 0 y 0 := by
  simpa using mixG_add e0 e1 e2 e3 0 0 x 0 0 0 y 0
theorem mixG_add4 (e0 e1 e2 e3 x y : UInt8) :
    mixG e0 e1 e2 e3 0 0 0 (x ^^^ y) = mixG e0 e1 e2 e3 0 0 0 x ^^^ mixG e0 e1 e2 e3 0 0 0 y := by
  simpa using mixG_add e0 e1 e2 e3 0 0 0 x 0 0 0 y

theorem mixG_row0 (a b c d : UInt8) : mixG 2 3 1 1 a b c d = a := by
  rw [mixG_split,
    additive_id (fun x => mixG 2 3 1 1 x 0 0 0) (mixG_add1 _ _ _ _) (fun k hk => (mixG_basis k hk).1.1),
    additive_zero (fun x => mixG 2 3 1 1 0 x 0 0) (mixG_add2 _ _ _ _) (fun k hk => (mixG_basis k hk).1.2.1),
    additive_zero (fun x => mixG 2 3 1 1 0 0 x 0) (mixG_add3 _ _ _ _) (fun k hk => (mixG_basis k hk).1.2.2.1),
    additive_zero (fun x => mixG 2 3 1 1 0 0 0 x) (mixG_add4 _ _ _ _) (fun k hk => (mixG_basis k hk).1.2.2.2)]
  simp

theorem mixG_row1 (a b c d : UInt8) : mixG 1 2 3 1 a b c d = b := by
  rw [mixG_split,
    additive_zero (fun x => mixG 1 2 3 1 x 0 0 0) (mixG_add1 _ _ _ _) (fun k hk => (mixG_basis k hk).2.1.1),
    additive_id (fun x => mixG 1 2 3 1 0 x 0 0) (mixG_add2 _ _ _ _) (fun k hk => (mixG_basis k hk).2.1.2.1),
    additive_zero (fun x => mixG 1 2 3 1 0 0 x 0) (mixG_add3 _ _ _ _) (fun k hk => (mixG_basis k hk).2.1.2.2.1),
    additive_zero (fun x => mixG 1 2 3 1 0 0 0 x) (mixG_add4 _ _ _ _) (fun k hk => (mixG_basis k hk).2.1.2.2.2)]
  simp

theorem mixG_row2 (a b c d : UInt8) : mixG 1 1 2 3 a b c d = c := by
  rw [mixG_split,
    additive_zero (fun x => mixG 1 1 2 3 x 0 0 0) (mixG_add1 _ _ _ _) (fun k hk => (mixG_basis k hk).2.2.1.1),
    additive_zero (fun x => mixG 1 1 2 3 0 x 0 0) (mixG_add2 _ _ _ _) (fun k hk => (mixG_basis k hk).2.2.1.2.1),
    additive_id (fun x => mixG 1 1 2 3 0 0 x 0) (mixG_add3 _ _ _ _) (fun k hk => (mixG_basis k hk).2.2.1.2.2.1),
    additive_zero (fun x => mixG 1 1 2 3 0 0 0 x) (mixG_add4 _ _ _ _) (fun k hk => (mixG_basis k hk).2.2.1.2.2.2)]
  simp

theorem mixG_row3 (a b c d : UInt8) : mixG 3 1 1 2 a b c d = d := by
  rw [mixG_split,
    additive_zero (fun x => mixG 3 1 1 2 x 0 0 0) (mixG_add1 _ _ _ _) (fun k hk => (mixG_basis k hk).2.2.2.1),
    additive_zero (fun x => mixG 3 1 1 2 0 x 0 0) (mixG_add2 _ _ _ _) (fun k hk => (mixG_basis k hk).2.2.2.2.1),
    additive_zero (fun x => mixG 3 1 1 2 0 0 x 0) (mixG_add3 _ _ _ _) (fun k hk => (mixG_basis k hk).2.2.2.2.2.1),
    additive_id (fun x => mixG 3 1 1 2 0 0 0 x) (mixG_add4 _ _ _ _) (fun k hk => (mixG_basis k hk).2.2.2.2.2.2)]
  simp

theorem mixColumn_invMixColumn (a b c d : UInt8) :
    mixColumn [2, 3, 1, 1] (mixColumn [0x0e, 0x0b, 0x0d, 0x09] [a, b, c, d]) = [a, b, c, d] := by
  rw [mixColumn_four, mixColumn_four]
  have h0 := mixG_row0 a b c d
  have h1 := mixG_row1 a b c d
  have h2 := mixG_row2 a b c d
  have h3 := mixG_row3 a b c d
  unfold mixG at h0 h1 h2 h3
  rw [h0, h1, h2, h3]

theorem mixColumns_invMixColumns (s : Bytes) (h : s.length = 16) : mixColumns (invMixColumns s) = s := by
  obtain ⟨a0, a1, a2, a3, a4, a5, a6, a7, a8, a9, a10, a11, a12, a13, a14, a15, rfl⟩ := exists_sixteen s h
  unfold invMixColumns
  rw [mixColumns_sixteen]
  simp only [mixColumn_four, List.cons_append, List.nil_append]
  unfold mixColumns
  rw [mixColumns_sixteen]
  simp only [← mixColumn_four, mixColumn_invMixColumn, List.cons_append, List.nil_append]

/-! ## InvShiftRows and InvSubBytes commute -/

theorem invShiftRows_invSubBytes (s : Bytes) (h : s.length = 16) :
    invShiftRows (invSubBytes s) = invSubBytes (invShiftRows s) :=
  invShiftRows_map invSbox s h

theorem shiftRows_subBytes (s : Bytes) (h : s.length = 16) :
    shiftRows (subBytes s) = subBytes (shiftRows s) :=
  shiftRows_map sbox s h

/-! ## the decryption key schedule -/

theorem eqInvKeys_length (rk : List Bytes) (hne : rk ≠ []) : (eqInvKeys rk).length = rk.length := by
  have hpos : 0 < rk.length := List.length_pos_iff.mpr hne
  simp only [eqInvKeys, List.length_map, List.length_range]
  omega

theorem eqInvKeys_ne_nil (rk : List Bytes) : eqInvKeys rk ≠ [] := by
  intro h
  have := congrArg List.length h
  simp [eqInvKeys] at this

theorem eqInvKeys_getD (rk : List Bytes) (i : Nat) (hi : i < rk.length) :
    (eqInvKeys rk).getD i [] =
      if i = 0 ∨ i = rk.length - 1 then rk.getD i [] else invMixColumns (rk.getD i []) := by
  have hi' : i < rk.length - 1 + 1 := by omega
  simp only [eqInvKeys, List.getD_eq_getElem?_getD, List.getElem?_map, List.getElem?_range hi',
    Option.map_some, Option.getD_some]

theorem eqInvKeys_length16 (rk : List Bytes) (hne : rk ≠ []) (hk : ∀ k ∈ rk, k.length = 16) :
    ∀ k ∈ eqInvKeys rk, k.length = 16 := by
  have hpos : 0 < rk.length := List.length_pos_iff.mpr hne
  intro k hmem
  simp only [eqInvKeys, List.mem_map, List.mem_range] at hmem
  obtain ⟨r, hr, rfl⟩ := hmem
  split
  · exact getD_length16 rk hk r (by omega)
  · exact invMixColumns_length _

/-! ## EqInvCipher = InvCipher -/

theorem dec_fold_length (rk : List Bytes) (n : Nat) (l : List Nat) (s : Bytes) (hs : s.length = 16) :
    (l.foldl (fun s r =>
      invMixColumns (addRoundKey (invSubBytes (invShiftRows s)) (rk.getD (n - r) []))) s).length = 16 := by
  induction l generalizing s with
  | nil => exact hs
  | cons r l ih => exact ih _ (invMixColumns_length _)

theorem eq_fold (rk : List Bytes) (hk : ∀ k ∈ rk, k.length = 16) (l : List Nat)
    (hl : ∀ r ∈ l, r < rk.length - 1 - 1) (s : Bytes) (hs : s.length = 16) :
    l.foldl (fun s r => addRoundKey (invMixColumns (invShiftRows (invSubBytes s)))
        ((eqInvKeys rk).getD (rk.length - 1 - 1 - r) [])) s =
    l.foldl (fun s r => invMixColumns (addRoundKey (invSubBytes (invShiftRows s))
        (rk.getD (rk.length - 1 - 1 - r) []))) s := by
  induction l generalizing s with
  | nil => rfl
  | cons r l ih =>
    have hr : r < rk.length - 1 - 1 := hl r (by simp)
    simp only [List.foldl_cons]
    rw [eqInvKeys_getD rk _ (by omega), if_neg (by omega), invShiftRows_invSubBytes s hs,
      ← invMixColumns_addRoundKey _ _ (by rw [invSubBytes_length, invShiftRows_length])
        (getD_length16 rk hk _ (by omega))]
    exact ih (fun r' hr' => hl r' (by simp [hr'])) _ (invMixColumns_length _)

theorem eqInvCipher_eq (rk : List Bytes) (hne : rk ≠ []) (hk : ∀ k ∈ rk, k.length = 16)
    (b : Bytes) (hb : b.length = 16) : eqInvCipher (eqInvKeys rk) b = invCipher rk b := by
  have hpos : 0 < rk.length := List.length_pos_iff.mpr hne
  have hs : (addRoundKey b (rk.getD (rk.length - 1) [])).length = 16 :=
    addRoundKey_length16 _ _ hb (getD_length16 rk hk _ (by omega))
  simp only [eqInvCipher, invCipher]
  rw [eqInvKeys_length rk hne, eqInvKeys_getD rk (rk.length - 1) (by omega), if_pos (Or.inr rfl),
    eqInvKeys_getD rk 0 hpos, if_pos (Or.inl rfl),
    eq_fold rk hk _ (fun r hr => List.mem_range.mp hr) _ hs,
    invShiftRows_invSubBytes _ (dec_fold_length rk _ _ _ hs)]

theorem eqInvCipher_keyExpansion (key b : Bytes)
    (hk : key.length = 16 ∨ key.length = 24 ∨ key.length = 32) (hb : b.length = 16) :
    eqInvCipher (eqInvKeys (keyExpansion key)) b = invCipher (keyExpansion key) b :=
  eqInvCipher_eq _ (keyExpansion_length key hk).1 (keyExpansion_length key hk).2 b hb

theorem eqInvCipher_cipher (key b : Bytes)
    (hk : key.length = 16 ∨ key.length = 24 ∨ key.length = 32) (hb : b.length = 16) :
    eqInvCipher (eqInvKeys (keyExpansion key)) (cipher (keyExpansion key) b) = b := by
  rw [eqInvCipher_keyExpansion key _ hk (cipher_length key b hk hb), invCipher_cipher key b hk hb]

theorem eqInvCipher_length (dk : List Bytes) (hne : dk ≠ []) (hk : ∀ k ∈ dk, k.length = 16) (b : Bytes) :
    (eqInvCipher dk b).length = 16 := by
  have hpos : 0 < dk.length := List.length_pos_iff.mpr hne
  simp only [eqInvCipher]
  exact addRoundKey_length16 _ _ (invShiftRows_length _) (getD_length16 dk hk _ hpos)

end Relic.Lemmas.AesEqInv
