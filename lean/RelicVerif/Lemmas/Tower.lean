/-
The generic layer of Spec/Tower.lean is the polynomial quotient ring it is meant to be.

For a commutative ring R, a ring homomorphism φ : R → S into any commutative ring and any x ∈ S with x^k = φ c,
evaluation  l ↦ Σ φ(l_i) x^i  of coefficient lists sends the operations of `layer ringOps k c` to the ring operations of
S (`eval_mulMod`, `eval_add`, …). With S = R[X]/(X^k − c) and x the class of X (`eval_mulMod_adjoinRoot`) this says:
`Poly.mulMod` computes the product of the quotient ring on coefficient vectors. The result always has exactly k
coefficients (`length_mulMod`). In characteristic p the p-power map expands over the coefficients
(`frobenius_expand`), which is what `frobeniusVia` evaluates.
-/
import Mathlib.Algebra.Ring.Basic
import Mathlib.Algebra.CharP.Lemmas
import Mathlib.RingTheory.AdjoinRoot
import Mathlib.Tactic.Ring
import Mathlib.Tactic.LinearCombination
import RelicVerif.Spec.Tower

namespace Relic.Lemmas.Tower
open Relic.Spec.Tower

variable {R S : Type} [CommRing R] [CommRing S]

/-- the operations of a commutative ring -/
def ringOps : Ops R := { zero := 0, one := 1, add := (· + ·), neg := Neg.neg, mul := (· * ·) }

@[simp] theorem ringOps_zero : (ringOps : Ops R).zero = 0 := rfl
@[simp] theorem ringOps_one : (ringOps : Ops R).one = 1 := rfl
@[simp] theorem ringOps_add (a b : R) : (ringOps : Ops R).add a b = a + b := rfl
@[simp] theorem ringOps_neg (a : R) : (ringOps : Ops R).neg a = -a := rfl
@[simp] theorem ringOps_mul (a b : R) : (ringOps : Ops R).mul a b = a * b := rfl

/-- value of a coefficient list (constant term first) at x, coefficients mapped by φ -/
def eval (φ : R →+* S) (x : S) : List R → S
  | [] => 0
  | a :: as => φ a + x * eval φ x as

@[simp] theorem eval_nil (φ : R →+* S) (x : S) : eval φ x [] = 0 := rfl
@[simp] theorem eval_cons (φ : R →+* S) (x : S) (a : R) (as : List R) : eval φ x (a :: as) = φ a + x * eval φ x as := rfl

theorem eval_add (φ : R →+* S) (x : S) : ∀ a b : List R, eval φ x (Poly.add ringOps a b) = eval φ x a + eval φ x b
  | [], b => by simp [Poly.add]
  | a :: as, [] => by simp [Poly.add]
  | a :: as, b :: bs => by
    simp only [Poly.add, eval_cons, eval_add φ x as bs, ringOps_add, map_add]
    ring

theorem eval_scale (φ : R →+* S) (x : S) (c : R) : ∀ a : List R, eval φ x (Poly.scale ringOps c a) = φ c * eval φ x a
  | [] => by simp [Poly.scale]
  | a :: as => by
    have ih := eval_scale φ x c as
    simp only [Poly.scale] at ih ⊢
    simp only [List.map_cons, eval_cons, ih, ringOps_mul, map_mul]
    ring

theorem eval_neg (φ : R →+* S) (x : S) : ∀ a : List R, eval φ x (Poly.neg ringOps a) = - eval φ x a
  | [] => by simp [Poly.neg]
  | a :: as => by
    have ih := eval_neg φ x as
    simp only [Poly.neg] at ih ⊢
    simp only [List.map_cons, eval_cons, ih, ringOps_neg, map_neg]
    ring

theorem eval_mul (φ : R →+* S) (x : S) : ∀ a b : List R, eval φ x (Poly.mul ringOps a b) = eval φ x a * eval φ x b
  | [], b => by simp [Poly.mul]
  | a :: as, b => by
    simp only [Poly.mul, eval_add, eval_scale, eval_cons, eval_mul φ x as b, ringOps_zero, map_zero]
    ring

theorem eval_take_drop (φ : R →+* S) (x : S) : ∀ (k : Nat) (l : List R),
    eval φ x (l.take k) + x ^ k * eval φ x (l.drop k) = eval φ x l
  | 0, l => by simp
  | k + 1, [] => by simp
  | k + 1, a :: as => by
    have ih := eval_take_drop φ x k as
    simp only [List.take_succ_cons, List.drop_succ_cons, eval_cons]
    rw [← ih]
    ring

theorem eval_reduce (φ : R →+* S) (x : S) (k : Nat) (c : R) (hx : x ^ k = φ c) :
    ∀ (fuel : Nat) (l : List R), eval φ x (Poly.reduce ringOps k c fuel l) = eval φ x l
  | 0, l => rfl
  | fuel + 1, l => by
    unfold Poly.reduce
    split
    · rfl
    · rw [eval_reduce φ x k c hx fuel, eval_add, eval_scale, ← hx, eval_take_drop]

theorem eval_replicate_zero (φ : R →+* S) (x : S) : ∀ n : Nat, eval φ x (List.replicate n (0 : R)) = 0
  | 0 => rfl
  | n + 1 => by simp [List.replicate_succ, eval_replicate_zero φ x n]

theorem eval_append (φ : R →+* S) (x : S) : ∀ a b : List R, eval φ x (a ++ b) = eval φ x a + x ^ a.length * eval φ x b
  | [], b => by simp
  | a :: as, b => by
    simp only [List.cons_append, eval_cons, eval_append φ x as b, List.length_cons]
    ring

theorem eval_pad (φ : R →+* S) (x : S) (k : Nat) (l : List R) : eval φ x (Poly.pad ringOps k l) = eval φ x l := by
  simp only [Poly.pad, eval_append]
  have : eval φ x (List.replicate (k - l.length) (ringOps (R := R)).zero) = 0 := eval_replicate_zero φ x _
  rw [this]; ring

/-- **the layer's product is the product of the quotient ring**: for every x with x^k = c, evaluation at x is
    multiplicative -/
theorem eval_mulMod (φ : R →+* S) (x : S) (k : Nat) (c : R) (hx : x ^ k = φ c) (a b : List R) :
    eval φ x (Poly.mulMod ringOps k c a b) = eval φ x a * eval φ x b := by
  simp only [Poly.mulMod, eval_pad, eval_reduce φ x k c hx, eval_mul]

/-- evaluation respects the other operations of the layer -/
theorem eval_layer_add (φ : R →+* S) (x : S) (k : Nat) (c : R) (a b : List R) :
    eval φ x ((layer ringOps k c).add a b) = eval φ x a + eval φ x b := eval_add φ x a b

theorem eval_layer_neg (φ : R →+* S) (x : S) (k : Nat) (c : R) (a : List R) :
    eval φ x ((layer ringOps k c).neg a) = - eval φ x a := eval_neg φ x a

theorem eval_layer_zero (φ : R →+* S) (x : S) (k : Nat) (c : R) : eval φ x ((layer (ringOps (R := R)) k c).zero) = 0 :=
  eval_replicate_zero φ x k

theorem eval_layer_one (φ : R →+* S) (x : S) (k : Nat) (c : R) : eval φ x ((layer (ringOps (R := R)) k c).one) = 1 := by
  simp only [layer, eval_pad, eval_cons, eval_nil, ringOps_one, map_one]
  ring

theorem eval_layer_mul (φ : R →+* S) (x : S) (k : Nat) (c : R) (hx : x ^ k = φ c) (a b : List R) :
    eval φ x ((layer ringOps k c).mul a b) = eval φ x a * eval φ x b := eval_mulMod φ x k c hx a b

/-! ### the result has exactly k coefficients -/

theorem length_add : ∀ a b : List R, (Poly.add ringOps a b).length = max a.length b.length
  | [], b => by simp [Poly.add]
  | a :: as, [] => by simp [Poly.add]
  | a :: as, b :: bs => by simp [Poly.add, length_add as bs, Nat.succ_max_succ]

theorem length_scale (c : R) (a : List R) : (Poly.scale ringOps c a).length = a.length := by simp [Poly.scale]

theorem length_mul_le : ∀ a b : List R, (Poly.mul ringOps a b).length ≤ a.length + b.length
  | [], b => by simp [Poly.mul]
  | a :: as, b => by
    have ih := length_mul_le as b
    simp only [Poly.mul, length_add, length_scale, List.length_cons]
    omega

theorem length_reduce (k : Nat) (hk : 0 < k) (c : R) : ∀ (fuel : Nat) (l : List R), l.length ≤ k + fuel →
    (Poly.reduce ringOps k c fuel l).length ≤ k
  | 0, l, h => by simpa [Poly.reduce] using h
  | fuel + 1, l, h => by
    unfold Poly.reduce
    split
    · assumption
    · apply length_reduce k hk c fuel
      simp only [length_add, length_scale, List.length_take, List.length_drop]
      omega

theorem length_mulMod (k : Nat) (hk : 0 < k) (c : R) (a b : List R) : (Poly.mulMod ringOps k c a b).length = k := by
  have h := length_reduce k hk c (a.length + b.length) (Poly.mul ringOps a b) (by have := length_mul_le a b; omega)
  simp only [Poly.mulMod, Poly.pad, List.length_append, List.length_replicate]
  omega

/-! ### the quotient ring itself -/

open Polynomial in
/-- in R[X]/(X^k − c) the class of X is a k-th root of c -/
theorem adjoinRoot_root_pow (k : Nat) (c : R) :
    (AdjoinRoot.root (X ^ k - C c : R[X])) ^ k = AdjoinRoot.of (X ^ k - C c) c := by
  have h := AdjoinRoot.eval₂_root (X ^ k - C c : R[X])
  simp only [eval₂_sub, eval₂_pow, eval₂_X, eval₂_C] at h
  exact sub_eq_zero.mp h

open Polynomial in
/-- **`Poly.mulMod` is the multiplication of R[X]/(X^k − c)** on coefficient vectors -/
theorem eval_mulMod_adjoinRoot (k : Nat) (c : R) (a b : List R) :
    eval (AdjoinRoot.of (X ^ k - C c : R[X])) (AdjoinRoot.root _) (Poly.mulMod ringOps k c a b) =
      eval (AdjoinRoot.of (X ^ k - C c)) (AdjoinRoot.root _) a * eval (AdjoinRoot.of (X ^ k - C c)) (AdjoinRoot.root _) b :=
  eval_mulMod _ _ k c (adjoinRoot_root_pow k c) a b

/-! ### the p-power map -/

/-- in characteristic p:  (Σ φ(a_i) x^i)^p = Σ φ(a_i)^p (x^p)^i -/
theorem frobenius_expand (p : Nat) [Fact p.Prime] [CharP S p] (φ : R →+* S) (x : S) :
    ∀ l : List R, (eval φ x l) ^ p = eval ((frobenius S p).comp φ) (x ^ p) l
  | [] => by simp [(Fact.out : p.Prime).ne_zero]
  | a :: as => by
    simp only [eval_cons, add_pow_char, mul_pow, frobenius_expand p φ x as, RingHom.comp_apply, frobenius_def]

end Relic.Lemmas.Tower
