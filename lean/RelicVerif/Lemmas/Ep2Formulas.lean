/-
The point-arithmetic templates are instantiated twice by the library: TMPL_*(ep, fp) and TMPL_*(ep2, fp2).  The
translator regenerates both instantiations (and the public wrappers of relic_ep2_add.c / relic_ep2_dbl.c) on every
run.  The two generated texts are the same term up to the names; this file checks that by `rfl`, so that every theorem
of Lemmas/EpFormulas.lean (stated over an arbitrary field) is a theorem about the ep2 code as well.  If the two
instantiations ever diverge, these equalities stop checking.
-/
import RelicVerif.Lemmas.EpFormulas
import RelicVerif.Gen.Ep2Formulas

namespace Relic.Lemmas.Ep2Formulas
open Relic.Model.Formula Relic.Gen

theorem dbl_basic_imp_eq : @ep2_dbl_basic_imp = @ep_dbl_basic_imp := rfl
theorem dbl_basic_eq : @ep2_dbl_basic = @ep_dbl_basic := rfl
theorem dbl_projc_imp_eq : @ep2_dbl_projc_imp = @ep_dbl_projc_imp := rfl
theorem dbl_projc_eq : @ep2_dbl_projc = @ep_dbl_projc := rfl
theorem dbl_jacob_imp_eq : @ep2_dbl_jacob_imp = @ep_dbl_jacob_imp := rfl
theorem dbl_jacob_eq : @ep2_dbl_jacob = @ep_dbl_jacob := rfl
theorem add_basic_imp_eq : @ep2_add_basic_imp = @ep_add_basic_imp := rfl
theorem add_basic_eq : @ep2_add_basic = @ep_add_basic := rfl
theorem add_projc_mix_eq : @ep2_add_projc_mix = @ep_add_projc_mix := rfl
theorem add_projc_imp_eq : @ep2_add_projc_imp = @ep_add_projc_imp := rfl
theorem add_projc_eq : @ep2_add_projc = @ep_add_projc := rfl
theorem add_jacob_mix_eq : @ep2_add_jacob_mix = @ep_add_jacob_mix := rfl
theorem add_jacob_imp_eq : @ep2_add_jacob_imp = @ep_add_jacob_imp := rfl
theorem add_jacob_eq : @ep2_add_jacob = @ep_add_jacob := rfl

end Relic.Lemmas.Ep2Formulas
