/-
C19 — Error handling behaves as a well-defined state machine.
Model: the macros of include/relic_err.h as a machine over the context fields (Model/Err.lean `mEval`);
specification: structured semantics (`sEval`): a throw transfers control to the nearest enclosing handler,
the finalisation block of every exited protected block runs exactly once, the handler chain after a block
is the chain before it, the sticky code reads as error until fetched.
-/
import RelicVerif.Lemmas.Err
import RelicVerif.Model.ParamSel

namespace Relic.Props.C19
open Relic.Model.Err

/-- every program, any nesting depth and order of try / throw / rethrow / catch-with-variable / catch-any /
    finally / throws outside any block: same action trace, same final sticky code, same final chain -/
theorem err_machine_refines_structured (p : Prog) : mRun true p = sRun p := mRun_eq_sRun p

/-- the macro as it was before the repair (commit "fix: RLC_CATCH re-reads ctx->caught …") -/
theorem err_machine_original_partial (p : Prog) (h : finallyFree p = true) : mRun false p = sRun p :=
  mRun_orig_eq_sRun_of_finallyFree p h

/-- … and it was wrong outside that fragment: (a) a successful nested block inside FINALLY suppressed the
    pending handler, (b) a nested block that caught its own error inside FINALLY triggered the handler. -/
theorem err_machine_original_counter_a :
    mRun false (.tryc (.throw 5) (.act 1) (.tryc (.act 2) .skip .skip false) false)
      ≠ sRun (.tryc (.throw 5) (.act 1) (.tryc (.act 2) .skip .skip false) false) := by decide

theorem err_machine_original_counter_b :
    mRun false (.tryc (.act 3) (.act 1) (.tryc (.throw 5) (.act 4) .skip false) false)
      ≠ sRun (.tryc (.act 3) (.act 1) (.tryc (.throw 5) (.act 4) .skip false) false) := by decide

/-- the sticky code: after a program that ends with an err_get_code observation the code is success -/
theorem err_code_reset (p : Prog) : (sRun (.seq p .getcode)).2.1 = 0 ∨
    ∃ e, (sEval p 0 {}).1 = .thrown e := by
  unfold sRun
  simp only [sEval]
  split
  · left; rfl
  · rename_i r hr
    right
    cases h : (sEval p 0 {}).1 with
    | normal =>
      exfalso
      apply hr (sEval p 0 {}).2
      rw [← h]
    | thrown e => exact ⟨e, rfl⟩

/-- non-vacuity: a program with nested blocks, rethrow, variable and finally evaluates as expected -/
example : sRun (.seq (.tryc (.tryc (.throw 1) (.throw 0) (.act 9) true) (.act 8) (.act 10) true) .getcode)
    = ([.act 9, .caught 1, .act 10, .caught 99, .act 8, .code 1], 0, true) := by decide

/-! ### parameter selection is history-free (model: Model/ParamSel.lean over the tables extracted from the source on every run; tie: the
    re-parameterisation stream — every ordered pair of selectable curves, the same curve after a field change and after
    core_clean/core_init, rejected identifiers in between — compared with a fresh process) -/
section Selection
open Relic.Model.Param

/-- what an accepted selection installs does not depend on what was installed before -/
theorem selectCurve_fresh (fs : List FieldParam) (cs : List CurveParam) (st st' : CurveSel) (id : Nat)
    (h : (selectCurve fs cs st id).2 = true) : selectCurve fs cs st id = selectCurve fs cs st' id := by
  unfold selectCurve at h ⊢
  cases hc : cs.find? (·.id == id) with
  | none => rw [hc] at h; simp at h
  | some c =>
    rw [hc] at h
    simp only at h ⊢
    cases hf : lookupField fs c.field with
    | none => rw [hf] at h; simp at h
    | some f => rfl

/-- "after any sequence of parameter selections the library computes exactly what a freshly initialised library with the last selection
    computes": whatever was selected (or rejected) before, after an accepted selection the installed set is the one a fresh context gets -/
theorem selection_history_independent (fs : List FieldParam) (cs : List CurveParam) (init fresh : CurveSel) (hist : List Nat) (id : Nat)
    (h : (selectCurve fs cs fresh id).2 = true) :
    selStep fs cs (hist.foldl (selStep fs cs) init) id = selStep fs cs fresh id := by
  unfold selStep
  have h' : (selectCurve fs cs (hist.foldl (fun st i => (selectCurve fs cs st i).1) init) id).2 = true := by
    unfold selectCurve at h ⊢
    cases hc : cs.find? (·.id == id) with
    | none => rw [hc] at h; simp at h
    | some c =>
      rw [hc] at h
      simp only at h ⊢
      cases hf : lookupField fs c.field with
      | none => rw [hf] at h; simp at h
      | some f => rfl
  rw [selectCurve_fresh fs cs _ fresh id h']

/-- rejected selections in between leave no trace -/
theorem rejected_selection_no_trace (fs : List FieldParam) (cs : List CurveParam) (st : CurveSel) (bad : Nat)
    (h : (selectCurve fs cs st bad).2 = false) : selStep fs cs st bad = st := by
  unfold selStep
  unfold selectCurve at h ⊢
  cases hc : cs.find? (·.id == bad) with
  | none => rfl
  | some c =>
    rw [hc] at h
    simp only at h ⊢
    cases hf : lookupField fs c.field with
    | none => rfl
    | some f => rw [hf] at h; simp at h


end Selection

end Relic.Props.C19
