/-
C19 — Error handling behaves as a well-defined state machine.
Model: the macros of include/relic_err.h as a machine over the context fields (Model/Err.lean `mEval`);
specification: structured semantics (`sEval`): a throw transfers control to the nearest enclosing handler,
the finalisation block of every exited protected block runs exactly once, the handler chain after a block
is the chain before it, the sticky code reads as error until fetched.
-/
import RelicVerif.Lemmas.Err

namespace Relic.Props.C19
open Relic.Model.Err

/-- every program, any nesting depth and order of try / throw / rethrow / catch-with-variable / catch-any /
    finally / throws outside any block: same action trace, same final sticky code, same final chain -/
theorem err_machine_refines_structured (p : Prog) : mRun true p = sRun p := mRun_eq_sRun p

/-- the macro as it was before the repair (commit "fix: RLC_CATCH re-reads ctx->caught …") -/
theorem err_machine_original_partial (p : Prog) (h : finallyFree p = true) : mRun false p = sRun p :=
  mRun_orig_eq_sRun_of_finallyFree p h

/-- … and it was wrong outside that fragment: (a) a successful nested block inside FINALLY suppressed the
    pending handler, (b) a nested block that caught its own error inside FINALLY triggered the handler. -/
theorem err_machine_original_counter_a :
    mRun false (.tryc (.throw 5) (.act 1) (.tryc (.act 2) .skip .skip false) false)
      ≠ sRun (.tryc (.throw 5) (.act 1) (.tryc (.act 2) .skip .skip false) false) := by decide

theorem err_machine_original_counter_b :
    mRun false (.tryc (.act 3) (.act 1) (.tryc (.throw 5) (.act 4) .skip false) false)
      ≠ sRun (.tryc (.act 3) (.act 1) (.tryc (.throw 5) (.act 4) .skip false) false) := by decide

/-- the sticky code: after a program that ends with an err_get_code observation the code is success -/
theorem err_code_reset (p : Prog) : (sRun (.seq p .getcode)).2.1 = 0 ∨
    ∃ e, (sEval p 0 {}).1 = .thrown e := by
  unfold sRun
  simp only [sEval]
  split
  · left; rfl
  · rename_i r hr
    right
    cases h : (sEval p 0 {}).1 with
    | normal =>
      exfalso
      apply hr (sEval p 0 {}).2
      rw [← h]
    | thrown e => exact ⟨e, rfl⟩

/-- non-vacuity: a program with nested blocks, rethrow, variable and finally evaluates as expected -/
example : sRun (.seq (.tryc (.tryc (.throw 1) (.throw 0) (.act 9) true) (.act 8) (.act 10) true) .getcode)
    = ([.act 9, .caught 1, .act 10, .caught 99, .act 8, .code 1], 0, true) := by decide

end Relic.Props.C19
