/-
C10 — extension-field towers compute in the quotient rings they denote.

Specification: Spec/Tower.lean (generic layer K[X]/(X^k − c): schoolbook product, folding modulo X^k − c).
Model: Model/Fpx.lean (the formulas of src/fpx, statement by statement, over the operation record of the level below);
45 of its functions are regenerated from the C text on every run (Gen/Fpx.lean, tools/translate_fpx.py) and proved equal to
the model definitions in Lemmas/FpxGen.lean (counted as obligations of this property).
Proofs: Lemmas/Tower.lean, Lemmas/Fpx.lean. All statements are for arbitrary commutative rings / fields and arbitrary
elements (no bounds); the non-residues are parameters.

§1  the specification's layer is the quotient ring;
§2  every multiplication / squaring / inversion formula of the model returns the product / square / inverse of the
    quotient ring, coefficient by coefficient (hence equals the specification `Poly.mulMod`);
§3  the specialised forms equal the generic operation under their precondition (sparse operands; cyclotomic subgroup:
    Granger–Scott squaring, Karabina compressed squaring and decompression in all three cases, conjugation as inverse);
§4  the stacked model as the driver executes it is carried to ring operations by evaluation at the adjoined roots;
§5  loops (square-and-multiply, the signed-digit loop of the cyclotomic exponentiations, simultaneous inversion);
§6  for the record: what the decompression formula computed before the repair of findings C10-F3 / C10-F8.

Not covered by theorems (class C, compared with the specification on the presented lines only): the digit-level lazy
reduction (double-precision accumulators, fp_addc_low/fp_subc_low corrections), Frobenius through the precomputed
constant tables, the table construction / recoding glue and the sparse / compressed-squaring / GLS paths of the cyclotomic
exponentiations (the signed-digit loop itself is §5), square roots, serialisation, the compressed forms of fp18 / fp24 /
fp48 / fp54 (same formulas over larger block fields; specification only).
-/
import RelicVerif.Lemmas.Tower
import RelicVerif.Lemmas.Fpx
import RelicVerif.Lemmas.FpxGen

namespace Relic.Props.C10
open Relic.Spec.Tower Relic.Model.Fpx Relic.Model.Formula
open Relic.Lemmas.Tower Relic.Lemmas.Fpx

variable {R S : Type} [CommRing R] [CommRing S]

/-! ## §1 the generic layer of the specification is R[X]/(X^k − c) -/

/-- for every ring S, homomorphism φ : R → S and x ∈ S with x^k = φ c: evaluation of coefficient lists at x sends the
    layer's product to the product of S -/
theorem spec_layer_mul (φ : R →+* S) (x : S) (k : Nat) (c : R) (hx : x ^ k = φ c) (a b : List R) :
    eval φ x ((layer ringOps k c).mul a b) = eval φ x a * eval φ x b := eval_layer_mul φ x k c hx a b

theorem spec_layer_add (φ : R →+* S) (x : S) (k : Nat) (c : R) (a b : List R) :
    eval φ x ((layer ringOps k c).add a b) = eval φ x a + eval φ x b := eval_layer_add φ x k c a b

theorem spec_layer_neg (φ : R →+* S) (x : S) (k : Nat) (c : R) (a : List R) :
    eval φ x ((layer ringOps k c).neg a) = - eval φ x a := eval_layer_neg φ x k c a

theorem spec_layer_zero_one (φ : R →+* S) (x : S) (k : Nat) (c : R) :
    eval φ x ((layer (ringOps (R := R)) k c).zero) = 0 ∧ eval φ x ((layer (ringOps (R := R)) k c).one) = 1 :=
  ⟨eval_layer_zero φ x k c, eval_layer_one φ x k c⟩

open Polynomial in
/-- in particular in the quotient ring itself, x the class of X -/
theorem spec_layer_mul_adjoinRoot (k : Nat) (c : R) (a b : List R) :
    eval (AdjoinRoot.of (X ^ k - C c : R[X])) (AdjoinRoot.root _) (Poly.mulMod ringOps k c a b) =
      eval (AdjoinRoot.of (X ^ k - C c)) (AdjoinRoot.root _) a * eval (AdjoinRoot.of (X ^ k - C c)) (AdjoinRoot.root _) b :=
  eval_mulMod_adjoinRoot k c a b

/-- the product always has exactly k coefficients (canonical length) -/
theorem spec_layer_mul_length (k : Nat) (hk : 0 < k) (c : R) (a b : List R) : (Poly.mulMod ringOps k c a b).length = k :=
  length_mulMod k hk c a b

/-- the p-power map expands over the coefficients (what `frobeniusVia` evaluates) -/
theorem spec_frobenius_expand (p : Nat) [Fact p.Prime] [CharP S p] (φ : R →+* S) (x : S) (l : List R) :
    (eval φ x l) ^ p = eval ((frobenius S p).comp φ) (x ^ p) l := frobenius_expand p φ x l

/-! ## §2 formulas of the model = products / squares / inverses of the quotient ring -/

/-- the closed forms used below are the specification -/
theorem quad_closed_form_is_spec (ν : R) (a b : V2 R) :
    toList2 (quadProd ν a b) = Poly.mulMod ringOps 2 ν (toList2 a) (toList2 b) := quadProd_eq_mulMod ν a b

theorem cub_closed_form_is_spec (ν : R) (a b : V3 R) :
    toList3 (cubProd ν a b) = Poly.mulMod ringOps 3 ν (toList3 a) (toList3 b) := cubProd_eq_mulMod ν a b

section formulas
variable (inv : R → R) (hf : R) (isZero : R → Bool)
local notation "o" => rOps inv (fun x : R => hf * x) isZero

/-! #### fp2 (qnr = q ≤ −1: fp_prime_set never selects another value; for q ≥ 1 the loops of fp2_mul_basic and
fp2_sqr_basic would compute with q − 2, dead code) -/

theorem fp2_mul_basic (q : Int) (hq : q ≤ -1) (a b : V2 R) : fp2Mul o q a b = quadProd (q : R) a b :=
  fp2Mul_eq inv hf isZero q hq a b
theorem fp2_mul_integ (q : Int) (hq : q ≤ -1) (a b : V2 R) : fp2MulInteg o q a b = quadProd (q : R) a b :=
  fp2MulInteg_eq inv hf isZero q hq a b
theorem fp2_sqr_basic (q : Int) (hq : q ≤ -1) (a : V2 R) : fp2Sqr o q a = quadProd (q : R) a a :=
  fp2Sqr_eq inv hf isZero q hq a
theorem fp2_sqr_integ (q : Int) (hq : q ≤ -1) (a : V2 R) : fp2SqrInteg o q a = quadProd (q : R) a a :=
  fp2SqrInteg_eq inv hf isZero q hq a
theorem fp2_mul_art (q : Int) (hq : q ≤ -1) (a : V2 R) : fp2MulArt o q a = quadProd (q : R) a ⟨0, 1⟩ :=
  fp2MulArt_eq inv hf isZero q hq a
/-- every branch of the switch in fp2_mul_nor multiplies by the documented constant -/
theorem fp2_mul_nor (q : Int) (hq : q ≤ -1) (mod8 qnr2 : Nat) (a r : V2 R)
    (h : fp2MulNor o q mod8 qnr2 a = some r) (h3 : mod8 = 3 → qnr2 = 1 → q = -1) :
    r = quadProd (q : R) a (fp2NorConst mod8 qnr2) := fp2MulNor_eq inv hf isZero q hq mod8 qnr2 a r h h3
/-- fp2_inv: a · result = 1 whenever the base-field inversion inverts the norm a0² − q·a1² -/
theorem fp2_inv (q : Int) (a : V2 R) (hinv : inv (fp2Norm q a) * fp2Norm q a = 1) :
    quadProd (q : R) a (fp2Inv o q a) = ⟨1, 0⟩ := fp2Inv_mul inv hf isZero q a hinv

/-! #### fp3 (cnr = c, any sign) -/

theorem fp3_mul (c : Int) (a b : V3 R) : fp3Mul o c a b = cubProd (c : R) a b := fp3Mul_eq inv hf isZero c a b
theorem fp3_sqr (c : Int) (hh : 2 * hf = 1) (a : V3 R) : fp3Sqr o c a = cubProd (c : R) a a := fp3Sqr_eq inv hf isZero c hh a
theorem fp3_mul_art (c : Int) (a : V3 R) : fp3MulArt o c a = cubProd (c : R) a ⟨0, 1, 0⟩ := fp3MulArt_eq inv hf isZero c a
theorem fp3_inv (c : Int) (a : V3 R) (hinv : inv (cubNorm (c : R) a) * cubNorm (c : R) a = 1) :
    cubProd (c : R) a (fp3Inv o c a) = ⟨1, 0, 0⟩ := fp3Inv_mul inv hf isZero c a hinv

/-! #### every quadratic level (fp4, fp8, fp12, fp16, fp18, fp48) over its sub-level R, ν the adjoined square -/

variable (ν : R)
theorem quad_mul (a b : V2 R) : quadMul o (fun t => ν * t) a b = quadProd ν a b := quadMul_eq inv hf isZero ν a b
theorem quad_sqr (a : V2 R) : quadSqr o (fun t => ν * t) a = quadProd ν a a := quadSqr_eq inv hf isZero ν a
theorem quad_sqr_unr (a : V2 R) : quadSqrUnr o (fun t => ν * t) a = quadProd ν a a := quadSqrUnr_eq inv hf isZero ν a
theorem quad_mul_art (a : V2 R) : quadArt (fun t => ν * t) a = quadProd ν a ⟨0, 1⟩ := quadArt_eq ν a
theorem quad_inv (a : V2 R) (hinv : inv (quadNorm ν a) * quadNorm ν a = 1) :
    quadProd ν a (quadInv o (fun t => ν * t) a) = ⟨1, 0⟩ := quadInv_mul inv hf isZero ν a hinv

/-! #### every cubic level (fp6, fp9, fp24, fp54) -/

theorem cub_mul (a b : V3 R) : cubMul o (fun t => ν * t) a b = cubProd ν a b := cubMul_eq inv hf isZero ν a b
theorem cub_sqr (hh : 2 * hf = 1) (a : V3 R) : cubSqr o (fun t => ν * t) a = cubProd ν a a := cubSqr_eq inv hf isZero ν hh a
theorem cub_mul_art (a : V3 R) : cubArt (fun t => ν * t) a = cubProd ν a ⟨0, 1, 0⟩ := cubArt_eq ν a
theorem cub_inv (a : V3 R) (hinv : inv (cubNorm ν a) * cubNorm ν a = 1) :
    cubProd ν a (cubInv o (fun t => ν * t) a) = ⟨1, 0, 0⟩ := cubInv_mul inv hf isZero ν a hinv

/-! ## §3 specialised forms under their precondition -/

/-- fp6_mul_dxs / fp9_mul_dxs -/
theorem cub_mul_dxs (a b : V3 R) (hb : b.c2 = 0) : cubMulDxs o (fun t => ν * t) a b = cubProd ν a b :=
  cubMulDxs_eq inv hf isZero ν a b hb

/-- fpN_inv_cyc: the conjugate inverts a unitary element (a0² − ν·a1² = 1, i.e. a^(p^{n/2}+1) = 1 in the field case) -/
theorem quad_inv_cyc (a : V2 R) (hu : quadNorm ν a = 1) : quadProd ν a (quadConj o a) = ⟨1, 0⟩ :=
  quadConj_mul inv hf isZero ν a hu
example : quadNorm (2 : ℤ) ⟨3, 2⟩ = 1 := by norm_num [quadNorm]

/-- fp8_sqr_cyc / fp16_sqr_cyc -/
theorem quad_sqr_cyc (a : V2 R) (hu : quadNorm ν a = 1) : quadSqrCyc o (fun t => ν * t) a = quadProd ν a a :=
  quadSqrCyc_eq inv hf isZero ν a hu

/-! #### fp12 over K = R (fp2 abstractly), ξ the constant of fp2_mul_nor -/

variable (ξ : R)

/-- the model's generic fp12 multiplication (Karatsuba over Karatsuba) is the product of the tower -/
theorem fp12_mul (a b : Fp12 R) :
    quadMul (cubOps o (fun t => ξ * t)) (cubArt (fun t => ξ * t)) a b = fp12Prod ξ a b := fp12Mul_eq inv hf isZero ξ a b

/-- fp12_mul_dxs, D-type and M-type twists -/
theorem fp12_mul_dxs_dtype (a b : Fp12 R) (hb : SparseD b) : fp12MulDxs o (fun t => ξ * t) .dtype a b = fp12Prod ξ a b :=
  fp12MulDxs_dtype inv hf isZero ξ a b hb
theorem fp12_mul_dxs_mtype (a b : Fp12 R) (hb : SparseM b) : fp12MulDxs o (fun t => ξ * t) .mtype a b = fp12Prod ξ a b :=
  fp12MulDxs_mtype inv hf isZero ξ a b hb
example : SparseD (⟨⟨(5 : ℤ), 0, 0⟩, ⟨7, 11, 0⟩⟩ : Fp12 ℤ) := ⟨rfl, rfl, rfl⟩
example : SparseM (⟨⟨(5 : ℤ), 7, 0⟩, ⟨0, 11, 0⟩⟩ : Fp12 ℤ) := ⟨rfl, rfl, rfl⟩

/-- Granger–Scott squaring on the cyclotomic subgroup (`IsCyc12`: the six relations equivalent to
    α^(p⁴ − p² + 1) = 1, see `cyclotomic_relations`) -/
theorem fp12_sqr_cyc (a : Fp12 R) (h : IsCyc12 ξ a) : fp12SqrCyc o (fun t => ξ * t) a = fp12Prod ξ a a :=
  fp12SqrCyc_eq inv hf isZero ξ a h
example : IsCyc12 (7 : ℤ) ⟨⟨1, 0, 0⟩, ⟨0, 0, 0⟩⟩ := by constructor <;> norm_num

/-- Karabina compressed squaring: the four retained coefficients of the square, the other two untouched; only the
    retained coefficients of the operand are read -/
theorem fp12_sqr_pck (c a : Fp12 R) (h : IsCyc12 ξ a) :
    (fp12SqrPck o (fun t => ξ * t) c a).c0.c1 = (fp12Prod ξ a a).c0.c1 ∧
    (fp12SqrPck o (fun t => ξ * t) c a).c0.c2 = (fp12Prod ξ a a).c0.c2 ∧
    (fp12SqrPck o (fun t => ξ * t) c a).c1.c0 = (fp12Prod ξ a a).c1.c0 ∧
    (fp12SqrPck o (fun t => ξ * t) c a).c1.c2 = (fp12Prod ξ a a).c1.c2 ∧
    (fp12SqrPck o (fun t => ξ * t) c a).c0.c0 = c.c0.c0 ∧ (fp12SqrPck o (fun t => ξ * t) c a).c1.c1 = c.c1.c1 :=
  fp12SqrPck_eq inv hf isZero ξ c a h

theorem fp12_sqr_pck_reads_compressed (c a a' : Fp12 R) (h01 : a.c0.c1 = a'.c0.c1) (h02 : a.c0.c2 = a'.c0.c2)
    (h10 : a.c1.c0 = a'.c1.c0) (h12 : a.c1.c2 = a'.c1.c2) :
    fp12SqrPck o (fun t => ξ * t) c a = fp12SqrPck o (fun t => ξ * t) c a' :=
  fp12SqrPck_congr inv hf isZero ξ c a a' h01 h02 h10 h12

end formulas

/-- the relations `IsCyc12` are the condition α·α^(p⁴) = α^(p²) of the cyclotomic subgroup, stated over an abstract
    fp4 = K with conjugation `conj`, s = w³, and γ = ξ^((p²−1)/6) a primitive sixth root of unity fixed by conj -/
theorem cyclotomic_relations {K : Type} [CommRing K] (conj : K →+* K) (s γ : K) (hinv : ∀ z, conj (conj z) = z)
    (hγ : γ ^ 2 - γ + 1 = 0) (hcγ : conj γ = γ) (x : V3 K) :
    cubProd s x (frobQ conj γ (frobQ conj γ x)) = frobQ conj γ x ↔
      (x.c1 * x.c2 * s = x.c0 ^ 2 - conj x.c0 ∧ x.c0 * x.c1 = x.c2 ^ 2 * s + conj x.c1 ∧ x.c0 * x.c2 = x.c1 ^ 2 - conj x.c2) :=
  cyc_relations_iff conj s γ hinv hγ hcγ x

section decompression
variable {F : Type} [Field F] [DecidableEq F] (hf ξ : F)

/-- **decompression** (fp12_back_cyc, the code of /repo after the repairs of C10-F3 / C10-F8, regenerated from the C text):
    from any operand carrying the four retained coefficients of an element a of the cyclotomic subgroup it returns a — in
    the regular case g2 ≠ 0, in the exceptional case g2 = 0 (g1 = 2·g4·g5/g3) and for the identity (compressed form zero).
    Field hypotheses: 2, 3 ≠ 0, ξ not a square, −3 a square (true in fp2 for the towers the library builds). -/
theorem fp12_back_cyc (h2 : (2 : F) ≠ 0) (h3 : (3 : F) ≠ 0) (hns : ∀ y : F, y ^ 2 ≠ ξ) (ω : F) (hω : ω ^ 2 = -3)
    (a x : Fp12 F) (h : IsCyc12 ξ a) (hne : NonZero12 a)
    (h01 : x.c0.c1 = a.c0.c1) (h02 : x.c0.c2 = a.c0.c2) (h10 : x.c1.c0 = a.c1.c0) (h12 : x.c1.c2 = a.c1.c2) :
    fp12BackCyc (fieldOps hf) (fun t => ξ * t) x = a :=
  fp12BackCyc_eq hf ξ h2 h3 hns ω hω a x h hne h01 h02 h10 h12

/-- uniqueness behind the specification's judgement of decompression: a non-zero solution of the relations is
    determined by its four retained coefficients when g2 ≠ 0 or g3 ≠ 0 -/
theorem decompression_unique_g1 (a : Fp12 F) (h : IsCyc12 ξ a) :
    4 * a.c1.c0 * a.c1.c1 = ξ * a.c1.c2 ^ 2 + 3 * a.c0.c1 ^ 2 - 2 * a.c0.c2 := cyc_g1 ξ a h
theorem decompression_unique_g1_exc (a : Fp12 F) (h : IsCyc12 ξ a) (hg2 : a.c1.c0 = 0) (hg3 : a.c0.c2 ≠ 0) :
    a.c1.c1 = 2 * a.c0.c1 * a.c1.c2 * (a.c0.c2)⁻¹ := cyc_g1_exc_div ξ a h hg2 hg3
theorem decompression_unique_g0 (a : Fp12 F) (h : IsCyc12 ξ a) (hne : NonZero12 a) :
    a.c0.c0 = ξ * (2 * a.c1.c1 ^ 2 + a.c1.c0 * a.c1.c2 - 3 * a.c0.c2 * a.c0.c1) + 1 := cyc_g0 ξ a h hne

/-! ## §6 for the record: the formula of fp12_back_cyc BEFORE the repair (findings C10-F3 / C10-F8, fixed in /repo)

`fp12BackCycOld` is not the code any more. In its exceptional branch (g2 = 0, g3 ≠ 0) the computed coefficient g1 was that of
a only if g4·(4·g5 − 3·g4) = 0; in the regular branch it was right. -/
theorem fp12_back_cyc_before_repair_exceptional (a x : Fp12 F) (h : IsCyc12 ξ a)
    (h01 : x.c0.c1 = a.c0.c1) (h02 : x.c0.c2 = a.c0.c2) (h10 : x.c1.c0 = a.c1.c0) (h12 : x.c1.c2 = a.c1.c2)
    (hg2 : a.c1.c0 = 0) (hg3 : a.c0.c2 ≠ 0) :
    (fp12BackCycOld (fieldOps hf) (fun t => ξ * t) false x).c1.c1 = a.c1.c1 ↔ a.c0.c1 * (4 * a.c1.c2 - 3 * a.c0.c1) = 0 :=
  fp12BackCycOld_exc_iff hf ξ a x h h01 h02 h10 h12 hg2 hg3

theorem fp12_back_cyc_before_repair_regular (h2 : (2 : F) ≠ 0) (a x : Fp12 F) (h : IsCyc12 ξ a)
    (h01 : x.c0.c1 = a.c0.c1) (h02 : x.c0.c2 = a.c0.c2) (h10 : x.c1.c0 = a.c1.c0) (h12 : x.c1.c2 = a.c1.c2)
    (hg2 : a.c1.c0 ≠ 0) : fp12BackCycOld (fieldOps hf) (fun t => ξ * t) false x = a :=
  fp12BackCycOld_regular hf ξ h2 a x h h01 h02 h10 h12 hg2

end decompression

/-! ## §4 the stacked model of the driver -/

/-- one more quadratic level on top of any level whose operations evaluate to ring operations -/
theorem stack_quadratic {E : Type} {o : FOps E} {ev : E → S} {half : S} (h : OpsHom o ev half) (nor : E → E) (ν x : S)
    (hn : ∀ a, ev (nor a) = ν * ev a) (hx : x * x = ν) : OpsHom (quadOps o nor) (ev2 ev x) half := quadHom h nor ν x hn hx

/-- one more cubic level -/
theorem stack_cubic {E : Type} {o : FOps E} {ev : E → S} {half : S} (h : OpsHom o ev half) (hh : 2 * half = 1) (nor : E → E)
    (ν x : S) (hn : ∀ a, ev (nor a) = ν * ev a) (hx : x * x * x = ν) : OpsHom (cubOps o nor) (ev3 ev x) half :=
  cubHom h hh nor ν x hn hx

/-- fp2 and fp3 over a base with the qnr / cnr loops -/
theorem stack_fp2 {E : Type} {o : FOps E} {ev : E → S} {half : S} (h : OpsHom o ev half) (q : Int) (hq : q ≤ -1) (x : S)
    (hx : x * x = (q : S)) : OpsHom (fp2Ops o q) (ev2 ev x) half := fp2Hom h q hq x hx
theorem stack_fp3 {E : Type} {o : FOps E} {ev : E → S} {half : S} (h : OpsHom o ev half) (hh : 2 * half = 1) (c : Int) (x : S)
    (hx : x * x * x = (c : S)) : OpsHom (fp3Ops o c) (ev3 ev x) half := fp3Hom h hh c x hx

/-- the base: arithmetic modulo an odd p on Nat is Z/pZ -/
theorem stack_base (p : Nat) (hodd : p % 2 = 1) :
    OpsHom (natOps p) (fun n : Nat => (n : ZMod p)) (((p + 1) / 2 : Nat) : ZMod p) := natHom p hodd

/-- the fp12 model exactly as `Driver.C10` builds it (Z/pZ on Nat, fp2 with the qnr loops, fp6 with fp2_mul_nor, fp12
    with fp6_mul_art): all its operations are the ring operations after evaluation at roots i, v, w of
    X² − qnr, X³ − ξ, X² − v in any commutative ring S over Z/pZ -/
theorem fp12_model_is_tower_arithmetic (p : Nat) (hodd : p % 2 = 1) (q : Int) (hq : q ≤ -1) (mod8 qnr2 : Nat)
    (hm : mod8 = 1 ∨ mod8 = 3 ∨ mod8 = 5 ∨ mod8 = 7) (h3 : mod8 = 3 → qnr2 = 1 → q = -1)
    (φ : ZMod p →+* S) (i v w : S) (hi : i * i = (q : S)) (hv : v * v * v = norConstS i mod8 qnr2) (hw : w * w = v) :
    let nor2 : V2 Nat → V2 Nat := fun a => (fp2MulNor (natOps p) q mod8 qnr2 a).getD a
    OpsHom (quadOps (cubOps (fp2Ops (natOps p) q) nor2) (cubArt nor2))
      (ev2 (ev3 (ev2 (fun n : Nat => φ (n : ZMod p)) i) v) w) (φ (((p + 1) / 2 : Nat) : ZMod p)) :=
  fp12_stack_hom p hodd q hq mod8 qnr2 hm h3 φ i v w hi hv hw

/-! ## §5 loops -/

/-- fpN_exp, plain branch: left-to-right square-and-multiply over the bits below the leading one computes the power -/
theorem exp_square_and_multiply {E : Type} {o : FOps E} {ev : E → S} {half : S} (h : OpsHom o ev half) (a : E)
    (bits : List Bool) : ev (expBin o a bits) = ev a ^ bitsVal bits := expBin_eq h a bits

/-- fpN_inv_sim (Montgomery's trick): over a field, the list of inverses whenever no operand is zero -/
theorem inv_sim_montgomery {F : Type} [Field F] [DecidableEq F] (hf : F) (as : List F) (hnz : ∀ a ∈ as, a ≠ 0) :
    invSim (fieldOps hf) as = as.map (·⁻¹) := invSim_spec hf as hnz
example : ∀ a ∈ [(2 : ℚ), 3, 5], a ≠ 0 := by intro a ha; simp at ha; rcases ha with rfl | rfl | rfl <;> norm_num

/-- the signed-digit (w-NAF) loop of fpN_exp_cyc — the loop `mulSigned` of Model/MulAlg.lean read multiplicatively, with
    the table t[i] = a^(2i+1), cyclotomic squaring as squaring and conjugation as inversion — returns a^k in any
    commutative group, k the integer the digits denote -/
theorem exp_cyc_signed_digit_loop {H : Type} [CommGroup H] (a : H) (tab : List H)
    (htab : ∀ i, i < tab.length → tab.getD i 1 = a ^ (2 * (i : ℤ) + 1)) (ds : List Int)
    (hd : ∀ d ∈ ds, d = 0 ∨ (d % 2 ≠ 0 ∧ d.natAbs < 2 * tab.length)) :
    Relic.Model.MulAlg.mulSigned (⟨1, (· * ·), (·⁻¹)⟩ : Relic.Model.MulAlg.Ops H) tab 1 ds = a ^ (Relic.Model.Rec.eval 1 ds) :=
  expCycNaf_spec a tab htab ds hd

end Relic.Props.C10
