/- C10 (placeholder while the correspondence is brought up) -/
import RelicVerif.Model.Fpx
import RelicVerif.Spec.Tower

namespace Relic.Props.C10

theorem placeholder : (1 : Nat) = 1 := rfl

end Relic.Props.C10
