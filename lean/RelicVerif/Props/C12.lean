/-
C12 — Subgroup membership tests are exact; group exponentiation is repeated operation.

The specification the driver evaluates per line is the definition itself (on the curve, not the identity, r•P = O;
a ≠ 1 ∧ a^r = 1; square-and-multiply).  The theorems here justify the two places where that specification is not
literally the property's wording:
 * the property asks for "in the cyclotomic subgroup and annihilated by r"; in a cyclic group (the multiplicative group
   of a finite field) every element killed by r lies in every subgroup whose order is a multiple of r — so `a^r = 1`
   alone is the same predicate;
 * exponentiation / multiplication by k on elements of order dividing r depends only on k mod r, so the specification may
   reduce the scalar, and negative scalars are the inverse of the positive ones.
-/
import Mathlib.GroupTheory.SpecificGroups.Cyclic
import Mathlib.GroupTheory.OrderOfElement
import Mathlib.Algebra.Group.Basic
import RelicVerif.Lemmas.PcValid

namespace Relic.Props.C12

section Cyclic
variable {G : Type} [Group G] [Fintype G] [IsCyclic G]

/-- in a finite cyclic group, an element killed by r belongs to every subgroup whose order is divisible by r:
    "a^r = 1" implies membership in the cyclotomic subgroup (order Φ₁₂(p), a multiple of r) -/
theorem pow_eq_one_mem_of_dvd_card (H : Subgroup G) [Fintype H] (r : ℕ) (hr : r ∣ Fintype.card H) (a : G)
    (ha : a ^ r = 1) : a ∈ H := by
  classical
  -- the elements x with x^m = 1 (m = |H|) are at most m in a cyclic group, and H consists of m of them
  have hm0 : 0 < Fintype.card H := Fintype.card_pos
  have ham : a ^ Fintype.card H = 1 := by
    obtain ⟨c, hc⟩ := hr
    rw [hc, pow_mul, ha, one_pow]
  have hS : (Finset.univ.filter (fun x : G => x ^ Fintype.card H = 1)).card ≤ Fintype.card H :=
    IsCyclic.card_pow_eq_one_le hm0
  have hTS : Finset.univ.filter (fun x : G => x ∈ H) ⊆ Finset.univ.filter (fun x : G => x ^ Fintype.card H = 1) := by
    intro x hx
    simp only [Finset.mem_filter, Finset.mem_univ, true_and] at hx ⊢
    have h : (⟨x, hx⟩ : H) ^ Fintype.card H = 1 := pow_card_eq_one
    exact congrArg Subtype.val h
  have hT : (Finset.univ.filter (fun x : G => x ∈ H)).card = Fintype.card H := by
    rw [Fintype.card_subtype]
  have heq := Finset.eq_of_subset_of_card_le hTS (by rw [hT]; exact hS)
  have hmem : a ∈ Finset.univ.filter (fun x : G => x ^ Fintype.card H = 1) := by
    simp only [Finset.mem_filter, Finset.mem_univ, true_and]; exact ham
  rw [← heq] at hmem
  simpa using hmem

end Cyclic

section Exp
variable {G : Type} [Group G]

/-- exponentiation of an element killed by r depends on the exponent modulo r only -/
theorem zpow_mod_of_pow_eq_one (a : G) (r : ℕ) (ha : a ^ r = 1) (k : ℤ) : a ^ k = a ^ (k % (r : ℤ)) := by
  have h : a ^ (r : ℤ) = 1 := by rw [zpow_natCast]; exact ha
  conv_lhs => rw [← Int.emod_add_mul_ediv k r]
  rw [zpow_add, zpow_mul, h, one_zpow, mul_one]

/-- … and is repeated application of the group operation: a^(k+1) = a^k · a, a^0 = 1, a^(-k) = (a^k)⁻¹ -/
theorem zpow_is_repeated_operation (a : G) (k : ℤ) : a ^ (k + 1) = a ^ k * a ∧ a ^ (0 : ℤ) = 1 ∧ a ^ (-k) = (a ^ k)⁻¹ :=
  ⟨zpow_add_one a k, zpow_zero a, zpow_neg a k⟩

end Exp

section Add
variable {A : Type} [AddGroup A]

/-- the additive form used for G1 and G2 -/
theorem zsmul_mod_of_nsmul_eq_zero (P : A) (r : ℕ) (hP : r • P = 0) (k : ℤ) : k • P = (k % (r : ℤ)) • P := by
  have h : (r : ℤ) • P = 0 := by rw [natCast_zsmul]; exact hP
  conv_lhs => rw [← Int.emod_add_mul_ediv k r]
  rw [add_zsmul, mul_comm, mul_zsmul, h, zsmul_zero, add_zero]

end Add

end Relic.Props.C12
