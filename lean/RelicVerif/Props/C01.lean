/-
C01 — Multi-precision integer arithmetic is exact.
Property theorems only; helper lemmas live in RelicVerif/Lemmas. Each theorem is about the hand-written
model of RelicVerif/Model/Bn.lean (tied to the C code by the correspondence run of tools/check.py C01).

`Exact B r v` : if the modelled function returns (no precision error), the result is in normal form
(no leading zero digit, digits < B, zero non-negative) and denotes exactly the integer v.
-/
import RelicVerif.Lemmas.BnHighMul
import RelicVerif.Lemmas.BnSqrBasic

namespace Relic.Props.C01
open Relic.Model

abbrev Exact := @ExactR

variable (cfg : Cfg)

/-! ### add / subtract -/
theorem bn_add_exact (hw : 0 < cfg.w) (a b : Bn) (ha : a.WF cfg.B) (hb : b.WF cfg.B) :
    Exact cfg.B (bnAdd cfg a b) (a.toInt cfg.B + b.toInt cfg.B) := bnAdd_exact cfg hw a b ha hb

theorem bn_sub_exact (hw : 0 < cfg.w) (a b : Bn) (ha : a.WF cfg.B) (hb : b.WF cfg.B) :
    Exact cfg.B (bnSub cfg a b) (a.toInt cfg.B - b.toInt cfg.B) := bnSub_exact cfg hw a b ha hb

/-- a precision error is raised only when the operands leave no room for the carry digit -/
theorem bn_add_total (a b : Bn) (h : max a.used b.used < cfg.cap) : (bnAdd cfg a b).isSome :=
  bnAdd_total cfg a b h

theorem bn_sub_total (a b : Bn) (h : max a.used b.used < cfg.cap) : (bnSub cfg a b).isSome :=
  bnSub_total cfg a b h

theorem bn_add_dig_exact (hw : 0 < cfg.w) (a : Bn) (d : Nat) (ha : a.WF cfg.B) (hd : d < cfg.B) :
    Exact cfg.B (bnAddDig cfg a d) (a.toInt cfg.B + d) := bnAddDig_exact cfg hw a d ha hd

theorem bn_sub_dig_exact (hw : 0 < cfg.w) (a : Bn) (d : Nat) (ha : a.WF cfg.B) (hd : d < cfg.B) :
    Exact cfg.B (bnSubDig cfg a d) (a.toInt cfg.B - d) := bnSubDig_exact cfg hw a d ha hd

/-! ### multiply / square: every selectable algorithm -/
theorem bn_mul_dig_exact (hw : 0 < cfg.w) (a : Bn) (d : Nat) (ha : a.WF cfg.B) (hd : d < cfg.B) :
    Exact cfg.B (bnMulDig cfg a d) (a.toInt cfg.B * d) := bnMulDig_exact cfg hw a d ha hd

theorem bn_mul_basic_exact (hw : 0 < cfg.w) (a b : Bn) (ha : a.WF cfg.B) (hb : b.WF cfg.B) :
    Exact cfg.B (bnMulBasic cfg a b) (a.toInt cfg.B * b.toInt cfg.B) := bnMulBasic_exact cfg hw a b ha hb

/-- Comba: needs the operand lengths below the digit base (column sums fit the triple register) -/
theorem bn_mul_comba_exact (hw : 0 < cfg.w) (a b : Bn) (ha : a.WF cfg.B) (hb : b.WF cfg.B)
    (hs : min a.used b.used < cfg.B) :
    Exact cfg.B (bnMulComba cfg a b) (a.toInt cfg.B * b.toInt cfg.B) := bnMulComba_exact cfg hw a b ha hb hs

theorem bn_mul_karat_exact (hw : 0 < cfg.w) (a b : Bn) (ha : a.WF cfg.B) (hb : b.WF cfg.B)
    (hs : max a.used b.used + 1 < cfg.B) :
    Exact cfg.B (bnMulKarat cfg a b) (a.toInt cfg.B * b.toInt cfg.B) := bnMulKarat_exact cfg hw a b ha hb hs

theorem bn_sqr_comba_exact (hw : 0 < cfg.w) (a : Bn) (ha : a.WF cfg.B) (hs : a.used < cfg.B) :
    Exact cfg.B (bnSqrComba cfg a) (a.toInt cfg.B * a.toInt cfg.B) := bnSqrComba_exact cfg hw a ha hs

/-- schoolbook squaring (bn_sqra_low rows with the delayed carry) -/
theorem bn_sqr_basic_exact (hw : 0 < cfg.w) (a : Bn) (ha : a.WF cfg.B) :
    Exact cfg.B (bnSqrBasic cfg a) (a.toInt cfg.B * a.toInt cfg.B) := bnSqrBasic_exact cfg hw a ha

theorem bn_sqr_karat_exact (hw : 0 < cfg.w) (a : Bn) (ha : a.WF cfg.B) (hs : a.used + 1 < cfg.B) :
    Exact cfg.B (bnSqrKarat cfg a) (a.toInt cfg.B * a.toInt cfg.B) := bnSqrKarat_exact cfg hw a ha hs

theorem bn_mul_total (a b : Bn) (h : a.used + b.used ≤ cfg.cap) :
    (bnMulBasic cfg a b).isSome ∧ (bnMulComba cfg a b).isSome := bnMul_total cfg a b h

/-! ### shifts, doubling, halving -/
theorem bn_dbl_exact (hw : 0 < cfg.w) (a : Bn) (ha : a.WF cfg.B) :
    Exact cfg.B (bnDbl cfg a) (2 * a.toInt cfg.B) := bnDbl_exact cfg hw a ha

theorem bn_lsh_exact (hw : 0 < cfg.w) (a : Bn) (k : Nat) (ha : a.WF cfg.B) :
    Exact cfg.B (bnLsh cfg a k) (a.toInt cfg.B * 2 ^ k) := bnLsh_exact cfg hw a k ha

/-- bn_rsh is the floor shift for non-negative operands (and whenever no one-bit is dropped);
    PARTIAL: for a < 0 with dropped bits the code shifts the magnitude — see `bn_rsh_neg_counter`. -/
theorem bn_rsh_exact_partial (hw : 0 < cfg.w) (a : Bn) (k : Nat) (ha : a.WF cfg.B)
    (hg : 0 ≤ a.toInt cfg.B ∨ (2 : Int) ^ k ∣ a.toInt cfg.B) :
    Exact cfg.B (bnRsh cfg a k) (Int.fdiv (a.toInt cfg.B) (2 ^ k)) := bnRsh_exact cfg hw a k ha hg

theorem bn_hlv_exact_partial (hw : 0 < cfg.w) (a : Bn) (ha : a.WF cfg.B)
    (hg : 0 ≤ a.toInt cfg.B ∨ (2 : Int) ∣ a.toInt cfg.B) :
    Exact cfg.B (bnHlv cfg a) (Int.fdiv (a.toInt cfg.B) 2) := bnHlv_exact cfg hw a ha hg

/-- known finding F3: the full-strength statement is false of the code (and of the model) -/
theorem bn_rsh_neg_counter :
    bnRsh { w := 64, cap := 34 } { neg := true, dp := [7] } 1 = some { neg := true, dp := [3] }
    ∧ Int.fdiv (-7) (2 ^ 1) = -4 := by decide

theorem bn_hlv_neg_counter :
    bnHlv { w := 64, cap := 34 } { neg := true, dp := [7] } = some { neg := true, dp := [3] }
    ∧ Int.fdiv (-7) 2 = -4 := by decide

/-! ### comparison -/
theorem bn_cmp_abs_exact (hw : 0 < cfg.w) (a b : Bn) (ha : a.WF cfg.B) (hb : b.WF cfg.B) :
    bnCmpAbs a b = (if (a.toInt cfg.B).natAbs < (b.toInt cfg.B).natAbs then -1
                    else if (a.toInt cfg.B).natAbs > (b.toInt cfg.B).natAbs then 1 else 0) :=
  bnCmpAbs_exact cfg hw a b ha hb

theorem bn_cmp_exact (hw : 0 < cfg.w) (a b : Bn) (ha : a.WF cfg.B) (hb : b.WF cfg.B) :
    bnCmp a b = (if a.toInt cfg.B < b.toInt cfg.B then -1
                 else if a.toInt cfg.B > b.toInt cfg.B then 1 else 0) := bnCmp_exact cfg hw a b ha hb

theorem bn_cmp_dig_exact (hw : 0 < cfg.w) (a : Bn) (d : Nat) (ha : a.WF cfg.B) (hd : d < cfg.B) :
    bnCmpDig a d = (if a.toInt cfg.B < d then -1 else if a.toInt cfg.B > d then 1 else 0) :=
  bnCmpDig_exact cfg hw a d ha hd

/-! ### division -/
/-- floor division with remainder of the sign of the divisor, for every sign pattern and every length,
    including the quotient-estimate and add-back branches of Knuth D (Lemmas/KnuthD.lean) -/
theorem bn_div_rem_exact (hw : 2 ≤ cfg.w) (a b : Bn) (ha : a.WF cfg.B) (hb : b.WF cfg.B) :
    ∀ q r tr, bnDivRem cfg a b = some (q, r, tr) →
      q.WF cfg.B ∧ r.WF cfg.B ∧ q.toInt cfg.B = Int.fdiv (a.toInt cfg.B) (b.toInt cfg.B)
      ∧ r.toInt cfg.B = Int.fmod (a.toInt cfg.B) (b.toInt cfg.B) := bnDivRem_exact cfg hw a b ha hb

theorem bn_div_rem_zero (a b : Bn) (hb : b.toInt cfg.B = 0) (hbw : b.WF cfg.B) : bnDivRem cfg a b = none :=
  bnDivRem_zero cfg a b hb hbw

/-- single-digit division; PARTIAL: exact for a ≥ 0 or b ∣ a — see `bn_div_dig_neg_counter` (F2) -/
theorem bn_div_rem_dig_exact_partial (hw : 0 < cfg.w) (a : Bn) (b : Nat) (ha : a.WF cfg.B) (hb0 : 0 < b)
    (hbB : b < cfg.B) (hg : 0 ≤ a.toInt cfg.B ∨ (b : Int) ∣ a.toInt cfg.B) :
    ∀ q r, bnDivRemDig cfg a b = some (q, r) →
      q.WF cfg.B ∧ q.toInt cfg.B = Int.fdiv (a.toInt cfg.B) b ∧ (r : Int) = Int.fmod (a.toInt cfg.B) b :=
  bnDivRemDig_exact cfg hw a b ha hb0 hbB hg

theorem bn_div_dig_neg_counter :
    bnDivRemDig { w := 64, cap := 34 } { neg := true, dp := [7] } 2 = some ({ neg := true, dp := [3] }, 1)
    ∧ Int.fdiv (-7) 2 = -4 := by decide

/-! ### bit access -/
theorem bn_bits_exact (hw : 0 < cfg.w) (a : Bn) (ha : a.WF cfg.B) :
    bnBitsW cfg.w a = (if a.toInt cfg.B = 0 then 0 else Nat.log2 (a.toInt cfg.B).natAbs + 1) :=
  bnBits_exact cfg hw a ha

theorem bn_get_bit_exact (hw : 0 < cfg.w) (a : Bn) (k : Nat) (ha : a.WF cfg.B) :
    bnGetBit cfg.w a k = ((a.toInt cfg.B).natAbs >>> k) % 2 := bnGetBit_exact cfg hw a k ha

theorem bn_set_2b_exact (hw : 0 < cfg.w) (k : Nat) :
    Exact cfg.B (bnSet2b cfg k) (2 ^ k) ∧ (k < cfg.cap * cfg.w → (bnSet2b cfg k).isSome) :=
  bnSet2b_exact cfg hw k

/-! ### non-vacuity: the hypotheses are met by concrete non-trivial states -/
example : ({ neg := true, dp := [5, 0, 7] } : Bn).WF (2 ^ 64) := by decide
example : bnAdd { w := 8, cap := 66 } { neg := false, dp := [255, 255] } { neg := false, dp := [1] }
    = some { neg := false, dp := [0, 0, 1] } := by decide
example : (bnDivRem { w := 8, cap := 66 } { neg := true, dp := [7] } { neg := false, dp := [2] }).map
    (fun x => (x.1, x.2.1)) = some ({ neg := true, dp := [4] }, { neg := false, dp := [1] }) := by decide

end Relic.Props.C01
