import RelicVerif.Model.Bn
namespace Relic.Props.C01
end Relic.Props.C01
