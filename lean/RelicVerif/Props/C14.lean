/-
C14 — Hash functions, MAC, KDFs and the block cipher conform to their standards.
Standards as Lean definitions: Spec/Sha256.lean, Spec/Sha512.lean (FIPS 180-4), Spec/Mac.lean (RFC 2104,
MGF1/KDF2, RFC 9380 expand_message_xmd), Spec/Aes.lean (FIPS 197, SP 800-38A CBC, PKCS#7).
Code-shaped models: Model/Sha256.lean, Model/Md.lean, Model/Bc.lean.
-/
import RelicVerif.Lemmas.Md
import RelicVerif.Lemmas.ShaStream
import RelicVerif.Lemmas.Blake2s
import RelicVerif.Lemmas.Aes
import RelicVerif.Lemmas.AesTables
import RelicVerif.Gen.MdConsts
import RelicVerif.Lemmas.RijndaelEnc
import RelicVerif.Lemmas.RijndaelDec
import RelicVerif.Lemmas.RijndaelKey
import RelicVerif.Lemmas.AesCbc

namespace Relic.Props.C14
open Relic.Spec Relic.Model Relic.Lemmas.Md
open Relic.Spec.Mac (Bytes Hash)

/-- streaming SHA-256 = FIPS 180-4 for every message length and every chunking -/
theorem sha256_streaming_conforms (chunks : List Bytes) (hlen : 8 * chunks.flatten.length < 2 ^ 64) :
    Sha256.mdMapChunks chunks = some (Spec.Sha256.sha256 chunks.flatten) := sha256_streaming chunks hlen

/-- the RFC 6234 streaming code (one model for sha224-256.c and sha384-512.c: block buffer, Message_Block_Index,
    length counter with overflow test, the two padding cases) = the Merkle–Damgård construction of FIPS 180-4
    over the concatenation of the chunks, for every parameter set with room for the length field, every
    chunking and every length for which the AddLength test of the implementation stays silent (`Safe`: below 2^64 bits
    for sha224-256.c; below 2^128 bits for sha384-512.c, whose test since 91cb094 is the RFC 6234 one: `Length[3] < length &&
    Length[2] == 0 && Length[1] == 0 && Length[0] == 0`) -/
theorem sha_streaming_generic {W : Type} (P : ShaStream.Params W) (hlb : P.lenBytes + 1 ≤ P.blockSize)
    (chunks : List Bytes) (hlen : Relic.Lemmas.ShaStream.Safe P chunks.flatten.length) :
    ShaStream.run P chunks =
      some ((P.digest (Spec.MD.hash P.blockSize P.lenBytes P.compress P.h0 chunks.flatten)).take P.hashSize) :=
  Relic.Lemmas.ShaStream.run_eq P hlb chunks hlen

/-- streaming SHA-224 (SHA224Reset / SHA224Input* / SHA224Result) = FIPS 180-4 for every chunking -/
theorem sha224_streaming_conforms (chunks : List Bytes) (hlen : 8 * chunks.flatten.length < 2 ^ 64) :
    ShaStream.run ShaStream.sha224P chunks = some (Spec.Sha256.sha224 chunks.flatten) :=
  Relic.Lemmas.ShaStream.sha224_streaming chunks hlen

/-- streaming SHA-384 (128-byte blocks, 128-bit length) = FIPS 180-4 for every chunking and every message FIPS 180-4 admits
    (below 2^128 bits) -/
theorem sha384_streaming_conforms (chunks : List Bytes) (hlen : 8 * chunks.flatten.length < 2 ^ 128) :
    ShaStream.run ShaStream.sha384P chunks = some (Spec.Sha512.sha384 chunks.flatten) :=
  Relic.Lemmas.ShaStream.sha384_streaming chunks hlen

/-- streaming SHA-512 = FIPS 180-4 for every chunking -/
theorem sha512_streaming_conforms (chunks : List Bytes) (hlen : 8 * chunks.flatten.length < 2 ^ 128) :
    ShaStream.run ShaStream.sha512P chunks = some (Spec.Sha512.sha512 chunks.flatten) :=
  Relic.Lemmas.ShaStream.sha512_streaming chunks hlen

/-- the counter test of SHA384_512AddLength (four 32-bit words, RFC 6234 form) fires exactly at a true wrap of the 128-bit counter:
    on an updated counter value l < 2^128 it is true iff l < 8, i.e. iff adding 8 carried out of bit 127 -/
theorem sha512_refuses_exactly_at_wrap (l : Nat) (hl : l < 2 ^ 128) : ShaStream.corrupt128w l = true ↔ l < 8 :=
  Relic.Lemmas.ShaStream.corrupt128w_iff l hl

/-- the refusal at 2^128 bits stays (the counter 2^128 − 8 plus one byte wraps to 0), nothing fires at 2^96 or 2^64 any more;
    the 64-bit counter of sha224-256.c refuses at 2^64 -/
theorem sha512_refuses_at_2_128 : ShaStream.corrupt128w ((2 ^ 128 - 8 + 8) % 2 ^ 128) = true ∧
    ShaStream.corrupt128w (2 ^ 128 - 8) = false ∧ ShaStream.corrupt128w (2 ^ 96) = false ∧
    ShaStream.corrupt128w (7 * 2 ^ 96) = false ∧ ShaStream.corrupt128w (2 ^ 64) = false ∧
    ShaStream.corrupt64 ((2 ^ 64 - 8 + 8) % 2 ^ 64) = true := by decide

/-- the parametric model instantiated at SHA-256 agrees with the dedicated SHA-256 model of round 1 -/
theorem sha256_streaming_generic_conforms (chunks : List Bytes) (hlen : 8 * chunks.flatten.length < 2 ^ 64) :
    ShaStream.run ShaStream.sha256P chunks = some (Spec.Sha256.sha256 chunks.flatten) :=
  Relic.Lemmas.ShaStream.sha256_streaming' chunks hlen

/-- BLAKE2s, incremental API of blake2s-ref.c (blake2s_init / blake2s_init_key, one blake2s_update per chunk with the
    buffer-fill logic and the t[0]/t[1] counter with carry, blake2s_final with last-block flag and zero padding) =
    RFC 7693 (keyed when the key is non-empty) for every chunking, every digest length 1..32, every key length 0..32 -/
theorem blake2s_streaming_conforms (nn : Nat) (key : Bytes) (chunks : List Bytes) (hn1 : 1 ≤ nn) (hn : nn ≤ 32)
    (hk : key.length ≤ 32) (hlen : 64 + chunks.flatten.length < 2 ^ 64) :
    Relic.Model.Blake2s.run nn key chunks = some (Relic.Spec.Blake2s.blake2sK nn key chunks.flatten) :=
  Relic.Lemmas.Blake2s.run_eq nn key chunks hn1 hn hk hlen

/-- the one-shot blake2s() = RFC 7693 -/
theorem blake2s_oneshot_conforms (nn : Nat) (key msg : Bytes) (hn1 : 1 ≤ nn) (hn : nn ≤ 32)
    (hk : key.length ≤ 32) (hlen : 64 + msg.length < 2 ^ 64) :
    Relic.Model.Blake2s.blake2s nn msg key = some (Relic.Spec.Blake2s.blake2sK nn key msg) :=
  Relic.Lemmas.Blake2s.oneshot_eq nn key msg hn1 hn hk hlen

/-- md_map_b2s160 / md_map_b2s256 (blake2s() without key) = the unkeyed RFC 7693 function -/
theorem md_map_b2s_conforms (nn : Nat) (msg : Bytes) (hn1 : 1 ≤ nn) (hn : nn ≤ 32) (hlen : 64 + msg.length < 2 ^ 64) :
    Relic.Model.Blake2s.blake2s nn msg [] = some (Relic.Spec.Blake2s.blake2s nn msg) := by
  rw [Relic.Lemmas.Blake2s.unkeyed_eq]
  exact Relic.Lemmas.Blake2s.oneshot_eq nn [] msg hn1 hn (by simp) hlen

/-- digest length 0 or above 32, or a key above 32 bytes: rejected -/
theorem blake2s_rejects_bad_parameters (nn : Nat) (key msg : Bytes) (h : nn = 0 ∨ nn > 32 ∨ key.length > 32) :
    Relic.Model.Blake2s.blake2s nn msg key = none :=
  Relic.Lemmas.Blake2s.oneshot_rejects nn key msg h

/-- HMAC, all key lengths -/
theorem hmac_conforms (H : Hash) (hout : ∀ b, (H.h b).length = H.outLen) (hle : H.outLen ≤ H.blockLen)
    (inp key : Bytes) : Md.mdHmac H inp key = Mac.hmac H key inp := mdHmac_eq H hout hle inp key

/-- KDF2 / MGF1, all output lengths -/
theorem kdf_conforms (H : Hash) (hout : ∀ b, (H.h b).length = H.outLen) (hpos : 0 < H.outLen)
    (keyLen : Nat) (inp : Bytes) (hlen : keyLen / H.outLen + 2 < 2 ^ 32) :
    Md.mdKdf H keyLen inp = Mac.kdf2 H inp keyLen ∧ Md.mdMgf H keyLen inp = Mac.mgf1 H inp keyLen := by
  have hc : (keyLen + H.outLen - 1) / H.outLen ≤ keyLen / H.outLen + 1 := by
    rw [Nat.div_le_iff_le_mul_add_pred hpos]
    have := Nat.div_add_mod keyLen H.outLen
    have := Nat.mod_lt keyLen hpos
    rw [Nat.mul_add, Nat.mul_one]
    omega
  exact ⟨nistKdf_eq H hout hpos keyLen inp 1 (by omega), nistKdf_eq H hout hpos keyLen inp 0 (by omega)⟩

/-- expand_message_xmd through the streaming SHA-256 implementation, incl. the abort conditions -/
theorem xmd_sha256_conforms (n : Nat) (inp dst : Bytes) (hlen : 8 * (inp.length + 1000) < 2 ^ 64) :
    Md.mdXmd Md.sha256Stream n inp dst
      = Mac.expandMessageXmd { h := Spec.Sha256.sha256, outLen := 32, blockLen := 64 } inp dst n := by
  apply mdXmd_eq Md.sha256Stream { h := Spec.Sha256.sha256, outLen := 32, blockLen := 64 } n inp dst
    _ rfl rfl sha256_length (by decide) (by decide)
  intro cs hcs
  have hcs' : cs.flatten.length ≤ 64 + inp.length + 32 + 259 := hcs
  exact sha256_streaming cs (by omega)

/-- expand_message_xmd through the streaming SHA-224 / SHA-384 / SHA-512 implementations -/
theorem xmd_sha224_conforms (n : Nat) (inp dst : Bytes) (hlen : 8 * (inp.length + 1000) < 2 ^ 64) :
    Md.mdXmd Md.sha224Stream n inp dst
      = Mac.expandMessageXmd { h := Spec.Sha256.sha224, outLen := 28, blockLen := 64 } inp dst n := by
  apply mdXmd_eq Md.sha224Stream { h := Spec.Sha256.sha224, outLen := 28, blockLen := 64 } n inp dst
    _ rfl rfl Relic.Lemmas.ShaStream.sha224_length (by decide) (by decide)
  intro cs hcs
  have hcs' : cs.flatten.length ≤ 64 + inp.length + 28 + 259 := hcs
  exact Relic.Lemmas.ShaStream.sha224_streaming cs (by omega)

theorem xmd_sha384_conforms (n : Nat) (inp dst : Bytes) (hlen : 8 * (inp.length + 1000) < 2 ^ 128) :
    Md.mdXmd Md.sha384Stream n inp dst
      = Mac.expandMessageXmd { h := Spec.Sha512.sha384, outLen := 48, blockLen := 128 } inp dst n := by
  apply mdXmd_eq Md.sha384Stream { h := Spec.Sha512.sha384, outLen := 48, blockLen := 128 } n inp dst
    _ rfl rfl Relic.Lemmas.ShaStream.sha384_length (by decide) (by decide)
  intro cs hcs
  have hcs' : cs.flatten.length ≤ 128 + inp.length + 48 + 259 := hcs
  exact Relic.Lemmas.ShaStream.sha384_streaming cs (by omega)

theorem xmd_sha512_conforms (n : Nat) (inp dst : Bytes) (hlen : 8 * (inp.length + 1000) < 2 ^ 128) :
    Md.mdXmd Md.sha512Stream n inp dst
      = Mac.expandMessageXmd { h := Spec.Sha512.sha512, outLen := 64, blockLen := 128 } inp dst n := by
  apply mdXmd_eq Md.sha512Stream { h := Spec.Sha512.sha512, outLen := 64, blockLen := 128 } n inp dst
    _ rfl rfl Relic.Lemmas.ShaStream.sha512_length (by decide) (by decide)
  intro cs hcs
  have hcs' : cs.flatten.length ≤ 128 + inp.length + 64 + 259 := hcs
  exact Relic.Lemmas.ShaStream.sha512_streaming cs (by omega)

/-- AES-CBC with PKCS#7: the model of bc_aes_cbc_enc is CBC ∘ PKCS#7, and decryption inverts encryption
    whenever the block decryption inverts the block encryption (hypothesis `hED`) -/
theorem aes_cbc_roundtrip (mkE mkD : Bytes → Bytes → Bytes) (key iv m : Bytes) (cap : Nat)
    (hED : ∀ b, b.length = 16 → mkD key (mkE key b) = b)
    (hE : ∀ b, b.length = 16 → (mkE key b).length = 16) (hD : ∀ b, b.length = 16 → (mkD key b).length = 16)
    (hiv : iv.length = 16) (c : Bytes)
    (henc : Bc.bcAesCbcEnc mkE cap m key iv = some c) :
    Bc.bcAesCbcDec mkD c.length c key iv = some m := by
  simp only [Bc.bcAesCbcEnc] at henc
  by_cases hkey : key.length ≠ 16 ∧ key.length ≠ 24 ∧ key.length ≠ 32
  · rw [if_pos hkey] at henc
    split at henc <;> simp at henc
  rw [if_neg hkey] at henc
  split at henc
  · simp at henc
  rw [padEncrypt_eq (mkE key) hE iv hiv m] at henc
  obtain ⟨hP16, hPpos⟩ := pkcs7Pad_length m
  generalize hPdef : Aes.pkcs7Pad m = P at *
  obtain ⟨hBf, hB16⟩ := flatten_chunks16 (P.length / 16 + 1) P (by omega) hP16
  generalize hBdef : Aes.chunks16 (P.length / 16 + 1) P = B at *
  obtain ⟨hCSl, hCS16⟩ := cbcEnc_blocks (mkE key) hE iv hiv B hB16
  have hc : c = (Aes.cbcEnc (mkE key) iv B).flatten := by simpa using henc.symm
  have hcl : c.length = P.length := by
    rw [hc, flatten_length16 _ hCS16, hCSl, ← flatten_length16 _ hB16, hBf]
  unfold Bc.bcAesCbcDec
  rw [if_neg (by omega), if_neg hkey, padDecrypt_eq (mkD key) hD iv hiv c,
    if_neg (by omega)]
  have hfuel : (Aes.cbcEnc (mkE key) iv B).length ≤ c.length / 16 + 1 := by
    have := flatten_length16 _ hB16
    rw [hBf] at this
    omega
  rw [hc, chunks16_flatten _ hCS16 _ (by rw [← hc]; exact hfuel),
    cbc_roundtrip (mkE key) (mkD key) hED hE iv hiv B hB16, hBf, ← hPdef]
  exact pkcs7_roundtrip m

/-- ciphertexts whose decryption does not end in a well-formed padding are rejected, never returned -/
theorem aes_cbc_rejects_bad_padding (mkD : Bytes → Bytes → Bytes) (key iv c m : Bytes) (cap : Nat)
    (hD : ∀ b, b.length = 16 → (mkD key b).length = 16) (hiv : iv.length = 16)
    (hdec : Bc.bcAesCbcDec mkD cap c key iv = some m) :
    c.length ≠ 0 ∧ c.length % 16 = 0 ∧
    ∃ k : Nat, 1 ≤ k ∧ k ≤ 16 ∧
      (Aes.cbcDec (mkD key) iv (Aes.chunks16 (c.length / 16 + 1) c)).flatten = m ++ List.replicate k (UInt8.ofNat k) := by
  unfold Bc.bcAesCbcDec at hdec
  split at hdec
  · simp at hdec
  split at hdec
  · simp at hdec
  rw [padDecrypt_eq (mkD key) hD iv hiv c] at hdec
  split at hdec
  · simp at hdec
  rename_i hcond
  exact ⟨by omega, by omega, pkcs7Unpad_sound _ _ hdec⟩

-- `Bc.aesE key` / `Bc.aesD key`: FIPS 197 Cipher / InvCipher under the FIPS 197 key expansion — the block functions the
-- driver plugs into the model of bc_aes_cbc_enc / bc_aes_cbc_dec
open Relic.Model.Bc (aesE aesD)

def validKey (key : Bytes) : Prop := key.length = 16 ∨ key.length = 24 ∨ key.length = 32

/-- FIPS 197: InvCipher inverts Cipher for every key size, every key and every block (S-box bijection checked over
    all 256 entries by the kernel, InvShiftRows∘ShiftRows, InvMixColumns∘MixColumns through GF(2^8) linearity,
    AddRoundKey involution, for an arbitrary list of round keys — so in particular for the FIPS 197 key schedule) -/
theorem aes_invCipher_cipher (key b : Bytes) (hk : validKey key) (hb : b.length = 16) :
    Aes.invCipher (Aes.keyExpansion key) (Aes.cipher (Aes.keyExpansion key) b) = b :=
  Relic.Lemmas.Aes.invCipher_cipher key b hk hb

/-- bc_aes_cbc_enc (model) = SP 800-38A CBC ∘ PKCS#7 with the FIPS 197 cipher, for every plaintext length incl. 0
    and exact multiples of the block size, whenever the key size is valid and the output buffer is large enough -/
theorem aes_cbc_enc_conforms (key iv m : Bytes) (cap : Nat) (hk : validKey key) (hiv : iv.length = 16)
    (hcap : m.length + (16 - m.length % 16) ≤ cap) :
    Bc.bcAesCbcEnc aesE cap m key iv = some (Aes.aesCbcPkcs7Enc key iv m) := by
  unfold Bc.bcAesCbcEnc
  rw [if_neg (by omega), if_neg (by unfold validKey at hk; omega)]
  rw [padEncrypt_eq (aesE key) (fun b hb => Relic.Lemmas.Aes.cipher_length key b hk hb) iv hiv m]
  rfl

/-- bc_aes_cbc_dec (model) = PKCS#7-unpad ∘ CBC-decrypt of the specification, for every input -/
theorem aes_cbc_dec_conforms (key iv c : Bytes) (cap : Nat) (hk : validKey key) (hiv : iv.length = 16)
    (hcap : c.length ≤ cap) :
    Bc.bcAesCbcDec aesD cap c key iv = Aes.aesCbcPkcs7Dec key iv c := by
  unfold Bc.bcAesCbcDec
  rw [if_neg (by omega), if_neg (by unfold validKey at hk; omega)]
  rw [padDecrypt_eq (aesD key) (fun b hb => Relic.Lemmas.Aes.invCipher_length key b hk hb) iv hiv c]
  rfl

/-- AES-CBC with PKCS#7, concrete: whatever bc_aes_cbc_enc returns decrypts to the plaintext — no hypothesis on the
    block cipher any more (`aes_cbc_roundtrip` instantiated with `aes_invCipher_cipher`) -/
theorem aes_cbc_roundtrip_concrete (key iv m : Bytes) (cap : Nat) (hiv : iv.length = 16) (c : Bytes)
    (henc : Bc.bcAesCbcEnc aesE cap m key iv = some c) :
    Bc.bcAesCbcDec aesD c.length c key iv = some m := by
  by_cases hk : validKey key
  · exact aes_cbc_roundtrip aesE aesD key iv m cap
      (fun b hb => Relic.Lemmas.Aes.invCipher_cipher key b hk hb)
      (fun b hb => Relic.Lemmas.Aes.cipher_length key b hk hb)
      (fun b hb => Relic.Lemmas.Aes.invCipher_length key b hk hb) hiv c henc
  · exfalso
    unfold Bc.bcAesCbcEnc at henc
    unfold validKey at hk
    split at henc
    · simp at henc
    · rw [if_pos (by omega)] at henc; simp at henc

/-- the specification level: for every message (every length incl. empty and multiples of 16), every valid key and
    every 16-byte IV, decryption of the encryption is the message -/
theorem aes_cbc_pkcs7_roundtrip (key iv m : Bytes) (hk : validKey key) (hiv : iv.length = 16) :
    Aes.aesCbcPkcs7Dec key iv (Aes.aesCbcPkcs7Enc key iv m) = some m := by
  have henc := aes_cbc_enc_conforms key iv m (m.length + (16 - m.length % 16)) hk hiv (Nat.le_refl _)
  have hrt := aes_cbc_roundtrip_concrete key iv m _ hiv _ henc
  rwa [aes_cbc_dec_conforms key iv _ _ hk hiv (Nat.le_refl _)] at hrt

/-- the ciphertext is a positive whole number of blocks, exactly the padded length -/
theorem aes_cbc_enc_length (key iv m : Bytes) (hk : validKey key) (hiv : iv.length = 16) :
    (Aes.aesCbcPkcs7Enc key iv m).length = m.length + (16 - m.length % 16) := by
  have hE : ∀ b : Bytes, b.length = 16 → (Aes.cipher (Aes.keyExpansion key) b).length = 16 :=
    fun b hb => Relic.Lemmas.Aes.cipher_length key b hk hb
  obtain ⟨hP16, _⟩ := pkcs7Pad_length m
  unfold Aes.aesCbcPkcs7Enc
  simp only
  obtain ⟨hBf, hB16⟩ := flatten_chunks16 ((Aes.pkcs7Pad m).length / 16 + 1) (Aes.pkcs7Pad m) (by omega) hP16
  obtain ⟨hCSl, hCS16⟩ := cbcEnc_blocks (Aes.cipher (Aes.keyExpansion key)) hE iv hiv _ hB16
  rw [flatten_length16 _ hCS16, hCSl, ← flatten_length16 _ hB16, hBf]
  simp [Aes.pkcs7Pad]

/-- concrete rejection: bc_aes_cbc_dec returns data only if the CBC decryption under the FIPS 197 inverse cipher ends
    in a well-formed PKCS#7 padding (and the input is a positive multiple of 16 bytes) -/
theorem aes_cbc_rejects_bad_padding_concrete (key iv c m : Bytes) (cap : Nat) (hk : validKey key) (hiv : iv.length = 16)
    (hdec : Bc.bcAesCbcDec aesD cap c key iv = some m) :
    c.length ≠ 0 ∧ c.length % 16 = 0 ∧
    ∃ k : Nat, 1 ≤ k ∧ k ≤ 16 ∧
      (Aes.cbcDec (aesD key) iv (Aes.chunks16 (c.length / 16 + 1) c)).flatten = m ++ List.replicate k (UInt8.ofNat k) :=
  aes_cbc_rejects_bad_padding aesD key iv c m cap (fun b hb => Relic.Lemmas.Aes.invCipher_length key b hk hb) hiv hdec

/-- non-vacuity: a 16-byte key is valid -/
example : validKey (List.replicate 16 0) := Or.inl (by simp)

/-- the ten lookup tables and the rcon table of src/bc/rijndael-alg-fst.c, as extracted from the C text on every run
    (Gen/AesTables.lean), are for all 256 indices what FIPS 197 makes them: Te_k[x] = the k-th rotation of
    (02·S[x], S[x], S[x], 03·S[x]), Te4[x] = S[x] in every byte, Td_k[x] = rotations of (0e·Si[x], 09·Si[x], 0d·Si[x], 0b·Si[x]),
    Td4[x] = Si[x] in every byte, rcon[i] = x^i in the top byte (kernel evaluation over every entry) -/
theorem aes_tables_conform :
    (∀ i, i < 256 → Relic.Gen.AesTables.Te0.getD i 0 = (let x := UInt8.ofNat i; Relic.Lemmas.AesTables.pack (Aes.gmul 0x02 (Aes.sbox x)) (Aes.sbox x) (Aes.sbox x) (Aes.gmul 0x03 (Aes.sbox x)))) ∧
    (∀ i, i < 256 → Relic.Gen.AesTables.Te1.getD i 0 = (let x := UInt8.ofNat i; Relic.Lemmas.AesTables.pack (Aes.gmul 0x03 (Aes.sbox x)) (Aes.gmul 0x02 (Aes.sbox x)) (Aes.sbox x) (Aes.sbox x))) ∧
    (∀ i, i < 256 → Relic.Gen.AesTables.Te2.getD i 0 = (let x := UInt8.ofNat i; Relic.Lemmas.AesTables.pack (Aes.sbox x) (Aes.gmul 0x03 (Aes.sbox x)) (Aes.gmul 0x02 (Aes.sbox x)) (Aes.sbox x))) ∧
    (∀ i, i < 256 → Relic.Gen.AesTables.Te3.getD i 0 = (let x := UInt8.ofNat i; Relic.Lemmas.AesTables.pack (Aes.sbox x) (Aes.sbox x) (Aes.gmul 0x03 (Aes.sbox x)) (Aes.gmul 0x02 (Aes.sbox x)))) ∧
    (∀ i, i < 256 → Relic.Gen.AesTables.Te4.getD i 0 = (let x := UInt8.ofNat i; Relic.Lemmas.AesTables.pack (Aes.sbox x) (Aes.sbox x) (Aes.sbox x) (Aes.sbox x))) ∧
    (∀ i, i < 256 → Relic.Gen.AesTables.Td0.getD i 0 = (let x := UInt8.ofNat i; Relic.Lemmas.AesTables.pack (Aes.gmul 0x0e (Aes.invSbox x)) (Aes.gmul 0x09 (Aes.invSbox x)) (Aes.gmul 0x0d (Aes.invSbox x)) (Aes.gmul 0x0b (Aes.invSbox x)))) ∧
    (∀ i, i < 256 → Relic.Gen.AesTables.Td1.getD i 0 = (let x := UInt8.ofNat i; Relic.Lemmas.AesTables.pack (Aes.gmul 0x0b (Aes.invSbox x)) (Aes.gmul 0x0e (Aes.invSbox x)) (Aes.gmul 0x09 (Aes.invSbox x)) (Aes.gmul 0x0d (Aes.invSbox x)))) ∧
    (∀ i, i < 256 → Relic.Gen.AesTables.Td2.getD i 0 = (let x := UInt8.ofNat i; Relic.Lemmas.AesTables.pack (Aes.gmul 0x0d (Aes.invSbox x)) (Aes.gmul 0x0b (Aes.invSbox x)) (Aes.gmul 0x0e (Aes.invSbox x)) (Aes.gmul 0x09 (Aes.invSbox x)))) ∧
    (∀ i, i < 256 → Relic.Gen.AesTables.Td3.getD i 0 = (let x := UInt8.ofNat i; Relic.Lemmas.AesTables.pack (Aes.gmul 0x09 (Aes.invSbox x)) (Aes.gmul 0x0d (Aes.invSbox x)) (Aes.gmul 0x0b (Aes.invSbox x)) (Aes.gmul 0x0e (Aes.invSbox x)))) ∧
    (∀ i, i < 256 → Relic.Gen.AesTables.Td4.getD i 0 = (let x := UInt8.ofNat i; Relic.Lemmas.AesTables.pack (Aes.invSbox x) (Aes.invSbox x) (Aes.invSbox x) (Aes.invSbox x))) ∧
    (∀ i, i < 10 → Relic.Gen.AesTables.rcon.getD i 0 = (Aes.rcon (i + 1)).toUInt32 <<< (24 : UInt32)) :=
  ⟨Relic.Lemmas.AesTables.Te0_spec, Relic.Lemmas.AesTables.Te1_spec, Relic.Lemmas.AesTables.Te2_spec,
   Relic.Lemmas.AesTables.Te3_spec, Relic.Lemmas.AesTables.Te4_spec, Relic.Lemmas.AesTables.Td0_spec,
   Relic.Lemmas.AesTables.Td1_spec, Relic.Lemmas.AesTables.Td2_spec, Relic.Lemmas.AesTables.Td3_spec,
   Relic.Lemmas.AesTables.Td4_spec, Relic.Lemmas.AesTables.rcon_spec⟩

/-- one round of the table code (both half rounds of the loop of rijndaelEncrypt: Te0[s0>>24] ^ Te1[(s1>>16)&0xff] ^ Te2[(s2>>8)&0xff] ^
    Te3[s3&0xff] ^ rk[o], …) on the big-endian words of a 16-byte state and round key is
    AddRoundKey(MixColumns(ShiftRows(SubBytes(state))), key) of FIPS 197, for every state and key -/
theorem aes_table_round_conforms (x0 x1 x2 x3 x4 x5 x6 x7 x8 x9 x10 x11 x12 x13 x14 x15 k0 k1 k2 k3 k4 k5 k6 k7 k8 k9 k10 k11 k12 k13 k14 k15 : UInt8)
    (rk : Array UInt32) (o : Nat)
    (h0 : rk.getD o 0 = Relic.Lemmas.AesTables.X k0 k1 k2 k3) (h1 : rk.getD (o+1) 0 = Relic.Lemmas.AesTables.X k4 k5 k6 k7)
    (h2 : rk.getD (o+2) 0 = Relic.Lemmas.AesTables.X k8 k9 k10 k11) (h3 : rk.getD (o+3) 0 = Relic.Lemmas.AesTables.X k12 k13 k14 k15) :
    Rijndael.encHalf rk o (Relic.Lemmas.AesTables.X x0 x1 x2 x3, Relic.Lemmas.AesTables.X x4 x5 x6 x7,
        Relic.Lemmas.AesTables.X x8 x9 x10 x11, Relic.Lemmas.AesTables.X x12 x13 x14 x15) =
      (let r := Relic.Lemmas.AesTables.specRound [x0, x1, x2, x3, x4, x5, x6, x7, x8, x9, x10, x11, x12, x13, x14, x15]
                  [k0, k1, k2, k3, k4, k5, k6, k7, k8, k9, k10, k11, k12, k13, k14, k15]
       (Rijndael.getu32 r 0, Rijndael.getu32 r 4, Rijndael.getu32 r 8, Rijndael.getu32 r 12)) :=
  Relic.Lemmas.AesTables.encHalf_spec x0 x1 x2 x3 x4 x5 x6 x7 x8 x9 x10 x11 x12 x13 x14 x15 k0 k1 k2 k3 k4 k5 k6 k7 k8 k9 k10 k11 k12 k13 k14 k15
    rk o h0 h1 h2 h3

/-- rijndaelEncrypt (the table code: GETU32 ^ rk, the `r = Nr >> 1` loop over Te0..Te3 with its early break, the last round through
    Te4 and the byte masks, PUTU32) on a word array that holds the round keys `ks` big-endian computes the FIPS 197 Cipher with
    these round keys — for every state, every round-key list, Nr = 10 / 12 / 14 -/
theorem rijndael_encrypt_conforms (rk : Array UInt32) (ks : List Bytes) (nr : Nat) (hok : Relic.Lemmas.Rijndael.RkOK rk ks)
    (hlen : ks.length = nr + 1) (hnr : nr = 10 ∨ nr = 12 ∨ nr = 14) (hk : ∀ k ∈ ks, k.length = 16) (pt : Bytes)
    (hpt : pt.length = 16) : Rijndael.encrypt rk nr pt = Aes.cipher ks pt :=
  Relic.Lemmas.Rijndael.encrypt_eq rk ks nr hok hlen hnr hk pt hpt

/-- rijndaelDecrypt (Td0..Td3 loop, Td4 last round) on a word array that holds the decryption round keys `dk` in reverse order (as
    rijndaelKeySetupDec leaves them) computes the FIPS 197 §5.3.5 equivalent inverse cipher -/
theorem rijndael_decrypt_conforms (rk : Array UInt32) (dk : List Bytes) (nr : Nat)
    (hok : Relic.Lemmas.Rijndael.RkOK rk dk.reverse) (hlen : dk.length = nr + 1) (hnr : nr = 10 ∨ nr = 12 ∨ nr = 14)
    (hk : ∀ k ∈ dk, k.length = 16) (ct : Bytes) (hct : ct.length = 16) :
    Rijndael.decrypt rk nr ct = Aes.eqInvCipher dk ct :=
  Relic.Lemmas.Rijndael.Dec.decrypt_eq rk dk nr hok hlen hnr hk ct hct

/-- FIPS 197 §5.3.5: the equivalent inverse cipher with the InvMixColumns-transformed key schedule is InvCipher, and inverts Cipher -/
theorem aes_eqInvCipher_conforms (key b : Bytes) (hk : validKey key) (hb : b.length = 16) :
    Aes.eqInvCipher (Aes.eqInvKeys (Aes.keyExpansion key)) b = Aes.invCipher (Aes.keyExpansion key) b ∧
    Aes.eqInvCipher (Aes.eqInvKeys (Aes.keyExpansion key)) (Aes.cipher (Aes.keyExpansion key) b) = b :=
  ⟨Relic.Lemmas.AesEqInv.eqInvCipher_keyExpansion key b hk hb, Relic.Lemmas.AesEqInv.eqInvCipher_cipher key b hk hb⟩

/-- rijndaelKeySetupEnc (the three unrolled key schedules with their moving pointer, SubWord / RotWord through Te4 and byte masks, the
    rcon table) writes the FIPS 197 expanded key, big-endian, for every key of 16 / 24 / 32 bytes -/
theorem rijndael_keySetupEnc_conforms (key : Bytes) (hk : validKey key) :
    ∃ rk, Rijndael.keySetupEnc key = some (rk, key.length / 4 + 6) ∧
      Relic.Lemmas.Rijndael.RkOK rk (Aes.keyExpansion key) ∧ (Aes.keyExpansion key).length = key.length / 4 + 6 + 1 :=
  Relic.Lemmas.Rijndael.Key.keySetupEnc_ok key hk

/-- AES block encryption of the library (rijndaelKeySetupEnc + rijndaelEncrypt, table-driven) = FIPS 197 Cipher under the
    FIPS 197 key expansion: every key size, every key, every block -/
theorem rijndael_aesE_conforms (key blk : Bytes) (hk : validKey key) (hb : blk.length = 16) :
    Rijndael.aesE key blk = Aes.cipher (Aes.keyExpansion key) blk := by
  obtain ⟨rk, hks, hok, hlen⟩ := Relic.Lemmas.Rijndael.Key.keySetupEnc_ok key hk
  unfold Rijndael.aesE
  rw [hks]
  exact Relic.Lemmas.Rijndael.encrypt_eq rk (Aes.keyExpansion key) (key.length / 4 + 6) hok hlen
    (by unfold validKey at hk; omega) (Relic.Lemmas.Aes.keyExpansion_length key hk).2 blk hb

/-- bc_aes_cbc_enc with the table-driven block cipher (the model the driver executes) = SP 800-38A CBC ∘ PKCS#7 over the FIPS 197
    cipher, for every plaintext length incl. 0 and multiples of the block size -/
theorem aes_cbc_enc_tables_conforms (key iv m : Bytes) (cap : Nat) (hk : validKey key) (hiv : iv.length = 16)
    (hcap : m.length + (16 - m.length % 16) ≤ cap) :
    Bc.bcAesCbcEnc Rijndael.aesE cap m key iv = some (Aes.aesCbcPkcs7Enc key iv m) := by
  have hEq : ∀ b : Bytes, b.length = 16 → Rijndael.aesE key b = Aes.cipher (Aes.keyExpansion key) b :=
    fun b hb => rijndael_aesE_conforms key b hk hb
  have hE : ∀ b : Bytes, b.length = 16 → (Rijndael.aesE key b).length = 16 :=
    fun b hb => by rw [hEq b hb]; exact Relic.Lemmas.Aes.cipher_length key b hk hb
  unfold Bc.bcAesCbcEnc
  rw [if_neg (by omega), if_neg (by unfold validKey at hk; omega)]
  rw [padEncrypt_eq (Rijndael.aesE key) hE iv hiv m]
  obtain ⟨hP16, _⟩ := pkcs7Pad_length m
  obtain ⟨_, hB16⟩ := flatten_chunks16 ((Aes.pkcs7Pad m).length / 16 + 1) (Aes.pkcs7Pad m) (by omega) hP16
  rw [Relic.Lemmas.AesCbc.cbcEnc_congr _ _ hEq hE iv hiv _ hB16]
  rfl

/-- rijndaelKeySetupDec (key expansion, reversal of the round keys, InvMixColumns of the middle ones through Td0[Te4[..] & 0xff] …)
    leaves the FIPS 197 §5.3.5 decryption keys, in reverse order, for every key -/
theorem rijndael_keySetupDec_conforms (key : Bytes) (hk : validKey key) :
    ∃ rk, Rijndael.keySetupDec key = some (rk, key.length / 4 + 6) ∧
      Relic.Lemmas.Rijndael.RkOK rk (Aes.eqInvKeys (Aes.keyExpansion key)).reverse :=
  Relic.Lemmas.Rijndael.Key.keySetupDec_ok key hk

/-- AES block decryption of the library (rijndaelKeySetupDec + rijndaelDecrypt, table-driven) = FIPS 197 InvCipher under the
    FIPS 197 key expansion: every key size, every key, every block -/
theorem rijndael_aesD_conforms (key blk : Bytes) (hk : validKey key) (hb : blk.length = 16) :
    Rijndael.aesD key blk = Aes.invCipher (Aes.keyExpansion key) blk := by
  obtain ⟨rk, hks, hok⟩ := Relic.Lemmas.Rijndael.Key.keySetupDec_ok key hk
  obtain ⟨_, _, _, hlen⟩ := Relic.Lemmas.Rijndael.Key.keySetupEnc_ok key hk
  obtain ⟨hne, h16⟩ := Relic.Lemmas.Aes.keyExpansion_length key hk
  unfold Rijndael.aesD
  rw [hks]
  have := Relic.Lemmas.Rijndael.Dec.decrypt_eq rk (Aes.eqInvKeys (Aes.keyExpansion key)) (key.length / 4 + 6) hok
    (by rw [Relic.Lemmas.AesEqInv.eqInvKeys_length _ hne, hlen]) (by unfold validKey at hk; omega)
    (Relic.Lemmas.AesEqInv.eqInvKeys_length16 _ hne h16) blk hb
  simp only at this ⊢
  rw [this]
  exact Relic.Lemmas.AesEqInv.eqInvCipher_keyExpansion key blk hk hb

/-- the table-driven block decryption inverts the table-driven block encryption -/
theorem rijndael_aesD_aesE (key blk : Bytes) (hk : validKey key) (hb : blk.length = 16) :
    Rijndael.aesD key (Rijndael.aesE key blk) = blk := by
  rw [rijndael_aesE_conforms key blk hk hb,
    rijndael_aesD_conforms key _ hk (Relic.Lemmas.Aes.cipher_length key blk hk hb)]
  exact Relic.Lemmas.Aes.invCipher_cipher key blk hk hb

/-- bc_aes_cbc_dec with the table-driven block cipher (the model the driver executes) = PKCS#7-unpad ∘ CBC-decrypt of the
    specification, for every input -/
theorem aes_cbc_dec_tables_conforms (key iv c : Bytes) (cap : Nat) (hk : validKey key) (hiv : iv.length = 16)
    (hcap : c.length ≤ cap) :
    Bc.bcAesCbcDec Rijndael.aesD cap c key iv = Aes.aesCbcPkcs7Dec key iv c := by
  have hEq : ∀ b : Bytes, b.length = 16 → Rijndael.aesD key b = Aes.invCipher (Aes.keyExpansion key) b :=
    fun b hb => rijndael_aesD_conforms key b hk hb
  have hD : ∀ b : Bytes, b.length = 16 → (Rijndael.aesD key b).length = 16 :=
    fun b hb => by rw [hEq b hb]; exact Relic.Lemmas.Aes.invCipher_length key b hk hb
  unfold Bc.bcAesCbcDec
  rw [if_neg (by omega), if_neg (by unfold validKey at hk; omega)]
  rw [padDecrypt_eq (Rijndael.aesD key) hD iv hiv c]
  unfold Aes.aesCbcPkcs7Dec
  by_cases h0 : c.length = 0 ∨ c.length % 16 ≠ 0
  · rw [if_pos h0, if_pos h0]
  · rw [if_neg h0, if_neg h0]
    obtain ⟨_, hB16⟩ := flatten_chunks16 (c.length / 16 + 1) c (by omega) (by omega)
    rw [Relic.Lemmas.AesCbc.cbcDec_congr _ _ hEq iv _ hB16]

/-- AES-CBC with PKCS#7 through the table-driven code of the library, end to end: whatever bc_aes_cbc_enc returns,
    bc_aes_cbc_dec decrypts to the plaintext; no hypothesis -/
theorem aes_cbc_roundtrip_tables (key iv m : Bytes) (cap : Nat) (hiv : iv.length = 16) (c : Bytes)
    (henc : Bc.bcAesCbcEnc Rijndael.aesE cap m key iv = some c) :
    Bc.bcAesCbcDec Rijndael.aesD c.length c key iv = some m := by
  by_cases hk : validKey key
  · have hE : ∀ b : Bytes, b.length = 16 → (Rijndael.aesE key b).length = 16 :=
      fun b hb => by rw [rijndael_aesE_conforms key b hk hb]; exact Relic.Lemmas.Aes.cipher_length key b hk hb
    have hD : ∀ b : Bytes, b.length = 16 → (Rijndael.aesD key b).length = 16 :=
      fun b hb => by rw [rijndael_aesD_conforms key b hk hb]; exact Relic.Lemmas.Aes.invCipher_length key b hk hb
    exact aes_cbc_roundtrip Rijndael.aesE Rijndael.aesD key iv m cap
      (fun b hb => rijndael_aesD_aesE key b hk hb) hE hD hiv c henc
  · exfalso
    unfold Bc.bcAesCbcEnc at henc
    unfold validKey at hk
    split at henc
    · simp at henc
    · rw [if_pos (by omega)] at henc; simp at henc

/-- the constant tables of the hash implementations, as extracted from the C text on every run (Gen/MdConsts.lean: K[64] and
    the initial values of sha224-256.c, K[80] and the initial values of sha384-512.c, blake2s_IV and blake2s_sigma of
    blake2s-ref.c), are the constants of the FIPS 180-4 / RFC 7693 definitions the theorems above speak about -/
theorem md_constants_conform :
    Relic.Gen.MdConsts.sha256K = Spec.Sha256.K ∧ Relic.Gen.MdConsts.sha224H0 = Spec.Sha256.H0_224.toArray ∧
    Relic.Gen.MdConsts.sha256H0 = Spec.Sha256.H0.toArray ∧ Relic.Gen.MdConsts.sha512K = Spec.Sha512.K ∧
    Relic.Gen.MdConsts.sha384H0 = Spec.Sha512.H0_384.toArray ∧ Relic.Gen.MdConsts.sha512H0 = Spec.Sha512.H0_512.toArray ∧
    Relic.Gen.MdConsts.blake2sIV = Relic.Spec.Blake2s.IV ∧ Relic.Gen.MdConsts.blake2sSigma = Relic.Spec.Blake2s.sigma ∧
    -- the variant of sha384-512.c that is compiled keeps the 64-bit constants as (high, low) pairs of 32-bit words
    Relic.Gen.MdConsts.join32 Relic.Gen.MdConsts.sha512K32 = Spec.Sha512.K.toList ∧
    Relic.Gen.MdConsts.join32 Relic.Gen.MdConsts.sha384H032 = Spec.Sha512.H0_384 ∧
    Relic.Gen.MdConsts.join32 Relic.Gen.MdConsts.sha512H032 = Spec.Sha512.H0_512 :=
  ⟨Relic.Gen.MdConsts.sha256K_eq, Relic.Gen.MdConsts.sha224H0_eq, Relic.Gen.MdConsts.sha256H0_eq, Relic.Gen.MdConsts.sha512K_eq,
   Relic.Gen.MdConsts.sha384H0_eq, Relic.Gen.MdConsts.sha512H0_eq, Relic.Gen.MdConsts.blake2sIV_eq, Relic.Gen.MdConsts.blake2sSigma_eq,
   Relic.Gen.MdConsts.sha512K32_eq, Relic.Gen.MdConsts.sha384H032_eq, Relic.Gen.MdConsts.sha512H032_eq⟩

/-- non-vacuity: PKCS#7 of a 3-byte message; the padding split of SHA-256 at 55/56 bytes -/
example : Aes.pkcs7Pad [1, 2, 3] = [1, 2, 3] ++ List.replicate 13 13 := by decide
example : (Spec.Sha256.pad 55).length = 9 ∧ (Spec.Sha256.pad 56).length = 72 := by decide
example : (Spec.MD.pad 128 16 111).length = 17 ∧ (Spec.MD.pad 128 16 112).length = 144 := by decide +kernel

end Relic.Props.C14
