/- C06 — placeholder while the correspondence is brought up; replaced by the property theorems. -/
import RelicVerif.Spec.Cp
import RelicVerif.Model.Cp

namespace Relic.Props.C06
end Relic.Props.C06
