/-
C06 — Encryption, key agreement and sharing invert correctly; bad input is rejected.

Specification (executable, written from the standards / original papers): Spec/Cp.lean.  Code-shaped models of the C
functions: Model/Cp.lean.  The theorems below are the unbounded statements (every key satisfying the key equations, every
plaintext / residue / exponent / list of shares); lemmas and proofs are in Lemmas/{Num,Rsa,Paillier,Share,Sss,Pad,PadModel,OaepModel}C06.lean.
What the theorems do NOT cover is compared with the specification on every run only (class C, listed in tools/props/c06.py):
in particular "decryption rejects bad input" is decided by the specification's decoders — whose acceptance sets are
characterised here (`*_sound`) — on each crafted / mutated ciphertext, it is not a theorem about the C text.
-/
import RelicVerif.Lemmas.RsaC06
import RelicVerif.Lemmas.PaillierC06
import RelicVerif.Lemmas.ShareC06
import RelicVerif.Lemmas.SssC06
import RelicVerif.Lemmas.PadC06
import RelicVerif.Lemmas.PadModelC06
import RelicVerif.Lemmas.OaepModelC06

namespace Relic.Props.C06
open Relic.Spec.Cp Relic.Model.Cp
open Relic.Spec.Mac (Hash)
open Relic.Lemmas

/-! ### RSA -/

/-- RSADP ∘ RSAEP = id for EVERY representative m < n (also when gcd(m, n) ≠ 1), for every key with n = p·q, p ≠ q prime and
    e·d ≡ 1 (mod lcm(p−1, q−1)) -/
theorem rsa_roundtrip (p q e d m : Nat) (hp : p.Prime) (hq : q.Prime) (hpq : p ≠ q)
    (hed : (e * d) % Nat.lcm (p - 1) (q - 1) = 1 % Nat.lcm (p - 1) (q - 1)) (hed0 : 0 < e * d) (hm : m < p * q) :
    rsadp (p * q) d (rsaep (p * q) e m) = m := RsaC06.rsa_roundtrip p q e d m hp hq hpq hed hed0 hm

/-- the model of `bn_mxp_crt(d, a, dP, dQ, crt, 0)` (two half-size exponentiations + Garner) is a^d mod n for every base -/
theorem rsa_crt_eq_plain (p q d qi c : Nat) (hp : p.Prime) (hq : q.Prime) (hpq : p ≠ q) (hqi : qi * q % p = 1)
    (hdp : 0 < d % (p - 1)) (hdq : 0 < d % (q - 1)) :
    mxpCrt c (d % (p - 1)) (d % (q - 1)) p q qi = c ^ d % (p * q) := RsaC06.mxpCrt_eq p q d qi c hp hq hpq hqi hdp hdq

/-- the CRT private-key path inverts encryption for every representative m < n -/
theorem rsa_crt_roundtrip (p q e d qi m : Nat) (hp : p.Prime) (hq : q.Prime) (hpq : p ≠ q) (hp2 : 2 < p) (hq2 : 2 < q)
    (hed : (e * d) % Nat.lcm (p - 1) (q - 1) = 1) (hqi : qi * q % p = 1) (hm : m < p * q) :
    mxpCrt (rsaep (p * q) e m) (d % (p - 1)) (d % (q - 1)) p q qi = m :=
  RsaC06.rsa_crt_roundtrip p q e d qi m hp hq hpq hp2 hq2 hed hqi hm

/-- EME-PKCS1-v1_5: decoding inverts encoding for every message and every admissible padding string … -/
theorem pkcs1_roundtrip (ps m : Bytes) (hps : ∀ b ∈ ps, b ≠ 0) (hlen : 8 ≤ ps.length) :
    pkcs1Unpad (pkcs1Pad ps m) = some m := PadC06.pkcs1_roundtrip ps m hps hlen

/-- … and accepts ONLY 00 ‖ 02 ‖ PS ‖ 00 ‖ M with PS non-zero, |PS| ≥ 8 -/
theorem pkcs1_accepts_only_layout (em m : Bytes) (h : pkcs1Unpad em = some m) :
    ∃ ps, em = pkcs1Pad ps m ∧ (∀ b ∈ ps, b ≠ 0) ∧ 8 ≤ ps.length := PadC06.pkcs1_sound em m h

/-- EME-OAEP: decoding inverts encoding for every seed of hash length and every message that fits the modulus … -/
theorem oaep_roundtrip (H : Hash) (hout : ∀ b, (H.h b).length = H.outLen) (hpos : 0 < H.outLen) (k : Nat) (seed m : Bytes)
    (hs : seed.length = H.outLen) (hm : m.length + 2 * H.outLen + 2 ≤ k) :
    oaepDecode H k (oaepEncode H k seed m) = some m := PadC06.oaep_roundtrip H hout hpos k seed m hs hm

/-- … and accepts ONLY OAEP encodings (first octet 00, label hash, zero padding, 01 separator) -/
theorem oaep_accepts_only_encodings (H : Hash) (hout : ∀ b, (H.h b).length = H.outLen) (hpos : 0 < H.outLen) (k : Nat)
    (em m : Bytes) (h : oaepDecode H k em = some m) :
    ∃ seed, seed.length = H.outLen ∧ m.length + 2 * H.outLen + 2 ≤ k ∧ em = oaepEncode H k seed m :=
  PadC06.oaep_sound H hout hpos k em m h

/-- the library's basic layout: round trip and acceptance set -/
theorem basic_roundtrip (k : Nat) (m : Bytes) (h : m.length + 2 ≤ k) : basicUnpad (basicPad k m) = some m :=
  PadC06.basic_roundtrip k m h

theorem basic_accepts_only_layout (em m : Bytes) (h : basicUnpad em = some m) :
    ∃ z, 1 ≤ z ∧ em = List.replicate z 0 ++ [0xFF] ++ m := PadC06.basic_sound em m h

/-- I2OSP / OS2IP are mutually inverse (leading zero octets preserved) -/
theorem octet_string_roundtrip (b : Bytes) (n len : Nat) (h : n < 256 ^ len) :
    i2osp (os2ip b) b.length = b ∧ os2ip (i2osp n len) = n := ⟨PadC06.i2osp_os2ip b, PadC06.os2ip_i2osp n len h⟩

/-- model = specification for the padding removers of cp_rsa_dec: the integer-level scan of pad_basic decides and returns
    exactly what the byte-level decoder does, for every k-octet encoded message -/
theorem pad_basic_model_eq_spec (k : Nat) (em : Bytes) (hk : 2 ≤ k) (hlen : em.length = k) :
    (padBasicDec (os2ip em) k).map (fun r => i2osp r.1 (k - r.2)) = basicUnpad em := PadModelC06.padBasicDec_eq k em hk hlen

/-- pad_pkcs1 (RSA_DEC) = EME-PKCS1-v1_5 decoding of RFC 8017 §7.2.2 (|PS| ≥ 8 included), restricted to non-empty messages
    (the encryption side admits no empty message), for every k-octet encoded message -/
theorem pad_pkcs1_model_eq_spec (k : Nat) (em : Bytes) (hk : 3 ≤ k) (hlen : em.length = k) :
    (padPkcs1Dec (os2ip em) k).map (fun r => i2osp r.1 (k - r.2))
      = (pkcs1Unpad em).bind fun m => if m.isEmpty then none else some m := PadModelC06.padPkcs1Dec_eq k em hk hlen

/-- accept/reject agree in both directions: the standard's decoder returns the non-empty message m iff pad_pkcs1 does -/
theorem pad_pkcs1_accepts_iff (k : Nat) (em m : Bytes) (hk : 3 ≤ k) (hlen : em.length = k) (hm : m ≠ []) :
    pkcs1Unpad em = some m ↔ (padPkcs1Dec (os2ip em) k).map (fun r => i2osp r.1 (k - r.2)) = some m :=
  PadModelC06.padPkcs1Dec_complete k em m hk hlen hm

/-- pad_pkcs2 (RSA_DEC) = EME-OAEP decoding of RFC 8017 §7.1.2 for every k-octet encoded message, k ≥ 2·hLen + 2: the shifts,
    the xor of the mask as integers and the bn_size_bin search for the 01 separator decide and return what the byte-level
    decoder does (any hash with fixed output length) -/
theorem pad_pkcs2_model_eq_spec (H : Hash) (hout : ∀ b, (H.h b).length = H.outLen) (hpos : 0 < H.outLen) (k : Nat) (em : Bytes)
    (hk : 2 * H.outLen + 2 ≤ k) (hlen : em.length = k) :
    (padPkcs2Dec H (os2ip em) k).map (fun r => i2osp r.1 (k - r.2)) = oaepDecode H k em :=
  OaepModelC06.padPkcs2Dec_eq H hout hpos k em hk hlen

/-! ### Rabin -/

/-- for Blum primes the exponentiation of cp_rabin_dec yields a square root of every quadratic residue -/
theorem rabin_blum_sqrt (p c : Nat) (hp : p.Prime) (h3 : p % 4 = 3) (hc : ∃ x, x ^ 2 % p = c % p) :
    (c ^ ((p + 1) / 4)) ^ 2 % p = c % p := RsaC06.blum_sqrt p c hp h3 hc

/-- the four CRT combinations are square roots of c, and the plaintext block is one of them -/
theorem rabin_roots (p q c r m rp rq : Nat) (hp : p.Prime) (hq : q.Prime) (hpq : p ≠ q)
    (hrp : rp ^ 2 % p = c % p) (hrq : rq ^ 2 % q = c % q)
    (h1 : r % p = rp % p ∨ (r + rp) % p = 0) (h2 : r % q = rq % q ∨ (r + rq) % q = 0)
    (hm : m ^ 2 % (p * q) = c % (p * q)) :
    r ^ 2 % (p * q) = c % (p * q) ∧
    ((m % p = rp % p ∨ (m + rp) % p = 0) ∧ (m % q = rq % q ∨ (m + rq) % q = 0)) :=
  ⟨RsaC06.rabin_roots_square p q c r rp rq hp hq hpq hrp hrq h1 h2, RsaC06.rabin_plain_is_root p q c m rp rq hp hq hm hrp hrq⟩

/-- the redundancy block determines the message and is recognised: parse ∘ block = id, and parse accepts only blocks -/
theorem rabin_block (m : Bytes) (r : Nat) :
    rabinParse (rabinBlock m) = some m ∧ (rabinParse r = some m → r = rabinBlock m) :=
  ⟨PadC06.rabin_block_roundtrip m, PadC06.rabin_parse_sound r m⟩

/-! ### Paillier, Benaloh -/

/-- (1+n)^m ≡ 1 + m·n (mod n²) -/
theorem paillier_binomial (n m : Nat) : (1 + n) ^ m % (n * n) = (1 + m * n) % (n * n) := PaillierC06.one_add_pow_modsq n m

/-- decryption returns the plaintext for every m < n and every unit r -/
theorem paillier_roundtrip (p q m r : Nat) (hp : p.Prime) (hq : q.Prime) (hpq : p ≠ q)
    (hg : Nat.Coprime (p * q) ((p - 1) * (q - 1))) (hr : Nat.Coprime r (p * q)) (hm : m < p * q) :
    paillierDecrypt (p * q) p q (paillierEncrypt (p * q) m r) = m := PaillierC06.paillier_roundtrip p q m r hp hq hpq hg hr hm

/-- what cp_phpe_add computes decrypts to m₁ + m₂ mod n — sums that wrap the plaintext modulus included -/
theorem paillier_homomorphic (p q m1 m2 r1 r2 : Nat) (hp : p.Prime) (hq : q.Prime) (hpq : p ≠ q)
    (hg : Nat.Coprime (p * q) ((p - 1) * (q - 1))) (hr1 : Nat.Coprime r1 (p * q)) (hr2 : Nat.Coprime r2 (p * q)) :
    paillierDecrypt (p * q) p q
        (paillierEncrypt (p * q) m1 r1 * paillierEncrypt (p * q) m2 r2 % (p * q * (p * q))) = (m1 + m2) % (p * q) :=
  PaillierC06.paillier_add p q m1 m2 r1 r2 hp hq hpq hg hr1 hr2

/-- both branches of cp_phpe_dec — CRT with the L-functions modulo p², q² and the constants of cp_phpe_gen, and the plain one
    with φ(n) — return the plaintext of every well-formed ciphertext (any representative, any exponent m) -/
theorem paillier_models_correct (p q m r c dp dq qi : Nat) (hp : p.Prime) (hq : q.Prime) (hpq : p ≠ q)
    (hg : Nat.Coprime (p * q) ((p - 1) * (q - 1))) (hr : Nat.Coprime r (p * q))
    (hdp : dp * ((p - 1) * q % p) % p = 1) (hdq : dq * ((q - 1) * p % q) % q = 1) (hqi : qi * q % p = 1)
    (hc : c % (p * q * (p * q)) = (1 + p * q) ^ m * r ^ (p * q) % (p * q * (p * q))) :
    phpeDecCrt p q dp dq qi c = m % (p * q) ∧ phpeDecPlain (p * q) p q c = m % (p * q) :=
  ⟨PaillierC06.phpeDecCrt_eq p q m r c dp dq qi hp hq hpq hg hr hdp hdq hqi hc,
   PaillierC06.phpeDecPlain_eq p q m r c hp hq hpq hg hr hc⟩

/-- Benaloh: the search returns the plaintext for every m < t; products of ciphertexts add plaintexts modulo t -/
theorem benaloh_correct (p q y t m1 m2 u1 u2 : Nat) (hp : p.Prime) (hq : q.Prime) (hpq : p ≠ q) (ht : t.Prime)
    (htp : t ∣ p - 1) (hy : Nat.Coprime y (p * q)) (hu1 : Nat.Coprime u1 (p * q)) (hu2 : Nat.Coprime u2 (p * q))
    (hy1 : y ^ ((p - 1) * (q - 1) / t) % (p * q) ≠ 1) (hm : m1 < t) :
    bdpeDecrypt (p * q) p q y t (y ^ m1 * u1 ^ t % (p * q)) = some m1 ∧
    bdpeDecrypt (p * q) p q y t ((y ^ m1 * u1 ^ t % (p * q)) * (y ^ m2 * u2 ^ t % (p * q)) % (p * q)) = some ((m1 + m2) % t) :=
  ⟨PaillierC06.benaloh_roundtrip p q y t m1 u1 hp hq hpq ht htp hy hu1 hy1 hm,
   PaillierC06.benaloh_add p q y t m1 m2 u1 u2 hp hq hpq ht htp hy hu1 hu2 hy1⟩

/-! ### secret sharing, triples -/

open Polynomial in
/-- Shamir: ANY set of pairwise distinct abscissae larger than deg f reconstructs f(0) by the formula mpc_sss_key evaluates -/
theorem shamir_reconstruct {F : Type*} [Field F] [DecidableEq F] (f : F[X]) (s : Finset F) (hdeg : f.degree < s.card) :
    (∑ i ∈ s, f.eval i * ((∏ m ∈ s.erase i, m) / (∏ m ∈ s.erase i, (m - i)))) = f.eval 0 :=
  ShareC06.shamir_reconstruct f s hdeg

open Polynomial in
/-- the executable model of mpc_sss_key and the specification's interpolation return f(0) (as the canonical residue) on the
    shares of any f over Z_q of degree below the number of presented shares, q prime, distinct abscissae, any order -/
theorem sss_key_reconstructs (q : Nat) [Fact q.Prime] (f : (ZMod q)[X]) (xs : List Nat)
    (hnd : (xs.map (fun x : Nat => (x : ZMod q))).Nodup) (hdeg : f.degree < xs.length) :
    ((sssKey q (SssC06.sharesOf q f xs) : Nat) : ZMod q) = f.eval 0 ∧
    sssKey q (SssC06.sharesOf q f xs) = lagrangeAt q (SssC06.sharesOf q f xs) 0 :=
  ⟨(SssC06.sssKey_reconstruct q f xs hnd hdeg).1, SssC06.sssKey_eq_lagrangeAt q f xs hnd hdeg⟩

open Polynomial in
/-- fewer than t shares do not determine the secret: every candidate secret is consistent with them -/
theorem shamir_threshold {F : Type*} [Field F] [DecidableEq F] (s : Finset F) (y : F → F) (h0 : (0 : F) ∉ s) (secret : F) :
    ∃ g : F[X], g.degree < s.card + 1 ∧ g.eval 0 = secret ∧ ∀ i ∈ s, g.eval i = y i := ShareC06.shamir_too_few s y h0 secret

/-- Beaver triples: the result shares of mpc_mt_mul add up to x·y for every valid triple -/
theorem beaver_reconstruct {R : Type*} [CommRing R] (a0 a1 b0 b1 c0 c1 x y : R) (hc : c0 + c1 = (a0 + a1) * (b0 + b1)) :
    (a0 * (y - (b0 + b1)) + (b0 + (y - (b0 + b1))) * (x - (a0 + a1)) + c0) + (a1 * (y - (b0 + b1)) + b1 * (x - (a0 + a1)) + c1) = x * y :=
  ShareC06.beaver a0 a1 b0 b1 c0 c1 x y hc

/-! ### key agreement, commitments (abstract commutative group) -/

/-- (cofactor) Diffie–Hellman: both parties compute the same group element -/
theorem ecdh_symmetric {G : Type*} [AddCommGroup G] (g : G) (h dA dB : ℕ) : dA • (h • (dB • g)) = dB • (h • (dA • g)) :=
  ShareC06.ecdh_symm g h dA dB

/-- MQV: both parties compute (s_A·s_B)•G from their own secrets and the other's public keys -/
theorem ecmqv_symmetric {G : Type*} [AddCommGroup G] (g : G) (n : ℕ) (hn : n • g = 0) (d1A d2A d1B d2B aA aB : ℕ) :
    ((d2A + aA * d1A) % n) • ((d2B • g) + aB • (d1B • g)) = ((d2B + aB * d1B) % n) • ((d2A • g) + aA • (d1A • g)) :=
  ShareC06.mqv_symm g n hn d1A d2A d1B d2B aA aB

/-- Pedersen commitments are additively homomorphic -/
theorem pedersen_homomorphic {G : Type*} [AddCommGroup G] (g h : G) (x1 r1 x2 r2 : ℕ) :
    (x1 • g + r1 • h) + (x2 • g + r2 • h) = (x1 + x2) • g + (r1 + r2) • h := ShareC06.pedersen_add g h x1 r1 x2 r2

/-! ### the hypotheses are satisfiable -/

example : Nat.Prime 11 ∧ Nat.Prime 7 ∧ (11 : Nat) ≠ 7 ∧ (7 * 13) % Nat.lcm (11 - 1) (7 - 1) = 1 ∧ 2 * 7 % 11 = 3 ∧ 8 * 7 % 11 = 1 := by
  refine ⟨by norm_num, by norm_num, by decide, by decide, by decide, by decide⟩

example : rsadp 77 13 (rsaep 77 7 22) = 22 := by decide     -- gcd(22, 77) = 11
example : Nat.Coprime (11 * 7) ((11 - 1) * (7 - 1)) ∧ paillierDecrypt 77 11 7 (paillierEncrypt 77 76 5) = 76 := by decide
example : pkcs1Unpad (pkcs1Pad [1, 2, 3, 4, 5, 6, 7, 8] [0, 9]) = some [0, 9] ∧ pkcs1Unpad (pkcs1Pad [1, 2, 3, 4, 5, 6, 7] [9]) = none := by decide
example : basicUnpad (basicPad 6 [0, 1]) = some [0, 1] ∧ rabinParse (rabinBlock [0, 7]) = some [0, 7] := by decide

end Relic.Props.C06
