/-
C02, algorithm layer — the exponentiation, inversion, square-root and symbol routines of src/fp (relic_fp_exp.c,
relic_fp_inv.c, relic_fp_srt.c, relic_fp_smb.c) as modelled in Model/FpAlg.lean (value level over [0,p); same loops,
windows, tables, branches and error conditions as the C functions; executed by the driver on every presented line)
compute what Z/pZ defines, for every input.

`Ctx.WF`: p an odd prime, p < R = 2^m, p < 2^RLC_FP_BITS, R·rinv ≡ 1 (mod p), RLC_WIDTH > 0.
`Ctx.WFsrt` adds p − 1 = 2^f·q with q odd and, when p ≡ 1 (mod 4), z a primitive 2^f-th root of unity (fp_prime_get_2ad /
fp_prime_get_srt; for p ≡ 3 (mod 4) the library's constant is 1 and unused).
The driver evaluates these hypotheses on the context the running library reports (Driver/C02.lean: checkParam).

Not modelled (class C, compared with the specification only): fp_inv_divst, fp_inv_jmpds, fp_smb_binar (Pornin), fp_smb_divst,
fp_smb_jmpds, the general branch of fp_crt (p ≡ 1 mod 9) and fp_is_cub.  fp_is_sqr / the flag of the Tonelli–Shanks branch of fp_srt call fp_smb, which is
FP_SMB = JMPDS in the verified configuration: the model evaluates Euler's criterion (the algorithm of fp_smb_basic) instead.
-/
import RelicVerif.Lemmas.FpAlgExp
import RelicVerif.Lemmas.FpAlgInv
import RelicVerif.Lemmas.FpAlgInv2
import RelicVerif.Lemmas.FpAlgSrt
import RelicVerif.Lemmas.FpAlgCrt

namespace Relic.Props.C02
open Relic.Model.FpAlg Relic.Model.Rec

/-! ### exponentiation (any modulus p > a; no primality) -/

/-- fp_exp_basic loop and fp_exp_dig: a^e mod p for every positive exponent / every digit -/
theorem fp_exp_basic_loop (p a e : Nat) (ha : a < p) (he : 0 < e) : expBasicAbs p a e = a ^ e % p :=
  expBasicAbs_spec p a e ha he

theorem fp_exp_dig_exact (p a b : Nat) (ha : a < p) : expDig p a b = a ^ b % p := expDig_spec p a b ha

/-- fp_exp_monty: the ladder with conditional swaps over all bits -/
theorem fp_exp_monty_loop (p a e : Nat) (ha : a < p) : expMontyAbs p a e = a ^ e % p := expMontyAbs_spec p a e ha

/-- fp_exp_slide: odd-power table + sliding windows of bn_rec_slw = a^e for exponents of at most RLC_FP_BITS + 1 bits;
    longer exponents are refused (the reported error of known finding F16), never answered wrongly -/
theorem fp_exp_slide_loop (c : Ctx) (a e : Nat) (ha : a < c.p) (hw : 0 < c.width) :
    expSlideAbs c a e = if bitLen e ≤ c.fb + 1 then some (a ^ e % c.p) else none := expSlideAbs_spec c a e ha hw

/-- signed exponents: a^e for e ≥ 0 (including e = 0 and e ≥ p), the inverse of a^|e| for e < 0 and a ≠ 0 (through
    fp_inv = fp_inv_monty), an error for e < 0 and a = 0 -/
theorem fp_exp_basic_signed (c : Ctx) (h : c.WF) (a : Nat) (ha : a < c.p) (e : Int) :
    ExpContract c a e (fpExpBasic c a e) := fpExpBasic_spec c h a ha e

theorem fp_exp_monty_signed (c : Ctx) (h : c.WF) (a : Nat) (ha : a < c.p) (e : Int) :
    ExpContract c a e (fpExpMonty c a e) := fpExpMonty_spec c h a ha e

theorem fp_exp_slide_signed (c : Ctx) (h : c.WF) (a : Nat) (ha : a < c.p) (e : Int) :
    (bitLen e.natAbs ≤ c.fb + 1 → ExpContract c a e (fpExpSlide c a e)) ∧
    (c.fb + 1 < bitLen e.natAbs → fpExpSlide c a e = none) := fpExpSlide_spec c h a ha e

/-! ### inversion: for a prime modulus the canonical inverse, zero reported -/

/-- fp_inv_monty (Kaliski almost inverse + power-of-two correction in the Montgomery domain) -/
theorem fp_inv_monty_correct (c : Ctx) (h : c.WF) : InvContract c (invMonty c) := invMonty_spec c h

/-- fp_inv_binar (binary extended Euclid) -/
theorem fp_inv_binar_correct (c : Ctx) (h : c.WF) : InvContract c (invBinar c) := invBinar_spec c h

/-- fp_inv_exgcd -/
theorem fp_inv_exgcd_correct (c : Ctx) (h : c.WF) : InvContract c (invExgcd c) := invExgcd_spec c h

/-- fp_inv_basic and fp_inv_lower (Fermat, a^(p−2) by the sliding-window exponentiation) -/
theorem fp_inv_fermat_correct (c : Ctx) (h : c.WF) : InvContract c (invBasic c) ∧ InvContract c (invLower c) :=
  ⟨invBasic_spec c h, invLower_spec c h⟩

/-- fp_inv_sim: Montgomery's trick for every list length ≥ 1 -/
theorem fp_inv_sim_correct (c : Ctx) (h : c.WF) (as : List Nat) (hne : as ≠ []) (hlt : ∀ a ∈ as, a < c.p) :
    ((∃ a ∈ as, a = 0) → invSim c as = none) ∧
    ((∀ a ∈ as, a ≠ 0) → ∃ out, invSim c as = some out ∧
      List.Forall₂ (fun a x => x < c.p ∧ a * x % c.p = 1) as out) := invSim_spec c h as hne hlt

/-! ### symbol and square root -/

/-- fp_smb_basic / fp_smbm_low = the Legendre symbol -/
theorem fp_smb_basic_legendre (c : Ctx) (h : c.WF) (a : Nat) (ha : a < c.p) :
    haveI := Fact.mk h.prime
    smbBasic c a = some (legendreSym c.p a) := smbBasic_spec c h a ha

/-- fp_srt: a root is returned exactly when one exists, and it squares to the operand (both branches: p ≡ 3 mod 4 and
    constant-time Tonelli–Shanks, which covers p ≡ 5 mod 8) -/
theorem fp_srt_root_iff (c : Ctx) (h : c.WFsrt) (a : Nat) (ha : a < c.p) :
    ∃ r x, srt c a = some (r, x) ∧ (r = true ↔ ∃ y, y * y % c.p = a) ∧ (r = true → x < c.p ∧ x * x % c.p = a) :=
  srt_spec c h a ha

/-- fp_is_sqr -/
theorem fp_is_sqr_iff (c : Ctx) (h : c.WF) (a : Nat) (ha : a < c.p) :
    ∃ b, isSqr c a = some b ∧ (b = true ↔ ∃ y, y * y % c.p = a) := isSqr_spec c h a ha

/-- fp_crt on the primes where it is one exponentiation (p ≡ 2 mod 3, p ≡ 4 mod 9, p ≡ 7 mod 9): a cube root is returned
    exactly when one exists, and it cubes to the operand.  (The general branch, p ≡ 1 mod 9, is class C.) -/
theorem fp_crt_exp_branches (c : Ctx) (h : c.WF) (a : Nat) (ha : a < c.p) (e : Nat) (he : crtExp c = some e) :
    ∃ r x, crtEasy c a = some (some (r, x)) ∧ (r = true ↔ ∃ y, y * y % c.p * y % c.p = a) ∧
      (r = true → x < c.p ∧ x * x % c.p * x % c.p = a) := crtEasy_spec c h a ha e he

/-- the hypotheses are satisfiable: p = 13, R = 2^8, RLC_FP_BITS = 8, f = 2, z = 8 (8² = 64 ≡ −1) -/
example : ({ p := 13, m := 8, fb := 8, rinv := 3, width := 4, f := 2, z := 8 } : Ctx).WFsrt :=
  { prime := by decide, odd := by decide, ltR := by decide, rinv := by decide, fbits := by decide, width := by decide,
    fpos := by decide, fq := ⟨3, by decide, by decide⟩, zlt := by decide, zord := fun _ => by decide }

example : crtExp { p := 13, m := 8, fb := 8, rinv := 3 } = some 3 := by decide

end Relic.Props.C02
