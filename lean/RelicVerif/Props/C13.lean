/-
C13 — hashing to groups yields valid subgroup points per the documented map.

Specification: Spec/HashToCurve.lean (RFC 9380 hash_to_field, sgn0, simplified SWU, Shallue–van de Woestijne, iso_map,
clear_cofactor; SwiftEC; try-and-increment). Model of the C code: Model/EpMap.lean (TMPL_MAP_SSWU, TMPL_MAP_SVDW,
EP_MAP_APPLY_MAP, TMPL_MAP_HORNER / TMPL_MAP_ISOGENY_MAP, the a = 0 branch of ep_map_swift_impl).

What is proved here, for an ARBITRARY field F (no bound on anything) and for EVERY field element, under the contract
`Oracle` on is_square / sqrt (is_square decides `IsSquare`, sqrt returns a root of every square, non-square × non-square is
a square – the last holds in every finite field, `oracle_exists`) and under the conditions on the map constants that the
driver evaluates on every `ep_map_param` line for the constants READ from the running library:

* the point returned by each map satisfies the curve equation – exceptional inputs included (SSWU: Z²u⁴ + Zu² = 0;
  SvdW: (1 − u²g(Z))(1 + u²g(Z)) = 0); for SvdW and SwiftEC this contains the classical fact that one of the three
  candidates is an abscissa (identity `sw_key`);
* the C code equals the documented construction for every input (`sswuC_eq_sswu`, `svdwC_eq_svdwWith`, `swiftC_eq_swift`,
  `horner_eq_polyEval`, `isoC_eq_isoMap`);
* sign correction keeps the point on the curve; cofactor clearing lands in the r-torsion; try-and-increment terminates.
Determinism holds by construction: specification and model are functions of the input bytes alone.

* Edwards: Elligator 2 lands on the Montgomery curve for every u, the rational map lands on the twisted Edwards curve;
  binary curves: a solution of the quadratic gives a curve point, the half-trace is a solution when the trace vanishes.

Not theorems (class C, compared on the presented lines; see TRUSTED in tools/props/c13.py): the byte-level plumbing of the
entry points, the C code of ed_map_ell2_5mod8 and eb_map (no model: compared with the specification only), the group law after the maps (C03), the field oracles (C02), expand_message_xmd (C14), "the isogeny maps
curve points to curve points" (evaluated on the presented points), r·P = O end to end (needs #E = h·r, C18).
-/
import RelicVerif.Lemmas.MapToCurve
import Mathlib.Algebra.Field.ZMod

namespace Relic.Props.C13
open Relic.Spec.H2C Relic.Model.EpMap Relic.Lemmas.MapToCurve

instance : Fact (Nat.Prime 7) := ⟨by decide⟩

variable {F : Type} [Field F] [DecidableEq F]
variable (isSq : F → Bool) (sqrt : F → F) (sgn0 : F → Bool)

/-! ### the oracle contract is satisfiable: every finite field -/

/-- in a finite field the product of two non-squares is a square (quadratic character) -/
theorem nonsq_mul_finite {K : Type} [Field K] [Fintype K] [DecidableEq K] (a b : K)
    (ha : ¬ IsSquare a) (hb : ¬ IsSquare b) : IsSquare (a * b) := finiteField_nonsq_mul a b ha hb

/-- an is_square / sqrt pair satisfying the contract exists over every finite field -/
theorem oracle_exists {K : Type} [Field K] [Fintype K] [DecidableEq K] :
    ∃ (isSq : K → Bool) (sqrt : K → K), Oracle isSq sqrt := by
  classical
  refine ⟨fun a => decide (IsSquare a), fun a => if h : IsSquare a then Classical.choose h else 0, ?_, ?_, ?_⟩
  · intro a; simp
  · intro a h; simp only [dif_pos h]; exact (Classical.choose_spec h).symm
  · exact fun a b => finiteField_nonsq_mul a b

/-! ### simplified SWU (curves with a·b ≠ 0, or the isogenous curve) -/

/-- RFC 9380 §6.6.2: for every u – also those with Z²u⁴ + Zu² = 0 – the output satisfies y² = x³ + a x + b, given Z a non-square
    and g(B/(ZA)) a square (conditions 1 and 4 on Z; the second is the one ep_curve_set_map tests wrongly, finding C13-1) -/
theorem sswu_on_curve (H : Oracle isSq sqrt) (a b Z : F) (ha : a ≠ 0) (hZ : ¬ IsSquare Z)
    (hZ4 : IsSquare (gF a b (b * (Z * a)⁻¹))) (u : F) :
    (sswu (fOps isSq sqrt sgn0) ⟨a, b⟩ Z u).2 * (sswu (fOps isSq sqrt sgn0) ⟨a, b⟩ Z u).2 =
      gF a b (sswu (fOps isSq sqrt sgn0) ⟨a, b⟩ Z u).1 :=
  Relic.Lemmas.MapToCurve.sswu_on_curve isSq sqrt sgn0 H a b Z ha hZ hZ4 u

/-- TMPL_MAP_SSWU + the sign correction of ep_map_sswum_impl = map_to_curve_simple_swu, for every t, with the context
    constants c0 = −b/a, c2 = a, c3 = b, u = Z (the denominator patch and the shortcut u³t⁶·g(x1) for g(x2) are sound) -/
theorem sswuC_eq_sswu (H : Oracle isSq sqrt) (a b Z c0 c1 c4 : F) (ha : a ≠ 0) (hZ : ¬ IsSquare Z)
    (hZ4 : IsSquare (gF a b (b * (Z * a)⁻¹))) (hc0 : c0 * a + b = 0) (t : F) :
    applySign (fOps isSq sqrt sgn0) t (sswuC (fOps isSq sqrt sgn0) ⟨Z, c0, c1, a, b, c4⟩ t) =
      sswu (fOps isSq sqrt sgn0) ⟨a, b⟩ Z t :=
  Relic.Lemmas.MapToCurve.sswuC_eq_sswu isSq sqrt sgn0 H a b Z c0 c1 c4 ha hZ hZ4 hc0 t

/-- the hypotheses are satisfiable: y² = x³ + x + 6 over GF(7) with Z = 3 -/
example : (1 : ZMod 7) ≠ 0 ∧ ¬ IsSquare (3 : ZMod 7) ∧ IsSquare (gF (1 : ZMod 7) 6 (6 * (3 * 1)⁻¹)) := by
  have hx : (6 : ZMod 7) * (3 * 1)⁻¹ = 2 := by
    rw [← div_eq_mul_inv, div_eq_iff (by decide)]; decide
  refine ⟨by decide, by decide, ?_⟩
  rw [hx]; exact ⟨3, by decide⟩

/-! ### Shallue–van de Woestijne (curves with a·b = 0) -/

/-- RFC 9380 §6.6.1 with c1..c4 derived from Z: for every u – also the exceptional ones – the output satisfies the curve
    equation (contains: one of g(x1), g(x2), g(x3) is a square) -/
theorem svdw_on_curve (H : Oracle isSq sqrt) (a b Z : F) (h2 : (2 : F) ≠ 0) (hg : gF a b Z ≠ 0) (hd : 3 * Z ^ 2 + 4 * a ≠ 0)
    (hs : IsSquare (-gF a b Z * (3 * Z ^ 2 + 4 * a)))
    (hexc : IsSquare (gF a b Z) ∨ IsSquare (gF a b (-Z * (2 : F)⁻¹))) (u : F) :
    (svdw (fOps isSq sqrt sgn0) ⟨a, b⟩ Z u).2 * (svdw (fOps isSq sqrt sgn0) ⟨a, b⟩ Z u).2 =
      gF a b (svdw (fOps isSq sqrt sgn0) ⟨a, b⟩ Z u).1 :=
  Relic.Lemmas.MapToCurve.svdw_on_curve isSq sqrt sgn0 H a b Z h2 hg hd hs hexc u

/-- the same with any constants satisfying the defining equations (what the driver checks of ctx->ep_map_c[0..3]) -/
theorem svdwWith_on_curve (H : Oracle isSq sqrt) (a b Z : F) (K : SvdwConst F) (ok : SvdwOk a b K.c1 K.c2 K.c3 K.c4 Z) (u : F) :
    (svdwWith (fOps isSq sqrt sgn0) ⟨a, b⟩ K Z u).2 * (svdwWith (fOps isSq sqrt sgn0) ⟨a, b⟩ K Z u).2 =
      gF a b (svdwWith (fOps isSq sqrt sgn0) ⟨a, b⟩ K Z u).1 :=
  Relic.Lemmas.MapToCurve.svdwWith_on_curve isSq sqrt sgn0 H a b Z K ok u

/-- TMPL_MAP_SVDW + the sign correction = map_to_curve_svdw with the context's constants, for every t, unconditionally
    (the inv0 emulation by substitution of g(u) is exact) -/
theorem svdwC_eq_svdwWith (a b Z c0 c1 c2 c3 c4 : F) (t : F) :
    applySign (fOps isSq sqrt sgn0) t (svdwC (fOps isSq sqrt sgn0) a b ⟨Z, c0, c1, c2, c3, c4⟩ t) =
      svdwWith (fOps isSq sqrt sgn0) ⟨a, b⟩ ⟨c0, c1, c2, c3⟩ Z t :=
  Relic.Lemmas.MapToCurve.svdwC_eq_svdwWith isSq sqrt sgn0 a b Z c0 c1 c2 c3 c4 t

/-- the hypotheses are satisfiable: y² = x³ + 1 over GF(7) with Z = 1 -/
example : (2 : ZMod 7) ≠ 0 ∧ gF (0 : ZMod 7) 1 1 ≠ 0 ∧ (3 * (1 : ZMod 7) ^ 2 + 4 * 0 ≠ 0) ∧
    IsSquare (-gF (0 : ZMod 7) 1 1 * (3 * 1 ^ 2 + 4 * 0)) ∧ IsSquare (gF (0 : ZMod 7) 1 1) := by
  refine ⟨by decide, by decide, by decide, ⟨1, by decide⟩, ⟨3, by decide⟩⟩

/-! ### SwiftEC (a = 0) -/

/-- whenever the parameters are not exceptional, the SwiftEC output satisfies the curve equation (contains: one of the three
    candidates is an abscissa) -/
theorem swift_on_curve (H : Oracle isSq sqrt) (b sm3 u t : F) (s : Bool) (h2 : (2 : F) ≠ 0) (hs : sm3 * sm3 = -3)
    (xy : F × F) (h : swift (fOps isSq sqrt sgn0) ⟨0, b⟩ sm3 u t s = some xy) :
    xy.2 * xy.2 = gF 0 b xy.1 :=
  Relic.Lemmas.MapToCurve.swift_on_curve isSq sqrt sgn0 H b sm3 u t s h2 hs xy h

/-- the a = 0 branch of ep_map_swift_impl = the SwiftEC specification for every (u, t, s); `none` = the exceptional
    parameters, for which the code sets the point at infinity (and then fails to keep it: finding C13-2) -/
theorem swiftC_eq_swift (b tau u t : F) (s : Bool) (h2 : (2 : F) ≠ 0) :
    (swiftC (fOps isSq sqrt sgn0) b tau u t).map (fun c => swiftSelC (fOps isSq sqrt sgn0) 0 b c s) =
      swift (fOps isSq sqrt sgn0) ⟨0, b⟩ tau u t s :=
  Relic.Lemmas.MapToCurve.swiftC_eq_swift isSq sqrt sgn0 b tau u t s h2

/-! ### Edwards (Elligator 2 + rational map) and binary curves (quadratic of eb_map) -/

open Relic.Spec.H2CEd in
/-- RFC 9380 §6.7.1 Elligator 2: for every u the output satisfies t² = s³ + J s² + s, given only that Z is a non-square -/
theorem elligator2_on_curve (H : Oracle isSq sqrt) (J Z : F) (hZ : ¬ IsSquare Z) (u : F) :
    (elligator2 (fOps isSq sqrt sgn0) J Z u).2 * (elligator2 (fOps isSq sqrt sgn0) J Z u).2 =
      gMF J (elligator2 (fOps isSq sqrt sgn0) J Z u).1 :=
  Relic.Lemmas.MapToCurve.elligator2_on_curve isSq sqrt sgn0 H J Z hZ u

open Relic.Spec.H2CEd in
/-- the Montgomery → twisted Edwards map (with its exceptional points) lands on −x² + y² = 1 + d x² y² -/
theorem montToEd_on_curve (J c d s t : F) (hc : c * c = -(J + 2)) (hd : d * (J + 2) + (J - 2) = 0)
    (hcurve : t * t = gMF J s) :
    let vw := montToEd (fOps isSq sqrt sgn0) c (s, t)
    vw.2 * vw.2 - vw.1 * vw.1 = 1 + d * (vw.1 * vw.1) * (vw.2 * vw.2) :=
  Relic.Lemmas.MapToCurve.montToEd_on_curve isSq sqrt sgn0 J c d s t hc hd hcurve

/-- eb_map: a solution λ of λ² + λ = (x³ + a x² + b)/x² gives the curve point (x, λ x) -/
theorem eb_solution_on_curve (a b x l : F) (hx : x ≠ 0) (hl : l * l + l = (x ^ 3 + a * x ^ 2 + b) / (x * x)) :
    (l * x) * (l * x) + x * (l * x) = x ^ 3 + a * x ^ 2 + b :=
  Relic.Lemmas.MapToCurve.eb_solution_on_curve a b x l hx hl

/-- the half-trace solves the quadratic whenever the trace vanishes (characteristic 2, m = 2n + 1, c^(2^m) = c) -/
theorem halfTrace_solves {R : Type} [CommRing R] [CharP R 2] (c : R) (n : ℕ)
    (hfrob : c ^ (2 ^ (2 * n + 1)) = c) (htr : ∑ j ∈ Finset.range (2 * n + 1), c ^ (2 ^ j) = 0) :
    (∑ i ∈ Finset.range (n + 1), c ^ (4 ^ i)) ^ 2 + ∑ i ∈ Finset.range (n + 1), c ^ (4 ^ i) = c :=
  Relic.Lemmas.MapToCurve.halfTrace_solves c n hfrob htr

/-! ### sign, isogeny evaluation, cofactor, try-and-increment -/

/-- the sgn0 correction (y or −y) preserves the curve equation -/
theorem fixSign_on_curve (a b x y u : F) (h : y * y = gF a b x) :
    fixSign (fOps isSq sqrt sgn0) u y * fixSign (fOps isSq sqrt sgn0) u y = gF a b x := by
  rw [fixSign_sq]; exact h

/-- Horner's rule as coded in TMPL_MAP_HORNER evaluates the polynomial, for every coefficient list -/
theorem horner_eq_polyEval (cs : List F) (a : F) :
    horner (fOps isSq sqrt sgn0) cs a = polyEval (fOps isSq sqrt sgn0) cs a :=
  Relic.Lemmas.MapToCurve.horner_eq_polyEval isSq sqrt sgn0 cs a

/-- TMPL_MAP_ISOGENY_MAP (projective result) denotes iso_map's affine point, and Z = 0 exactly on iso_map's exceptional set -/
theorem isoC_eq_isoMap (I : Iso F) (xy : F × F) :
    let O := fOps isSq sqrt sgn0
    (isoMap O I xy = none ↔ (isoC O I xy).2.2 = 0) ∧
    ∀ q, isoMap O I xy = some q →
      q.1 = (isoC O I xy).1 * ((isoC O I xy).2.2)⁻¹ ∧ q.2 = (isoC O I xy).2.1 * ((isoC O I xy).2.2)⁻¹ :=
  Relic.Lemmas.MapToCurve.isoC_eq_isoMap isSq sqrt sgn0 I xy

/-- clear_cofactor: in a group of exponent h·r the multiple h·P lies in the r-torsion -/
theorem clear_cofactor_torsion {G : Type} [AddCommGroup G] (h r : ℕ) (P : G) (hP : (h * r) • P = 0) :
    r • (h • P) = 0 := Relic.Lemmas.MapToCurve.clear_cofactor_torsion h r P hP

/-- try-and-increment started at any residue terminates within p steps with an abscissa whose g-value is a non-zero square,
    as soon as one such residue exists (the generator of the group is one: checked on every context line) -/
theorem tryIncrement_terminates (p a b x0 y : Nat) (hx : x0 < p) (hy : y < p) (hg : goodX p a b y) :
    ∃ r, tryIncrement p a b p x0 = some r ∧ goodX p a b r :=
  Relic.Lemmas.MapToCurve.tryIncrement_terminates p a b x0 y hx hy hg

/-- every value the loop returns passed the test -/
theorem tryIncrement_sound (p a b fuel x r : Nat) (h : tryIncrement p a b fuel x = some r) : goodX p a b r :=
  tryIncrement_some p a b fuel x r h

end Relic.Props.C13
