/- C13 — placeholder while the correspondence is brought up -/
import RelicVerif.Spec.HashToCurve
import RelicVerif.Model.EpMap

namespace Relic.Props.C13

theorem placeholder : True := trivial

end Relic.Props.C13
