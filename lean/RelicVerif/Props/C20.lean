/-
C20 — Masked selection and regular exponentiation do not branch on secrets.

Part 1 (primitives): the C text of dv_copy_sec, dv_swap_sec, dv_cmp_sec, util_cmp_sec is translated on every run
into the branch-free language of Model/CtLang.lean (Gen/Ct.lean); the programs pass the syntactic discipline, and by
the non-interference theorem their trace (loop counts and every array index, in order) is the same whatever the
data and the selection bit.  Part 2 (algorithms): the instrumented ladder and regular-recoding models compute the
values of the C03 models (proved there to be k•P) and emit an operation log that depends only on public lengths.
-/
import RelicVerif.Lemmas.CtLang
import RelicVerif.Lemmas.CtAlg
import RelicVerif.Gen.Ct

namespace Relic.Props.C20
open Relic.Model.CtLang Relic.Model.CtAlg Relic.Model.MulAlg Relic.Gen

/-- every generated primitive is inside the discipline: loop bounds and array indices are public expressions,
    no conditional statement exists in the language -/
theorem primitives_in_discipline (w : Nat) : (Ct.all w).all isCT = true := by rfl

/-- … hence two runs that agree on the public length produce the same trace, whatever the arrays and the bit -/
theorem primitive_trace_independent (w : Nat) (p : Prog) (hp : p ∈ Ct.all w) (s t : St)
    (hpub : pubEq p.pub s t) (htr : s.trace = t.trace) : (run p s).trace = (run p t).trace := by
  have h := List.all_eq_true.mp (primitives_in_discipline w) p hp
  exact run_trace_independent p h s t hpub htr

/-- non-vacuity: two different data/bit states with the same length satisfy the hypotheses -/
example : pubEq (Ct.dv_copy_sec 64).pub
    ({ vars := [("digits", 4), ("bit", 0)], arrs := [("c", [1, 2, 3, 4]), ("a", [5, 6, 7, 8])] } : St)
    ({ vars := [("digits", 4), ("bit", 1)], arrs := [("c", [9, 9, 9, 9]), ("a", [0, 0, 0, 0])] } : St) := by
  intro x hx
  simp [Ct.dv_copy_sec] at hx
  subst hx
  rfl

variable {G : Type}

/-- the instrumented Montgomery ladder computes the ladder of C03 (which returns k•P there) … -/
theorem ladder_value (o : Ops G) (hc : ∀ a b, o.add a b = o.add b a) (coords : Nat) (p : G) (bs : List Bool) :
    (ladderI o coords p bs).1 = mulLadder o p bs := ladderI_value o hc coords p bs

/-- … and its sequence of group-level operations depends only on the number of scalar bits -/
theorem ladder_ops_depend_on_length_only (o : Ops G) (coords : Nat) (p p' : G) (bs bs' : List Bool)
    (h : bs.length = bs'.length) : (ladderI o coords p bs).2 = (ladderI o coords p' bs').2 := by
  rw [ladderI_log, ladderI_log, h]

/-- regular recoding: same value as the C03 model … -/
theorem reg_value (o : Ops G) (tab : List G) (dflt : G) (w cpe : Nat) (reg : List Int) (even : Bool) (p : G) :
    (regI o tab dflt w cpe reg even p).1 = mulReg o tab dflt w reg even p := regI_value o tab dflt w cpe reg even p

/-- … and the operations depend only on the window width, the table size and the number of digits (public) -/
theorem reg_ops_depend_on_length_only (o : Ops G) (tab tab' : List G) (dflt : G) (w cpe : Nat) (reg reg' : List Int)
    (even even' : Bool) (p p' : G) (hl : reg.length = reg'.length) (ht : tab.length = tab'.length) :
    (regI o tab dflt w cpe reg even p).2 = (regI o tab' dflt w cpe reg' even' p').2 := by
  rw [regI_log, regI_log, hl, ht]

/-- exponentiation ladder (bn_mxp_monty, fp_exp_monty, fb_exp_monty): operations depend only on the exponent length -/
theorem exp_ladder_ops_depend_on_length_only (mul : G → G → G) (one a a' : G) (bs bs' : List Bool) (perBit : Log)
    (h : bs.length = bs'.length) : (expLadderI mul one a bs perBit).2 = (expLadderI mul one a' bs' perBit).2 := by
  rw [expLadderI_log, expLadderI_log, h]

end Relic.Props.C20
