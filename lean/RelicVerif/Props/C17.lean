/-
C17 — Edwards curves implement the twisted-Edwards group.

What is proved (for all inputs, no bounds), and about what:

* FORMULAS. The code of src/ed/relic_ed_add.c, relic_ed_dbl.c, relic_ed_neg.c, relic_ed_norm.c (+ ed_set_infty, ed_copy) is
  translated on every run into `RelicVerif/Gen/EdFormulas.lean` (tools/translate_ed.py), once per pattern of pointer
  aliasing and per build. Over an arbitrary field of characteristic ≠ 2, on a complete curve (a a square, d not), for
  operands that are curve points: affine, projective and extended addition / doubling / subtraction return a
  representation of the affine sum, the extended ones re-establish T·Z = X·Y, negation and normalisation denote −P and P,
  ed_cmp decides equality of the denoted points; every aliased call computes the same as the unaliased one
  (Lemmas/EdFormulas.lean, by `rfl`). The theorems below combine the formula lemmas with the completeness theorem
  (Lemmas/EdGroup.lean), so they carry NO "denominator ≠ 0" hypothesis.
* GROUP LAW. The affine law is closed on the curve, commutative, has neutral element (0, 1) and inverse (−x, y)
  (Lemmas/EdGroup.lean). Associativity is the classical theorem and is not re-proved.
* SCALAR MULTIPLICATIONS. Every routine of Model/EdMul.lean is total and returns k • P (k • P + m • Q) for EVERY integer k
  (and m), in any additive commutative group, for base points killed by the group order r < 2^RLC_FP_BITS: the routines
  reduce the scalar modulo r first, like the ep_* originals (since the /repo fixes of findings C17-F1/F2/F5; before them
  the statements needed the guard "the scalar fits the fixed-size recoding array / table" and were false without it).
  ed_mul_basic and ed_mul_monty do not reduce and are right for every k on every point (Lemmas/EdMul.lean).
* ENCODINGS. ed_read_bin accepts only curve points in canonical form, decode ∘ encode = id on curve points,
  encode ∘ decode = id except on the two redundant forms of the format (Lemmas/EdConv.lean).
Hashing to the curve is compared on every run with the RFC 9380 construction of Spec/Edwards.lean (class C).
-/
import RelicVerif.Lemmas.EdFormulas
import RelicVerif.Lemmas.EdGroup
import RelicVerif.Lemmas.EdMul
import RelicVerif.Lemmas.EdLot
import RelicVerif.Lemmas.EdConv
import Mathlib.Algebra.Field.ZMod

namespace Relic.Props.C17
open Relic.Model.Formula Relic.Gen
open Relic.Lemmas.EdFormulas Relic.Lemmas.EdGroup

variable {F : Type} [Field F] [DecidableEq F]

/-- a complete twisted Edwards curve over a field of characteristic ≠ 2: a is a square, d is not -/
structure Complete (cv : EdC F) : Prop where
  two_ne : (2 : F) ≠ 0
  a_sq : ∃ s : F, cv.a = s ^ 2
  d_nsq : ∀ t : F, t ^ 2 ≠ cv.d

theorem Complete.dens {cv : EdC F} (hc : Complete cv) {x1 y1 x2 y2 : F} (h1 : OnCurve cv x1 y1) (h2 : OnCurve cv x2 y2) :
    1 + cv.d * x1 * x2 * y1 * y2 ≠ 0 ∧ 1 - cv.d * x1 * x2 * y1 * y2 ≠ 0 := by
  obtain ⟨s, hs⟩ := hc.a_sq
  exact complete cv.a cv.d s hc.two_ne hs hc.d_nsq x1 y1 x2 y2 h1 h2

/-- the hypotheses are satisfiable: over Z/13Z, a = 12 = 5², d = 2 is not a square, and (3, 2) is a point of that curve
    (the library's instance — a = −1, d = −121665/121666 modulo 2²⁵⁵ − 19 — is evaluated by the driver on every run) -/
instance fact13 : Fact (Nat.Prime 13) := ⟨by decide⟩

example : Complete (⟨12, 2⟩ : EdC (ZMod 13)) ∧ OnCurve (⟨12, 2⟩ : EdC (ZMod 13)) 3 2 :=
  ⟨⟨by decide, ⟨5, by decide⟩, by decide⟩, by unfold OnCurve; decide⟩

theorem onCurve_neg {cv : EdC F} {x y : F} (h : OnCurve cv x y) : OnCurve cv (-x) y :=
  neg_onCurve cv.a cv.d x y h

/-! ### addition -/

/-- ed_add_basic: the affine law itself (no hypothesis at all: the code divides where the law divides) -/
theorem add_basic (cv : EdC F) (r p q : EPt F) :
    let s := Ed.ed_add_basic fieldOps cv r p q
    s.x = addX cv.d p.x p.y q.x q.y ∧ s.y = addY cv.a cv.d p.x p.y q.x q.y ∧ s.coord = .basic := by
  obtain ⟨a, b, _, _, c⟩ := add_basic_correct cv r p q
  exact ⟨a, b, c⟩

/-- ed_add_projc on curve points: a representation of the affine sum, for ALL operands (equal, opposite, neutral,
    of order 2, 4, 8 …: the law has no exceptional case) -/
theorem add_projc (cv : EdC F) (hc : Complete cv) (r p q : EPt F) (x1 y1 x2 y2 : F)
    (hp : Rep p x1 y1) (hq : Rep q x2 y2) (h1 : OnCurve cv x1 y1) (h2 : OnCurve cv x2 y2) :
    Rep (Ed.ed_add_projc fieldOps cv r p q) (addX cv.d x1 y1 x2 y2) (addY cv.a cv.d x1 y1 x2 y2) := by
  obtain ⟨d1, d2⟩ := hc.dens h1 h2
  exact (add_projc_correct cv r p q x1 y1 x2 y2 hp hq d1 d2).1

/-- ed_add_extnd (Hisil–Wong–Carter–Dawson): the sum, and the invariant T = xyZ again -/
theorem add_extnd (cv : EdC F) (hc : Complete cv) (r p q : EPt F) (x1 y1 x2 y2 : F)
    (hp : RepT p x1 y1) (hq : RepT q x2 y2) (h1 : OnCurve cv x1 y1) (h2 : OnCurve cv x2 y2) :
    RepT (Ed.ed_add_extnd fieldOps cv r p q) (addX cv.d x1 y1 x2 y2) (addY cv.a cv.d x1 y1 x2 y2) := by
  obtain ⟨d1, d2⟩ := hc.dens h1 h2
  exact (add_extnd_correct cv r p q x1 y1 x2 y2 hp hq d1 d2).1

/-- the sum is a curve point again -/
theorem add_closed (cv : EdC F) (hc : Complete cv) (x1 y1 x2 y2 : F) (h1 : OnCurve cv x1 y1) (h2 : OnCurve cv x2 y2) :
    OnCurve cv (addX cv.d x1 y1 x2 y2) (addY cv.a cv.d x1 y1 x2 y2) := by
  obtain ⟨d1, d2⟩ := hc.dens h1 h2
  exact add_onCurve cv.a cv.d x1 y1 x2 y2 h1 h2 d1 d2

/-! ### doubling -/

theorem dbl_basic (cv : EdC F) (r p : EPt F) :
    let s := Ed.ed_dbl_basic fieldOps cv r p
    s.x = addX cv.d p.x p.y p.x p.y ∧ s.y = addY cv.a cv.d p.x p.y p.x p.y ∧ s.coord = .basic := by
  obtain ⟨a, b, _, _, c⟩ := dbl_basic_correct cv r p
  exact ⟨a, b, c⟩

theorem dbl_projc (cv : EdC F) (hc : Complete cv) (r p : EPt F) (x y : F) (hp : Rep p x y) (h : OnCurve cv x y) :
    Rep (Ed.ed_dbl_projc fieldOps cv r p) (addX cv.d x y x y) (addY cv.a cv.d x y x y) := by
  obtain ⟨d1, d2⟩ := hc.dens h h
  exact (dbl_projc_correct cv r p x y hp h d1 d2).1

/-- ed_dbl_extnd does not read T and produces it -/
theorem dbl_extnd (cv : EdC F) (hc : Complete cv) (r p : EPt F) (x y : F) (hp : Rep p x y) (h : OnCurve cv x y) :
    RepT (Ed.ed_dbl_extnd fieldOps cv r p) (addX cv.d x y x y) (addY cv.a cv.d x y x y) := by
  obtain ⟨d1, d2⟩ := hc.dens h h
  exact (dbl_extnd_correct cv r p x y hp h d1 d2).1

/-! ### negation, subtraction, normalisation, comparison -/

/-- ed_neg_projc of the extended-coordinate build: −P, invariant kept -/
theorem neg_projc (cv : EdC F) (r p : EPt F) (x y : F) (hp : RepT p x y) (hb : BasicZ1 p) :
    RepT (Ed.ed_neg_projc fieldOps cv r p) (-x) y := by
  obtain ⟨a, _, t⟩ := neg_projc_correct cv r p x y hp.1 hb
  exact ⟨a, t hp.2⟩

/-- … of the builds without T -/
theorem neg_projc_prj (cv : EdC F) (r p : EPt F) (x y : F) (hp : Rep p x y) (hb : BasicZ1 p) :
    Rep (EdP.ed_neg_projc fieldOps cv r p) (-x) y :=
  (neg_projc_correct_prj cv r p x y hp hb).1

theorem sub_projc (cv : EdC F) (hc : Complete cv) (r p q : EPt F) (x1 y1 x2 y2 : F)
    (hp : Rep p x1 y1) (hq : Rep q x2 y2) (hb : BasicZ1 q) (h1 : OnCurve cv x1 y1) (h2 : OnCurve cv x2 y2) :
    Rep (Ed.ed_sub_projc fieldOps cv r p q) (addX cv.d x1 y1 (-x2) y2) (addY cv.a cv.d x1 y1 (-x2) y2) := by
  obtain ⟨d1, d2⟩ := hc.dens h1 (onCurve_neg h2)
  exact (sub_projc_correct cv r p q x1 y1 x2 y2 hp hq hb d1 d2).1

/-- ed_sub_extnd in the extended-coordinate build -/
theorem sub_extnd (cv : EdC F) (hc : Complete cv) (r p q : EPt F) (x1 y1 x2 y2 : F)
    (hp : RepT p x1 y1) (hq : RepT q x2 y2) (hb : BasicZ1 q) (h1 : OnCurve cv x1 y1) (h2 : OnCurve cv x2 y2) :
    RepT (Ed.ed_sub_extnd fieldOps cv r p q) (addX cv.d x1 y1 (-x2) y2) (addY cv.a cv.d x1 y1 (-x2) y2) := by
  obtain ⟨d1, d2⟩ := hc.dens h1 (onCurve_neg h2)
  exact (sub_extnd_correct cv r p q x1 y1 x2 y2 hp hq hb d1 d2).1

/-- ed_sub_extnd in the builds without the fourth coordinate (repaired finding C17-F6) -/
theorem sub_extnd_prj (cv : EdC F) (hc : Complete cv) (r p q : EPt F) (x1 y1 x2 y2 : F)
    (hp : RepT p x1 y1) (hq : RepT q x2 y2) (hb : BasicZ1 q) (h1 : OnCurve cv x1 y1) (h2 : OnCurve cv x2 y2) :
    RepT (EdP.ed_sub_extnd fieldOps cv r p q) (addX cv.d x1 y1 (-x2) y2) (addY cv.a cv.d x1 y1 (-x2) y2) := by
  obtain ⟨d1, d2⟩ := hc.dens h1 (onCurve_neg h2)
  exact (sub_extnd_correct_prj cv r p q x1 y1 x2 y2 hp hq hb d1 d2).1

/-- ed_neg_basic of a normalised point: a normalised representation of −P (repaired finding C17-F7: z is copied) -/
theorem neg_basic (cv : EdC F) (r p : EPt F) (x y : F) (hc : p.coord = .basic) (hp : Rep p x y) (hb : BasicZ1 p) :
    Rep (Ed.ed_neg_basic fieldOps cv r p) (-x) y ∧ BasicZ1 (Ed.ed_neg_basic fieldOps cv r p) :=
  neg_basic_rep cv r p x y hc hp hb

/-- ed_norm: affine coordinates of the denoted point, z = 1, T = xy -/
theorem norm (cv : EdC F) (r p : EPt F) (x y : F) (hp : RepT p x y) (hb : BasicZ1 p) :
    let s := Ed.ed_norm fieldOps cv r p
    s.x = x ∧ s.y = y ∧ s.z = 1 ∧ s.t = x * y := by
  obtain ⟨a, b, c, t, _⟩ := norm_correct cv r p x y hp.1 hb
  exact ⟨a, b, c, t hp.2⟩

/-- ed_cmp of two representations: RLC_EQ exactly when they denote the same affine point (cross-multiplication
    = equality of the affine points) -/
theorem cmp (cv : EdC F) (p q : EPt F) (x1 y1 x2 y2 : F) (hp : RepT p x1 y1) (hq : RepT q x2 y2)
    (hbp : BasicZ1 p) (hbq : BasicZ1 q) :
    edCmp fieldOps true (fun a => Ed.ed_norm fieldOps cv a a) p q = true ↔ (x1 = x2 ∧ y1 = y2) :=
  cmp_correct cv true p q x1 y1 x2 y2 hp.1 hq.1 hbp hbq (fun _ _ _ => ⟨hp.2, hq.2⟩)

/-! ### group axioms of the affine law on the curve (all but associativity) -/

theorem law_neutral (cv : EdC F) (x y : F) :
    OnCurve cv 0 1 ∧ addX cv.d x y 0 1 = x ∧ addY cv.a cv.d x y 0 1 = y :=
  ⟨neutral_onCurve cv.a cv.d, (add_neutral cv.a cv.d x y).1, (add_neutral cv.a cv.d x y).2⟩

theorem law_inverse (cv : EdC F) (hc : Complete cv) (x y : F) (h : OnCurve cv x y) :
    addX cv.d x y (-x) y = 0 ∧ addY cv.a cv.d x y (-x) y = 1 :=
  add_neg cv.a cv.d x y h (hc.dens h (onCurve_neg h)).2

theorem law_comm (cv : EdC F) (x1 y1 x2 y2 : F) :
    addX cv.d x1 y1 x2 y2 = addX cv.d x2 y2 x1 y1 ∧ addY cv.a cv.d x1 y1 x2 y2 = addY cv.a cv.d x2 y2 x1 y1 :=
  add_comm_law cv.a cv.d x1 y1 x2 y2

/-! ### scalar multiplications: every routine returns [k]P (k·P + m·Q) for every integer k, in any additive commutative group -/
section Mul
open Relic.Model Relic.Model.MulAlg Relic.Model.EdMul

variable {G : Type} [AddCommGroup G]

/-- ed_mul_basic and ed_mul_monty: every integer k, every point (no reduction, recoding sized by the scalar) -/
theorem mul_basic_monty (isO : G → Bool) (hO : IsOSound isO) (p : G) (k : ℤ) :
    mulBasic gops isO p k = some (k • p) ∧ mulMonty gops isO p k = some (k • p) :=
  ⟨mulBasic_correct isO hO p k, mulMonty_correct isO hO p k⟩

/-- ed_mul_lwnaf, ed_mul_slide, ed_mul_lwreg on the prime-order subgroup: total, and [k]P for EVERY integer k (longer than r,
    negative, multiples of r, … included) -/
theorem mul_variable_base (isO : G → Bool) (hO : IsOSound isO) (par : Par) (hok : par.Ok) (hw : 3 ≤ par.width)
    (p : G) (hp : (par.ord : ℤ) • p = 0) (k : ℤ) :
    mulLwnaf gops isO par p k = some (k • p) ∧ EdMul.mulSlide gops isO par p k = some (k • p) ∧
    mulLwreg gops isO par p k = some (k • p) :=
  ⟨mulLwnaf_correct isO hO par hok (by omega) p hp k, mulSlide_correct isO hO par hok (by omega) p hp k,
    mulLwreg_correct isO hO par hok hw p hp k⟩

/-- ed_mul_fix_basic, ed_mul_fix_lwnaf, ed_mul_fix_combs (hence ed_mul_fix / ed_mul_gen of those methods): total, [k]P for every k -/
theorem mul_fixed_base (par : Par) (hok : par.Ok) (hd : 2 ≤ par.depth) (p : G) (hp : (par.ord : ℤ) • p = 0) (k : ℤ) :
    EdMul.mulFixBasic gops par p k = some (k • p) ∧ mulFixLwnaf gops par p k = some (k • p) ∧
    mulFixCombs gops par p k = some (k • p) :=
  ⟨mulFixBasic_correct par hok p hp k, mulFixLwnaf_correct par hok hd p hp k, mulFixCombs_correct par hok (by omega) p hp k⟩

/-- ed_mul_sim_basic / trick / inter / joint and the generator-table branch of ed_mul_sim_gen: total, k·P + m·Q for all k, m
    (`mul` = the configured ed_mul, used by the early exits) -/
theorem mul_sim (isO : G → Bool) (hO : IsOSound isO) (par : Par) (hok : par.Ok) (hw : 2 ≤ par.width) (hd : 2 ≤ par.depth)
    (mul : G → ℤ → Option G) (p : G) (k : ℤ) (q : G) (m : ℤ)
    (hp : (par.ord : ℤ) • p = 0) (hq : (par.ord : ℤ) • q = 0)
    (hmp : mul p k = some (k • p)) (hmq : mul q m = some (m • q)) :
    simBasic gops mul p k q m = some (k • p + m • q) ∧
    EdMul.simTrick gops isO par mul p k q m = some (k • p + m • q) ∧
    EdMul.simInter gops isO par mul p k q m = some (k • p + m • q) ∧
    EdMul.simJoint gops isO par mul p k q m = some (k • p + m • q) ∧
    simPlainGen gops par p k q m = some (k • p + m • q) :=
  ⟨simBasic_correct mul p k q m hmp hmq, simTrick_correct isO hO par hok hw mul p k q m hp hq hmp hmq,
    simInter_correct isO hO par hok hw mul p k q m hp hq hmp hmq, simJoint_correct isO hO par hok mul p k q m hp hq hmp hmq,
    simPlainGen_correct par hok hw hd p k q m hp hq⟩

/-- ed_mul_pre_combd + ed_mul_fix_combd (double-table comb; Model/EdMul.lean `mulFixCombd` = the shared models `tabCombd`,
    `mulCombd` of Model/EpMul.lean with the constants dd = ⌈bits(r)/depth⌉, e = ⌈dd/2⌉ of the C code): total, [k]P for every
    integer k, every depth ≥ 1 — corollary of C03.mul_fix_combd_correct -/
theorem mul_fix_combd (par : Par) (hok : par.Ok) (hd : 1 ≤ par.depth) (p : G) (hp : (par.ord : ℤ) • p = 0) (k : ℤ) :
    mulFixCombd gops par p k = some (k • p) :=
  mulFixCombd_correct par hok hd p hp k

/-- ed_mul_sim_lot: total and Σ kᵢ • Pᵢ for EVERY list of (point, scalar) pairs: any number of points (also none), scalars of
    any sign and length (the routine does not reduce them, hence no hypothesis on the points) — corollary of
    C03.mul_sim_lot_plain_correct plus the totality of the recoding at capacity max bits + 1 -/
theorem mul_sim_lot (pks : List (G × ℤ)) :
    simLot gops pks = some ((pks.map fun pk => pk.2 • pk.1).sum) :=
  simLot_correct pks

/-- ed_mul_dig: total, [k]P for every digit k < 2^w and every point (recoding buffer of w + 1 entries) -/
theorem mul_dig (isO : G → Bool) (hO : IsOSound isO) (w : Nat) (p : G) (k : Nat) (hk : k < 2 ^ w) :
    mulDig gops isO w p k = some ((k : ℤ) • p) :=
  mulDig_correct isO hO w p k hk

/-- the dispatch of ed_mul_gen and ed_mul_sim_gen (early exits k = 0, m = 0 ∨ Q = O; generator-table branch or ed_mul_sim) is right
    whenever the routines it calls are (those are `mul_variable_base`, `mul_fixed_base`, `mul_fix_combd`, `mul_sim`) -/
theorem mul_gen_dispatch (isO : G → Bool) (hO : IsOSound isO) (mul fix : G → ℤ → Option G) (sim : G → ℤ → G → ℤ → Option G)
    (plain : Option (G → ℤ → G → ℤ → Option G)) (g : G) (k : ℤ) (q : G) (m : ℤ)
    (hmul : mul q m = some (m • q)) (hfix : fix g k = some (k • g)) (hsim : sim g k q m = some (k • g + m • q))
    (hplain : ∀ f, plain = some f → f g k q m = some (k • g + m • q)) :
    mulGen gops fix g k = some (k • g) ∧ simGen gops isO mul fix sim plain g k q m = some (k • g + m • q) :=
  ⟨mulGen_correct fix g k hfix, simGen_correct isO hO mul fix sim plain g k q m hmul hfix hsim hplain⟩

/-- the hypotheses are satisfiable (ℤ/7ℤ is killed by 7 < 2^255) and the routines compute (−153 mod 7 = 1) -/
example : (⟨255, 4, 5, 7⟩ : Par).Ok ∧ ((7 : ℕ) : ℤ) • (1 : ZMod 7) = 0 :=
  ⟨⟨by decide, by norm_num⟩, by decide⟩
example : mulLwnaf (gops : Ops ℤ) (fun x => x == 0) ⟨255, 4, 5, 7⟩ 1 (-153) = some 1 := by decide
example : mulFixCombd (gops : Ops ℤ) ⟨255, 4, 2, 7⟩ 1 (-153) = some 1 := by decide
example : simLot (gops : Ops ℤ) [(1, -153), (10, 7), (100, 0)] = some (-83) := by decide

end Mul

/-! ### encodings (ed_read_bin / ed_write_bin / ed_pck / ed_upk) -/
section Conv
open Relic.Model.EdConv
open Relic.Spec.Edwards (Point onCurve neutral)

/-- decoding accepts only curve points in canonical form, of the three advertised shapes -/
theorem decode_valid (x : Ctx) (hp : 1 < x.c.p) (bin : Bytes) (P : Point) (h : readBin x bin = some P) :
    onCurve x.c P = true ∧
    (bin.length = 1 ∨ bin.length = x.nb + 1 ∨ bin.length = 2 * x.nb + 1) := by
  refine ⟨readBin_valid x hp bin P h, ?_⟩
  rcases readBin_shape x bin P h with ⟨rfl, _⟩ | ⟨hl, _⟩ | ⟨hl, _⟩
  · exact .inl rfl
  · exact .inr (.inl hl)
  · exact .inr (.inr hl)

/-- decode ∘ encode = id on curve points, compressed or not -/
theorem decode_encode (x : Ctx) (hprime : Nat.Prime x.c.p) (hodd : x.c.p % 2 = 1) (hnb : x.c.p ≤ 256 ^ x.nb)
    (hnb0 : 0 < x.nb) (hs : SrtSound x) (hc : SrtComplete x) (hi : InvSound x) (hR : RUnit x) (hden : DenNonzero x)
    (P : Point) (hP : onCurve x.c P = true) (pack : Bool) (b : Bytes)
    (h : writeBin x (sizeBin x P pack) P pack = some b) : readBin x b = some P :=
  readBin_writeBin x hprime hodd hnb hnb0 hs hc hi hR hden P hP pack b h

/-- encode ∘ decode = id on the accepted strings, except for the two redundant forms of the format -/
theorem encode_decode (x : Ctx) (hprime : Nat.Prime x.c.p) (hodd : x.c.p % 2 = 1) (hnb : x.c.p ≤ 256 ^ x.nb)
    (hs : SrtSound x) (hR : RUnit x) (bin : Bytes) (P : Point) (h : readBin x bin = some P)
    (hne : bin.length ≠ 1 → P ≠ neutral x.c) (hx0 : bin.length = x.nb + 1 → P.1 ≠ 0) :
    writeBin x bin.length P (bin.length = x.nb + 1) = some bin :=
  writeBin_readBin x hprime hodd hnb hs hR bin P h hne hx0

/-- ed_upk ∘ ed_pck = id on curve points -/
theorem unpack_pack (x : Ctx) (hprime : Nat.Prime x.c.p) (hodd : x.c.p % 2 = 1) (hs : SrtSound x) (hc : SrtComplete x)
    (hi : InvSound x) (hR : RUnit x) (hden : DenNonzero x) (P : Point) (hP : onCurve x.c P = true) :
    upk x (pck x P).2 (pck x P).1 = some P :=
  upk_pck x hprime hodd hs hc hi hR hden P hP

end Conv

end Relic.Props.C17
