/- C17 — placeholder while the slice is being built -/
import RelicVerif.Spec.Edwards
import RelicVerif.Model.EdConv

namespace Relic.Props.C17
end Relic.Props.C17
