/- C09 extension (Smb family): theorems model = specification. -/

namespace Relic.Props.C09

end Relic.Props.C09
