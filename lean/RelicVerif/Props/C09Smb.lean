/- C09 extension (Smb family): theorems model = specification. -/
import RelicVerif.Lemmas.NtSmb
import RelicVerif.Lemmas.NtSmbPrime
import RelicVerif.Lemmas.NtSmbPrime2
import RelicVerif.Lemmas.NtSmbInner
import RelicVerif.Lemmas.NtSmbTrue

namespace Relic.Props.C09
open Relic.Model

/-- The single-digit binary loop of bn_smb_jac (the `i == 1` path: swap with `t ^= n & d`, subtract and halve with
    `t ^= d ^ (d >> 1)`, strip `z` trailing zeros with `t ^= (d ^ (d >> 1)) & (z << 1)`, final `d == 1 ? 1 - (t & 2) : 0`),
    stated on unbounded naturals: for every n, every ODD d and every starting word t the result is
    (-1)^(bit 1 of t) · (n / d) — Mathlib's Jacobi symbol. -/
theorem smb_jac_single_exact (n d t : ℕ) (hd : d % 2 = 1) :
    NtSmb.jacSingle n d t = (if t.testBit 1 then -1 else 1) * jacobiSym (n : ℤ) d :=
  Relic.Lemmas.NtSmb.jacSingle_eq n d t hd

/-- with the initial t = 0 of bn_smb_jac: the loop returns the Jacobi symbol itself -/
theorem smb_jac_single_exact_zero (n d : ℕ) (hd : d % 2 = 1) : NtSmb.jacSingle n d 0 = jacobiSym (n : ℤ) d := by
  rw [smb_jac_single_exact n d 0 hd]; simp

/- Full statement (NOT proved; what is missing is the multi-digit reduction step: that the 2x2 matrix accumulated on the
   approximations moves the TRUE pair (t0, t1) by the same elementary moves — swap / subtract / halve — up to the sign of the
   results, with the t updates read from low bits that agree with the true ones, that the combination is exactly divisible by 2^s,
   that `t ^= t1->dp[0]` accounts for (-1 / t1) when t0 came out negative, and termination of the outer loop; the no-wrap bound of the
   cofactors and det = ± 2^s ARE proved: smb_jac_inner_matrix below; so are the parity agreement, the exact divisibility by 2^s and the sign-repair
   identity: smb_jac_inner_true, smb_jac_combination_exact, smb_jac_sign_repair.  OPEN: the true pair is never negative in both components at a
   swap — needed for the reciprocity update on signed residues —, the assembly, and termination):

   theorem smb_jac_exact (w : ℕ) (a b : ℤ) (hw : 8 ≤ w) (hb : 0 < b) (hodd : b % 2 = 1) :
       NtSmb.jac w a b = some (jacobiSym a b.toNat)
-/

/-- bn_smb_jac (the whole model: a mod b, outer loop, single-digit path) returns the Jacobi symbol (a / b) for every integer a and
    every odd positive b that fits one digit of width w. -/
theorem smb_jac_exact_partial (w : ℕ) (a b : ℤ) (hw : 0 < w) (hb : 0 < b) (hodd : b % 2 = 1) (hlt : b < 2 ^ w) :
    NtSmb.jac w a b = some (jacobiSym a b.toNat) :=
  Relic.Lemmas.NtSmb.jac_one_digit w a b hw hb hodd hlt

/-- the error test is exactly "b even or negative" -/
theorem smb_jac_err_iff (b : ℤ) : NtSmb.jacErr b = true ↔ (b % 2 = 0 ∨ b < 0) := by
  simp [NtSmb.jacErr]

example : (0 : ℤ) < 15 ∧ (15 : ℤ) % 2 = 1 ∧ (15 : ℤ) < 2 ^ 8 := by decide

/-- the square-and-multiply used for bn_mxp inside the model is the mathematical power -/
theorem prime_rabin_powMod (b e n : ℕ) : NtSmbPrime.powMod b e n = b ^ e % n :=
  Relic.Lemmas.NtSmbPrime.powMod_eq b e n

/-- bn_is_prime_rabin accepts EVERY prime (no further hypothesis: the primes that occur among the bases, and the primes below them,
    are accepted through the early exit `base ≥ n - 1`, all others by Fermat + "the square roots of 1 in a field are ±1"). -/
theorem prime_rabin_complete (n : ℕ) (hp : n.Prime) : NtSmbPrime.rabin (n : ℤ) = true :=
  Relic.Lemmas.NtSmbPrime.rabin_prime n hp

/-- inputs below 2 and even inputs other than 2 are rejected -/
theorem prime_rabin_small (a : ℤ) (h : a < 2 ∨ (a ≠ 2 ∧ a % 2 = 0)) : NtSmbPrime.rabin a = false := by
  unfold NtSmbPrime.rabin
  rcases h with h | ⟨h1, h2⟩
  · simp [h]
  · by_cases h0 : a < 2
    · simp [h0]
    · simp [h0, h1, h2]

/-- the table transcribed in Model/NtSmbPrimeTab.lean consists of numbers ≥ 2 and its first 48 entries are the bases table of the Rabin model -/
theorem prime_table_facts : (∀ p ∈ NtSmbPrime.primesAll, 2 ≤ p) ∧ NtSmbPrime.primesTab = NtSmbPrime.primesAll.take 48 :=
  ⟨Relic.Lemmas.NtSmbPrime.primesAll_ge_two, Relic.Lemmas.NtSmbPrime.primesTab_eq_take⟩

/-- bn_is_prime_basic (trial division by the whole table, either word size) accepts every prime -/
theorem prime_basic_complete (w n : ℕ) (hp : n.Prime) : NtSmbPrime.basic w (n : ℤ) = true :=
  Relic.Lemmas.NtSmbPrime.basic_prime w n hp

/-- a rejection by bn_is_prime_basic is always right: for n ≥ 2 it exhibits a proper divisor -/
theorem prime_basic_reject_sound (w n : ℕ) (hn : 2 ≤ n) (h : NtSmbPrime.basic w (n : ℤ) = false) : ∃ p, 2 ≤ p ∧ p < n ∧ p ∣ n :=
  Relic.Lemmas.NtSmbPrime.basic_reject w n hn h

/-- bn_is_prime (trial division, then Miller–Rabin) accepts every prime -/
theorem prime_isprime_complete (w n : ℕ) (hp : n.Prime) : NtSmbPrime.isPrime w (n : ℤ) = true :=
  Relic.Lemmas.NtSmbPrime.isPrime_prime w n hp

/-- bn_is_prime_solov accepts every prime n > 2 WHATEVER the bases are (any list of bases in (0, n), any length), provided the symbol
    function J (bn_smb_jac in the code) returns the Jacobi symbol for the modulus n — Euler's criterion. -/
theorem prime_solov_complete (n : ℕ) (hp : n.Prime) (hn : 2 < n) (J : ℤ → ℤ → ℤ) (hJ : ∀ t : ℕ, J t n = jacobiSym (t : ℤ) n)
    (bases : List ℕ) (hb : ∀ t ∈ bases, 0 < t ∧ t < n) : NtSmbPrime.solov J n bases = true :=
  Relic.Lemmas.NtSmbPrime.solov_prime hp hn J hJ bases hb

/-- with the model of bn_smb_jac plugged in: unconditional for primes that fit one digit (for longer primes the hypothesis of
    `prime_solov_complete` is the open statement `smb_jac_exact`) -/
theorem prime_solov_complete_one_digit (w n : ℕ) (hw : 0 < w) (hp : n.Prime) (hn : 2 < n) (hlt : n < 2 ^ w)
    (bases : List ℕ) (hb : ∀ t ∈ bases, 0 < t ∧ t < n) :
    NtSmbPrime.solov (fun t m => (NtSmb.jac w t m).getD 0) n bases = true := by
  apply prime_solov_complete n hp hn _ _ bases hb
  intro t
  have hodd : n % 2 = 1 := by
    rcases hp.eq_two_or_odd with h | h
    · omega
    · exact h
  have := smb_jac_exact_partial w (t : ℤ) (n : ℤ) hw (by exact_mod_cast hp.pos) (by exact_mod_cast hodd) (by exact_mod_cast hlt)
  simp only [this, Option.getD_some, Int.toNat_natCast]

/-- The approximation loop of bn_smb_jac never wraps and records a 2^s-unimodular matrix: for every digit width w ≥ 4, every approximation
    pair (n, d) and every t, after the s = w/2 - 2 steps from the identity all four cofactors lie in [-2^s, 2^s] (so every `(dig_t)ci << z`,
    `ci += ci`, `ai - ci` is exact in dis_t) and ai·di - bi·ci = ± 2^s.  (General form for any start state: Lemmas/NtSmbInner.inner_matrix.) -/
theorem smb_jac_inner_matrix (w n d t : ℕ) (hw : 4 ≤ w) :
    let st := NtSmb.inner w (w / 2 - 2) (w / 2 - 2) { n := n, d := d, t := t, ai := 1, bi := 0, ci := 0, di := 1, swapped := false }
    (-(2 : ℤ) ^ (w / 2 - 2) ≤ st.ai ∧ st.ai ≤ 2 ^ (w / 2 - 2) ∧ -(2 : ℤ) ^ (w / 2 - 2) ≤ st.bi ∧ st.bi ≤ 2 ^ (w / 2 - 2) ∧
     -(2 : ℤ) ^ (w / 2 - 2) ≤ st.ci ∧ st.ci ≤ 2 ^ (w / 2 - 2) ∧ -(2 : ℤ) ^ (w / 2 - 2) ≤ st.di ∧ st.di ≤ 2 ^ (w / 2 - 2)) ∧
    (st.ai * st.di - st.bi * st.ci = 2 ^ (w / 2 - 2) ∨ st.ai * st.di - st.bi * st.ci = -2 ^ (w / 2 - 2)) :=
  Relic.Lemmas.NtSmb.inner_from_identity w n d t hw

/-- PARITY AGREEMENT + EXACT DIVISIBILITY, general form: if the cofactors are within ±2^k, the combinations of the true pair (X, Y) equal
    2^k·(n - 2^m c), 2^k·(d - 2^m e) (the approximation words agree with the true values in their low m bits) and i ≤ m steps are made
    (k + i + 2 ≤ w), then afterwards the combinations equal 2^(k+i)·(n' - 2^(m-i) c'), 2^(k+i)·(d' - 2^(m-i) e'): divisible by the power of two
    consumed, quotients agreeing with the new approximation words in the low m - i bits; d' stays odd. -/
theorem smb_jac_inner_true (w : ℕ) (X Y : ℤ) (fuel i k m : ℕ) (st : NtSmb.Inner) (hf : i ≤ fuel) (hw : k + i + 2 ≤ w) (him : i ≤ m)
    (hb : Relic.Lemmas.NtSmb.Bd (2 ^ k) st) (hinv : Relic.Lemmas.NtSmb.TInv X Y k m st) :
    Relic.Lemmas.NtSmb.Bd (2 ^ (k + i)) (NtSmb.inner w fuel i st) ∧ Relic.Lemmas.NtSmb.TInv X Y (k + i) (m - i) (NtSmb.inner w fuel i st) :=
  Relic.Lemmas.NtSmb.inner_true w X Y fuel i k m st hf hw him hb hinv

/-- One outer iteration of bn_smb_jac on a true pair (t0, t1) with t1 odd (w ≥ 4): with (n, d) = the approximation words the model builds
    (`approx`: exact low half digit) and st = the state after the s = w/2 - 2 steps,
      ai·t0 + bi·t1 = 2^s · (st.n - 2^(w/2 - s)·c)   and   ci·t0 + di·t1 = 2^s · (st.d - 2^(w/2 - s)·e),   st.d odd:
    both combinations are EXACTLY divisible by 2^s (the bn_rsh by s loses nothing) and the quotients — the next true pair up to sign —
    agree with the final approximation words modulo 2^(w/2 - s) = 4 (w even); in particular the next t1 is odd. -/
theorem smb_jac_combination_exact (w t0 t1 i t : ℕ) (hw : 4 ≤ w) (h1 : t1 % 2 = 1) :
    let st := NtSmb.inner w (w / 2 - 2) (w / 2 - 2)
      { n := (NtSmb.approx w t0 t1 i).1, d := (NtSmb.approx w t0 t1 i).2.1, t := t, ai := 1, bi := 0, ci := 0, di := 1, swapped := false }
    ∃ c e : ℤ, st.ai * (t0 : ℤ) + st.bi * (t1 : ℤ) = 2 ^ (w / 2 - 2) * ((st.n : ℤ) - 2 ^ (w / 2 - (w / 2 - 2)) * c) ∧
               st.ci * (t0 : ℤ) + st.di * (t1 : ℤ) = 2 ^ (w / 2 - 2) * ((st.d : ℤ) - 2 ^ (w / 2 - (w / 2 - 2)) * e) ∧ st.d % 2 = 1 :=
  Relic.Lemmas.NtSmb.outer_combination w t0 t1 i t hw h1

/-- the approximation words carry the exact low half digit of the true values -/
theorem smb_jac_approx_low (w t0 t1 i : ℕ) :
    (NtSmb.approx w t0 t1 i).1 % 2 ^ (w / 2) = t0 % 2 ^ (w / 2) ∧ (NtSmb.approx w t0 t1 i).2.1 % 2 ^ (w / 2) = t1 % 2 ^ (w / 2) :=
  Relic.Lemmas.NtSmb.approx_low w t0 t1 i

/-- SIGN REPAIR: for odd d and digit width ≥ 2, (-x / d) = (-1)^(bit 1 of d mod 2^w) · (x / d) — what `t ^= t1->dp[0]` records when t0 came
    out negative (and negating t1 needs no record since the symbol is taken with |t1|). -/
theorem smb_jac_sign_repair (w : ℕ) (hw : 2 ≤ w) (x : ℤ) (d : ℕ) (hd : d % 2 = 1) :
    jacobiSym (-x) d = (if (d % 2 ^ w).testBit 1 then -1 else 1) * jacobiSym x d :=
  Relic.Lemmas.NtSmb.jac_neg_lowdigit w hw x hd

end Relic.Props.C09
