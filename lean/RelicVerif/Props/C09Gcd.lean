/-
C09 extension (Gcd family): the value-level models of Model/NtGcd.lean (which mirror the loops of src/bn/relic_bn_gcd.c,
relic_bn_lcm.c, relic_bn_inv.c and are executed by the driver against the library on every presented line, cofactors included)
return the mathematically defined values for ALL integers.
-/
import RelicVerif.Lemmas.NtGcdD
import RelicVerif.Lemmas.NtLehmer
import RelicVerif.Lemmas.NtGcdMid

namespace Relic.Props.C09
open Relic.Model.NtGcd Relic.Lemmas.NtGcd

/-- bn_gcd_basic (= bn_gcd in the verified configuration): Euclid's loop returns gcd(a, b) ≥ 0 for all integers incl. zero / negative -/
theorem gcd_basic_exact (a b : Int) : gcdBasic a b = (Int.gcd a b : Int) := gcdBasic_eq a b

/-- bn_gcd_binar (Stein): common power of two, halving loops, subtract-and-halve: = gcd(a, b) for all integers -/
theorem gcd_binar_exact (a b : Int) : gcdBinar a b = (Int.gcd a b : Int) := gcdBinar_eq a b

/-- bn_gcd_dig: the second operand is one digit (any natural number here); the non-negative remainder, then the digit loop -/
theorem gcd_dig_exact (a : Int) (b : Nat) : gcdDig a b = (Int.gcd a b : Int) := gcdDig_eq a b

/-- bn_gcd_ext_basic with bn_gcd_ext_sign: (c, d, e) with c = gcd(a, b) ≥ 0 and a·d + b·e = c for ALL integers a, b -/
theorem gcd_ext_basic_exact (a b : Int) :
    (gcdExtBasic a b).1 = (Int.gcd a b : Int) ∧
    a * (gcdExtBasic a b).2.1 + b * (gcdExtBasic a b).2.2 = (gcdExtBasic a b).1 := gcdExtBasic_spec a b

/-- the first cofactor of bn_gcd_ext_basic is small: 2·|d| ≤ |b| (this is what makes bn_mod_inv's single correction enough) -/
theorem gcd_ext_basic_cofactor_bound (a b : Int) (ha : a ≠ 0) (hb : b ≠ 0) :
    -(b.natAbs : Int) ≤ 2 * (gcdExtBasic a b).2.1 ∧ 2 * (gcdExtBasic a b).2.1 ≤ (b.natAbs : Int) := gcdExtBasic_dbound a b ha hb

/-- bn_gcd_ext_dig: one multi-precision division step, then the single-digit loop: gcd and Bezout identity -/
theorem gcd_ext_dig_exact (a : Int) (b : Nat) :
    (gcdExtDig a b).1 = (Int.gcd a b : Int) ∧
    a * (gcdExtDig a b).2.1 + (b : Int) * (gcdExtDig a b).2.2 = (gcdExtDig a b).1 := gcdExtDig_spec a b

/-- bn_gcd_ext_binar at full strength: for ALL integers a, b the model returns (every loop ends within the supplied fuel: strip
loop, main loop, and the final cofactor-reduction loop "Now fix reciprocals", whose fuel |C| + 2 is proved sufficient: a round
with |C| > ⌊y'/2⌋ strictly decreases |C|, a round with |C| ≤ ⌊y'/2⌋ < … is possible only for y' = 2, C = −1 and is the last one),
c = gcd(a, b) ≥ 0 and a·d + b·e = c -/
theorem gcd_ext_binar_exact (a b : Int) :
    ∃ c d e, gcdExtBinar a b = some (c, d, e) ∧ c = (Int.gcd a b : Int) ∧ a * d + b * e = c := gcdExtBinar_full a b

/-- the cofactor-reduction loop of bn_gcd_ext_binar terminates: fuel |C| + 2 suffices whenever C·x + D·y = 1, x, y > 0 -/
theorem gcd_ext_binar_fix_loop_total (x y : Int) (hx : 0 < x) (hy : 0 < y) (C D : Int) (hbez : C * x + D * y = 1) :
    ∃ r, extBinarFix x y (hlv x) (hlv y) (C.natAbs + 2) C D = some r :=
  extBinarFix_total x y hx hy (C.natAbs + 2) C D hbez (le_refl _)

/-- (kept; subsumed by gcd_ext_binar_exact) whenever the model returns, c = gcd(a, b) ≥ 0 and a·d + b·e = c -/
theorem gcd_ext_binar_exact_partial (a b c d e : Int) (h : gcdExtBinar a b = some (c, d, e)) :
    c = (Int.gcd a b : Int) ∧ a * d + b * e = c := gcdExtBinar_spec a b c d e h

/-- bn_lcm: |a·b| / gcd(a, b) computed as (larger operand)·(smaller / gcd); lcm(0, 0) is refused (division by zero) -/
theorem lcm_exact (a b : Int) (h : ¬(a = 0 ∧ b = 0)) : lcm a b = some (Int.lcm a b : Int) := lcm_eq a b h

theorem lcm_zero_zero_refused : lcm 0 0 = none := Relic.Lemmas.NtGcd.lcm_zero_zero

/-- bn_mod_inv: for every modulus b > 1 and every integer a: an error exactly when gcd(a, b) ≠ 1, otherwise THE inverse in [0, b) -/
theorem mod_inv_exact (a b : Int) (hb : 1 < b) :
    (∀ c, modInv a b = some c → 0 ≤ c ∧ c < b ∧ (a * c) % b = 1) ∧ (modInv a b = none ↔ Int.gcd a b ≠ 1) :=
  modInv_spec a b hb

/-- bn_mod_inv_sim (Montgomery's trick: prefix products, one inversion, backward pass): every output is the reduced inverse
of the corresponding input -/
theorem mod_inv_sim_exact (as : List Int) (b : Int) (hb : 1 < b) (l : List Int) (h : modInvSim as b = some l) :
    List.Forall₂ (fun x y => (x * y) % b = 1 ∧ 0 ≤ y ∧ y < b) as l := modInvSim_spec as b hb l h

/-
Lehmer's gcd (bn_gcd_lehme, bn_gcd_ext_lehme; Model/NtLehmer.lean, W = digit width).  Full statements:
  ∀ a b, gcdLehme W a b = some (gcd(a, b))   and   ∀ a b, ∃ d e, gcdExtLehme W a b = some (gcd(a, b), d, e) ∧ a·d + b·e = gcd(a, b).
Proved below without the existence part ("whenever the model returns").  The model returns `none` when a simulated cofactor
leaves the dis_t range, when a combined value becomes negative, or when the outer loop's fuel runs out; that none of these happens
(Lehmer's quotient-agreement analysis) is observed on every presented line — the driver then prints `model-overflow-or-fuel`,
which no library output equals — not proved.  What IS proved: the simulated 2×2 matrix is unimodular after every step, applying it
keeps the gcd, the extended variant's single tracked cofactor satisfies x ≡ t4·Y₀ (mod X₀) and the final exact division
recovers the other one.
-/
/-- bn_gcd_lehme: whenever the model returns, the result is gcd(a, b), for all integers and every digit width -/
theorem gcd_lehme_exact_partial (W : Nat) (a b c : Int) (h : Relic.Model.NtLehmer.gcdLehme W a b = some c) :
    c = (Int.gcd a b : Int) := Relic.Lemmas.NtLehmer.gcdLehme_spec W a b c h

/-- bn_gcd_ext_lehme: whenever the model returns, c = gcd(a, b) and a·d + b·e = c, for all integers and every digit width -/
theorem gcd_ext_lehme_exact_partial (W : Nat) (a b c d e : Int) (h : Relic.Model.NtLehmer.gcdExtLehme W a b = some (c, d, e)) :
    c = (Int.gcd a b : Int) ∧ a * d + b * e = c := Relic.Lemmas.NtLehmer.gcdExtLehme_spec W a b c d e h

/-- the cofactor matrix simulated on single digits is unimodular (det = ±1) after any number of steps, and a unimodular
combination of (x, y) has the same gcd -/
theorem lehmer_matrix_keeps_gcd (m : Relic.Model.NtLehmer.Mat) (hm : Relic.Lemmas.NtLehmer.Unimod m) (x y : Int) :
    Int.gcd (x * m.a + y * m.b) (x * m.c + y * m.d) = Int.gcd x y := Relic.Lemmas.NtLehmer.gcd_unimod m hm x y

theorem lehmer_simulation_unimodular (W xd yd : Nat) (m m' : Relic.Model.NtLehmer.Mat)
    (h : Relic.Model.NtLehmer.simPass W xd yd m = some m') (hm : Relic.Lemmas.NtLehmer.Unimod m) :
    Relic.Lemmas.NtLehmer.Unimod m' := Relic.Lemmas.NtLehmer.simPass_unimod W xd yd m m' h hm

/-- bn_gcd_ext_mid (extended Euclid stopped halfway, the source of the GLV lattice basis): for a, b ≠ 0 the model returns, and both
output vectors (c, d), (e, f) lie in the lattice {(x, y) : x + y·v0 ≡ 0 (mod u0)}, (u0, v0) = (larger, smaller magnitude of a, b) — for
every prior content of the outputs that lies in the lattice (the C code leaves outputs unwritten on some paths; the harness passes zeros).
Shortness of the vectors is not proved (C18 checks the decomposition they give per curve). -/
theorem gcd_ext_mid_lattice (c0 d0 e0 f0 a b : Int) (ha : a ≠ 0) (hb : b ≠ 0) (u0 v0 : Int)
    (hu : u0 = if a.natAbs > b.natAbs then (a.natAbs : Int) else (b.natAbs : Int))
    (hv : v0 = if a.natAbs > b.natAbs then (b.natAbs : Int) else (a.natAbs : Int))
    (h0 : u0 ∣ c0 + d0 * v0) (h1 : u0 ∣ e0 + f0 * v0) :
    ∃ c d e f, Relic.Model.NtGcdMid.gcdExtMid c0 d0 e0 f0 a b = some (c, d, e, f) ∧ u0 ∣ c + d * v0 ∧ u0 ∣ e + f * v0 :=
  Relic.Lemmas.NtGcdMid.gcdExtMid_spec c0 d0 e0 f0 a b ha hb u0 v0 hu hv h0 h1

example : Relic.Model.NtGcdMid.gcdExtMid 0 0 0 0 1000 97 = some (30, 10, 7, -31) := by decide +kernel

/-- non-vacuity: the models run (exact cofactors as the library prints them) -/
example : gcdExtBasic (-12) 18 = (6, 1, 1) := by decide
example : gcdExtBinar 12 (-18) = some (6, -1, -1) := by decide
example : gcdBinar 48 (-36) = 12 := by decide
example : modInv 3 7 = some 5 := by decide
example : (Relic.Model.NtLehmer.gcdExtLehme 8 0x1234567 (-0xfedcb)).isSome = true := by decide +kernel
example : (Relic.Model.NtLehmer.gcdLehme 8 0x1234567 0xfedcb).isSome = true := by decide +kernel
example : modInvSim [3, 5, 6] 7 = some [5, 3, 6] := by decide

end Relic.Props.C09
