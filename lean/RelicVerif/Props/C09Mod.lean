/- C09 extension (Mod family): theorems model = specification. -/
import RelicVerif.Lemmas.NtMod

namespace Relic.Props.C09
open Relic.Model.NtMod

/-- bn_srt (binary search as coded, Model.NtMod.bnSrt): for every a ≥ 0 the loop terminates within the fuel the model supplies
    (the result is `some`, never the fuel-exhausted `none`) and returns the floor square root. -/
theorem srt_exact (a : Nat) : bnSrt (a : Int) = some (Nat.sqrt a) := Relic.Lemmas.NtMod.bnSrt_eq_sqrt a

/-- the same in the defining form r² ≤ a < (r+1)² -/
theorem srt_bounds (a : Nat) : ∃ r, bnSrt (a : Int) = some r ∧ r * r ≤ a ∧ a < (r + 1) * (r + 1) :=
  Relic.Lemmas.NtMod.bnSrt_spec a

/-- negative argument: ERR_NO_VALID -/
theorem srt_neg_err (a : Int) (h : a < 0) : bnSrt a = none := Relic.Lemmas.NtMod.bnSrt_neg a h

end Relic.Props.C09
