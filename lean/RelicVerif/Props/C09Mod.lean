/- C09 extension (Mod family): theorems model = specification. -/
import RelicVerif.Lemmas.NtMod
import RelicVerif.Lemmas.NtModBarrt
import RelicVerif.Lemmas.NtModMonty
import RelicVerif.Lemmas.NtModPmers

namespace Relic.Props.C09
open Relic.Model.NtMod

/-! ## bn_srt -/

/-- bn_srt (binary search as coded, Model.NtMod.bnSrt): for every a ≥ 0 the loop terminates within the fuel the model supplies
    (the result is `some`, never the fuel-exhausted `none`) and returns the floor square root. -/
theorem srt_exact (a : Nat) : bnSrt (a : Int) = some (Nat.sqrt a) := Relic.Lemmas.NtMod.bnSrt_eq_sqrt a

/-- the same in the defining form r² ≤ a < (r+1)² -/
theorem srt_bounds (a : Nat) : ∃ r, bnSrt (a : Int) = some r ∧ r * r ≤ a ∧ a < (r + 1) * (r + 1) :=
  Relic.Lemmas.NtMod.bnSrt_spec a

/-- negative argument: ERR_NO_VALID -/
theorem srt_neg_err (a : Int) (h : a < 0) : bnSrt a = none := Relic.Lemmas.NtMod.bnSrt_neg a h

/-! ## bn_mod_pre_barrt + bn_mod_barrt -/

/-- Barrett reduction as coded after fix 060ee71 (early exit with `+ m` for a negative operand, long-operand fallback, truncated
    difference with wrap-around, correction loop, `m − r` for a negative operand unless r = 0), with the reciprocal of
    bn_mod_pre_barrt: for EVERY integer a and every m > 0 (any digit width w ≥ 2) the result is a mod m, in [0, m). -/
theorem mod_barrt_exact (w : Nat) (hw : 2 ≤ w) (a m : Int) (hm : 0 < m) :
    ∃ p, modBarrtFull w a m = some (a % m, p) ∧ 0 ≤ a % m ∧ a % m < m := by
  obtain ⟨p, h, _⟩ := Relic.Lemmas.NtMod.modBarrtFull_spec w hw a m hm
  exact ⟨p, h, Int.emod_nonneg _ (ne_of_gt hm), Int.emod_lt_of_pos _ hm⟩

/-- the correction loop `while (t >= m) t -= m` of bn_mod_barrt runs at most twice (q3 ≤ q ≤ q3 + 2), and the supplied fuel is
    never exhausted — for every integer a -/
theorem mod_barrt_corrections_le (w : Nat) (hw : 2 ≤ w) (a m : Int) (hm : 0 < m) (wr : Bool) (n : Nat) (v : Int)
    (h : modBarrtFull w a m = some (v, BarrtPath.main wr n)) : n ≤ 2 := by
  obtain ⟨p, h', hn⟩ := Relic.Lemmas.NtMod.modBarrtFull_spec w hw a m hm
  rw [h'] at h
  injection h with h
  injection h with _ hp
  exact hn wr n hp

/-- the arithmetic core (HAC 14.42): B^(k-1) ≤ m < B^k, 0 ≤ c < B^(2k) -/
theorem mod_barrt_core (w k : Nat) (hw : 2 ≤ w) (hk : 1 ≤ k) (c m : Int)
    (hm1 : ((2 : Int) ^ w) ^ (k - 1) ≤ m) (hm2 : m < ((2 : Int) ^ w) ^ k) (hc1 : 0 ≤ c) (hc2 : c < ((2 : Int) ^ w) ^ (2 * k)) :
    (barrtCore w k c m ((2 : Int) ^ (2 * k * w) / m)).1 = c % m ∧ (barrtCore w k c m ((2 : Int) ^ (2 * k * w) / m)).2.2 ≤ 2 :=
  Relic.Lemmas.NtMod.barrtCore_spec w k hw hk c m hm1 hm2 hc1 hc2

example : ∃ p, modBarrtFull 8 1000 7 = some (1000 % 7, p) ∧ (0 : Int) ≤ 1000 % 7 ∧ (1000 : Int) % 7 < 7 := mod_barrt_exact 8 (by omega) 1000 7 (by omega)
example : (modBarrtFull 8 (-5) 5).map (·.1) = some 0 ∧ (modBarrtFull 8 (-3) 5).map (·.1) = some 2 := by decide

/-! ## bn_mod_pre_monty, bn_mod_monty_basic / _comba, bn_mod_monty_back, bn_mod_monty_conv -/

/-- the Newton iteration of bn_mod_pre_monty (start value correct modulo 2^4, 1 + [w>8] + [w>16] + [w>32] doubling steps in digit
    arithmetic): for digit widths 4 ≤ w ≤ 64 and odd m > 0 the digit u satisfies u·m ≡ -1 mod 2^w -/
theorem pre_monty_exact (w : Nat) (hw4 : 4 ≤ w) (hw : w ≤ 64) (m : Int) (hm : 0 < m) (hodd : m % 2 = 1) :
    ∃ u, preMonty w m = some u ∧ 0 ≤ u ∧ u < (2 : Int) ^ w ∧ (u * m + 1) % (2 : Int) ^ w = 0 :=
  Relic.Lemmas.NtMod.preMonty_spec w hw4 hw m hm hodd

/-- even or non-positive modulus: ERR_NO_VALID -/
theorem pre_monty_err (w : Nat) (m : Int) (h : m % 2 = 0 ∨ m ≤ 0) : preMonty w m = none := by
  simp [preMonty, h]

/-- REDC as coded (k rounds, high half, carry subtraction on k digits, final conditional subtraction) for odd m > 0 with k digits and
    0 ≤ a < m·B^k, u·m ≡ -1 mod B: the result r is canonical and r·B^k ≡ a (mod m), i.e. r = a·R⁻¹ mod m.
    The same value is returned by bn_mod_monty_basic and bn_mod_monty_comba (one value-level model). -/
theorem mod_monty_exact (w : Nat) (hw : 0 < w) (a m u : Int) (hm : 0 < m) (hu : (u * m + 1) % (2 : Int) ^ w = 0)
    (ha0 : 0 ≤ a) (ha : a < m * ((2 : Int) ^ w) ^ used w m.toNat) :
    0 ≤ (redc w a m u).1 ∧ (redc w a m u).1 < m ∧ ((redc w a m u).1 * ((2 : Int) ^ w) ^ used w m.toNat) % m = a % m :=
  Relic.Lemmas.NtMod.redc_spec w hw a m u hm hu ha0 ha

/-- bn_mod_monty_back (= bn_mod_pre_monty + bn_mod_monty_comba): for 4 ≤ w ≤ 64, odd m > 0 and 0 ≤ a < m·B^k the result r is in
    [0, m) with r·B^k ≡ a -/
theorem monty_back_exact (w : Nat) (hw4 : 4 ≤ w) (hw : w ≤ 64) (a m : Int) (hm : 0 < m) (hodd : m % 2 = 1)
    (ha0 : 0 ≤ a) (ha : a < m * ((2 : Int) ^ w) ^ used w m.toNat) :
    ∃ r c f, montyBack w a m = some (r, c, f) ∧ 0 ≤ r ∧ r < m ∧ (r * ((2 : Int) ^ w) ^ used w m.toNat) % m = a % m := by
  obtain ⟨u, hu, _, _, hinv⟩ := pre_monty_exact w hw4 hw m hm hodd
  have hcond : ¬ (m % 2 = 0 ∨ m ≤ 0) := by omega
  have haa : (a.natAbs : Int) = a := Int.natAbs_of_nonneg ha0
  obtain ⟨h1, h2, h3⟩ := mod_monty_exact w (by omega) a m u hm hinv ha0 ha
  exact ⟨(redc w a m u).1, (redc w a m u).2.1, (redc w a m u).2.2, by simp [montyBack, hu, modMontyComba, hcond, haa], h1, h2, h3⟩

/-- bn_mod_monty_conv: a·B^k mod m for every a (odd m > 0) -/
theorem monty_conv_exact (w : Nat) (a m : Int) (hm : 0 < m) (hodd : m % 2 = 1) :
    montyConv w a m = some ((a * ((2 : Int) ^ w) ^ used w m.toNat) % m) := by
  have hcond : ¬ (m % 2 = 0 ∨ m ≤ 0) := by omega
  simp only [montyConv, hcond, if_false]
  have hX : (2 : Int) ^ (used w m.toNat * w) = ((2 : Int) ^ w) ^ used w m.toNat := by rw [← pow_mul, mul_comm]
  congr 1
  rw [hX, Int.mul_emod (a % m), Int.emod_emod, ← Int.mul_emod]

example : ∃ u, preMonty 8 7 = some u ∧ 0 ≤ u ∧ u < (2 : Int) ^ 8 ∧ (u * 7 + 1) % (2 : Int) ^ 8 = 0 :=
  pre_monty_exact 8 (by omega) (by omega) 7 (by omega) (by omega)

/-! ## bn_mod_pre_pmers + bn_mod_pmers -/

/-- pseudo-Mersenne reduction as coded after fix 060ee71, for EVERY integer a and EVERY modulus m > 0 (u = 2^bits(m) - m ≤ 2^(bits-1),
    so the folding loop halves q in every round and ends within the bitLen(q) + 1 rounds the model supplies): the result is a mod m, in [0, m) -/
theorem mod_pmers_exact (a m : Int) (hm : 0 < m) : ∃ r n, modPmersFull a m = some (a % m, r, n) ∧ 0 ≤ a % m ∧ a % m < m := by
  obtain ⟨r, n, h⟩ := Relic.Lemmas.NtMod.modPmersFull_spec a m hm
  exact ⟨r, n, h, Int.emod_nonneg _ (ne_of_gt hm), Int.emod_lt_of_pos _ hm⟩

/-- the negative case spelled out (the defect C09-ext-mod-1 is repaired: `m − c` is skipped when c = 0): for a < 0 the value is
    0 when m | a and m − ((−a) mod m) otherwise — which is a mod m -/
theorem mod_pmers_neg (a m : Int) (hm : 0 < m) (_ha : a < 0) :
    ∃ r n, modPmersFull a m = some ((if (-a) % m = 0 then 0 else m - (-a) % m), r, n) := by
  obtain ⟨r, n, h⟩ := Relic.Lemmas.NtMod.modPmersFull_spec a m hm
  rw [Relic.Lemmas.NtMod.neg_residue a m hm] at h
  exact ⟨r, n, h⟩

example : (modPmersFull (-7) 7).map (·.1) = some 0 ∧ (modPmersFull (-5) 7).map (·.1) = some 2 := by decide

/-- the folding loop terminates (never `none`) for every modulus and operand -/
theorem mod_pmers_fold_terminates (a m : Int) (hm : 0 < m) : (modPmersFull a m).isSome = true := by
  obtain ⟨r, n, h⟩ := Relic.Lemmas.NtMod.modPmersFull_spec a m hm
  rw [h]; rfl

end Relic.Props.C09
