/- C09 extension (Mod family): theorems model = specification. -/

namespace Relic.Props.C09

end Relic.Props.C09
