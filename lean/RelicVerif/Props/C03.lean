import RelicVerif.Spec.Curve
namespace Relic.Props.C03
end Relic.Props.C03
