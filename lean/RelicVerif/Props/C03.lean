/-
C03 — every scalar multiplication equals [k]P (algorithm level).
The loops of Model/MulAlg.lean mirror ep_mul_basic / slide / monty / lwnaf / lwreg, ep_mul_fix_basic,
ep_mul_sim_trick / inter / joint. Over an arbitrary additive commutative group they compute the integer
their recoding denotes times the base point; combined with the recoding theorems of C09 this is k • P for
every integer k and every point of a group killed by n.
The coordinate-system formulas (add/dbl in affine, projective, Jacobian coordinates) are compared with the
affine group law by the correspondence run; see DESIGN.md for the translator tie.
-/
import RelicVerif.Lemmas.MulAlg
import RelicVerif.Lemmas.EpFormulas

namespace Relic.Props.C03
open Relic.Model Relic.Model.MulAlg

variable {G : Type} [AddCommGroup G]


/-- k mod n as a natural number, for n > 0 -/
theorem toNat_emod (n : Nat) (hn0 : 0 < n) (k : ℤ) : (((k % n).toNat : ℕ) : ℤ) = k % n :=
  Int.toNat_of_nonneg (Int.emod_nonneg _ (by omega))

theorem toNat_emod_zsmul (p : G) (n : Nat) (hn0 : 0 < n) (hn : (n : ℤ) • p = 0) (k : ℤ) :
    (((k % n).toNat : ℕ) : ℤ) • p = k • p := by
  rw [toNat_emod n hn0, zsmul_emod p n hn]

theorem two_pow_pred (w : Nat) (hw : 2 ≤ w) : 2 ^ (w - 1) = 2 * 2 ^ (w - 2) := by
  rw [show w - 1 = (w - 2) + 1 by omega, Nat.pow_succ, Nat.mul_comm]

/-- ep_mul_lwnaf / ep_mul_fix_lwnaf on plain curves: reduce k modulo n, recode in width-w NAF, table of odd
    multiples, signed left-to-right loop, final negation for k < 0 is inside `k % n`. Any integer k. -/
theorem mul_lwnaf_correct (p : G) (n : Nat) (hn0 : 0 < n) (hn : (n : ℤ) • p = 0) (k : ℤ) (w : Nat) (hw : 2 ≤ w)
    (cap : Nat) (ds : List Int) (h : Rec.recNaf cap (k % n).toNat w = some ds) :
    mulSigned gops (tabOdd gops p (2 ^ (w - 2))) 0 ds = k • p := by
  obtain ⟨hv, hd, _⟩ := Rec.recNaf_spec cap _ w hw ds h
  obtain ⟨hlen, htab⟩ := tabOdd_spec p (2 ^ (w - 2))
  rw [mulSigned_spec p _ (by rw [hlen]; exact htab) ds, hv, toNat_emod_zsmul p n hn0 hn]
  intro d hdm
  rw [hlen, ← two_pow_pred w hw]
  exact hd d hdm

/-- ep_mul_basic: binary NAF (w = 2) with the one-entry table [P], sign applied at the end -/
theorem mul_basic_correct (p : G) (k : ℤ) (cap : Nat) (ds : List Int) (h : Rec.recNaf cap k.natAbs 2 = some ds) :
    (if k < 0 then -(mulSigned gops [p] 0 ds) else mulSigned gops [p] 0 ds) = k • p := by
  obtain ⟨hv, hd, _⟩ := Rec.recNaf_spec cap _ 2 (le_refl _) ds h
  have htab : ∀ i, i < [p].length → [p].getD i 0 = (2 * (i : ℤ) + 1) • p := by
    intro i hi
    have : i = 0 := by simpa using hi
    subst this; simp
  rw [mulSigned_spec p [p] htab ds (by simpa using hd), hv]
  split
  · rw [← neg_zsmul]; congr 1; omega
  · congr 1; omega

/-- ep_mul_slide: reduce modulo n, sliding windows of width w, table of odd multiples up to 2^w - 1 -/
theorem mul_slide_correct (p : G) (n : Nat) (hn0 : 0 < n) (hn : (n : ℤ) • p = 0) (k : ℤ) (w : Nat) (hw : 1 ≤ w)
    (cap : Nat) (win : List Int) (h : Rec.recSlw cap (k % n).toNat w = some win) :
    mulSlide gops (tabOdd gops p (2 ^ (w - 1))) 0 win = k • p := by
  obtain ⟨hv, hd, _⟩ := Rec.recSlw_spec cap _ w hw win h
  obtain ⟨hlen, htab⟩ := tabOdd_spec p (2 ^ (w - 1))
  rw [mulSlide_spec p _ (by rw [hlen]; exact htab) win, hv, toNat_emod_zsmul p n hn0 hn]
  intro d hdm
  rcases hd d hdm with h0 | ⟨h1, h2, h3⟩
  · exact Or.inl h0
  · refine Or.inr ⟨h1, h2, ?_⟩
    rw [hlen, ← Nat.pow_succ', show (w - 1).succ = w by omega]
    zify
    rw [Int.toNat_of_nonneg (by omega)]
    exact_mod_cast h3

/-- ep_mul_monty: l = (k mod n) + n or + 2n, whichever has exactly bits(n) + 1 bits; ladder over its lower bits -/
theorem mul_monty_correct (p : G) (n : Nat) (hn : (n : ℤ) • p = 0) (k : ℤ) (l : Nat) (hl : (l : ℤ) % n = k % n)
    (bits : List Bool) (hbits : (2 ^ bits.length + bitsVal bits : ℤ) = l) :
    mulLadder gops p bits = k • p := by
  rw [mulLadder_spec, hbits, ← zsmul_emod p n hn l, hl, zsmul_emod p n hn k]

/-- ep_mul_lwreg on plain curves (after the repair): regular recoding of (|k| mod n) | 1, parity correction,
    sign applied at the end -/
theorem mul_lwreg_correct (p : G) (n : Nat) (hn0 : 0 < n) (hn : (n : ℤ) • p = 0) (k : ℤ) (w nb : Nat) (hw : 3 ≤ w)
    (hnb : n < 2 ^ nb) (cap : Nat) (reg : List Int)
    (h : Rec.recReg cap ((k.natAbs % n) ||| 1) nb w = some reg) :
    let r := mulReg gops (tabOdd gops p (2 ^ (w - 2))) 0 w reg ((k.natAbs % n) % 2 = 0) p
    (if k < 0 then -r else r) = k • p := by
  intro r
  have hor : (k.natAbs % n) ||| 1 = k.natAbs % n + (if (k.natAbs % n) % 2 = 0 then 1 else 0) := by
    have e1 : ((k.natAbs % n) ||| 1) / 2 = (k.natAbs % n) / 2 := by rw [Nat.or_div_two]; simp
    have e2 : ((k.natAbs % n) ||| 1) % 2 = 1 := by rw [Nat.or_mod_two_eq_one]; simp
    split <;> omega
  have hlt : k.natAbs % n < n := Nat.mod_lt _ hn0
  obtain ⟨hv, hd⟩ := recReg_digits cap _ nb w (by omega) (by rw [hor]; split <;> omega)
    (by rw [hor]; split <;> omega) reg h
  obtain ⟨hlen, htab⟩ := tabOdd_spec p (2 ^ (w - 2))
  have hr : r = ((k.natAbs % n : ℕ) : ℤ) • p := by
    show mulReg gops _ 0 w reg _ p = _
    rw [mulReg_spec p _ (by rw [hlen]; exact htab) w reg
      (by intro d hdm; rw [hlen, ← two_pow_pred w (by omega)]; exact hd d hdm), hv, hor]
    congr 1
    by_cases h2 : (k.natAbs % n) % 2 = 0 <;> simp [h2]
  have hmod : ((k.natAbs % n : ℕ) : ℤ) • p = (k.natAbs : ℤ) • p := by
    rw [Int.natCast_mod, zsmul_emod p n hn]
  rw [hr, hmod]
  split
  · rw [← neg_zsmul]; congr 1; omega
  · congr 1; omega

/-- ep_mul_fix_basic: precomputed 2^i·P, one addition per set bit of k mod n -/
theorem mul_fix_basic_correct (p : G) (n : Nat) (hn0 : 0 < n) (hn : (n : ℤ) • p = 0) (k : ℤ) (nb : Nat) (hnb : n < 2 ^ nb) :
    mulFixBasic gops (tabPow2 gops p nb) 0 (k % n).toNat = k • p := by
  rw [mulFixBasic_spec p nb _ _, toNat_emod_zsmul p n hn0 hn]
  have h1 : (k % n) < n := Int.emod_lt_of_pos _ (by omega)
  have h2 := toNat_emod n hn0 k
  omega

/-- ep_mul_sim_trick: both scalars reduced modulo n, fixed windows of width w, table of i·P + j·Q -/
theorem mul_sim_trick_correct (p q : G) (n : Nat) (hn0 : 0 < n) (hp : (n : ℤ) • p = 0) (hq : (n : ℤ) • q = 0) (k m : ℤ) (w : Nat) (hw : 0 < w)
    (cap : Nat) (w0 w1 : List Int) (hk : 0 < (k % n).toNat) (hm : 0 < (m % n).toNat)
    (h0 : Rec.recWin cap (k % n).toNat w = some w0) (h1 : Rec.recWin cap (m % n).toNat w = some w1) :
    simTrick gops (tabTrick gops p q w) 0 w w0 w1 = k • p + m • q := by
  obtain ⟨hv0, hd0, _⟩ := Rec.recWin_spec cap _ w hw hk w0 h0
  obtain ⟨hv1, hd1, _⟩ := Rec.recWin_spec cap _ w hw hm w1 h1
  rw [simTrick_spec p q w w0 w1 hd0 hd1, hv0, hv1, toNat_emod_zsmul p n hn0 hp, toNat_emod_zsmul q n hn0 hq]

/-- ep_mul_sim_inter (plain curves): two width-w NAFs interleaved -/
theorem mul_sim_inter_correct (p q : G) (n : Nat) (hn0 : 0 < n) (hp : (n : ℤ) • p = 0) (hq : (n : ℤ) • q = 0) (k m : ℤ) (w : Nat) (hw : 2 ≤ w)
    (cap : Nat) (n0 n1 : List Int)
    (h0 : Rec.recNaf cap (k % n).toNat w = some n0) (h1 : Rec.recNaf cap (m % n).toNat w = some n1) :
    simInter gops (tabOdd gops p (2 ^ (w - 2))) (tabOdd gops q (2 ^ (w - 2))) 0 n0 n1 = k • p + m • q := by
  obtain ⟨hv0, hd0, _⟩ := Rec.recNaf_spec cap _ w hw n0 h0
  obtain ⟨hv1, hd1, _⟩ := Rec.recNaf_spec cap _ w hw n1 h1
  obtain ⟨hlen0, htab0⟩ := tabOdd_spec p (2 ^ (w - 2))
  obtain ⟨hlen1, htab1⟩ := tabOdd_spec q (2 ^ (w - 2))
  rw [simInter_spec p q _ _ (by rw [hlen0]; exact htab0) (by rw [hlen1]; exact htab1) n0 n1, hv0, hv1,
    toNat_emod_zsmul p n hn0 hp, toNat_emod_zsmul q n hn0 hq]
  · intro d hdm
    rw [hlen0, ← two_pow_pred w hw]
    exact hd0 d hdm
  · intro d hdm
    rw [hlen1, ← two_pow_pred w hw]
    exact hd1 d hdm

/-- ep_mul_sim_joint: joint sparse form of (k mod n, m mod n) -/
theorem mul_sim_joint_correct (p q : G) (n : Nat) (hn0 : 0 < n) (hp : (n : ℤ) • p = 0) (hq : (n : ℤ) • q = 0) (k m : ℤ)
    (cap : Nat) (j0 j1 : List Int) (h : Rec.recJsf cap (k % n).toNat (m % n).toNat = some (j0, j1)) :
    simJoint gops p q j0 j1 = k • p + m • q := by
  obtain ⟨hv0, hv1, hd0, hd1, _⟩ := Rec.recJsf_spec cap _ _ j0 j1 h
  have hsign : ∀ (l : List ℤ), (∀ d ∈ l, d.natAbs ≤ 1) → l.map Int.sign = l := by
    intro l hl
    conv_rhs => rw [← List.map_id l]
    apply List.map_congr_left
    intro d hdm
    have := hl d hdm
    have : d = -1 ∨ d = 0 ∨ d = 1 := by omega
    rcases this with rfl | rfl | rfl <;> rfl
  rw [simJoint_spec, hsign j0 hd0, hsign j1 hd1, hv0, hv1, toNat_emod_zsmul p n hn0 hp,
    toNat_emod_zsmul q n hn0 hq]

/-- non-vacuity: the loops run on the integers (an additive commutative group) -/
example : mulSigned (gops : Ops ℤ) (tabOdd gops 1 4) 0 [7, 0, 0, 0, 0, -5] = -153 := by decide

end Relic.Props.C03
