/-
C03 — every scalar multiplication equals [k]P (algorithm level).
The loops of Model/MulAlg.lean mirror ep_mul_basic / slide / monty / lwnaf / lwreg, ep_mul_fix_basic,
ep_mul_sim_trick / inter / joint. Over an arbitrary additive commutative group they compute the integer
their recoding denotes times the base point; combined with the recoding theorems of C09 this is k • P for
every integer k and every point of a group killed by n.
The coordinate-system formulas (add/dbl in affine, projective, Jacobian coordinates) are compared with the
affine group law by the correspondence run; see DESIGN.md for the translator tie.
-/
import RelicVerif.Lemmas.MulAlg
import RelicVerif.Lemmas.EpFormulas
import RelicVerif.Lemmas.EpComb
import RelicVerif.Lemmas.EpSim

namespace Relic.Props.C03
open Relic.Model Relic.Model.MulAlg Relic.Model.EpMul
open Relic.Model.EbMul (tabCombs)

variable {G : Type} [AddCommGroup G]


/-- k mod n as a natural number, for n > 0 -/
theorem toNat_emod (n : Nat) (hn0 : 0 < n) (k : ℤ) : (((k % n).toNat : ℕ) : ℤ) = k % n :=
  Int.toNat_of_nonneg (Int.emod_nonneg _ (by omega))

theorem toNat_emod_zsmul (p : G) (n : Nat) (hn0 : 0 < n) (hn : (n : ℤ) • p = 0) (k : ℤ) :
    (((k % n).toNat : ℕ) : ℤ) • p = k • p := by
  rw [toNat_emod n hn0, zsmul_emod p n hn]

theorem two_pow_pred (w : Nat) (hw : 2 ≤ w) : 2 ^ (w - 1) = 2 * 2 ^ (w - 2) := by
  rw [show w - 1 = (w - 2) + 1 by omega, Nat.pow_succ, Nat.mul_comm]

/-- ep_mul_lwnaf / ep_mul_fix_lwnaf on plain curves: reduce k modulo n, recode in width-w NAF, table of odd
    multiples, signed left-to-right loop, final negation for k < 0 is inside `k % n`. Any integer k. -/
theorem mul_lwnaf_correct (p : G) (n : Nat) (hn0 : 0 < n) (hn : (n : ℤ) • p = 0) (k : ℤ) (w : Nat) (hw : 2 ≤ w)
    (cap : Nat) (ds : List Int) (h : Rec.recNaf cap (k % n).toNat w = some ds) :
    mulSigned gops (tabOdd gops p (2 ^ (w - 2))) 0 ds = k • p := by
  obtain ⟨hv, hd, _⟩ := Rec.recNaf_spec cap _ w hw ds h
  obtain ⟨hlen, htab⟩ := tabOdd_spec p (2 ^ (w - 2))
  rw [mulSigned_spec p _ (by rw [hlen]; exact htab) ds, hv, toNat_emod_zsmul p n hn0 hn]
  intro d hdm
  rw [hlen, ← two_pow_pred w hw]
  exact hd d hdm

/-- ep_mul_basic: binary NAF (w = 2) with the one-entry table [P], sign applied at the end -/
theorem mul_basic_correct (p : G) (k : ℤ) (cap : Nat) (ds : List Int) (h : Rec.recNaf cap k.natAbs 2 = some ds) :
    (if k < 0 then -(mulSigned gops [p] 0 ds) else mulSigned gops [p] 0 ds) = k • p := by
  obtain ⟨hv, hd, _⟩ := Rec.recNaf_spec cap _ 2 (le_refl _) ds h
  have htab : ∀ i, i < [p].length → [p].getD i 0 = (2 * (i : ℤ) + 1) • p := by
    intro i hi
    have : i = 0 := by simpa using hi
    subst this; simp
  rw [mulSigned_spec p [p] htab ds (by simpa using hd), hv]
  split
  · rw [← neg_zsmul]; congr 1; omega
  · congr 1; omega

/-- ep_mul_slide: reduce modulo n, sliding windows of width w, table of odd multiples up to 2^w - 1 -/
theorem mul_slide_correct (p : G) (n : Nat) (hn0 : 0 < n) (hn : (n : ℤ) • p = 0) (k : ℤ) (w : Nat) (hw : 1 ≤ w)
    (cap : Nat) (win : List Int) (h : Rec.recSlw cap (k % n).toNat w = some win) :
    mulSlide gops (tabOdd gops p (2 ^ (w - 1))) 0 win = k • p := by
  obtain ⟨hv, hd, _⟩ := Rec.recSlw_spec cap _ w hw win h
  obtain ⟨hlen, htab⟩ := tabOdd_spec p (2 ^ (w - 1))
  rw [mulSlide_spec p _ (by rw [hlen]; exact htab) win, hv, toNat_emod_zsmul p n hn0 hn]
  intro d hdm
  rcases hd d hdm with h0 | ⟨h1, h2, h3⟩
  · exact Or.inl h0
  · refine Or.inr ⟨h1, h2, ?_⟩
    rw [hlen, ← Nat.pow_succ', show (w - 1).succ = w by omega]
    zify
    rw [Int.toNat_of_nonneg (by omega)]
    exact_mod_cast h3

/-- ep_mul_monty: l = (k mod n) + n or + 2n, whichever has exactly bits(n) + 1 bits; ladder over its lower bits -/
theorem mul_monty_correct (p : G) (n : Nat) (hn : (n : ℤ) • p = 0) (k : ℤ) (l : Nat) (hl : (l : ℤ) % n = k % n)
    (bits : List Bool) (hbits : (2 ^ bits.length + bitsVal bits : ℤ) = l) :
    mulLadder gops p bits = k • p := by
  rw [mulLadder_spec, hbits, ← zsmul_emod p n hn l, hl, zsmul_emod p n hn k]

/-- ep_mul_lwreg on plain curves (after the repair): regular recoding of (|k| mod n) | 1, parity correction,
    sign applied at the end -/
theorem mul_lwreg_correct (p : G) (n : Nat) (hn0 : 0 < n) (hn : (n : ℤ) • p = 0) (k : ℤ) (w nb : Nat) (hw : 3 ≤ w)
    (hnb : n < 2 ^ nb) (cap : Nat) (reg : List Int)
    (h : Rec.recReg cap ((k.natAbs % n) ||| 1) nb w = some reg) :
    let r := mulReg gops (tabOdd gops p (2 ^ (w - 2))) 0 w reg ((k.natAbs % n) % 2 = 0) p
    (if k < 0 then -r else r) = k • p := by
  intro r
  have hor : (k.natAbs % n) ||| 1 = k.natAbs % n + (if (k.natAbs % n) % 2 = 0 then 1 else 0) := by
    have e1 : ((k.natAbs % n) ||| 1) / 2 = (k.natAbs % n) / 2 := by rw [Nat.or_div_two]; simp
    have e2 : ((k.natAbs % n) ||| 1) % 2 = 1 := by rw [Nat.or_mod_two_eq_one]; simp
    split <;> omega
  have hlt : k.natAbs % n < n := Nat.mod_lt _ hn0
  obtain ⟨hv, hd⟩ := recReg_digits cap _ nb w (by omega) (by rw [hor]; split <;> omega)
    (by rw [hor]; split <;> omega) reg h
  obtain ⟨hlen, htab⟩ := tabOdd_spec p (2 ^ (w - 2))
  have hr : r = ((k.natAbs % n : ℕ) : ℤ) • p := by
    show mulReg gops _ 0 w reg _ p = _
    rw [mulReg_spec p _ (by rw [hlen]; exact htab) w reg
      (by intro d hdm; rw [hlen, ← two_pow_pred w (by omega)]; exact hd d hdm), hv, hor]
    congr 1
    by_cases h2 : (k.natAbs % n) % 2 = 0 <;> simp [h2]
  have hmod : ((k.natAbs % n : ℕ) : ℤ) • p = (k.natAbs : ℤ) • p := by
    rw [Int.natCast_mod, zsmul_emod p n hn]
  rw [hr, hmod]
  split
  · rw [← neg_zsmul]; congr 1; omega
  · congr 1; omega

/-- ep_mul_fix_basic: precomputed 2^i·P, one addition per set bit of k mod n -/
theorem mul_fix_basic_correct (p : G) (n : Nat) (hn0 : 0 < n) (hn : (n : ℤ) • p = 0) (k : ℤ) (nb : Nat) (hnb : n < 2 ^ nb) :
    mulFixBasic gops (tabPow2 gops p nb) 0 (k % n).toNat = k • p := by
  rw [mulFixBasic_spec p nb _ _, toNat_emod_zsmul p n hn0 hn]
  have h1 : (k % n) < n := Int.emod_lt_of_pos _ (by omega)
  have h2 := toNat_emod n hn0 k
  omega

/-- ep_mul_sim_trick: both scalars reduced modulo n, fixed windows of width w, table of i·P + j·Q -/
theorem mul_sim_trick_correct (p q : G) (n : Nat) (hn0 : 0 < n) (hp : (n : ℤ) • p = 0) (hq : (n : ℤ) • q = 0) (k m : ℤ) (w : Nat) (hw : 0 < w)
    (cap : Nat) (w0 w1 : List Int) (hk : 0 < (k % n).toNat) (hm : 0 < (m % n).toNat)
    (h0 : Rec.recWin cap (k % n).toNat w = some w0) (h1 : Rec.recWin cap (m % n).toNat w = some w1) :
    simTrick gops (tabTrick gops p q w) 0 w w0 w1 = k • p + m • q := by
  obtain ⟨hv0, hd0, _⟩ := Rec.recWin_spec cap _ w hw hk w0 h0
  obtain ⟨hv1, hd1, _⟩ := Rec.recWin_spec cap _ w hw hm w1 h1
  rw [simTrick_spec p q w w0 w1 hd0 hd1, hv0, hv1, toNat_emod_zsmul p n hn0 hp, toNat_emod_zsmul q n hn0 hq]

/-- ep_mul_sim_inter (plain curves): two width-w NAFs interleaved -/
theorem mul_sim_inter_correct (p q : G) (n : Nat) (hn0 : 0 < n) (hp : (n : ℤ) • p = 0) (hq : (n : ℤ) • q = 0) (k m : ℤ) (w : Nat) (hw : 2 ≤ w)
    (cap : Nat) (n0 n1 : List Int)
    (h0 : Rec.recNaf cap (k % n).toNat w = some n0) (h1 : Rec.recNaf cap (m % n).toNat w = some n1) :
    simInter gops (tabOdd gops p (2 ^ (w - 2))) (tabOdd gops q (2 ^ (w - 2))) 0 n0 n1 = k • p + m • q := by
  obtain ⟨hv0, hd0, _⟩ := Rec.recNaf_spec cap _ w hw n0 h0
  obtain ⟨hv1, hd1, _⟩ := Rec.recNaf_spec cap _ w hw n1 h1
  obtain ⟨hlen0, htab0⟩ := tabOdd_spec p (2 ^ (w - 2))
  obtain ⟨hlen1, htab1⟩ := tabOdd_spec q (2 ^ (w - 2))
  rw [simInter_spec p q _ _ (by rw [hlen0]; exact htab0) (by rw [hlen1]; exact htab1) n0 n1, hv0, hv1,
    toNat_emod_zsmul p n hn0 hp, toNat_emod_zsmul q n hn0 hq]
  · intro d hdm
    rw [hlen0, ← two_pow_pred w hw]
    exact hd0 d hdm
  · intro d hdm
    rw [hlen1, ← two_pow_pred w hw]
    exact hd1 d hdm

/-- ep_mul_sim_joint: joint sparse form of (k mod n, m mod n) -/
theorem mul_sim_joint_correct (p q : G) (n : Nat) (hn0 : 0 < n) (hp : (n : ℤ) • p = 0) (hq : (n : ℤ) • q = 0) (k m : ℤ)
    (cap : Nat) (j0 j1 : List Int) (h : Rec.recJsf cap (k % n).toNat (m % n).toNat = some (j0, j1)) :
    simJoint gops p q j0 j1 = k • p + m • q := by
  obtain ⟨hv0, hv1, hd0, hd1, _⟩ := Rec.recJsf_spec cap _ _ j0 j1 h
  have hsign : ∀ (l : List ℤ), (∀ d ∈ l, d.natAbs ≤ 1) → l.map Int.sign = l := by
    intro l hl
    conv_rhs => rw [← List.map_id l]
    apply List.map_congr_left
    intro d hdm
    have := hl d hdm
    have : d = -1 ∨ d = 0 ∨ d = 1 := by omega
    rcases this with rfl | rfl | rfl <;> rfl
  rw [simJoint_spec, hsign j0 hd0, hsign j1 hd1, hv0, hv1, toNat_emod_zsmul p n hn0 hp,
    toNat_emod_zsmul q n hn0 hq]


/-! ### comb methods, GLV paths, many-point routines (Model/EpMul.lean; lemmas in Lemmas/EpComb.lean, Lemmas/EpSim.lean) -/

/-- a scalar congruent to k modulo the order acts like k -/
theorem zsmul_of_dvd_sub (p : G) (n : Nat) (hn : (n : ℤ) • p = 0) (a k : ℤ) (h : (n : ℤ) ∣ a - k) : a • p = k • p := by
  obtain ⟨q, hq⟩ := h
  have : a = k + q * n := by linarith
  rw [this, add_zsmul, mul_zsmul, hn, zsmul_zero, add_zero]

/-- the comb with l = ⌈bits(n)/d⌉ columns covers the order: n < 2^(l·d) -/
theorem comb_cover (n d : Nat) (hd : 0 < d) : n < 2 ^ (((Rec.bitLen n + d - 1) / d) * d) := by
  have h1 := Rec.lt_two_pow_bitLen n
  have h2 := Nat.lt_mul_div_succ (Rec.bitLen n + d - 1) hd
  rw [Nat.mul_succ, Nat.mul_comm d] at h2
  exact lt_of_lt_of_le h1 (Nat.pow_le_pow_right (by decide) (by omega))

/-- the sign-magnitude form in which the code carries a sub-scalar -/
theorem sign_natAbs (a : ℤ) : (if decide (a < 0) then -(a.natAbs : ℤ) else (a.natAbs : ℤ)) = a := by
  rcases lt_or_ge a 0 with h | h
  · rw [if_pos (by simpa using h)]; omega
  · rw [if_neg (by simpa using h)]; omega

theorem sg_natAbs (a : ℤ) : Relic.Lemmas.EpSim.sg (decide (a < 0)) * (a.natAbs : ℤ) = a := by
  unfold Relic.Lemmas.EpSim.sg
  rcases lt_or_ge a 0 with h | h
  · rw [if_pos (by simpa using h)]; omega
  · rw [if_neg (by simpa using h)]; omega

/-- digits in {-1, 0, 1} are their own signs -/
theorem map_sign_of_small (l : List ℤ) (hl : ∀ d ∈ l, d.natAbs ≤ 1) : l.map Int.sign = l := by
  conv_rhs => rw [← List.map_id l]
  apply List.map_congr_left
  intro d hdm
  have := hl d hdm
  have : d = -1 ∨ d = 0 ∨ d = 1 := by omega
  rcases this with rfl | rfl | rfl <;> rfl

/-- ep_mul_pre_combs + ep_mul_fix_combs on plain curves (also ep_mul_gen / ep_mul_fix in the pinned configuration): table
    t[Σ b_j 2^j] = Σ b_j 2^(j·l)·P, scalar reduced modulo n, l columns read from the top.  Every integer k; any l, d with
    n ≤ 2^(l·d) (`comb_cover`: l = ⌈bits(n)/d⌉ qualifies). -/
theorem mul_fix_combs_plain_correct (p : G) (n : Nat) (hn0 : 0 < n) (hn : (n : ℤ) • p = 0) (k : ℤ) (l d : Nat) (hl : 0 < l)
    (hld : n ≤ 2 ^ (l * d)) :
    mulCombsPlain gops (tabCombs gops p l d) (k % n).toNat l d = k • p := by
  have h1 : (k % n) < n := Int.emod_lt_of_pos _ (by omega)
  have h2 := toNat_emod n hn0 k
  rw [Relic.Lemmas.EpComb.mulCombsPlain_spec p _ l d hl (by omega), toNat_emod_zsmul p n hn0 hn]

/-- bn_rec_glv: for lattice rows that annihilate (1, λ) modulo n the pair (k0, k1) computed from k mod n satisfies
    k0 + k1·λ ≡ k (mod n), whatever the rounding -/
theorem rec_glv_congr (n : Nat) (hn0 : 0 < n) (v1 v2 : ℤ × ℤ × ℤ) (lam : ℤ)
    (h1 : (n : ℤ) ∣ v1.2.1 + v1.2.2 * lam) (h2 : (n : ℤ) ∣ v2.2.1 + v2.2.2 * lam) (k : ℤ) :
    (n : ℤ) ∣ (recGlv (k % n).toNat n v1 v2).1 + (recGlv (k % n).toNat n v1 v2).2 * lam - k := by
  have h := Relic.Lemmas.EpComb.recGlv_congr (k % n).toNat n v1 v2 lam h1 h2
  rw [toNat_emod n hn0 k] at h
  have : (n : ℤ) ∣ k % n - k := by
    rw [Int.emod_def]; exact ⟨-(k / n), by ring⟩
  have h3 := dvd_add h this
  have e : (recGlv (k % n).toNat n v1 v2).1 + (recGlv (k % n).toNat n v1 v2).2 * lam - k % n + (k % n - k)
      = (recGlv (k % n).toNat n v1 v2).1 + (recGlv (k % n).toNat n v1 v2).2 * lam - k := by ring
  rwa [e] at h3

/-- a GLV pair acts like the scalar: ψ(P) = λ•P, n•P = 0, k0 + k1·λ ≡ k (mod n) -/
theorem glv_pair_zsmul (ψ : G →+ G) (p : G) (n : Nat) (hn : (n : ℤ) • p = 0) (lam : ℤ) (hψ : ψ p = lam • p)
    (k k0 k1 : ℤ) (hk : (n : ℤ) ∣ k0 + k1 * lam - k) : k0 • p + k1 • ψ p = k • p := by
  rw [hψ, ← mul_zsmul, ← add_zsmul]
  exact zsmul_of_dvd_sub p n hn _ k hk

/-- ep_mul_combs_endom (ep_mul_fix_combs / ep_mul_gen on endomorphism curves): the half-length comb read for both sub-scalars,
    ψ applied to the table entry.  Sub-scalars of at most l·d + 1 bits; the code ignores the sign of a sub-scalar on the
    top-bit path, hence the hypotheses hs0, hs1 (no sub-scalar of the 256-bit endomorphism curves reaches l·d + 1 bits). -/
theorem mul_fix_combs_endom_correct (ψ : G →+ G) (p : G) (n : Nat) (hn : (n : ℤ) • p = 0) (lam : ℤ) (hψ : ψ p = lam • p)
    (k k0 k1 : ℤ) (hk : (n : ℤ) ∣ k0 + k1 * lam - k) (l d : Nat) (hl : 0 < l) (hd : 0 < d)
    (h0 : k0.natAbs < 2 ^ (l * d + 1)) (h1 : k1.natAbs < 2 ^ (l * d + 1))
    (hs0 : d * l < Rec.bitLen k0.natAbs → 0 ≤ k0) (hs1 : d * l < Rec.bitLen k1.natAbs → 0 ≤ k1) :
    mulCombsEndom gops ψ (tabCombs gops p l d) l d k0.natAbs (decide (k0 < 0)) k1.natAbs (decide (k1 < 0)) = k • p := by
  rw [Relic.Lemmas.EpComb.mulCombsEndom_spec ψ p l d _ _ _ _ hl hd h0 h1
    (fun h => by have := hs0 h; simp; omega) (fun h => by have := hs1 h; simp; omega),
    sign_natAbs, sign_natAbs]
  exact glv_pair_zsmul ψ p n hn lam hψ k k0 k1 hk

/-- ep_mul_pre_combd + ep_mul_fix_combd: two tables (the second holds the first doubled e times), e = ⌈dd/2⌉ iterations, two
    columns per iteration.  Every integer k. -/
theorem mul_fix_combd_correct (p : G) (n : Nat) (hn0 : 0 < n) (hn : (n : ℤ) • p = 0) (k : ℤ) (dd e d : Nat) (he : 0 < e)
    (hle : e ≤ dd) (h2 : dd ≤ 2 * e) (hld : n ≤ 2 ^ (dd * d)) :
    mulCombd gops (tabCombd gops p dd e d) (k % n).toNat dd e d = k • p := by
  have h1 : (k % n) < n := Int.emod_lt_of_pos _ (by omega)
  have h3 := toNat_emod n hn0 k
  rw [Relic.Lemmas.EpComb.mulCombd_spec p _ dd e d he hle h2 (by omega), toNat_emod_zsmul p n hn0 hn]

/-- ep_mul_glv_imp (ep_mul_lwnaf / ep_mul on endomorphism curves): table of odd multiples of ±P, two interleaved width-w NAFs,
    ψ of the table entry negated when the signs differ -/
theorem mul_glv_correct (ψ : G →+ G) (p : G) (n : Nat) (hn : (n : ℤ) • p = 0) (lam : ℤ) (hψ : ψ p = lam • p)
    (k k0 k1 : ℤ) (hk : (n : ℤ) ∣ k0 + k1 * lam - k) (w : Nat) (hw : 2 ≤ w) (cap : Nat) (n0 n1 : List Int)
    (h0 : Rec.recNaf cap k0.natAbs w = some n0) (h1 : Rec.recNaf cap k1.natAbs w = some n1) :
    mulGlv gops ψ p (2 ^ (w - 2)) (decide (k0 < 0)) (decide (k1 < 0)) n0 n1 = k • p := by
  obtain ⟨hv0, hd0, _⟩ := Rec.recNaf_spec cap _ w hw n0 h0
  obtain ⟨hv1, hd1, _⟩ := Rec.recNaf_spec cap _ w hw n1 h1
  rw [Relic.Lemmas.EpSim.mulGlv_spec ψ p _ _ _ n0 n1
    (fun d hdm => by rw [← two_pow_pred w hw]; exact hd0 d hdm)
    (fun d hdm => by rw [← two_pow_pred w hw]; exact hd1 d hdm), hv0, hv1, sg_natAbs, sg_natAbs]
  exact glv_pair_zsmul ψ p n hn lam hψ k k0 k1 hk

/-- ep_mul_sim_endom (ep_mul_sim_inter, ep_mul_sim, ep_mul_sim_gen on endomorphism curves): four interleaved width-w NAFs -/
theorem mul_sim_endom_correct (ψ : G →+ G) (p q : G) (n : Nat) (hp : (n : ℤ) • p = 0) (hq : (n : ℤ) • q = 0) (lam : ℤ)
    (hψp : ψ p = lam • p) (hψq : ψ q = lam • q) (k k0 k1 m m0 m1 : ℤ)
    (hk : (n : ℤ) ∣ k0 + k1 * lam - k) (hm : (n : ℤ) ∣ m0 + m1 * lam - m) (w : Nat) (hw : 2 ≤ w) (cap : Nat)
    (a0 a1 a2 a3 : List Int)
    (h0 : Rec.recNaf cap k0.natAbs w = some a0) (h1 : Rec.recNaf cap k1.natAbs w = some a1)
    (h2 : Rec.recNaf cap m0.natAbs w = some a2) (h3 : Rec.recNaf cap m1.natAbs w = some a3) :
    simEndom gops ψ (tabOdd gops p (2 ^ (w - 2))) (tabOdd gops q (2 ^ (w - 2)))
      (decide (k0 < 0)) (decide (k1 < 0)) (decide (m0 < 0)) (decide (m1 < 0)) a0 a1 a2 a3 = k • p + m • q := by
  obtain ⟨hv0, hd0, _⟩ := Rec.recNaf_spec cap _ w hw a0 h0
  obtain ⟨hv1, hd1, _⟩ := Rec.recNaf_spec cap _ w hw a1 h1
  obtain ⟨hv2, hd2, _⟩ := Rec.recNaf_spec cap _ w hw a2 h2
  obtain ⟨hv3, hd3, _⟩ := Rec.recNaf_spec cap _ w hw a3 h3
  rw [Relic.Lemmas.EpSim.simEndom_spec ψ p q _ _ _ _ _ a0 a1 a2 a3
    (fun nf hnf d hdm => by
      rw [← two_pow_pred w hw]
      simp only [List.mem_cons, List.not_mem_nil, or_false] at hnf
      rcases hnf with rfl | rfl | rfl | rfl
      · exact hd0 d hdm
      · exact hd1 d hdm
      · exact hd2 d hdm
      · exact hd3 d hdm),
    hv0, hv1, hv2, hv3, sg_natAbs, sg_natAbs, sg_natAbs, sg_natAbs,
    glv_pair_zsmul ψ p n hp lam hψp k k0 k1 hk, add_assoc, glv_pair_zsmul ψ q n hq lam hψq m m0 m1 hm]

/-- ep_mul_sim_lot_plain: every list of (point, scalar) pairs, scalars of any sign and length (no reduction modulo the order):
    negative scalars negate the point, binary NAFs interleaved over l ≥ every NAF length iterations.
    An entry is (P, k, NAF of |k|). -/
theorem mul_sim_lot_plain_correct (L : List (G × ℤ × List ℤ)) (cap l : Nat)
    (h : ∀ t ∈ L, Rec.recNaf cap t.2.1.natAbs 2 = some t.2.2 ∧ t.2.2.length ≤ l) :
    simLotNaf gops (L.map fun t => if t.2.1 < 0 then -t.1 else t.1) (L.map fun t => t.2.2) l
      = (L.map fun t => t.2.1 • t.1).sum := by
  rw [Relic.Lemmas.EpSim.simLotNaf_spec _ _ l (by
    intro nf hnf
    obtain ⟨t, ht, rfl⟩ := List.mem_map.1 hnf
    exact (h t ht).2), List.zip_map', List.map_map]
  congr 1
  apply List.map_congr_left
  intro t ht
  obtain ⟨hv, hd, _⟩ := Rec.recNaf_spec cap _ 2 (le_refl _) _ (h t ht).1
  simp only [Function.comp]
  rw [map_sign_of_small _ (fun d hdm => by rcases hd d hdm with h0 | ⟨_, h1⟩ <;> [(subst h0; simp); (simp at h1; omega)]), hv]
  split
  · rw [smul_neg, ← neg_zsmul]; congr 1; omega
  · congr 1; omega

/-- ep_mul_sim_dig: every list of (point, single-digit scalar) pairs -/
theorem mul_sim_dig_correct (ps : List G) (ks : List Nat) (mx : Nat) (hk : ∀ k ∈ ks, k < 2 ^ mx) :
    simDig gops ps ks mx = ((ps.zip ks).map fun pk => ((pk.2 : ℕ) : ℤ) • pk.1).sum :=
  Relic.Lemmas.EpSim.simDig_spec ps ks mx hk

/-- ep_mul_sim_lot_endom, bucket branch (more than ten points): every list of entries (P, k, k0, k1, NAF of k0, NAF of k1) with
    signed width-w NAFs (the code negates the digit string of a negative sub-scalar), ψ(P) = λ•P, k0 + k1·λ ≡ k (mod n):
    Σ k•P -/
theorem mul_sim_lot_bucket_correct (ψ : G →+ G) (n : Nat) (lam : ℤ) (c l : Nat)
    (L : List (G × ℤ × (ℤ × ℤ) × (List ℤ × List ℤ)))
    (hP : ∀ t ∈ L, (n : ℤ) • t.1 = 0 ∧ ψ t.1 = lam • t.1 ∧ (n : ℤ) ∣ t.2.2.1.1 + t.2.2.1.2 * lam - t.2.1)
    (hv : ∀ t ∈ L, Rec.eval 1 t.2.2.2.1 = t.2.2.1.1 ∧ Rec.eval 1 t.2.2.2.2 = t.2.2.1.2)
    (hd : ∀ t ∈ L, (∀ d ∈ t.2.2.2.1, d = 0 ∨ (d % 2 ≠ 0 ∧ d.natAbs < 2 * c)) ∧ (∀ d ∈ t.2.2.2.2, d = 0 ∨ (d % 2 ≠ 0 ∧ d.natAbs < 2 * c)))
    (hl : ∀ t ∈ L, t.2.2.2.1.length ≤ l ∧ t.2.2.2.2.length ≤ l) :
    simLotBucket gops ψ (L.map fun t => t.1) (L.map fun t => t.2.2.2) c l = (L.map fun t => t.2.1 • t.1).sum := by
  rw [Relic.Lemmas.EpSim.simLotBucket_spec ψ _ _ c l
    (by intro nf hnf; obtain ⟨t, ht, rfl⟩ := List.mem_map.1 hnf; exact hd t ht)
    (by intro nf hnf; obtain ⟨t, ht, rfl⟩ := List.mem_map.1 hnf; exact hl t ht), List.zip_map', List.map_map]
  congr 1
  apply List.map_congr_left
  intro t ht
  obtain ⟨hn, hψ, hk⟩ := hP t ht
  simp only [Function.comp]
  rw [(hv t ht).1, (hv t ht).2]
  exact glv_pair_zsmul ψ t.1 n hn lam hψ _ _ _ hk

/-- hypotheses of the endomorphism theorems are satisfiable: on ℤ/7 with ψ = multiplication by 2 (2² + 2 + 1 = 7) -/
example : ∃ (ψ : ℤ →+ ℤ), ψ 1 = 2 • (1 : ℤ) := ⟨(2 : ℤ) • AddMonoidHom.id ℤ, by simp⟩

/-- non-vacuity: the comb on the integers, n = 13, l = 2 columns, d = 2 rows -/
example : mulCombsPlain (gops : Ops ℤ) (tabCombs gops 1 2 2) 11 2 2 = 11 := by decide
example : mulCombd (gops : Ops ℤ) (tabCombd gops 1 2 1 2) 11 2 1 2 = 11 := by decide

/-- non-vacuity: the loops run on the integers (an additive commutative group) -/
example : mulSigned (gops : Ops ℤ) (tabOdd gops 1 4) 0 [7, 0, 0, 0, 0, -5] = -153 := by decide

end Relic.Props.C03
