/-
C03 — every scalar multiplication equals [k]P (algorithm level).
The loops of Model/MulAlg.lean mirror ep_mul_basic / slide / monty / lwnaf / lwreg, ep_mul_fix_basic,
ep_mul_sim_trick / inter / joint. Over an arbitrary additive commutative group they compute the integer
their recoding denotes times the base point; combined with the recoding theorems of C09 this is k • P for
every integer k and every point of a group killed by n.
The coordinate-system formulas (add/dbl in affine, projective, Jacobian coordinates) are compared with the
affine group law by the correspondence run; see DESIGN.md for the translator tie.
-/
import RelicVerif.Lemmas.MulAlg

namespace Relic.Props.C03
open Relic.Model Relic.Model.MulAlg

variable {G : Type} [AddCommGroup G]

/-- ep_mul_lwnaf / ep_mul_fix_lwnaf on plain curves: reduce k modulo n, recode in width-w NAF, table of odd
    multiples, signed left-to-right loop, final negation for k < 0 is inside `k % n`. Any integer k. -/
theorem mul_lwnaf_correct (p : G) (n : Nat) (hn0 : 0 < n) (hn : (n : ℤ) • p = 0) (k : ℤ) (w : Nat) (hw : 2 ≤ w)
    (cap : Nat) (ds : List Int) (h : Rec.recNaf cap (k % n).toNat w = some ds) :
    mulSigned gops (tabOdd gops p (2 ^ (w - 2))) 0 ds = k • p := by
  sorry

/-- ep_mul_basic: binary NAF (w = 2) with the one-entry table [P], sign applied at the end -/
theorem mul_basic_correct (p : G) (k : ℤ) (cap : Nat) (ds : List Int) (h : Rec.recNaf cap k.natAbs 2 = some ds) :
    (if k < 0 then -(mulSigned gops [p] 0 ds) else mulSigned gops [p] 0 ds) = k • p := by
  sorry

/-- ep_mul_slide: reduce modulo n, sliding windows of width w, table of odd multiples up to 2^w - 1 -/
theorem mul_slide_correct (p : G) (n : Nat) (hn0 : 0 < n) (hn : (n : ℤ) • p = 0) (k : ℤ) (w : Nat) (hw : 1 ≤ w)
    (cap : Nat) (win : List Int) (h : Rec.recSlw cap (k % n).toNat w = some win) :
    mulSlide gops (tabOdd gops p (2 ^ (w - 1))) 0 win = k • p := by
  sorry

/-- ep_mul_monty: l = (k mod n) + n or + 2n, whichever has exactly bits(n) + 1 bits; ladder over its lower bits -/
theorem mul_monty_correct (p : G) (n : Nat) (hn : (n : ℤ) • p = 0) (k : ℤ) (l : Nat) (hl : (l : ℤ) % n = k % n)
    (bits : List Bool) (hbits : (2 ^ bits.length + bitsVal bits : ℤ) = l) :
    mulLadder gops p bits = k • p := by
  sorry

/-- ep_mul_lwreg on plain curves (after the repair): regular recoding of (|k| mod n) | 1, parity correction,
    sign applied at the end -/
theorem mul_lwreg_correct (p : G) (n : Nat) (hn0 : 0 < n) (hn : (n : ℤ) • p = 0) (k : ℤ) (w nb : Nat) (hw : 3 ≤ w)
    (hnb : n < 2 ^ nb) (cap : Nat) (reg : List Int)
    (h : Rec.recReg cap ((k.natAbs % n) ||| 1) nb w = some reg) :
    let r := mulReg gops (tabOdd gops p (2 ^ (w - 2))) 0 w reg ((k.natAbs % n) % 2 = 0) p
    (if k < 0 then -r else r) = k • p := by
  sorry

/-- ep_mul_fix_basic: precomputed 2^i·P, one addition per set bit of k mod n -/
theorem mul_fix_basic_correct (p : G) (n : Nat) (hn0 : 0 < n) (hn : (n : ℤ) • p = 0) (k : ℤ) (nb : Nat) (hnb : n < 2 ^ nb) :
    mulFixBasic gops (tabPow2 gops p nb) 0 (k % n).toNat = k • p := by
  sorry

/-- ep_mul_sim_trick: both scalars reduced modulo n, fixed windows of width w, table of i·P + j·Q -/
theorem mul_sim_trick_correct (p q : G) (n : Nat) (hn0 : 0 < n) (hp : (n : ℤ) • p = 0) (hq : (n : ℤ) • q = 0) (k m : ℤ) (w : Nat) (hw : 0 < w)
    (cap : Nat) (w0 w1 : List Int) (hk : 0 < (k % n).toNat) (hm : 0 < (m % n).toNat)
    (h0 : Rec.recWin cap (k % n).toNat w = some w0) (h1 : Rec.recWin cap (m % n).toNat w = some w1) :
    simTrick gops (tabTrick gops p q w) 0 w w0 w1 = k • p + m • q := by
  sorry

/-- ep_mul_sim_inter (plain curves): two width-w NAFs interleaved -/
theorem mul_sim_inter_correct (p q : G) (n : Nat) (hn0 : 0 < n) (hp : (n : ℤ) • p = 0) (hq : (n : ℤ) • q = 0) (k m : ℤ) (w : Nat) (hw : 2 ≤ w)
    (cap : Nat) (n0 n1 : List Int)
    (h0 : Rec.recNaf cap (k % n).toNat w = some n0) (h1 : Rec.recNaf cap (m % n).toNat w = some n1) :
    simInter gops (tabOdd gops p (2 ^ (w - 2))) (tabOdd gops q (2 ^ (w - 2))) 0 n0 n1 = k • p + m • q := by
  sorry

/-- ep_mul_sim_joint: joint sparse form of (k mod n, m mod n) -/
theorem mul_sim_joint_correct (p q : G) (n : Nat) (hn0 : 0 < n) (hp : (n : ℤ) • p = 0) (hq : (n : ℤ) • q = 0) (k m : ℤ)
    (cap : Nat) (j0 j1 : List Int) (h : Rec.recJsf cap (k % n).toNat (m % n).toNat = some (j0, j1)) :
    simJoint gops p q j0 j1 = k • p + m • q := by
  sorry

/-- non-vacuity: the loops run on the integers (an additive commutative group) -/
example : mulSigned (gops : Ops ℤ) (tabOdd gops 1 4) 0 [7, 0, 0, 0, 0, -5] = -153 := by decide

end Relic.Props.C03
