/-
C04, class A part — the final exponentiation AS CODED.

The definitions `Relic.Gen.PpExp.pp_exp_bn / pp_exp_sm9 / pp_exp_b12 / pp_exp_k12 / fp12_conv_cyc` are regenerated from
src/pp/relic_pp_exp_k12.c and src/fpx/relic_fpx_cyc.c on every run (tools/translate_pp.py); `expCycSps` is the hand model
of fp12_exp_cyc_sps (Model/PpExp.lean).  The driver executes the same definitions with its own Fp12 arithmetic on every
presented line (`fexp`, `fcyc`, `expsps`) and compares with the library.

Setting of the theorems: a commutative group G (the unit group of Fp12), `frb a i = a^(p^i)`, conjugation `a ↦ a^(p^6)`,
and a^(p^12) = a.  `pp_exp_*_field` instantiate G with the units of ANY finite field with p^12 elements.
Statement: chain(f) = f^(c · (p^12 − 1)/r) with c = 2x(6x²+3x+1) (BN), 1 (SM9), 3 (BLS12) and gcd(c, r) = 1 for EVERY x,
so the value is a fixed power, prime to r, of the reduced pairing f^((p^12−1)/r): bilinearity and non-degeneracy carry over
(`pow_coprime_nondegenerate`).
-/
import Mathlib.FieldTheory.Finite.Basic
import Mathlib.RingTheory.Coprime.Lemmas
import RelicVerif.Lemmas.PpExp
import RelicVerif.Lemmas.PpMiller
import RelicVerif.Lemmas.PpLine

namespace Relic.Props.C04B
open Relic.Model.PpExp Relic.Gen.PpExp Relic.Lemmas.PpExp

section group
variable {G : Type} [CommGroup G] {p : ℕ}

/-- fp12_exp_cyc_sps (hand model, loop for loop) raises a cyclotomic element to the integer its sparse form denotes, negated
    for sign = RLC_NEG; no assumption on the list (ascending or not, any signs, empty) -/
theorem exp_cyc_sps_value (a : G) (ha : a ^ (p ^ 6) = a⁻¹) (b : List ℤ) (neg : Bool) :
    expCycSps (grpOps G p) a b neg = a ^ (if neg then -spsVal b else spsVal b) := by
  have := expCycSps_zpow (p := p) ha 1 b neg
  rwa [zpow_one, one_mul] at this

/-- fp12_conv_cyc (generated) is the easy part of the final exponentiation -/
theorem conv_cyc_value (f : G) : fp12_conv_cyc (grpOps G p) f = f ^ (((p : ℤ) ^ 6 - 1) * ((p : ℤ) ^ 2 + 1)) :=
  conv_cyc_eq f

/-- the easy part lands in the cyclotomic subgroup: conjugation inverts it and p^4 − p^2 + 1 kills it -/
theorem easy_part_cyclotomic (f : G) (hf : f ^ (p ^ 12) = f) :
    (fp12_conv_cyc (grpOps G p) f) ^ (p ^ 6) = (fp12_conv_cyc (grpOps G p) f)⁻¹ ∧
    (fp12_conv_cyc (grpOps G p) f) ^ ((p : ℤ) ^ 4 - (p : ℤ) ^ 2 + 1) = 1 := by
  rw [conv_cyc_eq]; exact ⟨easy_cyclotomic f hf, easy_phi12 f hf⟩

/-- (p^12 − 1)/r written with the cofactor h of r in p^4 − p^2 + 1 -/
theorem final_exponent_split (r h : ℤ) (hr0 : r ≠ 0) (hh : h * r = (p : ℤ) ^ 4 - (p : ℤ) ^ 2 + 1) :
    ((p : ℤ) ^ 12 - 1) / r = easyExp p * h := by
  apply Int.ediv_eq_of_eq_mul_left hr0
  rw [mul_assoc, hh]; unfold easyExp; ring

/-- **BN chain as coded** = f^(2x(6x²+3x+1) · (p^12−1)/r), x of either sign -/
theorem pp_exp_bn_value (x r h : ℤ) (hp : (p : ℤ) = 36 * x ^ 4 + 36 * x ^ 3 + 24 * x ^ 2 + 6 * x + 1)
    (hr : r = 36 * x ^ 4 + 36 * x ^ 3 + 18 * x ^ 2 + 6 * x + 1) (hh : h * r = (p : ℤ) ^ 4 - (p : ℤ) ^ 2 + 1)
    (b : List ℤ) (hb : spsVal b = |x|) (f : G) (hf : f ^ (p ^ 12) = f) :
    pp_exp_bn (grpOps G p) (decide (x < 0)) b f = f ^ ((2 * x * (6 * x ^ 2 + 3 * x + 1)) * (((p : ℤ) ^ 12 - 1) / r)) := by
  have hr0 : r ≠ 0 := by
    have : r = 2 * (18 * x ^ 4 + 18 * x ^ 3 + 9 * x ^ 2 + 3 * x) + 1 := by rw [hr]; ring
    omega
  rw [final_exponent_split r h hr0 hh]
  exact pp_exp_bn_eq x r h hp hr hh b hb f hf

/-- **SM9 chain as coded** = f^((p^12−1)/r), for x ≥ 0 -/
theorem pp_exp_sm9_value (x r h : ℤ) (hx : 0 ≤ x) (hp : (p : ℤ) = 36 * x ^ 4 + 36 * x ^ 3 + 24 * x ^ 2 + 6 * x + 1)
    (hr : r = 36 * x ^ 4 + 36 * x ^ 3 + 18 * x ^ 2 + 6 * x + 1) (hh : h * r = (p : ℤ) ^ 4 - (p : ℤ) ^ 2 + 1)
    (xneg : Bool) (b : List ℤ) (hb : spsVal b = |x|) (f : G) (hf : f ^ (p ^ 12) = f) :
    pp_exp_sm9 (grpOps G p) xneg b f = f ^ (((p : ℤ) ^ 12 - 1) / r) := by
  have hr0 : r ≠ 0 := by
    have : r = 2 * (18 * x ^ 4 + 18 * x ^ 3 + 9 * x ^ 2 + 3 * x) + 1 := by rw [hr]; ring
    omega
  rw [final_exponent_split r h hr0 hh]
  exact pp_exp_sm9_eq x r h hx hp hr hh xneg b hb f hf

/-- **BLS12 chain as coded** = f^(3 · (p^12−1)/r), x of either sign, odd and even parameter (both branches of the code) -/
theorem pp_exp_b12_value (x r h : ℤ) (hp : 3 * (p : ℤ) = (x - 1) ^ 2 * (x ^ 4 - x ^ 2 + 1) + 3 * x)
    (hr : r = x ^ 4 - x ^ 2 + 1) (hh : h * r = (p : ℤ) ^ 4 - (p : ℤ) ^ 2 + 1)
    (b : List ℤ) (hb : spsVal b = |x|) (hbs : b.head? ≠ some 0 → ∀ bi ∈ b, 1 ≤ bi ∨ bi ≤ -2)
    (f : G) (hf : f ^ (p ^ 12) = f) :
    pp_exp_b12 (grpOps G p) (decide (x < 0)) b f = f ^ (3 * (((p : ℤ) ^ 12 - 1) / r)) := by
  have hr0 : r ≠ 0 := by
    have h1 : r = (x ^ 2 - 1) ^ 2 + x ^ 2 := by rw [hr]; ring
    have h2 : 0 ≤ (x ^ 2 - 1) ^ 2 := sq_nonneg _
    have h3 : 0 ≤ x ^ 2 := sq_nonneg _
    intro h0
    have h4 : x ^ 2 = 0 := by omega
    have h5 : (x ^ 2 - 1) ^ 2 = 0 := by omega
    rw [h4] at h5; norm_num at h5
  rw [final_exponent_split r h hr0 hh]
  exact pp_exp_b12_eq x r h hp hr hh b hb hbs f hf

omit [CommGroup G] in
/-- the dispatcher pp_exp_k12 (generated): which chain runs for which family / parameter name -/
theorem pp_exp_k12_dispatch (o : CycOps G) (par : String) (xneg : Bool) (b : List ℤ) (f : G) :
    pp_exp_k12 o "EP_BN" "SM9_P256" xneg b f = some (pp_exp_sm9 o xneg b f) ∧
    (par ≠ "SM9_P256" → pp_exp_k12 o "EP_BN" par xneg b f = some (pp_exp_bn o xneg b f)) ∧
    pp_exp_k12 o "EP_B12" par xneg b f = some (pp_exp_b12 o xneg b f) := by
  refine ⟨by simp [pp_exp_k12], fun h => by simp [pp_exp_k12, h], by simp [pp_exp_k12]⟩

/-- a power prime to r of a non-trivial element of order dividing r is non-trivial: the values of the coded chains
    (c-th powers of the reduced pairing, gcd(c, r) = 1) are as non-degenerate as the reduced pairing itself -/
theorem pow_coprime_nondegenerate (g : G) (c r : ℤ) (hc : IsCoprime c r) (hg : g ^ r = 1) (h1 : g ^ c = 1) : g = 1 := by
  obtain ⟨u, v, huv⟩ := hc
  have : g ^ (u * c + v * r) = 1 := by
    rw [zpow_add, mul_comm u c, mul_comm v r, zpow_mul, zpow_mul, h1, hg, one_zpow, one_zpow, one_mul]
  rwa [huv, zpow_one] at this

end group

section constants

/-- the BN constant c = 2x(6x²+3x+1) is prime to r(x) for EVERY integer x -/
theorem bn_c_coprime (x : ℤ) :
    IsCoprime (2 * x * (6 * x ^ 2 + 3 * x + 1)) (36 * x ^ 4 + 36 * x ^ 3 + 18 * x ^ 2 + 6 * x + 1) := by
  have h2 : IsCoprime (2 : ℤ) (36 * x ^ 4 + 36 * x ^ 3 + 18 * x ^ 2 + 6 * x + 1) :=
    ⟨-(18 * x ^ 4 + 18 * x ^ 3 + 9 * x ^ 2 + 3 * x), 1, by ring⟩
  have hx : IsCoprime x (36 * x ^ 4 + 36 * x ^ 3 + 18 * x ^ 2 + 6 * x + 1) :=
    ⟨-(36 * x ^ 3 + 36 * x ^ 2 + 18 * x + 6), 1, by ring⟩
  -- t = 6x²+3x+1:  r = t² − 3x²,  1 = (t − 3(2x²+x)) and 1 = t − x(6x+3): t is prime to 3 and to x, hence to 3x², hence to r
  have ht3 : IsCoprime (6 * x ^ 2 + 3 * x + 1) (3 : ℤ) := ⟨1, -(2 * x ^ 2 + x), by ring⟩
  have htx : IsCoprime (6 * x ^ 2 + 3 * x + 1) x := ⟨1, -(6 * x + 3), by ring⟩
  have ht : IsCoprime (6 * x ^ 2 + 3 * x + 1) (36 * x ^ 4 + 36 * x ^ 3 + 18 * x ^ 2 + 6 * x + 1) := by
    have h3x : IsCoprime (6 * x ^ 2 + 3 * x + 1) (-(3 * x * x)) := ((ht3.mul_right htx).mul_right htx).neg_right
    have := h3x.add_mul_left_right (6 * x ^ 2 + 3 * x + 1)
    have e : 36 * x ^ 4 + 36 * x ^ 3 + 18 * x ^ 2 + 6 * x + 1
        = -(3 * x * x) + (6 * x ^ 2 + 3 * x + 1) * (6 * x ^ 2 + 3 * x + 1) := by ring
    rw [e]; exact this
  exact (h2.mul_left hx).mul_left ht

/-- the BLS12 constant 3 is prime to r(x) = x⁴ − x² + 1 for EVERY integer x -/
theorem b12_c_coprime (x : ℤ) : IsCoprime (3 : ℤ) (x ^ 4 - x ^ 2 + 1) := by
  obtain ⟨q, hq⟩ : ∃ q, x = 3 * q ∨ x = 3 * q + 1 ∨ x = 3 * q + 2 := ⟨x / 3, by omega⟩
  rcases hq with rfl | rfl | rfl
  · exact ⟨-(27 * q ^ 4 - 3 * q ^ 2), 1, by ring⟩
  · exact ⟨-((3 * q + 1) ^ 2 * (3 * q ^ 2 + 2 * q)), 1, by ring⟩
  · exact ⟨-((3 * q + 2) ^ 2 * (3 * q ^ 2 + 4 * q + 1)), 1, by ring⟩

/-- hypothesis `hh` of the BN theorems is satisfiable for every x: r(x) divides p(x)⁴ − p(x)² + 1 in ℤ[x] -/
theorem bn_r_dvd_phi12 (x : ℤ) :
    (36 * x ^ 4 + 36 * x ^ 3 + 18 * x ^ 2 + 6 * x + 1) ∣
      (36 * x ^ 4 + 36 * x ^ 3 + 24 * x ^ 2 + 6 * x + 1) ^ 4 - (36 * x ^ 4 + 36 * x ^ 3 + 24 * x ^ 2 + 6 * x + 1) ^ 2 + 1 :=
  ⟨46656 * x^12 + 139968 * x^11 + 241056 * x^10 + 272160 * x^9 + 225504 * x^8 + 138672 * x^7 + 65448 * x^6 + 23112 * x^5 + 6264 * x^4 + 1188 * x^3 + 174 * x^2 + 6 * x + 1, by ring⟩

end constants

section field
variable {K : Type} [Field K] [Fintype K] {p : ℕ}

/-- in a field with p^12 elements the twelfth power of the p-power map is the identity on units -/
theorem units_frob12 (hK : Fintype.card K = p ^ 12) (f : Kˣ) : f ^ (p ^ 12) = f := by
  ext; rw [Units.val_pow_eq_pow_val, ← hK, FiniteField.pow_card]

/-- the value of every chain has order dividing r (any group with a^(p^12) = a) -/
theorem final_power_torsion {G : Type} [CommGroup G] (f : G) (hf : f ^ (p ^ 12) = f) (c r : ℤ) (hdiv : r ∣ (p : ℤ) ^ 12 - 1) :
    (f ^ (c * (((p : ℤ) ^ 12 - 1) / r))) ^ r = 1 := by
  have h1 : f ^ ((p : ℤ) ^ 12 - 1) = 1 := by
    rw [zpow_sub, zpow_one]
    have : f ^ ((p : ℤ) ^ 12) = f := by exact_mod_cast hf
    rw [this, mul_inv_cancel]
  rw [← zpow_mul, mul_assoc, Int.ediv_mul_cancel hdiv, mul_comm, zpow_mul, h1, one_zpow]

/-- the easy part of the final exponentiation of ANY non-zero element of a field with p^12 elements is killed by
    p^4 − p^2 + 1 (it lies in the cyclotomic subgroup), by the code as generated -/
theorem easy_part_cyclotomic_field (hK : Fintype.card K = p ^ 12) (f : Kˣ) :
    (fp12_conv_cyc (grpOps Kˣ p) f) ^ ((p : ℤ) ^ 4 - (p : ℤ) ^ 2 + 1) = 1 :=
  (easy_part_cyclotomic f (units_frob12 hK f)).2

/-- BN chain in a field with p^12 elements -/
theorem pp_exp_bn_field (hK : Fintype.card K = p ^ 12) (x r h : ℤ)
    (hp : (p : ℤ) = 36 * x ^ 4 + 36 * x ^ 3 + 24 * x ^ 2 + 6 * x + 1)
    (hr : r = 36 * x ^ 4 + 36 * x ^ 3 + 18 * x ^ 2 + 6 * x + 1) (hh : h * r = (p : ℤ) ^ 4 - (p : ℤ) ^ 2 + 1)
    (b : List ℤ) (hb : spsVal b = |x|) (f : Kˣ) :
    pp_exp_bn (grpOps Kˣ p) (decide (x < 0)) b f = f ^ ((2 * x * (6 * x ^ 2 + 3 * x + 1)) * (((p : ℤ) ^ 12 - 1) / r)) :=
  pp_exp_bn_value x r h hp hr hh b hb f (units_frob12 hK f)

/-- SM9 chain in a field with p^12 elements -/
theorem pp_exp_sm9_field (hK : Fintype.card K = p ^ 12) (x r h : ℤ) (hx : 0 ≤ x)
    (hp : (p : ℤ) = 36 * x ^ 4 + 36 * x ^ 3 + 24 * x ^ 2 + 6 * x + 1)
    (hr : r = 36 * x ^ 4 + 36 * x ^ 3 + 18 * x ^ 2 + 6 * x + 1) (hh : h * r = (p : ℤ) ^ 4 - (p : ℤ) ^ 2 + 1)
    (xneg : Bool) (b : List ℤ) (hb : spsVal b = |x|) (f : Kˣ) :
    pp_exp_sm9 (grpOps Kˣ p) xneg b f = f ^ (((p : ℤ) ^ 12 - 1) / r) :=
  pp_exp_sm9_value x r h hx hp hr hh xneg b hb f (units_frob12 hK f)

/-- BLS12 chain in a field with p^12 elements -/
theorem pp_exp_b12_field (hK : Fintype.card K = p ^ 12) (x r h : ℤ)
    (hp : 3 * (p : ℤ) = (x - 1) ^ 2 * (x ^ 4 - x ^ 2 + 1) + 3 * x)
    (hr : r = x ^ 4 - x ^ 2 + 1) (hh : h * r = (p : ℤ) ^ 4 - (p : ℤ) ^ 2 + 1)
    (b : List ℤ) (hb : spsVal b = |x|) (hbs : b.head? ≠ some 0 → ∀ bi ∈ b, 1 ≤ bi ∨ bi ≤ -2) (f : Kˣ) :
    pp_exp_b12 (grpOps Kˣ p) (decide (x < 0)) b f = f ^ (3 * (((p : ℤ) ^ 12 - 1) / r)) :=
  pp_exp_b12_value x r h hp hr hh b hb hbs f (units_frob12 hK f)

end field

/-! ### the Miller loops as coded (Model/PpMiller.lean, hand models executed by the driver) over an abstract Miller algebra

`L2 t p` / `L t q p`: tangent / chord line values; the line functions of the code return the line value together with the
doubled / added point (`algOps`).  Proved: loop structure, digit and sign handling, running point.  NOT proved: that the
recurrence's value is the Miller function with divisor s(Q) − ([s]Q) − (s−1)(O) and hence bilinearity (divisor theory). -/
section miller
open Relic.Model.PpMiller Relic.Lemmas.PpMiller
variable {F T P : Type} [CommMonoid F] [AddCommGroup T] (L2 : T → P → F) (L : T → T → P → F)

/-- **pp_mil_k12 as coded** (NAF digits, peeled first iteration, inner loop over the pairs) computes the canonical
    recurrence f ← f²·l_{[n]Q,[n]Q}(P), n ← 2n; digit ±1: f ← f·l_{[n]Q,±Q}(P), n ← n ± 1 from (1, 1), with the lines taken at
    the integer multiples, and leaves every running point at [s]Q, s the integer the digits denote -/
theorem mil_k12_recurrence (pairs : List (T × P)) (hp : pairs ≠ []) (naf : List ℤ) (d1 : ℤ) (ds : List ℤ)
    (hn : naf.reverse = 1 :: d1 :: ds) (hd : ∀ d ∈ naf, d = -1 ∨ d = 0 ∨ d = 1) :
    milK12 (algOps L2 L) pairs naf
      = some ((fRecM L2 L pairs (d1 :: ds) (1, 1)).1, atIndex pairs (Relic.Model.Rec.eval 1 naf)) := by
  rw [milK12_alg L2 L pairs hp naf 1 d1 ds hn]
  have hd' : ∀ d ∈ d1 :: ds, d = -1 ∨ d = 0 ∨ d = 1 := by
    intro d hmem
    apply hd d
    have : d ∈ naf.reverse := by rw [hn]; exact List.mem_cons_of_mem _ hmem
    exact List.mem_reverse.mp this
  rw [fRecM_index L2 L pairs (d1 :: ds) hd' 1 1]
  have := eval_reverse naf
  rw [hn] at this
  simp only [List.foldl_cons, mul_zero, zero_add] at this
  rw [List.foldl_cons, this]

/-- **pp_mil_lit_k12 as coded** (plain bits below the top bit) computes the same recurrence from (r, 1) and leaves the running
    points at [a]P -/
theorem mil_lit_recurrence (pairs : List (T × P)) (r : F) (a : ℕ) (ha : a ≠ 0) :
    ∃ bits : List ℤ, (∀ d ∈ bits, d = 0 ∨ d = 1) ∧ bits.foldl (fun acc d => 2 * acc + d) 1 = (a : ℤ) ∧
      milLit (algOps L2 L) pairs r a = ((fRecM L2 L pairs bits (r, 1)).1, atIndex pairs (a : ℤ)) := by
  refine ⟨(List.range (Relic.Model.Rec.bitLen a - 1)).reverse.map fun i => if a.testBit i then (1 : ℤ) else 0, ?_, bits_index a ha, ?_⟩
  · intro d hmem
    simp only [List.mem_map] at hmem
    obtain ⟨i, _, rfl⟩ := hmem
    split <;> simp
  · rw [milLit_alg, fRecM_index, bits_index a ha]
    intro d hmem
    simp only [List.mem_map] at hmem
    obtain ⟨i, _, rfl⟩ := hmem
    split <;> simp

/-- **the multi-pairing Miller loop is the product of the single-pair loops** (same digits): with `final_exp_mul` of
    Props/C04.lean, one final exponentiation of the shared loop = the product of the pairings -/
theorem mil_multi_is_product (pairs : List (T × P)) (ds : List ℤ) :
    (fRecM L2 L pairs ds (1, 1)).1 = (pairs.map fun qp => (fRecM L2 L [qp] ds (1, 1)).1).prod := by
  have := (fRecM_prod L2 L pairs ds (fun _ => 1) 1).1
  simpa using this

end miller

/-! ### the line functions as coded (generated from the C text: Gen/PpLine.lean), general-b branch, over any field K ⊇ Fp

Each theorem: the three written slots of the sparse element are s × (the coefficients of the affine tangent / chord through the
running point evaluated at the other argument) with an explicit s ≠ 0 in the field of the running point's coordinates, the
fourth slot stays the caller's zero, and the updated running point (homogeneous projective) is the tangent / chord point of
the affine law (`tangX`/`tangY`/`chordX`/`chordY` of Lemmas/EpFormulas.lean, a = 0).  Hypotheses: characteristic ≠ 2, the running
point finite with y ≠ 0 and on its curve (doubling) resp. not sharing its x-coordinate with the added point (addition). -/
section lines
open Relic.Gen.PpLine Relic.Lemmas.PpLine Relic.Lemmas.EpFormulas Relic.Model.Formula
variable {K : Type} [Field K] [DecidableEq K]
/-- pp_dbl_k12_projc_lazyr (running point T = (X : Y : Z) on the twist, evaluated at P = (xP, yP) given precomputed as (3xP, −yP)) -/
theorem pp_dbl_k12_projc_lazyr_line (b X Y Z xP yP : K) (h2 : (2 : K) ≠ 0) (hY : Y ≠ 0) (hZ : Z ≠ 0) (hc : Y ^ 2 * Z = X ^ 3 + b * Z ^ 3) :
    let o := pp_dbl_k12_projc_lazyr fieldOps b X Y Z (3 * xP) (-yP)
    let lam := 3 * (X / Z) ^ 2 / (2 * (Y / Z))
    let s := -(2 * Y * Z)
    s ≠ 0 ∧ o.l00 = s * yP ∧ o.l10 = s * (-(lam * xP)) ∧ o.l11 = s * (lam * (X / Z) - Y / Z) ∧ o.l01 = 0 ∧
      o.z ≠ 0 ∧ o.x / o.z = tangX 0 (X / Z) (Y / Z) ∧ o.y / o.z = tangY 0 (X / Z) (Y / Z) := by
  have ⟨c00, c01, c10, c11, cx, cy, cz⟩ := pp_dbl_k12_projc_lazyr_closed b X Y Z (3 * xP) (-yP)
  have ⟨hs, h11, h10, hz, hx, hy⟩ := tangent_core b X Y Z h2 hY hZ hc
  refine ⟨hs, ?_, ?_, ?_, c01, ?_, ?_, ?_⟩
  · rw [c00]; ring
  · rw [c10, ← h10 xP]; ring
  · rw [c11, h11]
  · rw [cz]; exact hz
  · rw [cx, cz]; exact hx
  · rw [cy, cz]; exact hy
/-- pp_dbl_k12_projc_basic (running point T = (X : Y : Z) on the twist, evaluated at P = (xP, yP) given precomputed as (3xP, −yP)) -/
theorem pp_dbl_k12_projc_basic_line (b X Y Z xP yP : K) (h2 : (2 : K) ≠ 0) (hY : Y ≠ 0) (hZ : Z ≠ 0) (hc : Y ^ 2 * Z = X ^ 3 + b * Z ^ 3) :
    let o := pp_dbl_k12_projc_basic fieldOps b X Y Z (3 * xP) (-yP)
    let lam := 3 * (X / Z) ^ 2 / (2 * (Y / Z))
    let s := -(2 * Y * Z)
    s ≠ 0 ∧ o.l00 = s * yP ∧ o.l10 = s * (-(lam * xP)) ∧ o.l11 = s * (lam * (X / Z) - Y / Z) ∧ o.l01 = 0 ∧
      o.z ≠ 0 ∧ o.x / o.z = tangX 0 (X / Z) (Y / Z) ∧ o.y / o.z = tangY 0 (X / Z) (Y / Z) := by
  have ⟨c00, c01, c10, c11, cx, cy, cz⟩ := pp_dbl_k12_projc_basic_closed b X Y Z (3 * xP) (-yP)
  have ⟨hs, h11, h10, hz, hx, hy⟩ := tangent_core b X Y Z h2 hY hZ hc
  refine ⟨hs, ?_, ?_, ?_, c01, ?_, ?_, ?_⟩
  · rw [c00]; ring
  · rw [c10, ← h10 xP]; ring
  · rw [c11, h11]
  · rw [cz]; exact hz
  · rw [cx, cz]; exact hx
  · rw [cy, cz]; exact hy
/-- pp_add_k12_projc_lazyr (running point T = (X : Y : Z) on the twist, Q = (x₂, y₂) affine, evaluated at P = (xP, yP)) -/
theorem pp_add_k12_projc_lazyr_line (X Y Z x2 y2 xP yP : K) (hZ : Z ≠ 0) (hv : X - Z * x2 ≠ 0) :
    let o := pp_add_k12_projc_lazyr fieldOps X Y Z x2 y2 xP yP
    let lam := (y2 - Y / Z) / (x2 - X / Z)
    let s := X - Z * x2
    s ≠ 0 ∧ o.l00 = s * yP ∧ o.l10 = s * (-(lam * xP)) ∧ o.l11 = s * (lam * x2 - y2) ∧ o.l01 = 0 ∧
      o.z ≠ 0 ∧ o.x / o.z = chordX (X / Z) (Y / Z) x2 y2 ∧ o.y / o.z = chordY (X / Z) (Y / Z) x2 y2 := by
  have ⟨c00, c01, c10, c11, cx, cy, cz⟩ := pp_add_k12_projc_lazyr_closed X Y Z x2 y2 xP yP
  have ⟨h11, h10, hz, hx, hy⟩ := chord_core X Y Z x2 y2 hZ hv
  refine ⟨hv, c00, ?_, ?_, c01, ?_, ?_, ?_⟩
  · rw [c10, ← h10 xP]
  · rw [c11, h11]
  · rw [cz]; exact hz
  · rw [cx, cz]; exact hx
  · rw [cy, cz]; exact hy
/-- pp_add_k12_projc_basic (running point T = (X : Y : Z) on the twist, Q = (x₂, y₂) affine, evaluated at P = (xP, yP)) -/
theorem pp_add_k12_projc_basic_line (X Y Z x2 y2 xP yP : K) (hZ : Z ≠ 0) (hv : X - Z * x2 ≠ 0) :
    let o := pp_add_k12_projc_basic fieldOps X Y Z x2 y2 xP yP
    let lam := (y2 - Y / Z) / (x2 - X / Z)
    let s := X - Z * x2
    s ≠ 0 ∧ o.l00 = s * yP ∧ o.l10 = s * (-(lam * xP)) ∧ o.l11 = s * (lam * x2 - y2) ∧ o.l01 = 0 ∧
      o.z ≠ 0 ∧ o.x / o.z = chordX (X / Z) (Y / Z) x2 y2 ∧ o.y / o.z = chordY (X / Z) (Y / Z) x2 y2 := by
  have ⟨c00, c01, c10, c11, cx, cy, cz⟩ := pp_add_k12_projc_basic_closed X Y Z x2 y2 xP yP
  have ⟨h11, h10, hz, hx, hy⟩ := chord_core X Y Z x2 y2 hZ hv
  refine ⟨hv, c00, ?_, ?_, c01, ?_, ?_, ?_⟩
  · rw [c10, ← h10 xP]
  · rw [c11, h11]
  · rw [cz]; exact hz
  · rw [cx, cz]; exact hx
  · rw [cy, cz]; exact hy
/-- pp_dbl_lit_k12 (running point T = (X : Y : Z) in G1, evaluated at Q = (xe, ye) on the twist, passed negated as the loop does) -/
theorem pp_dbl_lit_k12_line (b X Y Z xe ye : K) (h2 : (2 : K) ≠ 0) (hY : Y ≠ 0) (hZ : Z ≠ 0) (hc : Y ^ 2 * Z = X ^ 3 + b * Z ^ 3) :
    let o := pp_dbl_lit_k12 fieldOps b X Y Z xe (-ye)
    let lam := 3 * (X / Z) ^ 2 / (2 * (Y / Z))
    let s := -(2 * Y * Z)
    s ≠ 0 ∧ o.l00 = s * (lam * (X / Z) - Y / Z) ∧ o.l01 = s * (-(lam * xe)) ∧ o.l11 = s * ye ∧ o.l10 = 0 ∧
      o.z ≠ 0 ∧ o.x / o.z = tangX 0 (X / Z) (Y / Z) ∧ o.y / o.z = tangY 0 (X / Z) (Y / Z) := by
  have ⟨c00, c01, c10, c11, cx, cy, cz⟩ := pp_dbl_lit_k12_closed b X Y Z xe (-ye)
  have ⟨hs, h11, h10, hz, hx, hy⟩ := tangent_core b X Y Z h2 hY hZ hc
  refine ⟨hs, ?_, ?_, ?_, c10, ?_, ?_, ?_⟩
  · rw [c00, h11]
  · rw [c01, ← h10 xe]
  · rw [c11]; ring
  · rw [cz]; exact hz
  · rw [cx, cz]; exact hx
  · rw [cy, cz]; exact hy

/-- pp_add_lit_k12 (running point T = (X : Y : Z) in G1, P = (x₂, y₂) affine in G1, evaluated at Q = (xe, ye) on the twist) -/
theorem pp_add_lit_k12_line (X Y Z x2 y2 xe ye : K) (hZ : Z ≠ 0) (hv : X - Z * x2 ≠ 0) :
    let o := pp_add_lit_k12 fieldOps X Y Z x2 y2 xe ye
    let lam := (y2 - Y / Z) / (x2 - X / Z)
    let s := X - Z * x2
    s ≠ 0 ∧ o.l00 = s * (lam * x2 - y2) ∧ o.l01 = s * (-(lam * xe)) ∧ o.l11 = s * ye ∧ o.l10 = 0 ∧
      o.z ≠ 0 ∧ o.x / o.z = chordX (X / Z) (Y / Z) x2 y2 ∧ o.y / o.z = chordY (X / Z) (Y / Z) x2 y2 := by
  have ⟨c00, c01, c10, c11, cx, cy, cz⟩ := pp_add_lit_k12_closed X Y Z x2 y2 xe ye
  have ⟨h11, h10, hz, hx, hy⟩ := chord_core X Y Z x2 y2 hZ hv
  refine ⟨hv, ?_, ?_, ?_, c10, ?_, ?_, ?_⟩
  · rw [c00, ← h11]; ring
  · rw [c01, ← h10 xe]
  · rw [c11]; ring
  · rw [cz]; exact hz
  · rw [cx, cz]; exact hx
  · rw [cy, cz]; exact hy

end lines

/-! ### the hypotheses are satisfiable: the shipped parameters (x, sparse form as stored by fp_prime_set_pairf) -/

-- BN-P254 (BN_254): x = −(2^62 + 2^55 + 1)
example : spsVal [0, 55, 62] = |(-(2 ^ 62 + 2 ^ 55 + 1) : ℤ)| := by decide +kernel
-- BLS12-381: x = −0xd201000000010000, even: the lowered form is used
example : spsVal [16, 48, 57, 60, -62, 64] = |(-0xd201000000010000 : ℤ)| := by decide +kernel
example : ∀ bi ∈ ([16, 48, 57, 60, -62, 64] : List ℤ), 1 ≤ bi ∨ bi ≤ -2 := by decide
example : ∃ p : ℕ, 3 * (p : ℤ) = ((-0xd201000000010000 : ℤ) - 1) ^ 2 * ((-0xd201000000010000 : ℤ) ^ 4 - (-0xd201000000010000 : ℤ) ^ 2 + 1) + 3 * (-0xd201000000010000 : ℤ) :=
  ⟨0x1a0111ea397fe69a4b1ba7b6434bacd764774b84f38512bf6730d2a0f6b0f6241eabfffeb153ffffb9feffffffffaaab, by norm_num⟩

end Relic.Props.C04B
