/-
C02 — Prime-field arithmetic realises Z/pZ with canonical results (digit-level layer, Montgomery form).
`⟦a⟧ = val a · R⁻¹ mod p` is the residue a raw digit vector denotes; the theorems below are stated with
R on the other side to avoid the inverse. The algorithm layer (exponentiation, inversion, square root,
Euler-criterion symbol) is in Props/C02B.lean (models of Model/FpAlg.lean); what remains class C
(divstep / Pornin variants, cube roots) is compared with the Z/pZ specification by the correspondence run only.
-/
import RelicVerif.Lemmas.Fp
import RelicVerif.Props.C02B

namespace Relic.Props.C02
open Relic.Model

/-- modular add/sub/neg/dbl: canonical result, value = the residue -/
theorem fp_add_sub_canonical (c : FpCtx) (hc : c.WF) (a b : List Nat) (ha : c.El a) (hb : c.El b) :
    (c.El (fpAddm c a b) ∧ val c.B (fpAddm c a b) = (val c.B a + val c.B b) % c.pv) ∧
    (c.El (fpSubm c a b) ∧ val c.B (fpSubm c a b) = (val c.B a + c.pv - val c.B b) % c.pv) ∧
    (c.El (fpNegm c a) ∧ val c.B (fpNegm c a) = (c.pv - val c.B a) % c.pv) ∧
    (c.El (fpDblm c a) ∧ val c.B (fpDblm c a) = (2 * val c.B a) % c.pv) :=
  ⟨fpAddm_spec c hc a b ha hb, fpSubm_spec c hc a b ha hb, fpNegm_spec c hc a ha, fpDblm_spec c hc a ha⟩

theorem fp_hlv_canonical (c : FpCtx) (hc : c.WF) (a : List Nat) (ha : c.El a) :
    c.El (fpHlvm c a) ∧ (2 * val c.B (fpHlvm c a)) % c.pv = val c.B a := fpHlvm_spec c hc a ha

/-- Montgomery reduction is exact and canonical for every T < p·R -/
theorem fp_montgomery_reduce (c : FpCtx) (hc : c.WF) (hu : (c.u * c.pv + 1) % c.B = 0) (hub : c.u < c.B)
    (t : List Nat) (hlen : t.length = 2 * c.n) (hdig : ∀ d ∈ t, d < c.B) (hT : val c.B t < c.pv * c.R) :
    c.El (fpRdcn c t) ∧ (val c.B (fpRdcn c t) * c.R) % c.pv = val c.B t % c.pv :=
  fpRdcn_spec c hc hu hub t hlen hdig hT

/-- multiplication and squaring in Montgomery form -/
theorem fp_mul_sqr (c : FpCtx) (hc : c.WF) (hu : (c.u * c.pv + 1) % c.B = 0) (hub : c.u < c.B)
    (a b : List Nat) (ha : c.El a) (hb : c.El b) :
    (c.El (fpMulm c a b) ∧ (val c.B (fpMulm c a b) * c.R) % c.pv = (val c.B a * val c.B b) % c.pv) ∧
    (c.El (fpSqrm c a) ∧ (val c.B (fpSqrm c a) * c.R) % c.pv = (val c.B a * val c.B a) % c.pv) :=
  ⟨fpMulm_spec c hc hu hub a b ha hb, fpSqrm_spec c hc hu hub a ha⟩

/-- raw digit comparison decides equality of residues -/
theorem fp_cmp_sound (c : FpCtx) (hc : c.WF) (a b : List Nat) (ha : c.El a) (hb : c.El b) :
    a = b ↔ val c.B a % c.pv = val c.B b % c.pv := El_eq_iff c hc a b ha hb

theorem fp_inv_unique (p a x y : Nat) (hx : x < p) (hy : y < p) (h1 : a * x % p = 1) (h2 : a * y % p = 1) :
    x = y := inv_unique p a x y hx hy h1 h2

/-- non-vacuity: a 2-digit context in base 2^8 (p = 65521, u = 239) -/
example : ({ w := 8, n := 2, p := [241, 255], u := 239 } : FpCtx).pv = 65521 ∧ (239 * 65521 + 1) % 256 = 0 := by decide
example : fpMulm { w := 8, n := 2, p := [241, 255], u := 239 } [3, 0] [5, 0] = [1, 0] := by decide

end Relic.Props.C02
