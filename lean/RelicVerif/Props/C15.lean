/-
C15 — The deterministic random generator follows Hash_DRBG for every call history.
The model (Model/Drbg.lean) mirrors src/rand/relic_rand_hashd.c byte for byte; the specification
(Spec/HashDrbg.lean) is SP 800-90A §10.1.1 over integers mod 2^440. Both are generic in the hash.
-/
import RelicVerif.Lemmas.Drbg
import RelicVerif.Model.RandInt

namespace Relic.Props.C15
open Relic.Model.Drbg Relic.Spec
open Relic.Spec.HashDrbg (Bytes Op Out)

/-- For every hash function with 32-byte output, every seed and every history of generate / reseed
    operations (any sizes, any interleaving), the byte stream of the model equals the Hash_DRBG stream.
    PARTIAL in one respect only: the history is shorter than 2^31 - 257 operations (ctx->counter is a C
    `int`; SP 800-90A allows 2^48 requests between reseeds). -/
theorem drbg_history_partial (hash : Bytes → Bytes) (hlen : ∀ b, (hash b).length = 32)
    (seed : Bytes) (hseed : seed ≠ []) (ops : List Op) (hlen' : ops.length + 258 < 2 ^ 31) :
    run (mcfg hash) init (.seed seed :: ops) = HashDrbg.run (sparams hash) none (.seed seed :: ops) := by
  obtain ⟨h1, s', hs', habs, hc⟩ := seed_refines hash hlen seed hseed
  have hr := run_refines hash hlen ops (step (mcfg hash) init (.seed seed)).1 s' habs (by omega)
  simp only [run, HashDrbg.run]
  rw [h1, hs', hr]

/-- requests above the per-call limit are refused and leave the state unchanged; an empty seed is refused -/
theorem drbg_refuses (hash : Bytes → Bytes) (x : Ctx) (n : Nat) (hn : n > 65536) :
    step (mcfg hash) x (.gen n) = (x, .err) := by
  simp [step, randBytes, hn]

theorem drbg_refuses_empty_seed (hash : Bytes → Bytes) (x : Ctx) :
    step (mcfg hash) x (.seed []) = (x, .err) := by
  simp [step, randSeed]

/-! ### integer sampling (Model/RandInt.lean, executed by the driver over the DRBG model) -/
section RandInt
open Relic.Model.RandInt

/-- integers sampled below a bound are always in [1, bound), for every byte source, every state and every number of redraws -/
theorem bn_rand_mod_range {σ : Type} (draw : σ → Nat → Option (List Nat × σ)) (w cap b : Nat) (hb : 0 < b) (fuel : Nat) (s : σ) (r : Nat)
    (h : bnRandMod draw w cap b fuel s = some r) : 1 ≤ r ∧ r < b := by
  induction fuel generalizing s with
  | zero => simp [bnRandMod] at h
  | succ n ih =>
    unfold bnRandMod at h
    split at h
    · simp at h
    split at h
    · simp at h
    · next dp s' _ =>
      simp only at h
      split at h
      · exact ih s' h
      · next hne =>
        simp only [Option.some.injEq] at h
        subst h
        exact ⟨Nat.pos_of_ne_zero hne, Nat.mod_lt _ hb⟩

/-- … and are a deterministic function of the generator state (the model is a function) -/
theorem bn_rand_mod_deterministic {σ : Type} (draw : σ → Nat → Option (List Nat × σ)) (w cap b fuel : Nat) (s : σ) (r r' : Nat)
    (h : bnRandMod draw w cap b fuel s = some r) (h' : bnRandMod draw w cap b fuel s = some r') : r = r' := by
  rw [h] at h'; exact Option.some.inj h'


end RandInt

end Relic.Props.C15
