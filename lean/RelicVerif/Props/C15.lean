/-
C15 — The deterministic random generator follows Hash_DRBG for every call history.
The model (Model/Drbg.lean) mirrors src/rand/relic_rand_hashd.c byte for byte; the specification
(Spec/HashDrbg.lean) is SP 800-90A §10.1.1 over integers mod 2^440. Both are generic in the hash.
-/
import RelicVerif.Lemmas.Drbg
import RelicVerif.Model.RandInt
import RelicVerif.Lemmas.RandInt

namespace Relic.Props.C15
open Relic.Model.Drbg Relic.Spec
open Relic.Spec.HashDrbg (Bytes Op Out)

/-- For every hash function with 32-byte output, every seed and every history of generate / reseed
    operations (any sizes, any interleaving), the byte stream of the model equals the Hash_DRBG stream.
    PARTIAL in one respect only: the history is shorter than 2^31 - 257 operations (ctx->counter is a C
    `int`; SP 800-90A allows 2^48 requests between reseeds). -/
theorem drbg_history_partial (hash : Bytes → Bytes) (hlen : ∀ b, (hash b).length = 32)
    (seed : Bytes) (hseed : seed ≠ []) (ops : List Op) (hlen' : ops.length + 258 < 2 ^ 31) :
    run (mcfg hash) init (.seed seed :: ops) = HashDrbg.run (sparams hash) none (.seed seed :: ops) := by
  obtain ⟨h1, s', hs', habs, hc⟩ := seed_refines hash hlen seed hseed
  have hr := run_refines hash hlen ops (step (mcfg hash) init (.seed seed)).1 s' habs (by omega)
  simp only [run, HashDrbg.run]
  rw [h1, hs', hr]

/-- requests above the per-call limit are refused and leave the state unchanged; an empty seed is refused -/
theorem drbg_refuses (hash : Bytes → Bytes) (x : Ctx) (n : Nat) (hn : n > 65536) :
    step (mcfg hash) x (.gen n) = (x, .err) := by
  simp [step, randBytes, hn]

theorem drbg_refuses_empty_seed (hash : Bytes → Bytes) (x : Ctx) :
    step (mcfg hash) x (.seed []) = (x, .err) := by
  simp [step, randSeed]

/-! ### integer sampling (Model/RandInt.lean, executed by the driver over the DRBG model) -/
section RandInt
open Relic.Model.RandInt

/-- integers sampled below a bound are always in [1, bound), for every byte source, every state and every number of redraws -/
theorem bn_rand_mod_range {σ : Type} (draw : σ → Nat → Option (List UInt8 × σ)) (w cap b : Nat) (hb : 0 < b) (fuel : Nat) (s : σ) (r : Nat)
    (h : bnRandMod draw w cap b fuel s = some r) : 1 ≤ r ∧ r < b := by
  induction fuel generalizing s with
  | zero => simp [bnRandMod] at h
  | succ n ih =>
    unfold bnRandMod at h
    split at h
    · simp at h
    split at h
    · simp at h
    · next dp s' _ =>
      simp only at h
      split at h
      · exact ih s' h
      · next hne =>
        simp only [Option.some.injEq] at h
        subst h
        exact ⟨Nat.pos_of_ne_zero hne, Nat.mod_lt _ hb⟩

/-- … and are a deterministic function of the generator state (the model is a function) -/
theorem bn_rand_mod_deterministic {σ : Type} (draw : σ → Nat → Option (List UInt8 × σ)) (w cap b fuel : Nat) (s : σ) (r r' : Nat)
    (h : bnRandMod draw w cap b fuel s = some r) (h' : bnRandMod draw w cap b fuel s = some r') : r = r' := by
  rw [h] at h'; exact Option.some.inj h'


/-- bn_rand: the digit vector returned for a request of `bits` bits has a value below 2^bits — for every requested length (zero, below one
    digit, a multiple of the digit size, any number of digits), every digit size, every byte source and every state -/
theorem bn_rand_bits {σ : Type} (draw : σ → Nat → Option (List UInt8 × σ)) (w cap : Nat) (s s' : σ) (bits : Nat) (dp : List Nat)
    (h : bnRand draw w cap s bits = some (dp, s')) : valDigits w dp < 2 ^ bits := by
  unfold bnRand at h
  simp only at h
  split at h
  · simp at h
  split at h
  · simp at h
  · next bytes s1 _ =>
    simp only [Option.some.injEq, Prod.mk.injEq] at h
    obtain ⟨rfl, _⟩ := h
    have hb := valDigits_maskTop_lt w (digitsOf bytes w (digitsFor w bits)) (digitsOf_lt _ _ _) (bits % w)
    rw [digitsOf_length] at hb
    unfold digitsFor at hb ⊢
    by_cases hr : bits % w > 0
    · have hpos : bits / w + 1 > 0 := Nat.succ_pos _
      simp only [hr, hpos, and_self, if_true, Nat.add_sub_cancel] at hb ⊢
      rwa [Nat.div_add_mod] at hb
    · simp only [hr, if_false, false_and, Nat.add_zero] at hb ⊢
      exact Nat.lt_of_lt_of_le hb (Nat.pow_le_pow_right (by omega) (Nat.mul_div_le bits w))

/-- bn_rand: the generator state advances exactly as ONE draw of digits·(w/8) bytes (digits = ⌈bits/w⌉), the digit vector is a function
    of those bytes only (host-order digits, top digit masked to bits mod w) and has exactly `digits` entries -/
theorem bn_rand_state {σ : Type} (draw : σ → Nat → Option (List UInt8 × σ)) (w cap : Nat) (s s' : σ) (bits : Nat) (dp : List Nat)
    (h : bnRand draw w cap s bits = some (dp, s')) :
    ∃ bytes, draw s (digitsFor w bits * (w / 8)) = some (bytes, s') ∧
      dp = maskTop (digitsOf bytes w (digitsFor w bits)) (bits % w) ∧ dp.length = digitsFor w bits ∧ digitsFor w bits ≤ cap := by
  unfold bnRand at h
  simp only at h
  split at h
  · simp at h
  · next hcap =>
    split at h
    · simp at h
    · next bytes s1 hd =>
      simp only [Option.some.injEq, Prod.mk.injEq] at h
      obtain ⟨rfl, rfl⟩ := h
      exact ⟨bytes, hd, rfl, by rw [maskTop_length, digitsOf_length], by omega⟩

/-- bn_rand refuses exactly when the request exceeds the capacity or the generator refuses the draw (then no state is returned) -/
theorem bn_rand_refuses {σ : Type} (draw : σ → Nat → Option (List UInt8 × σ)) (w cap : Nat) (s : σ) (bits : Nat) :
    bnRand draw w cap s bits = none ↔ (digitsFor w bits > cap ∨ draw s (digitsFor w bits * (w / 8)) = none) := by
  unfold bnRand
  simp only
  split
  · next h => simp [h]
  · next h =>
    split
    · next hd => simp [hd]
    · next bytes s1 hd => simp [h, hd]

/-- bn_rand is a deterministic function of (state, request) -/
theorem bn_rand_deterministic {σ : Type} (draw : σ → Nat → Option (List UInt8 × σ)) (w cap : Nat) (s : σ) (bits : Nat) (r r' : List Nat × σ)
    (h : bnRand draw w cap s bits = some r) (h' : bnRand draw w cap s bits = some r') : r = r' := by
  rw [h] at h'; exact Option.some.inj h'

/-- fp_rand: the result is reduced (below the prime) and equals the masked draw modulo p; the state advances exactly as ONE draw of
    RLC_FP_DIGS·(w/8) bytes — for every prime p > 0, byte source and state (the subtraction loop is modelled with fuel that is proved sufficient) -/
theorem fp_rand_reduced {σ : Type} (draw : σ → Nat → Option (List UInt8 × σ)) (w fpDigs fpBits p : Nat) (hp : 0 < p) (s s' : σ) (a : Nat)
    (h : fpRand draw w fpDigs fpBits p s = some (a, s')) :
    a < p ∧ ∃ bytes, draw s (fpDigs * (w / 8)) = some (bytes, s') ∧
      a = valDigits w (maskTop (digitsOf bytes w fpDigs) (fpBits % w)) % p := by
  unfold fpRand at h
  split at h
  · simp at h
  · next bytes s1 hd =>
    simp only [Option.some.injEq, Prod.mk.injEq] at h
    obtain ⟨rfl, rfl⟩ := h
    rw [subWhile_eq_mod p hp _ _ (Nat.lt_succ_self _)]
    exact ⟨Nat.mod_lt _ hp, bytes, hd, rfl⟩

/-- before the subtraction loop the masked draw of fp_rand is below 2^fpBits when the digit count is ⌈fpBits/w⌉ (so for a prime of exactly
    fpBits bits the loop body runs at most once) -/
theorem fp_rand_masked_bits (bytes : List UInt8) (w fpBits : Nat) :
    valDigits w (maskTop (digitsOf bytes w (digitsFor w fpBits)) (fpBits % w)) < 2 ^ fpBits := by
  have h := bn_rand_bits (σ := Unit) (fun _ _ => some (bytes, ())) w (digitsFor w fpBits) () () fpBits
    (maskTop (digitsOf bytes w (digitsFor w fpBits)) (fpBits % w)) (by simp [bnRand])
  exact h

/-- fb_rand: the polynomial has degree below m = RLC_FB_BITS (value of the digit vector below 2^m) when RLC_FB_DIGS = ⌈m/w⌉, it has exactly
    RLC_FB_DIGS digits, and the state advances exactly as ONE draw of RLC_FB_DIGS·(w/8) bytes — for every byte source and state -/
theorem fb_rand_degree {σ : Type} (draw : σ → Nat → Option (List UInt8 × σ)) (w fbBits : Nat) (s s' : σ) (dp : List Nat)
    (h : fbRand draw w (digitsFor w fbBits) fbBits s = some (dp, s')) :
    valDigits w dp < 2 ^ fbBits ∧ dp.length = digitsFor w fbBits ∧
      ∃ bytes, draw s (digitsFor w fbBits * (w / 8)) = some (bytes, s') := by
  unfold fbRand at h
  split at h
  · simp at h
  · next bytes s1 hd =>
    simp only [Option.some.injEq, Prod.mk.injEq] at h
    obtain ⟨rfl, rfl⟩ := h
    exact ⟨fp_rand_masked_bits bytes w fbBits, by rw [maskTop_length, digitsOf_length], bytes, hd⟩

example : ∃ dp, bnRand (σ := Unit) (fun _ n => some (List.replicate n 255, ())) 64 34 () 65 = some (dp, ()) := ⟨_, rfl⟩


end RandInt

end Relic.Props.C15
