import RelicVerif.Model.Rec
namespace Relic.Props.C09
end Relic.Props.C09
