/-
C09 — scalar recodings represent exactly the input integer with the digits, length and sparsity their
contracts promise (Model/Rec.lean mirrors bn_rec_win / slw / naf / reg / jsf of src/bn/relic_bn_rec.c).
The modular / number-theoretic functions of this property (reductions, exponentiations, inverse, gcd
variants with Bezout, symbols, roots, primality) are class C: compared with their mathematical definitions
evaluated in Lean on every correspondence run, not modelled.
-/
import RelicVerif.Lemmas.Rec
import RelicVerif.Props.C09Gcd
import RelicVerif.Props.C09Mxp
import RelicVerif.Props.C09Smb
import RelicVerif.Props.C09Mod
import RelicVerif.Props.C09Pol

namespace Relic.Props.C09
open Relic.Model.Rec

theorem rec_win_exact (cap k w : Nat) (hw : 0 < w) (hk : 0 < k) (ds : List Int) (h : recWin cap k w = some ds) :
    eval w ds = k ∧ (∀ d ∈ ds, 0 ≤ d ∧ d < 2 ^ w) ∧ ds.length = (bitLen k + w - 1) / w ∧ ds.length ≤ cap :=
  recWin_spec cap k w hw hk ds h

theorem rec_slw_exact (cap k w : Nat) (hw : 0 < w) (ds : List Int) (h : recSlw cap k w = some ds) :
    evalSlw ds = k ∧ (∀ d ∈ ds, d = 0 ∨ (d % 2 = 1 ∧ 0 < d ∧ d < 2 ^ w)) ∧ ds.length ≤ bitLen k ∧ ds.length ≤ cap :=
  recSlw_spec cap k w hw ds h

theorem rec_naf_exact (cap k w : Nat) (hw : 2 ≤ w) (ds : List Int) (h : recNaf cap k w = some ds) :
    eval 1 ds = k ∧ (∀ d ∈ ds, d = 0 ∨ (d % 2 ≠ 0 ∧ d.natAbs < 2 ^ (w - 1))) ∧
    (∀ i, (((ds.drop i).take w).countP (· ≠ 0)) ≤ 1) ∧ ds.length ≤ bitLen k + 1 ∧ ds.length ≤ cap :=
  recNaf_spec cap k w hw ds h

theorem rec_reg_exact (cap k n w : Nat) (hw : 2 ≤ w) (hodd : k % 2 = 1) (hk : k < 2 ^ n) (ds : List Int)
    (h : recReg cap k n w = some ds) :
    eval (w - 1) ds = k ∧ ds.length = (n + (w - 1) - 1) / (w - 1) + 1 ∧
    (∀ d ∈ ds.take ((n + (w - 1) - 1) / (w - 1)), d % 2 ≠ 0 ∧ d.natAbs < 2 ^ (w - 1)) ∧
    (ds.getLast? = some 0 ∨ ds.getLast? = some 1) ∧ ds.length ≤ cap :=
  recReg_spec cap k n w hw hodd hk ds h

theorem rec_jsf_exact (cap k l : Nat) (a0 a1 : List Int) (h : recJsf cap k l = some (a0, a1)) :
    eval 1 a0 = k ∧ eval 1 a1 = l ∧ (∀ d ∈ a0, d.natAbs ≤ 1) ∧ (∀ d ∈ a1, d.natAbs ≤ 1) ∧ a0.length = a1.length ∧
    a0.length ≤ max (bitLen k) (bitLen l) + 1 :=
  recJsf_spec cap k l a0 a1 h

/-- non-vacuity -/
example : recNaf 100 0x1234567 4 = some [7, 0, 0, 0, 0, -5, 0, 0, 0, 3, 0, 0, 0, 0, -3, 0, 0, 0, -7, 0, 0, 0, 5] := by decide
example : recReg 100 0x1234567 32 4 = some [-1, 5, -3, -5, -3, -1, 1, 1, -7, -7, -7, 1] := by decide

end Relic.Props.C09
