/-
C16 — binary fields GF(2^m) and binary curves.

Field level. Polynomials over GF(2) are natural numbers (Spec/Gf2.lean); `toPoly` maps them injectively into
`(ZMod 2)[X]`, turning xor into +, the shift-and-xor product into the product and the long division into `%ₘ`.
The algorithms of the C code (López-Dahab comb, Karatsuba, table squaring, digit-wise fast reduction modulo a trinomial /
pentanomial, shift-and-add, square root by even/odd splitting, trace from selected coefficients, the table of iterated
squarings, the inversion chains) compute this arithmetic for ALL inputs. For the polynomial of the running library the
driver checks z^(2^m) = z mod f on every run (`FrobFix`); under it the specification's square root, trace and half-trace
satisfy their defining equations, and for irreducible f the inverse does.

Curve level. The affine and López-Dahab projective formulas (Model/Eb.lean, one `let` per C statement) compute the affine
group law of y² + xy = x³ + a x² + b over any field of characteristic two, with the exceptional cases dispatched as the group
law demands; halving inverts doubling; the Frobenius map squares the coordinates. Every scalar-multiplication loop computes
k•P in an abstract commutative group (Koblitz: in a module over a ring containing τ, τ² = μτ - 2, for points fixed by τ^m);
where the (repaired) code reduces the scalar — eb_mul_lodah and the fixed-base tables modulo r, the Koblitz routines modulo the
group order h·r — the theorems hold for EVERY integer k.

The driver evaluates the specification through the fast evaluators of Model/BinFast.lean; `fast_evaluators_sound` says they
are the specification. Class C (compared on the presented lines only): see TRUSTED in tools/props/c16.py.
-/
import RelicVerif.Lemmas.Gf2Poly
import RelicVerif.Lemmas.Gf2Field
import RelicVerif.Lemmas.BinFast
import RelicVerif.Lemmas.Fb
import RelicVerif.Lemmas.EbFormulas
import RelicVerif.Lemmas.EbLadder
import RelicVerif.Lemmas.Tnaf
import RelicVerif.Lemmas.EbMul
import RelicVerif.Lemmas.MulAlg
import RelicVerif.Lemmas.NafTop
import RelicVerif.Lemmas.FbInvSim
import RelicVerif.Lemmas.FbInvEuclid

namespace Relic.Props.C16
open Polynomial
open Relic.Spec.Gf2 Relic.Model Relic.Model.Fb Relic.Model.MulAlg Relic.Model.EbMul Relic.Model.Tnaf
open Relic.Lemmas.Gf2Poly Relic.Lemmas.Gf2Field Relic.Lemmas.Fb Relic.Lemmas.Tnaf Relic.Lemmas.EbMul

/-! ## GF(2)[z] on natural numbers -/

/-- xor is the sum and the shift-and-xor loop is the product of polynomials over GF(2) -/
theorem clmul_is_polynomial_product (a b : Nat) :
    toPoly (a ^^^ b) = toPoly a + toPoly b ∧ toPoly (clmul a b) = toPoly a * toPoly b ∧ Function.Injective toPoly :=
  ⟨toPoly_xor a b, toPoly_clmul a b, toPoly_injective⟩

/-- the long-division loop returns the unique remainder of degree below deg f -/
theorem pmod_is_remainder (a f : Nat) (hf : f ≠ 0) :
    (∃ q, a = clmul q f ^^^ pmod a f) ∧ bitLen (pmod a f) < bitLen f ∧
    (∀ q r, a = clmul q f ^^^ r → bitLen r < bitLen f → pmod a f = r) ∧
    toPoly (pmod a f) = toPoly a %ₘ toPoly f :=
  ⟨pmod_spec a f hf, bitLen_pmod_lt a f hf, fun q r h hr => pmod_unique a f q r hf h hr, toPoly_pmod a f hf⟩

/-- GF(2)[z]/(f) on natural numbers is a commutative ring of characteristic two with canonical representatives -/
theorem field_ring_laws (F : Field) (hF : F.wellFormed = true) (a b c : Nat) :
    F.mul a b = F.mul b a ∧ F.mul (F.mul a b) c = F.mul a (F.mul b c) ∧
    F.mul a (b ^^^ c) = F.mul a b ^^^ F.mul a c ∧ F.sqr (a ^^^ b) = F.sqr a ^^^ F.sqr b ∧
    (bitLen a ≤ F.m → F.mul a 1 = a) ∧ F.isElem (F.mul a b) = true := by
  have hf : F.f ≠ 0 := Relic.Lemmas.BinFast.wellFormed_ne_zero F hF
  have hb : bitLen F.f = F.m + 1 := Relic.Lemmas.BinFast.wellFormed_bitLen F hF
  exact ⟨Field.mul_comm F a b, Field.mul_assoc F hf a b c, Field.mul_xor F hf a b c, Field.sqr_xor F hf a b,
    fun ha => Field.mul_one F a (by omega), Field.isElem_mul F hF a b⟩

/-! ## the multiplication, squaring and reduction algorithms -/

theorem clmul_lt (a b n : Nat) (ha : a < 2 ^ n) (hb : b < 2 ^ n) : clmul a b < 2 ^ (2 * n) := by
  by_cases ha0 : a = 0
  · subst ha0; rw [clmul_comm, clmul_zero]; positivity
  by_cases hb0 : b = 0
  · subst hb0; rw [clmul_zero]; positivity
  rw [← bitLen_le_iff, bitLen_clmul a b ha0 hb0]
  have h1 := (bitLen_le_iff a n).mpr ha
  have h2 := (bitLen_le_iff b n).mpr hb
  omega

/-- fb_muln_low / fb_muld_low: the López-Dahab comb with 4-bit windows is the product, for all operands of n digits -/
theorem fb_muln_low_correct (w n a b : Nat) (hw : 4 ∣ w) (hw0 : 0 < w) (ha : a < 2 ^ (w * n)) :
    mulLodah w n a b = clmul a b := mulLodah_eq w n a b hw hw0 ha

/-- fb_rdcn_low: digit-wise folding modulo z^m + Σ z^e is the remainder, for every double-length input -/
theorem fb_rdc_quick_correct (w n m : Nat) (exps : List Nat) (f t : Nat) (hw : 0 < w) (hn : m < w * n) (hm : w ≤ m)
    (hf : f = exps.foldl (fun acc e => acc ^^^ (1 <<< e)) (1 <<< m)) (hnd : exps.Nodup)
    (he : ∀ e ∈ exps, e + w ≤ m) (ht : t < 2 ^ (2 * w * n)) :
    rdcQuick w n m exps t = pmod t f := rdcQuick_eq w n m exps f t hw hn hm hf hnd he ht

/-- fb_mul_lodah (= fb_mul, fb_mul_integ in the pinned configuration): comb product, then fast reduction = a·b mod f -/
theorem fb_mul_lodah_correct (F : Field) (w n : Nat) (exps : List Nat) (hw4 : 4 ∣ w) (hw0 : 0 < w) (hn : F.m < w * n)
    (hm : w ≤ F.m) (hf : F.f = exps.foldl (fun acc e => acc ^^^ (1 <<< e)) (1 <<< F.m)) (hnd : exps.Nodup)
    (he : ∀ e ∈ exps, e + w ≤ F.m) (a b : Nat) (ha : a < 2 ^ (w * n)) (hb : b < 2 ^ (w * n)) :
    rdcQuick w n F.m exps (mulLodah w n a b) = F.mul a b := by
  rw [mulLodah_eq w n a b hw4 hw0 ha]
  have ht : clmul a b < 2 ^ (2 * w * n) := by
    have := clmul_lt a b (w * n) ha hb
    rwa [← Nat.mul_assoc] at this
  rw [rdcQuick_eq w n F.m exps F.f _ hw0 hn hm hf hnd he ht]
  rfl

/-- fb_sqr_quick / fb_sqr_integ: squaring by the spreading table, then fast reduction = a² mod f -/
theorem fb_sqr_quick_correct (F : Field) (w n nn : Nat) (exps : List Nat) (hw0 : 0 < w) (hnn : 4 * nn = w * n) (hn : F.m < w * n)
    (hm : w ≤ F.m) (hf : F.f = exps.foldl (fun acc e => acc ^^^ (1 <<< e)) (1 <<< F.m)) (hnd : exps.Nodup)
    (he : ∀ e ∈ exps, e + w ≤ F.m) (a : Nat) (ha : a < 2 ^ (w * n)) :
    rdcQuick w n F.m exps (sqrTable nn a) = F.sqr a := by
  rw [sqrTable_eq nn a (by rw [hnn]; exact ha)]
  have ht : clmul a a < 2 ^ (2 * w * n) := by
    have := clmul_lt a a (w * n) ha ha
    rwa [← Nat.mul_assoc] at this
  rw [rdcQuick_eq w n F.m exps F.f _ hw0 hn hm hf hnd he ht]
  rfl

/-- fb_mul_karat (one level) with any correct half-size product -/
theorem fb_mul_karat_correct (mul : Nat → Nat → Nat) (hmul : ∀ x y, mul x y = clmul x y) (w n a b : Nat) :
    mulKarat mul w n a b = clmul a b := mulKarat_eq mul hmul w n a b

/-- fb_mul_basic: shift-and-add with a reduction after every shift -/
theorem fb_mul_basic_correct (F : Field) (hF : F.wellFormed = true) (rdc : Nat → Nat) (hrdc : ∀ x, rdc x = pmod x F.f)
    (a b : Nat) (ha : a < 2 ^ F.m) (hb : b < 2 ^ F.m) : mulBasic F rdc a b = F.mul a b :=
  mulBasic_eq F hF rdc hrdc a b ha hb

/-! ## square root, trace, half-trace, iterated squaring, inverse -/

/-- the specification's square root is the unique element whose square is a; fb_srt_quick (even/odd splitting with any
    srz such that srz² = z) squares to a as well, hence is that element -/
theorem fb_srt_correct (F : Field) (hF : F.wellFormed = true) (hz : FrobFix F) (a : Nat) (ha : a < 2 ^ F.m) :
    F.sqr (F.sqrt a) = a ∧ (∀ r, bitLen r ≤ F.m → F.sqr r = a → r = F.sqrt a) ∧
    (∀ srz, F.sqr srz = 2 → F.sqr (srtSplit F.mul srz F.m a) = a) := by
  have hae : bitLen a ≤ F.m := (bitLen_le_iff a F.m).mpr ha
  exact ⟨sqr_sqrt F hF hz a hae, fun r hr h => sqrt_unique F hF hz a r hr h, fun srz hs => srtSplit_spec F hF srz hs a ha⟩

/-- the trace is additive, invariant under squaring, and fb_trc_quick (xor of the coefficients at the positions with
    Tr(z^i) = 1) computes it -/
theorem fb_trc_correct (F : Field) (hF : F.wellFormed = true) (hz : FrobFix F) (a b : Nat) (ha : a < 2 ^ F.m) :
    F.trace (a ^^^ b) = F.trace a ^^^ F.trace b ∧ F.trace (F.sqr a) = F.trace a ∧
    (∀ ts : List Nat, ts.Nodup → (∀ i ∈ ts, i < F.m) → (∀ i, i < F.m → F.trace (2 ^ i) = if i ∈ ts then 1 else 0) →
      F.trace a = trcBits a ts) :=
  ⟨trace_xor F hF a b, trace_sqr F hF hz a ((bitLen_le_iff a F.m).mpr ha),
    fun ts hnd hlt hts => trace_bits F hF ts hnd hlt hts a ha⟩

/-- half-trace (odd m): c = H(a) solves c² + c = a + Tr(a), i.e. the quadratic equation whenever Tr(a) = 0; H is additive
    (the half-trace table of fb_slv_quick) -/
theorem fb_slv_correct (F : Field) (hF : F.wellFormed = true) (hz : FrobFix F) (hodd : F.m % 2 = 1) (a b : Nat)
    (ha : bitLen a ≤ F.m) :
    F.sqr (F.halfTrace a) ^^^ F.halfTrace a = a ^^^ F.trace a ∧
    F.halfTrace (a ^^^ b) = F.halfTrace a ^^^ F.halfTrace b :=
  ⟨halfTrace_spec F hF hz hodd a ha, halfTrace_xor F hF a b⟩

theorem sqrN_zero (F : Field) (n : Nat) : F.sqrN n 0 = 0 := by
  induction n with
  | zero => rfl
  | succ n ih =>
    have h0 : F.sqr 0 = 0 := Field.mul_zero F 0
    show F.sqrN n (F.sqr 0) = 0
    rw [h0, ih]

/-- fb_itr_quick: the table of the images of u·z^(4i) evaluates a ↦ a^(2^b) (an additive map) -/
theorem fb_itr_quick_correct (F : Field) (hF : F.wellFormed = true) (b nn a : Nat) (ha : a < 2 ^ (4 * nn)) :
    itrTable (fun i u => F.sqrN b (u <<< (4 * i))) nn a = F.sqrN b a :=
  itrTable_eq (F.sqrN b) (sqrN_zero F b)
    (fun x y => Field.sqrN_xor F (Relic.Lemmas.BinFast.wellFormed_ne_zero F hF) b x y) nn a ha

/-- the inverse of the specification is an inverse (f irreducible) and inverses are unique -/
theorem fb_inv_correct (F : Field) (hF : F.wellFormed = true) (hz : FrobFix F) (hirr : Irreducible (toPoly F.f)) (a : Nat)
    (ha : bitLen a ≤ F.m) (ha0 : a ≠ 0) :
    F.mul a (F.inv a) = 1 ∧ F.mul a (F.invFermat a) = 1 ∧
    (∀ c c', bitLen c ≤ F.m → bitLen c' ≤ F.m → F.mul a c = 1 → F.mul a c' = 1 → c = c') :=
  ⟨inv_spec F hF hz hirr a ha ha0, invFermat_spec F hF hz hirr a ha ha0,
    fun c c' hc hc' h h' => inv_unique F hF a c c' hc hc' h h'⟩

/-- fb_inv_basic raises a to 2^283 - 2 (2^233 - 2), fb_inv_itoht to 2·(2^u - 1) with u the last value of its chain, in any
    commutative monoid: the loops depend on m only -/
theorem fb_inv_chains_correct {M : Type} [CommMonoid M] (a : M) :
    invBasicChain (monoidOps : MOps M) 283 a = a ^ (2 ^ 283 - 2) ∧
    invBasicChain (monoidOps : MOps M) 233 a = a ^ (2 ^ 233 - 2) ∧
    (∀ chain, ChainValid chain → (invItohtChain (monoidOps : MOps M) chain a).1 =
      a ^ (2 * (2 ^ (invItohtChain (monoidOps : MOps M) chain a).2 - 1))) := by
  refine ⟨?_, ?_, fun chain hc => invItohtChain_eq chain a hc⟩
  · rw [invBasicChain_eq, invBasicExp_283]
  · rw [invBasicChain_eq, invBasicExp_233]

/-- the chain the library reports for m = 283 is valid and ends with u = 282 = m - 1 -/
example : ChainValid [0, 257, 514, 771, 1024, 1285, 1536, 1799, 2056, 2304, 2570] := by decide

/-! ## the driver's evaluators are the specification -/

theorem fast_evaluators_sound (c : Relic.Spec.BinCurve.Curve) (hF : c.F.wellFormed = true) (a b : Nat)
    (p q : Relic.Spec.BinCurve.Point) (k : Int) (n : Nat) :
    BinFast.clmulW a b = clmul a b ∧ BinFast.pmodS c.F.m (BinFast.setBits c.F.f c.F.m) a = pmod a c.F.f ∧
    (BinFast.FF.ofField c.F).mul a b = c.F.mul a b ∧ (BinFast.FF.ofField c.F).inv a = c.F.inv a ∧
    BinFast.add (BinFast.FC.ofCurve c) p q = Relic.Spec.BinCurve.add c p q ∧
    BinFast.mulWith (BinFast.FC.ofCurve c) (some (BinFast.dblChain (BinFast.FC.ofCurve c) n p)) p k = Relic.Spec.BinCurve.mul c p k ∧
    BinFast.mulWith (BinFast.FC.ofCurve c) none p k = Relic.Spec.BinCurve.mul c p k :=
  ⟨Relic.Lemmas.BinFast.clmulW_eq a b, Relic.Lemmas.BinFast.pmodS_eq c.F hF a, Relic.Lemmas.BinFast.FF.mul_eq c.F hF a b,
    Relic.Lemmas.BinFast.FF.inv_eq c.F hF a, Relic.Lemmas.BinFast.add_eq c hF p q,
    (Relic.Lemmas.BinFast.mulWith_eq c hF p k n).1, (Relic.Lemmas.BinFast.mulWith_eq c hF p k n).2⟩

/-! ## scalar multiplications over an abstract commutative group (the formula theorems are in Lemmas/EbFormulas.lean) -/

section group
variable {G : Type} [AddCommGroup G]

/-- eb_mul_basic: binary NAF, sign applied at the end; any integer k -/
theorem eb_mul_basic_correct (p : G) (k : ℤ) (cap : Nat) (ds : List Int) (h : Rec.recNaf cap k.natAbs 2 = some ds) :
    (if k < 0 then -(mulSigned gops [p] 0 ds) else mulSigned gops [p] 0 ds) = k • p := by
  obtain ⟨hv, hd, _⟩ := Rec.recNaf_spec cap _ 2 (le_refl _) ds h
  have htab : ∀ i, i < [p].length → [p].getD i 0 = (2 * (i : ℤ) + 1) • p := by
    intro i hi
    have : i = 0 := by simpa using hi
    subst this; simp
  rw [mulSigned_spec p [p] htab ds (by simpa using hd), hv]
  split
  · rw [← neg_zsmul]; congr 1; omega
  · congr 1; omega

theorem two_pow_pred (w : Nat) (hw : 2 ≤ w) : 2 ^ (w - 1) = 2 * 2 ^ (w - 2) := by
  rw [show w - 1 = (w - 2) + 1 by omega, Nat.pow_succ, Nat.mul_comm]

/-- eb_mul_lwnaf / eb_mul_fix_lwnaf on ordinary curves: width-w NAF of |k| (no reduction), table of odd multiples -/
theorem eb_mul_lwnaf_plain_correct (p : G) (k : ℤ) (w : Nat) (hw : 2 ≤ w) (cap : Nat) (ds : List Int)
    (h : Rec.recNaf cap k.natAbs w = some ds) :
    (if k < 0 then -(mulSigned gops (tabOdd gops p (2 ^ (w - 2))) 0 ds) else mulSigned gops (tabOdd gops p (2 ^ (w - 2))) 0 ds)
      = k • p := by
  obtain ⟨hv, hd, _⟩ := Rec.recNaf_spec cap _ w hw ds h
  obtain ⟨hlen, htab⟩ := tabOdd_spec p (2 ^ (w - 2))
  rw [mulSigned_spec p _ (by rw [hlen]; exact htab) ds
    (by intro d hdm; rw [hlen, ← two_pow_pred w hw]; exact hd d hdm), hv]
  split
  · rw [← neg_zsmul]; congr 1; omega
  · congr 1; omega

/-- eb_mul_rwnaf on ordinary curves (RLC_WIDTH = 4): right-to-left with buckets -/
theorem eb_mul_rwnaf_plain_correct (p : G) (k : ℤ) (cap : Nat) (ds : List Int) (h : Rec.recNaf cap k.natAbs 4 = some ds) :
    (if k < 0 then -(mulRnaf4 gops p ds) else mulRnaf4 gops p ds) = k • p := by
  obtain ⟨hv, hd, _⟩ := Rec.recNaf_spec cap _ 4 (by norm_num) ds h
  rw [mulRnaf4_spec p ds (by intro d hdm; simpa using hd d hdm), hv]
  split
  · rw [← neg_zsmul]; congr 1; omega
  · congr 1; omega

theorem bitsVal_cons (b : Bool) (bs : List Bool) :
    bitsVal (b :: bs) = 2 ^ bs.length * (if b then 1 else 0) + bitsVal bs := by
  rw [show bitsVal (b :: bs) = bs.foldl (fun acc b => 2 * acc + (if b then 1 else 0)) (2 * 0 + (if b then 1 else 0)) from rfl,
    bitsVal_foldl]
  ring

/-- the bits n-1 … 0 of x < 2^n, most significant first, denote x -/
theorem bitsVal_testBits : ∀ (n x : Nat), x < 2 ^ n →
    bitsVal ((List.range n).reverse.map fun i => x.testBit i) = (x : ℤ) := by
  intro n
  induction n with
  | zero => intro x hx; simp at hx; subst hx; simp [bitsVal]
  | succ n ih =>
    intro x hx
    rw [List.range_succ, List.reverse_append]
    simp only [List.reverse_cons, List.reverse_nil, List.nil_append, List.singleton_append, List.map_cons]
    rw [bitsVal_cons]
    have hcongr : ((List.range n).reverse.map fun i => x.testBit i) =
        ((List.range n).reverse.map fun i => (x % 2 ^ n).testBit i) := by
      apply List.map_congr_left
      intro i hi
      have : i < n := by simpa using hi
      rw [Nat.testBit_mod_two_pow]; simp [this]
    rw [hcongr, ih (x % 2 ^ n) (Nat.mod_lt _ (by positivity))]
    simp only [List.length_map, List.length_reverse, List.length_range]
    have hx2 : 2 ^ n * (x / 2 ^ n) + x % 2 ^ n = x := Nat.div_add_mod x (2 ^ n)
    have hq : x / 2 ^ n < 2 := by
      rw [Nat.div_lt_iff_lt_mul (by positivity)]; rw [Nat.pow_succ, Nat.mul_comm] at hx; exact hx
    have htb : x.testBit n = decide (x / 2 ^ n % 2 = 1) := Nat.testBit_eq_decide_div_mod_eq
    have hc : (x : ℤ) = 2 ^ n * ((x / 2 ^ n : ℕ) : ℤ) + ((x % 2 ^ n : ℕ) : ℤ) := by exact_mod_cast hx2.symm
    rcases Nat.lt_or_ge (x / 2 ^ n) 1 with h0 | h1
    · have h0 : x / 2 ^ n = 0 := Nat.lt_one_iff.mp h0
      rw [htb, hc, h0]; simp
    · have h1 : x / 2 ^ n = 1 := Nat.le_antisymm (Nat.lt_succ_iff.mp hq) h1
      rw [htb, hc, h1]; simp

/-- with the implicit leading one at position n -/
theorem bitsVal_testBits_top (n l : Nat) (hge : 2 ^ n ≤ l) (hlt : l < 2 ^ (n + 1)) :
    (2 ^ ((List.range n).reverse.map fun i => l.testBit i).length +
      bitsVal ((List.range n).reverse.map fun i => l.testBit i) : ℤ) = l := by
  have hsub : l - 2 ^ n < 2 ^ n := by rw [Nat.pow_succ] at hlt; omega
  have hcongr : ((List.range n).reverse.map fun i => l.testBit i) =
      ((List.range n).reverse.map fun i => (l - 2 ^ n).testBit i) := by
    apply List.map_congr_left
    intro i hi
    have hi : i < n := by simpa using hi
    have hl : l = 2 ^ n + (l - 2 ^ n) := by omega
    conv_lhs => rw [hl]
    exact Nat.testBit_two_pow_add_gt hi _
  rw [hcongr, bitsVal_testBits n _ hsub]
  simp only [List.length_map, List.length_reverse, List.length_range]
  have : ((l - 2 ^ n : ℕ) : ℤ) = (l : ℤ) - 2 ^ n := by
    rw [Nat.cast_sub hge]; push_cast; ring
  rw [this]; ring

/-- the blinded scalar of eb_mul_lodah: t = a + r (a = |k| mod r), or t + r when bit nb of t is clear, has exactly nb + 1 bits
    (nb = bits of r) and is congruent to a modulo r -/
theorem lodah_scalar (r nb a : Nat) (hlo : 2 ^ (nb - 1) ≤ r) (hhi : r < 2 ^ nb) (hnb : 1 ≤ nb) (ha : a < r) :
    2 ^ nb ≤ (if (a + r).testBit nb then a + r else a + r + r) ∧
    (if (a + r).testBit nb then a + r else a + r + r) < 2 ^ (nb + 1) ∧
    (((if (a + r).testBit nb then a + r else a + r + r : ℕ) : ℤ)) % r = (a : ℤ) % r := by
  have h2 : 2 ^ nb = 2 * 2 ^ (nb - 1) := by
    conv_lhs => rw [show nb = (nb - 1) + 1 by omega]
    rw [Nat.pow_succ, Nat.mul_comm]
  have hp : 2 ^ (nb + 1) = 2 * 2 ^ nb := by rw [Nat.pow_succ, Nat.mul_comm]
  by_cases hb : (a + r).testBit nb = true
  · rw [if_pos hb]
    have hge : 2 ^ nb ≤ a + r := Nat.ge_two_pow_of_testBit hb
    refine ⟨hge, by omega, ?_⟩
    push_cast
    rw [Int.add_emod_right]
  · rw [if_neg hb]
    have hlt : a + r < 2 ^ nb := by
      by_contra hge
      have hge : 2 ^ nb ≤ a + r := Nat.le_of_not_lt hge
      have htb : (a + r).testBit nb = true := by
        rw [Nat.testBit_eq_decide_div_mod_eq]
        have : (a + r) / 2 ^ nb = 1 := by
          apply Nat.div_eq_of_lt_le <;> omega
        simp [this]
      exact hb htb
    refine ⟨by omega, by omega, ?_⟩
    push_cast
    rw [Int.add_emod_right, Int.add_emod_right]

/-- eb_mul_lodah (|k| is reduced modulo r before it is blinded): for EVERY integer k and every point of order dividing r, the
    ladder over the bits nb-1 … 0 of the blinded scalar (implicit leading one at position nb = bits of r), with the sign applied
    at the end, returns k•P -/
theorem eb_mul_lodah_correct (p : G) (r nb : Nat) (hr : (r : ℤ) • p = 0) (hlo : 2 ^ (nb - 1) ≤ r) (hhi : r < 2 ^ nb)
    (hnb : 1 ≤ nb) (k : ℤ) :
    (if k < 0 then
        -(mulLadder gops p ((List.range nb).reverse.map fun i =>
          (if (k.natAbs % r + r).testBit nb then k.natAbs % r + r else k.natAbs % r + r + r).testBit i))
      else mulLadder gops p ((List.range nb).reverse.map fun i =>
          (if (k.natAbs % r + r).testBit nb then k.natAbs % r + r else k.natAbs % r + r + r).testBit i)) = k • p := by
  have hr0 : 0 < r := by
    have : 0 < 2 ^ (nb - 1) := Nat.pos_of_ne_zero (by positivity)
    omega
  obtain ⟨hge, hlt, hmod⟩ := lodah_scalar r nb (k.natAbs % r) hlo hhi hnb (Nat.mod_lt _ hr0)
  generalize (if (k.natAbs % r + r).testBit nb then k.natAbs % r + r else k.natAbs % r + r + r) = l at hge hlt hmod
  have hl : mulLadder gops p ((List.range nb).reverse.map fun i => l.testBit i) = (k.natAbs : ℤ) • p := by
    rw [mulLadder_spec, bitsVal_testBits_top nb l hge hlt, ← zsmul_emod p r hr l, hmod]
    rw [show ((k.natAbs % r : ℕ) : ℤ) = (k.natAbs : ℤ) % r by push_cast; rfl, Int.emod_emod_of_dvd _ (dvd_refl _),
      zsmul_emod p r hr]
  rw [hl]
  split
  · rw [← neg_zsmul]; congr 1; omega
  · congr 1; omega

/-- eb_mul_halve (cofactor-2 branch): halving is multiplication by c = (r+1)/2 on the group of odd order r; `naf` is the width-w NAF
    of kk = k·2^(l-1) mod r (any kk < 2^l congruent to it); the digit at position l is 0 or 1 (`recNaf_top`), which is what the code tests -/
theorem eb_mul_halve_correct (p : G) (r : ℕ) (hr : (r : ℤ) • p = 0) (c : ℤ) (hc : (2 * c - 1) % (r : ℤ) = 0)
    (w l : Nat) (hw : 2 ≤ w) (hl : 1 ≤ l) (k : ℤ) (cap kk : Nat) (naf : List Int)
    (h : Rec.recNaf cap kk w = some naf) (hkk : ((kk : ℤ) - k * 2 ^ (l - 1)) % (r : ℤ) = 0) (hlt : kk < 2 ^ l) :
    mulHalve gops (fun x => c • x) w l p naf = k • p := by
  obtain ⟨hv, hd, _, hlen, _⟩ := Rec.recNaf_spec cap kk w hw naf h
  have hb : Rec.bitLen kk ≤ l := by
    unfold Rec.bitLen
    split
    · omega
    · rename_i h0
      have : Nat.log2 kk < l := (Nat.log2_lt h0).mpr hlt
      omega
  exact mulHalve_correct p r hr c hc w l hw hl k naf hd (by omega)
    (Relic.Lemmas.NafTop.recNaf_top cap kk w l hw naf h hlt) (by rw [hv]; exact hkk)

theorem natAbs_mod_zsmul (p : G) (r : Nat) (hr : (r : ℤ) • p = 0) (k : ℤ) :
    (if k < 0 then -(((k.natAbs % r : ℕ) : ℤ) • p) else ((k.natAbs % r : ℕ) : ℤ) • p) = k • p := by
  have h : ((k.natAbs % r : ℕ) : ℤ) • p = (k.natAbs : ℤ) • p := by
    rw [show ((k.natAbs % r : ℕ) : ℤ) = (k.natAbs : ℤ) % r by push_cast; rfl, zsmul_emod p r hr]
  rw [h]
  split
  · rw [← neg_zsmul]; congr 1; omega
  · congr 1; omega

/-- eb_mul_fix_basic (|k| reduced modulo r, table 2^i·P for i < nb = bits of r, sign applied at the end): k•P for EVERY integer k
    and every point of order dividing r -/
theorem eb_mul_fix_basic_correct (p : G) (r nb : Nat) (hr0 : 0 < r) (hr : (r : ℤ) • p = 0) (hhi : r < 2 ^ nb) (k : ℤ) :
    (if k < 0 then -(mulFixBasic gops (tabPow2 gops p nb) 0 (k.natAbs % r))
      else mulFixBasic gops (tabPow2 gops p nb) 0 (k.natAbs % r)) = k • p := by
  rw [mulFixBasic_spec p nb _ (lt_trans (Nat.mod_lt _ hr0) hhi)]
  exact natAbs_mod_zsmul p r hr k

/-- eb_mul_fix_combs (= eb_mul_gen; |k| reduced modulo r, comb of depth d over l columns with r < 2^(l·d)): k•P for EVERY integer k -/
theorem eb_mul_fix_combs_correct (p : G) (r l d : Nat) (hr0 : 0 < r) (hr : (r : ℤ) • p = 0) (hl : 0 < l) (hhi : r < 2 ^ (l * d))
    (k : ℤ) :
    (if k < 0 then -(mulCombs gops (tabCombs gops p l d) (k.natAbs % r) l d)
      else mulCombs gops (tabCombs gops p l d) (k.natAbs % r) l d) = k • p := by
  rw [mulCombs_spec p _ l d hl (lt_trans (Nat.mod_lt _ hr0) hhi)]
  exact natAbs_mod_zsmul p r hr k

/-- eb_mul_sim_inter on ordinary curves: two width-w NAFs interleaved (signs folded into the digits by the code) -/
theorem eb_mul_sim_inter_plain_correct (p q : G) (k m : Nat) (w : Nat) (hw : 2 ≤ w) (cap : Nat) (n0 n1 : List Int)
    (h0 : Rec.recNaf cap k w = some n0) (h1 : Rec.recNaf cap m w = some n1) :
    simInter gops (tabOdd gops p (2 ^ (w - 2))) (tabOdd gops q (2 ^ (w - 2))) 0 n0 n1 = (k : ℤ) • p + (m : ℤ) • q := by
  obtain ⟨hv0, hd0, _⟩ := Rec.recNaf_spec cap _ w hw n0 h0
  obtain ⟨hv1, hd1, _⟩ := Rec.recNaf_spec cap _ w hw n1 h1
  obtain ⟨hlen0, htab0⟩ := tabOdd_spec p (2 ^ (w - 2))
  obtain ⟨hlen1, htab1⟩ := tabOdd_spec q (2 ^ (w - 2))
  rw [simInter_spec p q _ _ (by rw [hlen0]; exact htab0) (by rw [hlen1]; exact htab1) n0 n1, hv0, hv1]
  · intro d hdm
    rw [hlen0, ← two_pow_pred w hw]
    exact hd0 d hdm
  · intro d hdm
    rw [hlen1, ← two_pow_pred w hw]
    exact hd1 d hdm

/-- eb_mul_sim_trick: fixed windows of width w, table of i·P + j·Q -/
theorem eb_mul_sim_trick_correct (p q : G) (k m : Nat) (w : Nat) (hw : 0 < w) (hk : 0 < k) (hm : 0 < m) (cap : Nat)
    (w0 w1 : List Int) (h0 : Rec.recWin cap k w = some w0) (h1 : Rec.recWin cap m w = some w1) :
    simTrick gops (tabTrick gops p q w) 0 w w0 w1 = (k : ℤ) • p + (m : ℤ) • q := by
  obtain ⟨hv0, hd0, _⟩ := Rec.recWin_spec cap _ w hw hk w0 h0
  obtain ⟨hv1, hd1, _⟩ := Rec.recWin_spec cap _ w hw hm w1 h1
  rw [simTrick_spec p q w w0 w1 hd0 hd1, hv0, hv1]

/-- eb_mul_sim_joint: joint sparse form -/
theorem eb_mul_sim_joint_correct (p q : G) (k m : Nat) (cap : Nat) (j0 j1 : List Int)
    (h : Rec.recJsf cap k m = some (j0, j1)) :
    simJoint gops p q j0 j1 = (k : ℤ) • p + (m : ℤ) • q := by
  obtain ⟨hv0, hv1, hd0, hd1, _⟩ := Rec.recJsf_spec cap _ _ j0 j1 h
  have hsign : ∀ (l : List ℤ), (∀ d ∈ l, d.natAbs ≤ 1) → l.map Int.sign = l := by
    intro l hl
    conv_rhs => rw [← List.map_id l]
    apply List.map_congr_left
    intro d hdm
    have := hl d hdm
    have : d = -1 ∨ d = 0 ∨ d = 1 := by omega
    rcases this with rfl | rfl | rfl <;> rfl
  rw [simJoint_spec, hsign j0 hd0, hsign j1 hd1, hv0, hv1]

end group

/-! ## Koblitz curves: G is a module over a commutative ring R ∋ τ with τ² = μτ - 2; the Frobenius acts as x ↦ τ • x and
τ^m fixes the point (every point of E(GF(2^m))) -/

section koblitz
variable {G : Type} [AddCommGroup G] {R : Type} [CommRing R] [Module R G] (τ : R) (u : ℤ)

/-- bn_rec_tnaf_mod + bn_rec_tnaf: the digit string denotes k modulo τ^m - 1, digits zero or odd below 2^(w-1) -/
theorem bn_rec_tnaf_correct (hτ : τ ^ 2 = (u : R) * τ - 2) (hu : u = 1 ∨ u = -1) (cap k m w : Nat) (hw : 2 ≤ w ∧ w ≤ 8)
    (ds : List Int) (h : recTnaf cap k u m w = some ds) :
    (∃ ρ : R, (k : R) = evalTau τ u w ds + (τ ^ m - 1) * ρ) ∧
    (∀ d ∈ ds, d = 0 ∨ (d % 2 ≠ 0 ∧ d.natAbs < 2 ^ (w - 1))) := recTnaf_spec τ u hτ hu cap k m w hw ds h

/-- eb_mul_lwnaf on Koblitz curves (RLC_WIDTH = 4): table of eb_tab, left-to-right τ-adic loop, for the (reduced) scalar the recoding receives -/
theorem eb_mul_ltnaf_reduced (hτ : τ ^ 2 = (u : R) * τ - 2) (hu : u = 1 ∨ u = -1) (m : Nat) (p : G)
    (hfix : (τ ^ m - 1 : R) • p = 0) (cap k : Nat) (ds : List Int) (h : recTnaf cap k u m 4 = some ds) :
    mulTnaf gops (fun x => τ • x) (tabKbltz4 gops (fun x => τ • x) u p) 0 ds = (k : ℤ) • p := by
  obtain ⟨hk, hd⟩ := recTnaf_spec τ u hτ hu cap k m 4 (by norm_num) ds h
  have hlen : (tabKbltz4 gops (fun x => τ • x) u p).length = 4 := by simp [tabKbltz4]
  rw [mulTnaf_spec τ u 4 (by norm_num) p _ (by rw [hlen]; exact fun j hj => tabKbltz4_spec τ u hτ hu p j hj) ds
    (by rw [hlen]; intro d hdm; simpa using hd d hdm)]
  exact kbltz_mul_correct τ u m 4 p hfix k ds hk

/-- eb_mul_fix_lwnaf on Koblitz curves (RLC_DEPTH = 5) -/
theorem eb_mul_fix_kbltz_reduced (hτ : τ ^ 2 = (u : R) * τ - 2) (hu : u = 1 ∨ u = -1) (m : Nat) (p : G)
    (hfix : (τ ^ m - 1 : R) • p = 0) (cap k : Nat) (ds : List Int) (h : recTnaf cap k u m 5 = some ds) :
    mulTnaf gops (fun x => τ • x) (tabKbltz5 gops (fun x => τ • x) u p) 0 ds = (k : ℤ) • p := by
  obtain ⟨hk, hd⟩ := recTnaf_spec τ u hτ hu cap k m 5 (by norm_num) ds h
  have hlen : (tabKbltz5 gops (fun x => τ • x) u p).length = 8 := by simp [tabKbltz5]
  rw [mulTnaf_spec τ u 5 (by norm_num) p _ (by rw [hlen]; exact fun j hj => tabKbltz5_spec τ u hτ hu p j hj) ds
    (by rw [hlen]; intro d hdm; simpa using hd d hdm)]
  exact kbltz_mul_correct τ u m 5 p hfix k ds hk

/-- eb_mul_rwnaf on Koblitz curves (RLC_WIDTH = 4): right-to-left with buckets -/
theorem eb_mul_rtnaf_reduced (hτ : τ ^ 2 = (u : R) * τ - 2) (hu : u = 1 ∨ u = -1) (m : Nat) (p : G)
    (hfix : (τ ^ m - 1 : R) • p = 0) (cap k : Nat) (ds : List Int) (h : recTnaf cap k u m 4 = some ds) :
    mulTnafRtl4 gops (fun x => τ • x) u p ds = (k : ℤ) • p := by
  obtain ⟨hk, hd⟩ := recTnaf_spec τ u hτ hu cap k m 4 (by norm_num) ds h
  rw [mulTnafRtl4_spec τ u hτ hu p ds (by intro d hdm; simpa using hd d hdm)]
  exact kbltz_mul_correct τ u m 4 p hfix k ds hk

/-- eb_mul_lwnaf on Koblitz curves: |k| is reduced modulo the group order N = h·r (N•P = O for every point of the curve), recoded,
    multiplied by the τ-adic loop, and the sign is applied at the end: k•P for EVERY integer k -/
theorem eb_mul_ltnaf_correct (hτ : τ ^ 2 = (u : R) * τ - 2) (hu : u = 1 ∨ u = -1) (m : Nat) (p : G)
    (hfix : (τ ^ m - 1 : R) • p = 0) (N : Nat) (hN : (N : ℤ) • p = 0) (cap : Nat) (k : ℤ) (ds : List Int)
    (h : recTnaf cap (k.natAbs % N) u m 4 = some ds) :
    (if k < 0 then -(mulTnaf gops (fun x => τ • x) (tabKbltz4 gops (fun x => τ • x) u p) 0 ds)
      else mulTnaf gops (fun x => τ • x) (tabKbltz4 gops (fun x => τ • x) u p) 0 ds) = k • p := by
  rw [eb_mul_ltnaf_reduced τ u hτ hu m p hfix cap _ ds h]
  exact natAbs_mod_zsmul p N hN k

/-- eb_mul_fix_lwnaf on Koblitz curves (RLC_DEPTH = 5): k•P for EVERY integer k -/
theorem eb_mul_fix_kbltz_correct (hτ : τ ^ 2 = (u : R) * τ - 2) (hu : u = 1 ∨ u = -1) (m : Nat) (p : G)
    (hfix : (τ ^ m - 1 : R) • p = 0) (N : Nat) (hN : (N : ℤ) • p = 0) (cap : Nat) (k : ℤ) (ds : List Int)
    (h : recTnaf cap (k.natAbs % N) u m 5 = some ds) :
    (if k < 0 then -(mulTnaf gops (fun x => τ • x) (tabKbltz5 gops (fun x => τ • x) u p) 0 ds)
      else mulTnaf gops (fun x => τ • x) (tabKbltz5 gops (fun x => τ • x) u p) 0 ds) = k • p := by
  rw [eb_mul_fix_kbltz_reduced τ u hτ hu m p hfix cap _ ds h]
  exact natAbs_mod_zsmul p N hN k

/-- eb_mul_rwnaf on Koblitz curves (RLC_WIDTH = 4): k•P for EVERY integer k -/
theorem eb_mul_rtnaf_correct (hτ : τ ^ 2 = (u : R) * τ - 2) (hu : u = 1 ∨ u = -1) (m : Nat) (p : G)
    (hfix : (τ ^ m - 1 : R) • p = 0) (N : Nat) (hN : (N : ℤ) • p = 0) (cap : Nat) (k : ℤ) (ds : List Int)
    (h : recTnaf cap (k.natAbs % N) u m 4 = some ds) :
    (if k < 0 then -(mulTnafRtl4 gops (fun x => τ • x) u p ds) else mulTnafRtl4 gops (fun x => τ • x) u p ds) = k • p := by
  rw [eb_mul_rtnaf_reduced τ u hτ hu m p hfix cap _ ds h]
  exact natAbs_mod_zsmul p N hN k

end koblitz

/-! ## fb_inv_sim -/

/-- the specification's inverse is a field element -/
theorem isElem_inv (F : Field) (hF : F.wellFormed = true) (a : Nat) : bitLen (F.inv a) ≤ F.m := by
  obtain ⟨_, _, h3, _⟩ := wf_parts hF
  unfold Field.inv
  simp only []
  split_ifs
  · exact isElem_pmod F hF _
  · rw [invFermat_eq, show F.m - 1 = (F.m - 2) + 1 by omega, ifSt_succ]
    exact isElem_mul F hF _ _

/-- fb_inv_sim (Montgomery's trick as coded: forward products, one call of fb_inv, backward pass) for every list length ≥ 1 and any
    fb_inv meeting its contract: the error of fb_inv when some element is zero, else every output is the inverse of its input -/
theorem fb_inv_sim_correct (F : Field) (hF : F.wellFormed = true) (hirr : Irreducible (toPoly F.f))
    (inv : Nat → Option Nat) (hinv : Relic.Lemmas.FbInvSim.InvContract F inv)
    (as : List Nat) (hne : as ≠ []) (hel : ∀ a ∈ as, bitLen a ≤ F.m) :
    ((∃ a ∈ as, a = 0) → FbInv.invSim F.mul inv as = none) ∧
    ((∀ a ∈ as, a ≠ 0) → ∃ out, FbInv.invSim F.mul inv as = some out ∧
      List.Forall₂ (fun a x => bitLen x ≤ F.m ∧ F.mul a x = 1) as out) :=
  Relic.Lemmas.FbInvSim.invSim_spec F hF hirr inv hinv as hne hel

/-- the contract holds for the inversion the driver plugs in (zero reported, else the specification's inverse) -/
theorem fb_inv_contract (F : Field) (hF : F.wellFormed = true) (hz : FrobFix F) (hirr : Irreducible (toPoly F.f)) :
    Relic.Lemmas.FbInvSim.InvContract F (fun x => if x = 0 then none else some (F.inv x)) := by
  refine ⟨by simp, fun a ha ha0 => ⟨F.inv a, by simp [ha0], isElem_inv F hF a, inv_spec F hF hz hirr a ha ha0⟩⟩

/-! ## fb_inv_binar / fb_inv_almos / fb_inv_exgcd (models executed by the driver on every presented line) -/

/-- fb_inv_binar as coded (two halving loops, exits through u = 1 or v = 1, comparison by digit count and top digit, any digit width w):
    zero is reported; whatever the loop returns is the reduced inverse.
    Full statement, not proved: `a ≠ 0 → bitLen a ≤ F.m → ∃ c, invBinar w F a = some c` (the fuel 2(bitLen a + bitLen f) + 2 suffices;
    the driver reports a line on which the model runs out of fuel as a model difference). -/
theorem fb_inv_binar_partial (F : Field) (hF : F.wellFormed = true) (hirr : Irreducible (toPoly F.f)) (w a : Nat) :
    (a = 0 → FbInv.invBinar w F a = none) ∧ (∀ c, FbInv.invBinar w F a = some c → bitLen c ≤ F.m ∧ F.mul a c = 1) :=
  Relic.Lemmas.FbInvEuclid.invBinar_partial F hF hirr w a

/-- fb_inv_almos as coded (one halving loop, swap when u is shorter, add): same statement; termination not proved -/
theorem fb_inv_almos_partial (F : Field) (hF : F.wellFormed = true) (hirr : Irreducible (toPoly F.f)) (w a : Nat) :
    (a = 0 → FbInv.invAlmos w F a = none) ∧ (∀ c, FbInv.invAlmos w F a = some c → bitLen c ≤ F.m ∧ F.mul a c = 1) :=
  Relic.Lemmas.FbInvEuclid.invAlmos_partial F hF hirr w a

/-- fb_inv_exgcd as coded (swap when the degree difference is negative, u += v·z^j, g1 += g2·z^j, final conditional addition of f):
    zero is reported; whatever is returned satisfies a·c = 1 in GF(2)[z]/(f) (f need not be irreducible) and, for a reduced a, is reduced
    (invariant: deg g1 + deg v ≤ m, deg g2 + deg u ≤ m, so the cofactor has degree ≤ m and the final addition of f clears z^m).
    Full statement, not proved: termination within the fuel. -/
theorem fb_inv_exgcd_partial (F : Field) (hF : F.wellFormed = true) (a : Nat) :
    (a = 0 → FbInv.invExgcd F a = none) ∧ (∀ c, FbInv.invExgcd F a = some c → F.mul a c = 1 ∧ (bitLen a ≤ F.m → bitLen c ≤ F.m)) :=
  ⟨(Relic.Lemmas.FbInvEuclid.invExgcd_partial F hF a).1, fun c h =>
    ⟨(Relic.Lemmas.FbInvEuclid.invExgcd_partial F hF a).2 c h, fun ha => Relic.Lemmas.FbInvEuclid.invExgcd_isElem F hF a c ha h⟩⟩

/-- the value returned by the models of fb_inv_binar / fb_inv_almos / fb_inv_exgcd is the specification's inverse: the model column and
    the specification of the driver agree whenever a model returns -/
theorem fb_inv_euclid_value (F : Field) (hF : F.wellFormed = true) (hz : FrobFix F) (hirr : Irreducible (toPoly F.f)) (w a c : Nat)
    (ha : bitLen a ≤ F.m)
    (h : FbInv.invBinar w F a = some c ∨ FbInv.invAlmos w F a = some c ∨ FbInv.invExgcd F a = some c) : c = F.inv a := by
  have ha0 : a ≠ 0 := by
    rintro rfl
    rcases h with h | h | h
    · rw [(fb_inv_binar_partial F hF hirr w 0).1 rfl] at h; exact absurd h (by simp)
    · rw [(fb_inv_almos_partial F hF hirr w 0).1 rfl] at h; exact absurd h (by simp)
    · rw [(fb_inv_exgcd_partial F hF 0).1 rfl] at h; exact absurd h (by simp)
  have hc : bitLen c ≤ F.m ∧ F.mul a c = 1 := by
    rcases h with h | h | h
    · exact (fb_inv_binar_partial F hF hirr w a).2 c h
    · exact (fb_inv_almos_partial F hF hirr w a).2 c h
    · exact ⟨((fb_inv_exgcd_partial F hF a).2 c h).2 ha, ((fb_inv_exgcd_partial F hF a).2 c h).1⟩
  exact inv_unique F hF a c (F.inv a) hc.1 (isElem_inv F hF a) hc.2 (inv_spec F hF hz hirr a ha ha0)

/-- the models run to completion and return the inverse on a concrete field: GF(2^7), a = z^6 + z^5 + z^2 (all three, 64-bit digits) -/
example : FbInv.invBinar 64 ⟨7, 131⟩ 100 = some ((⟨7, 131⟩ : Field).inv 100) ∧ FbInv.invAlmos 64 ⟨7, 131⟩ 100 = some ((⟨7, 131⟩ : Field).inv 100) ∧
    FbInv.invExgcd ⟨7, 131⟩ 100 = some ((⟨7, 131⟩ : Field).inv 100) := by
  decide +kernel

/-! ## non-vacuity -/

/-- a field the hypotheses apply to: GF(2^7) = GF(2)[z]/(z^7 + z + 1): well-formed, Frobenius check, and a product -/
example : (⟨7, 131⟩ : Field).wellFormed = true ∧ FrobFix ⟨7, 131⟩ ∧ (⟨7, 131⟩ : Field).mul 100 77 = 13 := by
  refine ⟨by decide, ?_, by decide⟩
  show (⟨7, 131⟩ : Field).sqrN 7 2 = 2
  decide

/-- the τ-adic loop runs in Z[τ] acting on itself (μ = 1): 9 = Σ α(d_i) τ^i -/
example : evalDigits 1 4 ((recTnaf 100 9 1 7 4).getD []) = tnafMod 9 1 7 ∧ congTauM 1 7 (tnafMod 9 1 7) (9, 0) = true := by
  decide +kernel

end Relic.Props.C16
