/-
C16 — binary fields GF(2^m) and binary curves. (statements are added below as the lemma files are completed)
-/
import RelicVerif.Spec.Gf2
import RelicVerif.Spec.BinCurve
import RelicVerif.Model.BinFast

namespace Relic.Props.C16

end Relic.Props.C16
