/-
C18 — Every built-in parameter set is internally consistent.
The tables `Params.fields`, `Params.curves` are regenerated from src/fp/relic_fp_param.c and
src/ep/relic_ep_param.c on every run (exactly the sets selectable in the configuration); the predicates are
evaluated by the kernel on the extracted literals; primality comes from Pratt certificates (found by an
untrusted search, checked here line by line) through Mathlib's Lucas test.
-/
import RelicVerif.Lemmas.Pratt
import RelicVerif.Model.ParamBase
import RelicVerif.Gen.Params
import RelicVerif.Gen.Certs

namespace Relic.Props.C18
open Relic.Model.Param Relic.Model.Pratt Relic.Gen

/-- every selectable field: the sparse form evaluates to the prime, the family polynomial is the BN one -/
theorem fields_consistent : Params.fields.all fieldOk = true := by decide +kernel

/-- every selectable field modulus carries a valid Pratt certificate … -/
theorem field_moduli_certified :
    Params.fields.all (fun f => (certified Certs.lines).contains f.prime) = true := by decide +kernel

/-- … hence is prime -/
theorem field_moduli_prime : ∀ f ∈ Params.fields, Nat.Prime f.prime := by
  intro f hf
  have h := List.all_eq_true.mp field_moduli_certified f hf
  exact certified_prime Certs.lines f.prime (by simpa using h)

/-- every selectable curve: field exists, generator on the curve with canonical coordinates, r·G = O,
    h·r in the Hasse interval and the only multiple of r there, non-singular -/
theorem curves_consistent :
    Params.curves.all (fun c => match lookupField Params.fields c.field with
      | some f => curveOk f.prime c
      | none => false) = true := by decide +kernel

theorem curve_orders_certified :
    Params.curves.all (fun c => (certified Certs.lines).contains c.r) = true := by decide +kernel

/-- the stated group order of every selectable curve is prime -/
theorem curve_orders_prime : ∀ c ∈ Params.curves, Nat.Prime c.r := by
  intro c hc
  have h := List.all_eq_true.mp curve_orders_certified c hc
  exact certified_prime Certs.lines c.r (by simpa using h)

/-- pairing-friendly sets: the order is the BN polynomial r(x) at the extracted x, cofactor 1, embedding degree 12 -/
theorem pairing_sets_consistent :
    Params.curves.all (fun c => c.pairf == "" || match lookupField Params.fields c.field with
      | some f => bnOk f c
      | none => false) = true := by decide +kernel

/-- the declared family / embedding degree matches the parameters in both directions: the order of p modulo r is 12 (resp.
    the family's degree) exactly for the sets declared pairing-friendly, and exceeds 60 for all others -/
theorem embedding_degrees_consistent :
    Params.curves.all (fun c => match lookupField Params.fields c.field with
      | some f => embedConsistent f.prime c
      | none => false) = true := by decide +kernel

/-- the advertised security level matches the parameters (generic-group bound, and equal levels for parameter sets of the same
    family and sizes) -/
theorem security_levels_consistent :
    let all := Params.curves.filterMap (fun c => (lookupField Params.fields c.field).map (fun f => (f.prime, c)))
    all.all (fun pc => levelConsistent all pc.1 pc.2) = true := by decide +kernel

/-- every twist table entry is consistent with its base curve: field extension, generator on the twist, same order, and
    h·r is one of the six possible twist orders over Fp2 -/
theorem twists_consistent :
    Params.curves.all (fun c => match c.twist, lookupField Params.fields c.field with
      | none, _ => c.pairf == ""
      | some t, some f => twistOk f.prime c t
      | some _, none => false) = true := by decide +kernel

/-- the table is not empty (the theorems above are not vacuous) -/
theorem tables_nonempty : Params.fields.length ≥ 1 ∧ Params.curves.length ≥ 1 := by decide +kernel

end Relic.Props.C18
