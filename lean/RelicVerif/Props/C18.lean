/-
C18 — Every built-in parameter set is internally consistent.
The tables `Params.fields`, `Params.curves` are regenerated from src/fp/relic_fp_param.c and
src/ep/relic_ep_param.c on every run (exactly the sets selectable in the configuration); the predicates are
evaluated by the kernel on the extracted literals; primality comes from Pratt certificates (found by an
untrusted search, checked here line by line) through Mathlib's Lucas test.
-/
import Mathlib.Tactic.Ring
import RelicVerif.Lemmas.Pratt
import RelicVerif.Model.ParamBase
import RelicVerif.Gen.Params
import RelicVerif.Gen.Certs

namespace Relic.Props.C18
open Relic.Model.Param Relic.Model.Pratt Relic.Gen

/-- every selectable field: the sparse form evaluates to the prime, the family polynomial is the BN one -/
theorem fields_consistent : Params.fields.all fieldOk = true := by decide +kernel

/-- every selectable field modulus carries a valid Pratt certificate … -/
theorem field_moduli_certified :
    Params.fields.all (fun f => (certified Certs.lines).contains f.prime) = true := by decide +kernel

/-- … hence is prime -/
theorem field_moduli_prime : ∀ f ∈ Params.fields, Nat.Prime f.prime := by
  intro f hf
  have h := List.all_eq_true.mp field_moduli_certified f hf
  exact certified_prime Certs.lines f.prime (by simpa using h)

/-- every selectable curve: field exists, generator on the curve with canonical coordinates, r·G = O,
    h·r in the Hasse interval and the only multiple of r there, non-singular -/
theorem curves_consistent :
    Params.curves.all (fun c => match lookupField Params.fields c.field with
      | some f => curveOk f.prime c
      | none => false) = true := by decide +kernel

theorem curve_orders_certified :
    Params.curves.all (fun c => (certified Certs.lines).contains c.r) = true := by decide +kernel

/-- the stated group order of every selectable curve is prime -/
theorem curve_orders_prime : ∀ c ∈ Params.curves, Nat.Prime c.r := by
  intro c hc
  have h := List.all_eq_true.mp curve_orders_certified c hc
  exact certified_prime Certs.lines c.r (by simpa using h)

/-- pairing-friendly sets: the order is the BN polynomial r(x) at the extracted x, cofactor 1, embedding degree 12 -/
theorem pairing_sets_consistent :
    Params.curves.all (fun c => c.pairf == "" || match lookupField Params.fields c.field with
      | some f => bnOk f c
      | none => false) = true := by decide +kernel

/-- the declared family / embedding degree matches the parameters in both directions: the order of p modulo r is 12 (resp.
    the family's degree) exactly for the sets declared pairing-friendly, and exceeds 60 for all others -/
theorem embedding_degrees_consistent :
    Params.curves.all (fun c => match lookupField Params.fields c.field with
      | some f => embedConsistent f.prime c
      | none => false) = true := by decide +kernel

/-- the advertised security level matches the parameters (generic-group bound, and equal levels for parameter sets of the same
    family and sizes) -/
theorem security_levels_consistent :
    let all := Params.curves.filterMap (fun c => (lookupField Params.fields c.field).map (fun f => (f.prime, c)))
    all.all (fun pc => levelConsistent all pc.1 pc.2) = true := by decide +kernel

/-- every twist table entry is consistent with its base curve: field extension, generator on the twist, same order, and
    h·r is one of the six possible twist orders over Fp2 -/
theorem twists_consistent :
    Params.curves.all (fun c => match c.twist, lookupField Params.fields c.field with
      | none, _ => c.pairf == ""
      | some t, some f => twistOk f.prime c t
      | some _, none => false) = true := by decide +kernel

/-- the table is not empty (the theorems above are not vacuous) -/
theorem tables_nonempty : Params.fields.length ≥ 1 ∧ Params.curves.length ≥ 1 := by decide +kernel

/-! ### The other verified configurations (255-bit and 381-bit field sizes)

`Params.extraFields` / `Params.extraCurves` are extracted from the same two switch statements preprocessed with the `relic_conf.h` of the
p255 and p381 configurations (Curve25519 in Weierstrass form, Tweedledum, BLS12-381).  The same predicates, evaluated by the kernel. -/

theorem extra_fields_consistent : Params.extraFields.all fieldOk = true := by decide +kernel

theorem extra_field_moduli_certified :
    Params.extraFields.all (fun f => (certified Certs.lines).contains f.prime) = true := by decide +kernel

/-- 2^255 − 19, the Tweedledum base field and the 381-bit BLS12 characteristic (x−1)²(x⁴−x²+1)/3 + x are prime -/
theorem extra_field_moduli_prime : ∀ f ∈ Params.extraFields, Nat.Prime f.prime := by
  intro f hf
  have h := List.all_eq_true.mp extra_field_moduli_certified f hf
  exact certified_prime Certs.lines f.prime (by simpa using h)

theorem extra_curves_consistent :
    Params.extraCurves.all (fun c => match lookupField Params.extraFields c.field with
      | some f => curveOk f.prime c
      | none => false) = true := by decide +kernel

theorem extra_curve_orders_certified :
    Params.extraCurves.all (fun c => (certified Certs.lines).contains c.r) = true := by decide +kernel

theorem extra_curve_orders_prime : ∀ c ∈ Params.extraCurves, Nat.Prime c.r := by
  intro c hc
  have h := List.all_eq_true.mp extra_curve_orders_certified c hc
  exact certified_prime Certs.lines c.r (by simpa using h)

/-- BLS12-381: declared family = the field's family, r = x⁴ − x² + 1, cofactor (x − 1)²/3, embedding degree 12 -/
theorem extra_pairing_sets_consistent :
    Params.extraCurves.all (fun c => c.pairf == "" || match lookupField Params.extraFields c.field with
      | some f => bnOk f c
      | none => false) = true := by decide +kernel

theorem extra_embedding_degrees_consistent :
    Params.extraCurves.all (fun c => match lookupField Params.extraFields c.field with
      | some f => embedConsistent f.prime c
      | none => false) = true := by decide +kernel

theorem extra_security_levels_consistent :
    let all := Params.extraCurves.filterMap (fun c => (lookupField Params.extraFields c.field).map (fun f => (f.prime, c)))
    all.all (fun pc => levelConsistent all pc.1 pc.2) = true := by decide +kernel

theorem extra_twists_consistent :
    Params.extraCurves.all (fun c => match c.twist, lookupField Params.extraFields c.field with
      | none, _ => c.pairf == ""
      | some t, some f => twistOk f.prime c t
      | some _, none => false) = true := by decide +kernel

/-- the extra tables are not empty and contain a pairing-friendly set of the BLS12 family (so the family branch of `bnOk` is exercised) -/
theorem extra_tables_nonempty :
    Params.extraFields.length ≥ 1 ∧ Params.extraCurves.any (fun c => c.pairf == "EP_B12") = true := by decide +kernel

/-- Barreto–Naehrig, every integer x: r(x) divides Φ₁₂(p(x)) = p⁴ − p² + 1, so the embedding degree of every BN parameter set divides 12
    (p ≡ 6x² mod r and Φ₁₂(6x²) = r(x)·r(−x)) -/
theorem bn_family_embedding (x : Int) : bnR x ∣ (bnP x) ^ 4 - (bnP x) ^ 2 + 1 := by
  have hp : bnP x = bnR x + 6 * x ^ 2 := by unfold bnP bnR; ring
  refine ⟨(bnR x) ^ 3 + 4 * (bnR x) ^ 2 * (6 * x ^ 2) + 6 * (bnR x) * (6 * x ^ 2) ^ 2 + 4 * (6 * x ^ 2) ^ 3 - (bnR x) - 2 * (6 * x ^ 2)
      + (36 * x ^ 4 - 36 * x ^ 3 + 18 * x ^ 2 - 6 * x + 1), ?_⟩
  rw [hp]; unfold bnR; ring

/-- BLS12, every integer x for which the family polynomial is integral: r(x) = Φ₁₂(x) divides 81·Φ₁₂(p(x)) (3p ≡ 3x mod r), so for
    3 ∤ r the embedding degree divides 12 -/
theorem b12_family_embedding (x : Int) (h3 : (x - 1) ^ 2 * b12R x % 3 = 0) :
    b12R x ∣ 81 * ((b12P x) ^ 4 - (b12P x) ^ 2 + 1) := by
  have h : 3 * b12P x = 3 * x + (x - 1) ^ 2 * b12R x := by
    unfold b12P
    have := Int.ediv_mul_cancel (Int.dvd_of_emod_eq_zero h3)
    omega
  have e : 81 * ((b12P x) ^ 4 - (b12P x) ^ 2 + 1) = (3 * b12P x) ^ 4 - 9 * (3 * b12P x) ^ 2 + 81 := by ring
  rw [e, h]
  refine ⟨81 + (x - 1) ^ 2 * ((3 * x + (x - 1) ^ 2 * b12R x) ^ 3 + (3 * x + (x - 1) ^ 2 * b12R x) ^ 2 * (3 * x)
      + (3 * x + (x - 1) ^ 2 * b12R x) * (3 * x) ^ 2 + (3 * x) ^ 3) - 9 * (x - 1) ^ 2 * ((3 * x + (x - 1) ^ 2 * b12R x) + 3 * x), ?_⟩
  unfold b12R; ring

/-! ### Twisted Edwards parameter sets (src/ed/relic_ed_param.c) -/

/-- every selectable Edwards set: canonical constants over an extracted field, complete addition law (a a non-zero square, d a non-square),
    generator on the curve and not neutral, r·G = O, h·r in the Hasse interval and the only multiple of r there, 4 ∣ h -/
theorem edwards_sets_consistent :
    Params.edCurves.all (fun c => match lookupField (Params.fields ++ Params.extraFields) c.field with
      | some f => edOk f.prime c
      | none => false) = true := by decide +kernel

theorem edwards_orders_certified :
    Params.edCurves.all (fun c => (certified Certs.lines).contains c.r) = true := by decide +kernel

/-- the stated order of every selectable Edwards group is prime -/
theorem edwards_orders_prime : ∀ c ∈ Params.edCurves, Nat.Prime c.r := by
  intro c hc
  have h := List.all_eq_true.mp edwards_orders_certified c hc
  exact certified_prime Certs.lines c.r (by simpa using h)

theorem edwards_table_nonempty : Params.edCurves.length ≥ 1 := by decide +kernel

end Relic.Props.C18
