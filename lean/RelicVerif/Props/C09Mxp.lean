/- C09 extension (Mxp family): theorems model = specification for the modular exponentiations of src/bn/relic_bn_mxp.c
   and for bn_smb_leg (models in Model/NtMxp.lean, proofs in Lemmas/NtMxp.lean, Lemmas/NtMxpLeg.lean).

   `MxpSpec a b m r` (Lemmas/NtMxp.lean) is the complete input/output behaviour on ALL integers a, b, m, in the order the code decides:
     m = 1                      → r = some 0            (before anything else, also for b = 0)
     b = 0                      → r = some 1            (also for even / zero / negative m)
     m even or m ≤ 0            → r = none              (ERR_NO_VALID of bn_mod_pre_monty; BN_MOD = MONTY)
     b > 0  (m odd > 1)         → r = some (a^b mod m)  (canonical, Int.emod)
     b < 0, gcd(a, m) = 1       → r = some x with 0 ≤ x < m and x·a^|b| mod m = 1   (unique)
     b < 0, gcd(a, m) ≠ 1       → r = none              (ERR_NO_VALID of bn_mod_inv)                                        -/
import RelicVerif.Lemmas.NtMxp
import RelicVerif.Lemmas.NtMxpLeg
import RelicVerif.Lemmas.NtMxpRsa
import RelicVerif.Lemmas.NtMxpFew
import RelicVerif.Lemmas.NtMxpLot

namespace Relic.Props.C09
open Relic.Model Relic.Model.NtMxp

/-- bn_mxp_basic (left-to-right square and multiply in Montgomery form) on all integers, any digit width w -/
theorem mxp_basic_exact (w : Nat) (a b m : Int) : MxpSpec a b m (mxpBasic w a b m) := mxpBasic_spec w a b m

/-- bn_mxp_slide = bn_mxp (window width from the bit length, table of odd powers, bn_rec_slw scanning) on all integers -/
theorem mxp_slide_exact (w : Nat) (a b m : Int) : MxpSpec a b m (mxpSlide w a b m) := mxpSlide_spec w a b m

/-- bn_mxp_monty (Montgomery ladder) on all integers -/
theorem mxp_monty_exact (w : Nat) (a b m : Int) : MxpSpec a b m (mxpMonty w a b m) := mxpMonty_spec w a b m

/-- bn_mxp_dig (unsigned digit exponent): m = 1 → 0; b = 0 → 1; even or non-positive m → error; otherwise a^b mod m -/
theorem mxp_dig_exact (w : Nat) (a : Int) (b : Nat) (m : Int) : MxpDigSpec a b m (mxpDig w a b m) := mxpDig_spec w a b m

/-- plain reading for the main case: odd modulus > 1, exponent ≥ 0 -/
theorem mxp_slide_nonneg (w : Nat) (a b m : Int) (hm : 1 < m) (hodd : m % 2 = 1) (hb : 0 ≤ b) :
    mxpSlide w a b m = some (a ^ b.toNat % m) := mxpSlide_nonneg w a b m hm hodd hb

/-- the sliding-window recoding inside bn_mxp_slide never runs out of buffer: the model's error branch for it is unreachable
    (for an odd modulus > 1 the core always returns a value) -/
theorem mxp_slide_core_total (w : Nat) (a : Int) (b : Nat) (m : Int) (hm : 1 < m) (hodd : m % 2 = 1) :
    slideCore w a b m = some (a ^ b % m) := slideCore_eq w a b m hm hodd

/-- bn_mod_inv as used for negative exponents (cofactor loop of bn_gcd_ext_basic, + m when negative): for 0 ≤ r, m > 1 it returns
    the x in [0, m) with x·r ≡ 1 when gcd(r, m) = 1 and reports an error otherwise -/
theorem mxp_mod_inv_exact (r m : Int) (hm : 1 < m) (hr : 0 ≤ r) :
    (Int.gcd r m = 1 → ∃ x, modInv r m = some x ∧ 0 ≤ x ∧ x < m ∧ x * r ≡ 1 [ZMOD m]) ∧
    (Int.gcd r m ≠ 1 → modInv r m = none) := modInv_spec r m hm hr

/-- bn_mxp_crt, sqr = 0: for odd p, q > 1, exponents ≥ 0 and ANY qi with qi·q ≡ 1 (mod p) the result lies in [0, pq) and is
    ≡ a^b (mod p) and ≡ a^c (mod q) — hence it is the CRT lift of the two half exponentiations -/
theorem mxp_crt_exact (w : Nat) (a b c p q dp dq qi : Int) (hp : 1 < p) (hpo : p % 2 = 1) (hq : 1 < q) (hqo : q % 2 = 1)
    (hb : 0 ≤ b) (hc : 0 ≤ c) (hqi : qi * q ≡ 1 [ZMOD p]) :
    ∃ r, mxpCrt w a b c p q dp dq qi false = some r ∧ 0 ≤ r ∧ r < p * q ∧
      r ≡ a ^ b.toNat [ZMOD p] ∧ r ≡ a ^ c.toNat [ZMOD q] := mxpCrt_spec w a b c p q dp dq qi hp hpo hq hqo hb hc hqi

/-- the same with qi computed by bn_mod_inv as the harness (and relic_cp_rsa.c) does, for coprime p, q -/
theorem mxp_crt_op_exact (w : Nat) (a dp dq p q : Int) (hp : 1 < p) (hpo : p % 2 = 1) (hq : 1 < q) (hqo : q % 2 = 1)
    (hdp : 0 ≤ dp) (hdq : 0 ≤ dq) (hg : Int.gcd q p = 1) :
    ∃ r, mxpCrtOp w a dp dq p q false = some r ∧ 0 ≤ r ∧ r < p * q ∧
      r ≡ a ^ dp.toNat [ZMOD p] ∧ r ≡ a ^ dq.toNat [ZMOD q] := mxpCrtOp_spec w a dp dq p q hp hpo hq hqo hdp hdq hg

/-- the loop `while (d < 0) d += p` of bn_mxp_crt ends within the fuel the model supplies (|d| additions) -/
theorem mxp_crt_addloop_total (p : Int) (hp : 0 < p) (d : Int) : 0 ≤ addLoop p d.natAbs d :=
  addLoop_nonneg p hp _ d (by omega)

/-- bn_smb_leg: for every integer a (negative, ≥ p, multiples of p included) and every odd prime p the result is the Legendre symbol -/
theorem smb_leg_exact (w : Nat) (p : Nat) [Fact p.Prime] (hp2 : p ≠ 2) (a : Int) :
    smbLeg w a (p : Int) = some (legendreSym p a) := smbLeg_spec w p hp2 a

/-- bn_mxp_sim (= bn_mxp_sim_few unrolled at n = 2: table {1, a, d, d·a}, one squaring per bit of the longer exponent, one
    multiplication by t[parities]) on ALL integers: m = 1 → 0; m even or ≤ 0 → error (also when both exponents are 0 — there is no
    zero-exponent exit); otherwise (a^|b| · d^|e|) mod m, canonical — the signs of the exponents are ignored by the code -/
theorem mxp_sim_exact (w : Nat) (a b d e m : Int) : SimSpec a b d e m (mxpSim w a b d e m) := mxpSim_spec w a b d e m

/-- plain reading: odd m > 1, exponents ≥ 0 -/
theorem mxp_sim_nonneg (w : Nat) (a b d e m : Int) (hm : 1 < m) (hodd : m % 2 = 1) (hb : 0 ≤ b) (he : 0 ≤ e) :
    mxpSim w a b d e m = some (a ^ b.toNat * d ^ e.toNat % m) := by
  have h := mxpSim_spec w a b d e m
  unfold SimSpec at h
  rw [if_neg (by omega), if_neg (by omega)] at h
  rw [h, Int.toNat_of_nonneg hb |> fun _ => (by omega : b.natAbs = b.toNat), (by omega : e.natAbs = e.toNat)]

/-- bn_mxp_crt, sqr = 1: with crtHalf a b p dp = ((a^b mod p² − 1) / p · dp) mod p (floor division) the result r lies in [0, pq),
    r ≡ crtHalf a b p dp (mod p) and r mod q = crtHalf a c q dq — the CRT lift of the two Paillier-type halves -/
theorem mxp_crt_sqr_exact (w : Nat) (a b c p q dp dq qi : Int) (hp : 1 < p) (hpo : p % 2 = 1) (hq : 1 < q) (hqo : q % 2 = 1)
    (hb : 0 ≤ b) (hc : 0 ≤ c) (hqi : qi * q ≡ 1 [ZMOD p]) :
    ∃ r, mxpCrt w a b c p q dp dq qi true = some r ∧ 0 ≤ r ∧ r < p * q ∧
      r ≡ crtHalf a b p dp [ZMOD p] ∧ r ≡ crtHalf a c q dq [ZMOD q] ∧ r % q = crtHalf a c q dq :=
  mxpCrt_sqr_spec w a b c p q dp dq qi hp hpo hq hqo hb hc hqi

/-- RSA: distinct odd primes p, q, EVERY integer a (no coprimality), exponents ≥ 1 with dp ≡ d (mod p−1), dq ≡ d (mod q−1):
    bn_mxp_crt (qi by bn_mod_inv) returns a^d mod pq -/
theorem mxp_crt_rsa (w : Nat) (p q : Nat) [Fact p.Prime] [Fact q.Prime] (hp2 : p ≠ 2) (hq2 : q ≠ 2) (hpq : p ≠ q)
    (a : Int) (d dp dq : Nat) (hd : 1 ≤ d) (hdp : 1 ≤ dp) (hdq : 1 ≤ dq)
    (h1 : dp ≡ d [MOD p - 1]) (h2 : dq ≡ d [MOD q - 1]) :
    mxpCrtOp w a dp dq p q false = some (a ^ d % ((p : Int) * q)) := mxpCrt_rsa w p q hp2 hq2 hpq a d dp dq hd hdp hdq h1 h2

/-- bn_mxp_sim_few for every n, on ALL integers (c0 = the value c holds before the call, ps = [(a_0, b_0), …]): m = 1 → 0; n = 0 → c untouched;
    n > 8 → error; m even or ≤ 0 → error; otherwise (Π a_i^|b_i|) mod m, canonical. The 2^n table is proved right on every index whose
    bits select only bases with a non-zero exponent (`TabOK`), and only such indices are read (`parity_sub`) -/
theorem mxp_sim_few_exact (w : Nat) (c0 : Int) (ps : List (Int × Int)) (m : Int) :
    FewSpec c0 ps m (mxpSimFew w c0 ps m) := mxpSimFew_spec w c0 ps m

/-- bn_mxp_sim_lot (blocks of XP_WIDTH = 8 pairs through bn_mxp_sim_few, a single leftover pair through bn_mxp, several leftovers through
    bn_mxp_sim_few, every product reduced by bn_mod_basic): for an odd modulus > 1 and exponents ≥ 0, any number of pairs,
    the result is (Π a_i^b_i) mod m, canonical -/
theorem mxp_sim_lot_exact (w : Nat) (ps : List (Int × Int)) (m : Int) (hm : 1 < m) (hodd : m % 2 = 1) (hnn : ∀ p ∈ ps, 0 ≤ p.2) :
    mxpSimLot w ps m = some (prodPow ps % m) := mxpSimLot_spec w ps m hm hodd hnn

-- the hypotheses are satisfiable
example : ∃ r, mxpCrtOp 64 5 3 3 7 11 false = some r ∧ 0 ≤ r ∧ r < 7 * 11 ∧ r ≡ 5 ^ 3 [ZMOD 7] ∧ r ≡ 5 ^ 3 [ZMOD 11] :=
  mxp_crt_op_exact 64 5 3 3 7 11 (by decide) (by decide) (by decide) (by decide) (by decide) (by decide) (by decide)

end Relic.Props.C09
