/- C09 extension (Mxp family): theorems model = specification. -/

namespace Relic.Props.C09

end Relic.Props.C09
