/-
C05 — Signature schemes are complete and sound, including encoding checks.
-/
import RelicVerif.Spec.Sig

namespace Relic.Props.C05

end Relic.Props.C05
