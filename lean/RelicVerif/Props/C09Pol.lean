/-
C09 extension (Pol family): bn_evl and bn_lag of src/bn/relic_bn_lag.c (Model/NtPoly.lean mirrors the two loops; executed by the
driver on every presented line) return the mathematically defined values for all inputs.
-/
import RelicVerif.Lemmas.NtPoly

namespace Relic.Props.C09
open Relic.Model.NtPoly Relic.Lemmas.NtPoly

/-- bn_evl: Horner's loop with a reduction after every multiplication and addition = (Σ a_j·x^j) mod b, in [0, b), for every
coefficient list (any signs, any sizes), every x and every modulus b > 0 -/
theorem evl_exact (as : List Int) (x b : Int) (hb : 0 < b) : evl as x b = evalP as x % b := evl_eq as x b hb

/-- bn_lag: for every list of roots (repeated, negative, ≥ b allowed) and every modulus b > 1: n + 1 coefficients, each in [0, b),
and the polynomial they define equals Π (X − a_i) modulo b at EVERY integer X (hence coefficient-wise modulo b) -/
theorem lag_exact (as : List Int) (b : Int) (hb : 1 < b) :
    (lag as b).length = as.length + 1 ∧ (∀ c ∈ lag as b, 0 ≤ c ∧ c < b) ∧
    ∀ X, evalP (lag as b) X ≡ (as.map (fun a => X - a)).prod [ZMOD b] := lag_spec as b hb

example : lag [1, 2, 3] 7 = [1, 4, 1, 1] := by decide
example : evl [1, 4, 1, 1] 3 7 = 0 := by decide

end Relic.Props.C09
