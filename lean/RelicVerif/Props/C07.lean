/-
C07 — Decoding validates untrusted bytes; encoding is canonical and round-trips.
Integer part (bn_read_bin / bn_write_bin / bn_size_bin, bn_read_str / bn_write_str / bn_size_str).
-/
import RelicVerif.Lemmas.BnConv
import RelicVerif.Lemmas.EpConv
import RelicVerif.Lemmas.Ep2Conv
import RelicVerif.Lemmas.Fp2Conv

namespace Relic.Props.C07
open Relic.Model

variable (cfg : Cfg)

/-- R1 (binary): decode (encode x) = x -/
theorem bn_bin_decode_encode (hw : 0 < cfg.w) (h8 : 8 ∣ cfg.w) (a : Bn) (ha : a.WF cfg.B) (hpos : a.neg = false)
    (len : Nat) (b : List UInt8) (h : bnWriteBin cfg.w len a = some b) (x : Bn) (hx : bnReadBin cfg b = some x) :
    x = a := bnReadBin_writeBin cfg hw h8 a ha hpos len b h x hx

/-- R2 (binary): the encoding has exactly the requested length, denotes |a| big-endian, and is refused
    exactly when the buffer is shorter than the minimal (canonical) size -/
theorem bn_bin_encode_canonical (hw : 0 < cfg.w) (h8 : 8 ∣ cfg.w) (a : Bn) (ha : a.WF cfg.B) (len : Nat) :
    (∀ b, bnWriteBin cfg.w len a = some b → b.length = len ∧ os2n b = (a.toInt cfg.B).natAbs) ∧
    (bnWriteBin cfg.w len a = none ↔ len < bnSizeBin cfg.w a) ∧
    (a.toInt cfg.B).natAbs < 256 ^ bnSizeBin cfg.w a :=
  ⟨fun b h => bnWriteBin_spec cfg hw h8 a ha len b h, bnWriteBin_error_iff cfg a len, (bnSizeBin_spec cfg hw h8 a ha).1⟩

/-- R3 (binary): decoding an arbitrary byte string fails with an error or yields a valid integer whose
    re-encoding in the same length reproduces the input -/
theorem bn_bin_decode_valid (hw : 0 < cfg.w) (h8 : 8 ∣ cfg.w) (b : List UInt8) (x : Bn) (h : bnReadBin cfg b = some x) :
    x.WF cfg.B ∧ x.toInt cfg.B = os2n b ∧ bnWriteBin cfg.w b.length x = some b :=
  ⟨(bnReadBin_spec cfg hw h8 b x h).1, (bnReadBin_spec cfg hw h8 b x h).2, bnWriteBin_readBin cfg hw h8 b x h⟩

/-- R4 (text): every radix 2..64 is positional notation, and reading back returns the integer -/
-- STATEMENT CHANGED: the read-back conjunct now assumes `radix < cfg.B` (the radix and the digit values
-- are handed to bn_mul_dig / bn_add_dig as single digits); without it the claim is false for tiny words,
-- e.g. w = 1, radix = 10, a = 5 reads back as 3 (see the `example` in Lemmas/BnConv.lean). It holds for
-- every real configuration (radix ≤ 64 < 2^w for w ≥ 8).
theorem bn_str_positional (hw : 0 < cfg.w) (a : Bn) (ha : a.WF cfg.B) (radix len : Nat) (hr : 2 ≤ radix ∧ radix ≤ 64)
    (s : String) (h : bnWriteStr cfg len a radix = .ok s) :
    (∃ ds : List Nat, (∀ d ∈ ds, d < radix) ∧ (ds.head? ≠ some 0 ∨ ds = [0]) ∧ ds ≠ [] ∧
      posVal radix ds = (a.toInt cfg.B).natAbs ∧
      s.toList = (if a.toInt cfg.B < 0 then ['-'] else []) ++ ds.map convChar) ∧
    bnSizeStr cfg a radix = some (s.toList.length + 1) ∧
    (radix < cfg.B → ∀ x, bnReadStr cfg s radix = some x → x = a) :=
  ⟨bnWriteStr_spec cfg hw a ha radix len hr s h, bnSizeStr_spec cfg hw a ha radix len hr s h,
   fun hrB x hx => bnReadStr_writeStr cfg hw a ha radix len hr hrB s h x hx⟩

theorem bn_str_errors (a : Bn) (radix len : Nat) :
    (radix < 2 ∨ radix > 64 → bnWriteStr cfg len a radix = .error .noValid) ∧
    (∀ l, bnSizeStr cfg a radix = some l → len < l → bnWriteStr cfg len a radix = .error .noBuffer) :=
  bnWriteStr_error cfg a radix len

/-- non-vacuity -/
example : bnWriteBin 64 3 { neg := false, dp := [0x1ff] } = some [0, 1, 0xff] := by decide
example : bnReadBin { w := 8, cap := 66 } [0, 1, 0xff] = some { neg := false, dp := [0xff, 1] } := by decide


/-! ### elliptic-curve point encodings (Model/EpConv.lean; ep_read_bin / ep_write_bin / ep_pck / ep_upk) -/
section Ep
open Relic.Model.EpConv Relic.Spec.Curve

/-- decoding accepts only valid points: whatever `ep_read_bin` returns is the identity or satisfies the curve equation
    with canonical coordinates -/
theorem ep_decode_valid (x : Ctx) (hp : 1 < x.c.p) (hs : SrtSound x) (bin : Bytes) (P : Point)
    (h : readBin x bin = some P) : onCurve x.c P = true :=
  readBin_valid x hp hs bin P h

/-- re-encoding what was decoded reproduces the input bytes (same length, same compression) — off the 2-torsion
    for the compressed form, see `ep_compressed_two_torsion_malleable` -/
theorem ep_encode_decode (x : Ctx) (hp : 1 < x.c.p) (hnb : x.c.p ≤ 256 ^ x.nb) (hs : SrtSound x) (hsep : SignSeparates x)
    (bin : Bytes) (P : Point) (h : readBin x bin = some P)
    (hy0 : bin.length = x.nb + 1 → ∀ px, P ≠ some (px, 0)) :
    writeBin x bin.length P (bin.length = x.nb + 1) = some bin :=
  writeBin_readBin x hp hnb hs hsep bin P h hy0

/-- decoding what was encoded returns the point, compressed or not -/
theorem ep_decode_encode (x : Ctx) (hp : 1 < x.c.p) (hnb : x.c.p ≤ 256 ^ x.nb) (hnb0 : 0 < x.nb) (hs : SrtSound x)
    (hc : SrtComplete x) (hsep : SignSeparates x) (hprime : ∀ d, d ∣ x.c.p → d = 1 ∨ d = x.c.p)
    (P : Point) (hP : onCurve x.c P = true) (pack : Bool) (b : Bytes)
    (h : writeBin x (sizeBin x P pack) P pack = some b) : readBin x b = some P :=
  readBin_writeBin x hp hnb hnb0 hs hc hsep hprime P hP pack b h

/-- no two distinct byte strings of the same length decode to the same point (same restriction) -/
theorem ep_decode_injective (x : Ctx) (hs : SrtSound x) (hsep : SignSeparates x) (b1 b2 : Bytes) (P : Point)
    (h1 : readBin x b1 = some P) (h2 : readBin x b2 = some P) (hl : b1.length = b2.length)
    (hy0 : b1.length = x.nb + 1 → ∀ px, P ≠ some (px, 0)) : b1 = b2 :=
  readBin_inj x hs hsep b1 b2 P h1 h2 hl hy0

/-- the excluded case is real: a point (x, 0) of order two has two accepted compressed encodings (tags 2 and 3); no
    shipped curve of the verified configurations has such a point (odd prime order times cofactor 1), C18 -/
theorem ep_compressed_two_torsion_malleable (x : Ctx) (hnb : x.c.p ≤ 256 ^ x.nb) (hnb0 : 0 < x.nb) (hs : SrtSound x)
    (hc : SrtComplete x) (hprime : ∀ d, d ∣ x.c.p → d = 1 ∨ d = x.c.p) (px : Nat)
    (hon : onCurve x.c (some (px, 0)) = true) :
    readBin x (2 :: beBytes px x.nb) = some (some (px, 0)) ∧
    readBin x (3 :: beBytes px x.nb) = some (some (px, 0)) ∧
    writeBin x (x.nb + 1) (some (px, 0)) true = some (2 :: beBytes px x.nb) :=
  readBin_twoTorsion_malleable x hnb hnb0 hs hc hprime px hon

end Ep

/-! ### points of the twist over Fp2 (ep2_write_bin / ep2_read_bin, ep2_pck / ep2_upk) -/
section Ep2
open Relic.Model.Ep2Conv Relic.Lemmas.Ep2Conv Relic.Spec.CurveX

/-- decoding accepts only points that satisfy the curve equation (with reduced coordinates: `onCurve` includes canonicity) -/
theorem ep2_decode_valid (x : Relic.Model.Ep2Conv.Ctx) (bin : List Nat) (P : List Nat × List Nat)
    (h : Relic.Model.Ep2Conv.readBin x bin = some (some P)) : onCurve x.c (some P) = true :=
  Relic.Lemmas.Ep2Conv.readBin_valid x bin P h

/-- decode(encode(P)) = P in the uncompressed format at the advertised length, for every point of the twist -/
theorem ep2_decode_encode_unpacked (x : Relic.Model.Ep2Conv.Ctx) (fb : Bool) (a0 a1 b0 b1 : Nat) (hnb : 0 < x.nb)
    (hp : x.c.d.p ≤ 256 ^ x.nb) (ha0 : a0 < x.c.d.p) (ha1 : a1 < x.c.d.p) (hb0 : b0 < x.c.d.p) (hb1 : b1 < x.c.d.p)
    (hon : onCurve x.c (some ([a0, a1], [b0, b1])) = true) :
    (Relic.Model.Ep2Conv.writeBin x fb (4 * x.nb + 1) (some ([a0, a1], [b0, b1])) false).bind (Relic.Model.Ep2Conv.readBin x)
      = some (some ([a0, a1], [b0, b1])) :=
  readBin_writeBin_unpacked x fb a0 a1 b0 b1 hnb hp ha0 ha1 hb0 hb1 hon

/-- the compression bit separates y from −y (so the compressed string determines the point), with the rule of ep2_upk, which the
    repaired ep2_pck writes -/
theorem ep2_compression_bit_separates (p y0 y1 : Nat) (hodd : p % 2 = 1) (h0 : y0 < p) (h1 : y1 < p) (hne : y0 ≠ 0 ∨ y1 ≠ 0) :
    signPck true p [(p - y0) % p, (p - y1) % p] ≠ signPck true p [y0, y1] := by
  rw [signPck_fallback, signPck_fallback]
  exact signUpk_separates p y0 y1 hodd h0 h1 hne

/-- with the rule ep2_pck used at the pinned commit the statement is false (y and −y in Fp share the bit); found by this check on the
    implementation (twist points with y in Fp decoded to −P), repaired in /repo -/
theorem ep2_compression_bit_pinned_counterexample :
    signPck false 7 [5, 0] = signPck false 7 [(7 - 5) % 7, (7 - 0) % 7] ∧ signUpk 7 [5, 0] ≠ signPck false 7 [5, 0] :=
  signPck_pinned_not_separating

/-- premises satisfiable -/
example : signPck true 7 [5, 0] = 1 ∧ signPck true 7 [2, 0] = 0 ∧ (7 % 2 = 1) := by decide

end Ep2

/-! ### elements of Fp2 (fp2_write_bin / fp2_read_bin, fp2_pck / fp2_upk) -/
section Fp2
open Relic.Lemmas.Fp2Conv

/-- decoding a packed string (FB + 1 bytes) yields only unitary elements with a reduced first coefficient equal to the transmitted one
    and a second coefficient of the transmitted parity — so the re-encoding is the input -/
theorem fp2_decode_packed_valid (x : Relic.Model.Fp2Conv.Ctx) (hp : 1 < x.p) (hs : SrtSound x) (hq : QinvOk x) (bin : List Nat)
    (a0 a1 : Nat) (hl : bin.length = x.nb + 1) (h : Relic.Model.Fp2Conv.readBin x bin = some (a0, a1)) :
    Relic.Model.Fp2Conv.unitary x a0 a1 = true ∧ a0 < x.p ∧ a0 = Relic.Model.Ep2Conv.beVal (bin.take x.nb) ∧
      x.bit a1 = bin.getD x.nb 0 :=
  readBin_packed_valid x hp hs hq bin a0 a1 hl h

/-- a parity byte other than 0 / 1 is never accepted (the pinned fp2_read_bin accepted every value: repaired) -/
theorem fp2_decode_parity_rejected (x : Relic.Model.Fp2Conv.Ctx) (bin : List Nat) (hl : bin.length = x.nb + 1)
    (hpar : bin.getD x.nb 0 > 1) : Relic.Model.Fp2Conv.readBin x bin = none :=
  readBin_parity_rejected x bin hl hpar

/-- decode(encode(a)) = a in the packed format for every unitary element, for every prime p and every non-residue β (the pinned
    fp2_upk was only correct for β = −1: repaired) -/
theorem fp2_decode_encode_packed (x : Relic.Model.Fp2Conv.Ctx) (hprime : Nat.Prime x.p) (hs : SrtSound x) (hc : SrtComplete x)
    (hq : QinvOk x) (hsep : BitSep x) (hbit : ∀ a, x.bit a ≤ 1) (hnb : 0 < x.nb) (hp : x.p ≤ 256 ^ x.nb) (a0 a1 : Nat)
    (h0 : a0 < x.p) (h1 : a1 < x.p) (hu : Relic.Model.Fp2Conv.unitary x a0 a1 = true) :
    (Relic.Model.Fp2Conv.writeBin x (Relic.Model.Fp2Conv.sizeBin x a0 a1 true) a0 a1 true).bind (Relic.Model.Fp2Conv.readBin x)
      = some (a0, a1) :=
  readBin_writeBin_packed x hprime hs hc hq hsep hbit hnb hp a0 a1 h0 h1 hu

/-- decode(encode(a)) = a in the plain format -/
theorem fp2_decode_encode_plain (x : Relic.Model.Fp2Conv.Ctx) (a0 a1 : Nat) (hnb : 1 < x.nb) (hp : x.p ≤ 256 ^ x.nb)
    (h0 : a0 < x.p) (h1 : a1 < x.p) :
    Relic.Model.Fp2Conv.readBin x (Relic.Model.Ep2Conv.beBytes a0 x.nb ++ Relic.Model.Ep2Conv.beBytes a1 x.nb) = some (a0, a1) :=
  readBin_writeBin_plain x a0 a1 hnb hp h0 h1

/-- premises satisfiable: F_7[u]/(u² − 5) with β⁻¹ = 3; the element 6 = −1 is unitary -/
example : Relic.Model.Fp2Conv.unitary { p := 7, qnr := 5, qinv := 3, nb := 1, srt := fun _ => none, bit := fun a => a % 2 } 6 0 = true ∧
    (3 * 5) % 7 = 1 % 7 := by decide

end Fp2

end Relic.Props.C07
