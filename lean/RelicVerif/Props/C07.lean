/-
C07 — Decoding validates untrusted bytes; encoding is canonical and round-trips.
Integer part (bn_read_bin / bn_write_bin / bn_size_bin, bn_read_str / bn_write_str / bn_size_str).
-/
import RelicVerif.Lemmas.BnConv

namespace Relic.Props.C07
open Relic.Model

variable (cfg : Cfg)

/-- R1 (binary): decode (encode x) = x -/
theorem bn_bin_decode_encode (hw : 0 < cfg.w) (h8 : 8 ∣ cfg.w) (a : Bn) (ha : a.WF cfg.B) (hpos : a.neg = false)
    (len : Nat) (b : List UInt8) (h : bnWriteBin cfg.w len a = some b) (x : Bn) (hx : bnReadBin cfg b = some x) :
    x = a := bnReadBin_writeBin cfg hw h8 a ha hpos len b h x hx

/-- R2 (binary): the encoding has exactly the requested length, denotes |a| big-endian, and is refused
    exactly when the buffer is shorter than the minimal (canonical) size -/
theorem bn_bin_encode_canonical (hw : 0 < cfg.w) (h8 : 8 ∣ cfg.w) (a : Bn) (ha : a.WF cfg.B) (len : Nat) :
    (∀ b, bnWriteBin cfg.w len a = some b → b.length = len ∧ os2n b = (a.toInt cfg.B).natAbs) ∧
    (bnWriteBin cfg.w len a = none ↔ len < bnSizeBin cfg.w a) ∧
    (a.toInt cfg.B).natAbs < 256 ^ bnSizeBin cfg.w a :=
  ⟨fun b h => bnWriteBin_spec cfg hw h8 a ha len b h, bnWriteBin_error_iff cfg a len, (bnSizeBin_spec cfg hw h8 a ha).1⟩

/-- R3 (binary): decoding an arbitrary byte string fails with an error or yields a valid integer whose
    re-encoding in the same length reproduces the input -/
theorem bn_bin_decode_valid (hw : 0 < cfg.w) (h8 : 8 ∣ cfg.w) (b : List UInt8) (x : Bn) (h : bnReadBin cfg b = some x) :
    x.WF cfg.B ∧ x.toInt cfg.B = os2n b ∧ bnWriteBin cfg.w b.length x = some b :=
  ⟨(bnReadBin_spec cfg hw h8 b x h).1, (bnReadBin_spec cfg hw h8 b x h).2, bnWriteBin_readBin cfg hw h8 b x h⟩

/-- R4 (text): every radix 2..64 is positional notation, and reading back returns the integer -/
-- STATEMENT CHANGED: the read-back conjunct now assumes `radix < cfg.B` (the radix and the digit values
-- are handed to bn_mul_dig / bn_add_dig as single digits); without it the claim is false for tiny words,
-- e.g. w = 1, radix = 10, a = 5 reads back as 3 (see the `example` in Lemmas/BnConv.lean). It holds for
-- every real configuration (radix ≤ 64 < 2^w for w ≥ 8).
theorem bn_str_positional (hw : 0 < cfg.w) (a : Bn) (ha : a.WF cfg.B) (radix len : Nat) (hr : 2 ≤ radix ∧ radix ≤ 64)
    (s : String) (h : bnWriteStr cfg len a radix = .ok s) :
    (∃ ds : List Nat, (∀ d ∈ ds, d < radix) ∧ (ds.head? ≠ some 0 ∨ ds = [0]) ∧ ds ≠ [] ∧
      posVal radix ds = (a.toInt cfg.B).natAbs ∧
      s.toList = (if a.toInt cfg.B < 0 then ['-'] else []) ++ ds.map convChar) ∧
    bnSizeStr cfg a radix = some (s.toList.length + 1) ∧
    (radix < cfg.B → ∀ x, bnReadStr cfg s radix = some x → x = a) :=
  ⟨bnWriteStr_spec cfg hw a ha radix len hr s h, bnSizeStr_spec cfg hw a ha radix len hr s h,
   fun hrB x hx => bnReadStr_writeStr cfg hw a ha radix len hr hrB s h x hx⟩

theorem bn_str_errors (a : Bn) (radix len : Nat) :
    (radix < 2 ∨ radix > 64 → bnWriteStr cfg len a radix = .error .noValid) ∧
    (∀ l, bnSizeStr cfg a radix = some l → len < l → bnWriteStr cfg len a radix = .error .noBuffer) :=
  bnWriteStr_error cfg a radix len

/-- non-vacuity -/
example : bnWriteBin 64 3 { neg := false, dp := [0x1ff] } = some [0, 1, 0xff] := by decide
example : bnReadBin { w := 8, cap := 66 } [0, 1, 0xff] = some { neg := false, dp := [0xff, 1] } := by decide

end Relic.Props.C07
