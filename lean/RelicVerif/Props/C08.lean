/-
C08 — No call reads or writes outside its objects; overflow is reported, not performed.

What a theorem can carry here is the *length bookkeeping*: for the modelled functions, a result either fits the
storage it is written to or the function reports an error.  The individual bounds are in Lemmas/Bounds.lean
(counted as obligations of this property); the two statements below are the summary forms.  Memory safety of the C
code itself (no access outside an object, no use of freed or uninitialised storage) is observed with sanitizer
builds and guard words on the presented lines, not proved — see tools/props/c08.py.
-/
import RelicVerif.Lemmas.Bounds

namespace Relic.Props.C08
open Relic.Model Relic.Model.Rec Relic.Lemmas.Bounds

variable (cfg : Cfg)

/-- integer arithmetic: a successful result never has more digits than the configured capacity -/
theorem bn_results_fit (a b c : Bn) (ha : a.used ≤ cfg.cap) (hb : b.used ≤ cfg.cap) :
    (bnAdd cfg a b = some c → c.used ≤ cfg.cap) ∧ (bnSub cfg a b = some c → c.used ≤ cfg.cap) ∧
    (bnMulBasic cfg a b = some c → c.used ≤ cfg.cap) ∧ (bnMulComba cfg a b = some c → c.used ≤ cfg.cap) :=
  ⟨bnAdd_fits cfg a b c ha hb, bnSub_fits cfg a b c ha hb, bnMulBasic_fits cfg a b c, bnMulComba_fits cfg a b c⟩

/-- scalar recodings: a successful recoding never produces more digits than the caller's buffer length -/
theorem recodings_fit (cap k n w : Nat) (ds : List Int) :
    (recWin cap k w = some ds → ds.length ≤ cap) ∧ (recNaf cap k w = some ds → ds.length ≤ cap) ∧
    (recReg cap k n w = some ds → ds.length ≤ cap) :=
  ⟨recWin_fits cap k w ds, recNaf_fits cap k w ds, recReg_fits cap k n w ds⟩

end Relic.Props.C08
