/-
C08 — No call reads or writes outside its objects; overflow is reported, not performed.

What a theorem can carry here is the *length bookkeeping*: for the modelled functions, a result either fits the
storage it is written to or the function reports an error.  The individual bounds are in Lemmas/Bounds.lean
(counted as obligations of this property); the two statements below are the summary forms.  Memory safety of the C
code itself (no access outside an object, no use of freed or uninitialised storage) is observed with sanitizer
builds and guard words on the presented lines, not proved — see tools/props/c08.py.
-/
import RelicVerif.Lemmas.Bounds
import RelicVerif.Model.ParamSel

namespace Relic.Props.C08
open Relic.Model Relic.Model.Rec Relic.Lemmas.Bounds

variable (cfg : Cfg)

/-- integer arithmetic: a successful result never has more digits than the configured capacity (a zero result is the
    single digit 0, hence `max … 1`; for a positive capacity this is the capacity itself) -/
theorem bn_results_fit (a b c : Bn) (ha : a.used ≤ cfg.cap) (hb : b.used ≤ cfg.cap) :
    (bnAdd cfg a b = some c → c.used ≤ max cfg.cap 1) ∧ (bnSub cfg a b = some c → c.used ≤ max cfg.cap 1) ∧
    (bnMulBasic cfg a b = some c → c.used ≤ max cfg.cap 1) ∧ (bnMulComba cfg a b = some c → c.used ≤ max cfg.cap 1) :=
  ⟨bnAdd_fits cfg a b c ha hb, bnSub_fits cfg a b c ha hb, bnMulBasic_fits cfg a b c, bnMulComba_fits cfg a b c⟩

/-- scalar recodings: a successful recoding never produces more digits than the caller's buffer length -/
theorem recodings_fit (cap k n w : Nat) (hw : 0 < w) (ds : List Int) :
    (recWin cap k w = some ds → ds.length ≤ cap) ∧ (recNaf cap k w = some ds → ds.length ≤ cap) ∧
    (recReg cap k n w = some ds → ds.length ≤ cap) ∧ (recSlw cap k w = some ds → ds.length ≤ cap) :=
  ⟨recWin_fits cap k w hw ds, recNaf_fits cap k w ds, recReg_fits cap k n w ds, recSlw_fits cap k w hw ds⟩

/-- joint sparse form: both rows together fit the caller's buffer (the defect repaired by 800d2e7 made this false) -/
theorem jsf_fits (cap k l : Nat) (a0 a1 : List Int) (h : recJsf cap k l = some (a0, a1)) : a0.length + a1.length ≤ cap :=
  (recJsf_fits_both cap k l a0 a1 h).1

/-! ### "an unsupported parameter is reported through the error mechanism" -/
open Relic.Model.Param in
/-- an identifier without an entry in the compiled-in field table is reported and leaves the installed field as it was -/
theorem unsupported_field_reported (fs : List FieldParam) (st : FieldSel) (id : Nat) (h : ∀ f ∈ fs, f.id ≠ id) :
    selectField fs st id = (st, false) := by
  unfold selectField
  have : fs.find? (·.id == id) = none := by
    rw [List.find?_eq_none]; intro f hf; simpa using h f hf
  rw [this]

open Relic.Model.Param in
/-- an accepted identifier is the one the getter reports afterwards, together with the prime of *its* table entry -/
theorem supported_field_selected (fs : List FieldParam) (st st' : FieldSel) (id : Nat) (h : selectField fs st id = (st', true)) :
    st'.id = id ∧ ∃ f ∈ fs, f.id = id ∧ st'.prime = f.prime := by
  unfold selectField at h
  split at h
  · next f hf =>
    have hm := List.mem_of_find?_eq_some hf
    have hp := List.find?_some hf
    simp only [Prod.mk.injEq, and_true] at h
    subst h
    exact ⟨rfl, f, hm, by simpa using hp, rfl⟩
  · simp at h

open Relic.Model.Param in
/-- the same for curves: no table entry → reported, nothing installed -/
theorem unsupported_curve_reported (fs : List FieldParam) (cs : List CurveParam) (st : CurveSel) (id : Nat)
    (h : ∀ c ∈ cs, c.id ≠ id) : selectCurve fs cs st id = (st, false) := by
  unfold selectCurve
  have : cs.find? (·.id == id) = none := by
    rw [List.find?_eq_none]; intro c hc; simpa using h c hc
  rw [this]

/-- premises satisfiable: a one-entry table rejects every other identifier and accepts its own -/
example : Relic.Model.Param.selectField [{ name := "X", id := 7, kind := .literal 13, sps := [] }] ⟨7, 13⟩ 8 = (⟨7, 13⟩, false) ∧
    Relic.Model.Param.selectField [{ name := "X", id := 7, kind := .literal 13, sps := [] }] ⟨0, 0⟩ 7 = (⟨7, 13⟩, true) := by
  constructor <;> rfl

end Relic.Props.C08
