/- C08: allocation-failure enumeration lines (`af <fn> …`, harness/ops_af.c).  The oracle reports, for one library call, how many of the
   injected allocation failures fired, how many were reported through the error mechanism, how many were absorbed (no report, but the
   result is the reference result: the memory was not needed), how many silently produced a different result, and after how many of them
   the same call without a failure gave the reference result again.  The judgement is the statement of the property: every failure is
   reported or harmless, and the library remains usable. -/
import Driver.Util

namespace Driver.C08
open Driver

private def kvs (got : String) : List (String × String) :=
  (got.splitOn " ").filterMap fun t => match t.splitOn "=" with
    | k :: v :: _ => some (k, v)
    | _ => none

/-- what the enumeration must look like -/
def afOk (tested fired reported absorbed silent usable : Nat) : Bool :=
  silent == 0 && fired == reported + absorbed && usable == tested

def handle (op : String) (_args : List String) (got : String) : Option Verdict :=
  if op != "af" then none else
  let kv := kvs got
  let num (k : String) : Option Nat := (kv.lookup k).bind String.toNat?
  match num "n", num "tested", num "fired", num "reported", num "absorbed", num "silent", num "usable" with
  | some n, some t, some f, some r, some a, some s, some u =>
    let good := afOk t f r a s u
    let want := "n=" ++ toString n ++ " tested=" ++ toString t ++ " fired=" ++ toString f ++ " reported=" ++ toString (f - a) ++
      " absorbed=" ++ toString a ++ " silent=0 usable=" ++ toString t
    some { model := got, spec := [if good then got else want],
           tags := ["af", if n == 0 then "af.noalloc" else if a > 0 then "af.absorbed" else "af.reported"] }
  | _, _, _, _, _, _, _ => some { model := got, spec := ["n= tested= fired= reported= absorbed= silent= usable= …"], tags := ["af.parse"] }

end Driver.C08
