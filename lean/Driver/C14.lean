/- C14 handlers: hash functions, HMAC, KDF/MGF, XMD, AES-CBC. -/
import Driver.C15
import RelicVerif.Spec.Sha512
import RelicVerif.Spec.Blake2s
import RelicVerif.Spec.Mac
import RelicVerif.Spec.Aes
import RelicVerif.Model.Md
import RelicVerif.Model.Bc

namespace Driver.C14
open Driver Driver.C15 Relic.Spec Relic.Model

def h256 : Mac.Hash := { h := Sha256.sha256, outLen := 32, blockLen := 64 }

def optBytes : Option (List UInt8) → String
  | some b => fmtBytes b
  | none => "err"

/-- the streaming models: SHA-256 is the byte-at-a-time model of sha224-256.c; the others are one-shot -/
def streamOf (alg : String) : Option Md.Stream :=
  match alg with
  | "sh256" => some Md.sha256Stream
  | "sh224" => some { run := fun cs => some (Sha256.sha224 cs.flatten), outLen := 28, blockLen := 64 }
  | "sh384" => some { run := fun cs => some (Sha512.sha384 cs.flatten), outLen := 48, blockLen := 128 }
  | "sh512" => some { run := fun cs => some (Sha512.sha512 cs.flatten), outLen := 64, blockLen := 128 }
  | _ => none

def hashOf (alg : String) : Option Mac.Hash :=
  match alg with
  | "sh256" => some h256
  | "sh224" => some { h := Sha256.sha224, outLen := 28, blockLen := 64 }
  | "sh384" => some { h := Sha512.sha384, outLen := 48, blockLen := 128 }
  | "sh512" => some { h := Sha512.sha512, outLen := 64, blockLen := 128 }
  | "b2s160" => some { h := Blake2s.blake2s 20, outLen := 20, blockLen := 64 }
  | "b2s256" => some { h := Blake2s.blake2s 32, outLen := 32, blockLen := 64 }
  | _ => none

def aesE (key : List UInt8) : List UInt8 → List UInt8 := Aes.cipher (Aes.keyExpansion key)
def aesD (key : List UInt8) : List UInt8 → List UInt8 := Aes.invCipher (Aes.keyExpansion key)

def handle (op : String) (args : List String) : Option Verdict :=
  match op, args with
  | "md_map", [alg, m] => do
    let b ← parseBytes m
    let H ← hashOf alg
    -- model: sha256 goes through the streaming model; the others are one-shot
    let mdl := if alg == "sh256" then optBytes (Sha256.mdMap b) else fmtBytes (H.h b)
    some { model := mdl, spec := [fmtBytes (H.h b)] }
  | "md_hmac", [k, m] => do
    let k ← parseBytes k
    let m ← parseBytes m
    some { model := fmtBytes (Md.mdHmac h256 m k), spec := [fmtBytes (Mac.hmac h256 k m)] }
  | "md_kdf", [n, i] => do
    let n ← n.toNat?
    let i ← parseBytes i
    some { model := fmtBytes (Md.mdKdf h256 n i), spec := [fmtBytes (Mac.kdf2 h256 i n)] }
  | "md_mgf", [n, i] => do
    let n ← n.toNat?
    let i ← parseBytes i
    some { model := fmtBytes (Md.mdMgf h256 n i), spec := [fmtBytes (Mac.mgf1 h256 i n)] }
  | "md_xmd", [alg, n, m, d] => do
    let n ← n.toNat?
    let m ← parseBytes m
    let d ← parseBytes d
    let S ← streamOf alg
    let H ← hashOf alg
    some { model := optBytes (Md.mdXmd S n m d), spec := [optBytes (Mac.expandMessageXmd H m d n)] }
  | "aes_enc", [cap, k, iv, p] => do
    let cap ← cap.toNat?
    let k ← parseBytes k
    let iv ← parseBytes iv
    let p ← parseBytes p
    -- spec: FIPS 197 + SP 800-38A + PKCS#7 whenever key size is valid and the buffer is large enough
    let ok := (k.length = 16 ∨ k.length = 24 ∨ k.length = 32) ∧ cap ≥ p.length + (16 - p.length % 16)
    some { model := optBytes (Bc.bcAesCbcEnc aesE cap p k iv),
           spec := [if ok then fmtBytes (Aes.aesCbcPkcs7Enc k iv p) else "err"] }
  | "aes_dec", [cap, k, iv, c] => do
    let cap ← cap.toNat?
    let k ← parseBytes k
    let iv ← parseBytes iv
    let c ← parseBytes c
    let ok := (k.length = 16 ∨ k.length = 24 ∨ k.length = 32) ∧ cap ≥ c.length
    some { model := optBytes (Bc.bcAesCbcDec aesD cap c k iv),
           spec := [if ok then optBytes (Aes.aesCbcPkcs7Dec k iv c) else "err"] }
  | _, _ => none

end Driver.C14
