/- C14 handlers: hash functions, HMAC, KDF/MGF, XMD, AES-CBC. -/
import Driver.C15
import RelicVerif.Spec.Sha512
import RelicVerif.Spec.Blake2s
import RelicVerif.Spec.Mac
import RelicVerif.Spec.Aes
import RelicVerif.Model.Md
import RelicVerif.Model.Bc
import RelicVerif.Model.ShaStream
import RelicVerif.Model.Blake2s
import RelicVerif.Model.Rijndael

namespace Driver.C14
open Driver Driver.C15 Relic.Spec Relic.Model

def h256 : Mac.Hash := { h := Sha256.sha256, outLen := 32, blockLen := 64 }

def optBytes : Option (List UInt8) → String
  | some b => fmtBytes b
  | none => "err"

/-- the streaming models: SHA-256 is the byte-at-a-time model of sha224-256.c; the others are one-shot -/
def streamOf (alg : String) : Option Md.Stream :=
  match alg with
  | "sh256" => some Md.sha256Stream
  | "sh224" => some Md.sha224Stream
  | "sh384" => some Md.sha384Stream
  | "sh512" => some Md.sha512Stream
  | _ => none

def hashOf (alg : String) : Option Mac.Hash :=
  match alg with
  | "sh256" => some h256
  | "sh224" => some { h := Sha256.sha224, outLen := 28, blockLen := 64 }
  | "sh384" => some { h := Sha512.sha384, outLen := 48, blockLen := 128 }
  | "sh512" => some { h := Sha512.sha512, outLen := 64, blockLen := 128 }
  | "b2s160" => some { h := Blake2s.blake2s 20, outLen := 20, blockLen := 64 }
  | "b2s256" => some { h := Blake2s.blake2s 32, outLen := 32, blockLen := 64 }
  | _ => none

open Relic.Model.Bc (aesE aesD)

/-- tokens of md_stream / b2s_stream: a chunk, or `=` = a Result / final call in between -/
def parseToks : List String → Option (List (Option (List UInt8)))
  | [] => some []
  | t :: ts => do
    let r ← parseToks ts
    if t == "=" then some (none :: r) else do
      let b ← parseBytes t
      some (some b :: r)

def shaToksFrom {W : Type} (P : ShaStream.Params W) (c0 : ShaStream.Ctx W) (toks : List (Option (List UInt8))) : Option (List UInt8) :=
  ShaStream.result P (toks.foldl (fun c t =>
    match t with
    | none => ShaStream.finish P c
    | some b => ShaStream.input P c b) c0)

def shaToks {W : Type} (P : ShaStream.Params W) (toks : List (Option (List UInt8))) : Option (List UInt8) :=
  shaToksFrom P (ShaStream.reset P) toks

/-- the context after Reset with the bit counter preset (harness op md_stream_len) -/
def shaPreset {W : Type} (P : ShaStream.Params W) (bits : Nat) (toks : List (Option (List UInt8))) : Option (List UInt8) :=
  shaToksFrom P { ShaStream.reset P with lenBits := bits % 2 ^ (8 * P.lenBytes) } toks

/-- branch labels of the streaming SHA model for a token list (block size bs, length field lb) -/
def shaTags (bs lb : Nat) (toks : List (Option (List UInt8))) : List String :=
  let chunks := toks.filterMap id
  let n := chunks.flatten.length
  let fin := toks.any Option.isNone
  [if n % bs ≥ bs - lb then "sha-pad-extra-block" else "sha-pad-same-block",
   if n % bs = 0 then "sha-len-multiple-of-block" else "sha-len-partial-block",
   if chunks.length > 1 then "sha-multi-chunk" else "sha-single-chunk"] ++
  (if chunks.any List.isEmpty then ["sha-empty-chunk"] else []) ++
  (if chunks.any (fun c => c.length > bs) then ["sha-chunk-longer-than-block"] else []) ++
  (if fin then ["sha-result-then-more-calls"] else [])

def b2sToks (S : Blake2s.State) (toks : List (Option (List UInt8))) (outlen : Nat) : Option (List UInt8) :=
  Blake2s.final (toks.foldl (fun S t =>
    match t with
    | none => (match Blake2s.final S outlen with | some _ => Blake2s.finalState S | none => S)
    | some b => Blake2s.update S b) S) outlen

def b2sTags (kl : Nat) (toks : List (Option (List UInt8))) : List String :=
  let chunks := toks.filterMap id
  let n := chunks.flatten.length + (if kl > 0 then 64 else 0)
  [if n = 0 then "b2s-empty" else if n % 64 = 0 then "b2s-last-block-full" else "b2s-last-block-partial",
   if kl > 0 then "b2s-keyed" else "b2s-unkeyed",
   if chunks.length > 1 then "b2s-multi-chunk" else "b2s-single-chunk"] ++
  (if chunks.any (fun c => c.length > 128) then ["b2s-direct-blocks-from-input"] else []) ++
  (if chunks.any List.isEmpty then ["b2s-empty-chunk"] else []) ++
  (if toks.any Option.isNone then ["b2s-final-then-more-calls"] else [])

def handle (op : String) (args : List String) : Option Verdict :=
  match op, args with
  | "md_map", [alg, m] => do
    let b ← parseBytes m
    let H ← hashOf alg
    -- model: every SHA goes through the streaming model of its C file (one Input call), BLAKE2s through the model of blake2s()
    let mdl :=
      match alg with
      | "sh256" => optBytes (Sha256.mdMap b)
      | "sh224" => optBytes (ShaStream.run ShaStream.sha224P [b])
      | "sh384" => optBytes (ShaStream.run ShaStream.sha384P [b])
      | "sh512" => optBytes (ShaStream.run ShaStream.sha512P [b])
      | "b2s160" => optBytes (Blake2s.blake2s 20 b [])
      | "b2s256" => optBytes (Blake2s.blake2s 32 b [])
      | _ => "unknown-alg"
    let tags := if alg.startsWith "sh" then shaTags H.blockLen (H.blockLen / 8) [some b] else b2sTags 0 [some b]
    some { model := mdl, spec := [fmtBytes (H.h b)], tags := tags }
  | "md_stream", alg :: toks => do
    let ts ← parseToks toks
    let H ← hashOf alg
    let mdl ←
      match alg with
      | "sh256" => some (optBytes (shaToks ShaStream.sha256P ts))
      | "sh224" => some (optBytes (shaToks ShaStream.sha224P ts))
      | "sh384" => some (optBytes (shaToks ShaStream.sha384P ts))
      | "sh512" => some (optBytes (shaToks ShaStream.sha512P ts))
      | _ => none
    -- spec: the digest of everything fed; feeding data after a Result call is an error of the API
    let afterFin := (ts.dropWhile Option.isSome).filterMap id
    let spec := if afterFin.any (fun c => !c.isEmpty) then "err" else fmtBytes (H.h (ts.filterMap id).flatten)
    some { model := mdl, spec := [spec], tags := shaTags H.blockLen (H.blockLen / 8) ts }
  | "md_stream_len", alg :: bits :: toks => do
    let bits ← parseHexNat bits
    let cs ← toks.mapM parseBytes
    let ts := cs.map some
    let mdl ←
      match alg with
      | "sh256" => some (optBytes (shaPreset ShaStream.sha256P bits ts))
      | "sh224" => some (optBytes (shaPreset ShaStream.sha224P bits ts))
      | "sh384" => some (optBytes (shaPreset ShaStream.sha384P bits ts))
      | "sh512" => some (optBytes (shaPreset ShaStream.sha512P bits ts))
      | _ => none
    -- spec: FIPS 180-4 admits every message below 2^64 resp. 2^128 bits, so from a preset counter the only admissible refusal
    -- is a true wrap of the counter; otherwise the digest (Merkle–Damgård continued with that counter value = the model with the
    -- ideal wrap test)
    let ideal ←
      match alg with
      | "sh256" => some (optBytes (shaPreset { ShaStream.sha256P with corruptAfterAdd := fun l => l < 8 } bits ts))
      | "sh224" => some (optBytes (shaPreset { ShaStream.sha224P with corruptAfterAdd := fun l => l < 8 } bits ts))
      | "sh384" => some (optBytes (shaPreset { ShaStream.sha384P with corruptAfterAdd := fun l => l < 8 } bits ts))
      | "sh512" => some (optBytes (shaPreset { ShaStream.sha512P with corruptAfterAdd := fun l => l < 8 } bits ts))
      | _ => none
    some { model := mdl, spec := [ideal], tags := [if mdl == "err" then "sha-counter-test-fires" else "sha-counter-preset-ok"] }
  | "b2s_stream", ol :: k :: toks => do
    let ol ← ol.toNat?
    let k ← parseBytes k
    let ts ← parseToks toks
    let S := if k.length > 0 then Blake2s.initKey ol k else Blake2s.init ol
    let mdl := match S with
      | none => "err"
      | some S => optBytes (b2sToks S ts ol)
    -- spec: RFC 7693 for 1 ≤ nn ≤ 32, kk ≤ 32; any call after final is an error of the API
    let ok := 1 ≤ ol ∧ ol ≤ 32 ∧ k.length ≤ 32 ∧ ¬ ts.any Option.isNone
    some { model := mdl, spec := [if ok then fmtBytes (Blake2s.blake2sK ol k (ts.filterMap id).flatten) else "err"],
           tags := b2sTags k.length ts }
  | "b2s_ctr", ol :: t0 :: t1 :: toks => do
    let ol ← ol.toNat?
    let t0 ← parseHexNat t0
    let t1 ← parseHexNat t1
    let cs ← toks.mapM parseBytes
    let S ← Blake2s.init ol
    let S := { S with t0 := UInt32.ofNat t0, t1 := UInt32.ofNat t1 }
    let m := cs.flatten
    -- spec: the processing loop of RFC 7693 §3.3 continued from the byte counter t = t0 + 2^32·t1
    let T := t0 % 2 ^ 32 + 2 ^ 32 * (t1 % 2 ^ 32)
    let carry := (t0 % 2 ^ 32 + m.length ≥ 2 ^ 32)
    some { model := optBytes (Blake2s.final (cs.foldl Blake2s.update S) ol),
           spec := [fmtBytes (Blake2s.outBytes (Blake2s.loop (Blake2s.initH 0 ol) T (m.length / 64 + 2) m) ol)],
           tags := [if carry then "b2s-counter-carry" else "b2s-counter-no-carry"] }
  | "b2s", [ol, k, m] => do
    let ol ← ol.toNat?
    let k ← parseBytes k
    let m ← parseBytes m
    let ok := 1 ≤ ol ∧ ol ≤ 32 ∧ k.length ≤ 32
    some { model := optBytes (Blake2s.blake2s ol m k),
           spec := [if ok then fmtBytes (Blake2s.blake2sK ol k m) else "err"], tags := b2sTags k.length [some m] }
  | "md_hmac", [k, m] => do
    let k ← parseBytes k
    let m ← parseBytes m
    some { model := fmtBytes (Md.mdHmac h256 m k), spec := [fmtBytes (Mac.hmac h256 k m)] }
  | "md_kdf", [n, i] => do
    let n ← n.toNat?
    let i ← parseBytes i
    some { model := fmtBytes (Md.mdKdf h256 n i), spec := [fmtBytes (Mac.kdf2 h256 i n)] }
  | "md_mgf", [n, i] => do
    let n ← n.toNat?
    let i ← parseBytes i
    some { model := fmtBytes (Md.mdMgf h256 n i), spec := [fmtBytes (Mac.mgf1 h256 i n)] }
  | "md_xmd", [alg, n, m, d] => do
    let n ← n.toNat?
    let m ← parseBytes m
    let d ← parseBytes d
    let S ← streamOf alg
    let H ← hashOf alg
    some { model := optBytes (Md.mdXmd S n m d), spec := [optBytes (Mac.expandMessageXmd H m d n)] }
  | "aes_enc", [cap, k, iv, p] => do
    let cap ← cap.toNat?
    let k ← parseBytes k
    let iv ← parseBytes iv
    let p ← parseBytes p
    -- spec: FIPS 197 + SP 800-38A + PKCS#7 whenever key size is valid and the buffer is large enough
    let ok := (k.length = 16 ∨ k.length = 24 ∨ k.length = 32) ∧ cap ≥ p.length + (16 - p.length % 16)
    -- model: padEncrypt around the table-driven rijndaelKeySetupEnc / rijndaelEncrypt (tables extracted from the C text);
    -- spec: FIPS 197 cipher under SP 800-38A CBC and PKCS#7
    let nblk := p.length / 16 + 1
    some { model := optBytes (Bc.bcAesCbcEnc Rijndael.aesE cap p k iv),
           spec := [if ok then fmtBytes (Aes.aesCbcPkcs7Enc k iv p) else "err"],
           tags := ["aes-enc-key" ++ toString (8 * k.length), if p.length % 16 = 0 then "aes-enc-full-pad-block" else "aes-enc-partial-pad",
                    if nblk = 1 then "aes-enc-one-block" else "aes-enc-multi-block"] }
  | "aes_dec", [cap, k, iv, c] => do
    let cap ← cap.toNat?
    let k ← parseBytes k
    let iv ← parseBytes iv
    let c ← parseBytes c
    let ok := (k.length = 16 ∨ k.length = 24 ∨ k.length = 32) ∧ cap ≥ c.length
    let sp := if ok then optBytes (Aes.aesCbcPkcs7Dec k iv c) else "err"
    some { model := optBytes (Bc.bcAesCbcDec Rijndael.aesD cap c k iv),
           spec := [sp],
           tags := ["aes-dec-key" ++ toString (8 * k.length), if sp == "err" then "aes-dec-rejected" else "aes-dec-accepted"] }
  | _, _ => none

end Driver.C14
