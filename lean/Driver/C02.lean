/- C02 handlers: prime field. The field context (p, u, …) is what the running library reports in the
   `fp_param` line; the derived constants are checked against their defining equations here and against the
   source tables in C18. -/
import Driver.Util
import RelicVerif.Model.Fp
import RelicVerif.Model.FpAlg
import RelicVerif.Model.FpAlgCrt

namespace Driver.C02
open Driver Relic.Model
open Relic.Model.FpAlg (Ctx)

structure Env where
  ctx : FpCtx
  p : Nat
  conv : Nat
  qnr : Int
  cnr : Int
  alg : Ctx := { p := 0, m := 0, fb := 0, rinv := 0 }   -- context of the algorithm models (Model/FpAlg)
  hasAlg : Bool := false                                  -- the fp_param line carried bits / 2ad / srt / width

def powMod (a e m : Nat) : Nat :=
  let rec go (fuel : Nat) (a e acc : Nat) : Nat :=
    match fuel with
    | 0 => acc
    | f + 1 => if e = 0 then acc else go f (a * a % m) (e / 2) (if e % 2 = 1 then acc * a % m else acc)
  go (Nat.log2 e + 2) (a % m) e (1 % m)

def Env.R (e : Env) : Nat := e.ctx.R
def Env.toMont (e : Env) (a : Nat) : List Nat := toDigitsN e.ctx.w (a * e.R % e.p) e.ctx.n
def Env.rinv (e : Env) : Nat := powMod (e.R % e.p) (e.p - 2) e.p
def Env.fromMont (e : Env) (d : List Nat) : Nat := fromDigits e.ctx.w d * e.rinv % e.p

/-- how the oracle prints an element: minimal hex of the value, raw=<fixed-width Montgomery digits> -/
def fmtEl (e : Env) (raw : List Nat) : String :=
  natToHex (e.fromMont raw) ++ " raw=" ++ fmtRaw e.ctx.w raw

def fmtVal (e : Env) (v : Nat) : String := fmtEl e (e.toMont (v % e.p))

def inv (e : Env) (a : Nat) : Nat := powMod a (e.p - 2) e.p
def legendre (e : Env) (a : Nat) : Int :=
  if a % e.p = 0 then 0 else if powMod a ((e.p - 1) / 2) e.p = 1 then 1 else -1

def parseEnv (w : Nat) (got : String) : Option Env := do
  let kv := (got.splitOn " ").filterMap fun t => match t.splitOn "=" with
    | [k, v] => some (k, v)
    | _ => none
  let n ← (← kv.lookup "digs").toNat?
  let p ← parseHexNat (← kv.lookup "p")
  let u ← parseHexNat (← kv.lookup "u")
  let conv ← parseHexNat (← kv.lookup "conv")
  let qnr ← (← kv.lookup "qnr").toInt?
  let cnr ← (← kv.lookup "cnr").toInt?
  let e0 : Env := { ctx := { w := w, n := n, p := toDigitsN w p n, u := u }, p := p, conv := conv, qnr := qnr, cnr := cnr }
  -- optional keys (only the C02 oracle prints them): RLC_FP_BITS, 2-adicity of p − 1, root of unity of fp_srt, RLC_WIDTH
  let optNat := fun (k : String) => (kv.lookup k).bind String.toNat?
  let alg : Ctx := { p := p, m := w * n, fb := (optNat "bits").getD (w * n), rinv := e0.rinv,
                     width := (optNat "width").getD 4, f := (optNat "2ad").getD 1,
                     z := ((kv.lookup "srt").bind parseHexNat).getD 0 }
  some { e0 with alg := alg, hasAlg := (kv.lookup "srt").isSome && (kv.lookup "width").isSome }

/-- defining equations of the derived constants reported by the library -/
def checkParam (e : Env) : List String :=
  let B := e.ctx.B
  (if (e.ctx.u * e.p + 1) % B = 0 then [] else ["u*p != -1 mod B"]) ++
  (if e.conv = e.R * e.R % e.p then [] else ["conv != R^2 mod p"]) ++
  (if e.p % 2 = 1 ∧ e.p < e.R ∧ e.R ≤ e.p * B then [] else ["p not odd / not n digits"]) ++
  (if e.qnr = 0 ∨ legendre e ((e.qnr % (e.p : Int)).toNat) = -1 then [] else ["qnr is a residue"]) ++
  -- hypotheses of the algorithm theorems (Ctx.WF / Ctx.WFsrt of Lemmas/FpAlgInv, FpAlgSrt), evaluated on the reported context
  (if !e.hasAlg then [] else
    let a := e.alg
    let q := (e.p - 1) / 2 ^ a.f
    (if e.R * a.rinv % e.p = 1 then [] else ["R*rinv != 1 mod p"]) ++
    (if e.p < 2 ^ a.fb then [] else ["p does not fit RLC_FP_BITS"]) ++
    (if 0 < a.width then [] else ["RLC_WIDTH = 0"]) ++
    (if 0 < a.f ∧ q % 2 = 1 ∧ e.p - 1 = 2 ^ a.f * q then [] else ["2ad is not the 2-adic valuation of p-1"]) ++
    -- the root of unity is used (and required) only on the Tonelli–Shanks path, p ≡ 1 (mod 4)
    (if a.z < e.p ∧ (e.p % 4 ≠ 1 ∨ powMod a.z (2 ^ (a.f - 1)) e.p = e.p - 1) then [] else ["srt is not a primitive 2^f-th root of unity"]))

def handle (e : Env) (op : String) (args : List String) (got : String) : Option Verdict :=
  let c := e.ctx
  let p := e.p
  match op, args with
  | "fp2", [o, al, a, b] => do
    let a ← parseHexNat a
    let b0 ← parseHexNat b
    let b := if al == "3" || al == "4" then a else b0
    let a := a % p
    let b := b % p
    let am := e.toMont a
    let bm := e.toMont b
    if o.startsWith "add" then some { model := fmtEl e (fpAddm c am bm), spec := [fmtVal e (a + b)] }
    else if o.startsWith "sub" then some { model := fmtEl e (fpSubm c am bm), spec := [fmtVal e (a + p - b)] }
    else if o.startsWith "mul" then some { model := fmtEl e (fpMulm c am bm), spec := [fmtVal e (a * b)] }
    else none
  | "fp1", [o, _, a] => do
    let a ← parseHexNat a
    let a := a % p
    let am := e.toMont a
    let cls := fun (v : String) => some ({ model := if v == got then got else v, spec := [v] } : Verdict)
    if o.startsWith "neg" then some { model := fmtEl e (fpNegm c am), spec := [fmtVal e (p - a)] }
    else if o.startsWith "dbl" then some { model := fmtEl e (fpDblm c am), spec := [fmtVal e (2 * a)] }
    else if o.startsWith "hlv" then some { model := fmtEl e (fpHlvm c am), spec := [fmtVal e (a * ((p + 1) / 2))] }
    else if o.startsWith "sqr" then some { model := fmtEl e (fpSqrm c am), spec := [fmtVal e (a * a)] }
    else if o.startsWith "inv" then
      let specS := if a = 0 then "err" else fmtVal e (inv e a)
      let A := e.alg
      let optS := fun (r : Option Nat) => match r with
        | some x => fmtVal e x
        | none => "err"
      -- class A (Model/FpAlg, Lemmas/FpAlgInv*): the model's prediction is the model column, a·c = 1 the specification
      if o == "inv" || o == "inv_monty" then
        let tg := match FpAlg.kalLoop (2 * A.m + 1) (a * A.R % p) p 1 0 0 with
          | some (x1, k) => ["kal:" ++ (if k ≤ A.m then "k<=m" else "k>m"),
                             "kal:" ++ (if x1 ≥ A.R then "x1>=R" else if x1 > p then "x1>p" else "x1<p")]
          | none => ["kal:none"]
        some { model := optS (FpAlg.invMonty A a), spec := [specS], tags := if a = 0 then ["inv:zero"] else tg }
      else if o == "inv_basic" then some { model := optS (FpAlg.invBasic A a), spec := [specS], tags := ["inv:basic"] }
      else if o == "inv_lower" then some { model := optS (FpAlg.invLower A a), spec := [specS], tags := ["inv:lower"] }
      else if o == "inv_binar" then
        let tg := match FpAlg.binLoop p (a + p + 1) a p 1 0 with
          | some (true, g) => ["binar:exit-u", if g < 0 then "binar:g<0" else if g ≥ (p : Int) then "binar:g>=p" else "binar:g-in-range"]
          | some (false, g) => ["binar:exit-v", if g < 0 then "binar:g<0" else if g ≥ (p : Int) then "binar:g>=p" else "binar:g-in-range"]
          | none => ["binar:none"]
        some { model := optS (FpAlg.invBinar A a), spec := [specS], tags := if a = 0 then ["inv:zero"] else tg }
      else if o == "inv_exgcd" then
        let tg := match FpAlg.exgcdLoop (a + 1) a p 1 0 with
          | some g => [if g < 0 then "exgcd:g<0" else "exgcd:g>=0"]
          | none => ["exgcd:none"]
        some { model := optS (FpAlg.invExgcd A a), spec := [specS], tags := if a = 0 then ["inv:zero"] else tg }
      else
        -- class C: fp_inv_divst / fp_inv_jmpds (Bernstein–Yang divsteps) are not modelled; pinned by a·c = 1
        cls specS
    else if o == "smb_basic" || o == "smb_lower" then
      let m := match FpAlg.smbBasic e.alg a with
        | some r => "r=" ++ toString r
        | none => "err"
      some { model := m, spec := ["r=" ++ toString (legendre e a)], tags := ["smb:euler"] }
    else if o.startsWith "smb" then cls ("r=" ++ toString (legendre e a))   -- class C: Pornin / divstep symbol algorithms
    else if o == "is_sqr" then
      let m := match FpAlg.isSqr e.alg a with
        | some b => "r=" ++ (if b then "1" else "0")
        | none => "err"
      some { model := m, spec := ["r=" ++ (if legendre e a = -1 then "0" else "1")] }
    else if o == "srt" then
      -- a root is returned exactly when one exists (specification); the model predicts which of the two roots
      let m := match FpAlg.srt e.alg a with
        | some (true, x) => "r=1 " ++ fmtVal e x
        | some (false, _) => "r=0"
        | none => "err"
      let tg := [if a = 0 then "srt:zero" else if p % 4 = 3 then "srt:3mod4" else "srt:tonelli-f" ++ toString e.alg.f,
                 if legendre e a = -1 then "srt:non-residue" else "srt:residue"]
      if legendre e a = -1 then some { model := m, spec := ["r=0"], tags := tg }
      else
        let okRoot : Bool := match (got.splitOn " ") with
          | ["r=1", v, _] => match parseHexNat v with
            | some r => decide (r < p) && decide (r * r % p = a) && got == "r=1 " ++ fmtVal e r
            | none => false
          | _ => false
        some { model := m, spec := if okRoot then [got] else ["r=1 <a canonical square root of the operand>"], tags := tg }
    else if o == "crt" then
      -- a cube root is returned exactly when one exists (always when 3 ∤ p − 1; else iff a^((p−1)/3) = 1, or a = 0)
      let isCube : Bool := a == 0 || (p - 1) % 3 != 0 || powMod a ((p - 1) / 3) p == 1
      if !isCube then
        let m := match FpAlg.crtEasy e.alg a with
          | some (some (true, x)) => "r=1 " ++ fmtVal e x
          | some (some (false, _)) => "r=0"
          | some none => "err"
          | none => got
        some { model := m, spec := ["r=0"], tags := ["crt:non-cube"] }
      else
        let okRoot : Bool := match (got.splitOn " ") with
          | ["r=1", v, _] => match parseHexNat v with
            | some r => decide (r < p) && decide (r * r % p * r % p = a) && got == "r=1 " ++ fmtVal e r
            | none => false
          | _ => false
        -- class A on the one-exponentiation branches (Model/FpAlgCrt); the general branch (p ≡ 1 mod 9) stays class C
        let (m, tg) := match FpAlg.crtEasy e.alg a with
          | some (some (true, x)) => ("r=1 " ++ fmtVal e x, "crt:exp-branch-" ++ toString (p % 9))
          | some (some (false, _)) => ("r=0", "crt:exp-branch-" ++ toString (p % 9))
          | some none => ("err", "crt:err")
          | none => (got, "crt:general-unmodelled")
        some { model := m, spec := if okRoot then [got] else ["r=1 <a canonical cube root of the operand>"], tags := [tg] }
    else none
  | "fpe", [o, _, a, x] => do
    let a ← parseHexNat a
    let x ← parseHexInt x
    let a := a % p
    -- specification: a^x; negative exponents through the inverse (error for a = 0)
    let v := if x ≥ 0 then some (powMod a x.toNat p)
             else if a = 0 then none else some (powMod (inv e a) x.natAbs p)
    let s := match v with
      | some v => fmtVal e v
      | none => "err"
    -- class A: the loop of each variant (Model/FpAlg); fp_exp is FP_EXP = SLIDE
    let A := e.alg
    let r := if o == "exp_basic" then FpAlg.fpExpBasic A a x
             else if o == "exp_monty" then FpAlg.fpExpMonty A a x
             else FpAlg.fpExpSlide A a x
    let m := match r with
      | some v => fmtVal e v
      | none => "err"
    let bl := Relic.Model.Rec.bitLen x.natAbs
    let tg := [if x = 0 then "exp:zero" else if x < 0 then "exp:neg" else "exp:pos",
               if bl < A.width then "exp:shorter-than-window" else if bl > A.fb + 1 then "exp:longer-than-field+1"
               else if bl > A.fb then "exp:field+1-bits" else "exp:ordinary",
               "exp:" ++ o]
    some { model := m, spec := [s], tags := tg }
  | "fpd", [o, _, a, d] => do
    let a ← parseHexNat a
    let d ← parseHexNat d
    let a := a % p
    let s := if o == "add_dig" then fmtVal e (a + d) else if o == "sub_dig" then fmtVal e (a + p - d % p)
      else if o == "mul_dig" then fmtVal e (a * d) else if o == "set_dig" then fmtVal e d
      else if o == "exp_dig" then fmtVal e (powMod a d p) else "?"
    if o == "exp_dig" then some { model := fmtVal e (FpAlg.expDig p a d), spec := [s], tags := ["exp:dig"] }
    else some { model := s, spec := [s] }
  | "fpsim", _ :: as => do
    -- fp_inv_sim (class A: Model/FpAlg.invSim); specification: every inverse, or the error of fp_inv when an element is zero
    let vs ← as.mapM parseHexNat
    let vs := vs.map (· % p)
    let sp := if vs.any (· == 0) then "err" else String.intercalate " " (vs.map fun a => fmtVal e (inv e a))
    let m := match FpAlg.invSim e.alg vs with
      | some out => String.intercalate " " (out.map (fmtVal e))
      | none => "err"
    some { model := m, spec := [sp], tags := ["sim:n=" ++ toString vs.length, if vs.any (· == 0) then "sim:zero" else "sim:ok"] }
  | "fpraw", [o, _, a, b] => do
    let a ← parseHexNat a
    let b ← parseHexNat b
    let n := c.n
    let w := c.w
    let ad := toDigitsN w a n
    let bd := toDigitsN w b n
    let av := fromDigits w ad
    let bv := fromDigits w bd
    let R := e.R
    let rinv := e.rinv
    let out := fun (d : List Nat) => fmtRaw w d
    let sp := fun (v : Nat) => fmtRaw w (toDigitsN w (v % p) n)
    match o with
    | "addm" => some { model := out (fpAddm c ad bd), spec := [sp (av + bv)] }
    | "subm" => some { model := out (fpSubm c ad bd), spec := [sp (av + p - bv)] }
    | "negm" => some { model := out (fpNegm c ad), spec := [sp (p - av)] }
    | "dblm" => some { model := out (fpDblm c ad), spec := [sp (2 * av)] }
    | "hlvm" => some { model := out (fpHlvm c ad), spec := [sp (av * ((p + 1) / 2))] }
    | "mulm" => some { model := out (fpMulm c ad bd), spec := [sp (av * bv % p * rinv)] }
    | "sqrm" => some { model := out (fpSqrm c ad), spec := [sp (av * av % p * rinv)] }
    | "rdcn" =>
      let t := toDigitsN w a (2 * n)
      let tv := fromDigits w t
      -- contract: T < p*R
      if tv ≥ p * R then some { model := got, spec := [got] } else
      some { model := out (fpRdcn c t), spec := [sp (tv % p * rinv)] }
    | "muln" => some { model := out (mulnLow c.B ad bd n), spec := [fmtRaw w (toDigitsN w (av * bv) (2 * n))] }
    | "sqrn" => some { model := out (sqrnLow c.B ad n), spec := [fmtRaw w (toDigitsN w (av * av) (2 * n))] }
    | _ => none
  | "fp_read_bin", [h] => do
    -- decoder: exactly RLC_FP_BYTES bytes, value < p
    let bytes := if h == "." then 0 else h.length / 2
    let v ← if h == "." then some 0 else parseHexNat h
    let nb := (c.n * c.w + 7) / 8
    let s := if bytes ≠ nb ∨ v ≥ p then "err" else fmtVal e v
    some { model := s, spec := [s] }
  | "fp_write_bin", [len, a] => do
    let len ← len.toNat?
    let a ← parseHexNat a
    let nb := (c.n * c.w + 7) / 8
    let s := if len ≠ nb then "err" else natToHexPad (a % p) (2 * nb)
    some { model := s, spec := [s] }
  | _, _ => none

end Driver.C02
