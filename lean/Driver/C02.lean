/- C02 handlers: prime field. The field context (p, u, …) is what the running library reports in the
   `fp_param` line; the derived constants are checked against their defining equations here and against the
   source tables in C18. -/
import Driver.Util
import RelicVerif.Model.Fp

namespace Driver.C02
open Driver Relic.Model

structure Env where
  ctx : FpCtx
  p : Nat
  conv : Nat
  qnr : Int
  cnr : Int

def powMod (a e m : Nat) : Nat :=
  let rec go (fuel : Nat) (a e acc : Nat) : Nat :=
    match fuel with
    | 0 => acc
    | f + 1 => if e = 0 then acc else go f (a * a % m) (e / 2) (if e % 2 = 1 then acc * a % m else acc)
  go (Nat.log2 e + 2) (a % m) e (1 % m)

def Env.R (e : Env) : Nat := e.ctx.R
def Env.toMont (e : Env) (a : Nat) : List Nat := toDigitsN e.ctx.w (a * e.R % e.p) e.ctx.n
def Env.rinv (e : Env) : Nat := powMod (e.R % e.p) (e.p - 2) e.p
def Env.fromMont (e : Env) (d : List Nat) : Nat := fromDigits e.ctx.w d * e.rinv % e.p

/-- how the oracle prints an element: minimal hex of the value, raw=<fixed-width Montgomery digits> -/
def fmtEl (e : Env) (raw : List Nat) : String :=
  natToHex (e.fromMont raw) ++ " raw=" ++ fmtRaw e.ctx.w raw

def fmtVal (e : Env) (v : Nat) : String := fmtEl e (e.toMont (v % e.p))

def inv (e : Env) (a : Nat) : Nat := powMod a (e.p - 2) e.p
def legendre (e : Env) (a : Nat) : Int :=
  if a % e.p = 0 then 0 else if powMod a ((e.p - 1) / 2) e.p = 1 then 1 else -1

def parseEnv (w : Nat) (got : String) : Option Env := do
  let kv := (got.splitOn " ").filterMap fun t => match t.splitOn "=" with
    | [k, v] => some (k, v)
    | _ => none
  let n ← (← kv.lookup "digs").toNat?
  let p ← parseHexNat (← kv.lookup "p")
  let u ← parseHexNat (← kv.lookup "u")
  let conv ← parseHexNat (← kv.lookup "conv")
  let qnr ← (← kv.lookup "qnr").toInt?
  let cnr ← (← kv.lookup "cnr").toInt?
  some { ctx := { w := w, n := n, p := toDigitsN w p n, u := u }, p := p, conv := conv, qnr := qnr, cnr := cnr }

/-- defining equations of the derived constants reported by the library -/
def checkParam (e : Env) : List String :=
  let B := e.ctx.B
  (if (e.ctx.u * e.p + 1) % B = 0 then [] else ["u*p != -1 mod B"]) ++
  (if e.conv = e.R * e.R % e.p then [] else ["conv != R^2 mod p"]) ++
  (if e.p % 2 = 1 ∧ e.p < e.R ∧ e.R ≤ e.p * B then [] else ["p not odd / not n digits"]) ++
  (if e.qnr = 0 ∨ legendre e ((e.qnr % (e.p : Int)).toNat) = -1 then [] else ["qnr is a residue"])

def handle (e : Env) (op : String) (args : List String) (got : String) : Option Verdict :=
  let c := e.ctx
  let p := e.p
  match op, args with
  | "fp2", [o, al, a, b] => do
    let a ← parseHexNat a
    let b0 ← parseHexNat b
    let b := if al == "3" || al == "4" then a else b0
    let a := a % p
    let b := b % p
    let am := e.toMont a
    let bm := e.toMont b
    if o.startsWith "add" then some { model := fmtEl e (fpAddm c am bm), spec := [fmtVal e (a + b)] }
    else if o.startsWith "sub" then some { model := fmtEl e (fpSubm c am bm), spec := [fmtVal e (a + p - b)] }
    else if o.startsWith "mul" then some { model := fmtEl e (fpMulm c am bm), spec := [fmtVal e (a * b)] }
    else none
  | "fp1", [o, _, a] => do
    let a ← parseHexNat a
    let a := a % p
    let am := e.toMont a
    let cls := fun (v : String) => some ({ model := if v == got then got else v, spec := [v] } : Verdict)
    if o.startsWith "neg" then some { model := fmtEl e (fpNegm c am), spec := [fmtVal e (p - a)] }
    else if o.startsWith "dbl" then some { model := fmtEl e (fpDblm c am), spec := [fmtVal e (2 * a)] }
    else if o.startsWith "hlv" then some { model := fmtEl e (fpHlvm c am), spec := [fmtVal e (a * ((p + 1) / 2))] }
    else if o.startsWith "sqr" then some { model := fmtEl e (fpSqrm c am), spec := [fmtVal e (a * a)] }
    else if o.startsWith "inv" then
      -- class C: no digit-level model of the seven inversion algorithms; the result is pinned by a·c = 1
      if a = 0 then cls "err" else cls (fmtVal e (inv e a))
    else if o.startsWith "smb" then cls ("r=" ++ toString (legendre e a))
    else if o == "is_sqr" then cls ("r=" ++ (if legendre e a = -1 then "0" else "1"))
    else if o == "srt" then
      -- a root is returned exactly when one exists; which of the two roots is the library's choice
      if legendre e a = -1 then cls "r=0"
      else
        let okRoot : Bool := match (got.splitOn " ") with
          | ["r=1", v, _] => match parseHexNat v with
            | some r => decide (r < p) && decide (r * r % p = a) && got == "r=1 " ++ fmtVal e r
            | none => false
          | _ => false
        some { model := got, spec := if okRoot then [got] else ["r=1 <a canonical square root of the operand>"] }
    else if o == "crt" then
      -- a cube root is returned exactly when one exists (always when 3 ∤ p − 1; else iff a^((p−1)/3) = 1, or a = 0)
      let isCube : Bool := a == 0 || (p - 1) % 3 != 0 || powMod a ((p - 1) / 3) p == 1
      if !isCube then cls "r=0"
      else
        let okRoot : Bool := match (got.splitOn " ") with
          | ["r=1", v, _] => match parseHexNat v with
            | some r => decide (r < p) && decide (r * r % p * r % p = a) && got == "r=1 " ++ fmtVal e r
            | none => false
          | _ => false
        some { model := got, spec := if okRoot then [got] else ["r=1 <a canonical cube root of the operand>"] }
    else none
  | "fpe", [_, _, a, x] => do
    let a ← parseHexNat a
    let x ← parseHexInt x
    let a := a % p
    -- exponent reduced mod p-1 for a ≠ 0; negative exponents through the inverse
    let v := if x ≥ 0 then some (powMod a x.toNat p)
             else if a = 0 then none else some (powMod (inv e a) x.natAbs p)
    let s := match v with
      | some v => fmtVal e v
      | none => "err"
    some { model := s, spec := [s] }
  | "fpd", [o, _, a, d] => do
    let a ← parseHexNat a
    let d ← parseHexNat d
    let a := a % p
    let s := if o == "add_dig" then fmtVal e (a + d) else if o == "sub_dig" then fmtVal e (a + p - d % p)
      else if o == "mul_dig" then fmtVal e (a * d) else if o == "set_dig" then fmtVal e d
      else if o == "exp_dig" then fmtVal e (powMod a d p) else "?"
    some { model := s, spec := [s] }
  | "fpraw", [o, _, a, b] => do
    let a ← parseHexNat a
    let b ← parseHexNat b
    let n := c.n
    let w := c.w
    let ad := toDigitsN w a n
    let bd := toDigitsN w b n
    let av := fromDigits w ad
    let bv := fromDigits w bd
    let R := e.R
    let rinv := e.rinv
    let out := fun (d : List Nat) => fmtRaw w d
    let sp := fun (v : Nat) => fmtRaw w (toDigitsN w (v % p) n)
    match o with
    | "addm" => some { model := out (fpAddm c ad bd), spec := [sp (av + bv)] }
    | "subm" => some { model := out (fpSubm c ad bd), spec := [sp (av + p - bv)] }
    | "negm" => some { model := out (fpNegm c ad), spec := [sp (p - av)] }
    | "dblm" => some { model := out (fpDblm c ad), spec := [sp (2 * av)] }
    | "hlvm" => some { model := out (fpHlvm c ad), spec := [sp (av * ((p + 1) / 2))] }
    | "mulm" => some { model := out (fpMulm c ad bd), spec := [sp (av * bv % p * rinv)] }
    | "sqrm" => some { model := out (fpSqrm c ad), spec := [sp (av * av % p * rinv)] }
    | "rdcn" =>
      let t := toDigitsN w a (2 * n)
      let tv := fromDigits w t
      -- contract: T < p*R
      if tv ≥ p * R then some { model := got, spec := [got] } else
      some { model := out (fpRdcn c t), spec := [sp (tv % p * rinv)] }
    | "muln" => some { model := out (mulnLow c.B ad bd n), spec := [fmtRaw w (toDigitsN w (av * bv) (2 * n))] }
    | "sqrn" => some { model := out (sqrnLow c.B ad n), spec := [fmtRaw w (toDigitsN w (av * av) (2 * n))] }
    | _ => none
  | "fp_read_bin", [h] => do
    -- decoder: exactly RLC_FP_BYTES bytes, value < p
    let bytes := if h == "." then 0 else h.length / 2
    let v ← if h == "." then some 0 else parseHexNat h
    let nb := (c.n * c.w + 7) / 8
    let s := if bytes ≠ nb ∨ v ≥ p then "err" else fmtVal e v
    some { model := s, spec := [s] }
  | "fp_write_bin", [len, a] => do
    let len ← len.toNat?
    let a ← parseHexNat a
    let nb := (c.n * c.w + 7) / 8
    let s := if len ≠ nb then "err" else natToHexPad (a % p) (2 * nb)
    some { model := s, spec := [s] }
  | _, _ => none

end Driver.C02
