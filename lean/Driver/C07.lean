/- C07 handlers: integer encodings. -/
import Driver.C15
import RelicVerif.Model.BnConv

namespace Driver.C07
open Driver Driver.C15 Relic.Model

/-- specification: big-endian bytes of |a|, minimal length -/
def beBytesMin (n : Nat) : List UInt8 :=
  let rec go (fuel n : Nat) (acc : List UInt8) : List UInt8 :=
    match fuel with
    | 0 => acc
    | f + 1 => if n = 0 then acc else go f (n / 256) (UInt8.ofNat (n % 256) :: acc)
  go (Nat.log2 n / 8 + 2) n []

def posNotation (n radix : Nat) : String :=
  if n = 0 then "0" else
  let rec go (fuel n : Nat) (acc : List Char) : List Char :=
    match fuel with
    | 0 => acc
    | f + 1 => if n = 0 then acc else go f (n / radix) (convChar (n % radix) :: acc)
  String.ofList (go (Nat.log2 n + 2) n [])

def handle (cfg : Cfg) (op : String) (args : List String) : Option Verdict :=
  let w := cfg.w
  let B := cfg.B
  match op, args with
  | "bn_write_bin", [len, a] => do
    let len ← len.toNat?
    let a ← parseBn w a
    let sz : Nat := bnSizeBin w a
    let m := (match bnWriteBin w len a with
      | some b => fmtBytes b
      | none => "err") ++ " size=" ++ toString (sz : Nat)
    let n := (a.toInt B).natAbs
    let min := beBytesMin n
    let sp := (if len < min.length then "err" else fmtBytes (List.replicate (len - min.length) 0 ++ min)) ++
      " size=" ++ toString min.length
    some { model := m, spec := [sp] }
  | "bn_read_bin", [h] => do
    let b ← parseBytes h
    let m := fmtBnOpt w (bnReadBin cfg b)
    let v : Nat := b.foldl (fun (acc : Nat) x => acc * 256 + x.toNat) 0
    let need := (b.length + w / 8 - 1) / (w / 8)
    some { model := m, spec := if need > cfg.cap then ["err"] else [fmtIntNF w (v : Int)] }
  | "bn_write_str", [len, a, radix] => do
    let len ← len.toNat?
    let a ← parseBn w a
    let radix ← radix.toNat?
    let szs := match bnSizeStr cfg a radix with
      | some n => toString n
      | none => "err"
    let m := (match bnWriteStr cfg len a radix with
      | .ok s => "\"" ++ s ++ "\""
      | .error _ => "err") ++ " size=" ++ szs
    let v := a.toInt B
    let txt := (if v < 0 then "-" else "") ++ posNotation v.natAbs radix
    -- size_str is the length of the text + 1 (NUL); for zero the library reserves 2
    let sp := if radix < 2 ∨ radix > 64 then "err size=err"
      else (if len < txt.length + 1 then "err" else "\"" ++ txt ++ "\"") ++ " size=" ++ toString (txt.length + 1)
    some { model := m, spec := [sp] }
  | "bn_read_str", [radix, s] => do
    let radix ← radix.toNat?
    let s := if s == "\"\"" then "" else s
    let m := fmtBnOpt w (bnReadStr cfg s radix)
    -- specification for well-formed numerals (the generator only produces those): positional value
    let cs := s.toList
    let neg := cs.head? = some '-'
    let body := if neg then cs.drop 1 else cs
    let v := body.foldl (fun (acc : Option Nat) c =>
      match acc, charVal (if radix < 36 then c.toUpper else c) with
      | some a, some i => if i < radix then some (a * radix + i) else none
      | _, _ => none) (some 0)
    let need := (cs.length * bitsDig radix + w - 1) / w
    let sp := if radix < 2 ∨ radix > 64 then ["err"] else
      match v with
      -- a numeral whose value needs the whole capacity may be refused: the accumulation multiplies by the radix with one digit of
      -- head-room (bn_mul_dig grows to used + 1), so the precision error is admitted from need + 1 > capacity on
      | some n => [fmtIntNF w (if neg then -(n : Int) else n)] ++ (if need + 1 > cfg.cap then ["err"] else [])
      | none => [m]     -- malformed numeral: behaviour is the model's (stops at the first bad character)
    some { model := m, spec := sp }
  | _, _ => none

end Driver.C07
