/- C10 handlers: extension-field towers. Specification: generic polynomial quotient arithmetic of Spec/Tower.lean on
   the tower the running library reports in the `fpx_param` line; model: the formulas of Model/Fpx.lean stacked level
   by level over Z/pZ. -/
import Driver.Util
import RelicVerif.Spec.Tower
import RelicVerif.Model.Fpx

namespace Driver.C10
open Driver Relic.Spec.Tower Relic.Model.Fpx
open Relic.Model.Formula

/-! ### flat coefficient vectors ↔ the nested carriers of the model -/
class Flat (α : Type) where
  dim : Nat
  ofFlat : List Nat → α
  toFlat : α → List Nat

instance : Flat Nat := ⟨1, fun l => l.headD 0, fun x => [x]⟩
instance {α : Type} [Flat α] : Flat (V2 α) :=
  ⟨2 * Flat.dim α, fun l => ⟨Flat.ofFlat (l.take (Flat.dim α)), Flat.ofFlat (l.drop (Flat.dim α))⟩,
   fun v => Flat.toFlat v.c0 ++ Flat.toFlat v.c1⟩
instance {α : Type} [Flat α] : Flat (V3 α) :=
  ⟨3 * Flat.dim α, fun l => ⟨Flat.ofFlat (l.take (Flat.dim α)), Flat.ofFlat ((l.drop (Flat.dim α)).take (Flat.dim α)),
      Flat.ofFlat (l.drop (2 * Flat.dim α))⟩,
   fun v => Flat.toFlat v.c0 ++ Flat.toFlat v.c1 ++ Flat.toFlat v.c2⟩

/-- one level of the model: carrier, operations, multiplication by the adjoined root -/
structure Lvl where
  T : Type
  flat : Flat T
  ops : FOps T
  art : T → T

def Lvl.un (l : Lvl) (f : l.T → l.T) (a : List Nat) : List Nat := l.flat.toFlat (f (l.flat.ofFlat a))
def Lvl.bin (l : Lvl) (f : l.T → l.T → l.T) (a b : List Nat) : List Nat :=
  l.flat.toFlat (f (l.flat.ofFlat a) (l.flat.ofFlat b))

def quadLvl (l : Lvl) (nor : l.T → l.T) : Lvl :=
  { T := V2 l.T, flat := @instFlatV2 l.T l.flat, ops := quadOps l.ops nor, art := quadArt nor }
def cubLvl (l : Lvl) (nor : l.T → l.T) : Lvl :=
  { T := V3 l.T, flat := @instFlatV3 l.T l.flat, ops := cubOps l.ops nor, art := cubArt nor }

/-! ### the context reported by the library -/
structure Env where
  p : Nat
  bytes : Nat
  qnr : Int
  cnr : Int
  qnr2 : Nat
  cnr3 : Int
  mod8 : Nat
  mod18 : Nat
  xi : List Nat
  xi3 : List Nat
  n : Nat
  x : Int
  pairf : Nat
  embed : Nat
  twist : Nat
  sps : List Int
  towers : List (Nat × Desc)
  frob : List (Nat × Thunk FrobTable)
  isField : List (Nat × Thunk Bool)

def resid (p : Nat) (v : Int) : Nat := (v % (p : Int)).toNat

/-- the towers the library builds, top level first (see the multiplication routines: which constant each level's
    reduction multiplies by) -/
def mkTowers (p : Nat) (qnr cnr : Int) (xi xi3 : List Nat) : List (Nat × Desc) :=
  let l2 : List Level := [⟨2, [resid p qnr]⟩]
  let l3 : List Level := [⟨3, [resid p cnr]⟩]
  let gen := fun (ls : List Level) => ({ p := p, levels := ls } : Desc).gen
  let l4 := ⟨2, xi⟩ :: l2
  let l6 := ⟨3, xi⟩ :: l2
  let l8 := ⟨2, gen l4⟩ :: l4
  let l12 := ⟨2, gen l6⟩ :: l6
  let l16 := ⟨2, gen l8⟩ :: l8
  let l24 := ⟨3, gen l8⟩ :: l8
  let l48 := ⟨2, gen l24⟩ :: l24
  let l9 := ⟨3, xi3⟩ :: l3
  let l18 := ⟨2, gen l9⟩ :: l9
  let l54 := ⟨3, gen l18⟩ :: l18
  [(2, l2), (3, l3), (4, l4), (6, l6), (8, l8), (9, l9), (12, l12), (16, l16), (18, l18), (24, l24), (48, l48), (54, l54)].map
    fun (n, ls) => (n, { p := p, levels := ls })

/-- K[X]/(X^k − c) over a finite field K with q elements (k prime) is a field iff k | q − 1 and c^((q−1)/k) ≠ 1;
    checked level by level from the bottom -/
def towerIsField (p : Nat) : List Level → Bool
  | [] => true
  | l :: ls =>
    towerIsField p ls &&
    (let below : Desc := { p := p, levels := ls }
     let q := p ^ below.dim
     (l.deg == 2 || l.deg == 3) && (q - 1) % l.deg == 0 && !(below.isOne (below.pow l.nr ((q - 1) / l.deg))) && !(below.isZero l.nr))

def parseInts (s : String) : List Int :=
  if s == "." then [] else (s.splitOn ",").filterMap String.toInt?

def parseEnv (got : String) : Option Env := do
  let kv := (got.splitOn " ").filterMap fun t => match t.splitOn "=" with
    | [k, v] => some (k, v)
    | _ => none
  let p ← parseHexNat (← kv.lookup "p")
  let bytes ← (← kv.lookup "bytes").toNat?
  let qnr ← (← kv.lookup "qnr").toInt?
  let cnr ← (← kv.lookup "cnr").toInt?
  let qnr2 ← (← kv.lookup "qnr2").toNat?
  let cnr3 ← (← kv.lookup "cnr3").toInt?
  let mod8 ← (← kv.lookup "mod8").toNat?
  let mod18 ← (← kv.lookup "mod18").toNat?
  let xi ← parseCoeffs? 2 (← kv.lookup "xi")
  let xi3 := ((kv.lookup "xi3").bind (parseCoeffs? 3)).getD [0, 1, 0]
  let n := ((kv.lookup "n").bind parseHexNat).getD 0
  let x := ((kv.lookup "x").bind parseHexInt).getD 0
  let towers := mkTowers p qnr cnr xi xi3
  some { p := p, bytes := bytes, qnr := qnr, cnr := cnr, qnr2 := qnr2, cnr3 := cnr3, mod8 := mod8, mod18 := mod18, xi := xi, xi3 := xi3,
         n := n, x := x, pairf := ((kv.lookup "pairf").bind String.toNat?).getD 0, embed := ((kv.lookup "embed").bind String.toNat?).getD 0,
         twist := ((kv.lookup "twist").bind String.toNat?).getD 0, sps := ((kv.lookup "sps").map parseInts).getD [],
         towers := towers,
         frob := towers.map fun (k, d) => (k, Thunk.mk fun _ => d.frobTable),
         isField := towers.map fun (k, d) => (k, Thunk.mk fun _ => towerIsField d.p d.levels) }

def Env.tower (e : Env) (n : Nat) : Option Desc := e.towers.lookup n
def Env.frobTab (e : Env) (n : Nat) : FrobTable := ((e.frob.lookup n).map Thunk.get).getD []
def Env.field (e : Env) (n : Nat) : Bool := ((e.isField.lookup n).map Thunk.get).getD false

/-! ### the model stack -/
def Env.base (e : Env) : FOps Nat := natOps e.p
def Env.l2 (e : Env) : Lvl :=
  { T := V2 Nat, flat := inferInstance, ops := fp2Ops e.base e.qnr, art := fp2MulArt e.base e.qnr }
def Env.nor2 (e : Env) (a : V2 Nat) : V2 Nat := (fp2MulNor e.base e.qnr e.mod8 e.qnr2 a).getD a
def Env.l3 (e : Env) : Lvl :=
  { T := V3 Nat, flat := inferInstance, ops := fp3Ops e.base e.cnr, art := fp3MulArt e.base e.cnr }
def Env.nor3 (e : Env) (a : V3 Nat) : V3 Nat := fp3MulNor e.base e.cnr e.mod18 e.cnr3 a

def Env.l4 (e : Env) : Lvl := quadLvl e.l2 e.nor2
def Env.l6 (e : Env) : Lvl := cubLvl e.l2 e.nor2
def Env.l8 (e : Env) : Lvl := quadLvl e.l4 e.l4.art
def Env.l12 (e : Env) : Lvl := quadLvl e.l6 e.l6.art
def Env.l16 (e : Env) : Lvl := quadLvl e.l8 e.l8.art
def Env.l24 (e : Env) : Lvl := cubLvl e.l8 e.l8.art
def Env.l48 (e : Env) : Lvl := quadLvl e.l24 e.l24.art
def Env.l9 (e : Env) : Lvl := cubLvl e.l3 e.nor3
def Env.l18 (e : Env) : Lvl := quadLvl e.l9 e.l9.art
def Env.l54 (e : Env) : Lvl := cubLvl e.l18 e.l18.art

def Env.lvl (e : Env) : Nat → Option Lvl
  | 2 => some e.l2 | 3 => some e.l3 | 4 => some e.l4 | 6 => some e.l6 | 8 => some e.l8 | 9 => some e.l9
  | 12 => some e.l12 | 16 => some e.l16 | 18 => some e.l18 | 24 => some e.l24 | 48 => some e.l48 | 54 => some e.l54
  | _ => none

/-- the multiplication by the constant adjoined one level up, as the model computes it (fp2_mul_nor, fp3_mul_nor) -/
def Env.norFlat (e : Env) (n : Nat) (a : List Nat) : Option (List Nat) :=
  match n with
  | 2 => (fp2MulNor e.base e.qnr e.mod8 e.qnr2 (Flat.ofFlat a)).map Flat.toFlat
  | 3 => some (Flat.toFlat (e.nor3 (Flat.ofFlat a)))
  | _ => none

/-! ### defining properties of the reported constants -/
def checkParam (e : Env) : List String :=
  let p := e.p
  let d2 : Desc := { p := p, levels := [⟨2, [resid p e.qnr]⟩] }
  let pw := fun (a m : Nat) => (Relic.Spec.Tower.pow (baseOps p) [a % p] m).headD 0
  (if p % 8 = e.mod8 ∧ p % 18 = e.mod18 then [] else ["mod8/mod18 do not match p"]) ++
  (if e.qnr ≠ 0 ∧ pw (resid p e.qnr) ((p - 1) / 2) = p - 1 then [] else ["qnr is not a quadratic non-residue: fp2 is not a field"]) ++
  (if e.cnr = 0 ∨ (p % 3 = 1 ∧ pw (resid p e.cnr) ((p - 1) / 3) ≠ 1) then [] else ["cnr is not a cubic non-residue"]) ++
  (if e.cnr ≠ 0 ∨ p % 3 ≠ 1 then [] else ["p = 1 mod 3 but no cubic non-residue is set"]) ++
  -- the constant the library multiplies by in fp2_mul_nor is the one the switch of the model selects
  (match e.norFlat 2 [1, 0] with
   | some v => if d2.canon v == d2.canon e.xi then [] else ["fp2_mul_nor(1) differs from the model of its switch"]
   | none => ["fp2_mul_nor: no branch for this prime"])

/-! ### helpers -/
def cls (v : String) (got : String) : Verdict := { model := got, spec := [v] }

def splitName (f : String) : Option (Nat × String) :=
  if !f.startsWith "fp" then none else
  let rest := (f.drop 2).toString
  let digits := rest.takeWhile Char.isDigit |>.toString
  let tail := (rest.drop digits.length).toString
  match digits.toNat? with
  | some n => if tail.startsWith "_" then some (n, (tail.drop 1).toString) else none
  | none => none

/-- bits of n below the top one, most significant first -/
def lowBits (n : Nat) : List Bool :=
  let k := bitLen n
  (List.range (k - 1)).reverse.map fun i => n.testBit i

def cycloExp (p n : Nat) : Nat :=
  match n with
  | 2 => p + 1
  | 8 => p ^ 4 + 1
  | 16 => p ^ 8 + 1
  | 12 => p ^ 4 - p ^ 2 + 1
  | 18 => p ^ 6 - p ^ 3 + 1
  | 24 => p ^ 8 - p ^ 4 + 1
  | 48 => p ^ 16 - p ^ 8 + 1
  | 54 => p ^ 18 - p ^ 9 + 1
  | _ => 0

structure Cx where
  e : Env
  n : Nat
  d : Desc
  l : Lvl

def Cx.frb (c : Cx) (a : List Nat) (i : Nat) : List Nat := c.d.frobeniusViaPow (c.e.frobTab c.n) a i

/-- membership in the subgroup the library calls "cyclotomic" at this level: a^Φ = 1 with Φ = cycloExp, evaluated
    through the p-power map (a ≠ 0 and  a^(p^{2k})·a = a^(p^k)  resp.  a^(p^k)·a = 1) -/
def Cx.isCyc (c : Cx) (a : List Nat) : Bool :=
  let d := c.d
  if d.isZero a then false else
  match c.n with
  | 2 => d.isOne (d.mul (c.frb a 1) a)
  | 8 => d.isOne (d.mul (c.frb a 4) a)
  | 16 => d.isOne (d.mul (c.frb a 8) a)
  | 12 => d.eq (d.mul (c.frb a 4) a) (c.frb a 2)
  | 18 => d.eq (d.mul (c.frb a 6) a) (c.frb a 3)
  | 24 => d.eq (d.mul (c.frb a 8) a) (c.frb a 4)
  | 48 => d.eq (d.mul (c.frb a 16) a) (c.frb a 8)
  | 54 => d.eq (d.mul (c.frb a 18) a) (c.frb a 9)
  | _ => false

/-- a^(p^{n/2}) · a = 1 (what fpN_inv_cyc needs); for a quadratic top level a^(p^{n/2}) is the conjugate -/
def Cx.isUnitary (c : Cx) (a : List Nat) : Bool :=
  match c.d.levels with
  | l :: _ => if l.deg == 2 then c.d.isOne (c.d.mul (c.d.conj a) a) else c.d.isOne (c.d.mul (c.frb a (c.n / 2)) a)
  | [] => false

/-- the inverse of a unitary element: the conjugate (quadratic top level) resp. a^(p^{n/2}) -/
def Cx.unitaryInv (c : Cx) (a : List Nat) : List Nat :=
  match c.d.levels with
  | l :: _ => if l.deg == 2 then c.d.conj a else c.frb a (c.n / 2)
  | [] => a

def Cx.fmt (c : Cx) (a : List Nat) : String := c.d.fmt a

/-- the value a^k for an integer k: `none` when k < 0 and a^|k| is not invertible -/
def Cx.powInt (c : Cx) (a : List Nat) (k : Int) : Option (List Nat) :=
  let v := c.d.pow a k.natAbs
  if k ≥ 0 then some v else c.d.inv? v

def okOr (ok : Bool) (got : String) (otherwise : String) : List String := if ok then [got] else [otherwise]

def parseEls (c : Cx) (ts : List String) : Option (List (List Nat)) := ts.mapM c.d.parse?

/-- positions (in units of fp2 coefficients) written by fp12_sqr_pck: c[0][1], c[0][2], c[1][0], c[1][2] -/
def pck12 : List Nat := [1, 2, 3, 5]

def fp2Units (a : List Nat) : List (List Nat) := chunks 2 (a.length / 2) a

def samePck12 (a b : List Nat) : Bool := pck12.all fun i => (fp2Units a).getD i [] == (fp2Units b).getD i []

/-- the sextic layout of a level with compressed forms: size of a coefficient block (an element of the level n/6) and the
    positions of g0 … g5 among the six blocks. fp12, fp18, fp48 are quadratic over cubic (block (i, j) ↦ w^(2j+i)), fp24 and
    fp54 cubic over quadratic (block (i, j) ↦ w^(i+3j)); g_k is the coefficient of w^0, w^3, w^1, w^4, w^2, w^5. -/
def cycLayout (n : Nat) : Option (Nat × List Nat) :=
  match n with
  | 12 | 18 | 48 => some (n / 6, [0, 4, 3, 2, 1, 5])
  | 24 | 54 => some (n / 6, [0, 1, 2, 3, 4, 5])
  | _ => none

/-- blocks g0 … g5 of an element -/
def gBlocks (n : Nat) (a : List Nat) : Option (List (List Nat)) := do
  let (us, pos) ← cycLayout n
  let u := chunks us 6 a
  some (pos.map fun i => u.getD i [])

def ofGBlocks (n : Nat) (g : List (List Nat)) : Option (List Nat) := do
  let (_, pos) ← cycLayout n
  some ((List.range 6).map (fun blk => g.getD ((pos.findIdx? (· == blk)).getD 0) [])).flatten

/-- the constant ξ with w⁶ = ξ in the block field: fp2_mul_nor(1), fp3_mul_nor(1), or the generator of fp4 / fp8 / fp9 -/
def Env.sexticConst (e : Env) (n : Nat) : Option (Desc × List Nat) := do
  let du ← e.tower (n / 6)
  match n with
  | 12 => some (du, e.xi)
  | 18 => some (du, e.xi3)
  | 24 | 48 | 54 => some (du, du.gen)
  | _ => none

/-- positions (block indices) the compressed squaring writes: g2 … g5 -/
def pckBlocks (n : Nat) : List Nat := match cycLayout n with
  | some (_, pos) => pos.drop 2
  | none => []

def sameCompressed (n : Nat) (a b : List Nat) : Bool :=
  match gBlocks n a, gBlocks n b with
  | some x, some y => x.drop 2 == y.drop 2
  | _, _ => false

def compressedIsZero (n : Nat) (a : List Nat) : Bool :=
  match gBlocks n a with
  | some x => (x.drop 2).all fun blk => blk.all (· == 0)
  | none => false

/-- Karabina's decompression for any of these levels, in the specification's arithmetic of the block field -/
def specBack (e : Env) (n : Nat) (a : List Nat) : Option (List Nat) := do
  let (du, xi) ← e.sexticConst n
  let g ← gBlocks n a
  let g2 := g.getD 2 []; let g3 := g.getD 3 []; let g4 := g.getD 4 []; let g5 := g.getD 5 []
  let k := fun (m : Nat) (x : List Nat) => du.mul (du.ofNat m) x
  let g1 ← (if !du.isZero g2 then
      (du.inv? (k 4 g2)).map fun i => du.mul (du.sub (du.add (du.mul xi (du.sqr g5)) (k 3 (du.sqr g4))) (k 2 g3)) i
    else if !du.isZero g3 then (du.inv? g3).map fun i => du.mul (k 2 (du.mul g4 g5)) i
    else none)
  let g0 := du.add (du.mul xi (du.sub (du.add (k 2 (du.sqr g1)) (du.mul g2 g5)) (k 3 (du.mul g3 g4)))) du.one
  ofGBlocks n [g0, g1, g2, g3, g4, g5]

/-- Karabina's decompression written in the specification's own arithmetic (Lemmas/Fpx.lean: `cyc_g1`, `cyc_g1_exc`, `cyc_g0`
    show that a non-zero cyclotomic element with g2 ≠ 0 or g3 ≠ 0 is determined by g2..g5 through these formulas):
    g1 = (ξ g5² + 3 g4² − 2 g3)/(4 g2)  or, when g2 = 0,  2 g4 g5 / g3;   g0 = ξ (2 g1² + g2 g5 − 3 g3 g4) + 1.
    `none` when g2 = g3 = 0. -/
def specBack12 (e : Env) (a : List Nat) : Option (List Nat) := do
  let d2 ← e.tower 2
  let u := fp2Units a
  let g4 := u.getD 1 []; let g3 := u.getD 2 []; let g2 := u.getD 3 []; let g5 := u.getD 5 []
  let xi := e.xi
  let k := fun (n : Nat) (x : List Nat) => d2.mul (d2.ofNat n) x
  let g1 ← (if !d2.isZero g2 then
      (d2.inv? (k 4 g2)).map fun i => d2.mul (d2.sub (d2.add (d2.mul xi (d2.sqr g5)) (k 3 (d2.sqr g4))) (k 2 g3)) i
    else if !d2.isZero g3 then (d2.inv? g3).map fun i => d2.mul (k 2 (d2.mul g4 g5)) i
    else none)
  let g0 := d2.add (d2.mul xi (d2.sub (d2.add (k 2 (d2.sqr g1)) (d2.mul g2 g5)) (k 3 (d2.mul g3 g4)))) d2.one
  some (g0 ++ g4 ++ g3 ++ g2 ++ g1 ++ g5)

/-- the six Granger–Scott relations (Lemmas/Fpx.lean `IsCyc12`) evaluated in the specification's arithmetic -/
def relCyc12 (e : Env) (a : List Nat) : Bool :=
  match e.tower 2 with
  | none => false
  | some d2 =>
    let u := fp2Units a
    let g0 := u.getD 0 []; let g4 := u.getD 1 []; let g3 := u.getD 2 []; let g2 := u.getD 3 []; let g1 := u.getD 4 []; let g5 := u.getD 5 []
    let xi := e.xi
    let m := d2.mul; let ad := d2.add; let sb := d2.sub; let sq := d2.sqr
    let k := fun (n : Nat) (x : List Nat) => d2.mul (d2.ofNat n) x
    d2.eq (m xi (ad (m g2 g5) (m g3 g4))) (sb (ad (sq g0) (m xi (sq g1))) g0) &&
    d2.eq (ad (m g2 g4) (m xi (m g3 g5))) (ad (k 2 (m g0 g1)) g1) &&
    d2.eq (ad (m g0 g2) (m xi (m g1 g3))) (ad (k 2 (m xi (m g4 g5))) g2) &&
    d2.eq (ad (m g0 g3) (m g1 g2)) (sb (ad (sq g4) (m xi (sq g5))) g3) &&
    d2.eq (ad (m g0 g4) (m xi (m g1 g5))) (sb (ad (sq g2) (m xi (sq g3))) g4) &&
    d2.eq (ad (m g0 g5) (m g1 g4)) (ad (k 2 (m g2 g3)) g5)

/-! ### the handler -/
def handleOp (e : Env) (fname : String) (n : Nat) (op : String) (d : Desc) (l : Lvl) (al : String) (args : List String) (got : String) :
    Option Verdict := do
  let c : Cx := { e := e, n := n, d := d, l := l }
  let fmt := c.fmt
  let el := fun (s : String) => d.parse? s
  let same := al == "3" || al == "4"
  let one (v : List Nat) : Verdict := { model := fmt v, spec := [fmt v] }
  let both (m s : List Nat) : Verdict := { model := fmt m, spec := [fmt s] }
  let specOnly (s : List Nat) : Verdict := cls (fmt s) got
  let unspecified (tag : String) : Verdict := { model := got, spec := [got], tags := [tag] }
  let field := e.field n
  match op, args with
  -- ring operations --------------------------------------------------------------------------------------------
  | "add", [a, b] | "add_basic", [a, b] | "add_integ", [a, b] =>
    let a ← el a; let b ← el b; let b := if same then a else b
    some (both (l.bin l.ops.add a b) (d.add a b))
  | "sub", [a, b] | "sub_basic", [a, b] | "sub_integ", [a, b] =>
    let a ← el a; let b ← el b; let b := if same then a else b
    some (both (l.bin l.ops.sub a b) (d.sub a b))
  | "neg", [a] => let a ← el a; some (both (l.un l.ops.neg a) (d.neg a))
  | "dbl", [a] | "dbl_basic", [a] | "dbl_integ", [a] => let a ← el a; some (both (l.un l.ops.dbl a) (d.add a a))
  | "mul", [a, b] | "mul_basic", [a, b] | "mul_lazyr", [a, b] | "mul_unr", [a, b] | "mul_integ", [a, b] =>
    let a ← el a; let b ← el b; let b := if same then a else b
    let m := if n == 2 && op == "mul_integ" then Flat.toFlat (fp2MulInteg e.base e.qnr (Flat.ofFlat a) (Flat.ofFlat b)) else l.bin l.ops.mul a b
    some (both m (d.mul a b))
  | "sqr", [a] | "sqr_basic", [a] | "sqr_lazyr", [a] | "sqr_unr", [a] | "sqr_integ", [a] =>
    let a ← el a
    let m := if n == 2 && op == "sqr_integ" then Flat.toFlat (fp2SqrInteg e.base e.qnr (Flat.ofFlat a)) else l.un l.ops.sqr a
    some (both m (d.sqr a))
  | "mul_art", [a] => let a ← el a; some (both (l.un l.art a) (d.mul a d.gen))
  | "mul_nor", [a] | "mul_nor_basic", [a] | "mul_nor_integ", [a] =>
    let a ← el a
    let k ← (if n == 2 then some e.xi else if n == 3 then some e.xi3 else none)
    let m := (e.norFlat n a).getD []
    some (both m (d.mul a k))
  | "mul_dig", [a, g] => let a ← el a; let g ← parseHexNat g; some (specOnly (d.mul a (d.ofNat g)))
  | "add_dig", [a, g] => let a ← el a; let g ← parseHexNat g; some (specOnly (d.add a (d.ofNat g)))
  | "sub_dig", [a, g] => let a ← el a; let g ← parseHexNat g; some (specOnly (d.sub a (d.ofNat g)))
  | "set_dig", [g] => let g ← parseHexNat g; some (specOnly (d.ofNat g))
  | "cmp", [a, b] =>
    let a ← el a; let b ← el b; let b := if same then a else b
    some (cls (if d.eq a b then "r=0" else "r=2") got)
  | "cmp_dig", [a, g] => let a ← el a; let g ← parseHexNat g; some (cls (if d.eq a (d.ofNat g) then "r=0" else "r=2") got)
  -- inversion -------------------------------------------------------------------------------------------------------
  | "inv", [a] =>
    let a ← el a
    if d.isZero a then some { model := "err", spec := ["err"], tags := ["inv-zero"] } else
    match d.parse? got with
    | some r =>
      let ok := d.isOne (d.mul a r)
      some { model := if field then fmt (l.un l.ops.inv a) else got,
             spec := okOr ok got (((d.inv? a).map fmt).getD "<not invertible>"), tags := if field then [] else ["not-a-field"] }
    | none =>
      -- an error is admitted only when the element has no inverse (possible when the ring is not a field)
      some { model := got, spec := if (d.inv? a).isNone then [got] else [((d.inv? a).map fmt).getD "?"], tags := ["inv-err"] }
  | "inv_cyc", [a] =>
    let a ← el a
    if c.isUnitary a then
      let v := c.unitaryInv a
      -- defining property of the specification's answer
      let ok := d.isOne (d.mul a v)
      some { model := if n <= 16 then fmt (d.conj a) else got, spec := if ok then [fmt v] else ["SPEC-INCONSISTENT"], tags := ["unitary"] }
    else some (unspecified "pre-false")
  | "inv_sim", k :: rest =>
    let k ← k.toNat?
    let as ← parseEls c (rest.take k)
    if as.any d.isZero then some (unspecified "pre-false") else
    let rs := (got.splitOn " ").filterMap d.parse?
    let ok := rs.length == as.length && (as.zip rs).all fun (a, r) => d.isOne (d.mul a r)
    let want := String.intercalate " " (as.map fun a => ((d.inv? a).map fmt).getD "<not invertible>")
    some { model := if field then String.intercalate " " ((invSimFlat c as).map fmt) else got, spec := okOr ok got want }
  -- Frobenius -------------------------------------------------------------------------------------------------------
  | "frb", [a, i] =>
    let a ← el a; let i ← i.toNat?
    let v := c.frb a i
    -- cross-check of the table-driven p-power map against the definition (a^p by repeated multiplication) on a sample
    let direct := if i == 1 && (fname ++ String.intercalate " " args).hash % 4 == 0 then d.eq (d.frobenius a) v else true
    some { model := got, spec := if direct then [fmt v] else ["SPEC-INCONSISTENT frobenius table vs a^p"], tags := ["frb" ++ toString i] }
  -- exponentiation ----------------------------------------------------------------------------------------------------
  | "exp", [a, k] =>
    let a ← el a; let k ← parseHexInt k
    let cyc := (n == 8 || n == 12 || n == 16 || n == 48) && c.isCyc a
    match c.powInt a k with
    | some v =>
      let m := if cyc || k == 0 then got else
        let t := expBinFlat c a k.natAbs
        if k < 0 then (if field then fmt (l.un l.ops.inv t) else got) else fmt t
      some { model := m, spec := [fmt v], tags := [if cyc then "exp-cyc-branch" else "exp-plain", if k < 0 then "neg" else if k == 0 then "zero" else "pos"] }
    | none => some { model := "err", spec := ["err"], tags := ["exp-neg-noninvertible"] }
  | "exp_dig", [a, g] =>
    let a ← el a; let g ← parseHexNat g
    some { model := got, spec := [fmt (d.pow a g)], tags := [if c.isCyc a then "expdig-cyc" else "expdig-plain"] }
  | "exp_cyc", [a, k] =>
    let a ← el a; let k ← parseHexInt k
    if !c.isCyc a then some (unspecified "pre-false") else
    let v := d.pow a k.natAbs
    some { model := got, spec := [fmt (if k < 0 then c.unitaryInv v else v)], tags := ["exp_cyc"] }
  | "exp_cyc_sim", [a, k, b, m] =>
    let a ← el a; let k ← parseHexInt k; let b ← el b; let m ← parseHexInt m
    let b := if same then a else b
    if !(c.isCyc a && c.isCyc b) then some (unspecified "pre-false") else
    let pw := fun (x : List Nat) (k : Int) => let v := d.pow x k.natAbs; if k < 0 then c.unitaryInv v else v
    some { model := got, spec := [fmt (d.mul (pw a k) (pw b m))], tags := ["exp_cyc_sim"] }
  | "exp_cyc_sps", [a, sg, bs] =>
    let a ← el a; let sg ← sg.toInt?
    let bs := parseInts bs
    if !c.isCyc a then some (unspecified "pre-false") else
    -- documented shape: |b_i| strictly increasing; b_0 = 0 stands for the term +1
    let k : Int := bs.foldl (fun acc b => acc + (if b < 0 then -1 else 1) * (2 : Int) ^ b.natAbs) 0
    let k := if sg < 0 then -k else k
    let v := d.pow a k.natAbs
    some { model := got, spec := [fmt (if bs.isEmpty then d.one else if k < 0 then c.unitaryInv v else v)], tags := ["exp_cyc_sps"] }
  -- cyclotomic subgroup -------------------------------------------------------------------------------------------------
  | "test_cyc", [a] => let a ← el a; some (cls (if c.isCyc a then "r=1" else "r=0") got)
  | "conv_cyc", [a] =>
    let a ← el a
    match d.inv? a with
    | none => some { model := "err", spec := ["err"], tags := ["conv-noninvertible"] }
    | some ai =>
      -- a^((p^{n/2} − 1)·r) through the p-power map; r = 1 (fp2, fp8, fp16), p^2+1 (fp12), …
      let t := d.mul (c.frb a (n / 2)) ai
      let v := match n with
        | 12 => d.mul (c.frb t 2) t
        | 18 => d.mul (c.frb t 3) t
        | 24 => d.mul (c.frb t 4) t
        | 48 => d.mul (c.frb t 8) t
        | 54 => d.mul (c.frb t 9) t
        | _ => t
      some { model := got, spec := [fmt v], tags := ["conv_cyc"] }
  | "sqr_cyc", [a] | "sqr_cyc_basic", [a] | "sqr_cyc_lazyr", [a] =>
    let a ← el a
    if !c.isCyc a then some (unspecified "pre-false") else
    let m := if n == 12 then fmt (Flat.toFlat (fp12SqrCyc (fp2Ops e.base e.qnr) e.nor2 (Flat.ofFlat a))) else got
    some { model := m, spec := [fmt (d.sqr a)],
           tags := ["sqr_cyc"] ++ (if n == 12 then [if relCyc12 e a then "rel-ok" else "REL-MISMATCH"] else []) }
  | "sqr_pck", [a] | "sqr_pck_basic", [a] | "sqr_pck_lazyr", [a] =>
    -- the harness presets the destination with the operand: the coefficient blocks the function does not write keep it
    let a ← el a
    let (us, _) ← cycLayout n
    if !c.isCyc a then some (unspecified "pre-false") else
    let sq := d.sqr a
    let ua := chunks us 6 a
    let usq := chunks us 6 sq
    let want := ((List.range 6).map fun i => if (pckBlocks n).contains i then usq.getD i [] else ua.getD i []).flatten
    let m : String := if n == 12 then
        fmt (Flat.toFlat (fp12SqrPck (fp2Ops e.base e.qnr) e.nor2 (Flat.ofFlat a : Fp12 (V2 Nat)) (Flat.ofFlat a)))
      else got
    some { model := m, spec := [fmt want], tags := ["sqr_pck" ++ toString n] }
  | "back_cyc", [a] =>
    let a ← el a
    if n != 12 then
      -- the same decompression over the block field of fp18 / fp24 / fp48 / fp54 (not modelled: specification only)
      if (cycLayout n).isNone then none else
      if compressedIsZero n a then some { model := got, spec := [fmt d.one], tags := ["back_cyc-identity"] } else
      match specBack e n a with
      | none => some (unspecified "pre-false")
      | some cand =>
        if !c.isCyc cand then some (unspecified "pre-false") else
        some { model := got, spec := [fmt cand],
               tags := [if ((gBlocks n a).getD []).getD 2 [] |>.all (· == 0) then "back_cyc-g2zero" else "back_cyc" ++ toString n] }
    else
    -- specification: the cyclotomic element with these four coefficients (unique when g2 ≠ 0 or g3 ≠ 0; Karabina's
    -- formulas in the specification's arithmetic give the only candidate). No such element: unspecified.
    let m : List Nat := Flat.toFlat (fp12BackCyc (fp2Ops e.base e.qnr) e.nor2 (Flat.ofFlat a))
    let idc := pck12.all (fun i => (fp2Units a).getD i [] == [0, 0])
    if idc then
      -- the compressed identity (all four retained coefficients zero), whatever the other two coefficients hold
      some { model := fmt m, spec := [fmt d.one], tags := ["back_cyc-identity"] }
    else
    match specBack12 e a with
    | none => some (unspecified "pre-false")
    | some cand =>
      if !c.isCyc cand then some (unspecified "pre-false") else
      some { model := fmt m, spec := [fmt cand],
             tags := [if (fp2Units a).getD 3 [] == [0, 0] then "back_cyc-g2zero" else "back_cyc", if relCyc12 e cand then "rel-ok" else "REL-MISMATCH"] }
  | "back_cyc_sim", k :: rest =>
    let k ← k.toNat?
    let as ← parseEls c (rest.take k)
    if n != 12 then none else
    let idc := fun (a : List Nat) => pck12.all (fun i => (fp2Units a).getD i [] == [0, 0])
    let cands := as.map fun a => if idc a then some d.one else specBack12 e a
    if !(cands.all fun x => match x with | some v => c.isCyc v | none => false) then some (unspecified "pre-false") else
    let want := String.intercalate " " (cands.map fun x => fmt (x.getD []))
    let ms := as.map fun a => (Flat.toFlat (fp12BackCyc (fp2Ops e.base e.qnr) e.nor2 (Flat.ofFlat a)) : List Nat)
    some { model := String.intercalate " " (ms.map fmt), spec := [want],
           tags := [if as.any idc then "back_cyc-identity" else if as.any (fun a => (fp2Units a).getD 3 [] == [0, 0]) then "back_cyc-g2zero" else "back_cyc_sim"] }
  | "pck", [a] =>
    let a ← el a
    if n == 12 then
      let v := if c.isCyc a then ((fp2Units a).zipIdx.map fun (u, i) => if i == 0 || i == 4 then [0, 0] else u).flatten else a
      some { model := got, spec := [fmt v], tags := [if c.isCyc a then "pck-cyc" else "pck-copy"] }
    else if n == 2 then
      -- the parity bit is that of the Montgomery representation of a1; the flag coefficient is the raw digit vector 0/1
      let R := 2 ^ (64 * ((e.bytes + 7) / 8))
      let rinv := (Relic.Spec.Tower.pow (baseOps e.p) [R % e.p] (e.p - 2)).headD 0
      let bit := (a.getD 1 0 * R % e.p) % 2
      let v := if c.isCyc a then [a.getD 0 0, bit * rinv % e.p] else a
      some { model := got, spec := [fmt v], tags := [if c.isCyc a then "pck-cyc" else "pck-copy"] }
    else none
  | "upk", [a] =>
    let a ← el a
    if n == 12 then
      if !((fp2Units a).getD 0 [] == [0, 0] && (fp2Units a).getD 4 [] == [0, 0]) then
        some { model := got, spec := ["r=1 " ++ fmt a], tags := ["upk-copy"] }
      else if pck12.all (fun i => (fp2Units a).getD i [] == [0, 0]) then
        some { model := got, spec := ["r=1 " ++ fmt d.one], tags := ["upk-identity"] }
      else
        match specBack12 e a with
        | none => some (unspecified "pre-false")
        | some cand => some { model := got, spec := [if c.isCyc cand then "r=1 " ++ fmt cand else "r=0"],
                              tags := [if (fp2Units a).getD 3 [] == [0, 0] then "upk-g2zero" else "upk-cyc"] }
    else if n == 2 then
      let R := 2 ^ (64 * ((e.bytes + 7) / 8))
      let raw1 := a.getD 1 0 * R % e.p
      if raw1 > 1 then some { model := got, spec := ["r=1 " ++ fmt a], tags := ["upk-copy"] } else
      if e.qnr != -1 then some (unspecified "upk-qnr-not-minus-one") else
      -- a0 = ±1: the only root of 1 − a0² is 0, whose representation is even; the flag 1 describes no element
      if raw1 == 1 && (a.getD 0 0 * a.getD 0 0) % e.p == 1 then some (unspecified "pre-false") else
      -- a1 with a0² + a1² = 1 whose Montgomery representation has the given parity
      match d.parse? ((got.drop 4).toString) with
      | some r =>
        let ok := got.startsWith "r=1 " && r.getD 0 0 == a.getD 0 0 && c.isUnitary r && (r.getD 1 0 * R % e.p) % 2 == raw1
        some { model := got, spec := okOr ok got "r=1 <a0, the root of 1 - a0^2 with the flagged parity>", tags := ["upk-cyc"] }
      | none =>
        let t := (1 + e.p - a.getD 0 0 * a.getD 0 0 % e.p) % e.p
        let isSq := t == 0 || (Relic.Spec.Tower.pow (baseOps e.p) [t] ((e.p - 1) / 2)).headD 0 == 1
        some { model := got, spec := [if isSq then "r=1 <root>" else "r=0"], tags := ["upk-nonresidue"] }
    else none
  | "pck_max", [a] =>
    let a ← el a
    if n != 12 then none else
    if !c.isCyc a then some { model := got, spec := [fmt a], tags := ["pckmax-copy"] } else
    let d6 := d.below
    let a0 := a.take 6; let a1 := a.drop 6
    match d6.inv? a1 with
    | none => some { model := "err", spec := ["err"], tags := ["pckmax-identity"] }
    | some a1i => some { model := got, spec := [fmt (d6.mul (d6.add a0 d6.one) a1i ++ d6.zero)], tags := ["pckmax-cyc"] }
  | "upk_max", [a] =>
    let a ← el a
    if n != 12 then none else
    let d6 := d.below
    if !d6.isZero (a.drop 6) then some { model := got, spec := ["r=1 " ++ fmt a], tags := ["upkmax-copy"] } else
    -- (a0 + w)/(a0 − w)
    let num := a.take 6 ++ d6.one
    let den := a.take 6 ++ d6.neg d6.one
    match d.inv? den with
    | none => some { model := "err", spec := ["err"], tags := ["upkmax-noninvertible"] }
    | some di =>
      let v := d.mul num di
      some { model := got, spec := [if c.isCyc v then "r=1 " ++ fmt v else "r=0"], tags := ["upkmax"] }
  -- sparse multiplications ----------------------------------------------------------------------------------------------
  | "mul_dxs", [a, b] | "mul_dxs_basic", [a, b] | "mul_dxs_lazyr", [a, b] =>
    let a ← el a; let b ← el b; let b := if same then a else b
    let z := fun (k : Nat) (u : Nat) (x : List Nat) => ((chunks k (x.length / k) x).getD u []).all (· == 0)
    match n with
    | 6 | 9 =>
      -- third coefficient of b absent
      let k := n / 3
      if !z k 2 b then some (unspecified "pre-false") else
      let m : List Nat :=
        if n == 6 then Flat.toFlat (cubMulDxs (fp2Ops e.base e.qnr) e.nor2 (Flat.ofFlat a) (Flat.ofFlat b))
        else Flat.toFlat (cubMulDxs (fp3Ops e.base e.cnr) e.nor3 (Flat.ofFlat a) (Flat.ofFlat b))
      some { model := fmt m, spec := [fmt (d.mul a b)], tags := ["dxs" ++ toString n] }
    | 8 =>
      if !z 2 2 b then some (unspecified "pre-false") else
      some { model := got, spec := [fmt (d.mul a b)], tags := ["dxs8"] }
    | 12 =>
      let dt := e.twist == 1
      let sparse := if dt then z 2 1 b && z 2 2 b && z 2 5 b else z 2 2 b && z 2 3 b && z 2 5 b
      if !sparse then some (unspecified "pre-false") else
      let m : Fp12 (V2 Nat) := fp12MulDxs (fp2Ops e.base e.qnr) e.nor2 (if dt then .dtype else .mtype) (Flat.ofFlat a) (Flat.ofFlat b)
      some { model := fmt (Flat.toFlat m), spec := [fmt (d.mul a b)], tags := [if dt then "dxs12-D" else "dxs12-M"] }
    | _ => none
  -- square roots ---------------------------------------------------------------------------------------------------------
  | "is_sqr", [a] =>
    let a ← el a
    if !field then some (unspecified "not-a-field") else
    let q := e.p ^ d.dim
    let sq := d.isZero a || d.isOne (d.pow a ((q - 1) / 2))
    some { model := got, spec := [if sq then "r=1" else "r=0"], tags := [if sq then "sqr" else "nonsqr"] }
  | "srt", [a] =>
    let a ← el a
    if !field then some (unspecified "not-a-field") else
    if got.startsWith "r=1 " then
      match d.parse? ((got.drop 4).toString) with
      | some r => some { model := got, spec := okOr (d.eq (d.sqr r) a) got "r=1 <a square root of the operand>", tags := ["srt-root"] }
      | none => some { model := got, spec := ["r=1 <a square root of the operand>"] }
    else
      -- 'no root': Euler's criterion
      let q := e.p ^ d.dim
      let sq := d.isZero a || d.isOne (d.pow a ((q - 1) / 2))
      some { model := got, spec := [if sq then "r=1 <a square root of the operand>" else "r=0"], tags := ["srt-none"] }
  -- constants of the Frobenius map ---------------------------------------------------------------------------------------
  | "mul_frb", [a, i, j] =>
    let a ← el a; let i ← i.toNat?; let j ← j.toNat?
    if n != 2 then none else
    let d2 := d
    let xi := e.xi
    let k ← (if i == 1 && 1 ≤ j && j ≤ 5 then some (j * ((e.p - 1) / 6))
             else if i == 2 && 1 ≤ j && j ≤ 4 then (let m := [4, 8, 12, 24].getD (j - 1) 4; some ((e.p - e.p % m) / m)) else none)
    some { model := got, spec := [fmt (d2.mul a (d2.pow xi k))], tags := ["mul_frb" ++ toString i] }
  -- serialisation ----------------------------------------------------------------------------------------------------------
  | "write_bin", [a, len, pack] =>
    let a ← el a; let len ← len.toNat?; let pack ← pack.toInt?
    let full := String.join (a.map fun x => natToHexPad x (2 * e.bytes))
    if pack ≤ 0 then
      let okLen := if n == 2 then len ≥ 2 * e.bytes else len == n * e.bytes
      -- fp2_write_bin accepts longer buffers and writes the first 2·bytes only
      let out := if n == 2 then full ++ String.join (List.replicate (len - 2 * e.bytes) "5a") else full
      some { model := got, spec := [if okLen then out else "err"], tags := ["write"] }
    else some (unspecified "write-packed")
  | "read_bin", [h] =>
    let nb := if h == "." then 0 else h.length / 2
    if nb != n * e.bytes then
      -- other lengths: compressed forms (fp2: bytes+1, fp12: 8·bytes, …) are judged through pck/upk; else rejected
      if (n == 2 && nb == e.bytes + 1) || (n == 12 && nb == 8 * e.bytes) || (n == 18 && nb == 12 * e.bytes) || (n == 24 && nb == 16 * e.bytes)
          || (n == 48 && nb == 32 * e.bytes) || (n == 54 && nb == 36 * e.bytes) then some (unspecified "read-packed")
      else some { model := "err", spec := ["err"], tags := ["read-badlen"] }
    else
      let cs := (List.range n).map fun i => parseHexNat ((h.drop (2 * e.bytes * i)).take (2 * e.bytes)).toString
      if cs.all (fun x => match x with | some v => v < e.p | none => false) then
        some { model := got, spec := [fmt (cs.map (·.getD 0))], tags := ["read"] }
      else some { model := "err", spec := ["err"], tags := ["read-noncanonical"] }
  | "size_bin", [a, pack] =>
    let a ← el a; let pack ← pack.toInt?
    let packed := pack > 0 && c.isCyc a
    let sz := if !packed then n * e.bytes else match n with
      | 2 => e.bytes + 1 | 8 => 4 * e.bytes | 12 => 8 * e.bytes | 16 => 8 * e.bytes | 18 => 12 * e.bytes | 24 => 16 * e.bytes
      | 48 => 32 * e.bytes | 54 => 36 * e.bytes | _ => n * e.bytes
    some { model := got, spec := ["r=" ++ toString sz], tags := ["size"] }
  | _, _ => none
where
  invSimFlat (c : Cx) (as : List (List Nat)) : List (List Nat) :=
    (invSim c.l.ops (as.map c.l.flat.ofFlat)).map c.l.flat.toFlat
  expBinFlat (c : Cx) (a : List Nat) (k : Nat) : List Nat :=
    c.l.flat.toFlat (expBin c.l.ops (c.l.flat.ofFlat a) (lowBits k))

def handleFn (e : Env) (fname : String) (al : String) (args : List String) (got : String) : Option Verdict :=
  match splitName fname with
  | none => none
  | some (n, op) =>
    match e.tower n, e.lvl n with
    | some d, some l => handleOp e fname n op d l al args got
    | _, _ => none

def handle (e : Env) (op : String) (args : List String) (got : String) : Option Verdict :=
  match op, args with
  | "fpx", f :: al :: rest => handleFn e f al rest got
  | _, _ => none

end Driver.C10
