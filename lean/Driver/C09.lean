/- C09 handlers: modular / number-theoretic functions and recodings. Specifications are the mathematical
   definitions (Nat.gcd, Int.emod, Jacobi symbol by the textbook algorithm, Nat.sqrt, …); recodings are
   additionally compared with the models of Model/Rec.lean. -/
import Driver.C02
import RelicVerif.Model.Rec
import Driver.C09Gcd
import Driver.C09Mxp
import Driver.C09Smb
import Driver.C09Mod
import Driver.C09Pol

namespace Driver.C09
open Driver Relic.Model

/-- extended Euclid on Int: returns (g, x, y) with g = x*a + y*b, g ≥ 0 -/
partial def egcd (a b : Int) : Int × Int × Int :=
  if b = 0 then (if a < 0 then (-a, -1, 0) else (a, 1, 0))
  else
    let (g, x, y) := egcd b (a % b)
    (g, y, x - (a / b) * y)

def modInv (a m : Int) : Option Int :=
  let (g, x, _) := egcd (a % m) m
  if g = 1 then some (x % m) else none

def powModI (a : Int) (e : Nat) (m : Int) : Int :=
  let rec go (fuel : Nat) (a : Int) (e : Nat) (acc : Int) : Int :=
    match fuel with
    | 0 => acc
    | f + 1 => if e = 0 then acc else go f (a * a % m) (e / 2) (if e % 2 = 1 then acc * a % m else acc)
  go (Nat.log2 e + 2) (a % m) e (1 % m)

/-- a^e mod m for e : Int (negative through the inverse); result in [0, m) -/
def mxp (a e m : Int) : Option Int :=
  if e ≥ 0 then some (powModI a e.toNat m)
  else (modInv a m).map fun ai => powModI ai e.natAbs m

/-- Jacobi symbol (a/n), n odd positive -/
partial def jacobi (a n : Int) : Int :=
  let a := a % n
  if n = 1 then 1
  else if a = 0 then 0
  else
    -- pull out factors of two
    let rec twos (a : Int) (t : Int) : Int × Int :=
      if a % 2 = 0 then
        let r := n % 8
        twos (a / 2) (if r = 3 ∨ r = 5 then -t else t)
      else (a, t)
    let (a, t) := twos a 1
    let t := if a % 4 = 3 ∧ n % 4 = 3 then -t else t
    t * jacobi (n % a) a

def isProbablePrime64 (n : Nat) : Bool :=
  -- deterministic Miller–Rabin for n < 3.3·10^24 with the first 13 primes as bases
  if n < 2 then false
  else if [2, 3, 5, 7, 11, 13, 17, 19, 23, 29, 31, 37, 41].contains n then true
  else if [2, 3, 5, 7, 11, 13, 17, 19, 23, 29, 31, 37, 41].any (fun p => n % p = 0) then false
  else
    let rec split (d s : Nat) (fuel : Nat) : Nat × Nat :=
      match fuel with
      | 0 => (d, s)
      | f + 1 => if d % 2 = 0 then split (d / 2) (s + 1) f else (d, s)
    let (d, s) := split (n - 1) 0 (Nat.log2 n + 1)
    [2, 3, 5, 7, 11, 13, 17, 19, 23, 29, 31, 37, 41].all fun a =>
      let x := C02.powMod a d n
      if x = 1 ∨ x = n - 1 then true
      else (List.range (s - 1)).foldl (fun (st : Nat × Bool) _ =>
        let y := st.1 * st.1 % n
        (y, st.2 || y = n - 1)) (x, false) |>.2

def fmtDigits (ds : List Int) : String := String.intercalate " " (ds.map toString)

def parseDigits (toks : List String) : Option (List Int) := toks.mapM String.toInt?

def pI (w : Nat) (s : String) : Option Int := (parseBn w s).map (Bn.toInt (2 ^ w))

/-- parse the oracle's "v:uN" -/
def outInt (s : String) : Option Int :=
  match s.splitOn ":u" with
  | [v, _] => parseHexInt v
  | _ => none

def handleC (w cap digs : Nat) (op : String) (args : List String) (got : String) : Option Verdict :=
  let fmt := fun (v : Int) => fmtIntNF w v
  -- operands beyond the configured precision (RLC_BN_DIGS digits) may be refused with an error
  let tooLong : Bool := args.any fun t => match parseBn w t with
    | some b => b.used > digs
    | none => false
  -- class C operations: the "model" column is the specification value
  let cls := fun (s : String) => some ({ model := if tooLong && got == "err" then "err" else s,
                                         spec := if tooLong then [s, "err"] else [s] } : Verdict)
  match op, args with
  | "nt_mod", [v, a, m] => do
    let a ← pI w a
    let m ← pI w m
    let R : Int := (2 : Int) ^ (w * (toDigits w m.natAbs).length)
    if m = 0 then cls "err" else
    match v with
    | "basic" | "mod" => cls (fmt (Int.fmod a m))
    | "barrt" => if a < 0 ∨ m ≤ 0 ∨ a ≥ R * R then cls got else cls (fmt (a % m))
    | "pmers" => if a < 0 ∨ m ≤ 0 then cls got else cls (fmt (a % m))
    | "monty" | "monty_basic" | "monty_comba" =>
      -- contract: m odd positive, 0 ≤ a < m·R ; result a·R⁻¹ mod m
      if a < 0 ∨ m ≤ 0 ∨ m % 2 = 0 ∨ a ≥ m * R then cls got else
      match modInv R m with
      | some ri => cls (fmt (a * ri % m))
      | none => cls got
    | "monty_conv" => if m ≤ 0 ∨ m % 2 = 0 ∨ a < 0 then cls got else cls (fmt (a * R % m))
    | "monty_back" => if m ≤ 0 ∨ m % 2 = 0 ∨ a < 0 ∨ a ≥ m then cls got else
      match modInv R m with
      | some ri => cls (fmt (a * ri % m))
      | none => cls got
    | "pre_monty" => if m ≤ 0 ∨ m % 2 = 0 then cls got else
      -- u = -m^{-1} mod B
      match modInv m ((2 : Int) ^ w) with
      | some mi => cls (fmt (((2 : Int) ^ w - mi) % (2 : Int) ^ w))
      | none => cls got
    | _ => none
  | "nt_mxp", [v, a, e, m] => do
    let a ← pI w a
    let e ← pI w e
    let m ← pI w m
    if m ≤ 1 then cls got else
    -- BN_MOD = MONTY: bn_mxp_* reduce with Montgomery, which admits odd moduli only (ERR_NO_VALID otherwise)
    if m % 2 = 0 then cls (if got == "err" then "err" else (match mxp a e m with
      | some r => fmt r
      | none => "err")) else
    if v == "dig" then cls (match mxp a (e.natAbs % 2 ^ w : Nat) m with
      | some r => fmt r
      | none => "err") else
    cls (match mxp a e m with
      | some r => fmt r
      | none => "err")
  | "nt_mxp_sim", [a, b, d, e, m] => do
    let a ← pI w a
    let b ← pI w b
    let d ← pI w d
    let e ← pI w e
    let m ← pI w m
    if m ≤ 1 ∨ b < 0 ∨ e < 0 then cls got else
    cls (fmt (powModI a b.toNat m * powModI d e.toNat m % m))
  | "nt_inv", [a, m] => do
    let a ← pI w a
    let m ← pI w m
    if m ≤ 1 then cls got else
    cls (match modInv a m with
      | some r => fmt r
      | none => "err")
  | "nt_gcd", [v, a, b] => do
    let a ← pI w a
    let b ← pI w b
    if v == "lcm" then
      -- lcm(0, 0): the quotient by gcd = 0 is refused
      if a = 0 ∧ b = 0 then cls (if got == "err" then "err" else "0:u1") else cls (fmt (Int.lcm a b))
    else if v == "dig" then cls (fmt (Int.gcd a (b.natAbs % 2 ^ w : Nat)))
    else cls (fmt (Int.gcd a b))
  | "nt_gcd_ext", [v, a, b] => do
    let a ← pI w a
    let b0 ← pI w b
    let b : Int := if v == "dig" then (b0.natAbs % 2 ^ w : Nat) else b0
    -- specification: c = gcd(a,b) ≥ 0 and c = d·a + e·b (Bezout for the given operands)
    let toks := got.splitOn " "
    let ok : Bool := match toks.map outInt with
      | [some c, some d, some e] => c == Int.gcd a b && c == d * a + e * b
      | [some c, some d, some e, some _] => c == Int.gcd a b && c == d * a + e * b
      | _ => false
    some { model := got, spec := if ok then [got] else ["gcd=" ++ fmt (Int.gcd a b) ++ " with cofactors satisfying c = d*a + e*b"] }
  | "nt_smb", [v, a, b] => do
    let a ← pI w a
    let b ← pI w b
    -- Legendre needs an odd prime b (the generator only passes primes there); Jacobi any odd positive b
    if b ≤ 0 ∨ b % 2 = 0 then cls got else
    let _ := v
    cls (toString (jacobi a b))
  | "nt_srt", [a] => do
    let a ← pI w a
    if a < 0 then cls got else cls (fmt (Nat.sqrt a.toNat))
  | "nt_prime", v :: a :: rest => do
    let a ← pI w a
    -- ground truth: for small inputs a deterministic test; otherwise the generator supplies it:
    --   "P" (a parameter prime certified in C18) or "C <factor>" (checked here)
    let truth : Option Bool :=
      if a < 2 then some false
      else if a < 2 ^ 80 then some (isProbablePrime64 a.toNat)
      else match rest with
        | ["P"] => some true
        | ["C", f] => match parseHexNat f with
          | some f => if f > 1 ∧ (f : Int) < a ∧ a % f = 0 then some false else none
          | none => none
        | _ => none
    match truth with
    | some t =>
      if v == "basic" then
        -- documented as trial division: primes are accepted; a composite may pass, a rejection must be right
        if t then cls "1" else cls (if got == "1" then "1" else "0")
      else if v == "solov" ∧ (a ≤ 2 ∨ a % 2 = 0) then
        -- documented for a > 2; even inputs are refused by the Jacobi symbol (error), never accepted
        cls (if got == "1" then "0" else got)
      else cls (if t then "1" else "0")
    | none => none
  | "nt_gen_prime", [v, _, bits] => do
    let bits ← bits.toNat?
    -- the output must have exactly `bits` bits and the requested structure (checked by deterministic MR
    -- only below 2^80; larger outputs are checked for length and oddness, primality by the implementation's
    -- own tests which are validated by nt_prime)
    let ok : Bool := match outInt got with
      | some p => p.toNat.log2 + 1 == bits && p % 2 == 1 &&
          (p ≥ 2 ^ 80 || isProbablePrime64 p.toNat) &&
          (v != "safep" || p ≥ 2 ^ 80 || isProbablePrime64 ((p.toNat - 1) / 2))
      | none => false
    some { model := got, spec := if ok then [got] else ["a prime of exactly " ++ toString bits ++ " bits"] }
  | "nt_rec", kind :: ws :: k :: rest => do
    let wd ← ws.toNat?
    let kI ← pI w k
    let kN := kI.natAbs
    let capOf := fun (dflt : Nat) => match rest with
      | [_, c] => c.toNat?.getD dflt
      | _ => dflt
    let big := 4 * cap * w
    let out := fun (r : Option (List Int)) => match r with
      | some ds => "len=" ++ toString ds.length ++ (if ds.isEmpty then "" else " " ++ fmtDigits ds)
      | none => "err len=0"
    -- specification, evaluated on the implementation's own output: value, digit set, length, sparsity
    let gotToks := got.splitOn " "
    let gotDs : Option (List Int) := match gotToks with
      | l :: ds => if l.startsWith "len=" then parseDigits (ds.takeWhile (· ≠ "|")) else none
      | [] => none
    match kind with
    | "win" =>
      if kN = 0 then some { model := out (Rec.recWin (capOf big) kN wd), spec := ["len=1 0"] } else
      let ok : Bool := match gotDs with
        | some ds => Rec.eval wd ds == kN && ds.all (fun d => 0 ≤ d && d < 2 ^ wd) && ds.length == max 1 ((Rec.bitLen kN + wd - 1) / wd)
        | none => false
      some { model := out (Rec.recWin (capOf big) kN wd), spec := if ok then [got] else ["radix-2^w digits of k"] }
    | "slw" =>
      let ok : Bool := match gotDs with
        | some ds =>
          -- most significant first: value by Horner with one squaring per zero / bitlen(window) squarings per window
          let v := ds.foldl (fun (acc : Int) d => if d = 0 then 2 * acc else acc * 2 ^ (Rec.bitLen d.toNat) + d) 0
          v == kN && ds.all (fun d => d == 0 || (d % 2 == 1 && 0 < d && d < 2 ^ wd))
        | none => false
      some { model := out (Rec.recSlw (capOf big) kN wd), spec := if ok then [got] else ["sliding-window recoding of k"] }
    | "naf" =>
      let ok : Bool := match gotDs with
        | some ds =>
          Rec.eval 1 ds == kN && ds.all (fun d => d == 0 || (d % 2 != 0 && d.natAbs < 2 ^ (wd - 1))) &&
          ds.length ≤ Rec.bitLen kN + 1 &&
          -- among any w consecutive digits at most one is non-zero
          (List.range ds.length).all (fun i => ((ds.drop i).take wd).countP (· ≠ 0) ≤ 1)
        | none => false
      some { model := out (Rec.recNaf (capOf big) kN wd), spec := if ok then [got] else ["width-w NAF of |k|"] }
    | "reg" =>
      match rest with
      | n :: _ => do
        let n ← parseHexNat n
        -- contract: k odd, k < 2^n
        if kN % 2 = 0 ∨ kN ≥ 2 ^ n ∨ kI < 0 then some { model := got, spec := [got] } else
        let l := (n + (wd - 1) - 1) / (wd - 1)
        let ok : Bool := match gotDs with
          | some ds => Rec.eval (wd - 1) ds == kN && ds.length == l + 1 &&
              (ds.take l).all (fun d => d % 2 != 0 && d.natAbs < 2 ^ (wd - 1)) && (ds.getD l 0).natAbs ≤ 1
          | none => false
        some { model := out (Rec.recReg (capOf big) kN n wd), spec := if ok then [got] else ["regular recoding: all digits odd, value k"] }
      | _ => none
    | "jsf" =>
      match rest with
      | l :: _ => do
        let lI ← pI w l
        let lN := lI.natAbs
        let m := match Rec.recJsf (capOf big) kN lN with
          | some (a0, a1) => "len=" ++ toString a0.length ++ (if a0.isEmpty then "" else " " ++ fmtDigits a0) ++ " |" ++
              (if a1.isEmpty then "" else " " ++ fmtDigits a1)
          | none => "err len=0"
        let parts := got.splitOn " |"
        let ok : Bool := match parts with
          | [p0, p1] =>
            match parseDigits ((p0.splitOn " ").drop 1), parseDigits ((p1.splitOn " ").filter (· ≠ "")) with
            | some a0, some a1 =>
              Rec.eval 1 a0 == kN && Rec.eval 1 a1 == lN && a0.all (fun d => d.natAbs ≤ 1) && a1.all (fun d => d.natAbs ≤ 1) &&
              a0.length == a1.length
            | _, _ => false
          | _ => false
        some { model := m, spec := if ok then [got] else ["joint sparse form of (k, l)"] }
      | _ => none
    | _ => none
  | "nt_evl", x :: b :: coeffs => do
    let x ← pI w x
    let b ← pI w b
    let cs ← coeffs.mapM (pI w)
    if b ≤ 0 then cls got else
    cls (fmt (cs.foldr (fun a acc => (acc * x + a) % b) 0))
  | "nt_lag", b :: pts => do
    let b ← pI w b
    let xs ← pts.mapM (pI w)
    if b ≤ 1 then cls got else
    -- coefficients of Π (X - a_i)·(-1)^n … the library builds Π (b - a_i + X)-style products: characterise by evaluation:
    -- the returned polynomial c(X) (degree n, leading coefficient 1) vanishes at every a_i mod b
    let toks := got.splitOn " "
    let ok : Bool := match toks.mapM outInt with
      | some cs => cs.length == xs.length + 1 && (xs.isEmpty || cs.getLast? == some 1) &&
          xs.all (fun a => (cs.foldr (fun c acc => (acc * a + c) % b) 0) % b == 0) && cs.all (fun c => 0 ≤ c && c < b)
      | none => false
    some { model := got, spec := if ok then [got] else ["monic polynomial vanishing at the given points"] }
  | _, _ => none

/-- modelled families first (class A); whatever they do not take falls through to the specification-only cases -/
def handle (w cap digs : Nat) (op : String) (args : List String) (got : String) : Option Verdict :=
  (C09Gcd.handle w cap digs op args got) <|> (C09Mxp.handle w cap digs op args got) <|>
  (C09Smb.handle w cap digs op args got) <|> (C09Mod.handle w cap digs op args got) <|> (C09Pol.handle w cap digs op args got) <|>
  (handleC w cap digs op args got)

end Driver.C09
