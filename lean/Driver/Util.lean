/- Parsing / formatting helpers of the line-protocol driver. No Mathlib. -/
import RelicVerif.Model.Bn

namespace Driver
open Relic.Model

def hexDigit (c : Char) : Option Nat :=
  if '0' ≤ c ∧ c ≤ '9' then some (c.toNat - '0'.toNat)
  else if 'a' ≤ c ∧ c ≤ 'f' then some (c.toNat - 'a'.toNat + 10)
  else if 'A' ≤ c ∧ c ≤ 'F' then some (c.toNat - 'A'.toNat + 10)
  else none

def parseHexNat (s : String) : Option Nat :=
  if s.isEmpty then none else
  s.foldl (fun acc c => match acc, hexDigit c with
    | some a, some d => some (a * 16 + d)
    | _, _ => none) (some 0)

/-- "[-]hex" -/
def parseHexInt (s : String) : Option Int :=
  if s.startsWith "-" then (parseHexNat (s.drop 1).toString).map (fun n => - (n : Int))
  else (parseHexNat s).map (fun n => (n : Int))

def hexChar (d : Nat) : Char := if d < 10 then Char.ofNat (48 + d) else Char.ofNat (87 + d)

def natToHex (n : Nat) : String :=
  if n = 0 then "0" else
  let rec go (fuel n : Nat) (acc : List Char) : List Char :=
    match fuel with
    | 0 => acc
    | f + 1 => if n = 0 then acc else go f (n / 16) (hexChar (n % 16) :: acc)
  String.ofList (go (Nat.log2 n / 4 + 2) n [])

def natToHexPad (n width : Nat) : String :=
  let s := natToHex n
  String.ofList (List.replicate (width - s.length) '0') ++ s

/-- little-endian digits of n in base 2^w, at least one digit -/
def toDigits (w n : Nat) : List Nat :=
  if n = 0 then [0] else
  let rec go (fuel n : Nat) : List Nat :=
    match fuel with
    | 0 => []
    | f + 1 => if n = 0 then [] else (n % 2 ^ w) :: go f (n / 2 ^ w)
  go (Nat.log2 n / w + 2) n

/-- exactly k digits -/
def toDigitsN (w n k : Nat) : List Nat := (List.range k).map fun i => (n / 2 ^ (w * i)) % 2 ^ w

def fromDigits (w : Nat) (l : List Nat) : Nat := val (2 ^ w) l

def parseBn (w : Nat) (s : String) : Option Bn :=
  let neg := s.startsWith "-"
  let t := if neg then (s.drop 1).toString else s
  (parseHexNat t).map fun n => { neg := neg, dp := toDigits w n }

/-- the oracle's canonical print of a bn: minimal hex of the magnitude, ":u<used>", '-' from the sign field -/
def fmtBn (w : Nat) (a : Bn) : String :=
  (if a.neg then "-" else "") ++ natToHex (fromDigits w a.dp) ++ ":u" ++ toString a.used

def fmtBnOpt (w : Nat) : Option Bn → String
  | some a => fmtBn w a
  | none => "err"

/-- what the *specification* expects for an integer result: the normal form of v -/
def fmtIntNF (w : Nat) (v : Int) : String :=
  let m := v.natAbs
  (if v < 0 then "-" else "") ++ natToHex m ++ ":u" ++ toString (toDigits w m).length

/-- fixed-width digits, as printed by raw_print -/
def fmtRaw (w : Nat) (l : List Nat) : String :=
  if l.isEmpty then "." else
  String.join (l.reverse.map fun d => natToHexPad d (w / 4))

def bitLen (n : Nat) : Nat := if n = 0 then 0 else Nat.log2 n + 1

structure Verdict where
  model : String
  spec : List String
  tags : List String := []

end Driver
