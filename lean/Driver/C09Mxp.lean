/- C09 extension (Mxp family): driver cases whose model column is the Lean model's prediction
   (Model/NtMxp.lean: bn_mxp_basic / slide / monty / dig / crt, bn_smb_leg). -/
import Driver.C02
import RelicVerif.Model.NtMxp

namespace Driver.C09Mxp
open Driver Relic.Model

def pI (w : Nat) (s : String) : Option Int := (parseBn w s).map (Bn.toInt (2 ^ w))

/-- independent specification: a^e mod m by right-to-left binary exponentiation on plain residues -/
def powModI (a : Int) (e : Nat) (m : Int) : Int :=
  let rec go (fuel : Nat) (a : Int) (e : Nat) (acc : Int) : Int :=
    match fuel with
    | 0 => acc
    | f + 1 => if e = 0 then acc else go f (a * a % m) (e / 2) (if e % 2 = 1 then acc * a % m else acc)
  go (Nat.log2 e + 2) (a % m) e (1 % m)

/-- independent specification of the inverse: search-free, by the recursive extended Euclid on (a mod m, m) -/
partial def egcd (a b : Int) : Int × Int × Int :=
  if b = 0 then (if a < 0 then (-a, -1, 0) else (a, 1, 0))
  else
    let (g, x, y) := egcd b (a % b)
    (g, y, x - (a / b) * y)

def modInvS (a m : Int) : Option Int :=
  let (g, x, _) := egcd (a % m) m
  if g = 1 then some (x % m) else none

def mxpS (a e m : Int) : Option Int :=
  if e ≥ 0 then some (powModI a e.toNat m)
  else (modInvS a m).map fun ai => powModI ai e.natAbs m

/-- Legendre symbol by Euler's criterion on plain residues (p an odd prime) -/
def legS (a p : Int) : Int :=
  let r := powModI a ((p - 1) / 2).toNat p
  if r = 0 then 0 else if r = 1 then 1 else -1

def isSmallPrime (n : Nat) : Bool := n ≥ 2 && (List.range (Nat.sqrt n + 1)).all fun d => d < 2 || n % d != 0

/-- strong-probable-prime test to the first 13 prime bases (deterministic below 3.3·10^24; a necessary condition above): used to decide
whether a modulus ≥ 2^32 presented to bn_smb_leg is inside the contract (odd prime) -/
def isPrimeMR (n : Nat) : Bool :=
  let bases := [2, 3, 5, 7, 11, 13, 17, 19, 23, 29, 31, 37, 41]
  if n < 2 then false
  else if bases.contains n then true
  else if bases.any (fun p => n % p = 0) then false
  else
    let rec split (d s : Nat) (fuel : Nat) : Nat × Nat :=
      match fuel with
      | 0 => (d, s)
      | f + 1 => if d % 2 = 0 then split (d / 2) (s + 1) f else (d, s)
    let (d, s) := split (n - 1) 0 (Nat.log2 n + 1)
    bases.all fun a =>
      let x := (powModI a d n).toNat
      if x = 1 ∨ x = n - 1 then true
      else (List.range (s - 1)).foldl (fun (st : Nat × Bool) _ =>
        let y := st.1 * st.1 % n
        (y, st.2 || y = n - 1)) (x, false) |>.2

def expTags (l wd : Nat) (e : Nat) : List String :=
  (if l < wd then ["e-shorter-than-window"] else []) ++
  (if e + 1 == 2 ^ l ∧ l > 1 then ["e-all-ones"] else []) ++
  (if e == 2 ^ (l - 1) ∧ l > 1 then ["e-single-bit"] else []) ++
  (if l ≥ 16 ∧ ((List.range l).filter fun i => NtMxp.bit e i).length * 4 ≤ l then ["e-sparse"] else [])

def handle (w cap digs : Nat) (op : String) (args : List String) (got : String) : Option Verdict :=
  let _ := cap
  let fmt := fun (v : Int) => fmtIntNF w v
  let out := fun (r : Option Int) => match r with
    | some v => fmt v
    | none => "err"
  let long := fun (t : String) => match parseBn w t with
    | some b => b.used > digs
    | none => false
  match op, args with
  | "nt_mxp", [v, as_, es, ms] => do
    let a ← pI w as_
    let e ← pI w es
    let m ← pI w ms
    -- operands beyond the configured precision (RLC_BN_DIGS digits) may be refused with an error
    let tooLong := long as_ || long ms || long es
    let eN : Nat := if v == "dig" then e.natAbs % 2 ^ w else e.natAbs
    let pred : Option Int ← match v with
      | "basic" => some (NtMxp.mxpBasic w a e m)
      | "slide" | "mxp" => some (NtMxp.mxpSlide w a e m)
      | "monty" => some (NtMxp.mxpMonty w a e m)
      | "dig" => some (NtMxp.mxpDig w a eN m)
      | _ => none
    let e' : Int := if v == "dig" then (eN : Int) else e
    let l := Rec.bitLen eN
    let wd := NtMxp.winWidth l
    -- specification: a^e mod m in [0, m); for an even modulus the reported error is admitted as well (BN_MOD = MONTY)
    let spec : List String :=
      if m = 1 then ["0:u1"]
      else if m ≤ 0 then [out pred]
      else if m % 2 = 0 then [out (mxpS a e' m), "err"]
      else [out (mxpS a e' m)]
    let tags := ["mxp-" ++ v] ++
      (if m = 1 then ["m=1"] else if e' = 0 then ["b=0"] else if m ≤ 0 then ["m<=0-err"] else if m % 2 = 0 then ["even-m-err"] else
        (if v == "slide" ∨ v == "mxp" then ["win" ++ toString wd] else []) ++
        (if e' < 0 then [if pred.isSome then "neg-exp" else "neg-exp-noinv-err"] else []) ++
        (if a < 0 then ["a<0"] else if a ≥ m then ["a>=m"] else []) ++
        (if a % m = 0 then ["a=0modm"] else []) ++
        expTags l (if v == "slide" ∨ v == "mxp" then wd else 0) eN)
    some { model := if tooLong && got == "err" then "err" else out pred,
           spec := if tooLong then spec ++ ["err"] else spec, tags := tags }
  | "nt_smb", ["leg", as_, bs] => do
    let a ← pI w as_
    let b ← pI w bs
    let tooLong := long as_ || long bs
    let pred := NtMxp.smbLeg w a b
    let outS := fun (r : Option Int) => match r with
      | some v => toString v
      | none => "err"
    -- specification: the Legendre symbol for an odd prime b (the generator passes primes; small ones are re-checked here);
    -- anything else is outside the contract: the model alone judges
    let prime := b > 2 ∧ (if b ≥ 2 ^ 32 then isPrimeMR b.toNat else isSmallPrime b.toNat)
    let spec : List String := if prime then [toString (legS a b)] else [outS pred]
    let tags := ["smb-leg"] ++
      (if b < 0 then ["leg-b<0-err"] else if a = b then ["leg-a=b"] else if ¬ prime then ["leg-b-not-odd-prime"] else
        (if a % b = 0 then ["leg-a=0modb"] else []) ++ (if a < 0 then ["leg-a<0"] else if a > b then ["leg-a>b"] else []) ++
        ["leg=" ++ outS pred])
    some { model := if tooLong && got == "err" then "err" else outS pred,
           spec := if tooLong then spec ++ ["err"] else spec, tags := tags }
  | "nt_mxp_crt", [as_, dps, dqs, ps, qs, sq] => do
    let a ← pI w as_
    let dp ← pI w dps
    let dq ← pI w dqs
    let p ← pI w ps
    let q ← pI w qs
    let sqr := sq != "0"
    let tooLong := long as_ || long ps || long qs || long dps || long dqs || (p * q).natAbs ≥ 2 ^ (w * digs)
    -- the loop `while d < 0: d += p` needs p > 0 and takes about q/p iterations (not presented for q ≫ p)
    if p ≤ 0 ∨ q.natAbs > 4096 * p.natAbs then none else
    let pred := NtMxp.mxpCrtOp w a dp dq p q sqr
    -- specification (sqr = 0, p and q odd > 1 and coprime, exponents ≥ 0): the x in [0, pq) with x ≡ a^dp (p), x ≡ a^dq (q)
    let specOk := !sqr ∧ p > 1 ∧ q > 1 ∧ p % 2 = 1 ∧ q % 2 = 1 ∧ Int.gcd p q = 1 ∧ dp ≥ 0 ∧ dq ≥ 0
    let ok : Bool := match (parseHexInt ((got.splitOn ":u").headD "")) with
      | some x => 0 ≤ x && x < p * q && x % p == powModI a dp.toNat p && x % q == powModI a dq.toNat q
      | none => false
    let spec : List String := if specOk then (if ok then [got] else ["the x in [0,pq) with x = a^dp mod p and x = a^dq mod q"]) else [out pred]
    let tags := ["mxp-crt", if sqr then "crt-sqr" else "crt-plain"] ++
      (if pred.isNone then ["crt-err"] else []) ++ (if p < q then ["crt-p<q"] else ["crt-p>q"]) ++
      (if a % p = 0 ∨ a % q = 0 then ["crt-a=0mod"] else [])
    some { model := if tooLong && got == "err" then "err" else out pred,
           spec := if tooLong then spec ++ ["err"] else spec, tags := tags }
  | "nt_mxp_sim", [as_, bs, ds, es, ms] => do
    let a ← pI w as_
    let b ← pI w bs
    let d ← pI w ds
    let e ← pI w es
    let m ← pI w ms
    let tooLong := long as_ || long bs || long ds || long es || long ms
    let pred := NtMxp.mxpSim w a b d e m
    -- specification: a^b·d^e mod m (negative exponents through inverses, or a reported error)
    let math := fmt (powModI a b.natAbs m * powModI d e.natAbs m % m)
    let spec : List String :=
      if m = 1 then ["0:u1"]
      else if m ≤ 0 then [out pred]
      else if b < 0 ∨ e < 0 then
        -- a negative exponent means the inverse (as bn_mxp does); refusing it with an error is admissible, silently returning
        -- a^|b|·d^|e| is not (finding C09-ext-mxp-1)
        (match mxpS a b m, mxpS d e m with
         | some x, some y => [fmt (x * y % m), "err"]
         | _, _ => ["err"])
      else if m % 2 = 0 then [math, "err"]
      else [math]
    let lb := Rec.bitLen b.natAbs
    let le := Rec.bitLen e.natAbs
    let tags := ["mxp-sim"] ++
      (if m = 1 then ["sim-m=1"] else if m ≤ 0 then ["sim-m<=0-err"] else if m % 2 = 0 then ["sim-even-m-err"] else
        (if b = 0 ∧ e = 0 then ["sim-both-zero"] else if b = 0 then ["sim-b=0"] else if e = 0 then ["sim-e=0"] else []) ++
        (if lb < le then ["sim-b-shorter"] else if lb > le then ["sim-b-longer"] else ["sim-equal-length"]) ++
        (if b < 0 ∨ e < 0 then ["sim-neg-exp-sign-ignored"] else []) ++
        (if a % m = 0 ∨ d % m = 0 then ["sim-base=0modm"] else []) ++
        (if a < 0 ∨ d < 0 then ["sim-base<0"] else []) ++
        (if (List.range (max lb le)).any (fun i => NtMxp.bit b.natAbs i && NtMxp.bit e.natAbs i) then ["sim-both-bits"] else []))
    some { model := if tooLong && got == "err" then "err" else out pred,
           spec := if tooLong then spec ++ ["err"] else spec, tags := tags }
  | "nt_mxp_few", c0s :: ms :: rest => do
    let c0 ← pI w c0s
    let m ← pI w ms
    let vals ← rest.mapM (pI w)
    let rec pairs : List Int → List (Int × Int)
      | a :: b :: t => (a, b) :: pairs t
      | _ => []
    let ps := pairs vals
    let tooLong := (ms :: rest).any long
    let pred := NtMxp.mxpSimFew w c0 ps m
    let n := ps.length
    let anyNeg := ps.any fun p => p.2 < 0
    let math := fmt ((ps.foldl (fun acc p => acc * powModI p.1 p.2.natAbs m % m) (1 % m)) % m)
    -- specification: Π a_i^b_i mod m; n = 0 leaves c untouched, n > 8 is refused; negative exponents: the mathematical value is not
    -- computed here (known finding C09-ext-mxp-1 covers bn_mxp_sim); they are judged by the model alone
    let spec : List String :=
      if m = 1 then ["0:u1"]
      else if n = 0 then [fmt c0]
      else if n > 8 then ["err"]
      else if m ≤ 0 ∨ anyNeg then [out pred]
      else if m % 2 = 0 then [math, "err"]
      else [math]
    let tags := ["mxp-few", "few-n=" ++ toString n] ++
      (if m = 1 then ["few-m=1"] else if n = 0 then ["few-n=0-untouched"] else if n > 8 then ["few-n>8-err"]
       else if m ≤ 0 then ["few-m<=0-err"] else if m % 2 = 0 then ["few-even-m-err"] else
        (if ps.any (fun p => p.2 = 0) then ["few-zero-exp"] else []) ++
        (if ps.all (fun p => p.2 = 0) then ["few-all-zero-exp"] else []) ++
        (if (ps.map fun p => Rec.bitLen p.2.natAbs).eraseDups.length > 1 then ["few-unequal-lengths"] else []) ++
        (if anyNeg then ["few-neg-exp-sign-ignored"] else []))
    some { model := if tooLong && got == "err" then "err" else out pred,
           spec := if tooLong then spec ++ ["err"] else spec, tags := tags }
  | "nt_mxp_lot", ms :: rest => do
    let m ← pI w ms
    let vals ← rest.mapM (pI w)
    let rec pairsL : List Int → List (Int × Int)
      | a :: b :: t => (a, b) :: pairsL t
      | _ => []
    let ps := pairsL vals
    let tooLong := (ms :: rest).any long
    let pred := NtMxp.mxpSimLot w ps m
    let n := ps.length
    let anyNeg := ps.any fun p => p.2 < 0
    let math := fmt ((ps.foldl (fun acc p => acc * powModI p.1 p.2.natAbs m % m) (1 % m)) % m)
    -- specification: Π a_i^b_i mod m for exponents ≥ 0 and m > 1; an even modulus may be refused; negative exponents / m ≤ 0: model alone
    let spec : List String :=
      if m = 1 then ["0:u1"]
      else if m ≤ 0 ∨ anyNeg then [out pred]
      else if m % 2 = 0 then [math, "err"]
      else [math]
    let tags := ["mxp-lot", "lot-n=" ++ toString n, "lot-blocks=" ++ toString (n / 8),
        if n % 8 = 0 then "lot-rest-none" else if n % 8 = 1 then "lot-rest-single-bn_mxp" else "lot-rest-few"] ++
      (if m = 1 then ["lot-m=1"] else if m ≤ 0 then ["lot-m<=0"] else if m % 2 = 0 then [if pred.isSome then "lot-even-m-value" else "lot-even-m-err"] else
        (if ps.any (fun p => p.2 = 0) then ["lot-zero-exp"] else []) ++
        (if anyNeg then ["lot-neg-exp"] else []))
    some { model := if tooLong && got == "err" then "err" else out pred,
           spec := if tooLong then spec ++ ["err"] else spec, tags := tags }
  | _, _ => none

end Driver.C09Mxp
