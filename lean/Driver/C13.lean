/- C13 handlers: hashing to groups. Specification: Spec/HashToCurve.lean (RFC 9380 pipeline, SwiftEC, try-and-increment);
   model: Model/EpMap.lean (the C code of relic_ep_map_tmpl.h / relic_ep_map.c with the constants the library reports). -/
import Driver.C03
import Driver.C14
import RelicVerif.Spec.HashToCurve
import RelicVerif.Model.EpMap
import RelicVerif.Spec.HashToCurveBin
import RelicVerif.Spec.HashToCurveEd
import RelicVerif.Spec.HashToCurveExt

namespace Driver.C13
open Driver Driver.C15 Relic.Spec Relic.Spec.Curve Relic.Spec.H2C Relic.Model.EpMap
open Relic.Spec.Mac (Bytes)

structure Env where
  ep : C03.Env
  level : Nat
  fpbits : Nat
  rndsize : Nat
  alg : String
  ctmap : Bool
  dst : Bytes
  K : MapCtx Nat
  iso : Option (Iso Nat)
  isoa : Nat
  isob : Nat
  par : Int

def parseList (s : String) : Option (List Nat) := (s.splitOn ",").mapM parseHexNat

def parseEnv (got : String) : Option Env := do
  let ep ← C03.parseEnv got
  let kv := ep.kv
  let hx := fun (k : String) => (kv.lookup k).bind parseHexNat
  let dc := fun (k : String) => (kv.lookup k).bind String.toNat?
  let K : MapCtx Nat := { u := ← hx "mapu", c0 := ← hx "c0", c1 := ← hx "c1", c2 := ← hx "c2", c3 := ← hx "c3", c4 := ← hx "c4" }
  let ctmap := kv.lookup "ctmap" == some "1"
  let iso : Option (Iso Nat) :=
    if ctmap then do
      some { xn := ← (kv.lookup "xn").bind parseList, xd := ← (kv.lookup "xd").bind parseList,
             yn := ← (kv.lookup "yn").bind parseList, yd := ← (kv.lookup "yd").bind parseList }
    else none
  some { ep := ep, level := ← dc "level", fpbits := ← dc "fpbits", rndsize := ← dc "rndsize", alg := ← kv.lookup "mapalg",
         ctmap := ctmap, dst := ← (kv.lookup "dst").bind parseBytes, K := K, iso := iso,
         isoa := (hx "isoa").getD 0, isob := (hx "isob").getD 0,
         par := ((kv.lookup "par").bind parseHexInt).getD 0 }

def Env.p (e : Env) : Nat := e.ep.c.p
def Env.O (e : Env) : MapOps Nat := natMapOps e.p
/-- the curve the map works on: the isogenous curve when the library uses an isogeny -/
def Env.mapCurve (e : Env) : WCurve Nat := if e.ctmap then { a := e.isoa, b := e.isob } else { a := e.ep.c.a, b := e.ep.c.b }
def Env.useSswu (e : Env) : Bool := e.ctmap || (e.ep.c.a % e.p != 0 && e.ep.c.b % e.p != 0)
def Env.L (e : Env) : Nat := fieldLen e.p e.level

/-- every constant read from the library against its defining property -/
def checkParam (e : Env) : List String :=
  let p := e.p
  let O := e.O
  let E := e.mapCurve
  let Z := e.K.u
  let chk := fun (b : Bool) (s : String) => if b then [] else [s]
  chk (e.fpbits == Nat.log2 p + 1) "the configured field size differs from the bit length of p" ++
  chk (e.L == (e.fpbits + e.level + 7) / 8) "element length differs from ceil((ceil(log2 p) + k)/8)" ++
  (if e.useSswu then
    chk (!isSqMod p Z) "SSWU: Z is a square" ++
    chk (E.a % p != 0 && E.b % p != 0) "SSWU: a*b = 0 on the curve the map works on" ++
    chk (O.add (O.mul e.K.c0 E.a) E.b == 0) "SSWU: c0 != -b/a" ++
    chk (e.K.c2 == E.a && e.K.c3 == E.b) "SSWU: c2, c3 are not the coefficients of the curve the map works on" ++
    chk (isSqMod p (g O E (O.mul E.b (O.inv0 (O.mul Z E.a))))) "SSWU: g(B/(Z*A)) is not a square (the exceptional inputs u with Z^2u^4+Zu^2 = 0 do not map to the curve)" ++
    -- the constant is a function of the curve alone: the documented search takes the FIRST value 1, 2, 3, … with the two properties
    -- (a value that depends on earlier selections would make the map depend on more than the input bytes); not for isogenous maps,
    -- whose Z comes from a table
    chk (e.ctmap || (Z < 65536 && (List.range Z).all fun v =>
      v == 0 || isSqMod p v || !isSqMod p (g O E (O.mul E.b (O.inv0 (O.mul v E.a)))))) "SSWU: Z is not the first admissible value (the constant depends on something else than the curve)"
  else
    let K := svdwConst O E Z
    let d := O.add (O.mul 3 (O.mul Z Z)) (O.mul 4 E.a)
    chk (K.c1 != 0) "SvdW: g(Z) = 0" ++
    chk (e.K.c0 == K.c1) "SvdW: c0 != g(Z)" ++
    chk (e.K.c1 == K.c2 && O.add (O.add e.K.c1 e.K.c1) Z == 0) "SvdW: c1 != -Z/2" ++
    chk (d != 0 && isSqMod p (O.mul (O.neg K.c1) d)) "SvdW: -g(Z)(3Z^2+4A) is zero or not a square" ++
    chk (O.mul e.K.c2 e.K.c2 == O.mul (O.neg K.c1) d && e.K.c2 % 2 == 0 && e.K.c2 == K.c3) "SvdW: c2 is not the even square root of -g(Z)(3Z^2+4A)" ++
    chk (O.add (O.mul e.K.c3 d) (O.mul 4 K.c1) == 0 && e.K.c3 == K.c4) "SvdW: c3 != -4g(Z)/(3Z^2+4A)" ++
    chk (isSqMod p K.c1 || isSqMod p (g O E K.c2)) "SvdW: neither g(Z) nor g(-Z/2) is a square (the exceptional inputs do not map to the curve)" ++
    chk (Z < 65536 && (List.range Z).all fun v =>
      v == 0 ||
      (let gv := g O E v
       let dv := O.add (O.mul 3 (O.mul v v)) (O.mul 4 E.a)
       let t := O.mul (O.neg gv) dv
       t == 0 || !isSqMod p t)) "SvdW: Z is not the first admissible value (the constant depends on something else than the curve)") ++
  (if e.ep.c.a % p == 0 && p % 3 == 1 then
    chk (O.add (O.mul e.K.c4 e.K.c4) 3 == 0) "SwiftEC: c4 is not a square root of -3" else []) ++
  chk (match e.ep.g with | some (_, y) => y % p != 0 | none => false) "try-and-increment: the generator does not witness a non-zero square value of g"

def fmtPoint := C03.fmtPoint

/-- the checks the property demands of every output, evaluated on the specification's own result:
    on the curve, killed by the group order, not the identity unless the construction yields it -/
def vet (e : Env) (P : Point) : String :=
  if !onCurve e.ep.c P then "<the construction does not yield a curve point>"
  else if mul e.ep.c P e.ep.n != none then "<the construction does not yield a point of the prime-order group>"
  else fmtPoint P

/-- clear_cofactor as documented in ep_mul_cof: h·P; BN: h = 1; BLS12/24/48 (EP_B12 = 5, EP_B24 = 12, EP_B48 = 13): (1 − x)·P -/
def clearCof (e : Env) (P : Point) : Point :=
  match e.ep.kv.lookup "pairf" with
  | some "5" | some "12" | some "13" => mul e.ep.c P (1 - e.par)
  | _ => mul e.ep.c P e.ep.h

/-- iso_map on a point of the isogenous curve; a vanishing denominator is the kernel: the identity -/
def specIso (e : Env) (xy : Nat × Nat) : Point :=
  match e.iso with
  | none => some xy
  | some I => match isoMap e.O I xy with
    | none => none
    | some q => some q

/-- map_to_curve of the specification for this curve; none = the value is not on the curve the map works on -/
def specMap (e : Env) (u : Nat) : Option Point :=
  let O := e.O
  let E := e.mapCurve
  let xy := if e.useSswu then sswu O E e.K.u u else svdw O E e.K.u u
  if O.mul xy.2 xy.2 != g O E xy.1 then none else
  let Q := specIso e xy
  if onCurve e.ep.c Q then some Q else none

def specFromTwo (e : Env) (u0 u1 : Nat) : String :=
  match specMap e u0, specMap e u1 with
  | some q0, some q1 => vet e (clearCof e (add e.ep.c q0 q1))
  | _, _ => "<map_to_curve is undefined for this input: the constants violate the preconditions of the map>"

/-- the C path: map, sign, isogeny, as values; "err" when fp_srt fails -/
def modelMap (e : Env) (t : Nat) : Option Point :=
  let O := cOps e.p
  let pre := if e.useSswu then sswuPre O e.K t else svdwPre O e.ep.c.a e.ep.c.b e.K t
  let y := O.sqrt pre.2
  if O.mul y y != pre.2 % e.p then none else
  let xy := applySign O t (pre.1, y)
  match e.iso with
  | none => some (some xy)
  | some I =>
    let (X, Y, Z) := isoC O I xy
    if Z == 0 then some none else
    let zi := O.inv0 Z
    some (some (O.mul X zi, O.mul Y zi))

def modelFromTwo (e : Env) (u0 u1 : Nat) : String :=
  match modelMap e u0, modelMap e u1 with
  | some q0, some q1 => fmtPoint (clearCof e (add e.ep.c q0 q1))
  | _, _ => "err"

/-- try-and-increment from x0: specification admits both ordinates, the model takes fp_srt's -/
def basicFrom (e : Env) (x0 : Nat) : String × List String :=
  let c := e.ep.c
  match tryIncrement c.p c.a c.b c.p (x0 % c.p) with
  | none => ("hang", ["<no abscissa with a non-zero square value exists>"])
  | some x =>
    let gx := g e.O { a := c.a, b := c.b } x
    let y := fpSrt c.p gx
    let P : Point := some (x, y)
    (fmtPoint (clearCof e P), [vet e (clearCof e P), vet e (clearCof e (neg c P))])

/-- SwiftEC from (u, t, s) -/
def swiftFrom (e : Env) (u t : Nat) (s : Bool) : String × String :=
  let c := e.ep.c
  let E : WCurve Nat := { a := c.a, b := c.b }
  if c.a % c.p != 0 then ("err", "err") else
  let spec := match swift e.O E e.K.c4 u t s with
    | none => "inf"
    | some xy => vet e (clearCof e (some xy))
  let O := cOps c.p
  let mdl := match swiftC O c.b e.K.c4 u t with
    | none => "inf"
    | some cand =>
      let pre := swiftSelPre O c.a c.b cand
      let y := O.sqrt pre.2
      if O.mul y y != pre.2 % c.p then "err" else
      fmtPoint (clearCof e (some (swiftSelC O c.a c.b cand s)))
  (mdl, spec)

def h256 := C14.h256

/-- the uniform bytes of an entry point: expand_message_xmd(msg, DST, n) -/
def xmd (msg dst : Bytes) (n : Nat) : Option Bytes := Mac.expandMessageXmd h256 msg dst n

def handle (e : Env) (cfgSize w : Nat) (op : String) (args : List String) (_got : String) : Option Verdict :=
  let p := e.p
  let L := e.L
  let swiftOk := !(e.ep.kv.lookup "super" == some "1") && p % 3 != 2
  let sswum := fun (ub : Bytes) =>
    let u0 := fieldElem p L ub 0
    let u1 := fieldElem p L ub 1
    let tags := [if e.useSswu then (if e.ctmap then "sswu+iso" else "sswu") else "svdw"] ++
      (if u0 == 0 || u1 == 0 then ["u=0"] else []) ++
      (if e.useSswu then
        (let ex := fun (u : Nat) => let z := e.O.mul e.K.u (e.O.mul u u); e.O.add (e.O.mul z z) z == 0
         if ex u0 || ex u1 then ["sswu-exceptional"] else [])
       else
        (let ex := fun (u : Nat) => let z := e.O.mul (e.O.mul u u) e.K.c0; e.O.mul (e.O.sub 1 z) (e.O.add 1 z) == 0
         if ex u0 || ex u1 then ["svdw-exceptional"] else [])) ++
      (if u0 == u1 then ["u0=u1"] else []) ++ (if u0 != 0 && (u0 + u1) % p == 0 then ["u0=-u1"] else [])
    ({ model := modelFromTwo e u0 u1, spec := [specFromTwo e u0 u1], tags := tags } : Verdict)
  let basic := fun (ub : Bytes) =>
    let (m, s) := basicFrom e (os2ip ub)
    ({ model := m, spec := s, tags := ["basic"] } : Verdict)
  let swiftB := fun (ub : Bytes) (half : Nat) =>
    if !swiftOk then ({ model := "err", spec := ["err"], tags := ["swift-unsupported"] } : Verdict) else
    let u := os2ip (ub.take half) % p
    let t := os2ip ((ub.drop half).take half) % p
    let s := (ub.getLast?.getD 0).toNat % 2 == 1
    let (m, sp) := swiftFrom e u t s
    ({ model := m, spec := [sp], tags := ["swift"] ++ (if sp == "inf" then ["swift-exceptional"] else []) } : Verdict)
  match op, args with
  | "ep_map", [v, m] => do
    let msg ← parseBytes m
    let v := if v == "map" then e.alg else v
    let dst0 := e.dst ++ [0]    -- sizeof(RLC_DSTAG): the tag with its terminating NUL
    if v == "sswum" then
      let ub ← xmd msg dst0 (2 * L)
      some (sswum ub)
    else if v == "basic" then
      let ub ← xmd msg e.dst L
      some (basic ub)
    else if v == "swift" then
      let ub ← xmd msg dst0 (2 * L + 1)
      some (swiftB ub L)
    else none
  | "ep_map_rnd", [b] => do
    let ub ← parseBytes b
    if ub.length < e.rndsize then some { model := "err", spec := ["err"], tags := ["rnd-short"] } else
    if e.alg == "sswum" then some (sswum ub)
    else if e.alg == "basic" then
      -- every byte presented is read into one integer (bn_read_bin) and reduced (bn_mod needs one spare digit): it has to fit
      -- the library's integers; beyond that an error is reported (the specification admits the error or the value)
      if ub.length > (cfgSize - 1) * w / 8 then some { model := "err", spec := ["err"] ++ (basic ub).spec, tags := ["rnd-long"] }
      else some (basic ub)
    else if e.alg == "swift" then
      if ub.length / 2 > (cfgSize - 1) * w / 8 then some { model := "err", spec := ["err"] ++ (swiftB ub (ub.length / 2)).spec, tags := ["rnd-long"] }
      else some (swiftB ub (ub.length / 2))
    else none
  | _, _ => none


/-! ### binary curves: eb_map -/

namespace Eb
open Relic.Spec.H2CBin

structure Env where
  E : BCurve
  g : BPoint
  n : Nat
  h : Nat
  mdlen : Nat
  fbbytes : Nat

def parseEnv (got : String) : Option Env := do
  let kv := (got.splitOn " ").filterMap fun t => match t.splitOn "=" with
    | [k, v] => some (k, v)
    | _ => none
  let hx := fun (k : String) => (kv.lookup k).bind parseHexNat
  let dc := fun (k : String) => (kv.lookup k).bind String.toNat?
  some { E := { m := ← dc "m", f := ← hx "f", a := ← hx "a", b := ← hx "b" }, g := some (← hx "gx", ← hx "gy"),
         n := ← hx "n", h := ← hx "h", mdlen := ← dc "mdlen", fbbytes := ← dc "fbbytes" }

def checkParam (e : Env) : List String :=
  let chk := fun (b : Bool) (s : String) => if b then [] else [s]
  chk (e.E.f != 0 && deg e.E.f == e.E.m) "the reduction polynomial does not have degree m" ++
  chk (e.E.m % 2 == 1) "m is even (the half-trace does not solve the quadratic)" ++
  chk (e.E.b != 0) "b = 0 (singular curve)" ++
  chk (onCurve e.E e.g && e.g != none) "generator not on the curve" ++
  chk (mulNat e.E e.g e.n == none) "n*G != O" ++
  chk (e.fbbytes == (e.E.m + 7) / 8) "field byte length differs from ceil(m/8)"

def fmtPoint : BPoint → String
  | none => "inf"
  | some (x, y) => natToHex x ++ "," ++ natToHex y

def vet (e : Env) (P : BPoint) : String :=
  if !onCurve e.E P then "<the construction does not yield a curve point>"
  else if mulNat e.E P e.n != none then "<the construction does not yield a point of the prime-order group>"
  else fmtPoint P

def handle (e : Env) (op : String) (args : List String) : Option Verdict :=
  match op, args with
  | "eb_map", [m] => do
    let msg ← parseBytes m
    let digest := Sha256.sha256 msg
    let x0 := H2CBin.os2ip (digest.take (min e.fbbytes e.mdlen)) % 2 ^ e.E.m
    match tryIncrement e.E 4096 x0 with
    | none => some { model := "hang", spec := ["<no abscissa found within 4096 increments>"] }
    | some x =>
      let f := e.E.f
      let c := quot e.E x
      let z := halfTrace f e.E.m c
      let ok := (fsqr f z ^^^ z) == c
      let P : BPoint := some (x, fmul f z x)
      let Q := mulNat e.E P e.h
      -- the other root gives the opposite point: h·(−P) = −(h·P), and n·(−Q) = −(n·Q)
      let v := vet e Q
      some { model := if ok then fmtPoint Q else "<half-trace is not a solution>",
             spec := [v, if v == fmtPoint Q then fmtPoint (neg e.E Q) else v],
             tags := ["eb_map", "inc=" ++ toString ((x + 2 ^ e.E.m - x0) % 2 ^ e.E.m)] }
  | _, _ => none

end Eb


/-! ### Edwards curves: ed_map, ed_map_dst -/

namespace Ed
open Relic.Spec.H2CEd

structure Env where
  E : EdCurve
  g : Nat × Nat
  n : Nat
  h : Nat
  level : Nat
  fpbits : Nat
  c : List Nat      -- ctx->ed_map_c[0..3]: 2^((p+3)/8), sqrt(-1), sqrt(-(J+2)), J

def parseEnv (got : String) : Option Env := do
  let kv := (got.splitOn " ").filterMap fun t => match t.splitOn "=" with
    | [k, v] => some (k, v)
    | _ => none
  let hx := fun (k : String) => (kv.lookup k).bind parseHexNat
  let dc := fun (k : String) => (kv.lookup k).bind String.toNat?
  some { E := { p := ← hx "p", a := ← hx "a", d := ← hx "d" }, g := (← hx "gx", ← hx "gy"), n := ← hx "n", h := ← hx "h",
         level := ← dc "level", fpbits := ← dc "fpbits", c := [← hx "c0", ← hx "c1", ← hx "c2", ← hx "c3"] }

def Env.J (e : Env) : Nat := e.c.getD 3 0
def Env.cM (e : Env) : Nat := e.c.getD 2 0
/-- Z = 2: the non-square RFC 9380 prescribes for p ≡ 5 (mod 8) -/
def Z : Nat := 2

def checkParam (e : Env) : List String :=
  let p := e.E.p
  let O := natMapOps p
  let chk := fun (b : Bool) (s : String) => if b then [] else [s]
  chk (p % 8 == 5) "p is not 5 mod 8" ++
  chk (e.fpbits == Nat.log2 p + 1) "the configured field size differs from the bit length of p" ++
  chk (!isSqMod p Z) "Z = 2 is a square" ++
  chk (isSqMod p e.E.a && !isSqMod p e.E.d) "a is not a square or d is a square (the addition law is not complete)" ++
  chk (O.add (O.mul e.E.d (O.add e.J 2)) (O.mul (O.neg e.E.a) (O.sub e.J 2)) == 0 && O.add e.E.a 1 == 0)
    "the Edwards coefficients are not a = -1, d = -(J-2)/(J+2) of the Montgomery coefficient J" ++
  chk (O.add (O.mul e.cM e.cM) (O.add e.J 2) == 0 && e.cM % 2 == 0) "c2 is not the even square root of -(J+2)" ++
  chk (O.add (O.mul (e.c.getD 1 0) (e.c.getD 1 0)) 1 == 0) "c1 is not a square root of -1" ++
  chk (e.c.getD 0 0 == powMod 2 ((p + 3) / 8) p) "c0 is not 2^((p+3)/8)" ++
  chk (edOn e.E e.g) "generator not on the curve" ++
  chk (edMul e.E e.g e.n == (0, 1) && e.g != (0, 1)) "n*G != O"

def fmtPt (P : Nat × Nat) : String := natToHex P.1 ++ "," ++ natToHex P.2

def specPoint (e : Env) (u0 u1 : Nat) : String :=
  let O := natMapOps e.E.p
  let m := fun (u : Nat) => montToEd O e.cM (elligator2 O e.J Z u)
  let q0 := m u0
  let q1 := m u1
  if !(edOn e.E q0 && edOn e.E q1) then "<map_to_curve does not yield a curve point>" else
  let P := edMul e.E (edAdd e.E q0 q1) e.h
  if !edOn e.E P then "<the construction does not yield a curve point>"
  else if edMul e.E P e.n != (0, 1) then "<the construction does not yield a point of the prime-order group>"
  else fmtPt P

def handle (e : Env) (op : String) (args : List String) (got : String) : Option Verdict :=
  let run := fun (msg dst : Bytes) =>
    let L := fieldLen e.E.p e.level
    match xmd msg dst (2 * L) with
    | none => ({ model := got, spec := ["err"], tags := ["xmd-abort"] } : Verdict)
    | some ub =>
      let u0 := fieldElem e.E.p L ub 0
      let u1 := fieldElem e.E.p L ub 1
      { model := got, spec := [specPoint e u0 u1], tags := ["ell2", "dst" ++ toString dst.length] }
  match op, args with
  | "ed_map", [m] => do
    let msg ← parseBytes m
    some (run msg "RELIC".toUTF8.toList)
  | "ed_ell2", [u] => do
    let u ← parseHexNat u
    let O := natMapOps e.E.p
    let st := elligator2 O e.J Z (u % e.E.p)
    let q := montToEd O e.cM st
    let exc := st.2 == 0 || O.add st.1 1 == 0
    some { model := got, spec := [if edOn e.E q then fmtPt q else "<map_to_curve does not yield a curve point>"],
           tags := ["ed_ell2"] ++ (if exc then ["ell2-exceptional"] else []) ++ (if u % e.E.p == 0 then ["u=0"] else []) }
  | "ed_map_dst", [m, d] => do
    let msg ← parseBytes m
    let dst ← parseBytes d
    some (run msg dst)
  | _, _ => none

end Ed


/-! ### curves over the quadratic extension: ep2_map, ep2_map_sswum, ep2_map_basic -/

namespace Ext
open Relic.Spec.H2CExt

structure Env where
  c : Curve2
  g : Point2
  n : Nat
  h : Nat
  par : Int
  pairf : Nat
  level : Nat
  fpbits : Nat
  ctmap : Bool
  alg : String
  Z : Fp2
  cs : List Fp2      -- ctx->ep2_map_c[0..3]
  frb : Fp2 × Fp2
  iso : Option (Iso Fp2)
  isoa : Fp2
  isob : Fp2

def parseFp2 (s : String) : Option Fp2 :=
  match s.splitOn ":" with
  | [a, b] => do some (← parseHexNat a, ← parseHexNat b)
  | _ => none

def parseList2 (s : String) : Option (List Fp2) := (s.splitOn ",").mapM parseFp2

def parseEnv (got : String) : Option Env := do
  let kv := (got.splitOn " ").filterMap fun t => match t.splitOn "=" with
    | [k, v] => some (k, v)
    | _ => none
  let hx := fun (k : String) => (kv.lookup k).bind parseHexNat
  let dc := fun (k : String) => (kv.lookup k).bind String.toNat?
  let f2 := fun (k : String) => (kv.lookup k).bind parseFp2
  let q : Int ← (kv.lookup "qnr").bind String.toInt?
  let ctmap := kv.lookup "ctmap" == some "1"
  let iso : Option (Iso Fp2) :=
    if ctmap then do
      some { xn := ← (kv.lookup "xn").bind parseList2, xd := ← (kv.lookup "xd").bind parseList2,
             yn := ← (kv.lookup "yn").bind parseList2, yd := ← (kv.lookup "yd").bind parseList2 }
    else none
  some { c := { p := ← hx "p", q := q, a := ← f2 "a", b := ← f2 "b" }, g := some (← f2 "gx", ← f2 "gy"),
         n := ← hx "n", h := ← hx "h", par := ← (kv.lookup "par").bind parseHexInt, pairf := ← dc "pairf", level := ← dc "level",
         fpbits := ← dc "fpbits", ctmap := ctmap, alg := ← kv.lookup "mapalg", Z := ← f2 "mapu",
         cs := [← f2 "c0", ← f2 "c1", ← f2 "c2", ← f2 "c3"], frb := (← f2 "frb0", ← f2 "frb1"), iso := iso,
         isoa := (f2 "isoa").getD (0, 0), isob := (f2 "isob").getD (0, 0) }

def Env.O (e : Env) : MapOps Fp2 := e.c.O
def Env.mapCurve (e : Env) : WCurve Fp2 := if e.ctmap then { a := e.isoa, b := e.isob } else { a := e.c.a, b := e.c.b }
def Env.useSswu (e : Env) : Bool := e.ctmap || (!e.O.isZero e.c.a && !e.O.isZero e.c.b)
def Env.cc (e : Env) (i : Nat) : Fp2 := e.cs.getD i (0, 0)

def checkParam (e : Env) : List String :=
  let p := e.c.p
  let O := e.O
  let E := e.mapCurve
  let Z := e.Z
  let chk := fun (b : Bool) (s : String) => if b then [] else [s]
  chk (p % 2 == 1 && !isSqMod p (qn p e.c.q)) "the constant q of Fp2 = Fp[u]/(u^2 - q) is a square" ++
  chk (e.fpbits == Nat.log2 p + 1) "the configured field size differs from the bit length of p" ++
  chk (onCurve e.c e.g && e.g != none) "generator not on the curve" ++
  chk (mulNat e.c e.g e.n == none) "n*G != O" ++
  chk (psi e.c e.frb.1 e.frb.2 e.g == mulNat e.c e.g (p % e.n)) "psi(G) != [p]G: the twist constants do not define the Frobenius endomorphism" ++
  (if e.useSswu then
    chk (!O.isSq Z) "SSWU: Z is a square" ++
    chk (!O.isZero E.a && !O.isZero E.b) "SSWU: a*b = 0 on the curve the map works on" ++
    chk (O.isZero (O.add (O.mul (e.cc 0) E.a) E.b)) "SSWU: c0 != -b/a" ++
    chk (e.cc 2 == E.a && e.cc 3 == E.b) "SSWU: c2, c3 are not the coefficients of the curve the map works on" ++
    chk (O.isSq (g O E (O.mul E.b (O.inv0 (O.mul Z E.a))))) "SSWU: g(B/(Z*A)) is not a square (the exceptional inputs do not map to the curve)"
  else
    let K := svdwConst O E Z
    let d := O.add (O.mul (O.ofNat 3) (O.mul Z Z)) (O.mul (O.ofNat 4) E.a)
    chk (!O.isZero K.c1) "SvdW: g(Z) = 0" ++
    chk (e.cc 0 == K.c1) "SvdW: c0 != g(Z)" ++
    chk (e.cc 1 == K.c2 && O.isZero (O.add (O.add (e.cc 1) (e.cc 1)) Z)) "SvdW: c1 != -Z/2" ++
    chk (!O.isZero d && O.isSq (O.mul (O.neg K.c1) d)) "SvdW: -g(Z)(3Z^2+4A) is zero or not a square" ++
    chk (O.mul (e.cc 2) (e.cc 2) == O.mul (O.neg K.c1) d && !O.sgn0 (e.cc 2) && e.cc 2 == K.c3) "SvdW: c2 is not the square root of -g(Z)(3Z^2+4A) with sgn0 = 0" ++
    chk (O.isZero (O.add (O.mul (e.cc 3) d) (O.mul (O.ofNat 4) K.c1)) && e.cc 3 == K.c4) "SvdW: c3 != -4g(Z)/(3Z^2+4A)" ++
    chk (O.isSq K.c1 || O.isSq (g O E K.c2)) "SvdW: neither g(Z) nor g(-Z/2) is a square (the exceptional inputs do not map to the curve)")

def fmtFp2 (a : Fp2) : String := natToHex a.1 ++ ":" ++ natToHex a.2
def fmtPoint : Point2 → String
  | none => "inf"
  | some (x, y) => fmtFp2 x ++ "," ++ fmtFp2 y

def vet (e : Env) (P : Point2) : String :=
  if !onCurve e.c P then "<the construction does not yield a curve point>"
  else if mulNat e.c P e.n != none then "<the construction does not yield a point of the prime-order group>"
  else fmtPoint P

def clearCof (e : Env) (P : Point2) : Point2 :=
  if e.pairf == 3 then clearBN e.c e.frb.1 e.frb.2 e.par P
  else if e.pairf == 5 then clearB12 e.c e.frb.1 e.frb.2 e.par P
  else mulNat e.c P e.h

def specMap (e : Env) (u : Fp2) : Option Point2 :=
  let O := e.O
  let E := e.mapCurve
  let xy := if e.useSswu then sswu O E e.Z u else svdw O E e.Z u
  if O.mul xy.2 xy.2 != g O E xy.1 then none else
  let Q : Point2 := match e.iso with
    | none => some xy
    | some I => match isoMap O I xy with
      | none => none
      | some q => some q
  if onCurve e.c Q then some Q else none

def handle (e : Env) (op : String) (args : List String) (got : String) : Option Verdict :=
  let p := e.c.p
  let L := fieldLen p e.level
  match op, args with
  | "ep2_map", [v, m] => do
    let msg ← parseBytes m
    let v := if v == "map" then e.alg else v
    if v == "sswum" then
      let ub ← xmd msg "RELIC".toUTF8.toList (4 * L)
      let fe := fun (i : Nat) => fieldElem p L ub i
      let t0 : Fp2 := (fe 0, fe 1)
      let t1 : Fp2 := (fe 2, fe 3)
      let spec := match specMap e t0, specMap e t1 with
        | some q0, some q1 => vet e (clearCof e (add e.c q0 q1))
        | _, _ => "<map_to_curve is undefined for this input: the constants violate the preconditions of the map>"
      some { model := got, spec := [spec], tags := [if e.useSswu then (if e.ctmap then "ep2-sswu+iso" else "ep2-sswu") else "ep2-svdw"] }
    else if v == "basic" then
      -- hash and increment on the real part of x; both ordinates admitted
      let digest := Sha256.sha256 msg
      let x0 := os2ip (digest.take (min ((e.fpbits + 7) / 8) 32)) % p
      let O := e.O
      let E : WCurve Fp2 := { a := e.c.a, b := e.c.b }
      let rec find (fuel x : Nat) : Option Nat :=
        match fuel with
        | 0 => none
        | k + 1 => if O.isSq (g O E (x, 0)) then some x else find k ((x + 1) % p)
      match find 4096 x0 with
      | none => some { model := got, spec := ["<no abscissa found within 4096 increments>"] }
      | some x =>
        let y := O.sqrt (g O E (x, 0))
        let P : Point2 := some ((x, 0), y)
        let Q := clearCof e P
        let v1 := vet e Q
        some { model := got, spec := [v1, if v1 == fmtPoint Q then fmtPoint (neg e.c Q) else v1], tags := ["ep2-basic"] }
    else none
  | _, _ => none

end Ext

end Driver.C13
