/- C19 handlers: generated try/throw/catch/finally programs. -/
import Driver.Util
import RelicVerif.Model.Err

namespace Driver.C19
open Relic.Model.Err Driver

/-- grammar: item* ; item := a<n>; | t<n>; | g; | [ prog | prog | prog ](v|n) -/
partial def parseNum (cs : List Char) (acc : Nat) : Nat × List Char :=
  match cs with
  | c :: rest => if c.isDigit then parseNum rest (acc * 10 + (c.toNat - 48)) else (acc, cs)
  | [] => (acc, [])

def seqOf : List Prog → Prog
  | [] => .skip
  | [p] => p
  | p :: ps => .seq p (seqOf ps)

mutual
partial def parseItems (cs : List Char) (acc : List Prog) : Option (Prog × List Char) :=
  match cs with
  | [] => some (seqOf acc.reverse, [])
  | '|' :: _ => some (seqOf acc.reverse, cs)
  | ']' :: _ => some (seqOf acc.reverse, cs)
  | _ => do
    let (p, rest) ← parseItem cs
    parseItems rest (p :: acc)

partial def parseItem (cs : List Char) : Option (Prog × List Char) :=
  match cs with
  | 'a' :: rest => let (n, r) := parseNum rest 0; match r with
    | ';' :: r' => some (.act n, r')
    | _ => none
  | 't' :: rest => let (n, r) := parseNum rest 0; match r with
    | ';' :: r' => some (.throw n, r')
    | _ => none
  | 'g' :: ';' :: rest => some (.getcode, rest)
  | '[' :: rest => do
    let (b, r1) ← parseItems rest []
    match r1 with
    | '|' :: r1 => do
      let (h, r2) ← parseItems r1 []
      match r2 with
      | '|' :: r2 => do
        let (f, r3) ← parseItems r2 []
        match r3 with
        | ']' :: 'v' :: r4 => some (.tryc b h f true, r4)
        | ']' :: 'n' :: r4 => some (.tryc b h f false, r4)
        | _ => none
      | _ => none
    | _ => none
  | _ => none
end

def parseProg (s : String) : Option Prog :=
  match parseItems s.toList [] with
  | some (p, []) => some p
  | _ => none

def fmtEv : Ev → String
  | .act n => "a" ++ toString n
  | .code c => "c" ++ toString c
  | .caught e => "e" ++ toString e

def fmtRun (r : List Ev × Nat × Bool) : String :=
  (if r.1.isEmpty then "-" else String.intercalate "," (r.1.map fmtEv)) ++ " code=" ++ toString r.2.1 ++
    " chain=" ++ (if r.2.2 then "0" else "1")

/-- `latch` tells which version of RLC_ERR_CATCH the model mirrors (read from the source by check.py) -/
def handle (latch : Bool) (op : String) (args : List String) : Option Verdict :=
  match op, args with
  | "prog", [_, src] => do
    let p ← parseProg src
    some { model := fmtRun (mRun latch p), spec := [fmtRun (sRun p)],
           tags := (if finallyFree p then [] else ["try-in-finally"]) }
  | _, _ => none

end Driver.C19
