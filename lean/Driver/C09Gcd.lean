/- C09 extension (Gcd family): bn_gcd_basic / binar / dig, bn_gcd_ext_basic / binar / dig, bn_lcm, bn_mod_inv, bn_mod_inv_sim.
   The model column is the prediction of Model/NtGcd.lean (incl. the exact cofactors the C code returns); the spec column is the
   mathematical definition (Int.gcd, Bezout identity, Int.lcm, a·x ≡ 1). -/
import Driver.C02
import RelicVerif.Model.NtGcd
import RelicVerif.Model.NtLehmer
import RelicVerif.Model.NtGcdMid

namespace Driver.C09Gcd
open Driver Relic.Model

def pI (w : Nat) (s : String) : Option Int := (parseBn w s).map (Bn.toInt (2 ^ w))

def outInt (s : String) : Option Int :=
  match s.splitOn ":u" with
  | [v, _] => parseHexInt v
  | _ => none

def fmt3 (w : Nat) (r : Int × Int × Int) : String :=
  fmtIntNF w r.1 ++ " " ++ fmtIntNF w r.2.1 ++ " " ++ fmtIntNF w r.2.2

/-- which branches of Lehmer's outer loop a line exercises (first iterations) -/
def lehmeTags (w : Nat) (a b : Int) : List String :=
  if a = 0 ∨ b = 0 then [] else
  let x : Int := if a.natAbs ≥ b.natAbs then a.natAbs else b.natAbs
  let y : Int := if a.natAbs ≥ b.natAbs then b.natAbs else a.natAbs
  let rec go (fuel : Nat) (x y : Int) (acc : List String) : List String :=
    match fuel with
    | 0 => acc
    | f + 1 =>
      if NtLehmer.multiDigit w y then
        match NtLehmer.lehmeStep w x y with
        | none => "lehme:overflow" :: acc
        | some r => go f r.x r.y ((if r.euclid then "lehme:euclid-fallback" else "lehme:matrix-step") :: acc)
      else acc
  let ts := go 64 x y []
  (if ts.isEmpty then ["lehme:single-digit-only"] else ts.eraseDups)

def handle (w _cap digs : Nat) (op : String) (args : List String) (got : String) : Option Verdict :=
  let fmt := fun (v : Int) => fmtIntNF w v
  let tooLong : Bool := args.any fun t => match parseBn w t with
    | some b => b.used > digs
    | none => false
  let mk := fun (m : String) (sp : List String) (tags : List String) =>
    some ({ model := if tooLong && got == "err" then "err" else m,
            spec := if tooLong then sp ++ ["err"] else sp, tags := tags } : Verdict)
  let cls := fun (a b : Int) => (if a = 0 then ["a=0"] else if a < 0 then ["a<0"] else []) ++
    (if b = 0 then ["b=0"] else if b < 0 then ["b<0"] else []) ++
    (if a ≠ 0 ∧ a % 2 = 0 ∧ b ≠ 0 ∧ b % 2 = 0 then ["both-even"] else []) ++
    (if a.natAbs = b.natAbs then ["|a|=|b|"] else if a.natAbs < b.natAbs then ["|a|<|b|"] else [])
  match op, args with
  | "nt_gcd", [v, a, b] => do
    let a ← pI w a
    let b0 ← pI w b
    let tg := fun (s : String) => (cls a b0).map (fun t => "gcd-" ++ s ++ ":" ++ t)
    match v with
    | "basic" | "gcd" => mk (fmt (NtGcd.gcdBasic a b0)) [fmt (Int.gcd a b0)] (tg "basic")
    | "binar" => mk (fmt (NtGcd.gcdBinar a b0)) [fmt (Int.gcd a b0)] (tg "binar")
    | "lehme" => mk (match NtLehmer.gcdLehme w a b0 with
        | some r => fmt r
        | none => "model-overflow-or-fuel") [fmt (Int.gcd a b0)] (tg "lehme" ++ lehmeTags w a b0)
    | "dig" =>
      let b : Nat := b0.natAbs % 2 ^ w
      mk (fmt (NtGcd.gcdDig a b)) [fmt (Int.gcd a b)] (tg "dig")
    | "lcm" =>
      let m := match NtGcd.lcm a b0 with
        | some r => fmt r
        | none => "err"
      -- lcm(0, 0): the quotient by gcd = 0 is refused
      mk m (if a = 0 ∧ b0 = 0 then ["err", "0:u1"] else [fmt (Int.lcm a b0)]) (tg "lcm")
    | _ => none
  | "nt_gcd_ext", [v, a, b] => do
    let a ← pI w a
    let b0 ← pI w b
    let b : Int := if v == "dig" then ((b0.natAbs % 2 ^ w : Nat) : Int) else b0
    let tg := fun (s : String) => (cls a b).map (fun t => "ext-" ++ s ++ ":" ++ t)
    -- specification: c = gcd(a,b) ≥ 0 and c = d·a + e·b
    let ok : Bool := match (got.splitOn " ").map outInt with
      | [some c, some d, some e] => c == Int.gcd a b && c == d * a + e * b
      | _ => false
    let sp := if ok then [got] else ["gcd=" ++ fmt (Int.gcd a b) ++ " with cofactors satisfying c = d*a + e*b"]
    match v with
    | "basic" | "ext" => mk (fmt3 w (NtGcd.gcdExtBasic a b)) sp (tg "basic")
    | "dig" => mk (fmt3 w (NtGcd.gcdExtDig a b.natAbs)) sp (tg "dig")
    | "lehme" => mk (match NtLehmer.gcdExtLehme w a b with
        | some r => fmt3 w r
        | none => "model-overflow-or-fuel") sp (tg "lehme" ++ lehmeTags w a b)
    | "mid" =>
      -- specification (lattice membership): with (u0, v0) = (larger, smaller magnitude), c + d·v0 ≡ 0 and e + f·v0 ≡ 0 (mod u0); for a = 0 / b = 0 the coded constants
      let u0 : Int := if a.natAbs > b.natAbs then a.natAbs else b.natAbs
      let v0 : Int := if a.natAbs > b.natAbs then b.natAbs else a.natAbs
      let okm : Bool := match (got.splitOn " ").map outInt with
        | [some c, some d, some e, some f] =>
          if a = 0 ∨ b = 0 then true else (c + d * v0) % u0 == 0 && (e + f * v0) % u0 == 0
        | _ => false
      let m := match NtGcdMid.gcdExtMid 0 0 0 0 a b with
        | some (c, d, e, f) => fmt c ++ " " ++ fmt d ++ " " ++ fmt e ++ " " ++ fmt f
        | none => "err"
      mk m (if okm then [got] else ["two vectors (c, d), (e, f) of the lattice {(x, y) : x + y·v0 ≡ 0 mod u0}"]) (tg "mid")
    | "binar" =>
      let fixed : Bool := match NtGcd.gcdExtBinarImp a b with
        | some _ => false
        | none => true
      mk (match NtGcd.gcdExtBinar a b with
        | some r => fmt3 w r
        | none => "model-fuel-exhausted") sp (tg "binar" ++ (if fixed then ["ext-binar:fuel"] else []))
    | _ => none
  | "nt_inv", [a, m] => do
    let a ← pI w a
    let m ← pI w m
    if m ≤ 1 then none else
    let r := NtGcd.modInv a m
    let sp : List String := match r with
      | some x => if 0 ≤ x ∧ x < m ∧ (a * x) % m = 1 then [fmt x] else ["the inverse of a modulo m in [0, m)"]
      | none => if Int.gcd a m = 1 then ["the inverse of a modulo m in [0, m)"] else ["err"]
    mk (match r with
      | some x => fmt x
      | none => "err") sp ((cls a m).map ("inv:" ++ ·) ++ (if r.isNone then ["inv:not-coprime"] else []))
  | "nt_inv_sim", m :: as => do
    let m ← pI w m
    let as ← as.mapM (pI w)
    if m ≤ 1 ∨ as.isEmpty then none else
    let r := NtGcd.modInvSim as m
    let good : Bool := as.all fun a => Int.gcd a m == 1
    -- specification: the i-th output is THE x in [0, m) with a_i·x ≡ 1 (mod m) (unique), decided on the implementation's output
    let ok : Bool := match (got.splitOn " ").mapM outInt with
      | some xs => xs.length == as.length && (xs.zip as).all fun (x, a) => 0 ≤ x && x < m && (a * x) % m == 1
      | none => false
    let sp : List String := if good then (if ok then [got] else ["the inverses of the a_i modulo m, each in [0, m)"]) else ["err"]
    mk (match r with
      | some xs => String.intercalate " " (xs.map fmt)
      | none => "err") sp (["inv-sim:n=" ++ toString as.length] ++ (if good then [] else ["inv-sim:not-coprime"]))
  | _, _ => none

end Driver.C09Gcd
