/- C09 extension (Gcd family): driver cases whose model column is the Lean model's prediction. -/
import Driver.C02

namespace Driver.C09Gcd
open Driver

def handle (w cap digs : Nat) (op : String) (args : List String) (got : String) : Option Verdict :=
  let _ := (w, cap, digs, op, args, got)
  none

end Driver.C09Gcd
