/- C01 handlers: bn_* layer. For each operation line the handler returns what the hand-written model
   says the implementation prints, and the set of outputs the specification (Int arithmetic) accepts. -/
import Driver.Util
import RelicVerif.Model.BnBit

namespace Driver.C01
open Relic.Model Driver

structure Env where
  cfg : Cfg
  digs : Nat      -- RLC_BN_DIGS: the configured precision in digits

def Env.w (e : Env) := e.cfg.w

/-- outputs accepted by the specification for an exact integer result `v` computed from operands with
    `maxIn` digits: the normal form of v if it fits the capacity; "err" if it does not fit; and, when an
    operand is longer than the configured precision, "err" as well (the library may refuse). -/
def specInt (e : Env) (maxIn : Nat) (v : Int) : List String :=
  let nd := (toDigits e.w v.natAbs).length
  (if nd ≤ e.cfg.cap then [fmtIntNF e.w v] else ["err"]) ++ (if maxIn > e.digs then ["err"] else [])

def aliasArgs (e : Env) (args : List String) : Option (Bn × Bn) :=
  match args with
  | [al, a, b] => do
    let a ← parseBn e.w a
    let b ← parseBn e.w b
    if al == "3" || al == "4" then some (a, a) else some (a, b)
  | _ => none

def bin (e : Env) (args : List String) (model : Cfg → Bn → Bn → Option Bn) (spec : Int → Int → Int) :
    Option Verdict := do
  let (a, b) ← aliasArgs e args
  let B := e.cfg.B
  some { model := fmtBnOpt e.w (model e.cfg a b),
         spec := specInt e (max a.used b.used) (spec (a.toInt B) (b.toInt B)) }

def un (e : Env) (args : List String) (model : Cfg → Bn → Option Bn) (spec : Int → Int) : Option Verdict :=
  match args with
  | [_, a] => do
    let a ← parseBn e.w a
    some { model := fmtBnOpt e.w (model e.cfg a), spec := specInt e a.used (spec (a.toInt e.cfg.B)) }
  | _ => none

def dig (e : Env) (args : List String) (model : Cfg → Bn → Nat → Option Bn) (spec : Int → Int → Int) :
    Option Verdict :=
  match args with
  | [_, a, d] => do
    let a ← parseBn e.w a
    let d ← parseHexNat d
    some { model := fmtBnOpt e.w (model e.cfg a d), spec := specInt e a.used (spec (a.toInt e.cfg.B) d) }
  | _ => none

def shift (e : Env) (args : List String) (model : Cfg → Bn → Nat → Option Bn) (spec : Int → Nat → Int) :
    Option Verdict :=
  match args with
  | [_, a, k] => do
    let a ← parseBn e.w a
    let k ← k.toNat?
    some { model := fmtBnOpt e.w (model e.cfg a k), spec := specInt e a.used (spec (a.toInt e.cfg.B) k) }
  | _ => none

def divTags (tr : DivTrace) : List String :=
  (if tr.addback > 0 then ["div.addback"] else []) ++ (if tr.qhatFix > 0 then ["div.qhatfix"] else []) ++
  (if tr.topLoop > 0 then ["div.toploop"] else []) ++ (if tr.qmax > 0 then ["div.qmax"] else [])

def lowBin (e : Env) (args : List String) : Option Verdict :=
  match args with
  | [op, _, n, a, b] => do
    let n ← n.toNat?
    let a ← parseHexNat a
    let b ← parseHexNat b
    let B := e.cfg.B
    let da := toDigitsN e.w a n
    let db := toDigitsN e.w b n
    let va := fromDigits e.w da
    let vb := fromDigits e.w db
    match op with
    | "addn" =>
      let (c, cy) := addnLow B da db 0
      let s := va + vb
      some { model := fmtRaw e.w c ++ " " ++ natToHex cy,
             spec := [fmtRaw e.w (toDigitsN e.w s n) ++ " " ++ natToHex (s / B ^ n)] }
    | "subn" =>
      let (c, cy) := subnLow B da db 0
      let s := if va ≥ vb then va - vb else B ^ n + va - vb
      some { model := fmtRaw e.w c ++ " " ++ natToHex cy,
             spec := [fmtRaw e.w (toDigitsN e.w s n) ++ " " ++ (if va ≥ vb then "0" else "1")] }
    | "muln" =>
      let c := mulnLow B da db n
      some { model := fmtRaw e.w c ++ " 0", spec := [fmtRaw e.w (toDigitsN e.w (va * vb) (2 * n)) ++ " 0"] }
    | _ => none
  | _ => none

def low1 (e : Env) (args : List String) : Option Verdict :=
  match args with
  | [op, _, n, a, d] => do
    let n ← n.toNat?
    let a ← parseHexNat a
    let d ← parseHexNat d
    let B := e.cfg.B
    let w := e.w
    let da := toDigitsN w a n
    let va := fromDigits w da
    let out := fun (c : List Nat) (cy : Nat) => fmtRaw w c ++ " " ++ natToHex cy
    match op with
    | "add1" =>
      let (c, cy) := add1Low B da d
      let s := va + d
      some { model := out c cy, spec := [out (toDigitsN w s n) (s / B ^ n)] }
    | "sub1" =>
      let (c, cy) := sub1Low B da d
      let s := if va ≥ d then va - d else B ^ n + va - d
      some { model := out c cy, spec := [out (toDigitsN w s n) (if va ≥ d then 0 else 1)] }
    | "mul1" =>
      let (c, cy) := mul1Low B da d 0
      let s := va * d
      some { model := out c cy, spec := [out (toDigitsN w s n) (s / B ^ n)] }
    | "lsh1" =>
      let (c, cy) := lsh1Low w da 0
      let s := va * 2
      some { model := out c cy, spec := [out (toDigitsN w s n) (s / B ^ n)] }
    | "lshb" =>
      let (c, cy) := lshbLow w d da 0
      let s := va * 2 ^ d
      some { model := out c cy, spec := [out (toDigitsN w s n) (s / B ^ n)] }
    | "rsh1" =>
      let (c, cy) := rsh1Low w da
      some { model := out c cy, spec := [out (toDigitsN w (va / 2) n) (va % 2)] }
    | "rshb" =>
      let (c, cy) := rshbLow w d da
      some { model := out c cy, spec := [out (toDigitsN w (va / 2 ^ d) n) (va % 2 ^ d)] }
    | "div1" =>
      if d = 0 ∨ n = 0 then some { model := "skip", spec := ["skip"] } else
      let (c, r) := div1Low B da d
      some { model := out c r, spec := [out (toDigitsN w (va / d) n) (va % d)] }
    | "sqrn" =>
      let c := sqrnLow B da n
      some { model := out c 0, spec := [out (toDigitsN w (va * va) (2 * n)) 0] }
    | _ => none
  | _ => none

def lowa (e : Env) (args : List String) : Option Verdict :=
  match args with
  | ["mula", n, c, a, d] => do
    let n ← n.toNat?
    let c ← parseHexNat c
    let a ← parseHexNat a
    let d ← parseHexNat d
    let B := e.cfg.B
    let w := e.w
    let dc := toDigitsN w c n
    let da := toDigitsN w a n
    let (r, cy) := mulaLow B dc da d 0
    let s := fromDigits w dc + fromDigits w da * d
    some { model := fmtRaw w r ++ " " ++ natToHex cy,
           spec := [fmtRaw w (toDigitsN w s n) ++ " " ++ natToHex (s / B ^ n)] }
  | _ => none

def lowdiv (e : Env) (args : List String) : Option Verdict :=
  match args with
  | [sa, a, sb, b] => do
    let sa ← sa.toNat?
    let sb ← sb.toNat?
    let a ← parseHexNat a
    let b ← parseHexNat b
    let w := e.w
    let da := toDigitsN w a sa
    let db := toDigitsN w b sb
    if sb < 1 ∨ sa < sb then none else
    if db.getD (sb - 1) 0 = 0 then some { model := "skip", spec := ["skip"] } else
    let va := fromDigits w da
    let vb := fromDigits w db
    let (q, r, tr) := divnLow w da db
    some { model := fmtRaw w (q.take (sa - sb + 1)) ++ " " ++ fmtRaw w (r.take sb),
           spec := [fmtRaw w (toDigitsN w (va / vb) (sa - sb + 1)) ++ " " ++ fmtRaw w (toDigitsN w (va % vb) sb)],
           tags := divTags tr }
  | _ => none

def cmpStr (x y : Int) : String := if x < y then "-1" else if x > y then "1" else "0"

def handle (e : Env) (op : String) (args : List String) : Option Verdict :=
  let cfg := e.cfg
  let B := cfg.B
  let w := e.w
  match op with
  | "bn_add" => bin e args bnAdd (· + ·)
  | "bn_sub" => bin e args bnSub (· - ·)
  | "bn_mul" => bin e args bnMulComba (· * ·)
  | "bn_mul_basic" => bin e args bnMulBasic (· * ·)
  | "bn_mul_comba" => bin e args bnMulComba (· * ·)
  | "bn_mul_karat" => bin e args bnMulKarat (· * ·)
  | "bn_sqr" => un e args bnSqrComba (fun a => a * a)
  | "bn_sqr_comba" => un e args bnSqrComba (fun a => a * a)
  | "bn_sqr_basic" => un e args bnSqrBasic (fun a => a * a)
  | "bn_sqr_karat" => un e args bnSqrKarat (fun a => a * a)
  | "bn_dbl" => un e args bnDbl (fun a => 2 * a)
  | "bn_hlv" => un e args bnHlv (fun a => Int.fdiv a 2)
  | "bn_neg" => un e args (fun _ a => some (bnNeg a)) (fun a => -a)
  | "bn_abs" => un e args (fun _ a => some (bnAbs a)) (fun a => (a.natAbs : Int))
  | "bn_copy" => un e args (fun _ a => some (bnTrim a)) id
  | "bn_add_dig" => dig e args bnAddDig (· + ·)
  | "bn_sub_dig" => dig e args bnSubDig (· - ·)
  | "bn_mul_dig" => dig e args bnMulDig (· * ·)
  | "bn_lsh" =>
    -- the capacity check is made on operand *lengths* (used + digits + 1), so a precision error is
    -- accepted whenever that bound exceeds the capacity, even if the value would fit
    match args with
    | [_, a, k] => do
      let a ← parseBn w a
      let k ← k.toNat?
      let bound := a.used + k / w + (if k % w > 0 then 1 else 0)
      some { model := fmtBnOpt w (bnLsh cfg a k),
             spec := specInt e a.used (a.toInt B * 2 ^ k) ++ (if bound > cfg.cap then ["err"] else []) }
    | _ => none
  | "bn_rsh" => shift e args bnRsh (fun a k => Int.fdiv a (2 ^ k))
  | "bn_div" =>
    do
      let (a, b) ← aliasArgs e args
      let m := match bnDivRem cfg a b with
        | some (q, _, _) => fmtBn w q
        | none => "err"
      let tags := match bnDivRem cfg a b with
        | some (_, _, tr) => divTags tr
        | none => []
      let sp := if b.toInt B = 0 then ["err"] else specInt e (max a.used b.used) (Int.fdiv (a.toInt B) (b.toInt B))
      some { model := m, spec := sp, tags := tags }
  | "bn_div_rem" =>
    do
      let (a, b) ← match args with
        | [_, a, b] => do some ((← parseBn w a), (← parseBn w b))
        | _ => none
      let r := bnDivRem cfg a b
      let m := match r with
        | some (q, r, _) => fmtBn w q ++ " " ++ fmtBn w r
        | none => "err"
      let tags := match r with
        | some (_, _, tr) => divTags tr
        | none => []
      let va := a.toInt B
      let vb := b.toInt B
      let sp := if vb = 0 then ["err"] else
        [fmtIntNF w (Int.fdiv va vb) ++ " " ++ fmtIntNF w (Int.fmod va vb)] ++
          (if max a.used b.used > e.digs then ["err"] else [])
      some { model := m, spec := sp, tags := tags }
  | "bn_div_dig" =>
    match args with
    | [_, a, d] => do
      let a ← parseBn w a
      let d ← parseHexNat d
      let m := match bnDivRemDig cfg a d with
        | some (q, _) => fmtBn w q
        | none => "err"
      some { model := m, spec := if d = 0 then ["err"] else specInt e a.used (Int.fdiv (a.toInt B) d) }
    | _ => none
  | "bn_mod_dig" =>
    -- class C (no digit model of its own: it is bn_div_rem_dig without the quotient): the non-negative remainder
    match args with
    | [_, a, d] => do
      let a ← parseBn w a
      let d ← parseHexNat d
      let s := if d = 0 then "err" else natToHex (Int.fmod (a.toInt B) d).toNat
      some { model := s, spec := [s], tags := ["mod_dig"] }
    | _ => none
  | "bn_mod_2b" =>
    -- class C: a mod 2^b for a ≥ 0; for a < 0 the header does not say which representative: the truncated magnitude with the sign of a
    -- (what the code does) and the non-negative residue are both admitted
    match args with
    | [_, a, k] => do
      let a ← parseBn w a
      let k ← k.toNat?
      let va := a.toInt B
      let m := va.natAbs % 2 ^ k
      let opts := if va ≥ 0 then [fmtIntNF w (m : Int)] else [fmtIntNF w (-(m : Int)), fmtIntNF w (Int.fmod va (2 ^ k))]
      some { model := opts.headD "", spec := opts, tags := ["mod_2b"] }
    | _ => none
  | "bn_div_rem_dig" =>
    match args with
    | [_, a, d] => do
      let a ← parseBn w a
      let d ← parseHexNat d
      let m := match bnDivRemDig cfg a d with
        | some (q, r) => fmtBn w q ++ " " ++ natToHex r
        | none => "err"
      let va := a.toInt B
      some { model := m,
             spec := if d = 0 then ["err"] else
               [fmtIntNF w (Int.fdiv va d) ++ " " ++ natToHex (Int.fmod va d).toNat] }
    | _ => none
  | "bn_cmp" =>
    match args with
    | [a, b] => do
      let a ← parseBn w a
      let b ← parseBn w b
      let va := a.toInt B
      let vb := b.toInt B
      some { model := toString (bnCmp a b) ++ " " ++ toString (bnCmpAbs a b),
             spec := [cmpStr va vb ++ " " ++ cmpStr va.natAbs vb.natAbs] }
    | _ => none
  | "bn_cmp_dig" =>
    match args with
    | [a, d] => do
      let a ← parseBn w a
      let d ← parseHexNat d
      some { model := toString (bnCmpDig a d), spec := [cmpStr (a.toInt B) d] }
    | _ => none
  | "bn_info" =>
    match args with
    | [a] => do
      let a ← parseBn w a
      let v := a.toInt B
      let m := v.natAbs
      let pop := (List.range (bitLen m)).foldl (fun c i => c + (m >>> i) % 2) 0
      let f := fun (bits ham : Nat) (even zero : Bool) (neg : Bool) =>
        s!"bits={bits} ham={ham} even={b2n even} zero={b2n zero} sign={b2n neg}"
      some { model := f (bnBitsW w a) (bnHam w a) (bnIsEven a) (bnIsZero a) a.neg,
             spec := [f (bitLen m) pop (m % 2 = 0) (m = 0) (v < 0)] }
    | _ => none
  | "bn_get_bit" =>
    match args with
    | [a, k] => do
      let a ← parseBn w a
      let k ← k.toNat?
      some { model := toString (bnGetBit w a k), spec := [toString ((a.toInt B).natAbs >>> k % 2)] }
    | _ => none
  | "bn_set_bit" =>
    match args with
    | [a, k, v] => do
      let a ← parseBn w a
      let k ← k.toNat?
      let m := (a.toInt B).natAbs
      let has := (m >>> k) % 2 == 1
      let m' := if v == "1" then (if has then m else m + 2 ^ k) else (if has then m - 2 ^ k else m)
      let sv : Int := if (a.toInt B) < 0 then -(m' : Int) else (m' : Int)
      -- setting a bit beyond the capacity is refused; clearing one there changes nothing
      some { model := fmtBnOpt w (bnSetBit cfg a k (v == "1")),
             spec := if v == "1" && k ≥ cfg.cap * w then ["err"] else [fmtIntNF w sv] }
    | _ => none
  | "bn_set_2b" =>
    match args with
    | [k] => do
      let k ← k.toNat?
      some { model := fmtBnOpt w (bnSet2b cfg k),
             spec := if k ≥ cfg.cap * w then ["err"] else [fmtIntNF w (2 ^ k : Nat)] }
    | _ => none
  | "low2" => lowBin e args
  | "low1" => low1 e args
  | "lowa" => lowa e args
  | "lowdiv" => lowdiv e args
  | _ => none

end Driver.C01
