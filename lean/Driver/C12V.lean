/- C12, class A part: the coded decision logic of g1_is_valid / g2_is_valid / gt_is_valid (Model/PcValid.lean) executed on
   every `pcv` line with the constants the running library reports (pc_param: h1, vendom, vbeta, vb383, vfrb0, vfrb1, x, sps,
   famname), compared with the library's answer (model column); the specification column is the definition
   (on the curve, not the identity, killed by r). -/
import Driver.C04
import RelicVerif.Model.PcValid

namespace Driver.C12V
open Driver Relic.Spec.Tower Relic.Model.PcValid

def famOf (s : String) : Fam := if s == "EP_BN" then .bn else if s == "EP_B12" then .b12 else .other
def famTag : Fam → String
  | .bn => "bn" | .b12 => "b12" | .other => "default"

def g1Ops (c : Relic.Spec.Curve.Curve) (beta : Nat) : GOps Relic.Spec.Curve.Point where
  isInf := fun p => p == none
  onCurve := Relic.Spec.Curve.onCurve c
  add := Relic.Spec.Curve.add c
  dbl := Relic.Spec.Curve.dbl c
  neg := Relic.Spec.Curve.neg c
  mul := Relic.Spec.Curve.mul c
  psi := fun p => match p with
    | none => none
    | some (x, y) => some (beta * x % c.p, y)
  eq := fun a b => a == b

def g2Ops (c : Relic.Spec.CurveX.CurveX) (f0 f1 : List Nat) : GOps Relic.Spec.CurveX.PointX where
  isInf := fun p => p == none
  onCurve := Relic.Spec.CurveX.onCurve c
  add := Relic.Spec.CurveX.add c
  dbl := Relic.Spec.CurveX.dbl c
  neg := Relic.Spec.CurveX.neg c
  mul := Relic.Spec.CurveX.mul c
  psi := C11.psiOf c f0 f1
  eq := fun a b => Relic.Spec.CurveX.canonPt c a == Relic.Spec.CurveX.canonPt c b

def gtOps (e : C04.Env) : TOps (List Nat) :=
  let d := e.base.d12
  let o := C04.descOps d e.tbl
  { isOne := d.isOne, isZero := d.isZero, mul := d.mul, sqr := d.sqr, inv := d.conj,
    frb := fun a i => d.frobeniusViaPow e.tbl.get a i,
    expSps := fun a => Relic.Model.PpExp.expCycSps o a e.sps (e.x < 0),
    exp := fun a k => if k < 0 then d.pow ((d.inv? a).getD d.zero) k.natAbs else d.pow a k.natAbs,
    eq := d.eq }

/-- the numeric hypotheses of the membership theorems (Lemmas/PcValid.lean) on the reported constants, and their universally
    quantified hypotheses INSTANTIATED AT THE GENERATORS (a necessary condition, not the hypothesis itself); empty = all hold -/
def hypotheses (e : C04.Env) : List String :=
  let b := e.base
  let kv := b.kv
  let z := e.x
  let p : Int := b.d12.p
  let r : Int := b.n
  if famOf e.fam != .b12 || kv.lookup "vendom" != some "1" || kv.lookup "vb383" == some "1" then [] else
  let h1 := ((kv.lookup "h1").bind parseHexNat).getD 0
  let beta := ((kv.lookup "vbeta").bind parseHexNat).getD 0
  let h2 := ((kv.lookup "h2").bind parseHexNat).getD 0
  let o1 := g1Ops b.c1 beta
  let t := z + 1
  let m := z ^ 2 - t * z + p
  (if r == z ^ 4 - z ^ 2 + 1 then [] else ["B12: r is not z^4 - z^2 + 1"]) ++
  (if h1 == 1 || o1.add (o1.add (o1.psi (o1.psi b.g1)) (o1.psi b.g1)) b.g1 == none then [] else ["B12: psi^2 + psi + 1 does not vanish at the G1 generator"]) ++
  (if (r % (Int.gcd m ((h2 * b.n : Nat) : Int) : Int)) == 0 then [] else ["B12: gcd(z^2 - t z + p, #E'(Fp2)) does not divide r"]) ++
  (match (do
      let d2 := b.e2.c.d
      let el2 := fun (s : String) => match s.splitOn "," with
        | [x, y] => C11.parseEl d2 x y
        | _ => none
      let f0 ← el2 (← kv.lookup "vfrb0")
      let f1 ← el2 (← kv.lookup "vfrb1")
      let o2 := g2Ops b.e2.c f0 f1
      let g := b.e2.g
      some (o2.add (o2.add (o2.psi (o2.psi g)) (o2.neg (o2.mul (o2.psi g) t))) (o2.mul g p) == none)) with
    | some true => []
    | _ => ["B12: psi^2 - t psi + p does not vanish at the G2 generator"])

def b2s (b : Bool) : String := if b then "r=1" else "r=0"

def handle (e : C04.Env) (op : String) (args : List String) (_got : String) : Option Verdict :=
  let b := e.base
  let kv := b.kv
  let fam := famOf e.fam
  let flag := fun (k : String) => kv.lookup k == some "1"
  match op, args with
  | "pcv", ["g1", p] => do
    let p ← C03.parsePoint p
    let h1 ← parseHexNat (← kv.lookup "h1")
    let beta ← parseHexNat (← kv.lookup "vbeta")
    let cofOne := h1 == 1
    let m := g1IsValid (g1Ops b.c1 beta) cofOne (flag "vendom") fam e.x b.n p
    let s := C12.g1Valid b p
    let br := if p == none then "inf" else if cofOne then "cof1" else if flag "vendom" && fam == .b12 then "b12-psi" else "order"
    some { model := b2s m, spec := [b2s s], tags := ["g1v." ++ (if s then "in" else "out"), "g1v.branch." ++ br,
           "g1v." ++ br ++ (if Relic.Spec.Curve.onCurve b.c1 p then ".oncurve" else ".off")] }
  | "pcv", ["g2", q] => do
    let d2 := b.e2.c.d
    let q ← C11.parsePoint d2 q
    let el2 := fun (s : String) => match s.splitOn "," with
      | [x, y] => C11.parseEl d2 x y
      | _ => none
    let f0 ← el2 (← kv.lookup "vfrb0")
    let f1 ← el2 (← kv.lookup "vfrb1")
    let m := g2IsValid (g2Ops b.e2.c f0 f1) (flag "vendom") (flag "vb383") fam e.x b.n q
    let s := C12.g2Valid b q
    let br := if q == none then "inf" else if flag "vendom" && fam != .other then famTag fam ++ (if fam == .b12 && flag "vb383" then "-383" else "") else "order"
    some { model := b2s m, spec := [b2s s],
           tags := ["g2v." ++ (if s then "in" else if Relic.Spec.CurveX.onCurve b.e2.c q then "twist-outside" else "off"), "g2v.branch." ++ br] }
  | "pcv", ["gt", a] => do
    let a ← b.d12.parse? a
    let o := gtOps e
    let m := gtIsValid o (flag "vb383") fam b.n a
    let s := C12.gtValid b a
    let br := if b.d12.isOne a then "one" else if b.d12.isZero a then "zero" else
      famTag fam ++ (if fam == .other then "" else if testCyc o a then ".cyc" else ".notcyc")
    some { model := b2s m, spec := [b2s s], tags := ["gtv." ++ (if s then "in" else "out"), "gtv.branch." ++ br] }
  | _, _ => none

/-- the ep / ep2 context lines of the stream must describe the curve of the pc_param line (otherwise: no model, class C) -/
def ctx1 (b : C12.Env) (ep : Option C03.Env) (w : Nat) : Option C03.MulCtx := do
  let e ← ep
  if e.c.p == b.c1.p && e.c.a == b.c1.a && e.c.b == b.c1.b && e.n == b.n && e.g == b.g1 then C03.mkCtx e w else none

def ctx2 (b : C12.Env) (ep2 : Option C11.Env) (w : Nat) : Option C11.MulCtx := do
  let e ← ep2
  if e.c.d.p == b.e2.c.d.p && e.n == b.n && Relic.Spec.CurveX.canonPt e.c e.g == Relic.Spec.CurveX.canonPt b.e2.c b.e2.g then C11.mkCtx e w else none

/-- variant of the pc layer → (name of the ep / ep2 routine in the sibling drivers, scalar handed on) by include/relic_pc.h and
    src/pc/relic_pc_exp.c (EP_MUL = LWNAF, EP_FIX = COMBS, EP_SIM = INTER in every configuration the check builds) -/
def route (w n : Nat) (v : String) (k : Int) : Option (String × Int × String) :=
  if v == "mul" then
    let r := mulRoute w n k
    some (if r.1 then "basic" else "lwnaf", r.2, if r.1 then "dig-path" else "full-path")
  else if v == "gen" then some ("gen", genRoute n k, "gen")
  else if v == "any" then some ("basic", k, "any")
  else if v == "sec" then some ("lwreg", k, "sec")
  else if v == "dig" then some ("dig", k, "dig")
  else if v == "fix" then some ("fix_combs", k, "fix")
  else none

def handleMul (b : C12.Env) (ep : Option C03.Env) (ep2 : Option C11.Env) (w : Nat) (op : String) (args : List String) (got : String) : Option Verdict :=
  let pI := fun (s : String) => (parseBn w s).map (Relic.Model.Bn.toInt (2 ^ w))
  let c1 := b.c1
  let c2 := b.e2.c
  let d2 := c2.d
  match op, args with
  | "g1m", [v0, p, k] => do
    let v := if v0.endsWith "!" then (v0.dropEnd 1).toString else v0
    let p0 ← C03.parsePoint p
    let k ← pI k
    let p' := if v == "gen" then b.g1 else p0
    let k' := if v == "dig" then ((k.natAbs % 2 ^ w : Nat) : Int) else k
    let spec := C03.fmtPoint (Relic.Spec.Curve.mul c1 p' k')
    -- an identity base of the fixed-base variant is the recorded finding (reported error): left to the specification column
    let mdl := if v == "fix" && p' == none then none else do
      let m ← ctx1 b ep w
      let (rv, rk, _) ← route w b.n v k'
      C03.modelMul m rv p' rk
    let rt := ((route w b.n v k').map (·.2.2)).getD "?"
    match mdl with
    | some s => some { model := s, spec := [spec], tags := ["g1m." ++ v0, "g1m.model." ++ rt] }
    | none => some { model := got, spec := [spec], tags := ["g1m." ++ v0, "g1m.classC." ++ rt] }
  | "g2m", [v0, q, k] => do
    let v := if v0.endsWith "!" then (v0.dropEnd 1).toString else v0
    let q0 ← C11.parsePoint d2 q
    let k ← pI k
    let q' := if v == "gen" then b.e2.g else q0
    let k' := if v == "dig" then ((k.natAbs % 2 ^ w : Nat) : Int) else k
    let spec := C11.fmtPoint d2 (Relic.Spec.CurveX.mul c2 q' k')
    let mdl := if v == "fix" && q' == none then none else do
      let m ← ctx2 b ep2 w
      let (rv, rk, _) ← route w b.n v k'
      C11.modelMul m rv q' rk
    let rt := ((route w b.n v k').map (·.2.2)).getD "?"
    match mdl with
    | some s => some { model := s, spec := [spec], tags := ["g2m." ++ v0, "g2m.model." ++ rt] }
    | none => some { model := got, spec := [spec], tags := ["g2m." ++ v0, "g2m.classC." ++ rt] }
  | "g1s", [v, p, k, q, m] => do
    let p0 ← C03.parsePoint p
    let q' ← C03.parsePoint q
    let k ← pI k
    let mm ← pI m
    let p' := if v == "gen" then b.g1 else p0
    let spec := C03.fmtPoint (Relic.Spec.Curve.add c1 (Relic.Spec.Curve.mul c1 p' k) (Relic.Spec.Curve.mul c1 q' mm))
    match (ctx1 b ep w).bind fun mc => C03.modelSim mc v p' k q' mm with
    | some s => some { model := s, spec := [spec], tags := ["g1s." ++ v, "g1s.model." ++ v] }
    | none => some { model := got, spec := [spec], tags := ["g1s." ++ v, "g1s.classC." ++ v] }
  | "g2s", [v, p, k, q, m] => do
    let p0 ← C11.parsePoint d2 p
    let q' ← C11.parsePoint d2 q
    let k ← pI k
    let mm ← pI m
    let p' := if v == "gen" then b.e2.g else p0
    let spec := C11.fmtPoint d2 (Relic.Spec.CurveX.add c2 (Relic.Spec.CurveX.mul c2 p' k) (Relic.Spec.CurveX.mul c2 q' mm))
    match (ctx2 b ep2 w).bind fun mc => C11.modelSim mc v p' k q' mm with
    | some s => some { model := s, spec := [spec], tags := ["g2s." ++ v, "g2s.model." ++ v] }
    | none => some { model := got, spec := [spec], tags := ["g2s." ++ v, "g2s.classC." ++ v] }
  | _, _ => none

end Driver.C12V
