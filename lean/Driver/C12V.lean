/- C12, class A part: the coded decision logic of g1_is_valid / g2_is_valid / gt_is_valid (Model/PcValid.lean) executed on
   every `pcv` line with the constants the running library reports (pc_param: h1, vendom, vbeta, vb383, vfrb0, vfrb1, x, sps,
   famname), compared with the library's answer (model column); the specification column is the definition
   (on the curve, not the identity, killed by r). -/
import Driver.C04
import RelicVerif.Model.PcValid

namespace Driver.C12V
open Driver Relic.Spec.Tower Relic.Model.PcValid

def famOf (s : String) : Fam := if s == "EP_BN" then .bn else if s == "EP_B12" then .b12 else .other
def famTag : Fam → String
  | .bn => "bn" | .b12 => "b12" | .other => "default"

def g1Ops (c : Relic.Spec.Curve.Curve) (beta : Nat) : GOps Relic.Spec.Curve.Point where
  isInf := fun p => p == none
  onCurve := Relic.Spec.Curve.onCurve c
  add := Relic.Spec.Curve.add c
  dbl := Relic.Spec.Curve.dbl c
  neg := Relic.Spec.Curve.neg c
  mul := Relic.Spec.Curve.mul c
  psi := fun p => match p with
    | none => none
    | some (x, y) => some (beta * x % c.p, y)
  eq := fun a b => a == b

def g2Ops (c : Relic.Spec.CurveX.CurveX) (f0 f1 : List Nat) : GOps Relic.Spec.CurveX.PointX where
  isInf := fun p => p == none
  onCurve := Relic.Spec.CurveX.onCurve c
  add := Relic.Spec.CurveX.add c
  dbl := Relic.Spec.CurveX.dbl c
  neg := Relic.Spec.CurveX.neg c
  mul := Relic.Spec.CurveX.mul c
  psi := C11.psiOf c f0 f1
  eq := fun a b => Relic.Spec.CurveX.canonPt c a == Relic.Spec.CurveX.canonPt c b

def gtOps (e : C04.Env) : TOps (List Nat) :=
  let d := e.base.d12
  let o := C04.descOps d e.tbl
  { isOne := d.isOne, isZero := d.isZero, mul := d.mul, sqr := d.sqr, inv := d.conj,
    frb := fun a i => d.frobeniusViaPow e.tbl.get a i,
    expSps := fun a => Relic.Model.PpExp.expCycSps o a e.sps (e.x < 0),
    exp := fun a k => if k < 0 then d.pow ((d.inv? a).getD d.zero) k.natAbs else d.pow a k.natAbs,
    eq := d.eq }

def b2s (b : Bool) : String := if b then "r=1" else "r=0"

def handle (e : C04.Env) (op : String) (args : List String) (_got : String) : Option Verdict :=
  let b := e.base
  let kv := b.kv
  let fam := famOf e.fam
  let flag := fun (k : String) => kv.lookup k == some "1"
  match op, args with
  | "pcv", ["g1", p] => do
    let p ← C03.parsePoint p
    let h1 ← parseHexNat (← kv.lookup "h1")
    let beta ← parseHexNat (← kv.lookup "vbeta")
    let cofOne := h1 == 1
    let m := g1IsValid (g1Ops b.c1 beta) cofOne (flag "vendom") fam e.x b.n p
    let s := C12.g1Valid b p
    let br := if p == none then "inf" else if cofOne then "cof1" else if flag "vendom" && fam == .b12 then "b12-psi" else "order"
    some { model := b2s m, spec := [b2s s], tags := ["g1v." ++ (if s then "in" else "out"), "g1v.branch." ++ br,
           "g1v." ++ br ++ (if Relic.Spec.Curve.onCurve b.c1 p then ".oncurve" else ".off")] }
  | "pcv", ["g2", q] => do
    let d2 := b.e2.c.d
    let q ← C11.parsePoint d2 q
    let el2 := fun (s : String) => match s.splitOn "," with
      | [x, y] => C11.parseEl d2 x y
      | _ => none
    let f0 ← el2 (← kv.lookup "vfrb0")
    let f1 ← el2 (← kv.lookup "vfrb1")
    let m := g2IsValid (g2Ops b.e2.c f0 f1) (flag "vendom") (flag "vb383") fam e.x b.n q
    let s := C12.g2Valid b q
    let br := if q == none then "inf" else if flag "vendom" && fam != .other then famTag fam ++ (if fam == .b12 && flag "vb383" then "-383" else "") else "order"
    some { model := b2s m, spec := [b2s s],
           tags := ["g2v." ++ (if s then "in" else if Relic.Spec.CurveX.onCurve b.e2.c q then "twist-outside" else "off"), "g2v.branch." ++ br] }
  | "pcv", ["gt", a] => do
    let a ← b.d12.parse? a
    let o := gtOps e
    let m := gtIsValid o (flag "vb383") fam b.n a
    let s := C12.gtValid b a
    let br := if b.d12.isOne a then "one" else if b.d12.isZero a then "zero" else
      famTag fam ++ (if fam == .other then "" else if testCyc o a then ".cyc" else ".notcyc")
    some { model := b2s m, spec := [b2s s], tags := ["gtv." ++ (if s then "in" else "out"), "gtv.branch." ++ br] }
  | _, _ => none

end Driver.C12V
