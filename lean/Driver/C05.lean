/- C05 handlers: signature schemes. Specification: Spec/Sig.lean over the affine curve arithmetic of Spec/Curve.lean. -/
import Driver.Util
import Driver.C03
import Driver.C15
import RelicVerif.Spec.Sig
import RelicVerif.Spec.CurveFast

namespace Driver.C05
open Driver Relic.Spec.Curve Relic.Spec.Sig
open Driver.C15 (parseBytes fmtBytes)

def h256 : Relic.Spec.Mac.Hash := { h := Relic.Spec.Sha256.sha256, outLen := 32, blockLen := 64 }
def sha (b : Bytes) : Bytes := Relic.Spec.Sha256.sha256 b

/-- the compressed encoding of ep_write_bin(pack = 1): tag 02/03 and the x-coordinate; the tag bit is
    y > (p-1)/2 on pairing-friendly curves, otherwise the low bit of the stored (Montgomery) form of y (see C07) -/
def packPoint (e : C03.Env) (w : Nat) : Point → Bytes
  | none => [0]
  | some (x, y) =>
    let c := e.c
    let nb := (Nat.log2 c.p) / 8 + 1
    let pairf := e.kv.lookup "pairf" != some "0"
    let R := 2 ^ (w * ((Nat.log2 c.p) / w + 1))
    let b := if pairf then (if y > c.p / 2 then 1 else 0) else (y * R % c.p) % 2
    UInt8.ofNat (2 + b) :: i2osp x nb

/-- `fast`: scalar multiplications through the Jacobian evaluator of Spec/CurveFast.lean (same bit scan, one inversion),
    otherwise the affine definition itself -/
def curveOps (e : C03.Env) (w : Nat) (fast : Bool) : GrpOps Point where
  add := add e.c
  neg := neg e.c
  smul := fun k p => if fast then Relic.Spec.CurveFast.mulNat e.c p k else mulNat e.c p k
  isZero := fun p => p == none
  beq := fun p q => p == q
  valid := fun p => onCurve e.c p && (e.h == 1 || mulNat e.c p e.n == none)
  xn := fun p => match p with
    | some (x, _) => x
    | none => 0
  enc := packPoint e w

def parsePt (p : Nat) (s : String) : Option Point :=
  if s == "inf" then some none else
  match s.splitOn "," with
  | [x, y] => do
    let x ← parseHexNat x
    let y ← parseHexNat y
    some (some (x % p, y % p))
  | _ => none

def fmtPt : Point → String := C03.fmtPoint

/-- "k1=v1 k2=v2 …" -/
def parseKV (s : String) : List (String × String) :=
  (s.splitOn " ").filterMap fun t => match t.splitOn "=" with
    | [k, v] => some (k, v)
    | _ => none

def kvNat (kv : List (String × String)) (k : String) : Option Nat := (kv.lookup k).bind parseHexNat
def kvInt (kv : List (String × String)) (k : String) : Option Int := (kv.lookup k).bind parseHexInt

/-- verdict of a verification line: accept ⇒ exactly "v=1"; reject ⇒ 0, with or without a reported error -/
def verdict (accept : Bool) (got : String) (tag : String) : Option Verdict :=
  some { model := got, spec := if accept then ["v=1"] else ["v=0", "v=0 err", "err"],
         tags := [tag ++ (if accept then ".accept" else ".reject")] }

/-- a produced value that must satisfy a predicate (the value itself depends on the DRBG stream) -/
def mustHold (ok : Bool) (got : String) (what : String) (tag : String) : Option Verdict :=
  some { model := got, spec := if ok then [got] else ["<" ++ what ++ ">"], tags := [tag] }

/-- Miller–Rabin to the bases 2, 3, 5, 7, 11, 13 (a probable-prime test; class C) -/
def probablePrime (n : Nat) : Bool :=
  if n < 2 then false else if n < 4 then true else if n % 2 == 0 then false else
  let rec split (fuel d s : Nat) : Nat × Nat :=
    match fuel with
    | 0 => (d, s)
    | f + 1 => if d % 2 == 0 then split f (d / 2) (s + 1) else (d, s)
  let (d, s) := split (Nat.log2 n + 1) (n - 1) 0
  [2, 3, 5, 7, 11, 13].all fun a =>
    if a % n == 0 then true else
    let x := powMod a d n
    if x == 1 || x == n - 1 then true else
    let rec sq (fuel x : Nat) : Bool :=
      match fuel with
      | 0 => false
      | f + 1 => let x := x * x % n; if x == n - 1 then true else sq f x
    sq (s - 1) x

def rsaVerifyBy (pad : String) (k : RsaPub) (pre : Bool) (msg sig : Bytes) : Option Bool :=
  match pad with
  | "pkcs2" => some (rsaPssVerify h256 k pre msg sig)
  | "pkcs1" => some (rsaPkcs1Verify h256 sha256Prefix k pre msg sig)
  | "basic" => some (rsaBasicVerify h256 k pre msg sig)
  | _ => none

/-- the encoded message the signer must exponentiate, by padding -/
def rsaSignRep (pad : String) (n : Nat) (pre : Bool) (msg : Bytes) : Option (Option Nat) :=
  let klen := (bitLen n + 7) / 8
  let dg := if pre then msg else sha msg
  if pre ∧ msg.length ≠ 32 then some none else
  match pad with
  | "pkcs2" => some (rsaPssSignRep h256 n pre msg)
  | "pkcs1" => some ((emsaPkcs1Encode (if pre then [] else sha256Prefix) dg klen).map os2ip)
  | "basic" => some (if klen ≥ dg.length + 2 then some (os2ip ([0x00, 0xff] ++ List.replicate (klen - dg.length - 2) 0 ++ dg)) else none)
  | _ => none

def handleWith (fast : Bool) (env : Option C03.Env) (w : Nat) (op : String) (args : List String) (got : String) : Option Verdict :=
  match op, args with
  -- ---------------------------------------------------------------- RSA (no curve needed)
  | "rsa_gen", [_, bits] => do
    let bits ← bits.toNat?
    let kv := parseKV got
    if got == "err" then some { model := got, spec := ["<a key pair>"] } else
    let ok := (do
      let n ← kvNat kv "n"; let e ← kvNat kv "e"; let d ← kvNat kv "d"; let p ← kvNat kv "p"; let q ← kvNat kv "q"
      let dp ← kvNat kv "dp"; let dq ← kvNat kv "dq"; let qi ← kvNat kv "qi"; let n2 ← kvNat kv "n2"
      some (rsaKeyOk n e d p q dp dq qi && n2 == n && e == 65537 && bitLen p == bits / 2 && bitLen q == bits / 2 &&
        probablePrime p && probablePrime q)).getD false
    mustHold ok got "n = pq, p < q primes of bits/2 bits, e = 65537, ed = 1 mod phi, dp, dq, qi consistent" "rsa.gen"
  | "rsa_sig", [pad, hash, msg, cap, n, e, d, p, q, dp, dq, qi] => do
    let msg ← parseBytes msg
    let cap ← cap.toNat?
    let n ← parseHexNat n; let _e ← parseHexNat e; let d ← parseHexNat d; let p ← parseHexNat p; let q ← parseHexNat q
    let dp ← parseHexNat dp; let dq ← parseHexNat dq; let qi ← parseHexNat qi
    let klen := (bitLen n + 7) / 8
    let rep ← rsaSignRep pad n (hash != "0") msg
    match rep with
    | none => some { model := got, spec := ["err"], tags := ["rsa.sig.refuse"] }
    | some em =>
      if cap < klen then some { model := got, spec := ["err"], tags := ["rsa.sig.cap"] } else
      let viaCrt := "sig=" ++ fmtBytes (i2osp (rsasp1Crt p q dp dq qi em) klen)
      let plain := "sig=" ++ fmtBytes (i2osp (powMod em d n) klen)
      some { model := viaCrt, spec := [plain], tags := ["rsa.sig"] }
  | "rsa_ver", [pad, hash, n, e, msg, sig] => do
    let msg ← parseBytes msg
    let sig ← parseBytes sig
    let n ← parseHexNat n; let e ← parseHexNat e
    let acc ← rsaVerifyBy pad { n := n, e := e } (hash != "0") msg sig
    verdict acc got "rsa"
  | _, _ =>
  -- ---------------------------------------------------------------- schemes over the selected curve
  match env with
  | none => none
  | some e =>
  let o := curveOps e w fast
  let mulG := fun (k : Nat) => o.smul k e.g
  let n := e.n
  let g := e.g
  let fc := (Nat.log2 e.c.p) / 8 + 1
  match op, args with
  | opn, [_seed] =>
    if opn == "ecdsa_gen" || opn == "ecss_gen" || opn == "vbnn_gen" || opn == "ers_gen_key" then
      let kv := parseKV got
      let ok := (do
        let d ← kvNat kv "d"
        let q ← (kv.lookup "q").bind (parsePt e.c.p)
        some (decide (0 < d ∧ d < n) && q == mulG d)).getD false
      mustHold ok got "d in [1, n-1], Q = dG" (opn)
    else none
  | "ecdsa_sig", [_, hash, msg, d] => do
    let msg ← parseBytes msg
    let d ← parseHexNat d
    let kv := parseKV got
    let ok := (do
      let r ← kvInt kv "r"; let s ← kvInt kv "s"
      some (ecdsaVerify o sha n g (mulG d) (hash != "0") msg r s)).getD false
    mustHold ok got "a signature (r, s) that verifies under Q = dG" "ecdsa.sig"
  | "ecdsa_ver", [hash, q, msg, r, s] => do
    let q ← parsePt e.c.p q
    let msg ← parseBytes msg
    let r ← parseHexInt r
    let s ← parseHexInt s
    verdict (ecdsaVerify o sha n g q (hash != "0") msg r s) got "ecdsa"
  | "ecss_sig", [_, msg, d] => do
    let msg ← parseBytes msg
    let d ← parseHexNat d
    let kv := parseKV got
    let ok := (do
      let ee ← kvInt kv "e"; let s ← kvInt kv "s"
      some (ecssVerify o sha n fc g (mulG d) msg ee s)).getD false
    mustHold ok got "a signature (e, s) that verifies under Q = dG" "ecss.sig"
  | "ecss_ver", [q, msg, ee, s] => do
    let q ← parsePt e.c.p q
    let msg ← parseBytes msg
    let ee ← parseHexInt ee
    let s ← parseHexInt s
    verdict (ecssVerify o sha n fc g q msg ee s) got "ecss"
  | _, _ => none

/-- the lines are evaluated with the accelerated scalar multiplication; a deterministic sample (by the length of the line) is
    evaluated again with the affine definition and the two verdicts must coincide -/
def handle (env : Option C03.Env) (w : Nat) (op : String) (args : List String) (got : String) : Option Verdict :=
  match handleWith true env w op args got with
  | none => none
  | some v =>
    let len := args.foldl (fun a s => a + s.length) op.length
    if env.isSome && !op.startsWith "rsa" && len % 16 == 3 then
      match handleWith false env w op args got with
      | some v' =>
        if v'.spec == v.spec && v'.model == v.model then some { v with tags := v.tags ++ ["affine-recheck"] }
        else some { model := v.model, spec := ["<evaluators disagree: " ++ String.intercalate "|" v.spec ++ " / " ++ String.intercalate "|" v'.spec ++ ">"], tags := ["evaluator-mismatch"] }
      | none => some v
    else some v

end Driver.C05
