/- C05 handlers: signature schemes. Specification: Spec/Sig.lean over the affine curve arithmetic of Spec/Curve.lean. -/
import Driver.Util
import Driver.C03
import Driver.C15
import RelicVerif.Spec.Sig
import RelicVerif.Spec.CurveFast
import Driver.C05p

namespace Driver.C05
open Driver Relic.Spec.Curve Relic.Spec.Sig
open Driver.C15 (parseBytes fmtBytes)

def h256 : Relic.Spec.Mac.Hash := { h := Relic.Spec.Sha256.sha256, outLen := 32, blockLen := 64 }
def sha (b : Bytes) : Bytes := Relic.Spec.Sha256.sha256 b

/-- the compressed encoding of ep_write_bin(pack = 1): tag 02/03 and the x-coordinate; the tag bit is
    y > (p-1)/2 on pairing-friendly curves, otherwise the low bit of the stored (Montgomery) form of y (see C07) -/
def packPoint (e : C03.Env) (w : Nat) : Point → Bytes
  | none => [0]
  | some (x, y) =>
    let c := e.c
    let nb := (Nat.log2 c.p) / 8 + 1
    let pairf := e.kv.lookup "pairf" != some "0"
    let R := 2 ^ (w * ((Nat.log2 c.p) / w + 1))
    let b := if pairf then (if y > c.p / 2 then 1 else 0) else (y * R % c.p) % 2
    UInt8.ofNat (2 + b) :: i2osp x nb

/-- `fast`: scalar multiplications through the Jacobian evaluator of Spec/CurveFast.lean (same bit scan, one inversion),
    otherwise the affine definition itself -/
def curveOps (e : C03.Env) (w : Nat) (fast : Bool) : GrpOps Point where
  add := add e.c
  neg := neg e.c
  smul := fun k p => if fast then Relic.Spec.CurveFast.mulNat e.c p k else mulNat e.c p k
  isZero := fun p => p == none
  beq := fun p q => p == q
  valid := fun p => onCurve e.c p && (e.h == 1 || mulNat e.c p e.n == none)
  xn := fun p => match p with
    | some (x, _) => x
    | none => 0
  enc := packPoint e w

def parsePt (p : Nat) (s : String) : Option Point :=
  if s == "inf" then some none else
  match s.splitOn "," with
  | [x, y] => do
    let x ← parseHexNat x
    let y ← parseHexNat y
    some (some (x % p, y % p))
  | _ => none

def fmtPt : Point → String := C03.fmtPoint

/-- "k1=v1 k2=v2 …" -/
def parseKV (s : String) : List (String × String) :=
  (s.splitOn " ").filterMap fun t => match t.splitOn "=" with
    | [k, v] => some (k, v)
    | _ => none

def kvNat (kv : List (String × String)) (k : String) : Option Nat := (kv.lookup k).bind parseHexNat
def kvInt (kv : List (String × String)) (k : String) : Option Int := (kv.lookup k).bind parseHexInt

/-- verdict of a verification line: accept ⇒ exactly "v=1"; reject ⇒ 0, with or without a reported error -/
def verdict (accept : Bool) (got : String) (tag : String) : Option Verdict :=
  some { model := got, spec := if accept then ["v=1"] else ["v=0", "v=0 err", "err"],
         tags := [tag ++ (if accept then ".accept" else ".reject")] }

/-- a produced value that must satisfy a predicate (the value itself depends on the DRBG stream) -/
def mustHold (ok : Bool) (got : String) (what : String) (tag : String) : Option Verdict :=
  some { model := got, spec := if ok then [got] else ["<" ++ what ++ ">"], tags := [tag] }

/-- Miller–Rabin to the bases 2, 3, 5, 7, 11, 13 (a probable-prime test; class C) -/
def probablePrime (n : Nat) : Bool :=
  if n < 2 then false else if n < 4 then true else if n % 2 == 0 then false else
  let rec split (fuel d s : Nat) : Nat × Nat :=
    match fuel with
    | 0 => (d, s)
    | f + 1 => if d % 2 == 0 then split f (d / 2) (s + 1) else (d, s)
  let (d, s) := split (Nat.log2 n + 1) (n - 1) 0
  [2, 3, 5, 7, 11, 13].all fun a =>
    if a % n == 0 then true else
    let x := powMod a d n
    if x == 1 || x == n - 1 then true else
    let rec sq (fuel x : Nat) : Bool :=
      match fuel with
      | 0 => false
      | f + 1 => let x := x * x % n; if x == n - 1 then true else sq f x
    sq (s - 1) x

def rsaVerifyBy (pad : String) (k : RsaPub) (pre : Bool) (msg sig : Bytes) : Option Bool :=
  match pad with
  | "pkcs2" => some (rsaPssVerify h256 k pre msg sig)
  | "pkcs1" => some (rsaPkcs1Verify h256 sha256Prefix k pre msg sig)
  | "basic" => some (rsaBasicVerify h256 k pre msg sig)
  | _ => none

/-- the encoded message the signer must exponentiate, by padding -/
def rsaSignRep (pad : String) (n : Nat) (pre : Bool) (msg : Bytes) : Option (Option Nat) :=
  let klen := (bitLen n + 7) / 8
  let dg := if pre then msg else sha msg
  if pre ∧ msg.length ≠ 32 then some none else
  match pad with
  | "pkcs2" => some (rsaPssSignRep h256 n pre msg)
  | "pkcs1" => some ((emsaPkcs1Encode (if pre then [] else sha256Prefix) dg klen).map os2ip)
  | "basic" => some ((basicEncode dg klen).map os2ip)
  | _ => none

/-- `k` ring elements "h pk c0 c1 r0 r1" from a token list; returns the rest -/
def parseRing (p : Nat) : Nat → List String → Option (List (RingElt Point) × List String)
  | 0, l => some ([], l)
  | k + 1, h :: pk :: c0 :: c1 :: r0 :: r1 :: rest => do
    let h ← parsePt p h
    let pk ← parsePt p pk
    let c0 ← parseHexInt c0; let c1 ← parseHexInt c1; let r0 ← parseHexInt r0; let r1 ← parseHexInt r1
    let (l, rest) ← parseRing p k rest
    some ({ h := h, pk := pk, c0 := c0, c1 := c1, r0 := r0, r1 := r1 } :: l, rest)
  | _, _ => none

/-- "h pk c0 c1 r0 r1 tau d0 d1 t0 t1" -/
def parseLinkRing (p : Nat) : Nat → List String → Option (List (LinkElt Point) × List String)
  | 0, l => some ([], l)
  | k + 1, l => do
    let (e, rest) ← parseRing p 1 l
    let e ← e.head?
    match rest with
    | tau :: d0 :: d1 :: t0 :: t1 :: rest =>
      let tau ← parsePt p tau
      let d0 ← parseHexInt d0; let d1 ← parseHexInt d1; let t0 ← parseHexInt t0; let t1 ← parseHexInt t1
      let (l, rest) ← parseLinkRing p k rest
      some ({ e := e, tau := tau, d0 := d0, d1 := d1, t0 := t0, t1 := t1 } :: l, rest)
    | _ => none

/-- "y h pk c0 c1 r0 r1" -/
def parseTrsRing (p : Nat) : Nat → List String → Option (List (TrsElt Point) × List String)
  | 0, l => some ([], l)
  | k + 1, y :: l => do
    let y ← parseHexInt y
    let (e, rest) ← parseRing p 1 l
    let e ← e.head?
    let (l, rest) ← parseTrsRing p k rest
    some ({ y := y, e := e } :: l, rest)
  | _, _ => none

def handleWith (fast : Bool) (env : Option C03.Env) (w : Nat) (op : String) (args : List String) (got : String) : Option Verdict :=
  match op, args with
  -- ---------------------------------------------------------------- RSA (no curve needed)
  | "rsa_gen", [_, bits] => do
    let bits ← bits.toNat?
    let kv := parseKV got
    if got == "err" then some { model := got, spec := ["<a key pair>"] } else
    let ok := (do
      let n ← kvNat kv "n"; let e ← kvNat kv "e"; let d ← kvNat kv "d"; let p ← kvNat kv "p"; let q ← kvNat kv "q"
      let dp ← kvNat kv "dp"; let dq ← kvNat kv "dq"; let qi ← kvNat kv "qi"; let n2 ← kvNat kv "n2"
      -- a build without CP_CRT leaves dP, dQ, qInv unset (0)
      let crtOk := rsaKeyOk n e d p q dp dq qi ||
        (dp == 0 && dq == 0 && qi == 0 && n == p * q && decide (p < q) && e * d % ((p - 1) * (q - 1)) == 1)
      some (crtOk && n2 == n && e == 65537 && bitLen p == bits / 2 && bitLen q == bits / 2 &&
        probablePrime p && probablePrime q)).getD false
    mustHold ok got "n = pq, p < q primes of bits/2 bits, e = 65537, ed = 1 mod phi, dp, dq, qi consistent" "rsa.gen"
  | "rsa_sig", [pad, hash, msg, cap, n, e, d, p, q, dp, dq, qi] => do
    let msg ← parseBytes msg
    let cap ← cap.toNat?
    let n ← parseHexNat n; let _e ← parseHexNat e; let d ← parseHexNat d; let p ← parseHexNat p; let q ← parseHexNat q
    let dp ← parseHexNat dp; let dq ← parseHexNat dq; let qi ← parseHexNat qi
    let klen := (bitLen n + 7) / 8
    let rep ← rsaSignRep pad n (hash != "0") msg
    match rep with
    | none => some { model := got, spec := ["err"], tags := ["rsa.sig.refuse"] }
    | some em =>
      if cap < klen then some { model := got, spec := ["err"], tags := ["rsa.sig.cap"] } else
      let viaCrt := if qi == 0 then "sig=" ++ fmtBytes (i2osp (powMod em d n) klen)
        else "sig=" ++ fmtBytes (i2osp (rsasp1Crt p q dp dq qi em) klen)
      let plain := "sig=" ++ fmtBytes (i2osp (powMod em d n) klen)
      some { model := viaCrt, spec := [plain], tags := ["rsa.sig"] }
  | "rsa_ver", [pad, hash, n, e, msg, sig] => do
    let msg ← parseBytes msg
    let sig ← parseBytes sig
    let n ← parseHexNat n; let e ← parseHexNat e
    let acc ← rsaVerifyBy pad { n := n, e := e } (hash != "0") msg sig
    verdict acc got "rsa"
  | _, _ =>
  -- ---------------------------------------------------------------- schemes over the selected curve
  match env with
  | none => none
  | some e =>
  let o := curveOps e w fast
  let mulG := fun (k : Nat) => o.smul k e.g
  let n := e.n
  let g := e.g
  let fc := (Nat.log2 e.c.p) / 8 + 1
  match op, args with
  | opn, [_seed] =>
    if opn == "ecdsa_gen" || opn == "ecss_gen" || opn == "vbnn_gen" || opn == "ers_gen_key" then
      let kv := parseKV got
      let ok := (do
        let d ← kvNat kv "d"
        let q ← (kv.lookup "q").bind (parsePt e.c.p)
        some (decide (0 < d ∧ d < n) && q == mulG d)).getD false
      mustHold ok got "d in [1, n-1], Q = dG" (opn)
    else if opn == "ers_gen" then
      let kv := parseKV got
      let ok := ((kv.lookup "pp").bind (parsePt e.c.p)).map (fun pp => o.pub pp && kv.lookup "on" == some "1") |>.getD false
      mustHold ok got "a point of the group other than the identity" "ers.gen"
    else C05p.handle o e op args got
  | "ecdsa_sig", [_, hash, msg, d] => do
    let msg ← parseBytes msg
    let d ← parseHexNat d
    let kv := parseKV got
    let ok := (do
      let r ← kvInt kv "r"; let s ← kvInt kv "s"
      some (ecdsaVerify o sha n g (mulG d) (hash != "0") msg r s)).getD false
    mustHold ok got "a signature (r, s) that verifies under Q = dG" "ecdsa.sig"
  | "ecdsa_ver", [hash, q, msg, r, s] => do
    let q ← parsePt e.c.p q
    let msg ← parseBytes msg
    let r ← parseHexInt r
    let s ← parseHexInt s
    verdict (ecdsaVerify o sha n g q (hash != "0") msg r s) got "ecdsa"
  | "ecss_sig", [_, msg, d] => do
    let msg ← parseBytes msg
    let d ← parseHexNat d
    let kv := parseKV got
    let ok := (do
      let ee ← kvInt kv "e"; let s ← kvInt kv "s"
      some (ecssVerify o sha n fc g (mulG d) msg ee s)).getD false
    mustHold ok got "a signature (e, s) that verifies under Q = dG" "ecss.sig"
  | "ecss_ver", [q, msg, ee, s] => do
    let q ← parsePt e.c.p q
    let msg ← parseBytes msg
    let ee ← parseHexInt ee
    let s ← parseHexInt s
    verdict (ecssVerify o sha n fc g q msg ee s) got "ecss"
  | "vbnn_gen_prv", [_, msk, id] => do
    let msk ← parseHexNat msk
    let id ← parseBytes id
    let kv := parseKV got
    let ok := (do
      let sk ← kvNat kv "sk"
      let pk ← (kv.lookup "pk").bind (parsePt e.c.p)
      some (decide (sk < n) && o.pub pk && vbnnKeyOk o sha n g (mulG msk) pk id sk)).getD false
    mustHold ok got "a user key (sk, R) with sk G = R + H(id, R) mpk" "vbnn.gen_prv"
  | "vbnn_sig", [_, id, msg, sk, pk] => do
    let id ← parseBytes id
    let msg ← parseBytes msg
    let sk ← parseHexNat sk
    let pk ← parsePt e.c.p pk
    let kv := parseKV got
    -- the master public key is determined by the user key: c mpk = sk G - R; the signature is checked through the equivalent
    -- equation Z = zG - h (sk G) (what the verifier computes when the key is consistent)
    let ok := (do
      let r ← (kv.lookup "r").bind (parsePt e.c.p)
      let z ← kvNat kv "z"
      let h ← kvNat kv "h"
      let Z := o.sub (o.smul z g) (o.smul h (mulG sk))
      some (r == pk && decide (z < n ∧ h < n) && !o.isZero Z &&
        decide (hashToZn sha n (id ++ msg ++ o.enc pk ++ o.enc Z) = h))).getD false
    mustHold ok got "a signature (R, z, h) with h = H(id, m, R, zG - h sk G)" "vbnn.sig"
  | "vbnn_ver", [r, z, h, id, msg, mpk] => do
    let r ← parsePt e.c.p r
    let z ← parseHexInt z
    let h ← parseHexInt h
    let id ← parseBytes id
    let msg ← parseBytes msg
    let mpk ← parsePt e.c.p mpk
    verdict (vbnnVerify o sha n g mpk r z h id msg) got "vbnn"
  | "pokdl_prv", [_, y, x] => do
    let y ← parsePt e.c.p y
    let _x ← parseHexNat x
    let kv := parseKV got
    let ok := (do
      let c ← kvInt kv "c"; let r ← kvInt kv "r"
      some (sokdlVerify o sha n fc g y [] c r)).getD false
    mustHold ok got "a proof (c, r) that verifies" "pokdl.prv"
  | "sokdl_sig", [_, msg, y, x] => do
    let msg ← parseBytes msg
    let y ← parsePt e.c.p y
    let _x ← parseHexNat x
    let kv := parseKV got
    let ok := (do
      let c ← kvInt kv "c"; let r ← kvInt kv "r"
      some (sokdlVerify o sha n fc g y msg c r)).getD false
    mustHold ok got "a signature of knowledge (c, s) that verifies" "sokdl.sig"
  | "pokdl_ver", [c, r, y] => do
    let c ← parseHexInt c
    let r ← parseHexInt r
    let y ← parsePt e.c.p y
    verdict (sokdlVerify o sha n fc g y [] c r) got "pokdl"
  | "sokdl_ver", [c, r, msg, y] => do
    let c ← parseHexInt c
    let r ← parseHexInt r
    let msg ← parseBytes msg
    let y ← parsePt e.c.p y
    verdict (sokdlVerify o sha n fc g y msg c r) got "sokdl"
  | "pokor_prv", [_, y0, y1, _x] => do
    let y0 ← parsePt e.c.p y0
    let y1 ← parsePt e.c.p y1
    let kv := parseKV got
    let ok := (do
      let c0 ← kvInt kv "c0"; let c1 ← kvInt kv "c1"; let r0 ← kvInt kv "r0"; let r1 ← kvInt kv "r1"
      some (sokorVerify o sha n fc g g y0 y1 [] c0 c1 r0 r1)).getD false
    mustHold ok got "a proof (c0, c1, r0, r1) that verifies" "pokor.prv"
  | "sokor_sig", [_, msg, y0, y1, g0, g1, _x, _first] => do
    let msg ← parseBytes msg
    let y0 ← parsePt e.c.p y0
    let y1 ← parsePt e.c.p y1
    let g0 ← if g0 == "-" then some g else parsePt e.c.p g0
    let g1 ← if g1 == "-" then some g else parsePt e.c.p g1
    let kv := parseKV got
    let ok := (do
      let c0 ← kvInt kv "c0"; let c1 ← kvInt kv "c1"; let r0 ← kvInt kv "r0"; let r1 ← kvInt kv "r1"
      some (sokorVerify o sha n fc g0 g1 y0 y1 msg c0 c1 r0 r1)).getD false
    mustHold ok got "a signature of knowledge (c0, c1, s0, s1) that verifies" "sokor.sig"
  | "pokor_ver", [c0, c1, r0, r1, y0, y1] => do
    let c0 ← parseHexInt c0; let c1 ← parseHexInt c1; let r0 ← parseHexInt r0; let r1 ← parseHexInt r1
    let y0 ← parsePt e.c.p y0
    let y1 ← parsePt e.c.p y1
    verdict (sokorVerify o sha n fc g g y0 y1 [] c0 c1 r0 r1) got "pokor"
  | "sokor_ver", [c0, c1, r0, r1, msg, y0, y1, g0, g1] => do
    let c0 ← parseHexInt c0; let c1 ← parseHexInt c1; let r0 ← parseHexInt r0; let r1 ← parseHexInt r1
    let msg ← parseBytes msg
    let y0 ← parsePt e.c.p y0
    let y1 ← parsePt e.c.p y1
    let g0 ← if g0 == "-" then some g else parsePt e.c.p g0
    let g1 ← if g1 == "-" then some g else parsePt e.c.p g1
    verdict (sokorVerify o sha n fc g0 g1 y0 y1 msg c0 c1 r0 r1) got "sokor"
  | "ers_ver", td :: msg :: pp :: k :: rest => do
    let td ← parseHexInt td
    let msg ← parseBytes msg
    let pp ← parsePt e.c.p pp
    let k ← k.toNat?
    let ring ← parseRing e.c.p k rest
    verdict (ersVerify o sha n fc g pp td ring.1 msg) got "ers"
  | "ers_run", [_, msg, k] => do
    let msg ← parseBytes msg
    let k ← k.toNat?
    -- pp=<pt> td=<hex> size=<k> elements… v=<verdict> sk=<hex>: the honest ring must verify, and the library must say so
    let toks := got.splitOn " "
    let ok := (do
      let pp ← ((toks.getD 0 "").dropPrefix? "pp=").bind (fun t => parsePt e.c.p t.toString)
      let td ← ((toks.getD 1 "").dropPrefix? "td=").bind (fun t => parseHexInt t.toString)
      let (ring, rest) ← parseRing e.c.p k (toks.drop 3)
      some (toks.getD 2 "" == "size=" ++ toString k && rest.head? == some "v=1" && ersVerify o sha n fc g pp td ring msg)).getD false
    mustHold ok got "an extended ring signature that verifies (and v=1)" "ers.run"
  | "smlers_run", [_, msg, k] => do
    let msg ← parseBytes msg
    let k ← k.toNat?
    let toks := got.splitOn " "
    let ok := (do
      let pp ← ((toks.getD 0 "").dropPrefix? "pp=").bind (fun t => parsePt e.c.p t.toString)
      let hm ← ((toks.getD 1 "").dropPrefix? "hm=").bind (fun t => parsePt e.c.p t.toString)
      let td ← ((toks.getD 2 "").dropPrefix? "td=").bind (fun t => parseHexInt t.toString)
      let (ring, rest) ← parseLinkRing e.c.p k (toks.drop 4)
      some (toks.getD 3 "" == "size=" ++ toString k && rest.head? == some "v=1" && smlersVerify o sha n fc g hm pp td ring msg)).getD false
    mustHold ok got "an extended linkable ring signature that verifies (and v=1)" "smlers.run"
  | "smlers_ver", td :: msg :: pp :: k :: rest => do
    let td ← parseHexInt td
    let msg ← parseBytes msg
    let pp ← parsePt e.c.p pp
    let k ← k.toNat?
    let (ring, _) ← parseLinkRing e.c.p k rest
    -- the hash-to-curve value H(m) is taken from the oracle's line (property C13): "hm=<pt> v=…"
    match got.splitOn " " with
    | hmTok :: vd =>
      let vds := String.intercalate " " vd
      match (hmTok.dropPrefix? "hm=").bind (fun t => parsePt e.c.p t.toString) with
      | some hm =>
        let acc := smlersVerify o sha n fc g hm pp td ring msg
        some { model := got, spec := if acc then [hmTok ++ " v=1"] else [hmTok ++ " v=0", hmTok ++ " v=0 err", hmTok ++ " err"],
               tags := ["smlers" ++ (if acc then ".accept" else ".reject")] }
      | none => some { model := got, spec := if vds == "err" || vds.startsWith "v=0" then [got] else ["<hm=point verdict>"], tags := ["smlers.reject"] }
    | _ => none
  | "etrs_run", [_, msg, _max, _ext, _uni] => do
    let msg ← parseBytes msg
    let toks := got.splitOn " "
    let ok := (do
      let pp ← ((toks.getD 0 "").dropPrefix? "pp=").bind (fun t => parsePt e.c.p t.toString)
      let thres ← ((toks.getD 1 "").dropPrefix? "thres=").bind (fun t => t.toString.toNat?)
      let mx ← ((toks.getD 2 "").dropPrefix? "max=").bind (fun t => t.toString.toNat?)
      let tds ← ((toks.drop 3).take mx).mapM parseHexInt
      let ys ← ((toks.drop (3 + mx)).take mx).mapM parseHexInt
      let size ← ((toks.getD (3 + 2 * mx) "").dropPrefix? "size=").bind (fun t => t.toString.toNat?)
      let (ring, rest) ← parseTrsRing e.c.p size (toks.drop (4 + 2 * mx))
      some (rest.head? == some "v=1" && etrsVerify o sha n fc g pp thres tds ys ring msg)).getD false
    mustHold ok got "an extendable threshold ring signature that verifies at its threshold (and v=1)" "etrs.run"
  | "etrs_ver", thres :: msg :: pp :: mx :: rest => do
    let thres ← thres.toNat?
    let msg ← parseBytes msg
    let pp ← parsePt e.c.p pp
    let mx ← mx.toNat?
    let tds ← (rest.take mx).mapM parseHexInt
    let ys ← ((rest.drop mx).take mx).mapM parseHexInt
    let size ← (rest.getD (2 * mx) "").toNat?
    let (ring, _) ← parseTrsRing e.c.p size (rest.drop (2 * mx + 1))
    verdict (etrsVerify o sha n fc g pp thres tds ys ring msg) got "etrs"
  | _, _ => C05p.handle o e op args got

/-- the lines are evaluated with the accelerated scalar multiplication; a deterministic sample (by the length of the line) is
    evaluated again with the affine definition and the two verdicts must coincide -/
def handle (env : Option C03.Env) (w : Nat) (op : String) (args : List String) (got : String) : Option Verdict :=
  match handleWith true env w op args got with
  | none => none
  | some v =>
    let len := args.foldl (fun a s => a + s.length) op.length
    let cheap := ["ecdsa_ver", "ecdsa_sig", "ecss_ver", "ecss_sig", "vbnn_ver", "pokdl_ver", "sokdl_ver", "pokor_ver", "sokor_ver"].contains op
    if env.isSome && ((cheap && len % 16 == 3) || (!cheap && !op.startsWith "rsa" && len % 256 == 3)) then
      match handleWith false env w op args got with
      | some v' =>
        if v'.spec == v.spec && v'.model == v.model then some { v with tags := v.tags ++ ["affine-recheck"] }
        else some { model := v.model, spec := ["<evaluators disagree: " ++ String.intercalate "|" v.spec ++ " / " ++ String.intercalate "|" v'.spec ++ ">"], tags := ["evaluator-mismatch"] }
      | none => some v
    else some v

end Driver.C05
