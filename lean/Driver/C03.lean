/- C03 handlers: prime curves. Specification: affine chord-and-tangent arithmetic of Spec/Curve.lean. -/
import Driver.Util
import RelicVerif.Spec.Curve
import RelicVerif.Gen.EpFormulas

namespace Driver.C03
open Driver Relic.Spec.Curve
open Relic.Model.Formula

structure Env where
  c : Curve
  g : Point
  n : Nat
  h : Nat
  endom : Bool
  kv : List (String × String)

def parseEnv (got : String) : Option Env := do
  let kv := (got.splitOn " ").filterMap fun t => match t.splitOn "=" with
    | [k, v] => some (k, v)
    | _ => none
  let p ← parseHexNat (← kv.lookup "p")
  let a ← parseHexNat (← kv.lookup "a")
  let b ← parseHexNat (← kv.lookup "b")
  let gx ← parseHexNat (← kv.lookup "gx")
  let gy ← parseHexNat (← kv.lookup "gy")
  let n ← parseHexNat (← kv.lookup "n")
  let h ← parseHexNat (← kv.lookup "h")
  some { c := { p := p, a := a, b := b }, g := some (gx, gy), n := n, h := h, endom := kv.lookup "endom" == some "1", kv := kv }

/-- consistency of what the library reports (full parameter checks are C18) -/
def checkParam (e : Env) : List String :=
  (if onCurve e.c e.g then [] else ["generator not on curve"]) ++
  (if mul e.c e.g e.n == none then [] else ["n*G != O"]) ++
  (if e.g != none then [] else ["generator is the identity"])

/-- the operand as the C function receives it: the affine point in the requested representation -/
def parseRep (p : Nat) (s : String) : Option (Pt Nat) :=
  if s == "inf" then some ⟨0, 0, 0, .basic⟩ else
  match s.splitOn "," with
  | [x, y] => do
    let x ← parseHexNat x
    let y ← parseHexNat y
    some ⟨x % p, y % p, 1 % p, .basic⟩
  | [x, y, z, r] => do
    let x ← parseHexNat x
    let y ← parseHexNat y
    let z ← parseHexNat z
    if r == "P" then some ⟨x * z % p, y * z % p, z % p, .projc⟩
    else some ⟨x * (z * z % p) % p, y * (z * z % p * z % p) % p, z % p, .jacob⟩
  | _ => none

/-- ep_norm of the model's result: the affine point a representation denotes -/
def normPt (p : Nat) (r : Pt Nat) : Point :=
  if r.z % p = 0 then none else
  let zi := Relic.Model.Formula.invEuclid p r.z
  match r.coord with
  | .basic => some (r.x % p, r.y % p)
  | .projc => some (r.x * zi % p, r.y * zi % p)
  | .jacob => some (r.x * (zi * zi % p) % p, r.y * (zi * zi % p * zi % p) % p)

def optAOf (s : Option String) : OptA :=
  match s with
  | some "0" => .zero
  | some "1" => .one
  | some "2" => .two
  | some "3" => .min3
  | some "4" => .tiny
  | _ => .huge

def parsePoint (s : String) : Option Point :=
  if s == "inf" then some none else
  match s.splitOn "," with
  | x :: y :: _ => do
    let x ← parseHexNat x
    let y ← parseHexNat y
    some (some (x, y))
  | _ => none

def fmtPoint : Point → String
  | none => "inf"
  | some (x, y) => natToHex x ++ "," ++ natToHex y

partial def handle (e : Env) (w : Nat) (op : String) (args : List String) (got : String) : Option Verdict :=
  let c := e.c
  let cls := fun (s : String) => some ({ model := s, spec := [s] } : Verdict)
  let pI := fun (s : String) => (parseBn w s).map (Relic.Model.Bn.toInt (2 ^ w))
  match op, args with
  | "ep2", [o, al, p, q] => do
    let p ← parsePoint p
    let q0 ← parsePoint q
    let q := if al == "3" || al == "4" then p else q0
    -- model column: the generated formula code (RelicVerif/Gen/EpFormulas.lean) on the presented representation
    let cv : CurveC Nat := { a := c.a, b := c.b, optA := optAOf (e.kv.lookup "opta") }
    let ops := natOps c.p
    let genAdd : Option (FOps Nat → CurveC Nat → Pt Nat → Pt Nat → Pt Nat) :=
      if o == "add_basic" then some Relic.Gen.ep_add_basic
      else if o == "add_projc" || o == "add" then some Relic.Gen.ep_add_projc
      else if o == "add_jacob" then some Relic.Gen.ep_add_jacob else none
    match genAdd, parseRep c.p (args.getD 2 ""), parseRep c.p (if al == "3" || al == "4" then args.getD 2 "" else args.getD 3 "") with
    | some f, some pr, some qr =>
      some { model := fmtPoint (normPt c.p (f ops cv pr qr)), spec := [fmtPoint (add c p q)], tags := ["gen." ++ o] }
    | _, _, _ =>
    if o.startsWith "add" then cls (fmtPoint (add c p q))
    else if o == "sub" then cls (fmtPoint (add c p (neg c q)))
    else if o == "cmp" then cls (if p == q then "r=0" else "r=2")
    else none
  | "ep1", [o, _, p] => do
    let p ← parsePoint p
    let cv : CurveC Nat := { a := c.a, b := c.b, optA := optAOf (e.kv.lookup "opta") }
    let genDbl : Option (FOps Nat → CurveC Nat → Pt Nat → Pt Nat) :=
      if o == "dbl_basic" then some Relic.Gen.ep_dbl_basic
      else if o == "dbl_projc" || o == "dbl" then some Relic.Gen.ep_dbl_projc
      else if o == "dbl_jacob" then some Relic.Gen.ep_dbl_jacob else none
    match genDbl, parseRep c.p (args.getD 2 "") with
    | some f, some pr =>
      some { model := fmtPoint (normPt c.p (f (natOps c.p) cv pr)), spec := [fmtPoint (dbl c p)], tags := ["gen." ++ o] }
    | _, _ =>
    if o.startsWith "dbl" then cls (fmtPoint (dbl c p))
    else if o == "neg" then cls (fmtPoint (neg c p))
    else if o == "norm" then cls (fmtPoint p)
    else if o == "on_curve" then cls ("r=" ++ (if onCurve c p then "1" else "0"))
    else if o == "mul_cof" then cls (fmtPoint (mul c p e.h))
    else if o == "psi" then
      -- (x, y) ↦ (βx, y): an endomorphism acting as multiplication by λ on the order-n group; checked as
      -- "on curve, same y, x·β" by the caller of C18; here only that the result is [λ]P for some cube root: compare x³
      match p, parsePoint got with
      | some (x, y), some (some (x', y')) =>
        let ok := y == y' && (x' * x' % c.p * x') % c.p == (x * x % c.p * x) % c.p
        some { model := got, spec := if ok then [got] else ["(beta*x, y)"] }
      | none, _ => cls "inf"
      | _, _ => cls "<point>"
    else none
  | "epm", [v, _, p, k] => do
    let p0 ← parsePoint p
    let k ← pI k
    let p := if v == "gen" then e.g else p0
    let k := if v == "dig" then ((k.natAbs % 2 ^ w : Nat) : Int) else k
    cls (fmtPoint (mul c p k))
  | "eps", [v, p, k, q, m] => do
    let p0 ← parsePoint p
    let q ← parsePoint q
    let k ← pI k
    let m ← pI m
    let p := if v == "gen" then e.g else p0
    cls (fmtPoint (add c (mul c p k) (mul c q m)))
  | "epla", _ :: rest => handle e w "epl" rest got
  | "epda", _ :: rest => handle e w "epd" rest got
  | "epl", n :: rest => do
    let n ← n.toNat?
    let rec go (i : Nat) (l : List String) (acc : Point) : Option Point :=
      match i, l with
      | 0, _ => some acc
      | i + 1, p :: k :: l => do
        let p ← parsePoint p
        let k ← pI k
        go i l (add c acc (mul c p k))
      | _, _ => none
    let r ← go n rest none
    cls (fmtPoint r)
  | "epd", n :: rest => do
    let n ← n.toNat?
    let rec goD (i : Nat) (l : List String) (acc : Point) : Option Point :=
      match i, l with
      | 0, _ => some acc
      | i + 1, p :: k :: l => do
        let p ← parsePoint p
        let k ← pI k
        goD i l (add c acc (mul c p ((k.natAbs % 2 ^ w : Nat) : Int)))
      | _, _ => none
    let r ← goD n rest none
    cls (fmtPoint r)
  | "ep_write_bin", [len, pack, p] => do
    let len ← len.toNat?
    let p ← parsePoint p
    let nb := (Nat.log2 c.p) / 8 + 1
    let pairf := e.kv.lookup "pairf" != some "0"
    let R := 2 ^ (w * ((Nat.log2 c.p) / w + 1))
    let body := match p with
      | none => if len < 1 then "err" else natToHexPad 0 (2 * len)
      | some (x, y) =>
        if pack == "1" then
          if len < nb + 1 then "err" else
          -- the sign bit: y > (p-1)/2 on pairing-friendly curves, otherwise the low bit of the stored (Montgomery) form of y
          let b := if pairf then (if y > c.p / 2 then 1 else 0) else (y * R % c.p) % 2
          natToHexPad (2 + b) 2 ++ natToHexPad x (2 * nb) ++ (if len > nb + 1 then natToHexPad 0 (2 * (len - nb - 1)) else "")
        else
          if len < 2 * nb + 1 then "err" else
          "04" ++ natToHexPad x (2 * nb) ++ natToHexPad y (2 * nb) ++ (if len > 2 * nb + 1 then natToHexPad 0 (2 * (len - 2 * nb - 1)) else "")
    let size := match p with
      | none => 1
      | some _ => if pack == "1" then nb + 1 else 2 * nb + 1
    let s := (if body == "" then "." else body) ++ " size=" ++ toString size
    cls s
  | "ep_read_bin", [h] => do
    let nb := (Nat.log2 c.p) / 8 + 1
    let pairf := e.kv.lookup "pairf" != some "0"
    let R := 2 ^ (w * ((Nat.log2 c.p) / w + 1))
    let bytes := if h == "." then 0 else h.length / 2
    let tag := ((h.take 2).toString |> parseHexNat).getD 256
    let field := fun (i : Nat) => parseHexNat ((h.drop (2 + 2 * nb * i)).take (2 * nb)).toString
    let okPt := fun (x y : Nat) => fmtPoint (some (x, y)) ++ " on=1"
    let s : String :=
      if bytes = 1 then (if tag = 0 then "inf on=1" else "err")
      else if bytes = nb + 1 then
        match field 0 with
        | some x =>
          if x ≥ c.p ∨ (tag ≠ 2 ∧ tag ≠ 3) then "err" else
          let rhs := (x * x % c.p * x + c.a * x + c.b) % c.p
          -- a square root exists iff rhs is a square; pick the root whose sign bit matches the tag
          if rhs ≠ 0 ∧ powMod rhs ((c.p - 1) / 2) c.p ≠ 1 then "err" else
          -- the implementation's root is validated by the spec predicate on its output (below); here: expected sign
          match (got.splitOn " ") with
          | [pt, "on=1"] => match parsePoint pt with
            | some (some (x', y')) =>
              let b := if pairf then (if y' > c.p / 2 then 1 else 0) else (y' * R % c.p) % 2
              if x' = x ∧ y' < c.p ∧ y' * y' % c.p = rhs ∧ b = tag - 2 then got else "<the root of the curve equation with the tagged sign>"
            | _ => "<a point>"
          | _ => "<a point>"
        | none => "err"
      else if bytes = 2 * nb + 1 then
        match field 0, field 1 with
        | some x, some y =>
          if tag ≠ 4 ∨ x ≥ c.p ∨ y ≥ c.p ∨ !(onCurve c (some (x, y))) then "err" else okPt x y
        | _, _ => "err"
      else "err"
    cls s
  | _, _ => none

end Driver.C03
