/- C03 handlers: prime curves. Specification: affine chord-and-tangent arithmetic of Spec/Curve.lean. -/
import Driver.Util
import RelicVerif.Spec.Curve

namespace Driver.C03
open Driver Relic.Spec.Curve

structure Env where
  c : Curve
  g : Point
  n : Nat
  h : Nat
  endom : Bool
  kv : List (String × String)

def parseEnv (got : String) : Option Env := do
  let kv := (got.splitOn " ").filterMap fun t => match t.splitOn "=" with
    | [k, v] => some (k, v)
    | _ => none
  let p ← parseHexNat (← kv.lookup "p")
  let a ← parseHexNat (← kv.lookup "a")
  let b ← parseHexNat (← kv.lookup "b")
  let gx ← parseHexNat (← kv.lookup "gx")
  let gy ← parseHexNat (← kv.lookup "gy")
  let n ← parseHexNat (← kv.lookup "n")
  let h ← parseHexNat (← kv.lookup "h")
  some { c := { p := p, a := a, b := b }, g := some (gx, gy), n := n, h := h, endom := kv.lookup "endom" == some "1", kv := kv }

/-- consistency of what the library reports (full parameter checks are C18) -/
def checkParam (e : Env) : List String :=
  (if onCurve e.c e.g then [] else ["generator not on curve"]) ++
  (if mul e.c e.g e.n == none then [] else ["n*G != O"]) ++
  (if e.g != none then [] else ["generator is the identity"])

def parsePoint (s : String) : Option Point :=
  if s == "inf" then some none else
  match s.splitOn "," with
  | x :: y :: _ => do
    let x ← parseHexNat x
    let y ← parseHexNat y
    some (some (x, y))
  | _ => none

def fmtPoint : Point → String
  | none => "inf"
  | some (x, y) => natToHex x ++ "," ++ natToHex y

def handle (e : Env) (w : Nat) (op : String) (args : List String) (got : String) : Option Verdict :=
  let c := e.c
  let cls := fun (s : String) => some ({ model := s, spec := [s] } : Verdict)
  let pI := fun (s : String) => (parseBn w s).map (Relic.Model.Bn.toInt (2 ^ w))
  match op, args with
  | "ep2", [o, al, p, q] => do
    let p ← parsePoint p
    let q0 ← parsePoint q
    let q := if al == "3" || al == "4" then p else q0
    if o.startsWith "add" then cls (fmtPoint (add c p q))
    else if o == "sub" then cls (fmtPoint (add c p (neg c q)))
    else if o == "cmp" then cls (if p == q then "r=0" else "r=2")
    else none
  | "ep1", [o, _, p] => do
    let p ← parsePoint p
    if o.startsWith "dbl" then cls (fmtPoint (dbl c p))
    else if o == "neg" then cls (fmtPoint (neg c p))
    else if o == "norm" then cls (fmtPoint p)
    else if o == "on_curve" then cls ("r=" ++ (if onCurve c p then "1" else "0"))
    else if o == "mul_cof" then cls (fmtPoint (mul c p e.h))
    else if o == "psi" then
      -- (x, y) ↦ (βx, y): an endomorphism acting as multiplication by λ on the order-n group; checked as
      -- "on curve, same y, x·β" by the caller of C18; here only that the result is [λ]P for some cube root: compare x³
      match p, parsePoint got with
      | some (x, y), some (some (x', y')) =>
        let ok := y == y' && (x' * x' % c.p * x') % c.p == (x * x % c.p * x) % c.p
        some { model := got, spec := if ok then [got] else ["(beta*x, y)"] }
      | none, _ => cls "inf"
      | _, _ => cls "<point>"
    else none
  | "epm", [v, _, p, k] => do
    let p0 ← parsePoint p
    let k ← pI k
    let p := if v == "gen" then e.g else p0
    let k := if v == "dig" then ((k.natAbs % 2 ^ w : Nat) : Int) else k
    cls (fmtPoint (mul c p k))
  | "eps", [v, p, k, q, m] => do
    let p0 ← parsePoint p
    let q ← parsePoint q
    let k ← pI k
    let m ← pI m
    let p := if v == "gen" then e.g else p0
    cls (fmtPoint (add c (mul c p k) (mul c q m)))
  | "epl", n :: rest => do
    let n ← n.toNat?
    let rec go (i : Nat) (l : List String) (acc : Point) : Option Point :=
      match i, l with
      | 0, _ => some acc
      | i + 1, p :: k :: l => do
        let p ← parsePoint p
        let k ← pI k
        go i l (add c acc (mul c p k))
      | _, _ => none
    let r ← go n rest none
    cls (fmtPoint r)
  | "epd", n :: rest => do
    let n ← n.toNat?
    let rec goD (i : Nat) (l : List String) (acc : Point) : Option Point :=
      match i, l with
      | 0, _ => some acc
      | i + 1, p :: k :: l => do
        let p ← parsePoint p
        let k ← pI k
        goD i l (add c acc (mul c p ((k.natAbs % 2 ^ w : Nat) : Int)))
      | _, _ => none
    let r ← goD n rest none
    cls (fmtPoint r)
  | _, _ => none

end Driver.C03
