/- C03 handlers: prime curves. Specification: affine chord-and-tangent arithmetic of Spec/Curve.lean. -/
import Driver.Util
import RelicVerif.Spec.Curve
import RelicVerif.Spec.CurveFast
import RelicVerif.Gen.EpFormulas
import RelicVerif.Model.EpMul

namespace Driver.C03
open Driver Relic.Spec.Curve
open Relic.Model.Formula

structure Env where
  c : Curve
  g : Point
  n : Nat
  h : Nat
  endom : Bool
  kv : List (String × String)

def parseEnv (got : String) : Option Env := do
  let kv := (got.splitOn " ").filterMap fun t => match t.splitOn "=" with
    | [k, v] => some (k, v)
    | _ => none
  let p ← parseHexNat (← kv.lookup "p")
  let a ← parseHexNat (← kv.lookup "a")
  let b ← parseHexNat (← kv.lookup "b")
  let gx ← parseHexNat (← kv.lookup "gx")
  let gy ← parseHexNat (← kv.lookup "gy")
  let n ← parseHexNat (← kv.lookup "n")
  let h ← parseHexNat (← kv.lookup "h")
  some { c := { p := p, a := a, b := b }, g := some (gx, gy), n := n, h := h, endom := kv.lookup "endom" == some "1", kv := kv }

/-- consistency of what the library reports (full parameter checks are C18) -/
def checkParamBase (e : Env) : List String :=
  (if onCurve e.c e.g then [] else ["generator not on curve"]) ++
  (if mul e.c e.g e.n == none then [] else ["n*G != O"]) ++
  (if e.g != none then [] else ["generator is the identity"])

/-- the operand as the C function receives it: the affine point in the requested representation -/
def parseRep (p : Nat) (s : String) : Option (Pt Nat) :=
  if s == "inf" then some ⟨0, 0, 0, .basic⟩ else
  match s.splitOn "," with
  | [x, y] => do
    let x ← parseHexNat x
    let y ← parseHexNat y
    some ⟨x % p, y % p, 1 % p, .basic⟩
  | [x, y, z, r] => do
    let x ← parseHexNat x
    let y ← parseHexNat y
    let z ← parseHexNat z
    if r == "P" then some ⟨x * z % p, y * z % p, z % p, .projc⟩
    else some ⟨x * (z * z % p) % p, y * (z * z % p * z % p) % p, z % p, .jacob⟩
  | _ => none

/-- ep_norm of the model's result: the affine point a representation denotes -/
def normPt (p : Nat) (r : Pt Nat) : Point :=
  if r.z % p = 0 then none else
  let zi := Relic.Model.Formula.invEuclid p r.z
  match r.coord with
  | .basic => some (r.x % p, r.y % p)
  | .projc => some (r.x * zi % p, r.y * zi % p)
  | .jacob => some (r.x * (zi * zi % p) % p, r.y * (zi * zi % p * zi % p) % p)

def optAOf (s : Option String) : OptA :=
  match s with
  | some "0" => .zero
  | some "1" => .one
  | some "2" => .two
  | some "3" => .min3
  | some "4" => .tiny
  | _ => .huge

def parsePoint (s : String) : Option Point :=
  if s == "inf" then some none else
  match s.splitOn "," with
  | x :: y :: _ => do
    let x ← parseHexNat x
    let y ← parseHexNat y
    some (some (x, y))
  | _ => none

def fmtPoint : Point → String
  | none => "inf"
  | some (x, y) => natToHex x ++ "," ++ natToHex y


/-! ### model column of the scalar multiplications: the loops of Model/MulAlg.lean and Model/EpMul.lean with the recodings of
    Model/Rec.lean (C buffer sizes as capacities) over Jacobian arithmetic (Spec/CurveFast.lean; proved to represent the affine
    law in Lemmas/CurveFast.lean), the endomorphism (x, y) ↦ (βx, y), one normalisation at the end -/

section mulModel
open Relic.Spec.CurveFast (Jac jadd toAffine ofAffine)
open Relic.Model.MulAlg Relic.Model.EpMul Relic.Model.Rec
open Relic.Model.EbMul (tabCombs combCol)

def jneg (p : Nat) (j : Jac) : Jac := ⟨j.x, (p - j.y % p) % p, j.z⟩
def jops (c : Curve) : Ops Jac := ⟨Jac.inf, jadd c, jneg c.p⟩
def jpsi (c : Curve) (beta : Nat) (j : Jac) : Jac := ⟨beta * j.x % c.p, j.y, j.z⟩
def jIsInf (c : Curve) (j : Jac) : Bool := j.z % c.p == 0

structure MulCtx where
  c : Curve
  n : Nat
  g : Point
  endom : Bool
  beta : Nat
  v1 : Int × Int × Int
  v2 : Int × Int × Int
  width : Nat
  depth : Nat
  fpbits : Nat
  wd : Nat

def parseHexInt' (s : String) : Option Int :=
  if s.startsWith "-" then (parseHexNat (s.drop 1).toString).map fun n => -(n : Int) else (parseHexNat s).map fun n => (n : Int)

def mkCtx (e : Env) (wd : Nat) : Option MulCtx := do
  let num := fun (k : String) => (e.kv.lookup k).bind String.toNat?
  let width ← num "width"
  let depth ← num "depth"
  let fpbits ← num "fpbits"
  let iv := fun (k : String) => ((e.kv.lookup k).bind parseHexInt').getD 0
  some { c := e.c, n := e.n, g := e.g, endom := e.endom, beta := ((e.kv.lookup "beta").bind parseHexNat).getD 0,
         v1 := (iv "v10", iv "v11", iv "v12"), v2 := (iv "v20", iv "v21", iv "v22"),
         width := width, depth := depth, fpbits := fpbits, wd := wd }

/-- the lattice rows of the GLV data annihilate G: v11·G + v12·ψ(G) = O, v21·G + v22·ψ(G) = O (hypothesis of `recGlv_congr`
    with λ the eigenvalue of ψ) -/
def checkGlvLattice (m : MulCtx) : List String :=
  if !m.endom then [] else
  match m.g with
  | some (gx, gy) =>
    let psiG : Point := some (m.beta * gx % m.c.p, gy)
    let row := fun (a b : Int) => add m.c (mul m.c m.g a) (mul m.c psiG b) == none
    (if row m.v1.2.1 m.v1.2.2 then [] else ["GLV row v1 does not annihilate G"]) ++
    (if row m.v2.2.1 m.v2.2.2 then [] else ["GLV row v2 does not annihilate G"])
  | none => []

/-- consistency of what the library reports (full parameter checks are C18), plus the GLV lattice rows -/
def checkParam (e : Env) : List String :=
  checkParamBase e ++ (match mkCtx e 64 with
    | some m => checkGlvLattice m
    | none => [])   -- context lines of other harness files (sigpc_param) do not report the multiplication parameters

def fmtJ (c : Curve) (j : Jac) : String := fmtPoint (toAffine c j)
def ceilDiv (a b : Nat) : Nat := (a + b - 1) / b
def emod (k : Int) (n : Nat) : Nat := (k % (n : Int)).toNat
def negDigits (b : Bool) (ds : List Int) : List Int := if b then ds.map (fun d => -d) else ds

/-- ep_mul_lwnaf / ep_mul (EP_MUL = LWNAF) after the early exit: Jacobian result or none = reported error -/
def mLwnaf (m : MulCtx) (p : Jac) (k : Int) : Option Jac :=
  let o := jops m.c
  let K := emod k m.n
  if m.endom then
    let (k0, k1) := recGlv K m.n m.v1 m.v2
    match recNaf (m.fpbits + 1) k0.natAbs m.width, recNaf (m.fpbits + 1) k1.natAbs m.width with
    | some n0, some n1 => some (mulGlv o (jpsi m.c m.beta) p (2 ^ (m.width - 2)) (k0 < 0) (k1 < 0) n0 n1)
    | _, _ => none
  else
    (recNaf (m.fpbits + 2) K m.width).map fun ds => mulSigned o (tabOdd o p (2 ^ (m.width - 2))) o.zero ds

/-- ep_mul_fix_combs on the table of P (k ≠ 0) -/
def mCombs (m : MulCtx) (tab : List Jac) (k : Int) : Jac :=
  let o := jops m.c
  let K := emod k m.n
  let bitsN := bitLen m.n
  if m.endom then
    let l := ceilDiv bitsN (2 * m.depth)
    let (k0, k1) := recGlv K m.n m.v1 m.v2
    mulCombsEndom o (jpsi m.c m.beta) tab l m.depth k0.natAbs (k0 < 0) k1.natAbs (k1 < 0)
  else mulCombsPlain o tab K (ceilDiv bitsN m.depth) m.depth

def combsL (m : MulCtx) : Nat := if m.endom then ceilDiv (bitLen m.n) (2 * m.depth) else ceilDiv (bitLen m.n) m.depth

def mNafDig (m : MulCtx) (p : Jac) (k : Nat) (cap : Nat) : Option Jac :=
  (recNaf cap k 2).map fun ds => mulSigned (jops m.c) [p] Jac.inf ds

/-- `epm`: none = no model for this variant; some "err" = the model predicts a reported error -/
def modelMul (m : MulCtx) (v : String) (pt : Point) (k : Int) : Option String :=
  let o := jops m.c
  let c := m.c
  let p := ofAffine pt
  let w := m.width
  let d := m.depth
  let bitsN := bitLen m.n
  let K := emod k m.n
  let sgn := fun (r : Jac) => if k < 0 then o.neg r else r
  let out := fun (r : Option Jac) => match r with
    | some j => some (fmtJ c j)
    | none => some "err"
  let trivial := k == 0 || pt == none
  if v == "basic" then
    if trivial then some "inf"
    else if bitLen k.natAbs ≤ m.wd then out ((mNafDig m p k.natAbs (m.wd + 1)).map sgn)
    else out ((mNafDig m p k.natAbs (bitLen k.natAbs + 1)).map sgn)
  else if v == "dig" then
    if trivial then some "inf" else out (mNafDig m p k.natAbs (m.wd + 1))
  else if v == "slide" then
    if trivial then some "inf" else
    out ((recSlw (m.fpbits + 1) K w).map fun win => mulSlide o (tabOdd o p (2 ^ (w - 1))) o.zero win)
  else if v == "monty" then
    if trivial then some "inf" else
    let l := K + m.n
    let l := if l.testBit bitsN then l else l + m.n
    out (some (mulLadder o p ((List.range bitsN).reverse.map fun i => l.testBit i)))
  else if v == "lwnaf" || v == "mul" then
    if trivial then some "inf" else out (mLwnaf m p k)
  else if v == "lwreg" then
    if trivial then some "inf"
    else if m.endom then
      let (k0, k1) := recGlv K m.n m.v1 m.v2
      let a0 := k0.natAbs
      let a1 := k1.natAbs
      match recReg (m.fpbits + 1) (a0 ||| 1) (bitsN >>> 1) w, recReg (m.fpbits + 1) (a1 ||| 1) (bitsN >>> 1) w with
      | some r0, some r1 =>
        out (some (mulRegGlv o (jpsi c m.beta) p (2 ^ (w - 2)) w (k0 < 0) (k1 < 0) (a0 % 2 == 0) (a1 % 2 == 0) r0 r1))
      | _, _ => some "err"
    else
      let kk := k.natAbs % m.n
      out ((recReg (ceilDiv bitsN (w - 1) + 1) (kk ||| 1) bitsN w).map fun reg =>
        sgn (mulReg o (tabOdd o p (2 ^ (w - 2))) o.zero w reg (kk % 2 == 0) p))
  else if v == "gen" then
    if k == 0 then some "inf" else
    out (some (mCombs m (tabCombs o (ofAffine m.g) (combsL m) d) k))
  else if v == "fix_basic" then
    if pt == none then some "err" else if k == 0 then some "inf" else
    out (some (mulFixBasic o (tabPow2 o p bitsN) o.zero K))
  else if v == "fix_combs" || v == "fix_" then
    if pt == none then some "err" else if k == 0 then some "inf" else
    out (some (mCombs m (tabCombs o p (combsL m) d) k))
  else if v == "fix_combd" then
    if pt == none then some "err" else if k == 0 then some "inf" else
    let dd := ceilDiv bitsN d
    let e := ceilDiv dd 2
    out (some (mulCombd o (tabCombd o p dd e d) K dd e d))
  else if v == "fix_lwnaf" then
    if pt == none then some "err" else if k == 0 || K == 0 then some "inf" else
    out ((recNaf (m.fpbits + 1) K d).map fun ds => mulSigned o (tabOdd o p (2 ^ (d - 2))) o.zero ds)
  else none

/-- ep_mul (= ep_mul_lwnaf) as a sub-routine, Jacobian result -/
def mMul (m : MulCtx) (pt : Point) (k : Int) : Option Jac :=
  if k == 0 || pt == none then some Jac.inf else mLwnaf m (ofAffine pt) k

/-- ep_mul_sim_inter -/
def mInter (m : MulCtx) (pt : Point) (k : Int) (qt : Point) (l : Int) : Option Jac :=
  let o := jops m.c
  let w := m.width
  if k == 0 || pt == none then mMul m qt l
  else if l == 0 || qt == none then mMul m pt k
  else
    let K := emod k m.n
    let L := emod l m.n
    let p := ofAffine pt
    let q := ofAffine qt
    let cap := m.fpbits + 1
    let tl := 2 ^ (w - 2)
    if m.endom then
      let (k0, k1) := recGlv K m.n m.v1 m.v2
      let (l0, l1) := recGlv L m.n m.v1 m.v2
      match recNaf cap k0.natAbs w, recNaf cap k1.natAbs w, recNaf cap l0.natAbs w, recNaf cap l1.natAbs w with
      | some n0, some n1, some n2, some n3 =>
        some (simEndom o (jpsi m.c m.beta) (tabOdd o p tl) (tabOdd o q tl) (k0 < 0) (k1 < 0) (l0 < 0) (l1 < 0) n0 n1 n2 n3)
      | _, _, _, _ => none
    else
      match recNaf cap K w, recNaf cap L w with
      | some n0, some n1 => some (simInter o (tabOdd o p tl) (tabOdd o q tl) o.zero n0 n1)
      | _, _ => none

/-- `eps` -/
def modelSim (m : MulCtx) (v : String) (pt : Point) (k : Int) (qt : Point) (l : Int) : Option String :=
  let o := jops m.c
  let c := m.c
  let out := fun (r : Option Jac) => match r with
    | some j => some (fmtJ c j)
    | none => some "err"
  let K := emod k m.n
  let L := emod l m.n
  let p := ofAffine pt
  let q := ofAffine qt
  if v == "basic" then
    match mMul m qt l, mMul m pt k with
    | some a, some b => out (some (o.add a b))
    | _, _ => some "err"
  else if v == "inter" || v == "sim" then out (mInter m pt k qt l)
  else if v == "gen" then
    if k == 0 then out (mMul m qt l)
    else if l == 0 || qt == none then modelMul m "gen" m.g k
    else out (mInter m m.g (K : Int) qt (L : Int))
  else if v == "trick" then
    if k == 0 || pt == none then out (mMul m qt l)
    else if l == 0 || qt == none then out (mMul m pt k)
    else
      let w := m.width / 2
      let tab := tabTrick o p q w
      -- ep_norm_sim over t[2 …]: an identity among them is a reported error (known finding F24)
      if (tab.drop 2).any (jIsInf c) then some "err" else
      let cap := ceilDiv (m.fpbits + 1) w
      match recWin cap K w, recWin cap L w with
      | some w0, some w1 => out (some (simTrick o tab o.zero w w0 w1))
      | _, _ => some "err"
  else if v == "joint" then
    if k == 0 || pt == none then out (mMul m qt l)
    else if l == 0 || qt == none then out (mMul m pt k)
    else
      if jIsInf c (o.add p q) || jIsInf c (o.sub p q) then some "err" else
      match recJsf (2 * (m.fpbits + 1)) K L with
      | some (j0, j1) => out (some (simJoint o p q j0 j1))
      | none => some "err"
  else none

/-- `epl` (ep_mul_sim_lot) -/
def modelLot (m : MulCtx) (pks : List (Point × Int)) : Option String :=
  let o := jops m.c
  let c := m.c
  let n := pks.length
  if n == 0 then some "inf" else
  let psi := jpsi c m.beta
  if m.endom then
    let cap := m.fpbits + 1
    let subs := pks.map fun (pk : Point × Int) => (ofAffine pk.1, recGlv (emod pk.2 m.n) m.n m.v1 m.v2)
    if n ≤ 10 then
      let pts := subs.flatMap fun (s : Jac × (Int × Int)) =>
        [if s.2.1 < 0 then o.neg s.1 else s.1, if s.2.2 < 0 then o.neg (psi s.1) else psi s.1]
      let nafs := subs.flatMap fun (s : Jac × (Int × Int)) => [recNaf cap s.2.1.natAbs 2, recNaf cap s.2.2.natAbs 2]
      if nafs.any Option.isNone then some "err" else
      let nafs := nafs.map fun x => x.getD []
      let l := (nafs.map List.length).foldl max 0
      some (fmtJ c (simLotNaf o pts nafs l))
    else
      let w := max 2 (bitLen n - 2)
      let cc := 2 ^ (w - 2)
      let nafs := subs.map fun (s : Jac × (Int × Int)) =>
        ((recNaf cap s.2.1.natAbs w).map (negDigits (s.2.1 < 0)), (recNaf cap s.2.2.natAbs w).map (negDigits (s.2.2 < 0)))
      if nafs.any (fun x => x.1.isNone || x.2.isNone) then some "err" else
      let nafs := nafs.map fun x => (x.1.getD [], x.2.getD [])
      let l := (nafs.map fun x => max x.1.length x.2.length).foldl max 0
      some (fmtJ c (simLotBucket o psi (subs.map (·.1)) nafs cc l))
  else
    let l := (pks.map fun (pk : Point × Int) => bitLen pk.2.natAbs + 1).foldl max 0
    let pts := pks.map fun (pk : Point × Int) => if pk.2 < 0 then o.neg (ofAffine pk.1) else ofAffine pk.1
    let nafs := pks.map fun (pk : Point × Int) => recNaf l pk.2.natAbs 2
    if nafs.any Option.isNone then some "err" else
    some (fmtJ c (simLotNaf o pts (nafs.map fun x => x.getD []) l))

/-- `eptab`: the precomputation tables -/
def modelTab (m : MulCtx) (v : String) (pt : Point) : Option (List Jac × List Nat) :=
  let o := jops m.c
  let p := ofAffine pt
  let d := m.depth
  let bitsN := bitLen m.n
  let cv := fun (l : Nat) (cidx : Nat) => ((List.range d).map fun j => ((cidx >>> j) % 2) * 2 ^ (j * l)).foldl (· + ·) 0
  if v == "basic" then some (tabPow2 o p bitsN, (List.range bitsN).map fun i => 2 ^ i)
  else if v == "combs" then
    let l := combsL m
    some (tabCombs o p l d, (List.range (2 ^ d)).map (cv l))
  else if v == "combd" then
    let dd := ceilDiv bitsN d
    let e := ceilDiv dd 2
    some (tabCombd o p dd e d, ((List.range (2 ^ d)).map (cv dd)) ++ ((List.range (2 ^ d)).map fun i => 2 ^ e * cv dd i))
  else if v == "lwnaf" then some (tabOdd o p (2 ^ (d - 2)), (List.range (2 ^ (d - 2))).map fun i => 2 * i + 1)
  else none

/-- `epfixt`: the fixed-base loops on an arbitrary table; model = the loop, spec = the closed form Σ_i 2^i·(table entries selected
    by column / digit i) evaluated term by term -/
def modelFixT (m : MulCtx) (v : String) (k : Int) (tabP : List Point) : Option (String × String) :=
  let o := jops m.c
  let c := m.c
  let d := m.depth
  let bitsN := bitLen m.n
  let K := emod k m.n
  let tab := tabP.map ofAffine
  let scale := fun (i : Nat) (x : Jac) => Relic.Spec.CurveFast.jmulNat c x (2 ^ i)
  let sum := fun (l : List Jac) => l.foldl o.add o.zero
  let psi := jpsi c m.beta
  if k == 0 then some ("inf", "inf") else
  if v == "combs" then
    let l := combsL m
    if m.endom then
      let (k0, k1) := recGlv K m.n m.v1 m.v2
      let mdl := mulCombsEndom o psi tab l d k0.natAbs (k0 < 0) k1.natAbs (k1 < 0)
      let sg := fun (b : Bool) (x : Jac) => if b then o.neg x else x
      let top := tab.getD (2 ^ (d - 1)) o.zero
      let spec := sum ((List.range l).map fun i =>
        -- a zero column selects nothing (the code never reads t[0])
        let e0 := combCol k0.natAbs l d i
        let e1 := combCol k1.natAbs l d i
        scale i (o.add (if e0 = 0 then o.zero else sg (k0 < 0) (tab.getD e0 o.zero)) (if e1 = 0 then o.zero else sg (k1 < 0) (psi (tab.getD e1 o.zero)))))
      let spec := o.add spec (scale l (o.add (if bitLen k0.natAbs > d * l then top else o.zero) (if bitLen k1.natAbs > d * l then psi top else o.zero)))
      some (fmtJ c mdl, fmtJ c spec)
    else
      let mdl := mulCombsPlain o tab K l d
      -- t[0] is read for the top column only
      let spec := sum ((List.range l).map fun i =>
        let e0 := combCol K l d i
        scale i (if e0 = 0 && i + 1 != l then o.zero else tab.getD e0 o.zero))
      some (fmtJ c mdl, fmtJ c spec)
  else if v == "combd" then
    let dd := ceilDiv bitsN d
    let e := ceilDiv dd 2
    let mdl := mulCombd o tab K dd e d
    let spec := sum ((List.range e).map fun i =>
      scale i (o.add (tab.getD (combCol K dd d i) o.zero) (tab.getD (2 ^ d + (if i + e < dd then combCol K dd d (i + e) else 0)) o.zero)))
    some (fmtJ c mdl, fmtJ c spec)
  else if v == "lwnaf" then
    if K == 0 then some ("inf", "inf") else
    match recNaf (m.fpbits + 1) K d with
    | none => some ("err", "err")
    | some ds =>
      let mdl := mulSigned o tab o.zero ds
      let spec := sum ((List.range ds.length).map fun i =>
        let dg := ds.getD i 0
        scale i (if dg > 0 then tab.getD (dg.toNat / 2) o.zero else if dg < 0 then o.neg (tab.getD ((-dg).toNat / 2) o.zero) else o.zero))
      some (fmtJ c mdl, fmtJ c spec)
  else none

end mulModel

partial def handle (e : Env) (w : Nat) (op : String) (args : List String) (got : String) : Option Verdict :=
  let c := e.c
  let cls := fun (s : String) => some ({ model := s, spec := [s] } : Verdict)
  let pI := fun (s : String) => (parseBn w s).map (Relic.Model.Bn.toInt (2 ^ w))
  match op, args with
  | "ep2", [o, al, p, q] => do
    let p ← parsePoint p
    let q0 ← parsePoint q
    let q := if al == "3" || al == "4" then p else q0
    -- model column: the generated formula code (RelicVerif/Gen/EpFormulas.lean) on the presented representation
    let cv : CurveC Nat := { a := c.a, b := c.b, optA := optAOf (e.kv.lookup "opta") }
    let ops := natOps c.p
    let genAdd : Option (FOps Nat → CurveC Nat → Pt Nat → Pt Nat → Pt Nat) :=
      if o == "add_basic" then some Relic.Gen.ep_add_basic
      else if o == "add_projc" || o == "add" then some Relic.Gen.ep_add_projc
      else if o == "add_jacob" then some Relic.Gen.ep_add_jacob else none
    match genAdd, parseRep c.p (args.getD 2 ""), parseRep c.p (if al == "3" || al == "4" then args.getD 2 "" else args.getD 3 "") with
    | some f, some pr, some qr =>
      some { model := fmtPoint (normPt c.p (f ops cv pr qr)), spec := [fmtPoint (add c p q)], tags := ["gen." ++ o] }
    | _, _, _ =>
    if o.startsWith "add" then cls (fmtPoint (add c p q))
    else if o == "sub" then cls (fmtPoint (add c p (neg c q)))
    else if o == "cmp" then cls (if p == q then "r=0" else "r=2")
    else none
  | "ep1", [o, _, p] => do
    let p ← parsePoint p
    let cv : CurveC Nat := { a := c.a, b := c.b, optA := optAOf (e.kv.lookup "opta") }
    let genDbl : Option (FOps Nat → CurveC Nat → Pt Nat → Pt Nat) :=
      if o == "dbl_basic" then some Relic.Gen.ep_dbl_basic
      else if o == "dbl_projc" || o == "dbl" then some Relic.Gen.ep_dbl_projc
      else if o == "dbl_jacob" then some Relic.Gen.ep_dbl_jacob else none
    match genDbl, parseRep c.p (args.getD 2 "") with
    | some f, some pr =>
      some { model := fmtPoint (normPt c.p (f (natOps c.p) cv pr)), spec := [fmtPoint (dbl c p)], tags := ["gen." ++ o] }
    | _, _ =>
    if o.startsWith "dbl" then cls (fmtPoint (dbl c p))
    else if o == "neg" then cls (fmtPoint (neg c p))
    else if o == "norm" then cls (fmtPoint p)
    else if o == "on_curve" then cls ("r=" ++ (if onCurve c p then "1" else "0"))
    else if o == "mul_cof" then cls (fmtPoint (mul c p e.h))
    else if o == "psi" then
      -- (x, y) ↦ (βx, y): an endomorphism acting as multiplication by λ on the order-n group; checked as
      -- "on curve, same y, x·β" by the caller of C18; here only that the result is [λ]P for some cube root: compare x³
      match p, parsePoint got with
      | some (x, y), some (some (x', y')) =>
        let ok := y == y' && (x' * x' % c.p * x') % c.p == (x * x % c.p * x) % c.p
        some { model := got, spec := if ok then [got] else ["(beta*x, y)"] }
      | none, _ => cls "inf"
      | _, _ => cls "<point>"
    else none
  | "epm", [v, _, p, k] => do
    let p0 ← parsePoint p
    let k ← pI k
    let p := if v == "gen" then e.g else p0
    let k := if v == "dig" then ((k.natAbs % 2 ^ w : Nat) : Int) else k
    let spec := fmtPoint (mul c p k)
    match (mkCtx e w).bind fun m => modelMul m v p k with
    | some mdl => some { model := mdl, spec := [spec], tags := ["model.mul." ++ v ++ (if e.endom then ".endom" else ".plain")] ++ (if mdl == "err" then ["model.err"] else []) }
    | none => cls spec
  | "eps", [v, p, k, q, m] => do
    let v := (v.splitOn ".").headD v          -- suffix .p / .q: the result object is an operand; the value is the same
    let p0 ← parsePoint p
    let q ← parsePoint q
    let k ← pI k
    let m ← pI m
    let p := if v == "gen" then e.g else p0
    let spec := fmtPoint (add c (mul c p k) (mul c q m))
    match (mkCtx e w).bind fun mc => modelSim mc v p k q m with
    | some mdl => some { model := mdl, spec := [spec], tags := ["model.sim." ++ v ++ (if e.endom then ".endom" else ".plain")] ++ (if mdl == "err" then ["model.err"] else []) }
    | none => cls spec
  | "eplc", [n, p, a, b] => do
    -- compact ep_mul_sim_lot: points P, 2P, …, nP, scalars a, a + b, …; specification Σ (a + i b)(i + 1) P, model = the sim_lot model on the list
    let n ← n.toNat?
    let p ← parsePoint p
    let a ← pI a
    let b ← pI b
    let pts := (List.range n).foldl (fun (acc : List Point) _ => match acc.getLast? with
      | none => [p]
      | some q => acc ++ [add c q p]) []
    let pks := (pts.zip (List.range n)).map fun (q, i) => (q, a + (i : Int) * b)
    let r := pks.foldl (fun acc (pk : Point × Int) => add c acc (mul c pk.1 pk.2)) none
    match (mkCtx e w).bind fun mc => modelLot mc pks with
    | some mdl => some { model := mdl, spec := [fmtPoint r], tags := ["eplc", "sim_lot.n" ++ toString n] }
    | none => cls (fmtPoint r)
  | "epla", _ :: rest => handle e w "epl" rest got
  | "epda", _ :: rest => handle e w "epd" rest got
  | "epl", n :: rest => do
    let n ← n.toNat?
    let rec go (i : Nat) (l : List String) (acc : Point) : Option Point :=
      match i, l with
      | 0, _ => some acc
      | i + 1, p :: k :: l => do
        let p ← parsePoint p
        let k ← pI k
        go i l (add c acc (mul c p k))
      | _, _ => none
    let r ← go n rest none
    let rec pairs (i : Nat) (l : List String) : Option (List (Point × Int)) :=
      match i, l with
      | 0, _ => some []
      | i + 1, p :: k :: l => do
        let p ← parsePoint p
        let k ← pI k
        let t ← pairs i l
        some ((p, k) :: t)
      | _, _ => none
    let pks ← pairs n rest
    match (mkCtx e w).bind fun mc => modelLot mc pks with
    | some mdl => some { model := mdl, spec := [fmtPoint r], tags := ["model.sim_lot" ++ (if e.endom then (if n ≤ 10 then ".endom.naf" else ".endom.bucket") else ".plain")] }
    | none => cls (fmtPoint r)
  | "epd", n :: rest => do
    let n ← n.toNat?
    let rec goD (i : Nat) (l : List String) (acc : Point) : Option Point :=
      match i, l with
      | 0, _ => some acc
      | i + 1, p :: k :: l => do
        let p ← parsePoint p
        let k ← pI k
        goD i l (add c acc (mul c p ((k.natAbs % 2 ^ w : Nat) : Int)))
      | _, _ => none
    let r ← goD n rest none
    let rec pairsD (i : Nat) (l : List String) : Option (List (Point × Nat)) :=
      match i, l with
      | 0, _ => some []
      | i + 1, p :: k :: l => do
        let p ← parsePoint p
        let k ← pI k
        let t ← pairsD i l
        some ((p, k.natAbs % 2 ^ w) :: t)
      | _, _ => none
    let pks ← pairsD n rest
    let mx := (pks.map fun (pk : Point × Nat) => Relic.Model.Rec.bitLen pk.2).foldl max 0
    let mdl := fmtJ c (Relic.Model.EpMul.simDig (jops c) (pks.map fun pk => Relic.Spec.CurveFast.ofAffine pk.1) (pks.map (·.2)) mx)
    some { model := mdl, spec := [fmtPoint r], tags := ["model.sim_dig"] }
  | "eptab", [v, p] => do
    let pt ← parsePoint p
    let mc ← mkCtx e w
    let (tab, mults) ← modelTab mc v pt
    if pt == none then
      -- known finding F22: the identity as fixed base is a reported error
      some { model := "err", spec := [String.intercalate ";" (mults.map fun _ => "inf")], tags := ["model.tab." ++ v, "model.err"] }
    else
      let mdl := String.intercalate ";" (tab.map (fmtJ c))
      let spec := String.intercalate ";" (mults.map fun k => fmtPoint (Relic.Spec.CurveFast.mulNat c pt k))
      some { model := mdl, spec := [spec], tags := ["model.tab." ++ v ++ (if e.endom then ".endom" else ".plain")] }
  | "epfixt", v :: k :: tab => do
    let k ← pI k
    let tabP ← (match tab with
      | [] => []
      | t :: _ => t.splitOn ";").mapM parsePoint
    let mc ← mkCtx e w
    let (mdl, spec) ← modelFixT mc v k tabP
    some { model := mdl, spec := [spec], tags := ["model.fixt." ++ v ++ (if e.endom then ".endom" else ".plain")] }
  | "ep_write_bin", [len, pack, p] => do
    let len ← len.toNat?
    let p ← parsePoint p
    let nb := (Nat.log2 c.p) / 8 + 1
    let pairf := e.kv.lookup "pairf" != some "0"
    let R := 2 ^ (w * ((Nat.log2 c.p) / w + 1))
    let body := match p with
      | none => if len < 1 then "err" else natToHexPad 0 (2 * len)
      | some (x, y) =>
        if pack == "1" then
          if len < nb + 1 then "err" else
          -- the sign bit: y > (p-1)/2 on pairing-friendly curves, otherwise the low bit of the stored (Montgomery) form of y
          let b := if pairf then (if y > c.p / 2 then 1 else 0) else (y * R % c.p) % 2
          natToHexPad (2 + b) 2 ++ natToHexPad x (2 * nb) ++ (if len > nb + 1 then natToHexPad 0 (2 * (len - nb - 1)) else "")
        else
          if len < 2 * nb + 1 then "err" else
          "04" ++ natToHexPad x (2 * nb) ++ natToHexPad y (2 * nb) ++ (if len > 2 * nb + 1 then natToHexPad 0 (2 * (len - 2 * nb - 1)) else "")
    let size := match p with
      | none => 1
      | some _ => if pack == "1" then nb + 1 else 2 * nb + 1
    let s := (if body == "" then "." else body) ++ " size=" ++ toString size
    cls s
  | "ep_read_bin", [h] => do
    let nb := (Nat.log2 c.p) / 8 + 1
    let pairf := e.kv.lookup "pairf" != some "0"
    let R := 2 ^ (w * ((Nat.log2 c.p) / w + 1))
    let bytes := if h == "." then 0 else h.length / 2
    let tag := ((h.take 2).toString |> parseHexNat).getD 256
    let field := fun (i : Nat) => parseHexNat ((h.drop (2 + 2 * nb * i)).take (2 * nb)).toString
    let okPt := fun (x y : Nat) => fmtPoint (some (x, y)) ++ " on=1"
    let s : String :=
      if bytes = 1 then (if tag = 0 then "inf on=1" else "err")
      else if bytes = nb + 1 then
        match field 0 with
        | some x =>
          if x ≥ c.p ∨ (tag ≠ 2 ∧ tag ≠ 3) then "err" else
          let rhs := (x * x % c.p * x + c.a * x + c.b) % c.p
          -- a square root exists iff rhs is a square; pick the root whose sign bit matches the tag
          if rhs ≠ 0 ∧ powMod rhs ((c.p - 1) / 2) c.p ≠ 1 then "err" else
          -- the implementation's root is validated by the spec predicate on its output (below); here: expected sign
          match (got.splitOn " ") with
          | [pt, "on=1"] => match parsePoint pt with
            | some (some (x', y')) =>
              let b := if pairf then (if y' > c.p / 2 then 1 else 0) else (y' * R % c.p) % 2
              if x' = x ∧ y' < c.p ∧ y' * y' % c.p = rhs ∧ b = tag - 2 then got else "<the root of the curve equation with the tagged sign>"
            | _ => "<a point>"
          | _ => "<a point>"
        | none => "err"
      else if bytes = 2 * nb + 1 then
        match field 0, field 1 with
        | some x, some y =>
          if tag ≠ 4 ∨ x ≥ c.p ∨ y ≥ c.p ∨ !(onCurve c (some (x, y))) then "err" else okPt x y
        | _, _ => "err"
      else "err"
    cls s
  | _, _ => none

end Driver.C03
