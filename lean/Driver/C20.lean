/- C20 handlers: the generated branch-free programs are executed on the presented data and compared with the real
   primitives; the operation logs recorded from the library are compared with the instrumented models. -/
import Driver.C03
import RelicVerif.Model.CtAlg
import RelicVerif.Gen.Ct

namespace Driver.C20
open Driver Relic.Model Relic.Model.CtLang Relic.Model.CtAlg Relic.Spec.Curve

def parseDigs (s : String) : Option (List Nat) :=
  if s == "." then some [] else (s.splitOn ",").mapM parseHexNat

def fmtDigs (l : List Nat) : String :=
  if l.isEmpty then "." else String.intercalate "," (l.map natToHex)

def logStr (l : Log) : String := if l.isEmpty then "-" else String.ofList l

def bitsMsbFirst (n : Nat) : List Bool :=
  (List.range (bitLen n)).reverse.map fun i => n.testBit i

def powModN (a e m : Nat) : Nat := Relic.Spec.Curve.powMod a e m

def handle (ep : Option C03.Env) (w : Nat) (op : String) (args : List String) (got : String) : Option Verdict :=
  match op, args with
  | "ct_prim", [f, bit, n, cs, as_] => do
    let bit ← parseHexNat bit
    let n ← n.toNat?
    let c ← parseDigs cs
    let a ← parseDigs as_
    let B := 2 ^ w
    match f with
    | "copy" | "swap" =>
      let prog := if f == "copy" then Relic.Gen.Ct.dv_copy_sec w else Relic.Gen.Ct.dv_swap_sec w
      let st : St := { vars := [("digits", n), ("bit", bit)], arrs := [("c", c), ("a", a)] }
      let r := run prog st
      -- the same program on all-zero data and the other bit: the trace must be identical (instance of the theorem)
      let st0 : St := { vars := [("digits", n), ("bit", 1 - bit)], arrs := [("c", c.map fun _ => 0), ("a", a.map fun _ => 0)] }
      let r0 := run prog st0
      let model := fmtDigs (r.arr "c") ++ " " ++ fmtDigs (r.arr "a")
      let sel := fun (x y : List Nat) => if bit == 1 then y.take n ++ x.drop n else x
      let spec := if f == "copy" then fmtDigs (sel c a) ++ " " ++ fmtDigs a
                  else fmtDigs (sel c a) ++ " " ++ fmtDigs (sel a c)
      let ok := r.trace == r0.trace && c.all (· < B) && a.all (· < B)
      some { model := if ok then model else "trace-differs", spec := [spec], tags := [f, "bit" ++ toString bit, if n == 0 then "n0" else "n+"] }
    | "cmp" | "ucmp" =>
      let prog := if f == "cmp" then Relic.Gen.Ct.dv_cmp_sec w else Relic.Gen.Ct.util_cmp_sec w
      let st : St := { vars := [("size", n)], arrs := [("a", c), ("b", a)] }
      let r := run prog st
      let st0 : St := { vars := [("size", n)], arrs := [("a", c.map fun _ => 0), ("b", a.map fun _ => 0)] }
      let r0 := run prog st0
      let model := toString (r.result.getD 99)
      let spec := if c.take n == a.take n then "0" else "2"
      let ok := r.trace == r0.trace
      some { model := if ok then model else "trace-differs", spec := [spec], tags := [f, if spec == "0" then "eq" else "ne"] }
    | _ => none
  | "ct_rel", [f, _, k1, k2] => do
    -- two secret scalars of the same public length: the recorded sequences of group-level operations must be identical, and both
    -- results must be the group-law results (decided in the oracle against the basic algorithm; the value side is C03/C11/C12/C17's)
    let k1 ← (parseBn w k1).map (Relic.Model.Bn.toInt (2 ^ w))
    let k2 ← (parseBn w k2).map (Relic.Model.Bn.toInt (2 ^ w))
    let sameLen := bitLen k1.natAbs == bitLen k2.natAbs && (k1 < 0) == (k2 < 0)
    if !sameLen then some { model := got, spec := [got], tags := ["rel.skip"] } else
    let ok := got.startsWith "same=1 eq=1 "
    some { model := got, spec := [if ok then got else "same=1 eq=1 … (the operation sequence must not depend on the value of a scalar of this length)"],
           tags := ["rel." ++ f, "len" ++ toString ((bitLen k1.natAbs + 63) / 64 * 64)] }
  | "ct_scan", [f, _, cnt, _, bits] =>
    -- many pseudo-random secret scalars of one public length: every operation log must equal the first
    let ok := got.startsWith ("scan=" ++ cnt ++ " same=1 eq=1 ")
    some { model := got, spec := [if ok then got else "scan=" ++ cnt ++ " same=1 eq=1 … (the operation sequence must not depend on the value of a scalar of this length)"],
           tags := ["scan." ++ f, "bits" ++ bits] }
  | "ct_trace", f :: rest =>
    match f, rest with
    | "ep_monty", [p, k] => do
      let e ← ep
      let p ← C03.parsePoint p
      let k ← (parseBn w k).map (Relic.Model.Bn.toInt (2 ^ w))
      let nbits := bitLen e.n
      let res := mul e.c p k
      if k == 0 || p == none then
        some { model := "- inf", spec := ["- inf"], tags := ["monty.trivial"] }
      else
        -- the scalar as the C code normalises it: l = (k mod n) + n, + n again when bit `nbits` is still clear
        let m := (k % (e.n : Int)).toNat
        let l0 := m + e.n
        let l := if l0.testBit nbits then l0 else l0 + e.n
        let bs := (List.range nbits).reverse.map fun i => l.testBit i
        let o : MulAlg.Ops Point := { zero := none, add := add e.c, neg := neg e.c }
        let r := ladderI o 3 p bs
        some { model := logStr r.2 ++ " " ++ C03.fmtPoint r.1, spec := [logStr (ladderLog 3 nbits) ++ " " ++ C03.fmtPoint res],
               tags := ["monty", if l0.testBit nbits then "l+n" else "l+2n"] }
    | "ep_lwreg", [p, k] => do
      let e ← ep
      let p ← C03.parsePoint p
      let k ← (parseBn w k).map (Relic.Model.Bn.toInt (2 ^ w))
      let nbits := bitLen e.n
      let res := C03.fmtPoint (mul e.c p k)
      let width := ((got.splitOn " width=").getD 1 "4").toNat?.getD 4
      if k == 0 || p == none then
        some { model := got, spec := ["- inf width=" ++ toString width], tags := ["lwreg.trivial"] }
      else
        let lg := if e.endom then regGlvLog width 3 (2 ^ (width - 2)) ((nbits / 2 + width - 2) / (width - 1) + 1)
                  else regLog width 2 (2 ^ (width - 2)) ((nbits + width - 2) / (width - 1) + 1)
        some { model := got, spec := [logStr lg ++ " " ++ res ++ " width=" ++ toString width], tags := [if e.endom then "lwreg.glv" else "lwreg.plain"] }
    | "ep2_monty", [_, k] => do
      let e ← ep
      let k ← (parseBn w k).map (Relic.Model.Bn.toInt (2 ^ w))
      let nbits := bitLen e.n
      if k == 0 then some { model := got, spec := ["- eq=1"], tags := ["ep2.trivial"] }
      else some { model := got, spec := [logStr (ladderLog 6 nbits) ++ " eq=1"], tags := ["ep2.monty"] }
    | "eb_lodah", [_, _, k] => do
      let k ← (parseBn w k).map (Relic.Model.Bn.toInt (2 ^ w))
      let nbits := ((got.splitOn " nbits=").getD 1 "0").takeWhile (· != ' ') |>.toNat?.getD 0
      let tail := " nbits=" ++ (got.splitOn " nbits=").getD 1 ""
      let perBit := "mmssqqqmqss".toList
      let lg : Log := "qqsmmm".toList ++ expLadderLog nbits perBit ++ "mmmmmqmmmmm".toList
      if k == 0 then some { model := got, spec := [got], tags := ["eb.trivial"] }
      else some { model := got, spec := [logStr lg ++ " eq=1" ++ tail], tags := ["eb.lodah"] }
    | "bn_mxp", [a, x, m] => do
      let a ← (parseBn w a).map (Relic.Model.Bn.toInt (2 ^ w))
      let x ← parseHexNat x
      let m ← parseHexNat m
      let v := powModN (a % (m : Int)).toNat x m
      let lg : Log := ['V', 'V'] ++ expLadderLog (bitLen x) "sMRQRs".toList ++ ['W']
      if x == 0 then some { model := got, spec := ["- " ++ fmtIntNF w (1 % m)], tags := ["mxp.trivial"] }
      else some { model := got, spec := [logStr lg ++ " " ++ fmtIntNF w v], tags := ["mxp"] }
    | "fp_exp", [a, x] => do
      let e ← ep
      let a ← parseHexNat a
      let x ← parseHexNat x
      let v := powModN a x e.c.p
      let lg : Log := expLadderLog (bitLen x) "smqs".toList
      if x == 0 then some { model := got, spec := ["- " ++ fmtIntNF w 1], tags := ["fpexp.trivial"] }
      else some { model := got, spec := [logStr lg ++ " " ++ fmtIntNF w v], tags := ["fpexp"] }
    | "fb_exp", [_, x] => do
      let x ← parseHexNat x
      let lg : Log := expLadderLog (bitLen x) "smqs".toList
      if x == 0 then some { model := got, spec := ["- eq=1"], tags := ["fbexp.trivial"] }
      else some { model := got, spec := [logStr lg ++ " eq=1"], tags := ["fbexp"] }
    | _, _ => none
  | _, _ => none

end Driver.C20
