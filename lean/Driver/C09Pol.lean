/- C09 extension (Pol family): bn_evl / bn_lag. Model column = Model/NtPoly.lean; spec column = the definition
   (plain polynomial value mod b; monic polynomial with reduced coefficients vanishing at every root). -/
import Driver.C02
import RelicVerif.Model.NtPoly

namespace Driver.C09Pol
open Driver Relic.Model

def pI (w : Nat) (s : String) : Option Int := (parseBn w s).map (Bn.toInt (2 ^ w))

def outInt (s : String) : Option Int :=
  match s.splitOn ":u" with
  | [v, _] => parseHexInt v
  | _ => none

def handle (w _cap digs : Nat) (op : String) (args : List String) (got : String) : Option Verdict :=
  let fmt := fun (v : Int) => fmtIntNF w v
  let tooLong : Bool := args.any fun t => match parseBn w t with
    | some b => b.used > digs
    | none => false
  if tooLong then none else
  match op, args with
  | "nt_evl", x :: b :: coeffs => do
    let x ← pI w x
    let b ← pI w b
    let cs ← coeffs.mapM (pI w)
    if b ≤ 0 then none else
    -- specification: Σ a_j x^j mod b, computed with exact powers (no Horner, no intermediate reduction)
    let rec val (l : List Int) (j : Nat) (acc : Int) : Int :=
      match l with
      | [] => acc
      | a :: t => val t (j + 1) (acc + a * x ^ j)
    some { model := fmt (NtPoly.evl cs x b), spec := [fmt ((val cs 0 0) % b)],
           tags := ["evl:n=" ++ toString cs.length] ++ (if x < 0 then ["evl:x<0"] else []) ++ (if x ≥ b then ["evl:x>=b"] else []) ++
                   (if cs.any (· < 0) then ["evl:neg-coeff"] else []) ++ (if cs.any (· ≥ b) then ["evl:coeff>=b"] else []) }
  | "nt_lag", b :: pts => do
    let b ← pI w b
    let xs ← pts.mapM (pI w)
    if b ≤ 1 then none else
    let ok : Bool := match (got.splitOn " ").mapM outInt with
      | some cs => cs.length == xs.length + 1 && cs.getLast? == some 1 &&
          xs.all (fun a => (cs.foldr (fun c acc => (acc * a + c) % b) 0) % b == 0) && cs.all (fun c => 0 ≤ c && c < b)
      | none => false
    some { model := String.intercalate " " ((NtPoly.lag xs b).map fmt),
           spec := if ok then [got] else ["monic polynomial with coefficients in [0, b) vanishing at the given points"],
           tags := ["lag:n=" ++ toString xs.length] ++ (if xs.any (· < 0) then ["lag:neg-root"] else []) ++
                   (if xs.any (· ≥ b) then ["lag:root>=b"] else []) ++ (if xs.eraseDups.length < xs.length then ["lag:repeated-root"] else []) }
  | _, _ => none

end Driver.C09Pol
