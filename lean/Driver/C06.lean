/- C06 handlers: encryption schemes, key agreement, secret sharing, triples, set intersection.
   Context lines (`rsa_param`, `phpe_param`, …) carry the complete key material printed by the oracle; the driver keeps it in
   `State` and decrypts independently with the textbook definitions of Spec/Cp.lean.  Where a code-shaped model exists
   (Model/Cp.lean) it fills the `model` column; otherwise the model column repeats the implementation (class C). -/
import Driver.Util
import Driver.C15
import Driver.C03
import RelicVerif.Spec.Cp
import RelicVerif.Model.Cp

namespace Driver.C06
open Driver Driver.C15 Relic.Spec Relic.Spec.Cp Relic.Model
open Relic.Spec.Curve (powMod invEuclid mulNat add onCurve Point)

def h256 : Mac.Hash := { h := Sha256.sha256, outLen := 32, blockLen := 64 }

def kvOf (s : String) : List (String × String) :=
  (s.splitOn " ").filterMap fun t => match t.splitOn "=" with
    | [k, v] => some (k, v)
    | _ => none

def optBytes : Option Bytes → String
  | some b => fmtBytes b
  | none => "err"

def hexN (kv : List (String × String)) (k : String) : Option Nat := (kv.lookup k).bind parseHexNat
def hexI (kv : List (String × String)) (k : String) : Option Int := (kv.lookup k).bind parseHexInt

/-! ### primality of reported key factors: strong probable-prime test to fixed bases (class C, the generators are C09) -/

def smallPrimes : List Nat := [2, 3, 5, 7, 11, 13, 17, 19, 23, 29, 31, 37]

def strongProbablePrime (n a : Nat) : Bool :=
  -- n − 1 = 2^s · d, d odd
  let rec split (fuel d s : Nat) : Nat × Nat :=
    match fuel with
    | 0 => (d, s)
    | f + 1 => if d % 2 = 0 ∧ d > 0 then split f (d / 2) (s + 1) else (d, s)
  let (d, s) := split (Nat.log2 n + 2) (n - 1) 0
  let x := powMod a d n
  if x = 1 ∨ x = n - 1 then true else
  let rec sq (k x : Nat) : Bool :=
    match k with
    | 0 => false
    | k + 1 => let x := x * x % n; if x = n - 1 then true else sq k x
  sq (s - 1) x

def probPrime (n : Nat) : Bool :=
  if n < 2 then false
  else if smallPrimes.contains n then true
  else if smallPrimes.any (fun p => n % p = 0) then false
  else smallPrimes.all (strongProbablePrime n)

/-! ### state -/

structure RsaCtx where
  key : RsaKey
  pad : RsaPad
  crt : Bool

structure RabinCtx where
  n : Nat
  p : Nat
  q : Nat
  dp : Int
  dq : Int

structure BdpeCtx where
  n : Nat
  p : Nat
  q : Nat
  y : Nat
  t : Nat

structure PhpeCtx where
  n : Nat
  p : Nat
  q : Nat
  dp : Nat
  dq : Nat
  qi : Nat
  crt : Bool

structure GhpeCtx where
  n : Nat
  l : Nat

structure ShpeCtx where
  n : Nat
  g : Nat
  a : Nat
  b : Nat
  p : Nat
  q : Nat

structure State where
  rsa : Option RsaCtx := none
  rabin : Option RabinCtx := none
  bdpe : Option BdpeCtx := none
  phpe : Option PhpeCtx := none
  ghpe : Option GhpeCtx := none
  shpe : Option ShpeCtx := none

def isParam (op : String) : Bool :=
  ["rsa_param", "rsa_key_param", "rabin_param", "bdpe_param", "phpe_param", "ghpe_param", "shpe_param"].contains op

def verdictLine (what : String) (bad : List String) (got : String) : String :=
  if bad.isEmpty then "ok " ++ what
  else "FAIL S model=[] spec=[" ++ String.intercalate ";" bad ++ "] got=[" ++ got ++ "]"

def chk (b : Bool) (msg : String) : List String := if b then [] else [msg]

/-- context lines: parse the key the library generated, check it against the scheme's key equations -/
def param (st : State) (op : String) (args : List String) (got : String) : String × State :=
  let kv := kvOf got
  let fail := fun (st' : State) => ("FAIL S model=[] spec=[a generated key] got=[" ++ got ++ "]", st')
  -- a key generation that reports an error has not generated a key: nothing to check, no key in the context
  if got == "err" then
    ("ok " ++ op ++ "-refused", match op with
      | "rsa_param" | "rsa_key_param" => { st with rsa := none }
      | "rabin_param" => { st with rabin := none }
      | "bdpe_param" => { st with bdpe := none }
      | "phpe_param" => { st with phpe := none }
      | "ghpe_param" => { st with ghpe := none }
      | "shpe_param" => { st with shpe := none }
      | _ => st)
  else
  match op with
  | "rsa_param" | "rsa_key_param" =>
    match hexN kv "n", hexN kv "e", hexN kv "d", hexN kv "p", hexN kv "q", hexN kv "dp", hexN kv "dq", hexN kv "qi" with
    | some n, some e, some d, some p, some q, some dp, some dq, some qi =>
      let key : RsaKey := { n := n, e := e, d := d, p := p, q := q, dp := dp, dq := dq, qi := qi }
      let pad := match kv.lookup "pad" with
        | some "1" => RsaPad.basic
        | some "2" => RsaPad.pkcs1
        | _ => RsaPad.pkcs2
      let crt := kv.lookup "crt" == some "1"
      let bits := (args.headD "0").toNat?.getD 0
      let gen := op == "rsa_param"
      let bad := chk (kv.lookup "rc" == some "0") "rc != 0" ++ chk (rsaKeyOk key) "n = p*q, p != q, e*d = 1 mod lcm(p-1, q-1)" ++
        chk (!crt || rsaCrtOk key) "dp = d mod p-1, dq = d mod q-1, qi*q = 1 mod p" ++
        chk (hexN kv "np" == some n) "private modulus = public modulus" ++
        chk (probPrime p && probPrime q) "p, q prime" ++
        chk (!gen || (bitLen p = bits / 2 ∧ bitLen q = bits / 2)) "factor lengths = bits/2"
      (verdictLine ("rsa_param,k=" ++ toString (byteLen n) ++ ",pad=" ++ (kv.lookup "pad").getD "?" ++ ",crt=" ++ (kv.lookup "crt").getD "?") bad got,
        { st with rsa := some { key := key, pad := pad, crt := crt } })
    | _, _, _, _, _, _, _, _ => fail { st with rsa := none }
  | "rabin_param" =>
    match hexN kv "n", hexN kv "p", hexN kv "q", hexI kv "dp", hexI kv "dq" with
    | some n, some p, some q, some dp, some dq =>
      let bits := (args.headD "0").toNat?.getD 0
      let bad := chk (n == p * q && p != q) "n = p*q, p != q" ++ chk (p % 4 == 3 && q % 4 == 3) "p = q = 3 mod 4" ++
        chk (probPrime p && probPrime q) "p, q prime" ++ chk (dp * p + dq * q == 1) "dp*p + dq*q = 1" ++
        chk (hexN kv "np" == some n) "private modulus = public modulus" ++
        chk (bitLen p = bits / 2 ∧ bitLen q = bits / 2) "factor lengths = bits/2"
      (verdictLine ("rabin_param,k=" ++ toString (byteLen n)) bad got, { st with rabin := some { n := n, p := p, q := q, dp := dp, dq := dq } })
    | _, _, _, _, _ => fail { st with rabin := none }
  | "bdpe_param" =>
    match hexN kv "n", hexN kv "p", hexN kv "q", hexN kv "y", hexN kv "t" with
    | some n, some p, some q, some y, some t =>
      let phi := (p - 1) * (q - 1)
      let bad := chk (n == p * q && p != q) "n = p*q" ++ chk (probPrime p && probPrime q && probPrime t) "p, q, t prime" ++
        chk ((p - 1) % t == 0 && Nat.gcd t ((p - 1) / t) == 1 && Nat.gcd t (q - 1) == 1) "t | p-1, gcd(t,(p-1)/t) = gcd(t,q-1) = 1" ++
        chk (Nat.gcd y n == 1 && powMod y (phi / t) n != 1) "y^(phi/t) != 1" ++
        chk (hexN kv "np" == some n && hexN kv "yp" == some y && hexN kv "tp" == some t) "private = public parameters"
      (verdictLine ("bdpe_param,t=" ++ toString t) bad got, { st with bdpe := some { n := n, p := p, q := q, y := y, t := t } })
    | _, _, _, _, _ => fail { st with bdpe := none }
  | "phpe_param" =>
    match hexN kv "n", hexN kv "p", hexN kv "q", hexN kv "dp", hexN kv "dq", hexN kv "qi" with
    | some n, some p, some q, some dp, some dq, some qi =>
      let crt := kv.lookup "crt" == some "1"
      let bits := (args.headD "0").toNat?.getD 0
      let bad := chk (n == p * q && p != q) "n = p*q, p != q" ++ chk (probPrime p && probPrime q) "p, q prime" ++
        chk (Nat.gcd n ((p - 1) * (q - 1)) == 1) "gcd(n, phi) = 1" ++
        chk (hexN kv "np" == some n) "private modulus = public modulus" ++
        chk (bitLen p = bits / 2 ∧ bitLen q = bits / 2) "factor lengths = bits/2" ++
        chk (!crt || ((dp * ((p - 1) * q % p)) % p == 1 && (dq * ((q - 1) * p % q)) % q == 1 && qi * q % p == 1))
          "dp = ((p-1)q)^-1 mod p, dq = ((q-1)p)^-1 mod q, qi = q^-1 mod p"
      (verdictLine "phpe_param" bad got, { st with phpe := some { n := n, p := p, q := q, dp := dp, dq := dq, qi := qi, crt := crt } })
    | _, _, _, _, _, _ => fail { st with phpe := none }
  | "ghpe_param" =>
    match hexN kv "n", hexN kv "l" with
    | some n, some l =>
      -- the factors are not part of the key: φ = l gives p + q = n + 1 − l and (p − q)² = (p + q)² − 4n
      let s := n + 1 - l
      let disc := s * s - 4 * n
      let r := Nat.sqrt disc
      let p := (s - r) / 2
      let q := (s + r) / 2
      let bad := chk (r * r == disc && p * q == n && (p - 1) * (q - 1) == l) "l = phi(n) for a factorisation n = p*q" ++
        chk (probPrime p && probPrime q && p != q) "p, q distinct primes" ++ chk (Nat.gcd n l == 1) "gcd(n, phi) = 1"
      (verdictLine "ghpe_param" bad got, { st with ghpe := some { n := n, l := l } })
    | _, _ => fail { st with ghpe := none }
  | "shpe_param" =>
    match hexN kv "n", hexN kv "g", hexN kv "a", hexN kv "b", hexN kv "p", hexN kv "q" with
    | some n, some g, some a, some b, some p, some q =>
      let bad := chk (n == p * q && p != q) "n = p*q, p != q" ++ chk (probPrime p && probPrime q && probPrime a) "p, q, a prime" ++
        chk (a * b == (p - 1) * (q - 1)) "a*b = (p-1)(q-1)" ++ chk ((p - 1) % a == 0) "a | p-1" ++
        chk (g == powMod (n + 1) b (n * n)) "g = (1+n)^b mod n^2" ++ chk (hexN kv "gp" == some g && hexN kv "np" == some n) "private = public" ++
        chk (Nat.gcd n (a * b) == 1) "gcd(n, phi) = 1"
      (verdictLine "shpe_param" bad got, { st with shpe := some { n := n, g := g, a := a, b := b, p := p, q := q } })
    | _, _, _, _, _, _ => fail { st with shpe := none }
  | _ => ("skip", st)

/-! ### helpers -/

def mutate (c : Bytes) (rest : List String) : Bytes :=
  match rest with
  | [pos, x] =>
    match pos.toNat?, parseHexNat x with
    | some i, some v => if i < c.length then c.set i (c.getD i 0 ^^^ UInt8.ofNat v) else c
    | _, _ => c
  | _ => c

/-- split "c=<hex>[ FLAG] m=<…>" -/
def splitCM (got : String) : Option (String × String) :=
  match got.splitOn " m=" with
  | [c, m] => if c.startsWith "c=" then some ((c.drop 2).toString, m) else none
  | _ => none

def capOut (cap : Nat) : Option Bytes → String
  | some m => if m.length ≤ cap then fmtBytes m else "err"
  | none => "err"

/-- the octets the generator yields after `rand_seed(seed)`: `n` bytes in one request -/
def drbgBytes (seed : Bytes) (n : Nat) : Bytes :=
  match Drbg.randSeed mcfg Drbg.init seed with
  | none => []
  | some x => match Drbg.randBytes mcfg x n with
    | some (b, _) => b
    | none => []

/-- PKCS#1 v1.5 padding string: one-byte requests, zero bytes discarded -/
partial def drbgNonzero (seed : Bytes) (n : Nat) : Bytes :=
  match Drbg.randSeed mcfg Drbg.init seed with
  | none => []
  | some x =>
    let rec go (x : Drbg.Ctx) (n : Nat) (fuel : Nat) (acc : Bytes) : Bytes :=
      if n = 0 ∨ fuel = 0 then acc.reverse else
      match Drbg.randBytes mcfg x 1 with
      | some ([b], x') => if b = 0 then go x' n (fuel - 1) acc else go x' (n - 1) (fuel - 1) (b :: acc)
      | _ => acc.reverse
    go x n (4 * n + 64) []

/-- number of w-bit digits of the trimmed integer (classification of OAEP blocks for the evidence histogram) -/
def usedDigits (w m : Nat) : Nat := if m = 0 then 1 else Nat.log2 m / w + 1

/-- the strings the specification admits for the decryption of `c` under the RSA context -/
def rsaDecSpec (R : RsaCtx) (c : Bytes) (cap : Nat) : List String × List String :=
  let k := byteLen R.key.n
  let strict := rsaDecrypt h256 R.pad R.key c
  let outs := [capOut cap strict]
  -- ciphertext representative ≥ n: RFC 8017 demands rejection; reduction modulo n is tolerated and tagged
  let big := c.length = k ∧ k ≥ R.pad.overhead h256 ∧ os2ip c ≥ R.key.n
  let outs := if big then outs ++ [capOut cap (rsaUnpad h256 R.pad k (i2osp (rsadp R.key.n R.key.d (os2ip c % R.key.n)) k))] else outs
  -- a well-formed encoding of the empty message: the encryption side does not admit it, either answer is tolerated
  let outs := if strict == some [] then outs ++ ["err"] else outs
  -- classification of the encoded message for the evidence histogram and the known-finding predicates
  let em := if c.length = k then i2osp (rsadp R.key.n R.key.d (os2ip c % R.key.n)) k else []
  let shape : List String := match R.pad, em with
    | .pkcs1, y :: t :: rest =>
      if y ≠ 0 then ["rsa.em.first!=0"] else if t ≠ 2 then ["rsa.em.type!=2"]
      else if (rest.dropWhile (· ≠ 0)).isEmpty then ["rsa.em.no-separator"]
      else if (rest.takeWhile (· ≠ 0)).length < 8 then ["rsa.pkcs1.short-ps"] else ["rsa.em.wellformed"]
    | .pkcs2, y :: rest =>
      if y ≠ 0 then ["rsa.em.first!=0"]
      else if usedDigits 64 (os2ip (rest.drop 32)) < (k - 33 + 7) / 8 then ["rsa.oaep.top-digit-zero"] else []
    | _, _ => []
  (outs.eraseDups, (if big then ["rsa.c>=n"] else []) ++ (if strict == some [] then ["rsa.empty-msg"] else []) ++
    [if strict.isSome then "rsa.dec.accept" else "rsa.dec.reject"] ++ shape)

def handleRsa (R : RsaCtx) (op : String) (args : List String) (got : String) : Option Verdict :=
  let k := byteLen R.key.n
  let ovh := R.pad.overhead h256
  match op, args with
  | "rsa_enc", seed :: cap :: dcap :: msg :: rest => do
    let seed ← parseBytes seed
    let cap ← cap.toNat?
    let dcap ← dcap.toNat?
    let msg ← parseBytes msg
    let admissible := k ≥ ovh ∧ 1 ≤ msg.length ∧ msg.length ≤ k - ovh ∧ k ≤ cap
    -- model column: the exact ciphertext from the modelled generator, then the modelled decryption
    let rnd := match R.pad with
      | .basic => []
      | .pkcs1 => drbgNonzero seed (k - 3 - msg.length)
      | .pkcs2 => drbgBytes seed 32
    let mdl := match Cp.rsaEnc h256 R.pad R.key msg rnd cap with
      | none => "err"
      | some c =>
        let c := mutate c rest
        "c=" ++ fmtBytes c ++ " m=" ++ optBytes (Cp.rsaDec h256 R.pad R.crt R.key c dcap)
    if !admissible then
      some { model := mdl, spec := ["err"], tags := ["rsa.enc.reject", if k < ovh then "rsa.k<overhead" else if msg.length = 0 then "rsa.len=0" else if k ≤ cap then "rsa.len>max" else "rsa.cap<k"] }
    else
      match splitCM got with
      | none => some { model := mdl, spec := ["c=<ciphertext of " ++ toString k ++ " octets> m=<message>"], tags := ["rsa.enc"] }
      | some (chex, _) =>
        let c := (parseBytes chex).getD []
        let (outs, tags) := rsaDecSpec R c dcap
        let honest := rest.isEmpty
        -- an honest ciphertext must decrypt (textbook, private exponent) to exactly the message
        let okHonest := !honest || (c.length == k && rsaDecrypt h256 R.pad R.key c == some msg)
        let spec := if okHonest then outs.map (fun o => "c=" ++ chex ++ " m=" ++ o) else ["c=<an encryption of the message> m=" ++ fmtBytes msg]
        let lenTag := if msg.length = k - ovh then "rsa.len=max" else if msg.length = 1 then "rsa.len=1" else "rsa.len=mid"
        some { model := mdl, spec := spec, tags := (if honest then ["rsa.enc.honest", lenTag] else ["rsa.enc.mutated"]) ++ tags ++
          (if msg.headD 1 = 0 then ["rsa.leading-zero"] else []) ++ (if dcap < msg.length then ["rsa.deccap<len"] else []) }
  | "rsa_dec", [cap, ct] => do
    let cap ← cap.toNat?
    let c ← parseBytes ct
    let (outs, tags) := rsaDecSpec R c cap
    some { model := optBytes (Cp.rsaDec h256 R.pad R.crt R.key c cap), spec := outs,
           tags := tags ++ (if c.length ≠ k then ["rsa.dec.wrong-length"] else []) }
  | _, _ => none

/-! ### Rabin -/

def rabinDecSpec (R : RabinCtx) (c : Bytes) (cap : Nat) : List String × List String :=
  let k := byteLen R.n
  let cands := rabinDecrypt R.n R.p R.q (os2ip c)
  -- admitted answers: every plaintext the ciphertext integer admits; rejection when there is none
  let outs := if cands.isEmpty then ["err"] else cands.map fun m => capOut cap (some m)
  -- ciphertext strings of another length than the modulus / representatives ≥ n / the empty message: either answer tolerated
  let odd := c.length ≠ k ∨ os2ip c ≥ R.n ∨ cands.contains []
  ((if odd then outs ++ ["err"] else outs).eraseDups,
    [if cands.isEmpty then "rabin.dec.reject" else "rabin.dec.accept"] ++ (if odd then ["rabin.odd-input"] else []) ++
    (if os2ip c % R.n = 0 then ["rabin.c=0"] else []))

def handleRabin (R : RabinCtx) (op : String) (args : List String) (got : String) : Option Verdict :=
  let k := byteLen R.n
  match op, args with
  | "rabin_enc", cap :: dcap :: msg :: rest => do
    let cap ← cap.toNat?
    let dcap ← dcap.toNat?
    let msg ← parseBytes msg
    let admissible := k ≥ 10 ∧ 1 ≤ msg.length ∧ msg.length ≤ k - 10 ∧ k ≤ cap
    let cI := rabinBlock msg * rabinBlock msg % R.n
    let cM := mutate (i2osp cI k) rest
    let mdl := if !admissible then "err" else "c=" ++ fmtBytes cM ++ " m=" ++ optBytes (Cp.rabinDec R.n R.p R.q R.dp R.dq cM dcap)
    if !admissible then some { model := mdl, spec := ["err"], tags := ["rabin.enc.reject"] }
    else
      match splitCM got with
      | none => some { model := mdl, spec := ["c=<ciphertext> m=<message>"], tags := ["rabin.enc"] }
      | some (chex, _) =>
        let c := (parseBytes chex).getD []
        let honest := rest.isEmpty
        let okHonest := !honest || (c.length == k && os2ip c == cI && (rabinDecrypt R.n R.p R.q cI).contains msg)
        let (outs, tags) := rabinDecSpec R c dcap
        -- honest: the answer must be the message itself (another root passing the redundancy test has probability 2^-64)
        let outs := if honest then [capOut dcap (some msg)] else outs
        let spec := if okHonest then outs.map (fun o => "c=" ++ chex ++ " m=" ++ o) else ["c=<(FF|D|red)^2 mod n> m=" ++ fmtBytes msg]
        some { model := mdl, spec := spec, tags := (if honest then ["rabin.enc.honest", if msg.length = k - 10 then "rabin.len=max" else "rabin.len<max"] else ["rabin.enc.mutated"]) ++ tags }
  | "rabin_dec", [cap, ct] => do
    let cap ← cap.toNat?
    let c ← parseBytes ct
    let (outs, tags) := rabinDecSpec R c cap
    -- a ciphertext shorter than the redundancy cannot be an encryption
    let outs := if c.length < 8 then ["err"] else outs
    some { model := optBytes (Cp.rabinDec R.n R.p R.q R.dp R.dq c cap), spec := outs, tags := tags }
  | _, _ => none

/-! ### Benaloh -/

def bdpeOut : Option Nat → String
  | some m => natToHex m
  | none => "err"

def handleBdpe (B : BdpeCtx) (op : String) (args : List String) (got : String) : Option Verdict :=
  let k := byteLen B.n
  let dec := fun (c : Bytes) => if c.length ≠ k then none else bdpeDecrypt B.n B.p B.q B.y B.t (os2ip c)
  match op, args with
  | "bdpe_enc", _ :: cap :: m :: rest => do
    let cap ← cap.toNat?
    let m ← parseHexNat m
    -- plaintext space Z_t
    if m ≥ B.t ∨ cap < k then some { model := got, spec := ["err"], tags := ["bdpe.enc.reject", if m = B.t then "bdpe.m=t" else "bdpe.m>t|cap"] }
    else
      match splitCM got with
      | none => some { model := got, spec := ["c=<ciphertext> m=" ++ natToHex m], tags := ["bdpe.enc"] }
      | some (chex, _) =>
        let c := (parseBytes chex).getD []
        let honest := rest.isEmpty
        let d := dec c
        let ok := !honest || d == some m
        some { model := got, spec := if ok then ["c=" ++ chex ++ " m=" ++ bdpeOut d] else ["c=<y^m u^t mod n> m=" ++ natToHex m],
               tags := [if honest then "bdpe.enc.honest" else "bdpe.enc.mutated"] ++ (if m + 1 = B.t then ["bdpe.m=t-1"] else if m = 0 then ["bdpe.m=0"] else []) }
  | "bdpe_dec", [ct] => do
    let c ← parseBytes ct
    some { model := got, spec := [bdpeOut (dec c)], tags := [if c.length ≠ k then "bdpe.dec.wrong-length" else "bdpe.dec"] }
  | "bdpe_add", [_, m1, _, m2] => do
    let m1 ← parseHexNat m1
    let m2 ← parseHexNat m2
    if m1 ≥ B.t ∨ m2 ≥ B.t then some { model := got, spec := ["err"], tags := ["bdpe.add.reject"] } else
    match splitCM got with
    | none => some { model := got, spec := ["c=<product> m=" ++ natToHex ((m1 + m2) % B.t)], tags := ["bdpe.add"] }
    | some (chex, _) =>
      let c := (parseBytes chex).getD []
      let ok := dec c == some ((m1 + m2) % B.t)
      some { model := got, spec := if ok then ["c=" ++ chex ++ " m=" ++ natToHex ((m1 + m2) % B.t)] else ["c=<decrypts to m1+m2 mod t>"],
             tags := ["bdpe.add", if m1 + m2 ≥ B.t then "bdpe.add.wrap" else "bdpe.add.nowrap"] }
  | _, _ => none

/-! ### Paillier family -/

def handlePhpe (P : PhpeCtx) (op : String) (args : List String) (got : String) : Option Verdict :=
  let n := P.n
  let dec := fun (c : Nat) => paillierDecrypt n P.p P.q c
  let mdlDec := fun (c : Nat) => if P.crt then Cp.phpeDecCrt P.p P.q P.dp P.dq P.qi c else Cp.phpeDecPlain n P.p P.q c
  match op, args with
  | "phpe_enc", [_, m] => do
    let m ← parseHexNat m
    let kv := kvOf got
    if bitLen m > bitLen n then some { model := got, spec := ["err"], tags := ["phpe.enc.reject"] } else
    match hexN kv "c" with
    | none =>
      -- plaintexts in [n, 2^bits(n)) are outside Z_n: rejection is what the scheme asks for
      some { model := got, spec := if m ≥ n then ["err"] else ["c=<ciphertext> m=" ++ natToHex m], tags := ["phpe.enc"] }
    | some c =>
      let okC := c < n * n ∧ Nat.gcd c n = 1 ∧ dec c = m % n
      let mdl := "c=" ++ natToHex c ++ " m=" ++ natToHex (mdlDec c)
      -- m ≥ n (same bit length) is not a plaintext of the scheme: tolerated when it is treated as m mod n or rejected
      some { model := mdl, spec := if okC then ["c=" ++ natToHex c ++ " m=" ++ natToHex (m % n)] ++ (if m ≥ n then ["err"] else [])
                                    else ["c=<(1+n)^m r^n mod n^2> m=" ++ natToHex m],
             tags := ["phpe.enc.honest"] ++ (if m ≥ n then ["phpe.m>=n"] else if m + 1 = n then ["phpe.m=n-1"] else if m = 0 then ["phpe.m=0"] else []) }
  | "phpe_dec", [c] => do
    let c ← parseHexNat c
    if bitLen c > 2 * bitLen n then some { model := got, spec := ["err"], tags := ["phpe.dec.too-long"] } else
    -- outside Z*_{n²} the decryption function is not defined: anything is tolerated
    if Nat.gcd c n ≠ 1 then some { model := got, spec := [got], tags := ["phpe.dec.noncoprime"] } else
    some { model := natToHex (mdlDec c), spec := [natToHex (dec (c % (n * n)))], tags := ["phpe.dec"] }
  | "phpe_add", [_, m1, _, m2] => do
    let m1 ← parseHexNat m1
    let m2 ← parseHexNat m2
    let kv := kvOf got
    match hexN kv "c1", hexN kv "c2", hexN kv "c" with
    | some c1, some c2, some c =>
      let ok := dec c1 = m1 % n ∧ dec c2 = m2 % n ∧ c = c1 * c2 % (n * n) ∧ dec c = (m1 + m2) % n
      some { model := "c1=" ++ natToHex c1 ++ " c2=" ++ natToHex c2 ++ " c=" ++ natToHex (c1 * c2 % (n * n)) ++ " m=" ++ natToHex (mdlDec c),
             spec := if ok then ["c1=" ++ natToHex c1 ++ " c2=" ++ natToHex c2 ++ " c=" ++ natToHex c ++ " m=" ++ natToHex ((m1 + m2) % n)]
                     else ["c = c1*c2 mod n^2 decrypting to m1+m2 mod n = " ++ natToHex ((m1 + m2) % n)],
             tags := ["phpe.add", if m1 + m2 ≥ n then "phpe.add.wrap" else "phpe.add.nowrap"] }
    | _, _, _ => some { model := got, spec := ["c1= c2= c= m=" ++ natToHex ((m1 + m2) % n)], tags := ["phpe.add"] }
  | _, _ => none

def handleGhpe (G : GhpeCtx) (op : String) (args : List String) (got : String) : Option Verdict :=
  let n := G.n
  match op, args with
  | "ghpe_enc", [_, s, m] => do
    let s ← s.toNat?
    let m ← parseHexNat m
    let ns := n ^ s
    if bitLen m > s * bitLen n then some { model := got, spec := ["err"], tags := ["ghpe.enc.reject"] } else
    match hexN (kvOf got) "c" with
    | none => some { model := got, spec := if m ≥ ns then ["err"] else ["c=<ciphertext> m=" ++ natToHex m], tags := ["ghpe.enc", "ghpe.s=" ++ toString s] }
    | some c =>
      let okC := c < ns * n ∧ Nat.gcd c n = 1 ∧ djDecrypt n G.l s c = m % ns
      some { model := got, spec := if okC then ["c=" ++ natToHex c ++ " m=" ++ natToHex (m % ns)] ++ (if m ≥ ns then ["err"] else [])
                                    else ["c=<(1+n)^m r^(n^s) mod n^(s+1)> m=" ++ natToHex m],
             tags := ["ghpe.enc.honest", "ghpe.s=" ++ toString s] ++ (if m ≥ ns then ["ghpe.m>=n^s"] else if m + 1 = ns then ["ghpe.m=n^s-1"] else []) }
  | "ghpe_dec", [s, c] => do
    let s ← s.toNat?
    let c ← parseHexNat c
    if bitLen c > (s + 1) * bitLen n then some { model := got, spec := ["err"], tags := ["ghpe.dec.too-long"] } else
    if Nat.gcd c n ≠ 1 then some { model := got, spec := [got], tags := ["ghpe.dec.noncoprime"] } else
    some { model := got, spec := [natToHex (djDecrypt n G.l s (c % n ^ (s + 1)))], tags := ["ghpe.dec", "ghpe.s=" ++ toString s] }
  | "ghpe_add", [s, _, m1, _, m2] => do
    let s ← s.toNat?
    let m1 ← parseHexNat m1
    let m2 ← parseHexNat m2
    let ns := n ^ s
    match hexN (kvOf got) "c" with
    | some c =>
      let ok := djDecrypt n G.l s c = (m1 + m2) % ns
      some { model := got, spec := if ok then ["c=" ++ natToHex c ++ " m=" ++ natToHex ((m1 + m2) % ns)] else ["c=<decrypts to m1+m2 mod n^s> m=" ++ natToHex ((m1 + m2) % ns)],
             tags := ["ghpe.add", "ghpe.s=" ++ toString s, if m1 + m2 ≥ ns then "ghpe.add.wrap" else "ghpe.add.nowrap"] }
    | none => some { model := got, spec := ["c= m=" ++ natToHex ((m1 + m2) % ns)], tags := ["ghpe.add"] }
  | _, _ => none

def handleShpe (S : ShpeCtx) (op : String) (args : List String) (got : String) : Option Verdict :=
  let n := S.n
  let dec := fun (c : Nat) => shpeDecrypt n S.a S.g c
  match op, args with
  | "shpe_enc", [which, _, m] => do
    let m ← parseHexNat m
    match hexN (kvOf got) "c" with
    | none => some { model := got, spec := if m ≥ n then ["err"] else ["c=<ciphertext> m=" ++ natToHex m], tags := ["shpe.enc"] }
    | some c =>
      let okC := c < n * n ∧ Nat.gcd c n = 1 ∧ dec c = m % n
      some { model := got, spec := if okC then ["c=" ++ natToHex c ++ " m=" ++ natToHex (m % n)] ++ (if m ≥ n then ["err"] else [])
                                    else ["c=<g^(m+nr) mod n^2> m=" ++ natToHex m],
             tags := ["shpe.enc.honest." ++ which] ++ (if m ≥ n then ["shpe.m>=n"] else if m + 1 = n then ["shpe.m=n-1"] else []) }
  | "shpe_dec", [c] => do
    let c ← parseHexNat c
    if bitLen c > 2 * bitLen n then some { model := got, spec := ["err"], tags := ["shpe.dec.too-long"] } else
    -- only elements of the subgroup generated by g and the n-th powers are ciphertexts; others are not specified
    some { model := got, spec := [got], tags := ["shpe.dec.unspecified"] }
  | "shpe_add", [_, m1, _, m2] => do
    let m1 ← parseHexNat m1
    let m2 ← parseHexNat m2
    match hexN (kvOf got) "c" with
    | some c =>
      let ok := dec c = (m1 + m2) % n
      some { model := got, spec := if ok then ["c=" ++ natToHex c ++ " m=" ++ natToHex ((m1 + m2) % n)] else ["c=<decrypts to m1+m2 mod n> m=" ++ natToHex ((m1 + m2) % n)],
             tags := ["shpe.add", if m1 + m2 ≥ n then "shpe.add.wrap" else "shpe.add.nowrap"] }
    | none => some { model := got, spec := ["c= m=" ++ natToHex ((m1 + m2) % n)], tags := ["shpe.add"] }
  | _, _ => none

/-! ### secret sharing, triples, set intersection (no context) -/

def parseList (s : String) : Option (List Nat) :=
  if s == "-" then some [] else (s.splitOn ",").mapM parseHexNat

def handleMpc (op : String) (args : List String) (got : String) : Option Verdict :=
  match op, args with
  | "sss", _ :: order :: secret :: k :: n :: subsets => do
    let q ← parseHexNat order
    let secret ← parseHexNat secret
    let k ← k.toNat?
    let n ← n.toNat?
    if k < 2 ∨ n < k then some { model := got, spec := ["err"], tags := ["sss.reject"] } else
    let kv := kvOf got
    match (kv.lookup "x").bind parseList, (kv.lookup "y").bind parseList with
    | some xs, some ys =>
      let pts := xs.zip ys
      let base := pts.take k
      let okShares := xs.length = n ∧ ys.length = n ∧ ys.all (· < q) ∧
        (xs.map (· % q)).eraseDups.length = n ∧ xs.all (· % q ≠ 0) ∧
        lagrangeAt q base 0 = secret % q ∧ (pts.drop k).all (fun pt => lagrangeAt q base pt.1 = pt.2)
      let keys := subsets.map fun s =>
        let idx := (s.splitOn ".").filterMap String.toNat?
        let sub := idx.filterMap fun i => pts[i - 1]?
        if sub.length < 2 then "err" else natToHex (lagrangeAt q sub 0)
      let mkeys := subsets.map fun s =>
        let idx := (s.splitOn ".").filterMap String.toNat?
        let sub := idx.filterMap fun i => pts[i - 1]?
        if sub.length < 2 then "err" else natToHex (Cp.sssKey q sub)
      let line := fun (ks : List String) => "x=" ++ (kv.lookup "x").getD "" ++ " y=" ++ (kv.lookup "y").getD "" ++ " keys=" ++
        (if ks.isEmpty then "-" else String.intercalate "," ks)
      -- every qualifying subset must give back the secret (a consequence of the two checks above, compared directly as well)
      let qual := (subsets.zip keys).all fun (s, key) => (s.splitOn ".").eraseDups.length < k || key == natToHex (secret % q)
      let cls := subsets.map fun s => let c := (s.splitOn ".").eraseDups.length; if c < k then "sss.subset<k" else if c = k then "sss.subset=k" else "sss.subset>k"
      some { model := line mkeys, spec := if okShares ∧ qual then [line keys] else ["shares of a polynomial of degree < k with f(0) = secret"],
             tags := ["sss", if k = n then "sss.k=n" else "sss.k<n"] ++ cls.eraseDups }
    | _, _ => some { model := got, spec := ["x=… y=… keys=…"], tags := ["sss"] }
  | "sss_key", order :: pts => do
    let q ← parseHexNat order
    let pts ← pts.mapM fun t => match t.splitOn ":" with
      | [x, y] => do some ((← parseHexNat x), (← parseHexNat y))
      | _ => none
    if pts.length < 2 then some { model := got, spec := ["err"], tags := ["sss_key.reject"] } else
    some { model := natToHex (Cp.sssKey q pts), spec := [natToHex (lagrangeAt q pts 0)], tags := ["sss_key"] }
  | "mt", [_, order, x0, x1, y0, y1] => do
    let q ← parseHexNat order
    let x0 ← parseHexNat x0
    let x1 ← parseHexNat x1
    let y0 ← parseHexNat y0
    let y1 ← parseHexNat y1
    let kv := kvOf got
    match hexN kv "a0", hexN kv "b0", hexN kv "c0", hexN kv "a1", hexN kv "b1", hexN kv "c1", hexN kv "d", hexN kv "e", hexN kv "r0", hexN kv "r1" with
    | some a0, some b0, some c0, some a1, some b1, some c1, some d, some e, some r0, some r1 =>
      let ok := (a0 + a1) * (b0 + b1) % q = (c0 + c1) % q ∧ [a0, b0, c0, a1, b1, c1, d, e, r0, r1].all (· < q) ∧
        d = (x0 + x1 + 2 * q - a0 - a1) % q ∧ e = (y0 + y1 + 2 * q - b0 - b1) % q ∧
        hexN kv "d1" = some d ∧ hexN kv "e1" = some e ∧
        (r0 + r1) % q = (x0 + x1) * (y0 + y1) % q ∧
        r0 = mtShare q ⟨a0, b0, c0⟩ d e true ∧ r1 = mtShare q ⟨a1, b1, c1⟩ d e false
      some { model := got, spec := if ok then [got] else ["a valid triple and shares r0 + r1 = x*y mod q = " ++ natToHex ((x0 + x1) * (y0 + y1) % q)], tags := ["mt"] }
    | _, _, _, _, _, _, _, _, _, _ => some { model := got, spec := ["tri …"], tags := ["mt"] }
  | "rsapsi", [_, _, _, xs, _, ys] => do
    let xs ← parseList xs
    let ys ← parseList ys
    let exp := sortNat (psiExpected xs ys)
    let kv := kvOf got
    match (kv.lookup "z").bind parseList with
    | some z =>
      let ok := sortNat z = exp ∧ kv.lookup "len" = some (toString exp.length)
      some { model := got, spec := if ok then [got] else ["len=" ++ toString exp.length ++ " z=" ++ String.intercalate "," (exp.map natToHex)],
             tags := ["rsapsi", if exp.isEmpty then "psi.empty" else if exp.length = xs.length then "psi.all" else "psi.some"] }
    | none => some { model := got, spec := ["len=" ++ toString exp.length ++ " z=…"], tags := ["rsapsi"] }
  | _, _ => none

/-! ### prime-curve protocols -/

def keyStr (cap : Nat) : Option Bytes → String
  | some k => if k.length = cap then fmtBytes k else "err"
  | none => "err"

def handleEc (E : C03.Env) (op : String) (args : List String) (got : String) : Option Verdict :=
  let c := E.c
  let size := (max 128 (((E.kv.lookup "level").bind String.toNat?).getD 128) + 7) / 8
  let G := E.g
  match op, args with
  | "ecdh_gen", [_] | "ecmqv_gen", [_] | "ecies_gen", [_] =>
    let kv := kvOf got
    match hexN kv "d", (kv.lookup "q").bind C03.parsePoint with
    | some d, some q =>
      let ok := 0 < d ∧ d < E.n ∧ q = mulNat c G d ∧ q ≠ none
      some { model := got, spec := if ok then [got] else ["d in [1, n), q = d*G"], tags := [op] }
    | _, _ => some { model := got, spec := ["d= q="], tags := [op] }
  | "ecdh", [da, db, len] => do
    let da ← parseHexNat da
    let db ← parseHexNat db
    let len ← len.toNat?
    let qa := mulNat c G da
    let qb := mulNat c G db
    let k1 := ecdhKey h256 c E.h da qb len
    let k2 := ecdhKey h256 c E.h db qa len
    let lead := match mulNat c qb da with
      | some (x, _) => decide (byteLen x < byteLen c.p)
      | none => false
    some { model := got, spec := ["qa=" ++ C03.fmtPoint qa ++ " qb=" ++ C03.fmtPoint qb ++ " k1=" ++ keyStr len k1 ++ " k2=" ++ keyStr len k2],
           tags := ["ecdh"] ++ (if lead then ["ecdh.x-leading-zero"] else []) ++ (if k1.isNone then ["ecdh.infinity"] else []) }
  | "ecdh_key", [d, q, len] => do
    let d ← parseHexNat d
    let q ← C03.parsePoint q
    let len ← len.toNat?
    let k := ecdhKey h256 c E.h d q len
    let lead := match mulNat c q d with
      | some (x, _) => decide (byteLen x < byteLen c.p)
      | none => false
    some { model := got, spec := [keyStr len k], tags := ["ecdh_key"] ++ (if lead then ["ecdh.x-leading-zero"] else []) ++ (if k.isNone then ["ecdh.infinity"] else []) }
  | "ecmqv", [d1a, d2a, d1b, d2b, len] => do
    let d1a ← parseHexNat d1a
    let d2a ← parseHexNat d2a
    let d1b ← parseHexNat d1b
    let d2b ← parseHexNat d2b
    let len ← len.toNat?
    let q1a := mulNat c G d1a
    let q2a := mulNat c G d2a
    let q1b := mulNat c G d1b
    let q2b := mulNat c G d2b
    -- party B (k1) and party A (k2), each from its own secrets and the other's public keys
    let pB := mqvPoint c E.n d1b d2b q2b q1a q2a
    let pA := mqvPoint c E.n d1a d2a q2a q1b q2b
    let key := fun (p : Point) => match p with
      | some (x, _) => some (Mac.kdf2 h256 (fe2osp c x) len)
      | none => none
    let lead := match pB with
      | some (x, _) => decide (byteLen x < byteLen c.p)
      | none => false
    some { model := got, spec := ["q1a=" ++ C03.fmtPoint q1a ++ " q2a=" ++ C03.fmtPoint q2a ++ " q1b=" ++ C03.fmtPoint q1b ++ " q2b=" ++ C03.fmtPoint q2b ++
             " k1=" ++ keyStr len (key pB) ++ " k2=" ++ keyStr len (key pA)],
           tags := ["ecmqv"] ++ (if lead then ["ecmqv.x-leading-zero"] else []) ++ (if pB.isNone then ["ecmqv.infinity"] else []) }
  | "ecies", _ :: d :: cap :: dcap :: msg :: rest => do
    let d ← parseHexNat d
    let cap ← cap.toNat?
    let dcap ← dcap.toNat?
    let msg ← parseBytes msg
    let need := 16 * (msg.length / 16 + 1) + 32
    if cap < need then some { model := got, spec := ["err"], tags := ["ecies.enc.cap<need"] } else
    let kind0 := match rest with
      | ["t", l] => if (l.toNat?.getD 0) < 32 then "ecies.len<tag" else "ecies.truncated"
      | _ => "ecies"
    match got.splitOn " " with
    | rtok :: ctok :: mrest =>
      if !(rtok.startsWith "r=" && ctok.startsWith "c=") then some { model := got, spec := ["r=<R> c=<ciphertext> m=err"], tags := [kind0] } else
      match C03.parsePoint (rtok.drop 2).toString, parseBytes (ctok.drop 2).toString with
      | some r, some ct =>
        let honest := rest.isEmpty
        let okR := r ≠ none ∧ onCurve c r
        let okC := !honest || ct == eciesEncrypt h256 c size d r msg
        let dec := eciesDecrypt h256 c size d r ct
        -- the block-cipher layer asks for room for the padded plaintext; a buffer between the plaintext and the padded length may be refused
        let body := ct.length - 32
        let outs := match dec with
          | none => ["err"]
          | some m => if dcap ≥ body then [fmtBytes m] else if dcap < m.length then ["err"] else [fmtBytes m, "err"]
        let kind := match rest with
          | ["t", _] => kind0
          | [p, _] => if (p.toNat?.getD 0) ≥ body then "ecies.tag-mutated" else "ecies.body-mutated"
          | _ => "ecies.honest"
        some { model := got, spec := if okR ∧ okC then outs.map (fun o => rtok ++ " " ++ ctok ++ " m=" ++ o) else ["r=<point> c=<AES-CBC(k1, m) | HMAC(k2, ·)> m=" ++ fmtBytes msg],
               tags := [kind, if dec.isSome then "ecies.dec.accept" else "ecies.dec.reject"] ++ (if mrest.length > 1 then ["ecies.flag"] else []) }
      | _, _ => some { model := got, spec := ["r= c= m="], tags := ["ecies"] }
    | _ => some { model := got, spec := ["r= c= m="], tags := ["ecies"] }
  | "ecies_dec", [d, r, cap, ct] => do
    let d ← parseHexNat d
    let r ← C03.parsePoint r
    let cap ← cap.toNat?
    let ct ← parseBytes ct
    let dec := eciesDecrypt h256 c size d r ct
    let body := ct.length - 32
    let outs := match dec with
      | none => ["err"]
      | some m => if cap ≥ body then [fmtBytes m] else if cap < m.length then ["err"] else [fmtBytes m, "err"]
    some { model := got, spec := outs, tags := ["ecies_dec", if dec.isSome then "ecies.dec.accept" else "ecies.dec.reject"] ++ (if ct.length < 32 then ["ecies.len<tag"] else []) }
  | "ped", [x, r, hk] => do
    let x ← parseHexNat x
    let r ← parseHexNat r
    let hk ← parseHexNat hk
    let h := mulNat c G hk
    if h = none ∨ x = 0 ∨ x ≥ E.n then some { model := got, spec := ["err"], tags := ["ped.reject"] } else
    some { model := got, spec := ["h=" ++ C03.fmtPoint h ++ " c=" ++ C03.fmtPoint (add c (mulNat c G x) (mulNat c h r))], tags := ["ped"] }
  | _, _ => none

/-! ### pairing-based protocols: the protocol invariants are evaluated on the implementation's own outputs (no pairing
specification on this side; "the value defined by the protocol" is as strong as the pairing property C04) -/

def handlePc (op : String) (args : List String) (got : String) : Option Verdict :=
  match op, args with
  | "ibe", _ :: _ :: cap :: dcap :: msg :: rest => do
    let cap ← cap.toNat?
    let dcap ← dcap.toNat?
    let msg ← parseBytes msg
    let hdr := 65           -- uncompressed G1 point: 1 + 2·32 octets
    if msg.length = 0 ∨ msg.length > 32 ∨ cap < msg.length + hdr then
      some { model := got, spec := ["err"], tags := ["ibe.enc.reject", if msg.length = 0 then "ibe.len=0" else if msg.length > 32 then "ibe.len>max" else "ibe.cap<need"] }
    else
      match splitCM got with
      | none => some { model := got, spec := ["c=<R | m xor H(e(..)^r)> m=" ++ fmtBytes msg], tags := ["ibe"] }
      | some (chex, mstr) =>
        let c := (parseBytes chex).getD []
        let flip := fun (i : Nat) (v : Nat) => msg.set i (msg.getD i 0 ^^^ UInt8.ofNat v)
        let out := fun (m : Bytes) => if m.length ≤ dcap then fmtBytes m else "err"
        let (spec, tag) : List String × String := match rest with
          | [] => ([out msg], "ibe.honest")
          | ["t", l] =>
            let l := min (l.toNat?.getD 0) (msg.length + hdr)
            -- a ciphertext not longer than the point encoding carries no message: refused; otherwise the keystream is a prefix
            (if l ≤ hdr then ["err"] else [out (msg.take (l - hdr))], "ibe.truncated")
          | ["w", _] => (if mstr == fmtBytes msg then ["<anything but the message>"] else [mstr], "ibe.wrong-identity")
          | [pos, x] =>
            let pos := pos.toNat?.getD 0
            let x := (parseHexNat x).getD 0
            if pos ≥ msg.length + hdr then ([out msg], "ibe.honest")
            else if pos ≥ hdr then ([out (flip (pos - hdr) x)], "ibe.body-mutated")   -- the scheme is malleable by design (no integrity)
            else (if mstr == fmtBytes msg then ["err"] else [mstr], "ibe.point-mutated")
          | _ => ([out msg], "ibe")
        let okLen := c.length = (match rest with
          | ["t", l] => min (l.toNat?.getD 0) (msg.length + hdr)
          | _ => msg.length + hdr)
        some { model := got, spec := if okLen then spec.map (fun o => "c=" ++ chex ++ " m=" ++ o) else ["c=<" ++ toString (msg.length + hdr) ++ " octets>"],
               tags := [tag, if msg.length = 32 then "ibe.len=max" else "ibe.len<max"] }
  | "bgn", [_, m1, m2, m3, m4] => do
    let m1 ← parseHexNat m1
    let m2 ← parseHexNat m2
    let m3 ← parseHexNat m3
    let m4 ← parseHexNat m4
    some { model := got, spec := ["d1=" ++ natToHex m1 ++ " d2=" ++ natToHex m2 ++ " mul=" ++ natToHex (m1 * m2) ++ " add=" ++ natToHex (m1 * m2 + m3 * m4)],
           tags := ["bgn"] ++ (if m1 * m2 = 0 then ["bgn.zero"] else []) }
  | "sok", [_, ida, idb, len] => do
    let len ← len.toNat?
    if ida == idb then some { model := got, spec := ["k1=err k2=err"], tags := ["sok.same-identity"] } else
    let kv := kvOf got
    let ok := match kv.lookup "k1", kv.lookup "k2" with
      | some a, some b => a == b && a != "err" && (a.length == 2 * len || (len == 0 && a == "."))
      | _, _ => false
    let prefixCase := ida.startsWith idb || idb.startsWith ida
    some { model := got, spec := if ok && (got.splitOn " ").length == 2 then [got] else ["k1 = k2 (" ++ toString len ++ " octets)"],
           tags := ["sok", if prefixCase then "sok.prefix-ids" else if ida.length == idb.length then "sok.same-length-ids" else "sok.ids"] }
  | "pbpsi", [_, _, xs, _, ys] | "shipsi", [_, _, _, xs, _, ys] => do
    let xs ← parseList xs
    let ys ← parseList ys
    let exp := sortNat (psiExpected xs ys)
    let kv := kvOf got
    match (kv.lookup "z").bind parseList with
    | some z =>
      let ok := sortNat z = exp ∧ kv.lookup "len" = some (toString exp.length)
      some { model := got, spec := if ok then [got] else ["len=" ++ toString exp.length ++ " z=" ++ (if exp.isEmpty then "-" else String.intercalate "," (exp.map natToHex))],
             tags := [op, "psi.m=" ++ toString xs.length, if exp.isEmpty then "psi.empty" else if exp.length = xs.length then "psi.all" else "psi.some"] }
    | none => some { model := got, spec := ["len=" ++ toString exp.length ++ " z=…"], tags := [op] }
  | "pcdel", [v, _, tam] => do
    let tam ← tam.toInt?
    let n := match v with
      | "pdpub" => 3
      | "lvpub" => 2
      | "pdprv" => 4
      | _ => 3
    let honest := tam < 0 ∨ tam ≥ n
    let tail := " msgs=" ++ toString n
    -- honest helper: accepted with the pairing value; one altered message: rejected (return value 0), whatever the output slot holds
    some { model := got, spec := if honest then ["ver=1 eq=1 unity=0" ++ tail] else ["ver=0 eq=0 unity=1" ++ tail, "ver=0 eq=0 unity=0" ++ tail],
           tags := ["pcdel." ++ v, if honest then "pcdel.honest" else "pcdel.dishonest"] }
  | "mpcpc", [v, _, _, _] =>
    some { model := got, spec := ["pub=1 eq=1"], tags := ["mpcpc." ++ v] }
  | _, _ => none

def handle (st : State) (ep : Option C03.Env) (op : String) (args : List String) (got : String) : Option Verdict :=
  (st.rsa.bind fun R => handleRsa R op args got) <|>
  (st.rabin.bind fun R => handleRabin R op args got) <|>
  (st.bdpe.bind fun B => handleBdpe B op args got) <|>
  (st.phpe.bind fun P => handlePhpe P op args got) <|>
  (st.ghpe.bind fun G => handleGhpe G op args got) <|>
  (st.shpe.bind fun S => handleShpe S op args got) <|>
  (handleMpc op args got) <|> (handlePc op args got) <|>
  (ep.bind fun E => handleEc E op args got)

end Driver.C06
