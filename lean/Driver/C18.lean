/- C18: the values the running library reports for the active parameter set ("derived column") against the
   table extracted from the source (RelicVerif/Gen/Params.lean). -/
import Driver.C03
import RelicVerif.Model.ParamBase
import RelicVerif.Gen.Params

namespace Driver.C18
open Driver Relic.Model.Param Relic.Gen

def checkAgainstTable (e : C03.Env) : List String :=
  match (e.kv.lookup "id").bind String.toNat? with
  | none => ["no id"]
  | some id =>
    match Params.curves.find? (·.id == id) with
    | none => ["curve id " ++ toString id ++ " is selectable in the library but absent from the extracted table"]
    | some c =>
      match lookupField Params.fields c.field with
      | none => ["field " ++ c.field ++ " absent from the extracted table"]
      | some f =>
        let p := f.prime
        let cv := curveOf p c
        (if e.c.p == p then [] else ["p differs from the table"]) ++
        (if e.c.a == cv.a then [] else ["a differs from the table"]) ++
        (if e.c.b == cv.b then [] else ["b differs from the table"]) ++
        (if e.g == some (c.gx, c.gy) then [] else ["generator differs from the table"]) ++
        (if e.n == c.r then [] else ["order differs from the table"]) ++
        (if e.h == c.h then [] else ["cofactor differs from the table"]) ++
        (if (e.kv.lookup "endom" == some "1") == c.endom then [] else ["endomorphism flag differs from the table"]) ++
        (if (e.kv.lookup "pairf" != some "0") == (c.pairf != "") then [] else ["pairing-family flag differs from the table"]) ++
        -- the affine reference evaluation of r • G = O agrees with the Jacobian evaluation the kernel checked
        (if (Relic.Spec.Curve.mul e.c e.g c.r == none) == jMulIsInfty cv c.gx c.gy c.r then [] else ["affine and Jacobian evaluations of r*G disagree"]) ++
        -- advertised embedding degree and security level
        (if c.pairf == "EP_BN" then (if e.kv.lookup "embed" == some "12" then [] else ["embedding degree is not 12"]) else []) ++
        (match (e.kv.lookup "level").bind String.toNat? with
         | some l =>
           -- generic-group security: half the order size, capped by the table in ep_param_level for pairing curves
           let half := (Nat.log2 c.r + 1) / 2
           if l ≤ half ∧ l + 32 ≥ half then [] else ["advertised security level " ++ toString l ++ " inconsistent with a " ++ toString (Nat.log2 c.r + 1) ++ "-bit order"]
         | none => ["no level"])

end Driver.C18
